import QuartzModel.Logger.Simple
import Driver.Util
/-! logger engine of the line-protocol driver (C18)

* `logger simple <threshold> <level-name> <msg-hex> <arg-hex>*` → `-` (nothing written) or the hex of the exact bytes written
* `logger slog <threshold> <level-name> <msg-hex> <arg-hex>*` → `-` or `<slog level> <msg-hex> <key-hex>=<value-hex>,…`
  (handler enabled iff level ≥ threshold)
* `logger noop <level-name> <msg-hex> <arg-hex>*` → `-`
-/
namespace Driver
open Logger

def loggerShowAttrs (l : List (String × String)) : String :=
  if l.isEmpty then "-" else ",".intercalate (l.map (fun kv => hexStr kv.1 ++ "=" ++ hexStr kv.2))

def loggerStep (ws : List String) : String :=
  match ws with
  | "simple" :: thr :: lvl :: msg :: args =>
    match parseInt? thr, Lvl.ofString lvl, unhexStr msg, args.mapM unhexStr with
    | some thr, some lvl, some msg, some args =>
      (match simpleLog thr lvl msg args with
       | some line => hexStr line
       | none => "-")
    | _, _, _, _ => "bad-op"
  | "slog" :: thr :: lvl :: msg :: args =>
    match parseInt? thr, Lvl.ofString lvl, unhexStr msg, args.mapM unhexStr with
    | some thr, some lvl, some msg, some args =>
      (match slogLog (fun l => decide (l ≥ thr)) lvl msg args with
       | some r => s!"{r.level} {hexStr r.msg} {loggerShowAttrs r.attrs}"
       | none => "-")
    | _, _, _, _ => "bad-op"
  | "noop" :: lvl :: msg :: args =>
    match Lvl.ofString lvl, unhexStr msg, args.mapM unhexStr with
    | some lvl, some msg, some args =>
      (match noopLog lvl msg args with
       | some line => hexStr line
       | none => "-")
    | _, _, _ => "bad-op"
  | _ => "bad-op"

end Driver
