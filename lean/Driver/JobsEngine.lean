import QuartzModel.Jobs.Status
import Driver.Util
/-! jobs engine of the line-protocol driver (C16)

* `jobs curl <code|nil> <err 0|1>` / `jobs shell <exit> <runerr 0|1>` / `jobs function <err 0|1>` → `ok|failure`
* `jobs new` resets the three model job objects; `jobs seq …` executes on them and reports the accessors:
  * `jobs seq function <err 0|1> <errtext-hex> <result-hex>` → `<status> <result-hex> <err-hex> ret=<err-hex>`
  * `jobs seq shell <exit> <runerr 0|1> <stdout-hex> <stderr-hex>` → `<status> <exit> <stdout-hex> <stderr-hex> ret=<0|1>`
  * `jobs seq curl <code|nil> <body-id|nil> <err 0|1>` → `<status> <code|nil> open=<n> closes=<n> ret=<0|1>`
-/
namespace Driver
open Jobs

structure JobsSt where
  fn : FnFields String := FnFields.init
  sh : ShFields := {}
  cu : CuState := {}

def jobsOptHex : Option String → String
  | none => "nil"
  | some s => hexStr s

def jobsStep (st : JobsSt) (ws : List String) : JobsSt × String :=
  match ws with
  | ["new"] => ({}, "ok")
  | ["curl", code, _err] =>
    if code = "nil" then (st, (curlStatus none).show)
    else match code.toNat? with
      | some c => (st, (curlStatus (some c)).show)
      | none => (st, "bad-op")
  | ["shell", exit, runerr] =>
    match parseInt? exit with
    | some _ => (st, (shellStatus (runerr == "1")).show)
    | none => (st, "bad-op")
  | ["function", err] => (st, (functionStatus (err == "1")).show)
  | ["seq", "function", err, etext, res] =>
    match unhexStr etext, unhexStr res with
    | some etext, some res =>
      let o : FnOut String := { result := res, err := if err == "1" then some etext else none }
      let f := fnStore o
      ({ st with fn := f }, s!"{f.status.show} {hexStr f.result} {jobsOptHex f.err} ret={jobsOptHex (fnReturn o)}")
    | _, _ => (st, "bad-op")
  | ["seq", "shell", exit, runerr, so, se] =>
    match parseInt? exit, unhexStr so, unhexStr se with
    | some exit, some so, some se =>
      let o : ShOut := { exitCode := exit, runErr := runerr == "1", stdout := so, stderr := se }
      let f := shStore o
      ({ st with sh := f }, s!"{f.status.show} {f.exitCode} {hexStr f.stdout} {hexStr f.stderr} ret={b01' (shReturn o)}")
    | _, _, _ => (st, "bad-op")
  | ["seq", "curl", code, body, err] =>
    let resp : Option (Option Resp) :=
      if code = "nil" then some none
      else match code.toNat? with
        | some c => if body = "nil" then some (some { code := c, body := none })
                    else (body.toNat?).map (fun b => some { code := c, body := some b })
        | none => none
    match resp with
    | some resp =>
      let o : CuOut := { resp := resp, err := err == "1" }
      let s := cuStore true st.cu o
      let codeStr := match s.response with | some r => toString r.code | none => "nil"
      ({ st with cu := s }, s!"{s.status.show} {codeStr} open={s.openBodies.length} closes={s.closes} ret={b01' (cuReturn o)}")
    | none => (st, "bad-op")
  | _ => (st, "bad-op")
where
  b01' (b : Bool) : String := if b then "1" else "0"

end Driver
