import QuartzModel.Sched.Retry
import Driver.Util
/-! retry engine of the line-protocol driver (C13):
`retry run <maxRetries> <script over o|e|p, "-" = empty> <cancelAt | ->`
answers `attempts=<n> waits=<w> end=<succeeded|gaveup|cancelled|recovered>` -/
namespace Driver
open Sched.Retry

def retryParseOutcome (c : Char) : Option Outcome :=
  if c = 'o' then some .ok else if c = 'e' then some .err else if c = 'p' then some .panic else none

def retryParseScript (s : String) : Option (List Outcome) :=
  if s = "-" then some [] else s.toList.mapM retryParseOutcome

def retryParseCancel (s : String) : Option (Option Nat) :=
  if s = "-" then some none else s.toNat?.map some

def retryShowEnd : End → String
  | .succeeded => "succeeded" | .gaveUp => "gaveup" | .cancelled => "cancelled" | .recovered => "recovered"

def retryStep (st : Unit) (ws : List String) : Unit × String :=
  match ws with
  | ["run", m, s, c] =>
    match parseInt? m, retryParseScript s, retryParseCancel c with
    | some m, some s, some c =>
      let r := executeWithRetries m s c
      (st, s!"attempts={r.attempts.length} waits={r.waits} end={retryShowEnd r.ending}")
    | _, _, _ => (st, "bad-op")
  | _ => (st, "bad-op")

end Driver
