import QuartzModel.Queue.JobQueue
import Driver.Util
/-! queue engine of the line-protocol driver -/
namespace Driver
open Queue

def showEntry (e : Entry) : String :=
  s!"{hexStr e.group}/{hexStr e.name}/{e.prio}/{if e.suspended then 1 else 0}/{e.tag}"

def showErr : QErr → String
  | .queueEmpty => "err empty"
  | .jobNotFound => "err notfound"
  | .jobAlreadyExists => "err exists"

def parseOp : String → Option StrOp
  | "eq" => some .equals | "sw" => some .startsWith | "ew" => some .endsWith | "ct" => some .contains
  | _ => none

def parseMatcher (s : String) : Option Matcher :=
  match s.splitOn ":" with
  | ["n", op, p] => do let o ← parseOp op; let p ← unhexStr p; pure (.name o p)
  | ["g", op, p] => do let o ← parseOp op; let p ← unhexStr p; pure (.group o p)
  | ["s", "1"] => some (.status true)
  | ["s", "0"] => some (.status false)
  | _ => none

def showList (l : List Entry) : String := "ok " ++ ";".intercalate (l.map showEntry)

def queueStep (a : Arr) (ws : List String) : Arr × String :=
  match ws with
  | ["new"] => (#[], "ok")
  | ["push", g, n, p, s, r, t] =>
    match unhexStr g, unhexStr n, parseInt? p, t.toNat? with
    | some g, some n, some p, some t =>
      match qpush a { group := g, name := n, prio := p, suspended := s == "1", replace := r == "1", tag := t } with
      | .ok a' => (a', "ok")
      | .error e => (a, showErr e)
    | _, _, _, _ => (a, "bad-op")
  | ["pop"] => match qpop a with
    | .ok (a', e) => (a', "ok " ++ showEntry e)
    | .error e => (a, showErr e)
  | ["head"] => match qhead a with
    | .ok e => (a, "ok " ++ showEntry e)
    | .error e => (a, showErr e)
  | ["get", g, n] => match unhexStr g, unhexStr n with
    | some g, some n => match qget a g n with
      | .ok e => (a, "ok " ++ showEntry e)
      | .error e => (a, showErr e)
    | _, _ => (a, "bad-op")
  | ["remove", g, n] => match unhexStr g, unhexStr n with
    | some g, some n => match qremove a g n with
      | .ok (a', e) => (a', "ok " ++ showEntry e)
      | .error e => (a, showErr e)
    | _, _ => (a, "bad-op")
  | ["size"] => (a, s!"ok {a.size}")
  | ["clear"] => (#[], "ok")
  | "list" :: ms => match ms.mapM parseMatcher with
    | some ms => (a, showList (qlist a ms))
    | none => (a, "bad-op")
  | _ => (a, "bad-op")

end Driver
