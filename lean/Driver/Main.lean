import Driver.CronEngine
import Driver.QueueEngine
import Driver.SchedEngine
import Driver.RetryEngine
import Driver.JobsEngine
import Driver.LoggerEngine
/-! `qmodel`: one operation per input line, one answer per output line. -/
namespace Driver

structure State where
  cron : CronState := {}
  queue : Queue.Arr := #[]
  sched : SchedSt := {}
  jobs : JobsSt := {}

def step (st : State) (line : String) : State × String :=
  match words line with
  | "cron" :: ws => let (c, out) := cronStep st.cron ws; ({ st with cron := c }, out)
  | "queue" :: ws => let (q, out) := queueStep st.queue ws; ({ st with queue := q }, out)
  | "sched" :: ws => let (q, out) := schedStep st.sched ws; ({ st with sched := q }, out)
  | "retry" :: ws => (st, (retryStep () ws).2)
  | "jobs" :: ws => let (j, out) := jobsStep st.jobs ws; ({ st with jobs := j }, out)
  | "logger" :: ws => (st, loggerStep ws)
  | _ => (st, "bad-op")

partial def loop (hin hout : IO.FS.Stream) (st : State) : IO Unit := do
  let line ← hin.getLine
  if line.isEmpty then return ()
  let (st', out) := step st (line.trimAsciiEnd.toString)
  hout.putStrLn out
  hout.flush
  loop hin hout st'

end Driver

def main : IO Unit := do
  let hin ← IO.getStdin
  let hout ← IO.getStdout
  Driver.loop hin hout {}
  hout.flush
