import QuartzModel.Cron.Parse
import QuartzModel.Cron.NextFire
import QuartzModel.Generated.Facts
import Driver.Util
/-! cron engine of the line-protocol driver -/
namespace Driver
open Cron Cal

structure CronState where
  zones : List (String × TZ) := []

def showOutcome : Outcome → String
  | .ok ns => s!"ok {ns}"
  | .expired => "expired"
  | .outOfFuel => "fuel"

def showField (f : Field) : String := s!"{f.n}:{showNatList f.values}"

def showFields (f : Fields) : String :=
  " ".intercalate [showField f.sec, showField f.min, showField f.hour, showField f.dom,
    showField f.month, showField f.dow, showField f.year]

def parsePairs : List String → Option (List (Int × Int))
  | [] => some []
  | a :: b :: t => do
    let x ← parseInt? a; let y ← parseInt? b; let r ← parsePairs t; pure ((x, y) :: r)
  | _ => none

def cronStep (st : CronState) (ws : List String) : CronState × String :=
  let lim := Generated.limits
  let bs := Generated.bounds
  match ws with
  | ["next", e, off, prev] =>
    match decodeRunes e, parseInt? off, parseInt? prev with
    | some s, some c, some p =>
      match newTrigger bs s with
      | none => (st, "parse-error")
      | some f => (st, showOutcome (nextFire lim f (fixedZone c) p))
    | _, _, _ => (st, "bad-op")
  | ["nextz", e, zn, prev] =>
    match decodeRunes e, st.zones.lookup zn, parseInt? prev with
    | some s, some z, some p =>
      match newTrigger bs s with
      | none => (st, "parse-error")
      | some f => (st, showOutcome (nextFire lim f z.toZone p))
    | _, _, _ => (st, "bad-op")
  | "zone" :: name :: base :: rest =>
    match parseInt? base, parsePairs rest with
    | some b, some ps => ({ st with zones := (name, { base := b, trans := ps.toArray }) :: st.zones }, "ok")
    | _, _ => (st, "bad-op")
  | ["date", zn, w] =>
    match st.zones.lookup zn, parseInt? w with
    | some z, some w => (st, s!"{z.date w} {(z.lookup w).1}")
    | _, _ => (st, "bad-op")
  | ["parse", e] =>
    match decodeRunes e with
    | some s => match parse bs s with
      | none => (st, "parse-error")
      | some f => (st, "ok " ++ showFields f)
    | none => (st, "bad-op")
  | ["cal", sec] =>
    match parseInt? sec with
    | some s =>
      let t := Civil.ofSeconds s
      (st, s!"{t.year} {t.month} {t.day} {t.hour} {t.minute} {t.second} {weekday t.year t.month t.day} {dim t.year t.month} {t.toSeconds}")
    | none => (st, "bad-op")
  | _ => (st, "bad-op")

end Driver
