/-! line-protocol helpers (core only) -/
namespace Driver

def words (s : String) : List String := (s.splitOn " ").filter (· ≠ "")

def parseInt? (s : String) : Option Int := s.toInt?

/-- "-" = empty, else comma-separated decimal code points -/
def decodeRunes (s : String) : Option (List Char) :=
  if s = "-" then some [] else
  (s.splitOn ",").mapM (fun w => w.toNat?.map Char.ofNat)

def showNatList (l : List Nat) : String := "[" ++ ",".intercalate (l.map toString) ++ "]"

end Driver
