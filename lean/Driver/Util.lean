/-! line-protocol helpers (core only) -/
namespace Driver

def words (s : String) : List String := (s.splitOn " ").filter (· ≠ "")

def parseInt? (s : String) : Option Int := s.toInt?

/-- "-" = empty, else comma-separated decimal code points -/
def decodeRunes (s : String) : Option (List Char) :=
  if s = "-" then some [] else
  (s.splitOn ",").mapM (fun w => w.toNat?.map Char.ofNat)

def showNatList (l : List Nat) : String := "[" ++ ",".intercalate (l.map toString) ++ "]"

end Driver

namespace Driver

def hexVal (c : Char) : Option Nat :=
  if '0' ≤ c && c ≤ '9' then some (c.toNat - '0'.toNat)
  else if 'a' ≤ c && c ≤ 'f' then some (c.toNat - 'a'.toNat + 10)
  else none

def unhexBytes : List Char → Option (List UInt8)
  | [] => some []
  | a :: b :: t => do
    let x ← hexVal a; let y ← hexVal b; let r ← unhexBytes t
    pure (UInt8.ofNat (x * 16 + y) :: r)
  | _ => none

/-- "-" = empty string, else hex of the UTF-8 bytes -/
def unhexStr (s : String) : Option String :=
  if s = "-" then some "" else
  match unhexBytes s.toList with
  | some bs => String.fromUTF8? (ByteArray.mk bs.toArray)
  | none => none

def hexDigit (n : Nat) : Char := if n < 10 then Char.ofNat (48 + n) else Char.ofNat (87 + n)

def hexStr (s : String) : String :=
  if s.isEmpty then "-" else
  String.ofList (s.toUTF8.toList.flatMap (fun b => [hexDigit (b.toNat / 16), hexDigit (b.toNat % 16)]))

end Driver
