import QuartzModel.Sched.Model
import QuartzModel.Cron.Parse
import QuartzModel.Generated.Facts
import Driver.QueueEngine
/-! scheduler engine (registry operations + dispatch step) of the line-protocol driver -/
namespace Driver
open Queue Sched

structure SchedSt where
  s : SState := {}
  threshold : Int := 100000000

def showSErr : SErr → String
  | .illegalArgument => "err illegal-argument"
  | .jobAlreadyExists => "err exists"
  | .jobNotFound => "err notfound"
  | .jobIsSuspended => "err suspended"
  | .jobIsActive => "err active"
  | .triggerError => "err trigger"
  | .queueEmpty => "err empty"

def showOptInt : Option Int → String
  | some v => toString v
  | none => "e"

def showCalls (cs : List TrigCall) : String :=
  if cs.isEmpty then "-" else ",".intercalate (cs.map (fun c => s!"{c.tag}:{c.prev}:{showOptInt c.result}"))

def parseAnswers (s : String) : Option (List (Option Int)) :=
  if s.isEmpty then some [] else
  (s.splitOn ";").mapM (fun w => if w = "e" then some none else (parseInt? w).map some)

def parseTrig (s : String) : Option (Option Trig) :=
  if s = "nil" then some none else
  match s.toList with
  | 'S' :: r => (parseInt? (String.ofList r)).map (fun i => some (.simple i))
  | 'R' :: r => (parseInt? (String.ofList r)).map (fun i => some (.runOnce i false))
  | 'F' :: r => (parseInt? (String.ofList r)).map (fun i => some (.fixed i))
  | 'X' :: r => (parseAnswers (String.ofList r)).map (fun a => some (.script a))
  | 'C' :: r =>
    -- a real CronTrigger: C<code points of the expression>:<offset seconds>
    match (String.ofList r).splitOn ":" with
    | [e, off] =>
      match decodeRunes e, parseInt? off with
      | some cs, some c => (Cron.newTrigger Generated.bounds cs).map (fun f => some (.cron f c))
      | _, _ => none
    | _ => none
  | _ => none

def showClass : Class → String
  | .suspended => "suspended" | .outdated => "outdated" | .notDue => "notdue" | .valid => "valid"

def showOptEntry : Option Entry → String
  | some e => showEntry e
  | none => "-"

def b01 (b : Bool) : String := if b then "1" else "0"

/-- a trigger asked directly `k` times in a row, each time with its previous answer (what the loop does after an
on-time execution); stops at the trigger's own error -/
def fireChain (t : Trig) (prev : Int) : Nat → List String
  | 0 => []
  | k + 1 =>
    match t.fire prev with
    | (some v, t') => toString v :: fireChain t' v k
    | (none, _) => ["e"]

def schedStep (st : SchedSt) (ws : List String) : SchedSt × String :=
  match ws with
  | ["fire", tr, prev, k] => match parseTrig tr, parseInt? prev, k.toNat? with
    | some (some t), some p, some k => (st, "ok " ++ ",".intercalate (fireChain t p k))
    | _, _, _ => (st, "bad-op")
  | ["new", thr] => match parseInt? thr with
    | some t => ({ s := {}, threshold := t }, "ok")
    | none => (st, "bad-op")
  | "schedule" :: now :: g :: n :: su :: re :: tag :: tr :: flags =>
    match parseInt? now, unhexStr g, unhexStr n, tag.toNat?, parseTrig tr with
    | some now, some g, some n, some tag, some tr =>
      let a : SchedArgs := { hasDetail := !flags.contains "nodetail", hasKey := !flags.contains "nokey", group := g, name := n,
                             suspended := su == "1", replace := re == "1", tag := tag, trig := tr }
      let (s', err, calls) := schedule st.s now a
      ({ st with s := s' }, (match err with | none => "ok" | some e => showSErr e) ++ " calls=" ++ showCalls calls)
    | _, _, _, _, _ => (st, "bad-op")
  | ["delete", "nil"] => let (s', err) := delete st.s false "" ""; ({ st with s := s' }, match err with | none => "ok" | some e => showSErr e)
  | ["delete", g, n] => match unhexStr g, unhexStr n with
    | some g, some n => let (s', err) := delete st.s true g n; ({ st with s := s' }, match err with | none => "ok" | some e => showSErr e)
    | _, _ => (st, "bad-op")
  | ["pause", "nil"] => let (s', err) := pause st.s false "" ""; ({ st with s := s' }, match err with | none => "ok" | some e => showSErr e)
  | ["pause", g, n] => match unhexStr g, unhexStr n with
    | some g, some n => let (s', err) := pause st.s true g n; ({ st with s := s' }, match err with | none => "ok" | some e => showSErr e)
    | _, _ => (st, "bad-op")
  | ["resume", _, "nil"] => let (s', err, _) := resume st.s 0 false "" ""; ({ st with s := s' }, (match err with | none => "ok" | some e => showSErr e) ++ " calls=-")
  | ["resume", now, g, n] => match parseInt? now, unhexStr g, unhexStr n with
    | some now, some g, some n =>
      let (s', err, calls) := resume st.s now true g n
      ({ st with s := s' }, (match err with | none => "ok" | some e => showSErr e) ++ " calls=" ++ showCalls calls)
    | _, _, _ => (st, "bad-op")
  | ["clear"] => ({ st with s := clear st.s }, "ok")
  | ["get", "nil"] => (st, showSErr .illegalArgument)
  | ["get", g, n] => match unhexStr g, unhexStr n with
    | some g, some n => match getJob st.s true g n with
      | .ok e => (st, "ok " ++ showEntry e)
      | .error e => (st, showSErr e)
    | _, _ => (st, "bad-op")
  | "keys" :: ms => match ms.mapM parseMatcher with
    | some ms => (st, "ok " ++ ";".intercalate ((jobKeys st.s ms).map (fun k => s!"{hexStr k.1}/{hexStr k.2}")))
    | none => (st, "bad-op")
  | ["dump"] => (st, showList st.s.q.toList)
  | ["step", now] => match parseInt? now with
    | some now =>
      let (s', o) := step st.s now st.threshold
      match o.popped with
      | none => ({ st with s := s' }, "none")
      | some e =>
        ({ st with s := s' },
         s!"pop={showEntry e} cls={(o.cls.map showClass).getD "-"} disp={b01 o.dispatched} misfire={b01 o.misfired} calls={showCalls o.calls} push={showOptEntry o.pushed}")
    | none => (st, "bad-op")
  | _ => (st, "bad-op")

end Driver
