import QuartzModel.Calendar
import QuartzModel.Odometer
import QuartzModel.Proofs.Odometer
import QuartzModel.Cron.Fields
import QuartzModel.Cron.Nodes
import QuartzModel.Cron.Parse
import QuartzModel.Cron.NextFire
import QuartzModel.Generated.Facts
