/-!
# Execution modes of the scheduler (C12) — interleaving model of dispatch

Go code modelled (quartz/scheduler.go):

* `executeAndReschedule` — after `fetchAndReschedule` returned a valid job the three-way switch
  ```go
  switch {
  case sched.opts.BlockingExecution:  sched.executeWithRetries(ctx, …)          // in the loop goroutine
  case sched.opts.WorkerLimit > 0:    select { case sched.dispatch <- scheduled: … } // hand-off
  default:                            sched.wg.Add(1); go func() { … executeWithRetries … }()
  }
  ```
* `startWorkers` — `if !BlockingExecution && WorkerLimit > 0 { for i := 0; i < WorkerLimit; i++ { go worker } }`,
  a worker is `for { select { case <-ctx.Done(): return; case j := <-sched.dispatch: executeWithRetries(j) } }`:
  it executes one job at a time and receives the next one only after the previous returned.
* `Start` — `dispatch := make(chan ScheduledJob)`: capacity 0, a send completes iff a receiver is ready; ONE channel
  PER RUN, handed to the loop and to the workers of that run only (`startExecutionLoop(ctx, dispatch)`,
  `startWorkers(ctx, dispatch)`). This is what allows a run to be modelled in isolation (the first part of this file);
  the second part (`RSt`, several runs side by side) proves it and shows what the formerly shared channel allowed.

The shape of that code (`Code`: channel capacity, order / conditions of the switch cases, conjuncts of the
`startWorkers` guard) is a parameter of the model; `Code.std` is what the source says today and the fact
extractor regenerates it (`Generated.Pool`, tied in `Theorems/C12.lean`).

Threads are program counters: the execution loop (`LoopPc`), one Boolean per worker goroutine (busy /
idle), a counter of per-execution goroutines (they are indistinguishable: a multiset of identical elements).
Job identity is abstracted: `pending` counts fire times that are due and not yet fetched. The loop pushes a job
back with its next fire time inside `fetchAndReschedule`, i.e. *before* the dispatch switch, so the next
fire time of a job whose execution is still running is just one more pending due job.
Jobs finish at arbitrary later times (the `…Done` actions) or never (the action is never taken).
Core Lean only.
-/
namespace Pool

/-- the two `SchedulerConfig` fields that select the execution mode -/
structure Cfg where
  blocking : Bool
  workerLimit : Nat
deriving DecidableEq, Repr

/-- condition of one `case` of the dispatch switch -/
inductive Guard
  | blockingSet   -- `sched.opts.BlockingExecution`
  | limitPos      -- `sched.opts.WorkerLimit > 0`
  | dflt          -- `default`
deriving DecidableEq, Repr

/-- what the body of a case does with the fetched job -/
inductive Arm
  | inline    -- `sched.executeWithRetries(ctx, …)` in the loop goroutine
  | handoff   -- `sched.dispatch <- scheduled`
  | spawn     -- `go func() { … executeWithRetries … }()`
  | skip      -- no case matched (impossible for the real switch, needed for totality)
deriving DecidableEq, Repr

/-- the shape of the code the model is parametric in -/
structure Code where
  /-- capacity of the `dispatch` channel -/
  dispatchCap : Nat
  /-- the cases of the switch in source order -/
  switch : List (Guard × Arm)
  /-- the guard of `startWorkers` has the conjunct `!sched.opts.BlockingExecution` -/
  workersNotBlocking : Bool
  /-- the guard of `startWorkers` has the conjunct `sched.opts.WorkerLimit > 0` -/
  workersLimitPos : Bool
deriving DecidableEq, Repr

/-- the code as it is -/
def Code.std : Code :=
  { dispatchCap := 0,
    switch := [(.blockingSet, .inline), (.limitPos, .handoff), (.dflt, .spawn)],
    workersNotBlocking := true, workersLimitPos := true }

def Guard.holds (c : Cfg) : Guard → Bool
  | .blockingSet => c.blocking
  | .limitPos => decide (0 < c.workerLimit)
  | .dflt => true

/-- Go `switch { case … }`: the first case whose condition holds -/
def pick (c : Cfg) : List (Guard × Arm) → Arm
  | [] => .skip
  | (g, a) :: rest => if g.holds c then a else pick c rest

/-- `executeAndReschedule`: which arm runs under configuration `c` -/
def Code.arm (code : Code) (c : Cfg) : Arm := pick c code.switch

/-- `startWorkers`: number of worker goroutines started (`for i := 0; i < WorkerLimit; i++`) -/
def Code.workers (code : Code) (c : Cfg) : Nat :=
  if (!code.workersNotBlocking || !c.blocking) && (!code.workersLimitPos || decide (0 < c.workerLimit))
  then c.workerLimit else 0

/-- program counter of the execution loop -/
inductive LoopPc
  | idle        -- in the timer `select`
  | holding     -- `fetchAndReschedule` returned a valid job, inside the dispatch switch
  | executing   -- inside `executeWithRetries` (blocking mode)
deriving DecidableEq, Repr

structure St where
  pc : LoopPc
  /-- one entry per worker goroutine; `true` = inside `executeWithRetries` -/
  workers : List Bool
  /-- jobs sitting in the buffer of `dispatch` (always 0 for capacity 0) -/
  chan : Nat
  /-- live per-execution goroutines of the `default` arm, each inside `executeWithRetries` -/
  spawned : Nat
  /-- fire times that are due and not yet fetched -/
  pending : Nat
deriving DecidableEq, Repr

inductive Act
  | arrive                -- environment: one more fire time becomes due
  | fetch                 -- loop: timer tick, `fetchAndReschedule` returns a valid job
  | runInline             -- loop: `case BlockingExecution` — enters `executeWithRetries`
  | inlineDone            -- loop: that call returns
  | handoff (i : Nat)     -- loop + worker `i`: rendezvous on `dispatch` (worker `i` is in its `select`)
  | sendBuf               -- loop: send into a free buffer slot of `dispatch` (needs capacity > 0)
  | recvBuf (i : Nat)     -- worker `i`: receives from the buffer of `dispatch`
  | workerDone (i : Nat)  -- worker `i`: `executeWithRetries` returns, back to its `select`
  | spawn                 -- loop: `default` — `go func`, does not wait
  | spawnedDone           -- a per-execution goroutine returns
  | skipJob               -- loop: no case of the switch matched
deriving DecidableEq, Repr

/-- steps in which a job execution ends -/
def Act.isFinish : Act → Bool
  | .inlineDone | .workerDone _ | .spawnedDone => true
  | _ => false

/-- steps of the execution loop goroutine (a rendezvous is a joint step of loop and worker) -/
def Act.isLoop : Act → Bool
  | .fetch | .runInline | .inlineDone | .handoff _ | .sendBuf | .spawn | .skipJob => true
  | _ => false

def step (code : Code) (c : Cfg) (s : St) : Act → Option St
  | .arrive => some { s with pending := s.pending + 1 }
  | .fetch =>
    if s.pc = .idle ∧ 0 < s.pending then some { s with pc := .holding, pending := s.pending - 1 } else none
  | .runInline =>
    if s.pc = .holding ∧ code.arm c = .inline then some { s with pc := .executing } else none
  | .inlineDone =>
    if s.pc = .executing then some { s with pc := .idle } else none
  | .handoff i =>
    if s.pc = .holding ∧ code.arm c = .handoff ∧ s.workers[i]? = some false
    then some { s with pc := .idle, workers := s.workers.set i true } else none
  | .sendBuf =>
    if s.pc = .holding ∧ code.arm c = .handoff ∧ s.chan < code.dispatchCap
    then some { s with pc := .idle, chan := s.chan + 1 } else none
  | .recvBuf i =>
    if 0 < s.chan ∧ s.workers[i]? = some false
    then some { s with chan := s.chan - 1, workers := s.workers.set i true } else none
  | .workerDone i =>
    if s.workers[i]? = some true then some { s with workers := s.workers.set i false } else none
  | .spawn =>
    if s.pc = .holding ∧ code.arm c = .spawn then some { s with pc := .idle, spawned := s.spawned + 1 } else none
  | .spawnedDone =>
    if 0 < s.spawned then some { s with spawned := s.spawned - 1 } else none
  | .skipJob =>
    if s.pc = .holding ∧ code.arm c = .skip then some { s with pc := .idle } else none

/-- the scheduler right after `Start`: `p` due jobs, the workers of `startWorkers` idle -/
def init (code : Code) (c : Cfg) (p : Nat) : St :=
  { pc := .idle, workers := List.replicate (code.workers c) false, chan := 0, spawned := 0, pending := p }

def run (code : Code) (c : Cfg) (s : St) : List Act → Option St
  | [] => some s
  | a :: as => (step code c s a).bind (fun s' => run code c s' as)

/-- reachable under some interleaving from some number of initially due jobs -/
def Reach (code : Code) (c : Cfg) (s : St) : Prop := ∃ p as, run code c (init code c p) as = some s

/-- number of busy workers -/
def busy (s : St) : Nat := s.workers.count true

/-- number of job executions in progress (calls of `executeWithRetries` that have not returned) -/
def inflight (s : St) : Nat := (if s.pc = .executing then 1 else 0) + busy s + s.spawned

/-! ## several runs of one scheduler side by side: who receives whose hand-off

After `Stop(); Start()` the goroutines of the stopped run may still be alive (a worker inside a job that ignores its
context) next to the loop and the workers of the new run. `RSt` keeps one record per run. The loop of run `g` sends on
the channel `chanOf g`; the workers of run `h` receive on `chanOf h`: a hand-off from loop `g` to a worker of run `h` is
possible iff these are the same channel. `RunsCode.perRun` says whether every run makes its own channel (the code as it
is: `dispatch := make(...)` in `Start`) or all runs use the one channel of the scheduler struct (the code before the
repair, kept as negative control). A worker executes every job with the context of ITS OWN run (the `ctx` of the
`startWorkers` call that created it). -/

structure RunsCode where
  /-- `dispatch := make(chan ScheduledJob)` in `Start`, passed to the loop and the workers of that run -/
  perRun : Bool
deriving DecidableEq, Repr

def RunsCode.std : RunsCode := { perRun := true }

/-- the channel the loop / the workers of run `g` use -/
def RunsCode.chanOf (code : RunsCode) (g : Nat) : Nat := if code.perRun then g else 0

/-- a worker goroutine: in its `select`, inside `executeWithRetries` with a job handed off by the loop of run `src`,
    or returned -/
inductive WorkerSt
  | idle
  | busy (src : Nat)
  | exited
deriving DecidableEq, Repr

structure RunRec where
  /-- the run's context is cancelled (Stop, cancellation) -/
  cancelled : Bool
  loopAlive : Bool
  /-- the loop holds a fetched job in the hand-off `select` -/
  holding : Bool
  workers : List WorkerSt
deriving DecidableEq, Repr

structure RSt where
  runs : List RunRec
deriving DecidableEq, Repr

inductive RAct
  | start (n : Nat)                  -- an effective `Start` with WorkerLimit `n`: a new run
  | cancel (g : Nat)                 -- `Stop` / cancellation of run `g`
  | fetch (g : Nat)                  -- loop `g`: tick, a valid job fetched (its select may take the tick although ctx is done)
  | handoff (g h i : Nat)            -- loop `g` → worker `i` of run `h`: rendezvous on a common channel
  | loopExit (g : Nat)               -- loop `g` takes `<-ctx.Done()` (dropping a held job)
  | workerDone (h i : Nat)           -- worker `i` of run `h`: `executeWithRetries` returns
  | workerExit (h i : Nat)           -- worker `i` of run `h` takes `<-ctx.Done()`
deriving DecidableEq, Repr

def setRun (s : RSt) (g : Nat) (r : RunRec) : RSt := { runs := s.runs.set g r }

def rstep (code : RunsCode) (s : RSt) : RAct → Option RSt
  | .start n =>
    some { runs := s.runs ++ [{ cancelled := false, loopAlive := true, holding := false,
                                workers := List.replicate n .idle }] }
  | .cancel g =>
    match s.runs[g]? with
    | some r => some (setRun s g { r with cancelled := true })
    | none => none
  | .fetch g =>
    match s.runs[g]? with
    | some r => if r.loopAlive = true ∧ r.holding = false then some (setRun s g { r with holding := true }) else none
    | none => none
  | .handoff g h i =>
    match s.runs[g]?, s.runs[h]? with
    | some rg, some rh =>
      if rg.loopAlive = true ∧ rg.holding = true ∧ code.chanOf g = code.chanOf h ∧ rh.workers[i]? = some .idle then
        -- two updates; for g = h they hit the same record
        let s1 := setRun s g { rg with holding := false }
        match s1.runs[h]? with
        | some rh' => some (setRun s1 h { rh' with workers := rh'.workers.set i (.busy g) })
        | none => none
      else none
    | _, _ => none
  | .loopExit g =>
    match s.runs[g]? with
    | some r =>
      if r.loopAlive = true ∧ r.cancelled = true
      then some (setRun s g { r with loopAlive := false, holding := false }) else none
    | none => none
  | .workerDone h i =>
    match s.runs[h]? with
    | some r =>
      match r.workers[i]? with
      | some (.busy _) => some (setRun s h { r with workers := r.workers.set i .idle })
      | _ => none
    | none => none
  | .workerExit h i =>
    match s.runs[h]? with
    | some r =>
      if r.cancelled = true ∧ r.workers[i]? = some .idle
      then some (setRun s h { r with workers := r.workers.set i .exited }) else none
    | none => none

def rinit : RSt := { runs := [] }

def rrun (code : RunsCode) (s : RSt) : List RAct → Option RSt
  | [] => some s
  | a :: as => (rstep code s a).bind (fun s' => rrun code s' as)

def RReach (code : RunsCode) (s : RSt) : Prop := ∃ as, rrun code rinit as = some s

/-- worker `i` of run `h` is executing a job that the loop of run `g` dispatched -/
def executes (s : RSt) (h i g : Nat) : Prop := ∃ r, s.runs[h]? = some r ∧ r.workers[i]? = some (.busy g)

end Pool
