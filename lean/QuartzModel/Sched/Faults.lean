/-!
# The execution loop and the API methods over a failing / slow custom `JobQueue` (C15)

Model of `quartz/scheduler.go`: `startExecutionLoop`, `calculateNextTick`, `executeAndReschedule`,
`fetchAndReschedule`, `validateJob` and the queue-facing skeleton of every API method, with the result of **every**
queue call an input (`ok` / `ErrQueueEmpty` / any other error), every clock reading an input (a slow queue is a queue
between whose calls the clock advances arbitrarily) and the `select` outcome an input (timer tick or interrupt).

One loop iteration (`iter`), as the source is now:
```
backingOff := time.Now().Before(retryAt)
if !backingOff { queueSize, err = queue.Size() }     -- a queue that has just failed is not even asked for its size
switch { case backingOff: arm time.Until(retryAt)
         case err != nil: retryAt = time.Now().Add(RetryInterval); arm RetryInterval
         case queueSize == 0: arm maxTimerDuration
         default: arm calculateNextTick()       -- Head() error, ErrQueueEmpty included: RetryInterval;
                  if Head() failed (ErrQueueEmpty excluded) { retryAt = time.Now().Add(RetryInterval) } }
select { case <-timer.C: if err := executeAndReschedule(ctx); err != nil { retryAt = time.Now().Add(RetryInterval) }
                          -- err: the Pop() error or the Push() error; an empty Pop() counts as an error unless
                          -- Size(), asked again under the queue lock, answers 0
         case <-interrupt: (nothing) }
```
The shape of the `switch`, of `calculateNextTick` and of the error plumbing of `fetchAndReschedule` is a parameter
(`Shape`), regenerated from the source by `harness/cmd/extract/x_faults.go`. The parameter also covers the two earlier
forms of the loop, which serve as negative controls: no back-off state at all (`Backoff.none`, the loop spins) and
a `failed` flag that re-arms the full `RetryInterval` in every iteration (`Backoff.flag`, interrupts postpone the
retry for ever); and the form before the repair of finding F4 (`askFirst`: `Size()` is asked at the top of every
iteration, before the back-off test, and a failing `Size()` / `Head()` only arms the timer: every interrupt makes the
loop ask the failing queue again).

`runQ` closes the loop over a queue that stores what is pushed: a sorted list of entries, wrapped by a fault plan that
decides per call whether it fails (a failed call has no effect on the stored entries).
-/
namespace Faults

/-- result of a fallible queue call: `empty` = `ErrQueueEmpty`, `err` = any other error -/
inductive Res (α : Type) where
  | ok (v : α)
  | empty
  | err
deriving DecidableEq, Repr

structure Entry where
  key : Nat
  prio : Int
deriving DecidableEq, Repr

/-- what a `timer.Reset` argument can be -/
inductive Arm where
  | zero        -- the zero `time.Duration`
  | retry       -- `sched.opts.RetryInterval`
  | max         -- `maxTimerDuration`
  | nextTick    -- `sched.calculateNextTick()`
  | untilRetry  -- `time.Until(retryAt)`
  | other       -- anything the extractor does not recognise
deriving DecidableEq, Repr

/-- how the loop remembers that the queue failed during a tick -/
inductive Backoff where
  /-- not at all (the loop before the first repair) -/
  | none
  /-- `var failed bool`, `case failed:` (the first repair) -/
  | flag
  /-- `var retryAt time.Time`, `case time.Now().Before(retryAt):` (the source now) -/
  | deadline
deriving DecidableEq, Repr

/-- what `fetchAndReschedule` does when `Pop()` answers `ErrQueueEmpty` -/
inductive PopEmpty where
  /-- returns `nil` (the code before 78e46a3: a queue with a due head and nothing to pop makes the loop spin) -/
  | nil
  /-- returns the error, always (78e46a3: an honestly empty queue is polled for ever) -/
  | returned
  /-- asks `Size()` under the queue lock: `nil` if it answers 0, the error if the queue still claims to hold jobs or
      cannot say (the source now) -/
  | unlessSizeZero
deriving DecidableEq, Repr

/-- shape of the loop's error handling (facts of the source) -/
structure Shape where
  /-- `case err != nil:` (the `Size()` error) -/
  onSizeErr : Arm
  /-- the back-off state and its case in the `switch` -/
  backoff : Backoff
  /-- the back-off test comes first: `backingOff := time.Now().Before(retryAt)`, `Size()` is called only
      `if !backingOff`, and `case backingOff:` is the first case of the `switch` (the source now). `false`: `Size()` is
      called at the top of every iteration and its error case precedes the back-off case (the source before the repair
      of F4) -/
  backoffFirst : Bool
  /-- a failing `Size()` / `Head()` (error other than `ErrQueueEmpty`) sets the back-off deadline:
      `retryAt = time.Now().Add(RetryInterval)` in `case err != nil:` and after `calculateNextTick` returned an error -/
  stateFromArm : Bool
  /-- the `timer.Reset` argument of the back-off case -/
  onBackoff : Arm
  /-- `case queueSize == 0:` -/
  onEmpty : Arm
  /-- `default:` -/
  onDefault : Arm
  /-- `calculateNextTick`: `Head()` failed with an error other than `ErrQueueEmpty` -/
  headErr : Arm
  /-- `calculateNextTick`: `Head()` returned `ErrQueueEmpty` -/
  headEmpty : Arm
  /-- the tick updates the back-off state from the error `executeAndReschedule` returns, which is the error of
      `fetchAndReschedule` (`if err := …; err != nil { retryAt = time.Now().Add(RetryInterval) }`, nothing else
      assigns the state) -/
  stateFromTick : Bool
  /-- `fetchAndReschedule` returns the `Pop()` error … -/
  popErrReturned : Bool
  /-- … and what it does when `Pop()` answers `ErrQueueEmpty` -/
  popEmpty : PopEmpty
  /-- `fetchAndReschedule` returns the `Push()` error -/
  pushErrReturned : Bool

/-- scheduler options -/
structure Cfg where
  /-- `RetryInterval` -/
  R : Int
  /-- `maxTimerDuration` -/
  M : Int
  /-- `OutdatedThreshold` -/
  thr : Int

/-- `Trigger.NextFireTime(prev)` of the job with the given key (`none` = error, the job leaves the loop) -/
abbrev Trig := Nat → Int → Option Int

/-- the back-off state of the loop (`failed` for `Backoff.flag`, `retryAt` for `Backoff.deadline`;
    `none` = the zero `time.Time`, before which no time lies) -/
structure BState where
  failed : Bool := false
  retryAt : Option Int := none
deriving DecidableEq, Repr

/-- everything the environment decides during one loop iteration -/
structure In where
  /-- `queue.Size()`; `none` = error (consulted only if the loop is not backing off) -/
  size : Option Nat
  /-- the clock read by the condition `time.Now().Before(retryAt)` (first thing in the iteration, before `Size()`) -/
  now1 : Int
  /-- `queue.Head()`, as the head's `NextRunTime()` (consulted only if `calculateNextTick` runs) -/
  head : Res Int
  /-- the clock read by `time.Until(retryAt)` / by `calculateNextTick` / by `retryAt = time.Now().Add(…)` after a
      failed `Size()` or `Head()` (each path through the `switch` reads the clock at most once) -/
  now2 : Int
  /-- the moment `timer.Reset` is called -/
  tArm : Int
  /-- `select` took the interrupt branch (otherwise the timer ticked) -/
  interrupted : Bool
  /-- the moment the `select` returns (the timer fires / the token is taken) -/
  tickAt : Int
  /-- `queue.Pop()` (consulted only on a tick) -/
  pop : Res Entry
  /-- `queue.Size()` asked by `fetchAndReschedule` after an empty `Pop()` (`none` = error) -/
  size2 : Option Nat
  /-- the clock read by `validateJob` -/
  nowVal : Int
  /-- `queue.Push()` of the rescheduled entry succeeds (consulted only if there is a push) -/
  pushOk : Bool
  /-- the clock read by `retryAt = time.Now().Add(…)`; also the end of the iteration -/
  nowErr : Int
deriving Repr

inductive Op where
  | size | head | pop | push
deriving DecidableEq, Repr

inductive Outcome where
  | ok | empty | err
deriving DecidableEq, Repr

def Res.outcome {α : Type} : Res α → Outcome
  | .ok _ => .ok
  | .empty => .empty
  | .err => .err

structure Out where
  /-- duration the timer was armed with (zero or negative: it fires at once) -/
  armed : Int
  /-- loop-side queue calls of the iteration, in order -/
  calls : List (Op × Outcome)
  /-- the job handed to `executeWithRetries` / the worker pool, with the fire time it was popped with -/
  dispatched : Option Entry
  /-- the entry that was pushed back successfully -/
  pushed : Option Entry
  /-- the entry that was popped successfully -/
  popped : Option Entry
  /-- `Size()` or `Head()` failed (error other than `ErrQueueEmpty`) in this iteration -/
  armErr : Bool
  /-- `Pop()` or `Push()` failed (error other than `ErrQueueEmpty`) in this iteration -/
  tickErr : Bool
  /-- back-off state after the iteration -/
  st : BState
deriving Repr

/-- `calculateNextTick` -/
def calcNextTick (S : Shape) (c : Cfg) (head : Res Int) (now : Int) : Int :=
  let const : Arm → Int := fun | .retry => c.R | .max => c.M | _ => 0
  match head with
  | .err => const S.headErr
  | .empty => const S.headEmpty
  | .ok f => if f > now then f - now else 0

/-- is the back-off case of the `switch` taken? -/
def inBackoff (S : Shape) (st : BState) (now1 : Int) : Bool :=
  match S.backoff with
  | .none => false
  | .flag => st.failed
  | .deadline =>
    match st.retryAt with
    | some r => decide (now1 < r)
    | none => false

/-- is `Size()` skipped in this iteration (the back-off test comes first and says "backing off")? -/
def skipsSize (S : Shape) (st : BState) (now1 : Int) : Bool := S.backoffFirst && inBackoff S st now1

/-- the `switch` of the loop: which argument `timer.Reset` gets -/
def chooseArm (S : Shape) (st : BState) (size : Option Nat) (now1 : Int) : Arm :=
  if skipsSize S st now1 then S.onBackoff else
  match size with
  | none => S.onSizeErr
  | some n => if inBackoff S st now1 then S.onBackoff else if n = 0 then S.onEmpty else S.onDefault

/-- the back-off state after the arming part of an iteration in which `Size()` / `Head()` failed (`armErr`) or not -/
def afterArm (S : Shape) (c : Cfg) (st : BState) (armErr : Bool) (now2 : Int) : BState :=
  if S.stateFromArm then
    match S.backoff with
    | .deadline => if armErr then { st with retryAt := some (now2 + c.R) } else st
    | _ => st
  else st

/-- `validateJob` without the paused case (a paused entry sits at `math.MaxInt64` and behaves as "not due"):
    (valid, next run time or `none` if the trigger failed) -/
def validate (c : Cfg) (trig : Trig) (e : Entry) (now : Int) : Bool × Option Int :=
  if e.prio < now - c.thr then (false, trig e.key now)
  else if e.prio > now then (false, some e.prio)
  else (true, trig e.key e.prio)

structure Fetch where
  calls : List (Op × Outcome)
  dispatched : Option Entry
  pushed : Option Entry
  popped : Option Entry
  tickErr : Bool
  /-- `fetchAndReschedule`'s error result is non-nil -/
  retErr : Bool

/-- `executeAndReschedule` / `fetchAndReschedule`: the job is dispatched iff it was popped and is valid,
    whether or not the push-back succeeded -/
def fetch (S : Shape) (c : Cfg) (trig : Trig) (i : In) : Fetch :=
  match i.pop with
  | .err => ⟨[(.pop, .err)], none, none, none, true, S.popErrReturned⟩
  | .empty =>
    match S.popEmpty with
    | .nil => ⟨[(.pop, .empty)], none, none, none, false, false⟩
    | .returned => ⟨[(.pop, .empty)], none, none, none, false, true⟩
    | .unlessSizeZero =>
      ⟨[(.pop, .empty), (.size, if i.size2.isSome then .ok else .err)], none, none, none, false,
        !decide (i.size2 = some 0)⟩
  | .ok e =>
    let v := validate c trig e i.nowVal
    let disp := if v.1 then some e else none
    match v.2 with
    | none => ⟨[(.pop, .ok)], disp, none, some e, false, false⟩
    | some t =>
      if i.pushOk then ⟨[(.pop, .ok), (.push, .ok)], disp, some { e with prio := t }, some e, false, false⟩
      else ⟨[(.pop, .ok), (.push, .err)], disp, none, some e, true, S.pushErrReturned⟩

/-- the back-off state after a tick whose `executeAndReschedule` returned an error (`retErr`) or `nil` -/
def afterTick (S : Shape) (c : Cfg) (st : BState) (retErr : Bool) (nowErr : Int) : BState :=
  if S.stateFromTick then
    match S.backoff with
    | .none => st
    | .flag => { st with failed := retErr }
    | .deadline => if retErr then { st with retryAt := some (nowErr + c.R) } else st
  else st

/-- one iteration of `startExecutionLoop` -/
def iter (S : Shape) (c : Cfg) (trig : Trig) (st : BState) (i : In) : Out :=
  let asksSize := !skipsSize S st i.now1
  let arm := chooseArm S st i.size i.now1
  let readsHead := decide (arm = .nextTick)
  let armed := match arm with
    | .zero => 0 | .retry => c.R | .max => c.M | .other => 0
    | .nextTick => calcNextTick S c i.head i.now2
    | .untilRetry => st.retryAt.getD i.now2 - i.now2
  let calls1 : List (Op × Outcome) :=
    (if asksSize then [(.size, if i.size.isSome then .ok else .err)] else []) ++
      (if readsHead then [(.head, i.head.outcome)] else [])
  let armErr := (asksSize && i.size.isNone) || (readsHead && decide (i.head = .err))
  let st1 := afterArm S c st armErr i.now2
  if i.interrupted then
    { armed, calls := calls1, dispatched := none, pushed := none, popped := none, armErr, tickErr := false, st := st1 }
  else
    let f := fetch S c trig i
    { armed, calls := calls1 ++ f.calls, dispatched := f.dispatched, pushed := f.pushed, popped := f.popped,
      armErr, tickErr := f.tickErr, st := afterTick S c st1 f.retErr i.nowErr }

/-- the loop over a sequence of environment inputs: the outputs of the iterations and the final state -/
def runLoop (S : Shape) (c : Cfg) (trig : Trig) (st : BState) : List In → List Out × BState
  | [] => ([], st)
  | i :: is =>
    let o := iter S c trig st i
    let r := runLoop S c trig o.st is
    (o :: r.1, r.2)

/-- The clock readings of a run are monotone in program order and no timer fires early (the two guarantees of the
    Go runtime the timing statements rest on): `prev` is the last reading before the iteration. -/
def WellTimed (S : Shape) (c : Cfg) (trig : Trig) (st : BState) (prev : Int) : List In → Prop
  | [] => True
  | i :: is =>
    prev ≤ i.now1 ∧ i.now1 ≤ i.now2 ∧ i.now2 ≤ i.tArm ∧ i.tArm ≤ i.tickAt ∧
    (i.interrupted = false → i.tArm + (iter S c trig st i).armed ≤ i.tickAt) ∧
    i.tickAt ≤ i.nowVal ∧ i.nowVal ≤ i.nowErr ∧
    WellTimed S c trig (iter S c trig st i).st i.nowErr is

instance decWellTimed (S : Shape) (c : Cfg) (trig : Trig) :
    (st : BState) → (prev : Int) → (ins : List In) → Decidable (WellTimed S c trig st prev ins)
  | _, _, [] => isTrue trivial
  | st, prev, i :: is => by
    unfold WellTimed
    have := decWellTimed S c trig (iter S c trig st i).st i.nowErr is
    infer_instance

/-- well-formedness of the regenerated shape -/
def WF (S : Shape) : Prop :=
  S.onSizeErr = .retry ∧ S.backoff = .deadline ∧ S.onBackoff = .untilRetry ∧ S.onEmpty = .max ∧
  S.onDefault = .nextTick ∧ S.headErr = .retry ∧ S.headEmpty = .retry ∧ S.stateFromTick = true ∧
  S.popErrReturned = true ∧ S.popEmpty = .unlessSizeZero ∧ S.pushErrReturned = true ∧
  S.backoffFirst = true ∧ S.stateFromArm = true

instance (S : Shape) : Decidable (WF S) := by unfold WF; infer_instance

/-- the loop as it was before the repairs (no back-off state): the fault-free reference, and a negative control -/
def plain (S : Shape) : Shape := { S with backoff := .none }

/-- the loop before the repair of finding F4 (`size-head-retried-per-interrupt`): `Size()` is asked at the top of every
    iteration, before the back-off test, and a failing `Size()` / `Head()` only arms the timer (a negative control: every
    interrupt makes the loop ask the failing queue again at once) -/
def askFirst (S : Shape) : Shape := { S with backoffFirst := false, stateFromArm := false }

/-- `calculateNextTick` as it was before its repair: the zero duration when `Head()` returns `ErrQueueEmpty`
    (a negative control: a queue that reports a size but has no head makes the loop spin) -/
def zeroOnEmptyHead (S : Shape) : Shape := { S with headEmpty := .zero }

/-- `fetchAndReschedule` as it was before its repair: `nil` when `Pop()` returns `ErrQueueEmpty`
    (a negative control: a queue that has a size and a due head but nothing to pop makes the loop spin) -/
def nilOnEmptyPop (S : Shape) : Shape := { S with popEmpty := .nil }

/-- `fetchAndReschedule` as it was after 78e46a3: every empty `Pop()` is returned as an error, also the one of an
    honestly empty queue (a negative control: the empty queue is polled for ever) -/
def alwaysOnEmptyPop (S : Shape) : Shape := { S with popEmpty := .returned }

/-- the loop after the first repair (`failed` flag, full `RetryInterval` in every iteration): a negative control -/
def flagVariant (S : Shape) : Shape := { S with backoff := .flag, onBackoff := .retry }

/-! ## Closing the loop over a queue that stores what is pushed -/

abbrev Queue := List Entry

/-- sorted insertion (by fire time, after equal ones) -/
def qpush (e : Entry) : Queue → Queue
  | [] => [e]
  | x :: xs => if e.prio < x.prio then e :: x :: xs else x :: qpush e xs

/-- the fault plan of one iteration: which of the calls fail, plus the other environment choices -/
structure Plan where
  fSize : Bool := false
  fHead : Bool := false
  fPop : Bool := false
  fPush : Bool := false
  fSize2 : Bool := false
  interrupted : Bool := false
  now1 : Int
  now2 : Int
  tArm : Int
  tickAt : Int
  nowVal : Int
  nowErr : Int
deriving Repr

/-- a plan all of whose clock readings are `t` -/
def Plan.at (t : Int) : Plan := { now1 := t, now2 := t, tArm := t, tickAt := t, nowVal := t, nowErr := t }

def Plan.faultFree (p : Plan) : Bool := !p.fSize && !p.fHead && !p.fPop && !p.fPush && !p.fSize2

/-- the call results a fault-wrapped queue holding `q` produces -/
def inOf (q : Queue) (p : Plan) : In where
  size := if p.fSize then none else some q.length
  now1 := p.now1
  head := if p.fHead then .err else match q with | [] => .empty | e :: _ => .ok e.prio
  now2 := p.now2
  tArm := p.tArm
  interrupted := p.interrupted
  tickAt := p.tickAt
  pop := if p.fPop then .err else match q with | [] => .empty | e :: _ => .ok e
  size2 := if p.fSize2 then none else some q.length
  nowVal := p.nowVal
  pushOk := !p.fPush
  nowErr := p.nowErr

/-- the stored entries after the iteration: a successful pop removes the head, a successful push inserts -/
def qAfter (q : Queue) (o : Out) : Queue :=
  match o.popped with
  | none => q
  | some _ =>
    match o.pushed with
    | none => q.tail
    | some e' => qpush e' q.tail

structure LState where
  st : BState
  q : Queue
deriving DecidableEq, Repr

def iterQ (S : Shape) (c : Cfg) (trig : Trig) (s : LState) (p : Plan) : Out × LState :=
  let o := iter S c trig s.st (inOf s.q p)
  (o, { st := o.st, q := qAfter s.q o })

def runQ (S : Shape) (c : Cfg) (trig : Trig) (s : LState) : List Plan → List Out × LState
  | [] => ([], s)
  | p :: ps =>
    let r := iterQ S c trig s p
    let rest := runQ S c trig r.2 ps
    (r.1 :: rest.1, rest.2)

/-- the execution log: (job key, fire time) of every dispatch, in order -/
def dispatchLog (outs : List Out) : List (Nat × Int) :=
  outs.filterMap (fun o => o.dispatched.map (fun e => (e.key, e.prio)))

/-! ## The API methods: which error they return, given the results of the queue calls they make

`QE` identifies the queue's own error value. `F c = true`: the source returns the error of call `c` unchanged. -/

abbrev QE := Nat

inductive ApiCall where
  | schedulePush | deleteRemove | clearClear | getGet | keysList
  | pauseGet | pauseRemove | pausePush
  | resumeGet | resumeRemove | resumePush
deriving DecidableEq, Repr

inductive AErr where
  | queue (e : QE)
  | jobIsSuspended | jobIsActive | trigger
deriving DecidableEq, Repr

/-- queue operations an API method performs (what it did before it returned) -/
inductive AOp where
  | push | remove | clear | get | list
deriving DecidableEq, Repr

def ret (F : ApiCall → Bool) (c : ApiCall) (e : QE) : Option AErr := if F c then some (.queue e) else none

/-- `ScheduleJob` after its argument checks: `if err = sched.queue.Push(toSchedule); err == nil {…}; return err` -/
def scheduleJob (F : ApiCall → Bool) (push : Option QE) : Option AErr × List AOp :=
  match push with
  | some e => (ret F .schedulePush e, [.push])
  | none => (none, [.push])

/-- `DeleteJob` -/
def deleteJob (F : ApiCall → Bool) (remove : Option QE) : Option AErr × List AOp :=
  match remove with
  | some e => (ret F .deleteRemove e, [.remove])
  | none => (none, [.remove])

/-- `Clear` -/
def clear (F : ApiCall → Bool) (clr : Option QE) : Option AErr × List AOp :=
  match clr with
  | some e => (ret F .clearClear e, [.clear])
  | none => (none, [.clear])

/-- `GetScheduledJob`: `return sched.queue.Get(jobKey)` -/
def getScheduledJob (F : ApiCall → Bool) (get : Option QE) : Option AErr × List AOp :=
  match get with
  | some e => (ret F .getGet e, [.get])
  | none => (none, [.get])

/-- `GetJobKeys` -/
def getJobKeys (F : ApiCall → Bool) (list : Option QE) : Option AErr × List AOp :=
  match list with
  | some e => (ret F .keysList e, [.list])
  | none => (none, [.list])

/-- `PauseJob`: `Get` (its result: error or whether the job is suspended), `Remove`, `Push` -/
def pauseJob (F : ApiCall → Bool) (get : Except QE Bool) (remove push : Option QE) : Option AErr × List AOp :=
  match get with
  | .error e => (ret F .pauseGet e, [.get])
  | .ok true => (some .jobIsSuspended, [.get])
  | .ok false =>
    match remove with
    | some e => (ret F .pauseRemove e, [.get, .remove])
    | none =>
      match push with
      | some e => (ret F .pausePush e, [.get, .remove, .push])
      | none => (none, [.get, .remove, .push])

/-- `ResumeJob`: `Get`, the trigger, `Remove`, `Push` -/
def resumeJob (F : ApiCall → Bool) (get : Except QE Bool) (trigOk : Bool) (remove push : Option QE) :
    Option AErr × List AOp :=
  match get with
  | .error e => (ret F .resumeGet e, [.get])
  | .ok false => (some .jobIsActive, [.get])
  | .ok true =>
    if !trigOk then (some .trigger, [.get]) else
    match remove with
    | some e => (ret F .resumeRemove e, [.get, .remove])
    | none =>
      match push with
      | some e => (ret F .resumePush e, [.get, .remove, .push])
      | none => (none, [.get, .remove, .push])

end Faults
