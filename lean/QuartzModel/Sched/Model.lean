import QuartzModel.Queue.JobQueue
import QuartzModel.Cron.NextFire
/-!
# Scheduler registry operations and the dispatch step
(model of `quartz/scheduler.go`: ScheduleJob, DeleteJob, PauseJob, ResumeJob, Clear, GetScheduledJob,
GetJobKeys, validateJob, fetchAndReschedule) over the default-queue model and explicit trigger
state machines. Time is an input: every operation takes the `now` the code read from the clock.
-/
namespace Sched
open Queue

def maxInt64 : Int := 9223372036854775807

/-- Trigger behaviour as an explicit state machine (`quartz/trigger.go` + scripted test triggers) -/
inductive Trig where
  | simple (interval : Int)
  | runOnce (delay : Int) (expired : Bool)
  | script (answers : List (Option Int))     -- `none` / exhausted = the trigger's own error
  | fixed (v : Int)
  /-- `quartz.CronTrigger` in a fixed-offset location: parsed fields and the offset (seconds east of UTC) -/
  | cron (f : Cron.Fields) (offset : Int)
deriving DecidableEq, Repr, Inhabited

/-- `addNanos(t, d)` of `quartz/trigger.go`: `t + d`, saturating at the largest representable time instead of
wrapping around (`if d > 0 && next < t { return math.MaxInt64 }`).  Models Go exactly for int64 `t`, `d` whenever
`d > 0` (the wrapped sum is `< t` exactly when the true sum exceeds `maxInt64`) or the true sum does not wrap
below `MinInt64` (`t ≥ 0` in practice: `t` is a clock reading or a fire time).  Negative wrap-around (`d < 0`,
`t` near `MinInt64`) is outside the model. -/
def satAdd (t d : Int) : Int := if d > 0 ∧ t + d > maxInt64 then maxInt64 else t + d

/-- `Trigger.NextFireTime(prev)`: result (`none` = error) and the trigger's new state -/
def Trig.fire (t : Trig) (prev : Int) : Option Int × Trig :=
  match t with
  | .simple i => (some (satAdd prev i), t)
  | .runOnce d false => (some (satAdd prev d), .runOnce d true)
  | .runOnce _ true => (none, t)
  | .script [] => (none, t)
  | .script (a :: rest) => (a, .script rest)
  | .fixed v => (some v, t)
  | .cron f c =>
    match Cron.nextFire {} f (Cron.fixedZone c) prev with
    | .ok r => (some r, t)
    | _ => (none, t)

inductive SErr where
  | illegalArgument | jobAlreadyExists | jobNotFound | jobIsSuspended | jobIsActive | triggerError | queueEmpty
deriving DecidableEq, Repr

def ofQErr : QErr → SErr
  | .queueEmpty => .queueEmpty
  | .jobNotFound => .jobNotFound
  | .jobAlreadyExists => .jobAlreadyExists

structure SState where
  q : Arr := #[]
  /-- trigger objects by identity (the tag of the entries that carry them) -/
  trigs : List (Nat × Trig) := []
deriving Repr

def SState.trig (s : SState) (tag : Nat) : Trig := (s.trigs.lookup tag).getD (.script [])

def SState.setTrig (s : SState) (tag : Nat) (t : Trig) : SState :=
  { s with trigs := (tag, t) :: s.trigs.filter (fun p => p.1 != tag) }

/-- what a call observed of a trigger: its tag, the `prev` it was given, its answer -/
structure TrigCall where
  tag : Nat
  prev : Int
  result : Option Int
deriving DecidableEq, Repr

/-- arguments of `ScheduleJob` after nil checks; `none` fields model nil / empty arguments -/
structure SchedArgs where
  hasDetail : Bool := true
  hasKey : Bool := true
  group : String
  name : String
  suspended : Bool := false
  replace : Bool := false
  tag : Nat
  trig : Option Trig

/-- `ScheduleJob` -/
def schedule (s : SState) (now : Int) (a : SchedArgs) : SState × Option SErr × List TrigCall :=
  if !a.hasDetail || !a.hasKey || a.name == "" then (s, some .illegalArgument, []) else
  match a.trig with
  | none => (s, some .illegalArgument, [])
  | some t =>
    -- the trigger is asked before the queue lock is taken
    let (prio, t', calls) :=
      if a.suspended then (some maxInt64, t, [])
      else let r := t.fire now; (r.1, r.2, [{ tag := a.tag, prev := now, result := r.1 : TrigCall }])
    match prio with
    | none => (s, some .triggerError, calls)       -- the trigger object itself may have changed state; the registry has not
    | some p =>
      match qpush s.q { group := a.group, name := a.name, prio := p, suspended := a.suspended, replace := a.replace, tag := a.tag } with
      | .ok q' => (({ s with q := q' }).setTrig a.tag t', none, calls)
      | .error e => (s, some (ofQErr e), calls)

/-- `DeleteJob` (`hasKey = false`: nil key) -/
def delete (s : SState) (hasKey : Bool) (g n : String) : SState × Option SErr :=
  if !hasKey then (s, some .illegalArgument) else
  match qremove s.q g n with
  | .ok (q', _) => ({ s with q := q' }, none)
  | .error e => (s, some (ofQErr e))

/-- `PauseJob` -/
def pause (s : SState) (hasKey : Bool) (g n : String) : SState × Option SErr :=
  if !hasKey then (s, some .illegalArgument) else
  match qget s.q g n with
  | .error e => (s, some (ofQErr e))
  | .ok job =>
    if job.suspended then (s, some .jobIsSuspended) else
    match qremove s.q g n with
    | .error e => (s, some (ofQErr e))
    | .ok (q', j) =>
      match qpush q' { j with prio := maxInt64, suspended := true } with
      | .ok q'' => ({ s with q := q'' }, none)
      | .error e => ({ s with q := q' }, some (ofQErr e))

/-- `ResumeJob` (repaired order: the trigger is asked before the entry is removed) -/
def resume (s : SState) (now : Int) (hasKey : Bool) (g n : String) : SState × Option SErr × List TrigCall :=
  if !hasKey then (s, some .illegalArgument, []) else
  match qget s.q g n with
  | .error e => (s, some (ofQErr e), [])
  | .ok job =>
    if !job.suspended then (s, some .jobIsActive, []) else
    let r := (s.trig job.tag).fire now
    let calls := [{ tag := job.tag, prev := now, result := r.1 : TrigCall }]
    match r.1 with
    | none => (s.setTrig job.tag r.2, some .triggerError, calls)
    | some p =>
      let s := s.setTrig job.tag r.2
      match qremove s.q g n with
      | .error e => (s, some (ofQErr e), calls)
      | .ok (q', j) =>
        match qpush q' { j with prio := p, suspended := false } with
        | .ok q'' => ({ s with q := q'' }, none, calls)
        | .error e => ({ s with q := q' }, some (ofQErr e), calls)

/-- `Clear` -/
def clear (s : SState) : SState := { s with q := #[] }

/-- `GetScheduledJob` -/
def getJob (s : SState) (hasKey : Bool) (g n : String) : Except SErr Entry :=
  if !hasKey then .error .illegalArgument else
  match qget s.q g n with
  | .ok e => .ok e
  | .error e => .error (ofQErr e)

/-- `GetJobKeys` -/
def jobKeys (s : SState) (ms : List Matcher) : List (String × String) :=
  (qlist s.q ms).map (fun e => (e.group, e.name))

/-! ## the dispatch step -/

inductive Class where
  | suspended | outdated | notDue | valid
deriving DecidableEq, Repr

/-- `validateJob`: classification of a dequeued entry against the clock -/
def classify (e : Entry) (now threshold : Int) : Class :=
  if e.suspended then .suspended
  else if e.prio < now - threshold then .outdated
  else if e.prio > now then .notDue
  else .valid

structure StepOut where
  popped : Option Entry := none
  cls : Option Class := none
  /-- the entry is handed to the dispatcher for execution -/
  dispatched : Bool := false
  /-- offered to MisfiredChan (non-blocking) -/
  misfired : Bool := false
  calls : List TrigCall := []
  pushed : Option Entry := none
deriving Repr

/-- `fetchAndReschedule` at clock reading `now` -/
def step (s : SState) (now threshold : Int) : SState × StepOut :=
  match qpop s.q with
  | .error _ => (s, {})
  | .ok (q', e) =>
    let s1 := { s with q := q' }
    let cls := classify e now threshold
    -- next run time extractor
    let (next, s2, calls) : Option Int × SState × List TrigCall :=
      match cls with
      | .suspended => (some maxInt64, s1, [])
      | .notDue => (some e.prio, s1, [])
      | .outdated =>
        let r := (s1.trig e.tag).fire now
        (r.1, s1.setTrig e.tag r.2, [{ tag := e.tag, prev := now, result := r.1 }])
      | .valid =>
        let r := (s1.trig e.tag).fire e.prio
        (r.1, s1.setTrig e.tag r.2, [{ tag := e.tag, prev := e.prio, result := r.1 }])
    let out : StepOut := { popped := some e, cls := some cls, dispatched := cls == .valid, misfired := cls == .outdated, calls := calls }
    match next with
    | none => (s2, out)                       -- trigger error: returned for execution if valid, not pushed back
    | some p =>
      let ne := { e with prio := p }
      match qpush s2.q ne with
      | .ok q'' => ({ s2 with q := q'' }, { out with pushed := some ne })
      | .error _ => (s2, out)

end Sched
