import QuartzModel.Sched.Model
/-!
# Histories of scheduler events (definitions only, core Lean)

A history is a list of API calls and loop steps, each carrying the clock reading the code took.
A loop step may occur at ANY clock reading and in any interleaving with the API calls: this is how
spurious / stale timer wake-ups and concurrent queue changes are represented (every operation of the
Go scheduler runs under `queueLocker`, so operations are atomic with respect to each other).
Clock readings are NOT required to be monotone.
-/
namespace Sched
open Queue

inductive Ev where
  | schedule (now : Int) (a : SchedArgs)
  | delete (hasKey : Bool) (g n : String)
  | pause (hasKey : Bool) (g n : String)
  | resume (now : Int) (hasKey : Bool) (g n : String)
  | clear
  | step (now : Int)

/-- what one event did that the outside can see -/
structure Obs where
  /-- the sentinel error the call returned (`none` = success; always `none` for `clear` / `step`) -/
  err : Option SErr := none
  /-- the trigger calls made while the event ran, in order -/
  calls : List TrigCall := []
  /-- for step events: the full outcome of `fetchAndReschedule` -/
  out : Option StepOut := none
deriving Repr

/-- one event -/
def apply (thr : Int) (s : SState) : Ev → SState × Obs
  | .schedule now a => let r := schedule s now a; (r.1, { err := r.2.1, calls := r.2.2 })
  | .delete hk g n => let r := delete s hk g n; (r.1, { err := r.2 })
  | .pause hk g n => let r := pause s hk g n; (r.1, { err := r.2 })
  | .resume now hk g n => let r := resume s now hk g n; (r.1, { err := r.2.1, calls := r.2.2 })
  | .clear => (clear s, {})
  | .step now => let r := step s now thr; (r.1, { calls := r.2.calls, out := some r.2 })

/-- a history, left to right; observations in the order of the events -/
def run (thr : Int) (s : SState) : List Ev → SState × List Obs
  | [] => (s, [])
  | ev :: evs =>
    let r := apply thr s ev
    let r' := run thr r.1 evs
    (r'.1, r.2 :: r'.2)

/-- the tag (trigger-object identity) a `schedule` event brings in -/
def Ev.schedTag? : Ev → Option Nat
  | .schedule _ a => some a.tag
  | _ => none

def schedTags (evs : List Ev) : List Nat := evs.filterMap Ev.schedTag?

/-- a trigger object is handed to one `ScheduleJob` call only: the `schedule` events of a history carry
pairwise distinct tags -/
def FreshTags (evs : List Ev) : Prop := (schedTags evs).Nodup

instance (evs : List Ev) : Decidable (FreshTags evs) :=
  inferInstanceAs (Decidable (List.Nodup _))

/-- ... and none of them is already carried by an entry of the starting state -/
def FreshFor (s : SState) (evs : List Ev) : Prop :=
  ∀ t ∈ schedTags evs, ∀ e ∈ s.q.toList, e.tag ≠ t

/-- the event addresses job key `(g, n)` (a `clear` addresses every key, a `step` none) -/
def Ev.touches (g n : String) : Ev → Bool
  | .schedule _ a => a.group == g && a.name == n
  | .delete _ g' n' => g' == g && n' == n
  | .pause _ g' n' => g' == g && n' == n
  | .resume _ _ g' n' => g' == g && n' == n
  | .clear => true
  | .step _ => false

/-- the global trigger-call log of a list of observations -/
def callLog (obs : List Obs) : List TrigCall := obs.flatMap (·.calls)

/-- a dispatch: the loop handed the entry with this tag and this scheduled fire time to a worker;
`pos` = length of the call log when the step began (everything below `pos` happened earlier) -/
structure Disp where
  pos : Nat
  tag : Nat
  time : Int
deriving DecidableEq, Repr

/-- the dispatch of one observation, if any (`pos` = length of the call log before it) -/
def Obs.disp? (o : Obs) (pos : Nat) : Option Disp :=
  match o.out with
  | some out =>
    if out.dispatched then
      match out.popped with
      | some e => some { pos := pos, tag := e.tag, time := e.prio }
      | none => none
    else none
  | none => none

/-- all dispatches of a list of observations, in order; `pos0` = length of the earlier call log -/
def dispatchesFrom : Nat → List Obs → List Disp
  | _, [] => []
  | pos0, o :: os => (o.disp? pos0).toList ++ dispatchesFrom (pos0 + o.calls.length) os

def dispatches (obs : List Obs) : List Disp := dispatchesFrom 0 obs

/-- the fire time an observation dispatched for `tag`, if it did -/
def Obs.dispTime? (tag : Nat) (o : Obs) : Option Int :=
  match o.disp? 0 with
  | some d => if d.tag = tag then some d.time else none
  | none => none

/-- fire times of one tag that were dispatched, in order -/
def dispatchTimes (tag : Nat) (obs : List Obs) : List Int := obs.filterMap (Obs.dispTime? tag)

/-- the observation shows no consumption of a fire time of `tag`: its trigger is not asked and it is
not dispatched -/
def Obs.noConsume (tag : Nat) (o : Obs) : Prop :=
  (∀ c ∈ o.calls, c.tag ≠ tag) ∧ ∀ pos d, o.disp? pos = some d → d.tag ≠ tag

/-- the observation shows no trace of `tag` at all: not asked, not even popped -/
def Obs.quiet (tag : Nat) (o : Obs) : Prop :=
  (∀ c ∈ o.calls, c.tag ≠ tag) ∧ ∀ out e, o.out = some out → out.popped = some e → e.tag ≠ tag

/-- the two lists have the same length and are related position by position -/
inductive AllPairs {α β : Type} (R : α → β → Prop) : List α → List β → Prop
  | nil : AllPairs R [] []
  | cons {a : α} {b : β} {as : List α} {bs : List β} : R a b → AllPairs R as bs → AllPairs R (a :: as) (b :: bs)

/-! ## vocabulary of the theorem statements (C03 / C04 / C08 / C09) -/

/-- a nil / empty argument of `ScheduleJob` (nil job detail, nil key, empty key name, nil trigger) -/
def SchedArgs.illegal (a : SchedArgs) : Prop :=
  a.hasDetail = false ∨ a.hasKey = false ∨ a.name = "" ∨ a.trig = none

instance (a : SchedArgs) : Decidable a.illegal := by unfold SchedArgs.illegal; infer_instance

/-- the non-suspended trigger answers with its own error -/
def SchedArgs.trigFails (a : SchedArgs) (now : Int) : Prop :=
  a.suspended = false ∧ ∃ t, a.trig = some t ∧ (t.fire now).1 = none

/-- the entry `ScheduleJob` builds when the trigger answered `p` -/
def SchedArgs.entry (a : SchedArgs) (p : Int) : Entry :=
  { group := a.group, name := a.name, prio := p, suspended := a.suspended, replace := a.replace, tag := a.tag }

/-- the entry `PauseJob` puts back -/
def pausedOf (e : Entry) : Entry := { e with prio := maxInt64, suspended := true }

/-- the entry `ResumeJob` puts back -/
def resumedOf (e : Entry) (p : Int) : Entry := { e with prio := p, suspended := false }

/-- tags identify entries -/
def TagsDistinct (q : Arr) : Prop := ∀ x ∈ q.toList, ∀ y ∈ q.toList, x.tag = y.tag → x = y

/-- no entry of the registry carries tag `t` -/
def AbsentTag (t : Nat) (s : SState) : Prop := ∀ e ∈ s.q.toList, e.tag ≠ t

/-- all events are loop steps -/
def OnlySteps (evs : List Ev) : Prop := ∀ ev ∈ evs, ∃ now, ev = .step now

/-- no step pops tag `t` more than the threshold late -/
def NeverOutdated (t : Nat) (obs : List Obs) : Prop :=
  ∀ o ∈ obs, ∀ out e, o.out = some out → out.popped = some e → e.tag = t → out.cls ≠ some .outdated

/-- the event is a `ScheduleJob` for key `(g, n)` -/
def Ev.schedulesKey (g n : String) : Ev → Bool
  | .schedule _ a => a.group == g && a.name == n
  | _ => false

end Sched
