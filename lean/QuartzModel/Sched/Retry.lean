/-!
# `executeWithRetries` (quartz/scheduler.go) — retry loop and panic containment

```go
func (sched *StdScheduler) executeWithRetries(ctx context.Context, jobDetail *JobDetail) {
	defer func() {                                   // `recoverDeferred`
		if err := recover(); err != nil { sched.logger.Error("Job panicked", …) }
	}()
	err := jobDetail.job.Execute(ctx)                // first attempt            (`body`)
	if err == nil { return }
retryLoop:
	for i := 1; i <= jobDetail.opts.MaxRetries; i++ { //                          (`retryLoop`)
		timer := time.NewTimer(jobDetail.opts.RetryInterval)
		select {
		case <-timer.C:                              // `Event.wait`
		case <-ctx.Done():                           // `Event.waitCancelled`
			timer.Stop()
			break retryLoop
		}
		err = jobDetail.job.Execute(ctx)             // attempt i+1
		if err == nil { break }
	}
	if err != nil { sched.logger.Warn("Job terminated", …) }
}
```

The environment is given up front: the outcome of the j-th call of `Execute` is the j-th element of the
script (`ok` once the script is exhausted), and `cancelAt = some k` says that the scheduler's context
ends before the k-th retry wait completes (it is closed from then on, so every wait with index `≥ k`
takes the `ctx.Done()` branch). The model is a total function; core Lean only.
-/
namespace Sched.Retry

/-- what one call of `jobDetail.job.Execute(ctx)` does -/
inductive Outcome where
  | ok      -- returns nil
  | err     -- returns a non-nil error
  | panic   -- panics
  deriving DecidableEq, Repr, Inhabited

/-- how `executeWithRetries` ended. There is no constructor for "the panic left the function": the
deferred `recover()` is the only way out of a panicking body (`recoverDeferred`). -/
inductive End where
  | succeeded   -- an attempt returned nil
  | gaveUp      -- the loop condition `i <= MaxRetries` failed with `err != nil`
  | cancelled   -- `<-ctx.Done()` won a retry wait, `break retryLoop` with `err != nil`
  | recovered   -- an attempt panicked; the deferred function recovered and logged it
  deriving DecidableEq, Repr, Inhabited

/-- what the function does, in program order -/
inductive Event where
  | attempt (o : Outcome)   -- one call of `jobDetail.job.Execute(ctx)` and what it did
  | wait                    -- `case <-timer.C:` a complete `RetryInterval` elapsed
  | waitCancelled           -- `case <-ctx.Done(): timer.Stop(); break retryLoop`
  deriving DecidableEq, Repr

/-- the normal (non-panicking) ways out of the function body -/
inductive Normal where
  | succeeded | gaveUp | cancelled
  deriving DecidableEq, Repr

/-- how control leaves the body that runs under the deferred recover -/
inductive Exit where
  | returned (n : Normal)
  | panicking               -- a panic is unwinding the stack
  deriving DecidableEq, Repr

structure Result where
  trace : List Event
  ending : End
  deriving DecidableEq, Repr

/-- `<-ctx.Done()` is ready during the `i`-th retry wait: the context ended at or before it -/
def ctxDone (cancelAt : Option Nat) (i : Nat) : Bool :=
  match cancelAt with
  | none => false
  | some k => decide (k ≤ i)

/-- `retryLoop: for …; i <= MaxRetries; i++ { … }` entered with loop variable `i` (the initial `i := 1`
is in `body`); `rest` are the outcomes of the attempts still to come. An exhausted script means the
job succeeds, so the recursion is structural on the script. -/
def retryLoop (maxRetries : Int) (cancelAt : Option Nat) : Nat → List Outcome → List Event × Exit
  | i, rest =>
    if (i : Int) ≤ maxRetries then                                  -- `i <= jobDetail.opts.MaxRetries`
      if ctxDone cancelAt i then                                    -- select: `case <-ctx.Done():`
        ([.waitCancelled], .returned .cancelled)                    --   `break retryLoop`, err != nil
      else                                                          -- select: `case <-timer.C:`
        match rest with                                             -- `err = jobDetail.job.Execute(ctx)`
        | [] => ([.wait, .attempt .ok], .returned .succeeded)       --   `if err == nil { break }`
        | .ok :: _ => ([.wait, .attempt .ok], .returned .succeeded)
        | .panic :: _ => ([.wait, .attempt .panic], .panicking)     --   unwinds to the deferred function
        | .err :: rest' =>                                          --   `i++`, next iteration
          let r := retryLoop maxRetries cancelAt (i + 1) rest'
          (.wait :: .attempt .err :: r.1, r.2)
    else ([], .returned .gaveUp)                                    -- loop left with err != nil

/-- the statements of `executeWithRetries` after the `defer` -/
def body (maxRetries : Int) (script : List Outcome) (cancelAt : Option Nat) : List Event × Exit :=
  match script with                                                 -- `err := jobDetail.job.Execute(ctx)`
  | [] => ([.attempt .ok], .returned .succeeded)                    -- `if err == nil { return }`
  | .ok :: _ => ([.attempt .ok], .returned .succeeded)
  | .panic :: _ => ([.attempt .panic], .panicking)
  | .err :: rest =>
    let r := retryLoop maxRetries cancelAt 1 rest                   -- `for i := 1; …`
    (.attempt .err :: r.1, r.2)

/-- the deferred `func() { if err := recover(); err != nil { log } }()`: it runs on every exit of the
body; a panicking body is turned into a normal return of `executeWithRetries` -/
def recoverDeferred : Exit → End
  | .returned .succeeded => .succeeded
  | .returned .gaveUp => .gaveUp
  | .returned .cancelled => .cancelled
  | .panicking => .recovered

/-- `(*StdScheduler).executeWithRetries` -/
def executeWithRetries (maxRetries : Int) (script : List Outcome) (cancelAt : Option Nat) : Result :=
  let r := body maxRetries script cancelAt
  { trace := r.1, ending := recoverDeferred r.2 }

/-- the outcomes of the attempts made, in order -/
def attemptsOf : List Event → List Outcome
  | [] => []
  | .attempt o :: t => o :: attemptsOf t
  | _ :: t => attemptsOf t

def Result.attempts (r : Result) : List Outcome := attemptsOf r.trace

/-- completed `RetryInterval` waits -/
def Result.waits (r : Result) : Nat := r.trace.count .wait

/-- number of failures (`err`) before the first attempt that does anything else -/
def failuresBefore : List Outcome → Nat
  | .err :: t => failuresBefore t + 1
  | _ => 0

/-- The literal shapes of the Go source that the model transcribes (compared with the facts
regenerated from /repo in `Theorems/C13.lean`). -/
structure SourceShape where
  /-- the first statement is `defer func() { … recover() … }()` -/
  recoverDeferredFirst : Bool := true
  /-- statements between the `defer` and the loop -/
  prologue : List String := ["err:=Execute", "if err==nil return"]
  /-- `for i := 1` -/
  loopInit : Int := 1
  /-- `i <= jobDetail.opts.MaxRetries` -/
  loopCond : String := "i<=MaxRetries"
  /-- `i++` -/
  loopPost : String := "i++"
  /-- statements of the loop body (logger calls ignored) -/
  loopBody : List String := ["timer:=NewTimer(RetryInterval)", "select", "if ctx.Err()!=nil break loop", "err=Execute", "if err==nil break"]
  /-- the cases of the select, with their bodies -/
  selectCases : List String := ["<-timer.C:", "<-ctx.Done():timer.Stop;break loop"]
  /-- the label of the loop is the label of that `break` -/
  loopLabelled : Bool := true
  /-- statements after the loop (only logging) -/
  epilogue : List String := []
  /-- every call of `executeWithRetries` in package quartz, by calling function: the blocking and the
  unbounded dispatch of `executeAndReschedule` and the worker goroutines of `startWorkers` -/
  callSites : List String := ["executeAndReschedule", "executeAndReschedule", "startWorkers"]
  /-- no job is executed by the scheduler except through `executeWithRetries` -/
  directExecuteElsewhere : Nat := 0
  deriving DecidableEq, Repr

end Sched.Retry
