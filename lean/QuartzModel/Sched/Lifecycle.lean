/-!
# Scheduler lifecycle (C10) — interleaving model of Start / Stop / cancel / Wait

Go code modelled (quartz/scheduler.go), everything marked (mtx) runs with `sched.mtx` held and is one atomic step:

* `Start(ctx)` (mtx): `if started && runCtx.Err() != nil { stop() }` (completes a stop that is pending because the
  run's context was cancelled and the watcher has not reacted yet); `if started { return }`;
  `ctx, cancel = WithCancel(ctx); runCtx = ctx; run++`; `wg.Add(1); go watcher(run)`; `dispatch := make(chan …)` (one
  hand-off channel per run, see `Sched/Pool.lean`); `wg.Add(1); go loop(ctx, dispatch)`; `startWorkers(ctx, dispatch)` (`wg.Add(1); go worker` × n); `started = true`.
* watcher of generation g: `defer wg.Done(); <-ctx.Done(); sched.stopRun(g)`.
* `Stop()` (mtx) = `stop()`; `stopRun(g)` (mtx) = `if sched.run == g { stop() }`;
  `stop()` = `if !started { return }; sched.cancel(); started = false`.
* `IsStarted()` = `started && runCtx.Err() == nil`.
* `Wait(ctx)` is `select { case <-ctx.Done(): case <-sched.wg.zero(): }`: it creates no goroutine and writes nothing.
  `wg` is a `waitCounter` (mutex, `n`, `done`): `Add` makes a fresh `done` channel when it leaves zero and closes it
  when `n` returns to zero; `zero()` returns a closed channel iff `n = 0`, else the current `done`. Waiters are
  modelled in a layer on top of the scheduler state (`WSt`, end of this file): they only read it.
* loop / workers leave on `<-ctx.Done()`; per-execution goroutines (`wg.Add(1); go func(){ defer wg.Done(); … }`)
  are created by the loop goroutine only, and run the job with the run's ctx.

State: the `started` flag, one record per generation (= effective `Start`; `sched.run` is the number of
records, `sched.cancel` / `sched.runCtx` belong to the last one), the WaitGroup counter. Threads are program
counters / liveness flags inside the generation record. User actions (`start`, `stop`, `cancel g` = the user
cancels the context he passed to the g-th effective Start; starting with an already cancelled context is
`start` followed by `cancel`) interleave arbitrarily with the internal steps. Jobs are abstract: a job goroutine
may exit at any time (on its own or because it saw its ctx cancelled) or never; a busy worker / the loop in
blocking mode simply takes its exit step later or never. `Cfg` selects the code variant: `Cfg.std` is the code
as it is, the other variants are the negative controls (generation guard removed = the historic defect
"a stale watcher stops the next run"; Start's pre-stop removed = "Start; cancel; Start ends stopped").
Core Lean only.
-/
namespace Lifecycle

/-- watcher goroutine: blocked in `<-ctx.Done()` / woken, about to call `stopRun` / returned -/
inductive WPc
  | waiting | woke | done
deriving DecidableEq, Repr

/-- one generation = one effective `Start` -/
structure Gen where
  /-- the run's derived context is cancelled (by `sched.cancel()` or through the parent) -/
  cancelled : Bool
  watcher : WPc
  /-- the execution-loop goroutine has not returned -/
  loop : Bool
  /-- worker goroutines that have not returned -/
  workers : Nat
  /-- per-execution goroutines that have not returned -/
  jobs : Nat
deriving DecidableEq, Repr

structure Cfg where
  /-- number of goroutines `startWorkers` starts (0 unless WorkerLimit mode, see `Pool.Code.workers`) -/
  workers : Nat
  /-- the watcher calls `stopRun(run)` with the captured generation (false: plain `Stop()`) -/
  guarded : Bool
  /-- `Start` begins with `if started && runCtx.Err() != nil { stop() }` -/
  prestop : Bool
  /-- `IsStarted` is `started && runCtx.Err() == nil` (false: just `started`) -/
  ctxAware : Bool
deriving DecidableEq, Repr

/-- the code as it is -/
def Cfg.std (n : Nat) : Cfg := { workers := n, guarded := true, prestop := true, ctxAware := true }

structure St where
  started : Bool
  /-- generation `g` (the value of `sched.run` after its Start) is `gens[g-1]`; `sched.run = gens.length` -/
  gens : List Gen
  /-- the WaitGroup counter -/
  wg : Nat
deriving DecidableEq, Repr

def init : St := { started := false, gens := [], wg := 0 }

inductive Act
  | start | stop | cancel (i : Nat)          -- the user (i = 0-based generation index)
  | watcherWake (i : Nat)                    -- `<-ctx.Done()` returns
  | watcherStop (i : Nat)                    -- `stopRun(i+1)`, then the deferred `wg.Done()`
  | loopExit (i : Nat)                       -- the loop takes `case <-ctx.Done()`
  | workerExit (i : Nat)                     -- a worker takes `case <-ctx.Done()`
  | jobSpawn (i : Nat)                       -- the loop does `wg.Add(1); go func(){…}`
  | jobExit (i : Nat)                        -- a per-execution goroutine returns
deriving DecidableEq, Repr

def Act.isInternal : Act → Bool
  | .start | .stop | .cancel _ => false
  | _ => true

/-- `sched.runCtx.Err() != nil` (only consulted when `started`, i.e. when a generation exists) -/
def curCancelled (s : St) : Bool :=
  match s.gens[s.gens.length - 1]? with
  | some g => g.cancelled
  | none => false

/-- `cancel()` of generation `i` -/
def cancelAt (l : List Gen) (i : Nat) : List Gen :=
  match l[i]? with
  | some g => l.set i { g with cancelled := true }
  | none => l

/-- `stop()` -/
def stopBody (s : St) : St :=
  if s.started then { s with started := false, gens := cancelAt s.gens (s.gens.length - 1) } else s

def newGen (cfg : Cfg) : Gen :=
  { cancelled := false, watcher := .waiting, loop := true, workers := cfg.workers, jobs := 0 }

/-- `Start` -/
def startBody (cfg : Cfg) (s : St) : St :=
  let s1 := if cfg.prestop && s.started && curCancelled s then stopBody s else s
  if s1.started then s1
  else { started := true, gens := s1.gens ++ [newGen cfg], wg := s1.wg + 2 + cfg.workers }

/-- the watcher's deferred `wg.Done()` -/
def finishWatcher (s : St) (i : Nat) : St :=
  match s.gens[i]? with
  | some g => { s with gens := s.gens.set i { g with watcher := .done }, wg := s.wg - 1 }
  | none => s

/-- `IsStarted()` -/
def isStarted (cfg : Cfg) (s : St) : Bool := s.started && (!cfg.ctxAware || !curCancelled s)

def step (cfg : Cfg) (s : St) : Act → Option St
  | .start => some (startBody cfg s)
  | .stop => some (stopBody s)
  | .cancel i =>
    match s.gens[i]? with
    | some g => some { s with gens := s.gens.set i { g with cancelled := true } }
    | none => none
  | .watcherWake i =>
    match s.gens[i]? with
    | some g =>
      if g.cancelled = true ∧ g.watcher = .waiting
      then some { s with gens := s.gens.set i { g with watcher := .woke } } else none
    | none => none
  | .watcherStop i =>
    match s.gens[i]? with
    | some g =>
      if g.watcher = .woke then
        -- stopRun(i+1): `if sched.run == run { stop() }`; the unguarded variant calls Stop()
        some (finishWatcher (if cfg.guarded && !(s.gens.length == i + 1) then s else stopBody s) i)
      else none
    | none => none
  | .loopExit i =>
    match s.gens[i]? with
    | some g =>
      if g.loop = true ∧ g.cancelled = true
      then some { s with gens := s.gens.set i { g with loop := false }, wg := s.wg - 1 } else none
    | none => none
  | .workerExit i =>
    match s.gens[i]? with
    | some g =>
      if 0 < g.workers ∧ g.cancelled = true
      then some { s with gens := s.gens.set i { g with workers := g.workers - 1 }, wg := s.wg - 1 } else none
    | none => none
  | .jobSpawn i =>
    match s.gens[i]? with
    | some g =>
      if g.loop = true
      then some { s with gens := s.gens.set i { g with jobs := g.jobs + 1 }, wg := s.wg + 1 } else none
    | none => none
  | .jobExit i =>
    match s.gens[i]? with
    | some g =>
      if 0 < g.jobs
      then some { s with gens := s.gens.set i { g with jobs := g.jobs - 1 }, wg := s.wg - 1 } else none
    | none => none

def run (cfg : Cfg) (s : St) : List Act → Option St
  | [] => some s
  | a :: as => (step cfg s a).bind (fun s' => run cfg s' as)

def Reach (cfg : Cfg) (s : St) : Prop := ∃ as, run cfg init as = some s

/-- goroutines of one generation that are counted in the WaitGroup and have not returned -/
def Gen.live (g : Gen) : Nat :=
  (if g.watcher = .done then 0 else 1) + (if g.loop then 1 else 0) + g.workers + g.jobs

def liveL : List Gen → Nat
  | [] => 0
  | g :: l => g.live + liveL l

/-- all counted goroutines of all generations that have not returned -/
def live (s : St) : Nat := liveL s.gens

/-- no watcher has a step to take (the watchers are the only goroutines that write `started`) -/
def Quiet (s : St) : Prop :=
  ∀ g ∈ s.gens, g.watcher ≠ .woke ∧ ¬ (g.watcher = .waiting ∧ g.cancelled = true)

instance (s : St) : Decidable (Quiet s) := by unfold Quiet; infer_instance

/-- What the user's calls alone determine, in call order: (number of effective Starts, expected IsStarted).
    Start yields `true`; Stop yields `false`; cancelling the context of the current run yields `false`;
    cancelling the context of an earlier run, and every internal step, changes nothing. -/
def expectStep : Nat × Bool → Act → Nat × Bool
  | (n, w), .start => if w then (n, true) else (n + 1, true)
  | (n, _), .stop => (n, false)
  | (n, w), .cancel i => if i + 1 = n then (n, false) else (n, w)
  | p, _ => p

def expect (as : List Act) : Nat × Bool := as.foldl expectStep (0, false)

/-! ## Wait: callers layered on top of the scheduler state

`WSt` adds to the scheduler state the identity of the current `done` channel (`epoch` = number of times the
counter has left zero) and the callers of `Wait`. A caller is not a goroutine of the scheduler. `wstep` lifts
every scheduler action unchanged (`WAct.sched`): the scheduler component never reads the waiters.
The flag `old` selects the historic implementation (sync.WaitGroup + a helper goroutine per `Wait`) for the
negative control: there a helper outlives an expired `Wait`, and an `Add` from zero while a released helper has
not yet returned from `wg.Wait()` is the runtime panic "WaitGroup is reused before previous Wait has returned". -/

/-- a caller of `Wait` -/
inductive WaitPc
  | blocked (e : Nat) (g0 : Nat)  -- holds the `done` channel of epoch `e`; `g0` = `sched.run` at the call (ghost)
  | released                      -- its channel is closed: `Wait` is returning because the counter was zero
  | returned
  | expired                       -- returned because the caller's context expired
deriving DecidableEq, Repr

structure WSt where
  sched : St
  /-- number of `done` channels made so far = number of times the counter left zero -/
  epoch : Nat
  waiters : List WaitPc
  /-- only reachable in the `old` variant: the WaitGroup-reuse panic -/
  broken : Bool
deriving DecidableEq, Repr

def winit : WSt := { sched := init, epoch := 0, waiters := [], broken := false }

inductive WAct
  | sched (a : Act)          -- any action of the scheduler model, unchanged
  | waitCall                 -- a caller enters `Wait`: `sched.wg.zero()`
  | waitWake (k : Nat)       -- the channel caller `k` holds is closed: its `select` takes that case
  | waitReturn (k : Nat)
  | waitExpire (k : Nat)     -- the `select` takes `<-ctx.Done()`
deriving DecidableEq, Repr

/-- the `done` channel of epoch `e` is closed: a later epoch exists, or it is the current one and `n = 0` -/
def chanClosed (w : WSt) (e : Nat) : Bool :=
  decide (e < w.epoch) || (e == w.epoch && w.sched.wg == 0)

def wstep (cfg : Cfg) (old : Bool) (w : WSt) : WAct → Option WSt
  | .sched a =>
    match step cfg w.sched a with
    | some s' =>
      -- `Add` with `n == 0` before: `w.done = make(chan struct{})`
      let fresh := w.sched.wg == 0 && s'.wg != 0
      some { w with sched := s', epoch := if fresh then w.epoch + 1 else w.epoch,
                    broken := w.broken || (old && fresh && w.waiters.contains .released) }
    | none => none
  | .waitCall =>
    -- `zero()`: a closed channel iff `n == 0`, else the current `done`
    some { w with waiters := w.waiters ++
      [if w.sched.wg == 0 then .released else .blocked w.epoch w.sched.gens.length] }
  | .waitWake k =>
    match w.waiters[k]? with
    | some (.blocked e _) =>
      if chanClosed w e then some { w with waiters := w.waiters.set k .released } else none
    | _ => none
  | .waitReturn k =>
    match w.waiters[k]? with
    | some .released => some { w with waiters := w.waiters.set k .returned }
    | _ => none
  | .waitExpire k =>
    match w.waiters[k]? with
    | some (.blocked _ _) =>
      -- old variant: the caller returns but its helper goroutine stays blocked in `wg.Wait()`
      if old then some w else some { w with waiters := w.waiters.set k .expired }
    | _ => none

def wrun (cfg : Cfg) (old : Bool) (w : WSt) : List WAct → Option WSt
  | [] => some w
  | a :: as => (wstep cfg old w a).bind (fun w' => wrun cfg old w' as)

def WReach (cfg : Cfg) (old : Bool) (w : WSt) : Prop := ∃ as, wrun cfg old winit as = some w

/-- the scheduler actions of a layered trace -/
def schedActs : List WAct → List Act
  | [] => []
  | .sched a :: as => a :: schedActs as
  | _ :: as => schedActs as

end Lifecycle
