/-!
# `isolatedJob.Execute` (job/isolated_job.go) — interleaving model

```go
func (j *isolatedJob) Execute(ctx context.Context) error {
	if wasRunning := j.isRunning.Swap(true); wasRunning {   // `Step.swap`   (one atomic read-modify-write)
		return errors.New("job is running")                  // `Step.refuse`
	}
	defer j.isRunning.Store(false)                           // `Step.store`  (runs on EVERY exit of the delegate)
	return j.Job.Execute(ctx)                                // `Step.leave`  (returns nil / returns an error / panics)
}
```

Any number `n` of threads call `Execute` on the same `isolatedJob`, again and again, in any
interleaving. A thread is a program counter; the only shared variable is the flag `isRunning`.
One `Step` is one atomic action of one thread. The parameter `deferred` selects the real code
(`true`: the store is deferred, so it also runs when the delegate panics) or the negative control
(`false`: a plain `Store(false)` after the delegate returned — a panic unwinds past it).
Core Lean only.
-/
namespace Jobs.Isolated

/-- how the delegate `j.Job.Execute(ctx)` is left -/
inductive Exit where
  | ok      -- returned nil
  | err     -- returned an error
  | panic   -- panicked
  deriving DecidableEq, Repr

/-- what a call of `(*isolatedJob).Execute` hands to its caller -/
inductive CallResult where
  | delegated (e : Exit)   -- the delegate ran: its nil / its error / its panic (which propagates)
  | busy                   -- `errors.New("job is running")`; the delegate was not invoked
  deriving DecidableEq, Repr

/-- program counter of one thread -/
inductive PC where
  | idle                        -- not inside `Execute`
  | running                     -- `Swap(true)` returned false: admitted, inside `j.Job.Execute(ctx)`
  | exiting (e : Exit)          -- the delegate has been left; the `Store(false)` has not run yet
  | rejected                    -- `Swap(true)` returned true: about to return the error
  | finished (r : CallResult)   -- `Execute` is over (returned, or its panic is on its way to the caller)
  deriving DecidableEq, Repr

/-- the thread is inside the gate: it has claimed the flag and not yet released it -/
def PC.holds : PC → Bool
  | .running => true
  | .exiting _ => true
  | _ => false

structure State (n : Nat) where
  /-- `isRunning` -/
  flag : Bool
  pc : Fin n → PC

/-- `NewIsolatedJob`: the flag has its zero value, nobody is inside -/
def State.init (n : Nat) : State n := { flag := false, pc := fun _ => .idle }

def setPc {n : Nat} (pc : Fin n → PC) (t : Fin n) (v : PC) : Fin n → PC :=
  fun u => if u = t then v else pc u

/-- `Step deferred s t s'`: thread `t` performs its next atomic action -/
inductive Step {n : Nat} (deferred : Bool) : State n → Fin n → State n → Prop
  /-- `j.isRunning.Swap(true)`: reads the old value and writes `true` in one atomic action; the old
  value decides between the error return and the delegate -/
  | swap (s : State n) (t : Fin n) (h : s.pc t = .idle) :
      Step deferred s t { flag := true, pc := setPc s.pc t (if s.flag then .rejected else .running) }
  /-- `return errors.New("job is running")` -/
  | refuse (s : State n) (t : Fin n) (h : s.pc t = .rejected) :
      Step deferred s t { flag := s.flag, pc := setPc s.pc t (.finished .busy) }
  /-- the delegate is left with a pending `Store(false)`: always when the store is deferred, only on a
  normal return when it is a plain statement after the call -/
  | leave (s : State n) (t : Fin n) (e : Exit) (h : s.pc t = .running)
      (hd : deferred = true ∨ e ≠ .panic) :
      Step deferred s t { flag := s.flag, pc := setPc s.pc t (.exiting e) }
  /-- `j.isRunning.Store(false)`, after the delegate has been left and before `Execute` is over -/
  | store (s : State n) (t : Fin n) (e : Exit) (h : s.pc t = .exiting e) :
      Step deferred s t { flag := false, pc := setPc s.pc t (.finished (.delegated e)) }
  /-- negative control only: without `defer` a panic of the delegate skips the store -/
  | unwind (s : State n) (t : Fin n) (h : s.pc t = .running) (hd : deferred = false) :
      Step deferred s t { flag := s.flag, pc := setPc s.pc t (.finished (.delegated .panic)) }
  /-- the caller has its result (or has recovered the panic) and may call again -/
  | again (s : State n) (t : Fin n) (r : CallResult) (h : s.pc t = .finished r) :
      Step deferred s t { flag := s.flag, pc := setPc s.pc t .idle }

/-- every state of every interleaving -/
inductive Reachable {n : Nat} (deferred : Bool) : State n → Prop
  | init : Reachable deferred (State.init n)
  | step {s s' : State n} {t : Fin n} : Reachable deferred s → Step deferred s t s' → Reachable deferred s'

/-- The literal shapes of the Go source that the model transcribes (compared with the facts
regenerated from /repo in `Theorems/C17.lean`). -/
structure SourceShape where
  /-- the statements of `Execute`, in order: guard, deferred store, delegate -/
  stmts : List String :=
    ["if w:=isRunning.Swap(true);w return errors.New", "defer isRunning.Store(false)", "return Job.Execute(ctx)"]
  flagType : String := "atomic.Bool"
  /-- `NewIsolatedJob(underlying)` is the single statement `return &isolatedJob{Job: underlying}`: the wrapper holds the job it was
  handed (whatever that is — another wrapper included) and the flag starts false -/
  ctorKeys : List String := ["Job=underlying", "param=underlying"]
  /-- nothing else touches the flag -/
  flagUses : List String := ["Execute:Swap", "Execute:Store"]
  numMethods : Nat := 1
  deriving DecidableEq, Repr

end Jobs.Isolated
