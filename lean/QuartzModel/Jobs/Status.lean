/-!
# Built-in jobs: status decisions, "the last completed execution wins", callbacks, CurlJob bodies

Transcribes the parts of `/repo/job/function_job.go`, `shell_job.go`, `curl_job.go`, `job_status.go`
that carry property C16.  Core Lean only (compiled into `qmodel`).

* `functionStatus`, `shellStatus`, `curlStatus` — the three status decisions, stated outright.
* `fnStore`, `shStore`, `cuStore` — the critical section of each `Execute` (everything between
  `mtx.Lock()` and `mtx.Unlock()`): ONE atomic assignment of all stored fields.
* `Sys`, `Sys.step`, `Sys.run` — executions as threads with a program counter
  (`idle → ran → stored → done`); the store step is the only one that touches the shared fields.
-/
namespace Jobs

/-- `job.Status` (job/job_status.go): `StatusNA`, `StatusOK`, `StatusFailure` -/
inductive Status where
  | na | ok | failure
  deriving DecidableEq, Repr, Inhabited

def Status.ofString : String → Option Status
  | "StatusNA" => some .na
  | "StatusOK" => some .ok
  | "StatusFailure" => some .failure
  | _ => none

def Status.show : Status → String
  | .na => "na" | .ok => "ok" | .failure => "failure"

/-- Go comparison operators (the extractor reports them as source text) -/
inductive Cmp where
  | lt | le | gt | ge | eq | ne
  deriving DecidableEq, Repr, Inhabited

def Cmp.ofString : String → Option Cmp
  | "<" => some .lt | "<=" => some .le | ">" => some .gt | ">=" => some .ge
  | "==" => some .eq | "!=" => some .ne | _ => none

def Cmp.eval : Cmp → Int → Int → Bool
  | .lt, a, b => decide (a < b)
  | .le, a, b => decide (a ≤ b)
  | .gt, a, b => decide (a > b)
  | .ge, a, b => decide (a ≥ b)
  | .eq, a, b => decide (a = b)
  | .ne, a, b => decide (a ≠ b)

/-! ## status decisions -/

/-- shape `if err <op> nil { jobStatus = thenStatus } else { jobStatus = elseStatus }` -/
structure ErrTest where
  op : Cmp := .ne
  thenStatus : Status := .failure
  elseStatus : Status := .ok
  deriving DecidableEq, Repr

/-- `err` = "the error value is non-nil" -/
def ErrTest.decide (t : ErrTest) (err : Bool) : Status :=
  let c := match t.op with
    | .ne => err
    | .eq => !err
    | _ => false
  if c then t.thenStatus else t.elseStatus

/-- `FunctionJob.Execute`: `if err != nil { StatusFailure } else { StatusOK }` -/
def functionStatus (err : Bool) : Status := ({} : ErrTest).decide err

/-- `ShellJob.Execute`: `if err != nil { StatusFailure } else { StatusOK }`, `err` from `cmd.Run()` -/
def shellStatus (runErr : Bool) : Status := ({} : ErrTest).decide runErr

/-- shape `if cu.response <nilOp> nil && StatusCode <loOp> lo && StatusCode <hiOp> hi { then } else { else }` -/
structure CurlTest where
  nilOp : Cmp := .ne
  loOp : Cmp := .ge
  lo : Int := 200
  hiOp : Cmp := .lt
  hi : Int := 400
  thenStatus : Status := .ok
  elseStatus : Status := .failure
  deriving DecidableEq, Repr

def CurlTest.cond (t : CurlTest) : Option Nat → Bool
  | none => false
  | some c => t.nilOp == .ne && t.loOp.eval c t.lo && t.hiOp.eval c t.hi

def CurlTest.decide (t : CurlTest) (resp : Option Nat) : Status :=
  if t.cond resp then t.thenStatus else t.elseStatus

/-- `CurlJob.Execute`: OK iff a response exists and `200 ≤ StatusCode < 400`.
`resp` = the status code of the response returned by `httpClient.Do`, `none` = nil response. -/
def curlStatus (resp : Option Nat) : Status := ({} : CurlTest).decide resp

/-! ## FunctionJob -/

/-- what one run of the user function returned -/
structure FnOut (R : Type) where
  result : R
  err : Option String
  deriving Repr

/-- the fields `jobStatus`, `result`, `err` of a `FunctionJob` -/
structure FnFields (R : Type) where
  status : Status
  result : R
  err : Option String
  deriving Repr

def FnFields.init {R : Type} [Inhabited R] : FnFields R := { status := .na, result := default, err := none }

/-- the critical section of `FunctionJob.Execute` (all three fields written under one `mtx.Lock()`) -/
def fnStore {R : Type} [Inhabited R] (o : FnOut R) : FnFields R :=
  if o.err.isSome then { status := functionStatus true, result := default, err := o.err }
  else { status := functionStatus false, result := o.result, err := none }

/-- `return err` -/
def fnReturn {R : Type} (o : FnOut R) : Option String := o.err

/-! ## ShellJob -/

/-- what one `cmd.Run()` produced: the exit code reported by `cmd.ProcessState.ExitCode()`
(−1 when the process did not start or was killed by a signal), whether `Run` returned an error,
and the two captured buffers -/
structure ShOut where
  exitCode : Int
  runErr : Bool
  stdout : String
  stderr : String
  deriving Repr, DecidableEq

structure ShFields where
  status : Status := .na
  exitCode : Int := 0
  stdout : String := ""
  stderr : String := ""
  deriving Repr, DecidableEq

/-- the critical section of `ShellJob.Execute` -/
def shStore (o : ShOut) : ShFields :=
  { status := shellStatus o.runErr, exitCode := o.exitCode, stdout := o.stdout, stderr := o.stderr }

/-- `return err` -/
def shReturn (o : ShOut) : Bool := o.runErr

/-- contract of `os/exec` (trusted; the harness observes it for exit codes 0–255, a command that
cannot start and a killed command): `Run` returns an error iff the reported exit code is not 0 -/
def ShOut.ExecContract (o : ShOut) : Prop := o.runErr = true ↔ o.exitCode ≠ 0

/-! ## CurlJob -/

/-- an `*http.Response`: status code and the identity of its body (`none` = nil `Body`) -/
structure Resp where
  code : Nat
  body : Option Nat
  deriving Repr, DecidableEq

/-- what `httpClient.Do` returned -/
structure CuOut where
  resp : Option Resp
  err : Bool
  deriving Repr, DecidableEq

/-- fields `jobStatus`, `response` of a `CurlJob` plus ghost accounting of response bodies -/
structure CuState where
  status : Status := .na
  response : Option Resp := none
  /-- ghost: bodies handed out by `Do` and not closed since -/
  openBodies : List Nat := []
  /-- ghost: number of `Body.Close()` calls made by `Execute` -/
  closes : Nat := 0
  deriving Repr, DecidableEq

/-- the body the job holds through its stored response (`cu.response != nil && cu.response.Body != nil`) -/
def heldBody (r : Option Resp) : Option Nat := r.bind (·.body)

/-- The critical section of `CurlJob.Execute` (the whole request runs under `cu.mtx`):
close the body of the previously stored response (`closePrev`, the repaired leak), `Do`, store the
response, decide the status. -/
def cuStore (closePrev : Bool) (s : CuState) (o : CuOut) : CuState :=
  let (opn, cl) :=
    match closePrev, heldBody s.response with
    | true, some b => (s.openBodies.erase b, s.closes + 1)
    | _, _ => (s.openBodies, s.closes)
  { status := curlStatus (o.resp.map (·.code)),
    response := o.resp,
    openBodies := (heldBody o.resp).toList ++ opn,
    closes := cl }

/-- `return err` -/
def cuReturn (o : CuOut) : Bool := o.err

/-- a sequence of executions of one `CurlJob`, in the order in which they acquire `cu.mtx` -/
def cuRun (closePrev : Bool) (s : CuState) (os : List CuOut) : CuState := os.foldl (cuStore closePrev) s

/-- executions that obtained a response with a body -/
def gotBody (os : List CuOut) : Nat := (os.filter (fun o => (heldBody o.resp).isSome)).length

/-! ## executions as threads -/

inductive Pc where
  /-- `Execute` not yet called -/
  | idle
  /-- function / command / request finished, result in local variables (or: waiting for the mutex) -/
  | ran
  /-- fields stored, mutex released, callback not yet run -/
  | stored
  /-- callback run, `Execute` returned -/
  | done
  deriving DecidableEq, Repr, Inhabited

def upd {α : Type} (f : Nat → α) (i : Nat) (v : α) : Nat → α := fun j => if j = i then v else f j

/-- one job object shared by the executions `0, 1, 2, …` -/
structure Sys (S : Type) where
  shared : S
  pc : Nat → Pc
  /-- callbacks run on behalf of execution `i` -/
  cb : Nat → Nat
  /-- ghost: executions in the order of their store steps, most recent first -/
  order : List Nat

def Sys.init {S : Type} (s0 : S) : Sys S := { shared := s0, pc := fun _ => .idle, cb := fun _ => 0, order := [] }

/-- Execution `i` takes its next step. `store s i` is the critical section of execution `i`
applied to the stored fields `s`; `hasCallback` = the job was built with a callback. -/
def Sys.step {S : Type} (store : S → Nat → S) (hasCallback : Bool) (s : Sys S) (i : Nat) : Sys S :=
  match s.pc i with
  | .idle => { s with pc := upd s.pc i .ran }
  | .ran => { s with shared := store s.shared i, pc := upd s.pc i .stored, order := i :: s.order }
  | .stored => { s with pc := upd s.pc i .done,
                        cb := if hasCallback then upd s.cb i (s.cb i + 1) else s.cb }
  | .done => s

/-- a schedule = the sequence of executions that take a step -/
def Sys.run {S : Type} (store : S → Nat → S) (hasCallback : Bool) (s : Sys S) (sched : List Nat) : Sys S :=
  sched.foldl (Sys.step store hasCallback) s

/-- number of executions among `0 … m-1` that have returned -/
def Sys.completed {S : Type} (s : Sys S) (m : Nat) : Nat := ((List.range m).filter (fun i => s.pc i = .done)).length

/-- number of callbacks run on behalf of executions `0 … m-1` -/
def Sys.callbacks {S : Type} (s : Sys S) (m : Nat) : Nat := ((List.range m).map s.cb).sum

/-! ### the variant WITHOUT the mutex (negative control): two fields stored in two steps -/

/-- two of the stored fields (e.g. `result` and `jobStatus`), each tagged with the execution that wrote it -/
structure Torn where
  a : Option Nat := none
  b : Option Nat := none
  deriving DecidableEq, Repr

/-- thread `i` at step `k` of its two-step store -/
def tornStep (s : Torn × (Nat → Nat)) (i : Nat) : Torn × (Nat → Nat) :=
  match s.2 i with
  | 0 => ({ s.1 with a := some i }, upd s.2 i 1)
  | 1 => ({ s.1 with b := some i }, upd s.2 i 2)
  | _ => s

def tornRun (sched : List Nat) : Torn := (sched.foldl tornStep ({}, fun _ => 0)).1

end Jobs
