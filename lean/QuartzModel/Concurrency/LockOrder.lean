/-! Lock discipline of `StdScheduler` (quartz/scheduler.go) as an interleaving model (C10).

The scheduler has two locks:
* `A` = `sched.queueLocker` (a `sync.Locker`, mutex-like),
* `B` = `sched.mtx` (a `sync.RWMutex`).

Every method takes `A` and/or `B` with `Lock(); defer Unlock()`. The only nesting in the real code is:
while holding `A` (ScheduleJob, ResumeJob, ...) the code calls `IsStarted()`, which takes `B` in READ mode
and releases it before returning.

A thread is a straight-line program of lock operations (`todo`) plus what it holds. Acquisition is split
into two steps, as in Go's `sync.RWMutex`: the call of `Lock`/`RLock` first ANNOUNCES the request
(`pend := true`, always possible), then waits until the lock can be granted. An announced writer on `B`
already blocks new readers ("writer preference": `RLock` blocks when a writer is pending), which is what
makes the re-entrant `RLock; ...; RLock` deadlock as soon as a writer arrives in between.

Core Lean only; all definitions are executable and reduce in the kernel (`decide` works on traces). -/
namespace LockOrder

/-- mode of an acquisition of the RWMutex `B`: `r` = RLock, `w` = Lock -/
inductive Mode
  | r | w
deriving DecidableEq, Repr

/-- lock operations: `acqA` = `queueLocker.Lock()`, `relA` = `queueLocker.Unlock()`,
    `acqB r/w` = `mtx.RLock()/Lock()`, `relB r/w` = `mtx.RUnlock()/Unlock()` -/
inductive Op
  | acqA | relA | acqB (m : Mode) | relB (m : Mode)
deriving DecidableEq, Repr

structure Thread where
  /-- remaining program -/
  todo  : List Op
  /-- has announced the acquisition at the head of `todo` and is waiting for it -/
  pend  : Bool := false
  heldA : Bool := false
  /-- `B` acquisitions currently held by this thread (a list, so that re-entrant misuse is expressible) -/
  heldB : List Mode := []
deriving DecidableEq, Repr

abbrev State := List Thread

/-- the thread holds `B` in write mode -/
def holdsW (t : Thread) : Bool :=
  t.heldB.any (fun m => match m with | .w => true | .r => false)

/-- the thread has announced `B.Lock()` and is waiting for it -/
def pendW (t : Thread) : Bool :=
  match t.todo with
  | .acqB .w :: _ => t.pend
  | _ => false

/-- can thread `t` (a member of `s`) take its next step in `s`? -/
def enabledT (s : State) (t : Thread) : Bool :=
  match t.todo with
  | [] => false
  -- announcing is always possible; A is granted iff nobody holds it
  | .acqA :: _ => !t.pend || !s.any (·.heldA)
  -- RLock is granted iff no writer holds B and no writer is waiting for B
  | .acqB .r :: _ => !t.pend || (!s.any holdsW && !s.any pendW)
  -- Lock is granted iff nobody (this thread included) holds B in any mode
  | .acqB .w :: _ => !t.pend || s.all (fun u => u.heldB.isEmpty)
  | .relA :: _ => true
  | .relB _ :: _ => true

/-- effect of the next step of thread `t` on its own configuration (no step touches another thread) -/
def stepT (t : Thread) : Thread :=
  match t.todo with
  | [] => t
  | .acqA :: rest =>
    if t.pend then { t with todo := rest, pend := false, heldA := true }
    else { t with pend := true }
  | .acqB m :: rest =>
    if t.pend then
      { t with todo := rest, pend := false,
               heldB := match m with
                        | .r => .r :: t.heldB
                        | .w => [.w] }
    else { t with pend := true }
  | .relA :: rest => { t with todo := rest, heldA := false }
  | .relB m :: rest => { t with todo := rest, heldB := t.heldB.erase m }

/-- thread number `i` can take a step -/
def enabled (s : State) (i : Nat) : Bool :=
  match s[i]? with
  | some t => enabledT s t
  | none => false

/-- thread number `i` takes one step (only meaningful when `enabled s i`) -/
def stepAt (s : State) (i : Nat) : State :=
  match s[i]? with
  | some t => s.set i (stepT t)
  | none => s

def finished (s : State) : Bool := s.all (fun t => t.todo.isEmpty)

/-- some thread still has work, and no thread can move -/
def deadlocked (s : State) : Bool :=
  !finished s && (List.range s.length).all (fun i => !enabled s i)

/-- all threads at the start of their programs, holding nothing -/
def initState (ps : List (List Op)) : State := ps.map (fun p => { todo := p })

/-- reachability by enabled steps: any thread, any interleaving -/
inductive Reach (s0 : State) : State → Prop
  | init : Reach s0 s0
  | step {s : State} {i : Nat} : Reach s0 s → enabled s i = true → Reach s0 (stepAt s i)

/-- run a schedule (list of thread indices); a disabled choice is skipped -/
def run (s : State) (sched : List Nat) : State :=
  sched.foldl (fun s i => if enabled s i then stepAt s i else s) s

/-- run a schedule; `none` as soon as a chosen thread is not enabled (nothing is skipped) -/
def runStrict : State → List Nat → Option State
  | s, [] => some s
  | s, i :: rest => if enabled s i then runStrict (stepAt s i) rest else none

end LockOrder
