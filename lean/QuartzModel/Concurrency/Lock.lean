/-! ops whose bodies run entirely under one mutex are linearizable in lock-acquisition
    order (C09). Bodies are multi-step: a list of micro-steps over (shared, local) state. -/
namespace Lock

variable {S L R : Type}

structure Op (S L R : Type) where
  init : L
  steps : List (S → L → S × L)
  result : L → R

def runSteps (steps : List (S → L → S × L)) (s : S) (l : L) : S × L :=
  steps.foldl (fun (p : S × L) f => f p.1 p.2) (s, l)

/-- sequential semantics of one op -/
def Op.run (o : Op S L R) (s : S) : S × R :=
  let p := runSteps o.steps s o.init
  (p.1, o.result p.2)

inductive TSt (S L R : Type)
  | pending
  | running (rest : List (S → L → S × L)) (l : L)
  | done (r : R)

structure Sys (S L R : Type) where
  shared : S
  holder : Option Nat
  th : Nat → TSt S L R
  order : List Nat          -- ghost: acquisition order (most recent last)

def upd (f : Nat → TSt S L R) (i : Nat) (v : TSt S L R) : Nat → TSt S L R :=
  fun j => if j = i then v else f j

/-- thread i takes a step if it can; otherwise the system is unchanged -/
def step (ops : Nat → Op S L R) (σ : Sys S L R) (i : Nat) : Sys S L R :=
  match σ.th i with
  | .pending =>
    match σ.holder with
    | none => { σ with holder := some i, th := upd σ.th i (.running (ops i).steps (ops i).init),
                       order := σ.order ++ [i] }
    | some _ => σ
  | .running [] l =>
    if σ.holder = some i then { σ with holder := none, th := upd σ.th i (.done ((ops i).result l)) }
    else σ
  | .running (f :: rest) l =>
    if σ.holder = some i then
      let p := f σ.shared l
      { σ with shared := p.1, th := upd σ.th i (.running rest p.2) }
    else σ
  | .done _ => σ

def exec (ops : Nat → Op S L R) (σ : Sys S L R) (sched : List Nat) : Sys S L R :=
  sched.foldl (step ops) σ

def init (s0 : S) : Sys S L R := { shared := s0, holder := none, th := fun _ => .pending, order := [] }

/-- the shared state after running the listed ops sequentially -/
def seqState (ops : Nat → Op S L R) (s0 : S) (order : List Nat) : S :=
  order.foldl (fun s i => ((ops i).run s).1) s0

/-- the result op i gets when the ops before it in `order` ran first -/
def seqResult (ops : Nat → Op S L R) (s0 : S) (pre : List Nat) (i : Nat) : R :=
  ((ops i).run (seqState ops s0 pre)).2

/-- invariant relating the interleaved system to the sequential execution in acquisition order -/
structure Inv (ops : Nat → Op S L R) (s0 : S) (σ : Sys S L R) : Prop where
  free : σ.holder = none → σ.shared = seqState ops s0 σ.order ∧
      ∀ i, ∀ rest l, σ.th i ≠ .running rest l
  held : ∀ i, σ.holder = some i → ∃ pre rest l, σ.order = pre ++ [i] ∧ σ.th i = .running rest l ∧
      runSteps rest σ.shared l = runSteps (ops i).steps (seqState ops s0 pre) (ops i).init ∧
      ∀ j, j ≠ i → ∀ rest' l', σ.th j ≠ .running rest' l'
  dones : ∀ i r, σ.th i = .done r → ∃ pre post, σ.order = pre ++ i :: post ∧ r = seqResult ops s0 pre i

theorem seqState_append (ops : Nat → Op S L R) (s0 : S) (pre : List Nat) (i : Nat) :
    seqState ops s0 (pre ++ [i]) = ((ops i).run (seqState ops s0 pre)).1 := by
  simp [seqState, List.foldl_append]

theorem inv_init (ops : Nat → Op S L R) (s0 : S) : Inv ops s0 (init s0) := by
  refine ⟨?_, ?_, ?_⟩
  · intro _; exact ⟨rfl, fun i rest l h => by simp [init] at h⟩
  · intro i h; simp [init] at h
  · intro i r h; simp [init] at h


theorem upd_same (f : Nat → TSt S L R) (i : Nat) (v : TSt S L R) : upd f i v i = v := by simp [upd]
theorem upd_ne (f : Nat → TSt S L R) (i j : Nat) (v : TSt S L R) (h : j ≠ i) : upd f i v j = f j := by
  simp [upd, h]

theorem inv_step (ops : Nat → Op S L R) (s0 : S) (σ : Sys S L R) (i : Nat) (hi : Inv ops s0 σ) :
    Inv ops s0 (step ops σ i) := by
  obtain ⟨hfree, hheld, hdones⟩ := hi
  unfold step
  cases hth : σ.th i with
  | pending =>
    simp only
    cases hh : σ.holder with
    | some _ => simp only; exact ⟨hfree, hheld, hdones⟩
    | none =>
      simp only
      obtain ⟨hsh, hnr⟩ := hfree hh
      refine ⟨?_, ?_, ?_⟩
      · intro h; cases h
      · intro j hj
        have hj' : i = j := by simpa using hj
        subst hj'
        refine ⟨σ.order, (ops i).steps, (ops i).init, rfl, upd_same _ _ _, by rw [hsh], ?_⟩
        intro k hk rest' l'
        simp only [upd_ne _ _ _ _ hk]; exact hnr k rest' l'
      · intro k r hk
        by_cases hki : k = i
        · subst hki; simp only [upd_same] at hk; cases hk
        · simp only [upd_ne _ _ _ _ hki] at hk
          obtain ⟨pre, post, ho, hr⟩ := hdones k r hk
          exact ⟨pre, post ++ [i], by simp [ho], hr⟩
  | done r => simp only; exact ⟨hfree, hheld, hdones⟩
  | running rest l =>
    cases rest with
    | nil =>
      simp only
      by_cases hh : σ.holder = some i
      · simp only [hh, if_true]
        obtain ⟨pre, rest', l', ho, hthi, hrun, hothers⟩ := hheld i hh
        rw [hth] at hthi
        cases hthi
        have hrun' : (σ.shared, l) = runSteps (ops i).steps (seqState ops s0 pre) (ops i).init := by
          simpa [runSteps] using hrun
        refine ⟨?_, ?_, ?_⟩
        · intro _
          refine ⟨?_, ?_⟩
          · show σ.shared = seqState ops s0 σ.order
            rw [ho, seqState_append]
            simp only [Op.run]
            rw [← hrun']
          · intro k rest' l'
            by_cases hki : k = i
            · subst hki; simp only [upd_same]; intro h; cases h
            · simp only [upd_ne _ _ _ _ hki]; exact hothers k hki rest' l'
        · intro j hj; cases hj
        · intro k r hk
          by_cases hki : k = i
          · subst hki
            simp only [upd_same] at hk
            cases hk
            refine ⟨pre, [], ho, ?_⟩
            simp only [seqResult, Op.run]
            rw [← hrun']
          · simp only [upd_ne _ _ _ _ hki] at hk
            exact hdones k r hk
      · simp only [hh, if_false]; exact ⟨hfree, hheld, hdones⟩
    | cons f rest =>
      simp only
      by_cases hh : σ.holder = some i
      · simp only [hh, if_true]
        obtain ⟨pre, rest', l', ho, hthi, hrun, hothers⟩ := hheld i hh
        rw [hth] at hthi
        cases hthi
        refine ⟨?_, ?_, ?_⟩
        · intro h; cases h
        · intro j hj
          have hj' : i = j := Option.some.inj hj
          subst hj'
          refine ⟨pre, rest, (f σ.shared l).2, ho, upd_same _ _ _, ?_, ?_⟩
          · rw [← hrun]; simp [runSteps]
          · intro k hk rest'' l''
            simp only [upd_ne _ _ _ _ hk]; exact hothers k hk rest'' l''
        · intro k r hk
          by_cases hki : k = i
          · subst hki; simp only [upd_same] at hk; cases hk
          · simp only [upd_ne _ _ _ _ hki] at hk
            exact hdones k r hk
      · simp only [hh, if_false]; exact ⟨hfree, hheld, hdones⟩

theorem inv_exec (ops : Nat → Op S L R) (s0 : S) (sched : List Nat) (σ : Sys S L R)
    (hi : Inv ops s0 σ) : Inv ops s0 (exec ops σ sched) := by
  induction sched generalizing σ with
  | nil => exact hi
  | cons i rest ih => exact ih _ (inv_step ops s0 σ i hi)

/-- C09 core: under any schedule, every completed op returned what it returns in the sequential
    execution in lock-acquisition order, and when the lock is free the shared state is that
    execution's state. -/
theorem linearizable (ops : Nat → Op S L R) (s0 : S) (sched : List Nat) :
    let σ := exec ops (init s0) sched
    (σ.holder = none → σ.shared = seqState ops s0 σ.order) ∧
    (∀ i r, σ.th i = .done r → ∃ pre post, σ.order = pre ++ i :: post ∧ r = seqResult ops s0 pre i) := by
  intro σ
  have h := inv_exec ops s0 sched (init s0) (inv_init ops s0)
  exact ⟨fun hh => (h.free hh).1, h.dones⟩

end Lock
