/-!
# Loggers: level filter, message format, level label under concurrency

Transcribes `/repo/logger/simple_logger.go` (`enabled`, `formatMessage`, `output`, the five level
methods), `slog_logger.go` (the level handed to slog, `log`) and `logger.go` (`NoOpLogger`).
Core Lean only (compiled into `qmodel`).

Arguments are modelled as already rendered strings: `%s` and `%v` are the identity on them.
-/
namespace Logger

/-- the five logging methods `Trace … Error` -/
inductive Lvl where
  | trace | debug | info | warn | error
  deriving DecidableEq, Repr, Inhabited

def Lvl.all : List Lvl := [.trace, .debug, .info, .warn, .error]

def Lvl.ofString : String → Option Lvl
  | "trace" => some .trace | "debug" => some .debug | "info" => some .info
  | "warn" => some .warn | "error" => some .error | _ => none

/-! ## constants (`logger.Level`, the SimpleLogger prefixes) -/

def levelTrace : Int := -8
def levelDebug : Int := -4
def levelInfo : Int := 0
def levelWarn : Int := 4
def levelError : Int := 8
def levelOff : Int := 12

/-- the `Level` constant each method passes to `enabled` -/
def Lvl.value : Lvl → Int
  | .trace => levelTrace | .debug => levelDebug | .info => levelInfo
  | .warn => levelWarn | .error => levelError

/-- the prefix constant each method passes to `output` -/
def Lvl.label : Lvl → String
  | .trace => "TRACE " | .debug => "DEBUG " | .info => "INFO "
  | .warn => "WARN " | .error => "ERROR "

/-- `SimpleLogger.enabled`: `return level >= l.level` -/
def enabled (threshold level : Int) : Bool := decide (level ≥ threshold)

/-! ## `formatMessage` -/

/-- the loop `for i := 0; i < n; i += 2 { if i+1 < n { ", %s=%v" } else { ", %v" } }` -/
def formatArgs : List String → String
  | [] => ""
  | [a] => ", " ++ a
  | k :: v :: rest => ", " ++ k ++ "=" ++ v ++ formatArgs rest

/-- `formatMessage(msg, args)`: `"msg=%s"` followed by the arguments -/
def formatMessage (msg : String) (args : List String) : String := "msg=" ++ msg ++ formatArgs args

/-- `log.Logger.Output` with flags 0: prefix, message, and a newline unless the text already ends with one -/
def outputLine (pfx message : String) : String :=
  let b := pfx ++ message
  if b.toList.getLast? = some '\n' then b else b ++ "\n"

/-- one call `l.<Level>(msg, args…)` on a `SimpleLogger` with the given threshold: the bytes written, if any -/
def simpleLog (threshold : Int) (l : Lvl) (msg : String) (args : List String) : Option String :=
  if enabled threshold l.value then some (outputLine l.label (formatMessage msg args)) else none

/-- `NoOpLogger`: every method has an empty body -/
def noopLog (_l : Lvl) (_msg : String) (_args : List String) : Option String := none

/-! ## SlogLogger -/

/-- the `slog.Level` each method passes to `log` (`slog.Level(LevelTrace)`, `slog.LevelDebug`, …) -/
def slogLevel : Lvl → Int
  | .trace => -8 | .debug => -4 | .info => 0 | .warn => 4 | .error => 8

structure SlogRecord where
  level : Int
  msg : String
  attrs : List (String × String)
  deriving DecidableEq, Repr

/-- `slog.Record.Add` on string arguments (contract of log/slog): pairs, a lone tail gets the key `!BADKEY` -/
def slogAttrs : List String → List (String × String)
  | [] => []
  | [a] => [("!BADKEY", a)]
  | k :: v :: rest => (k, v) :: slogAttrs rest

/-- `SlogLogger.log`: `if !l.logger.Enabled(ctx, level) { return }`, else hand one record to the handler -/
def slogLog (handlerEnabled : Int → Bool) (l : Lvl) (msg : String) (args : List String) : Option SlogRecord :=
  if handlerEnabled (slogLevel l) then some { level := slogLevel l, msg := msg, attrs := slogAttrs args } else none

/-! ## m goroutines sharing one `SimpleLogger`

The shared `log.Logger` has ONE prefix variable. `output` is
`l.mtx.Lock(); defer l.mtx.Unlock(); l.logger.SetPrefix(prefix); l.logger.Output(3, message)`.
`useLock = false` is the code before the repair (no mutex): the negative control. -/

structure Rec where
  lvl : Lvl
  msg : String
  deriving DecidableEq, Repr

/-- a written line: the prefix it was written with and the record it belongs to -/
structure Emitted where
  /-- ghost: the goroutine that wrote it -/
  tid : Nat
  label : String
  lvl : Lvl
  msg : String
  deriving DecidableEq, Repr

inductive LPc where
  /-- before `enabled` / `mtx.Lock()` -/
  | start
  /-- mutex held, before `SetPrefix` -/
  | locked
  /-- prefix set, before `Output` -/
  | prefixed
  /-- line written, before the deferred `Unlock` -/
  | written
  deriving DecidableEq, Repr, Inhabited

structure Thread where
  pc : LPc := .start
  /-- records this goroutine still has to log, current one first -/
  todo : List Rec := []
  deriving Repr

structure LState where
  /-- the prefix variable of the shared `log.Logger` -/
  pfx : String := ""
  /-- holder of `SimpleLogger.mtx` -/
  lock : Option Nat := none
  th : Nat → Thread
  /-- lines written so far, most recent first -/
  out : List Emitted := []

def updT (f : Nat → Thread) (i : Nat) (t : Thread) : Nat → Thread := fun j => if j = i then t else f j

/-- goroutine `i` takes its next step (a blocked `Lock` leaves the state unchanged) -/
def lstep (useLock : Bool) (threshold : Int) (s : LState) (i : Nat) : LState :=
  match (s.th i).todo with
  | [] => s
  | r :: rest =>
    match (s.th i).pc with
    | .start =>
      if !enabled threshold r.lvl.value then { s with th := updT s.th i { pc := .start, todo := rest } }
      else if useLock then
        (match s.lock with
         | none => { s with lock := some i, th := updT s.th i { pc := .locked, todo := r :: rest } }
         | some _ => s)
      else { s with th := updT s.th i { pc := .locked, todo := r :: rest } }
    | .locked => { s with pfx := r.lvl.label, th := updT s.th i { pc := .prefixed, todo := r :: rest } }
    | .prefixed => { s with out := { tid := i, label := s.pfx, lvl := r.lvl, msg := r.msg } :: s.out,
                            th := updT s.th i { pc := .written, todo := r :: rest } }
    | .written => { s with lock := if useLock then none else s.lock,
                           th := updT s.th i { pc := .start, todo := rest } }

def lrun (useLock : Bool) (threshold : Int) (s : LState) (sched : List Nat) : LState :=
  sched.foldl (lstep useLock threshold) s

/-- all goroutines at the start, nobody holds the mutex; `work i` = what goroutine `i` will log -/
def linit (work : Nat → List Rec) : LState := { th := fun i => { pc := .start, todo := work i } }

end Logger
