import QuartzModel.Sched.Wakeup
/-! Inductive invariant of the wake-up protocol (helpers for `Theorems/C05.lean`). -/
namespace Wakeup

/-- the inductive invariant -/
def Inv (P : Params) (s : St) : Prop :=
  (s.dirty = true → s.token > 0 ∨ sendPending P s = true ∨ s.pc.beforeRead = true) ∧
  (s.pc = .atHead false → s.dirty = false → s.q = none) ∧
  (∀ d, s.pc = .armed d ∨ s.pc = .inSelect d → s.dirty = false → d.covers s.q = true)

theorem inv_init (P : Params) (q : Due) : Inv P (init q) := by
  simp [Inv, init, Pc.beforeRead]

theorem WF.mut {P : Params} (h : WF P) (m : Mut) (hm : m.canDecrease = true) :
    P.sends m = true ∧ P.sendAfter m = true := by
  obtain ⟨_, _, _, h1, _, _, h4, _⟩ := h
  cases m <;> simp [Mut.canDecrease] at hm
  · have : P.underLock .schedule = true ∧ P.sends .schedule = true ∧ P.sendAfter .schedule = true := by
      simpa [wfMut, Mut.canDecrease] using h1
    exact this.2
  · have : P.underLock .resume = true ∧ P.sends .resume = true ∧ P.sendAfter .resume = true := by
      simpa [wfMut, Mut.canDecrease] using h4
    exact this.2

theorem Due.lt_none (q : Due) : Due.lt q none = q.isSome := by
  cases q <;> rfl

theorem covers_mono (d : Deadline) (q q' : Due) (h : Due.lt q' q = false) (hc : d.covers q = true) :
    d.covers q' = true := by
  cases d <;> cases q <;> cases q' <;> simp_all [Deadline.covers, Due.lt] <;> omega

theorem allowed_noDecrease (m : Mut) (q q' : Due) (hm : m.canDecrease = false) (h : m.allowed q q' = true) :
    Due.lt q' q = false := by
  cases m <;> simp_all [Mut.canDecrease, Mut.allowed]

/-- under `WF` a send never blocks, leaves everything but the token alone and leaves a token behind -/
theorem send_wf {P : Params} (h : WF P) (s : St) :
    ∃ n, n > 0 ∧ send P s = some { s with token := n } := by
  obtain ⟨hcap, hnb, _⟩ := h
  unfold send
  split
  · exact ⟨s.token + 1, by omega, rfl⟩
  · rename_i hfull
    split
    · rename_i h0 _; omega
    · refine ⟨s.token, by omega, ?_⟩
      simp

/-- `Inv` does not look at `api` except through `sendPending`, nor at the exact token count -/
theorem inv_setQ {P : Params} (s : St) (q' : Due) (a : Api)
    (hi : Inv P s) (hsp : sendPending P s = false)
    (hnew : Due.lt q' s.q = true → sendPending P { setQ s q' with api := a } = true ∨ s.pc.beforeRead = true) :
    Inv P { setQ s q' with api := a } := by
  obtain ⟨i1, i2, i3⟩ := hi
  refine ⟨?_, ?_, ?_⟩
  · intro hd
    simp only [setQ, Bool.or_eq_true] at hd
    rcases hd with hd | hd
    · rcases i1 hd with h | h | h
      · exact Or.inl h
      · simp [hsp] at h
      · exact Or.inr (Or.inr h)
    · rcases hnew hd with h | h
      · exact Or.inr (Or.inl h)
      · exact Or.inr (Or.inr h)
  · intro hpc hd
    simp only [setQ, Bool.or_eq_false_iff] at hd hpc ⊢
    have := i2 hpc hd.1
    rw [this, Due.lt_none] at hd
    cases q' <;> simp_all
  · intro d hpc hd
    simp only [setQ, Bool.or_eq_false_iff] at hd hpc ⊢
    exact covers_mono d s.q q' hd.2 (i3 d hpc hd.1)

theorem inv_step (P : Params) (hP : WF P) (s s' : St) (a : Act) (hi : Inv P s)
    (hs : step P s a = some s') : Inv P s' := by
  have hrr : P.rereads = true := hP.2.2.1
  cases a <;> simp only [step] at hs
  case loopSize b =>
    split at hs <;> try (simp at hs; done)
    split at hs <;> simp at hs
    rename_i hb
    subst hs
    refine ⟨by simp, ?_, by simp⟩
    intro hpc _
    simp at hpc
    subst hpc
    simpa using hb
  case loopHead d =>
    obtain ⟨i1, i2, i3⟩ := hi
    split at hs <;> try (simp at hs; done)
    · rename_i hpc
      split at hs <;> simp at hs
      rename_i hd
      subst hs
      refine ⟨?_, by simp, ?_⟩
      · intro hdirty; rcases i1 hdirty with h | h | h
        · exact Or.inl h
        · exact Or.inr (Or.inl h)
        · simp [hpc, Pc.beforeRead] at h
      · intro d' hd' hdirty
        simp at hd'; subst hd'
        simp only at hdirty
        rw [i2 hpc hdirty, hd]; rfl
    · rename_i hpc
      split at hs
      · rename_i t hq
        split at hs <;> simp at hs
        rename_i hd
        subst hs
        refine ⟨?_, by simp, ?_⟩
        · intro hdirty; rcases i1 hdirty with h | h | h
          · exact Or.inl h
          · exact Or.inr (Or.inl h)
          · simp [hpc, Pc.beforeRead] at h
        · intro d' hd' _
          simp at hd'; subst hd'
          simp [hq, hd, Deadline.covers]
      · rename_i hq
        simp at hs
        subst hs
        refine ⟨?_, by simp, ?_⟩
        · intro hdirty; rcases i1 hdirty with h | h | h
          · exact Or.inl h
          · exact Or.inr (Or.inl h)
          · simp [hpc, Pc.beforeRead] at h
        · intro d' hd' _
          simp at hd'; subst hd'
          cases d <;> simp [hq, Deadline.covers]
  case loopSelect =>
    obtain ⟨i1, i2, i3⟩ := hi
    split at hs <;> simp at hs
    rename_i d hpc
    subst hs
    refine ⟨?_, by simp, ?_⟩
    · intro hdirty; rcases i1 hdirty with h | h | h
      · exact Or.inl h
      · exact Or.inr (Or.inl h)
      · simp [hpc, Pc.beforeRead] at h
    · intro d' hd' hdirty
      simp at hd'; subst hd'
      exact i3 d (Or.inl hpc) hdirty
  case loopWakeToken =>
    split at hs <;> try (simp at hs; done)
    split at hs <;> simp at hs
    subst hs
    simp [Inv, afterWake, hrr, Pc.beforeRead]
  case loopTick =>
    split at hs <;> simp at hs
    subst hs
    simp [Inv, Pc.beforeRead]
  case loopLock =>
    split at hs <;> try (simp at hs; done)
    split at hs <;> simp at hs
    subst hs
    simp [Inv, Pc.beforeRead]
  case loopStepDone q' =>
    split at hs <;> try (simp at hs; done)
    split at hs
    · obtain ⟨n, _, hn⟩ := send_wf hP { setQ s q' with pc := .atSize }
      rw [hn] at hs; simp at hs; subst hs
      simp [Inv, Pc.beforeRead]
    · simp at hs; subst hs
      simp [Inv, Pc.beforeRead]
  case apiLock m =>
    obtain ⟨i1, i2, i3⟩ := hi
    split at hs <;> try (simp at hs; done)
    rename_i hapi
    split at hs <;> simp at hs
    subst hs
    refine ⟨?_, i2, i3⟩
    intro hdirty; rcases i1 hdirty with h | h | h
    · exact Or.inl h
    · simp [sendPending, hapi] at h
    · exact Or.inr (Or.inr h)
  case apiMutate q' =>
    split at hs <;> try (simp at hs; done)
    · rename_i m hapi
      split at hs <;> simp at hs
      rename_i hg
      simp at hg
      subst hs
      apply inv_setQ s q' (.mutated m) hi (by simp [sendPending, hapi])
      intro hlt
      left
      cases hm : m.canDecrease
      · have := allowed_noDecrease m s.q q' hm hg.2
        simp [this] at hlt
      · have := hP.mut m hm
        simp [sendPending, this]
    · rename_i m hapi
      split at hs <;> simp at hs
      rename_i hg
      simp at hg
      subst hs
      apply inv_setQ s q' (.mutated m) hi (by simp [sendPending, hapi])
      intro hlt
      cases hm : m.canDecrease
      · have := allowed_noDecrease m s.q q' hm hg.2
        simp [this] at hlt
      · have := hP.mut m hm
        simp [this] at hg
  case apiSend =>
    obtain ⟨i1, i2, i3⟩ := hi
    split at hs <;> try (simp at hs; done)
    · rename_i m hapi
      split at hs <;> try (simp at hs; done)
      split at hs
      · obtain ⟨n, hn0, hn⟩ := send_wf hP s
        rw [hn] at hs; simp at hs; subst hs
        exact ⟨fun _ => Or.inl hn0, i2, i3⟩
      · rename_i hns
        simp at hs; subst hs
        refine ⟨?_, i2, i3⟩
        intro hdirty; rcases i1 hdirty with h | h | h
        · exact Or.inl h
        · simp [sendPending, hapi, hns] at h
        · exact Or.inr (Or.inr h)
    · rename_i m hapi
      split at hs <;> try (simp at hs; done)
      split at hs
      · obtain ⟨n, hn0, hn⟩ := send_wf hP s
        rw [hn] at hs; simp at hs; subst hs
        exact ⟨fun _ => Or.inl hn0, i2, i3⟩
      · simp at hs; subst hs
        refine ⟨?_, i2, i3⟩
        intro hdirty; rcases i1 hdirty with h | h | h
        · exact Or.inl h
        · simp [sendPending, hapi] at h
        · exact Or.inr (Or.inr h)
  case apiUnlock =>
    obtain ⟨i1, i2, i3⟩ := hi
    split at hs <;> try (simp at hs; done)
    · rename_i m hapi
      split at hs <;> simp at hs
      subst hs
      refine ⟨?_, i2, i3⟩
      intro hdirty; rcases i1 hdirty with h | h | h
      · exact Or.inl h
      · simp [sendPending, hapi] at h
      · exact Or.inr (Or.inr h)
    · rename_i m hapi
      split at hs <;> simp at hs
      rename_i hsa
      subst hs
      refine ⟨?_, i2, i3⟩
      intro hdirty; rcases i1 hdirty with h | h | h
      · exact Or.inl h
      · simp [sendPending, hapi] at h
        simp [h.2] at hsa
      · exact Or.inr (Or.inr h)
    · rename_i m hapi
      simp at hs
      subst hs
      refine ⟨?_, i2, i3⟩
      intro hdirty; rcases i1 hdirty with h | h | h
      · exact Or.inl h
      · simp [sendPending, hapi] at h
      · exact Or.inr (Or.inr h)

theorem inv_run (P : Params) (hP : WF P) (s : St) (as : List Act) (hi : Inv P s) :
    ∀ s', run P s as = some s' → Inv P s' := by
  induction as generalizing s with
  | nil => intro s' h; simp [run] at h; subst h; exact hi
  | cons a as ih =>
    intro s' h
    simp only [run] at h
    cases hst : step P s a with
    | none => simp [hst] at h
    | some s1 =>
      simp [hst] at h
      exact ih s1 (inv_step P hP s s1 a hi hst) s' h

theorem run_append (P : Params) (s : St) (as bs : List Act) :
    run P s (as ++ bs) = (run P s as).bind (fun s' => run P s' bs) := by
  induction as generalizing s with
  | nil => simp [run]
  | cons a as ih =>
    simp only [List.cons_append, run]
    cases step P s a with
    | none => simp
    | some s1 => simp [ih]

end Wakeup
