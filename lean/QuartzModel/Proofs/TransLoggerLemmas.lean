import QuartzModel.Generated.TransLogger
import QuartzModel.Logger.Simple
import QuartzModel.Proofs.LoggerLemmas
/-!
# Helper lemmas: the translated loggers (`Generated.TransLogger`) against the hand-written model `Logger` (Logger/Simple.lean)
-/
set_option autoImplicit false
set_option linter.unusedSimpArgs false

namespace TransLogger
open Generated.TransLogger

variable {W A : Type}

/-! ## `formatMessage` -/

/-- how fmt renders the argument list inside `formatMessage`: `%s` for a key (an argument at an even position that has a successor),
`%v` for a value and for the odd last argument.  The hand model works on these rendered strings. -/
def renderArgs (F : Fmt A) : List A → List String
  | [] => []
  | [a] => [F.fmtV a]
  | k :: v :: rest => F.fmtS k :: F.fmtV v :: renderArgs F rest

theorem renderArgs_length (F : Fmt A) : ∀ args : List A, (renderArgs F args).length = args.length
  | [] => rfl
  | [_] => rfl
  | _ :: _ :: rest => by simp [renderArgs, renderArgs_length F rest]

/-- when `%s` and `%v` agree (strings, and everything whose `String()`/`Error()` method fmt uses for both) this is a plain map -/
theorem renderArgs_map (F : Fmt A) (h : F.fmtS = F.fmtV) : ∀ args : List A, renderArgs F args = args.map F.fmtV
  | [] => rfl
  | [_] => rfl
  | _ :: _ :: rest => by simp [renderArgs, renderArgs_map F h rest, h]

theorem idx_of_drop [Inhabited A] (args : List A) (i : Nat) (a : A) (tl : List A) (h : args.drop i = a :: tl) :
    idx args (i : Int) = a := by
  have h1 : (args.drop i).head? = some a := by rw [h]; rfl
  rw [List.head?_drop] at h1
  unfold idx
  simp [List.getD, h1]

theorem lt_of_drop (args : List A) (i : Nat) (a : A) (tl : List A) (h : args.drop i = a :: tl) :
    i + tl.length + 1 = args.length := by
  have := congrArg List.length h
  simp only [List.length_drop, List.length_cons] at this
  omega

/-- the loop of `formatMessage` started at position `i` with `rest` still to go appends `formatArgs` of the rendered rest -/
theorem loop1_spec [Inhabited A] (F : Fmt A) (args : List A) : ∀ (rest : List A) (i fuel : Nat) (b : String),
    args.drop i = rest → rest.length ≤ fuel →
    formatMessage.loop1 F (args.length : Int) args fuel (i : Int) b = b ++ Logger.formatArgs (renderArgs F rest)
  | [], i, fuel, b, hd, _ => by
    have hi : args.length ≤ i := by
      have := congrArg List.length hd
      simp only [List.length_drop, List.length_nil] at this
      omega
    cases fuel with
    | zero => simp [formatMessage.loop1, renderArgs, Logger.formatArgs]
    | succ f =>
      have : ¬ ((i : Int) < (args.length : Int)) := by omega
      simp [formatMessage.loop1, this, renderArgs, Logger.formatArgs]
  | [a], i, fuel, b, hd, hf => by
    have hlen := lt_of_drop args i a [] hd
    simp only [List.length_nil, Nat.add_zero] at hlen
    cases fuel with
    | zero => simp at hf
    | succ f =>
      have h1 : ((i : Int) < (args.length : Int)) := by omega
      have h2 : ¬ ((i : Int) + 1 < (args.length : Int)) := by omega
      have hnext : args.drop (i + 2) = [] := by
        rw [List.drop_eq_nil_iff]; omega
      have ih := loop1_spec F args [] (i + 2) f (b ++ ", " ++ F.fmtV a) hnext (Nat.zero_le _)
      have hcast : ((i : Int) + 2) = ((i + 2 : Nat) : Int) := by omega
      simp only [formatMessage.loop1, h1, h2, decide_true, decide_false, if_true, if_false, Bool.false_eq_true,
        idx_of_drop args i a [] hd, hcast]
      rw [ih]
      simp [renderArgs, Logger.formatArgs, String.append_assoc]
  | k :: v :: rest, i, fuel, b, hd, hf => by
    have hlen := lt_of_drop args i k (v :: rest) hd
    simp only [List.length_cons] at hlen hf
    cases fuel with
    | zero => omega
    | succ f =>
      have h1 : ((i : Int) < (args.length : Int)) := by omega
      have h2 : ((i : Int) + 1 < (args.length : Int)) := by omega
      have hd1 : args.drop (i + 1) = v :: rest := by
        have := congrArg (List.drop 1) hd
        simpa [List.drop_drop, Nat.add_comm] using this
      have hd2 : args.drop (i + 2) = rest := by
        have := congrArg (List.drop 2) hd
        simpa [List.drop_drop, Nat.add_comm] using this
      have ih := loop1_spec F args rest (i + 2) f (b ++ ", " ++ F.fmtS k ++ "=" ++ F.fmtV v) hd2 (by omega)
      have hcast : ((i : Int) + 2) = ((i + 2 : Nat) : Int) := by omega
      have hcast1 : ((i : Int) + 1) = ((i + 1 : Nat) : Int) := by omega
      have hv : idx args ((i : Int) + 1) = v := by rw [hcast1]; exact idx_of_drop args (i + 1) v rest hd1
      simp only [formatMessage.loop1, h1, h2, decide_true, if_true, idx_of_drop args i k (v :: rest) hd, hv, hcast]
      rw [ih]
      simp [renderArgs, Logger.formatArgs, String.append_assoc]

theorem formatMessage_eq [Inhabited A] (F : Fmt A) (msg : String) (args : List A) :
    formatMessage F msg args = Logger.formatMessage msg (renderArgs F args) := by
  have h := loop1_spec F args args 0 (args.length) ("" ++ "msg=" ++ msg) (by simp) (Nat.le_refl _)
  unfold formatMessage Logger.formatMessage
  simp only [Int.sub_zero, Int.toNat_natCast]
  have h0 : ((0 : Nat) : Int) = 0 := rfl
  rw [h0] at h
  rw [h]
  simp [String.append_assoc]

/-! ## one call of a level method -/

/-- the translated method of each level -/
def simpleCall [Inhabited A] (lv : Logger.Lvl) (F : Fmt A) (X : Ext W A) (σ : St W A) (l : SimpleLogger) (msg : String) (args : List A) :
    St W A × CallResult Unit :=
  match lv with
  | .trace => SimpleLogger.Trace F X σ l msg args
  | .debug => SimpleLogger.Debug F X σ l msg args
  | .info => SimpleLogger.Info F X σ l msg args
  | .warn => SimpleLogger.Warn F X σ l msg args
  | .error => SimpleLogger.Error F X σ l msg args

/-- the four events of an enabled call, in program order -/
def callEvents (lg : Option Ref) (label m : String) (res : CallResult (Option Err)) : List (Event A) :=
  [.lock "l.mtx", .setPrefix lg label, .output lg 3 m res, .unlock "l.mtx"]

/-- what the caller of a level method sees of `Output`'s outcome: its error is dropped, its panic propagates -/
def resultOf : CallResult (Option Err) → CallResult Unit
  | .panicked => .panicked
  | .returned _ => .returned ()

theorem output_spec [Inhabited A] (X : Ext W A) (σ : St W A) (l : SimpleLogger) (p m : String) :
    SimpleLogger.output X σ l p m =
      ({ world := (X.output σ.world l.logger 3 m).1,
         out := σ.out ++ callEvents l.logger p m (X.output σ.world l.logger 3 m).2 },
       resultOf (X.output σ.world l.logger 3 m).2) := by
  unfold SimpleLogger.output SimpleLogger.output.body
  simp only [St.emit, St.output, callEvents, resultOf]
  cases (X.output σ.world l.logger 3 m).2 <;> simp

theorem simpleCall_spec [Inhabited A] (lv : Logger.Lvl) (F : Fmt A) (X : Ext W A) (σ : St W A) (l : SimpleLogger) (msg : String)
    (args : List A) :
    simpleCall lv F X σ l msg args =
      if Logger.enabled l.level lv.value = true then
        ({ world := (X.output σ.world l.logger 3 (Logger.formatMessage msg (renderArgs F args))).1,
           out := σ.out ++ callEvents l.logger lv.label (Logger.formatMessage msg (renderArgs F args))
             (X.output σ.world l.logger 3 (Logger.formatMessage msg (renderArgs F args))).2 },
         resultOf (X.output σ.world l.logger 3 (Logger.formatMessage msg (renderArgs F args))).2)
      else (σ, .returned ()) := by
  cases lv <;>
  · simp only [simpleCall, SimpleLogger.Trace, SimpleLogger.Debug, SimpleLogger.Info, SimpleLogger.Warn, SimpleLogger.Error,
      SimpleLogger.enabled, Logger.enabled, Logger.Lvl.value, Logger.Lvl.label, LevelTrace, LevelDebug, LevelInfo, LevelWarn,
      LevelError, Logger.levelTrace, Logger.levelDebug, Logger.levelInfo, Logger.levelWarn, Logger.levelError,
      tracePrefix, debugPrefix, infoPrefix, warnPrefix, errorPrefix, output_spec, formatMessage_eq]
    split
    · rename_i h
      simp only [resultOf]
      cases (X.output σ.world l.logger 3 (Logger.formatMessage msg (renderArgs F args))).2 <;> simp_all
    · rename_i h
      simp_all
      intro h2; omega

/-! ## m goroutines sharing one translated `SimpleLogger`: interleavings of the recorded events -/

/-- one call `l.<Level>(msg, args…)` -/
structure Call (A : Type) where
  lvl : Logger.Lvl
  msg : String
  args : List A

/-- the record of the hand model a call corresponds to (the model drops the arguments) -/
def Call.toRec (c : Call A) : Logger.Rec := ⟨c.lvl, c.msg⟩

/-- the atomic steps of one call of the TRANSLATED method: the events it records, in order; a call that records nothing
(filtered out) takes one silent step — it returns -/
def callProg [Inhabited A] (F : Fmt A) (X : Ext W A) (w : W) (l : SimpleLogger) (c : Call A) : List (Option (Event A)) :=
  match (simpleCall c.lvl F X ({ world := w } : St W A) l c.msg c.args).1.out with
  | [] => [none]
  | es => es.map some

theorem callProg_eq [Inhabited A] (F : Fmt A) (X : Ext W A) (w : W) (l : SimpleLogger) (c : Call A) :
    callProg F X w l c =
      if Logger.enabled l.level c.lvl.value = true then
        (callEvents l.logger c.lvl.label (Logger.formatMessage c.msg (renderArgs F c.args))
          (X.output w l.logger 3 (Logger.formatMessage c.msg (renderArgs F c.args))).2).map some
      else [none] := by
  unfold callProg
  rw [simpleCall_spec]
  by_cases h : Logger.enabled l.level c.lvl.value = true
  · simp [h, callEvents]
  · simp [h]

structure EThread (A : Type) where
  /-- steps already taken inside the current call -/
  k : Nat := 0
  /-- calls still to make, current one first -/
  todo : List (Call A) := []

/-- the shared objects as the events see them: the prefix variable of the `log.Logger`, the holder of the mutex, the lines written -/
structure EState (A : Type) where
  pfx : String := ""
  lock : Option Nat := none
  th : Nat → EThread A
  out : List Logger.Emitted := []

/-- goroutine `i` performs its next event: `lock` acquires the mutex or blocks, `unlock` releases it, `setPrefix p` sets the shared prefix
variable, `output` writes a line with the prefix variable's CURRENT content (ghost: tagged with the call it belongs to) -/
def estep (P : Call A → List (Option (Event A))) (s : EState A) (i : Nat) : EState A :=
  match (s.th i).todo with
  | [] => s
  | c :: rest =>
    let next : EThread A := if (s.th i).k + 1 ≥ (P c).length then ⟨0, rest⟩ else ⟨(s.th i).k + 1, c :: rest⟩
    let upd : Nat → EThread A := fun j => if j = i then next else s.th j
    match (P c).getD (s.th i).k none with
    | some (.lock _) => (match s.lock with
        | none => { s with lock := some i, th := upd }
        | some _ => s)
    | some (.unlock _) => { s with lock := none, th := upd }
    | some (.setPrefix _ p) => { s with pfx := p, th := upd }
    | some (.output _ _ _ _) => { s with out := ⟨i, s.pfx, c.lvl, c.msg⟩ :: s.out, th := upd }
    | _ => { s with th := upd }

def erun (P : Call A → List (Option (Event A))) (s : EState A) (sched : List Nat) : EState A := sched.foldl (estep P) s

def einit (cwork : Nat → List (Call A)) : EState A := { th := fun i => { k := 0, todo := cwork i } }

def pcOf : Nat → Logger.LPc
  | 0 => .start | 1 => .locked | 2 => .prefixed | _ => .written

def absT (t : EThread A) : Logger.Thread := { pc := pcOf t.k, todo := t.todo.map Call.toRec }

/-- the state of the hand model that an event-level state stands for -/
def absS (s : EState A) : Logger.LState := { pfx := s.pfx, lock := s.lock, th := fun i => absT (s.th i), out := s.out }

/-- inside a call (past its first step) the call is an enabled one and has at most four steps -/
def EInv (thr : Int) (s : EState A) : Prop :=
  ∀ i, (s.th i).k = 0 ∨ ∃ c rest, (s.th i).todo = c :: rest ∧ Logger.enabled thr c.lvl.value = true ∧ (s.th i).k ≤ 3

theorem abs_upd (th : Nat → EThread A) (i : Nat) (t : EThread A) :
    (fun j => absT (if j = i then t else th j)) = Logger.updT (fun j => absT (th j)) i (absT t) := by
  funext j
  unfold Logger.updT
  split <;> rfl

/-- the shape of the per-call programs (what `callProg_eq` says about the translated code) -/
def IsProg (thr : Int) (P : Call A → List (Option (Event A))) : Prop :=
  ∃ (lg : Option Ref) (d : Int) (m : Call A → String) (r : Call A → CallResult (Option Err)),
    ∀ c, P c = if Logger.enabled thr c.lvl.value = true then
        [some (.lock "l.mtx"), some (.setPrefix lg c.lvl.label), some (.output lg d (m c) (r c)), some (.unlock "l.mtx")]
      else [none]

theorem callProg_isProg [Inhabited A] (F : Fmt A) (X : Ext W A) (w : W) (l : SimpleLogger) :
    IsProg l.level (callProg F X w l) :=
  ⟨l.logger, 3, fun c => Logger.formatMessage c.msg (renderArgs F c.args),
    fun c => (X.output w l.logger 3 (Logger.formatMessage c.msg (renderArgs F c.args))).2, fun c => by
      rw [callProg_eq]; split <;> simp [callEvents]⟩

theorem einv_upd (thr : Int) (s : EState A) (i : Nat) (t : EThread A) (h : EInv thr s)
    (ht : t.k = 0 ∨ ∃ c rest, t.todo = c :: rest ∧ Logger.enabled thr c.lvl.value = true ∧ t.k ≤ 3)
    (s' : EState A) (hs : s'.th = fun j => if j = i then t else s.th j) : EInv thr s' := by
  intro j
  rw [hs]
  by_cases hj : j = i
  · simp only [hj, if_true]; exact ht
  · simp only [hj, if_false]; exact h j

theorem estep_sim (thr : Int) (P : Call A → List (Option (Event A))) (hP : IsProg thr P) (s : EState A) (i : Nat)
    (h : EInv thr s) :
    absS (estep P s i) = Logger.lstep true thr (absS s) i ∧ EInv thr (estep P s i) := by
  obtain ⟨lg, d, m, r, hP⟩ := hP
  cases htodo : (s.th i).todo with
  | nil =>
    have : estep P s i = s := by simp [estep, htodo]
    rw [this]
    exact ⟨by simp [Logger.lstep, absS, absT, htodo], h⟩
  | cons c rest =>
    by_cases he : Logger.enabled thr c.lvl.value = true
    · have hk : (s.th i).k ≤ 3 := by
        rcases h i with h0 | ⟨_, _, _, _, h3⟩
        · omega
        · exact h3
      have hPc := hP c
      simp only [he, if_true] at hPc
      have h4 : (s.th i).k = 0 ∨ (s.th i).k = 1 ∨ (s.th i).k = 2 ∨ (s.th i).k = 3 := by omega
      rcases h4 with hk | hk | hk | hk
      · cases hl : s.lock with
        | none =>
          refine ⟨?_, ?_⟩
          · simp [estep, htodo, hPc, hk, hl, absS, abs_upd]
            simp [Logger.lstep, absT, pcOf, htodo, hk, he, hl, Call.toRec]
          · refine einv_upd thr s i ⟨1, c :: rest⟩ h (.inr ⟨c, rest, rfl, he, by simp⟩) _ ?_
            simp [estep, htodo, hPc, hk, hl]
        | some o =>
          refine ⟨?_, ?_⟩
          · simp [estep, htodo, hPc, hk, hl, absS]
            simp [Logger.lstep, absT, pcOf, htodo, hk, he, hl, Call.toRec]
          · have : estep P s i = s := by simp [estep, htodo, hPc, hk, hl]
            rw [this]; exact h
      · refine ⟨?_, ?_⟩
        · simp [estep, htodo, hPc, hk, absS, abs_upd]
          simp [Logger.lstep, absT, pcOf, htodo, hk, he, Call.toRec]
        · refine einv_upd thr s i ⟨2, c :: rest⟩ h (.inr ⟨c, rest, rfl, he, by simp⟩) _ ?_
          simp [estep, htodo, hPc, hk]
      · refine ⟨?_, ?_⟩
        · simp [estep, htodo, hPc, hk, absS, abs_upd]
          simp [Logger.lstep, absT, pcOf, htodo, hk, he, Call.toRec]
        · refine einv_upd thr s i ⟨3, c :: rest⟩ h (.inr ⟨c, rest, rfl, he, by simp⟩) _ ?_
          simp [estep, htodo, hPc, hk]
      · refine ⟨?_, ?_⟩
        · simp [estep, htodo, hPc, hk, absS, abs_upd]
          simp [Logger.lstep, absT, pcOf, htodo, hk, he, Call.toRec]
        · refine einv_upd thr s i ⟨0, rest⟩ h (.inl rfl) _ ?_
          simp [estep, htodo, hPc, hk]
    · have hk : (s.th i).k = 0 := by
        rcases h i with h0 | ⟨c', rest', ht, he', _⟩
        · exact h0
        · rw [htodo] at ht; cases ht; exact absurd he' he
      have he' : Logger.enabled thr c.lvl.value = false := by simpa using he
      have hPc := hP c
      simp [he'] at hPc
      refine ⟨?_, ?_⟩
      · simp [estep, htodo, hPc, hk, absS, abs_upd]
        simp [Logger.lstep, absT, pcOf, htodo, hk, he', Call.toRec]
      · refine einv_upd thr s i ⟨0, rest⟩ h (.inl rfl) _ ?_
        simp [estep, htodo, hPc, hk]

theorem erun_sim (thr : Int) (P : Call A → List (Option (Event A))) (hP : IsProg thr P) : ∀ (sched : List Nat) (s : EState A),
    EInv thr s → absS (erun P s sched) = Logger.lrun true thr (absS s) sched ∧ EInv thr (erun P s sched)
  | [], s, h => ⟨rfl, h⟩
  | i :: rest, s, h => by
    have h1 := estep_sim thr P hP s i h
    have h2 := erun_sim thr P hP rest (estep P s i) h1.2
    simp only [erun, Logger.lrun, List.foldl_cons] at h2 ⊢
    rw [← h1.1]
    exact h2

theorem einv_init (thr : Int) (cwork : Nat → List (Call A)) : EInv thr (einit cwork) := fun _ => .inl rfl

theorem absS_einit (cwork : Nat → List (Call A)) :
    absS (einit cwork) = Logger.linit (fun i => (cwork i).map Call.toRec) := rfl

end TransLogger
