import QuartzModel.Jobs.Isolated
/-! helper lemmas for `Theorems/C17.lean`: the inductive invariant of the isolated-job gate -/
namespace Jobs.Isolated

variable {n : Nat}

@[simp] theorem setPc_same (pc : Fin n → PC) (t : Fin n) (v : PC) : setPc pc t v t = v := by
  simp [setPc]

theorem setPc_other (pc : Fin n → PC) (t u : Fin n) (v : PC) (h : u ≠ t) : setPc pc t v u = pc u := by
  simp [setPc, h]

/-- at most one thread is inside the gate, and the flag is set exactly when one is -/
def Inv (s : State n) : Prop :=
  (∀ t u, (s.pc t).holds = true → (s.pc u).holds = true → t = u) ∧
  (s.flag = true ↔ ∃ t, (s.pc t).holds = true)

theorem inv_init : Inv (State.init n) := by
  constructor
  · intro t u h; simp [State.init, PC.holds] at h
  · simp [State.init, PC.holds]

/-- a step that changes neither the flag nor who is inside keeps the invariant -/
theorem inv_of_holds_eq {s s' : State n} (h : Inv s) (hf : s'.flag = s.flag)
    (hp : ∀ u, (s'.pc u).holds = (s.pc u).holds) : Inv s' := by
  constructor
  · intro t u ht hu; rw [hp] at ht hu; exact h.1 t u ht hu
  · rw [hf, h.2]; simp only [hp]

theorem holds_setPc (pc : Fin n → PC) (t : Fin n) (v : PC) (h : v.holds = (pc t).holds) (u : Fin n) :
    (setPc pc t v u).holds = (pc u).holds := by
  by_cases hu : u = t
  · subst hu; simp [h]
  · rw [setPc_other pc t u v hu]

theorem inv_step {s s' : State n} {t : Fin n} (h : Inv s) (st : Step true s t s') : Inv s' := by
  cases st with
  | swap hpc =>
    cases hfl : s.flag with
    | true =>
      simp only [if_true]
      constructor
      · intro a b ha hb
        have hat : a ≠ t := by rintro rfl; simp [PC.holds] at ha
        have hbt : b ≠ t := by rintro rfl; simp [PC.holds] at hb
        simp only [setPc_other _ _ _ _ hat] at ha
        simp only [setPc_other _ _ _ _ hbt] at hb
        exact h.1 a b ha hb
      · obtain ⟨u, hu⟩ := h.2.mp hfl
        have hut : u ≠ t := by rintro rfl; rw [hpc] at hu; simp [PC.holds] at hu
        exact ⟨fun _ => ⟨u, by simp only [setPc_other _ _ _ _ hut]; exact hu⟩, fun _ => rfl⟩
    | false =>
      simp only [Bool.false_eq_true, if_false]
      have hnone : ∀ u, (s.pc u).holds = false := by
        intro u
        cases hh : (s.pc u).holds with
        | false => rfl
        | true => have := h.2.mpr ⟨u, hh⟩; rw [hfl] at this; cases this
      have honly : ∀ a, (setPc s.pc t PC.running a).holds = true → a = t := by
        intro a ha
        by_cases hat : a = t
        · exact hat
        · rw [setPc_other _ _ _ _ hat, hnone a] at ha; cases ha
      constructor
      · intro a b ha hb; rw [honly a ha, honly b hb]
      · exact ⟨fun _ => ⟨t, by simp [PC.holds]⟩, fun _ => rfl⟩
  | refuse hpc =>
    exact inv_of_holds_eq h rfl (holds_setPc _ _ _ (by rw [hpc]; rfl))
  | leave e hpc _ =>
    exact inv_of_holds_eq h rfl (holds_setPc _ _ _ (by rw [hpc]; rfl))
  | store e hpc =>
    have hthold : (s.pc t).holds = true := by rw [hpc]; rfl
    have hnone : ∀ a, (setPc s.pc t (PC.finished (CallResult.delegated e)) a).holds = false := by
      intro a
      by_cases hat : a = t
      · subst hat; simp [PC.holds]
      · rw [setPc_other _ _ _ _ hat]
        cases hh : (s.pc a).holds with
        | false => rfl
        | true => exact absurd (h.1 a t hh hthold) hat
    constructor
    · intro a b ha; rw [hnone a] at ha; cases ha
    · constructor
      · intro hf; cases hf
      · rintro ⟨a, ha⟩; rw [hnone a] at ha; cases ha
  | unwind _ hd => cases hd
  | again r hpc =>
    exact inv_of_holds_eq h rfl (holds_setPc _ _ _ (by rw [hpc]; rfl))

theorem inv_reachable {s : State n} (h : Reachable true s) : Inv s := by
  induction h with
  | init => exact inv_init
  | step _ st ih => exact inv_step ih st

end Jobs.Isolated
