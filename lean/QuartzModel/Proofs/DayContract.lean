import QuartzModel.Proofs.Odometer
import QuartzModel.Proofs.CalendarLemmas
import QuartzModel.Proofs.CommonNode
import QuartzModel.Cron.Nodes
/-!
# The day node meets the odometer level contract

`dayLvl (dayCfg {} f)` (model of `internal/csm/day_node.go`) satisfies `Odo.LvlOK 6 3` and
`Odo.LvlBound` for every well-formed `f`.  The proof goes through three *modes* of a `DayCfg`
(`WSet` weekday-set, `MSet` month-day-set, `Special` single target day L / L-k / dW / LW / wL / w#k);
each mode yields the per-(year, month) facts collected in `DayOK`, from which the contract follows
(`dayLvl_ok_of`, `dayLvl_bound_of`).  `dayCfg_modes` extracts the mode from `WellFormed`.
-/
namespace Cron
open Cal Odo

/-! ## Per-(year, month) facts about a day node, and the contract they imply -/

/-- what the contract needs, for a fixed configuration of the day node, at every (year, month) -/
structure DayOK (dc : DayCfg) : Prop where
  min1 : dc.min = 1
  range : ∀ y m v, dayValid dc y m v = true → 1 ≤ v ∧ v ≤ dim y m
  next_ok : ∀ y m v, (dayNext dc y m v).2 = false →
    dayValid dc y m (dayNext dc y m v).1 = true ∧ v < (dayNext dc y m v).1 ∧
      ∀ u, dayValid dc y m u = true → v < u → (dayNext dc y m v).1 ≤ u
  next_ovf : ∀ y m v, (dayNext dc y m v).2 = true → ∀ u, dayValid dc y m u = true → u ≤ v
  /-- outputs stay ≤ 31 as long as the current digit does (for *any* bound `b ≥ 31`) -/
  next_le : ∀ y m v b, 31 ≤ b → v ≤ b → (dayNext dc y m v).1 ≤ b
  /-- outputs are never 0 (also the wrapped value reported together with an overflow) -/
  next_ge : ∀ y m v, 1 ≤ (dayNext dc y m v).1

/-- `Reset` yields the least valid day whenever a valid day exists -/
theorem dayReset_ok {dc : DayCfg} (h : DayOK dc) (y m : Nat)
    (hex : ∃ u, dayValid dc y m u = true) :
    dayValid dc y m (dayReset dc y m) = true ∧
      ∀ u, dayValid dc y m u = true → dayReset dc y m ≤ u := by
  unfold dayReset
  rw [h.min1]
  by_cases h1 : dayValid dc y m 1 = true
  · rw [if_pos h1]
    exact ⟨h1, fun u hu => (h.range y m u hu).1⟩
  · rw [if_neg h1]
    obtain ⟨u0, hu0⟩ := hex
    have hne : ∀ u, dayValid dc y m u = true → 1 < u := by
      intro u hu
      have h2 := (h.range y m u hu).1
      by_cases hu1 : u = 1
      · subst hu1; exact absurd hu h1
      · omega
    cases hov : (dayNext dc y m 1).2 with
    | true =>
      have h3 := h.next_ovf y m 1 hov u0 hu0
      have h4 := hne u0 hu0
      omega
    | false =>
      obtain ⟨a, _, c⟩ := h.next_ok y m 1 hov
      exact ⟨a, fun u hu => c u hu (hne u hu)⟩

theorem dayReset_le {dc : DayCfg} (h : DayOK dc) (y m : Nat) : dayReset dc y m ≤ 31 := by
  unfold dayReset
  rw [h.min1]
  split
  · omega
  · exact h.next_le y m 1 31 (Nat.le_refl _) (by omega)

theorem dayReset_ge {dc : DayCfg} (h : DayOK dc) (y m : Nat) : 1 ≤ dayReset dc y m := by
  unfold dayReset
  rw [h.min1]
  split
  · omega
  · exact h.next_ge y m 1

/-- the contract at level 3 of 6 from the per-(year, month) facts -/
theorem dayLvl_ok_of {dc : DayCfg} (h : DayOK dc) : LvlOK 6 3 (dayLvl dc) where
  ext_valid := by
    intro c c' v hag
    have h5 := hag 5 (by omega) (by omega)
    have h4 := hag 4 (by omega) (by omega)
    show dayValid dc (c 5) (c 4) v = true ↔ dayValid dc (c' 5) (c' 4) v = true
    rw [h5, h4]
  next_ok := fun c v hv => h.next_ok (c 5) (c 4) v hv
  next_ovf := fun c v hv => h.next_ovf (c 5) (c 4) v hv
  rst_ok := fun c hex => dayReset_ok h (c 5) (c 4) hex

theorem dayLvl_bound_of {dc : DayCfg} (h : DayOK dc) (B : Nat → Nat) (hB : 31 ≤ B 3) :
    LvlBound B 3 (dayLvl dc) where
  next_le := fun c v hv => h.next_le (c 5) (c 4) v (B 3) hB hv
  rst_le := fun c => Nat.le_trans (dayReset_le h (c 5) (c 4)) hB

/-! ## Special rules: a single target day -/

theorem closestSearch_range (y m t dimv : Nat) (ht : 1 ≤ t) (htd : t ≤ dimv) :
    ∀ fuel i, 1 ≤ closestSearch y m t dimv fuel i ∧ closestSearch y m t dimv fuel i ≤ dimv := by
  intro fuel
  induction fuel with
  | zero => intro i; unfold closestSearch; exact ⟨ht, htd⟩
  | succ fuel ih =>
    intro i
    unfold closestSearch
    split
    · rename_i h; omega
    · split
      · rename_i h; omega
      · exact ih (i + 1)

/-- `closestWeekday` never leaves the month -/
theorem closestWeekday_range (y m t : Nat) (ht : 1 ≤ t) (htd : t ≤ dim y m) :
    1 ≤ closestWeekday y m t ∧ closestWeekday y m t ≤ dim y m := by
  unfold closestWeekday
  split
  · exact ⟨ht, htd⟩
  · exact closestSearch_range y m t (dim y m) ht htd 7 1

theorem mem_daysOfWeekInMonth (y m w t : Nat) :
    t ∈ daysOfWeekInMonth y m w ↔ 1 ≤ t ∧ t ≤ dim y m ∧ weekday y m t = w := by
  unfold daysOfWeekInMonth
  rw [List.mem_filterMap]
  constructor
  · rintro ⟨i, hi, hf⟩
    rw [List.mem_range] at hi
    split at hf
    · rename_i hw
      have : i + 1 = t := Option.some.inj hf
      subst this
      exact ⟨by omega, by omega, hw⟩
    · cases hf
  · rintro ⟨h1, h2, h3⟩
    refine ⟨t - 1, List.mem_range.mpr (by omega), ?_⟩
    have e : t - 1 + 1 = t := by omega
    rw [e, if_pos h3]

/-- the configurations with a single target day that `WellFormed` allows -/
structure Special (dc : DayCfg) : Prop where
  n0 : dc.n ≠ 0
  min1 : dc.min = 1
  shape : dc.isWeekdayNode = true ∨ dc.n = 1 ∨ (dc.n = 2 ∧ 1 ≤ dc.values.headD 0) ∨ dc.n = 3 ∨ dc.n < 0

/-- a target day, if there is one, lies in the month -/
theorem targetDay_range {dc : DayCfg} (hs : Special dc) (y m t : Nat)
    (h : targetDay dc y m = some t) : 1 ≤ t ∧ t ≤ dim y m := by
  obtain ⟨_, hmin, hshape⟩ := hs
  obtain ⟨iw, n, vs, ws, mn, mx⟩ := dc
  simp only at hmin hshape
  subst hmin
  have hd := dim_bounds y m
  unfold targetDay at h
  simp only at h
  cases iw with
  | true =>
    simp only [if_true] at h
    have hmem : t ∈ daysOfWeekInMonth y m (ws.headD 0) := by
      split at h
      · cases h
      · split at h
        · exact List.mem_of_getElem? h
        · exact List.mem_of_mem_getLast? h
    have := (mem_daysOfWeekInMonth y m _ t).mp hmem
    exact ⟨this.1, this.2.1⟩
  | false =>
    simp only [Bool.false_eq_true, if_false] at h
    rcases hshape with h0 | rfl | ⟨rfl, hd1⟩ | rfl | hneg
    · cases h0
    · -- L
      have hc : ¬ ((1 : Int) > 0 ∧ (1 : Int).toNat &&& 2 ≠ 0) := by decide
      rw [if_neg hc] at h
      simp only [if_true] at h
      split at h
      · have := Option.some.inj h; omega
      · cases h
    · -- dW
      have hc : ((2 : Int) > 0 ∧ (2 : Int).toNat &&& 2 ≠ 0) := by decide
      rw [if_pos hc] at h
      have ht := Option.some.inj h
      rw [← ht]
      apply closestWeekday_range
      · split <;> omega
      · split
        · exact Nat.le_refl _
        · rename_i hnot
          have : ¬ vs.headD 0 > dim y m := fun hgt => hnot (Or.inl hgt)
          omega
    · -- LW
      have hc : ((3 : Int) > 0 ∧ (3 : Int).toNat &&& 2 ≠ 0) := by decide
      rw [if_pos hc] at h
      have ht := Option.some.inj h
      rw [← ht]
      have hc1 : (vs.headD 0 > dim y m ∨ (3 : Int).toNat &&& 1 ≠ 0) := Or.inr (by decide)
      rw [if_pos hc1]
      exact closestWeekday_range y m _ (by omega) (Nat.le_refl _)
    · -- L-k
      have hc : ¬ (n > 0 ∧ n.toNat &&& 2 ≠ 0) := fun hh => by omega
      rw [if_neg hc] at h
      have hn1 : ¬ n = 1 := by omega
      rw [if_neg hn1] at h
      split at h
      · have := Option.some.inj h; omega
      · cases h

theorem dayValid_special {dc : DayCfg} (hn : dc.n ≠ 0) (y m v : Nat) :
    dayValid dc y m v = true ↔ targetDay dc y m = some v := by
  unfold dayValid
  rw [if_pos hn]
  cases targetDay dc y m with
  | none => simp
  | some t =>
    show (v == t) = true ↔ some t = some v
    rw [beq_iff_eq, Option.some.injEq]; exact eq_comm

theorem dayOK_special {dc : DayCfg} (hs : Special dc) : DayOK dc := by
  have hn := hs.n0
  have hnext : ∀ y m v, dayNext dc y m v = nextDayN dc y m v := by
    intro y m v; unfold dayNext; rw [if_pos hn]
  refine ⟨hs.min1, ?_, ?_, ?_, ?_, ?_⟩
  · intro y m v hv
    exact targetDay_range hs y m v ((dayValid_special hn y m v).mp hv)
  · intro y m v
    rw [hnext]
    simp only [dayValid_special hn]
    unfold nextDayN
    cases hT : targetDay dc y m with
    | none => simp
    | some t =>
      simp only
      split
      · rename_i hlt
        intro _
        refine ⟨rfl, hlt, ?_⟩
        intro u hu _
        have := Option.some.inj hu
        omega
      · intro hh; cases hh
  · intro y m v
    rw [hnext]
    simp only [dayValid_special hn]
    unfold nextDayN
    cases hT : targetDay dc y m with
    | none => intro _ u hu; cases hu
    | some t =>
      simp only
      split
      · intro hh; cases hh
      · intro _ u hu
        have := Option.some.inj hu
        omega
  · intro y m v b hb hv
    rw [hnext]
    unfold nextDayN
    cases hT : targetDay dc y m with
    | none => simp only; rw [hs.min1]; omega
    | some t =>
      simp only
      have h1 := targetDay_range hs y m t hT
      have h2 := dim_bounds y m
      split
      · show t ≤ b; omega
      · show dc.min ≤ b; rw [hs.min1]; omega
  · intro y m v
    rw [hnext]
    unfold nextDayN
    cases hT : targetDay dc y m with
    | none => simp only; rw [hs.min1]; omega
    | some t =>
      simp only
      have h1 := targetDay_range hs y m t hT
      split
      · exact h1.1
      · show 1 ≤ dc.min; rw [hs.min1]; omega

/-! ## Weekday-set mode -/

structure WSet (dc : DayCfg) : Prop where
  wk : dc.isWeekdayNode = true
  n0 : dc.n = 0
  vals : dc.values = []
  ne : dc.wvalues ≠ []
  sorted : Sorted dc.wvalues = true
  le6 : ∀ x ∈ dc.wvalues, x ≤ 6
  min1 : dc.min = 1
  max31 : dc.max = 31

/-- offset to the next listed weekday (the first `let` of `nextWeekday`) -/
def wOff (ws : List Nat) (wd : Nat) : Nat :=
  match ws.find? (fun x => decide (wd < x)) with
  | some x => x - wd
  | none => 7 + ws.headD 0 - wd

theorem nextWeekday_eq (dc : DayCfg) (y m v : Nat) :
    nextWeekday dc y m v =
      if v + wOff dc.wvalues (weekday y m v) > dim y m
      then (v + wOff dc.wvalues (weekday y m v) - dim y m, true)
      else (v + wOff dc.wvalues (weekday y m v), false) := rfl

theorem sorted_head_min {a : Nat} {t : List Nat} (hs : Sorted (a :: t) = true) :
    ∀ y ∈ a :: t, a ≤ y := by
  intro y hy
  cases hy with
  | head => exact Nat.le_refl _
  | tail _ h => exact sorted_head_le hs y h

/-- the offset is in 1..7, lands on a listed weekday, and skips none -/
theorem wOff_spec (ws : List Nat) (hne : ws ≠ []) (hs : Sorted ws = true)
    (hb : ∀ x ∈ ws, x ≤ 6) (w : Nat) (hw : w < 7) :
    1 ≤ wOff ws w ∧ wOff ws w ≤ 7 ∧ (w + wOff ws w) % 7 ∈ ws ∧
      ∀ k, 1 ≤ k → k < wOff ws w → (w + k) % 7 ∉ ws := by
  unfold wOff
  cases ws with
  | nil => exact absurd rfl hne
  | cons a t =>
    cases hf : (a :: t).find? (fun x => decide (w < x)) with
    | some x =>
      simp only
      obtain ⟨hm, hp, hleast⟩ := find_least _ _ hs x hf
      simp only [decide_eq_true_eq] at hp hleast
      have hx7 := hb x hm
      refine ⟨by omega, by omega, ?_, ?_⟩
      · have e : (w + (x - w)) % 7 = x := by omega
        rw [e]; exact hm
      · intro k hk1 hk2 hmem
        have hlt : (w + k) % 7 = w + k := by omega
        rw [hlt] at hmem
        have := hleast (w + k) hmem (by omega)
        omega
    | none =>
      simp only [List.headD_cons]
      have hall : ∀ y ∈ a :: t, y ≤ w := by
        intro y hy
        have := List.find?_eq_none.mp hf y hy
        simp only [decide_eq_true_eq] at this
        omega
      have ha7 := hb a (by simp)
      have haw := hall a (by simp)
      refine ⟨by omega, by omega, ?_, ?_⟩
      · have e : (w + (7 + a - w)) % 7 = a := by omega
        rw [e]; simp
      · intro k hk1 hk2 hmem
        by_cases hlt : w + k < 7
        · have e : (w + k) % 7 = w + k := by omega
          rw [e] at hmem
          have := hall _ hmem; omega
        · have e : (w + k) % 7 = w + k - 7 := by omega
          rw [e] at hmem
          have := sorted_head_min hs _ hmem
          omega

theorem dayValid_wset {dc : DayCfg} (h : WSet dc) (y m v : Nat) :
    dayValid dc y m v = true ↔ 1 ≤ v ∧ v ≤ dim y m ∧ weekday y m v ∈ dc.wvalues := by
  have hd := dim_bounds y m
  have hn : ¬ dc.n ≠ 0 := fun hh => hh h.n0
  unfold dayValid
  rw [if_neg hn]
  simp only [h.wk, if_true, Bool.and_eq_true, commonValid_iff, h.vals, h.min1, h.max31,
    decide_eq_true_eq, List.contains_iff_mem, memOrAny]
  constructor
  · rintro ⟨⟨⟨h1, _, _⟩, h2⟩, h3⟩; exact ⟨h1, h2, h3⟩
  · rintro ⟨h1, h2, h3⟩; exact ⟨⟨⟨h1, by omega, Or.inl trivial⟩, h2⟩, h3⟩

theorem dayOK_wset {dc : DayCfg} (h : WSet dc) : DayOK dc := by
  have hn : ¬ dc.n ≠ 0 := fun hh => hh h.n0
  have hnext : ∀ y m v, dayNext dc y m v = nextWeekday dc y m v := by
    intro y m v; unfold dayNext; rw [if_neg hn, if_pos h.wk]
  refine ⟨h.min1, ?_, ?_, ?_, ?_, ?_⟩
  · intro y m v hv
    have := (dayValid_wset h y m v).mp hv
    exact ⟨this.1, this.2.1⟩
  · intro y m v
    obtain ⟨o1, o2, o3, o4⟩ := wOff_spec dc.wvalues h.ne h.sorted h.le6 _ (weekday_lt y m v)
    rw [hnext, nextWeekday_eq]
    simp only [dayValid_wset h]
    split
    · intro hh; cases hh
    · rename_i hle
      intro _
      refine ⟨⟨by omega, by omega, ?_⟩, by omega, ?_⟩
      · show weekday y m (v + wOff dc.wvalues (weekday y m v)) ∈ dc.wvalues
        rw [weekday_add]; exact o3
      · intro u hu hvu
        show v + wOff dc.wvalues (weekday y m v) ≤ u
        apply Classical.byContradiction
        intro hcon
        have hk : u = v + (u - v) := by omega
        have := o4 (u - v) (by omega) (by omega)
        rw [← weekday_add, ← hk] at this
        exact this hu.2.2
  · intro y m v
    obtain ⟨o1, o2, o3, o4⟩ := wOff_spec dc.wvalues h.ne h.sorted h.le6 _ (weekday_lt y m v)
    rw [hnext, nextWeekday_eq]
    simp only [dayValid_wset h]
    split
    · rename_i hgt
      intro _ u hu
      apply Classical.byContradiction
      intro hcon
      have hk : u = v + (u - v) := by omega
      have := o4 (u - v) (by omega) (by have := hu.2.1; omega)
      rw [← weekday_add, ← hk] at this
      exact this hu.2.2
    · intro hh; cases hh
  · intro y m v b hb hv
    obtain ⟨o1, o2, o3, o4⟩ := wOff_spec dc.wvalues h.ne h.sorted h.le6 _ (weekday_lt y m v)
    have hd := dim_bounds y m
    rw [hnext, nextWeekday_eq]
    split
    · show v + wOff dc.wvalues (weekday y m v) - dim y m ≤ b; omega
    · show v + wOff dc.wvalues (weekday y m v) ≤ b; omega
  · intro y m v
    obtain ⟨o1, o2, o3, o4⟩ := wOff_spec dc.wvalues h.ne h.sorted h.le6 _ (weekday_lt y m v)
    rw [hnext, nextWeekday_eq]
    split
    · show 1 ≤ v + wOff dc.wvalues (weekday y m v) - dim y m; omega
    · show 1 ≤ v + wOff dc.wvalues (weekday y m v); omega

/-! ## Month-day-set mode -/

structure MSet (dc : DayCfg) : Prop where
  wk : dc.isWeekdayNode = false
  n0 : dc.n = 0
  sorted : Sorted dc.values = true
  inr : ∀ x ∈ dc.values, 1 ≤ x ∧ x ≤ 31
  min1 : dc.min = 1
  max31 : dc.max = 31

/-- every output of `CommonNode.Next` is ≤ max -/
theorem commonNext_fst_le (min max : Nat) (values : List Nat) (hmm : min ≤ max)
    (hv : ∀ x ∈ values, x ≤ max) (v : Nat) : (commonNext min max values v).1 ≤ max := by
  unfold commonNext nextInRange
  cases values with
  | nil =>
    simp only [ne_eq, not_true_eq_false, if_false]
    split
    · exact hmm
    · show v + 1 ≤ max; omega
  | cons a t =>
    simp only [ne_eq, reduceCtorEq, not_false_eq_true, if_true]
    cases hf : (a :: t).find? (fun x => decide (v < x) && decide (x ≤ max)) with
    | none => exact hv a (by simp)
    | some x => exact hv x (List.mem_of_find?_eq_some hf)

/-- every output of `CommonNode.Next` is ≥ 1 when `min` and the listed values are -/
theorem commonNext_fst_ge (min max : Nat) (values : List Nat) (hmin : 1 ≤ min)
    (hv : ∀ x ∈ values, 1 ≤ x) (v : Nat) : 1 ≤ (commonNext min max values v).1 := by
  unfold commonNext nextInRange
  cases values with
  | nil =>
    simp only [ne_eq, not_true_eq_false, if_false]
    split
    · exact hmin
    · show 1 ≤ v + 1; omega
  | cons a t =>
    simp only [ne_eq, reduceCtorEq, not_false_eq_true, if_true]
    cases hf : (a :: t).find? (fun x => decide (v < x) && decide (x ≤ max)) with
    | none => exact hv a (by simp)
    | some x => exact hv x (List.mem_of_find?_eq_some hf)

theorem dayValid_mset {dc : DayCfg} (h : MSet dc) (y m v : Nat) :
    dayValid dc y m v = true ↔ commonValid 1 31 dc.values v = true ∧ v ≤ dim y m := by
  have hn : ¬ dc.n ≠ 0 := fun hh => hh h.n0
  unfold dayValid
  rw [if_neg hn]
  simp only [h.wk, Bool.false_eq_true, if_false, Bool.and_eq_true, h.min1, h.max31,
    decide_eq_true_eq]

theorem dayOK_mset {dc : DayCfg} (h : MSet dc) : DayOK dc := by
  have hn : ¬ dc.n ≠ 0 := fun hh => hh h.n0
  have hnext : ∀ y m v, dayNext dc y m v =
      (if (commonNext 1 31 dc.values v).2 = true then ((commonNext 1 31 dc.values v).1, true)
       else if (commonNext 1 31 dc.values v).1 > dim y m then (commonReset 1 31 dc.values, true)
       else ((commonNext 1 31 dc.values v).1, false)) := by
    intro y m v
    unfold dayNext
    rw [if_neg hn]
    simp only [h.wk, Bool.false_eq_true, if_false]
    unfold nextDay
    simp only [h.min1, h.max31]
  have hlo : ∀ x ∈ dc.values, 1 ≤ x := fun x hx => (h.inr x hx).1
  have hhi : ∀ x ∈ dc.values, x ≤ 31 := fun x hx => (h.inr x hx).2
  refine ⟨h.min1, ?_, ?_, ?_, ?_, ?_⟩
  · intro y m v hv
    obtain ⟨h1, h2⟩ := (dayValid_mset h y m v).mp hv
    exact ⟨((commonValid_iff 1 31 dc.values v).mp h1).1, h2⟩
  · intro y m v
    rw [hnext]
    simp only [dayValid_mset h]
    split
    · intro hh; cases hh
    · rename_i hov
      have hov' : (commonNext 1 31 dc.values v).2 = false := by
        cases hb : (commonNext 1 31 dc.values v).2 with
        | true => exact absurd hb hov
        | false => rfl
      obtain ⟨a, b, c⟩ := commonNext_ok 1 31 dc.values h.sorted hlo (Or.inl (Nat.le_refl _)) v hov'
      split
      · intro hh; cases hh
      · rename_i hle
        intro _
        exact ⟨⟨a, by omega⟩, b, fun u hu hvu => c u hu.1 hvu⟩
  · intro y m v
    rw [hnext]
    simp only [dayValid_mset h]
    split
    · rename_i hov
      intro _ u hu
      exact commonNext_ovf 1 31 dc.values v hov u hu.1
    · rename_i hov
      have hov' : (commonNext 1 31 dc.values v).2 = false := by
        cases hb : (commonNext 1 31 dc.values v).2 with
        | true => exact absurd hb hov
        | false => rfl
      obtain ⟨a, b, c⟩ := commonNext_ok 1 31 dc.values h.sorted hlo (Or.inl (Nat.le_refl _)) v hov'
      split
      · rename_i hgt
        intro _ u hu
        apply Classical.byContradiction
        intro hcon
        have := c u hu.1 (by omega)
        have := hu.2
        omega
      · intro hh; cases hh
  · intro y m v b hb _
    rw [hnext]
    have h1 := commonNext_fst_le 1 31 dc.values (by omega) hhi v
    have h2 : commonReset 1 31 dc.values ≤ 31 := commonNext_fst_le 1 31 dc.values (by omega) hhi 31
    split
    · show (commonNext 1 31 dc.values v).1 ≤ b; omega
    · split
      · show commonReset 1 31 dc.values ≤ b; omega
      · show (commonNext 1 31 dc.values v).1 ≤ b; omega
  · intro y m v
    rw [hnext]
    have h1 := commonNext_fst_ge 1 31 dc.values (Nat.le_refl _) hlo v
    have h2 : 1 ≤ commonReset 1 31 dc.values :=
      commonNext_fst_ge 1 31 dc.values (Nat.le_refl _) hlo 31
    split
    · exact h1
    · split
      · exact h2
      · exact h1

/-! ## From `WellFormed` to a mode -/

theorem dayCfg_modes (f : Fields) (hwf : WellFormed f = true) :
    WSet (dayCfg {} f) ∨ MSet (dayCfg {} f) ∨ Special (dayCfg {} f) := by
  simp only [WellFormed, Bool.and_eq_true] at hwf
  obtain ⟨⟨⟨⟨⟨⟨⟨⟨⟨_, hdom⟩, _⟩, _⟩, _⟩, hdow⟩, _⟩, _⟩, _⟩, hex⟩ := hwf
  unfold dayCfg
  by_cases hw : f.dow.values = []
  · -- day-of-month node
    have hw' : ¬ f.dow.values ≠ [] := fun hh => hh hw
    rw [if_neg hw']
    unfold domOK at hdom
    by_cases h0 : f.dom.n = 0
    · rw [if_pos h0] at hdom
      simp only [Bool.and_eq_true, allIn_iff] at hdom
      exact Or.inr (Or.inl ⟨rfl, h0, hdom.1, hdom.2, rfl, rfl⟩)
    · rw [if_neg h0] at hdom
      refine Or.inr (Or.inr ⟨h0, rfl, ?_⟩)
      show false = true ∨ f.dom.n = 1 ∨ (f.dom.n = 2 ∧ 1 ≤ f.dom.values.headD 0) ∨ f.dom.n = 3 ∨
        f.dom.n < 0
      by_cases h1 : f.dom.n = 1
      · exact Or.inr (Or.inl h1)
      · rw [if_neg h1] at hdom
        by_cases h2 : f.dom.n = 2
        · rw [if_pos h2] at hdom
          refine Or.inr (Or.inr (Or.inl ⟨h2, ?_⟩))
          split at hdom
          · rename_i d heq
            simp only [Bool.and_eq_true, decide_eq_true_eq] at hdom
            rw [heq]
            exact hdom.1
          · cases hdom
        · rw [if_neg h2] at hdom
          by_cases h3 : f.dom.n = 3
          · exact Or.inr (Or.inr (Or.inr (Or.inl h3)))
          · rw [if_neg h3] at hdom
            simp only [Bool.and_eq_true, decide_eq_true_eq] at hdom
            exact Or.inr (Or.inr (Or.inr (Or.inr (by omega))))
  · -- day-of-week node
    rw [if_pos hw]
    unfold dowOK at hdow
    by_cases h0 : f.dow.n = 0
    · rw [if_pos h0] at hdow
      simp only [Bool.and_eq_true, allIn_iff] at hdow
      exact Or.inl ⟨rfl, h0, rfl, hw, hdow.1, fun x hx => (hdow.2 x hx).2, rfl, rfl⟩
    · exact Or.inr (Or.inr ⟨h0, rfl, Or.inl rfl⟩)

theorem dayCfg_ok (f : Fields) (hwf : WellFormed f = true) : DayOK (dayCfg {} f) := by
  rcases dayCfg_modes f hwf with h | h | h
  · exact dayOK_wset h
  · exact dayOK_mset h
  · exact dayOK_special h

/-! ## Main theorems -/

/-- the day node of a well-formed expression meets the odometer contract at level 3 of 6
    (validity may depend on levels 4 = month and 5 = year only) -/
theorem dayLvl_ok (f : Fields) (hwf : WellFormed f = true) : LvlOK 6 3 (dayLvl (dayCfg {} f)) :=
  dayLvl_ok_of (dayCfg_ok f hwf)

/-- everything the day node outputs is ≤ 31 and ≥ 1 -/
theorem dayLvl_bound (f : Fields) (hwf : WellFormed f = true) (B : Nat → Nat) (hB : 31 ≤ B 3) :
    LvlBound B 3 (dayLvl (dayCfg {} f)) :=
  dayLvl_bound_of (dayCfg_ok f hwf) B hB

theorem dayValid_range (f : Fields) (hwf : WellFormed f = true) (y m v : Nat)
    (h : dayValid (dayCfg {} f) y m v = true) : 1 ≤ v ∧ v ≤ dim y m :=
  (dayCfg_ok f hwf).range y m v h

/-- the "≥ 1" half of the bound: `Next` (also the wrapped value it reports together with an
overflow) and `Reset` never produce day 0, whatever the current digit -/
theorem dayLvl_pos (f : Fields) (hwf : WellFormed f = true) (c : Cfg) :
    (∀ v, 1 ≤ ((dayLvl (dayCfg {} f)).next c v).1) ∧ 1 ≤ (dayLvl (dayCfg {} f)).rst c :=
  ⟨fun v => (dayCfg_ok f hwf).next_ge (c 5) (c 4) v, dayReset_ge (dayCfg_ok f hwf) (c 5) (c 4)⟩

/-! ## Why `LvlBound.next_le` carries the hypothesis `v ≤ B k`

Against the first form of `LvlBound` (`next_le : ∀ c v, (l.next c v).1 ≤ B k`, no hypothesis on the
current digit) `dayLvl_bound` was false: in weekday-set mode `nextWeekday` reports an overflow
together with `v + offset - dim`, which is unbounded in `v`.  `Odo.LvlBound` was therefore changed
(by the owner of `Proofs/Odometer.lean`) to quantify over `v ≤ B k` only, which is all that
`InBox_overflowFrom` / `InBox_advFrom` use; `dayLvl_bound` above is stated against that definition. -/

/-- Mon, Wed, Fri -/
def exWeekdays : Fields :=
  ⟨⟨[0], 0⟩, ⟨[0], 0⟩, ⟨[12], 0⟩, ⟨[], 0⟩, ⟨[], 0⟩, ⟨[1, 3, 5], 0⟩, ⟨[], 0⟩⟩
/-- `LW`: last Monday–Friday day of the month -/
def exLastWorkday : Fields :=
  ⟨⟨[0], 0⟩, ⟨[0], 0⟩, ⟨[12], 0⟩, ⟨[0], 3⟩, ⟨[], 0⟩, ⟨[], 0⟩, ⟨[], 0⟩⟩
/-- `6#3`: third Friday (values shifted to 0 = Sunday) -/
def exThirdFriday : Fields :=
  ⟨⟨[0], 0⟩, ⟨[0], 0⟩, ⟨[12], 0⟩, ⟨[], 0⟩, ⟨[], 0⟩, ⟨[5], 3⟩, ⟨[], 0⟩⟩
/-- days 15, 30, 31 -/
def exMonthDays : Fields :=
  ⟨⟨[0], 0⟩, ⟨[0], 0⟩, ⟨[12], 0⟩, ⟨[15, 30, 31], 0⟩, ⟨[], 0⟩, ⟨[], 0⟩, ⟨[], 0⟩⟩

/-- the counterexample to the hypothesis-free bound: current digit 1000, February 2024 -/
theorem dayLvl_bound_unbounded_counterexample :
    WellFormed exWeekdays = true ∧ dayNext (dayCfg {} exWeekdays) 2024 2 1000 = (972, true) := by
  decide

/-! ## Non-vacuity -/

example : LvlOK 6 3 (dayLvl (dayCfg {} exWeekdays)) := dayLvl_ok exWeekdays (by decide)
example : LvlOK 6 3 (dayLvl (dayCfg {} exLastWorkday)) := dayLvl_ok exLastWorkday (by decide)
example : LvlOK 6 3 (dayLvl (dayCfg {} exThirdFriday)) := dayLvl_ok exThirdFriday (by decide)
example : LvlOK 6 3 (dayLvl (dayCfg {} exMonthDays)) := dayLvl_ok exMonthDays (by decide)
example : LvlBound B6 3 (dayLvl (dayCfg {} exWeekdays)) :=
  dayLvl_bound exWeekdays (by decide) B6 (by decide)
example : WSet (dayCfg {} exWeekdays) ∧ Special (dayCfg {} exLastWorkday) ∧
    Special (dayCfg {} exThirdFriday) ∧ MSet (dayCfg {} exMonthDays) := by
  refine ⟨?_, ?_, ?_, ?_⟩
  · rcases dayCfg_modes exWeekdays (by decide) with h | h | h
    · exact h
    · exact absurd h.wk (by decide)
    · exact absurd h.n0 (by decide)
  · rcases dayCfg_modes exLastWorkday (by decide) with h | h | h
    · exact absurd h.n0 (by decide)
    · exact absurd h.n0 (by decide)
    · exact h
  · rcases dayCfg_modes exThirdFriday (by decide) with h | h | h
    · exact absurd h.n0 (by decide)
    · exact absurd h.n0 (by decide)
    · exact h
  · rcases dayCfg_modes exMonthDays (by decide) with h | h | h
    · exact absurd h.wk (by decide)
    · exact h
    · exact absurd h.n0 (by decide)

/-- February 2024 (leap; the 1st is a Thursday): concrete behaviour of the four nodes -/
example :
    dayValid (dayCfg {} exWeekdays) 2024 2 2 = true ∧ dayReset (dayCfg {} exWeekdays) 2024 2 = 2 ∧
    dayNext (dayCfg {} exWeekdays) 2024 2 2 = (5, false) ∧
    dayNext (dayCfg {} exWeekdays) 2024 2 28 = (1, true) ∧
    dayValid (dayCfg {} exLastWorkday) 2024 2 29 = true ∧
    dayNext (dayCfg {} exLastWorkday) 2024 2 0 = (29, false) ∧
    dayNext (dayCfg {} exLastWorkday) 2024 2 29 = (1, true) ∧
    dayValid (dayCfg {} exThirdFriday) 2024 2 16 = true ∧
    dayReset (dayCfg {} exThirdFriday) 2024 2 = 16 ∧
    dayNext (dayCfg {} exMonthDays) 2024 2 15 = (15, true) ∧
    dayReset (dayCfg {} exMonthDays) 2024 2 = 15 ∧
    dayValid (dayCfg {} exMonthDays) 2024 2 30 = false := by decide

example : (dayValid_range exWeekdays (by decide) 2024 2 2 (by decide)).1 = (by decide : 1 ≤ 2) := rfl

end Cron
