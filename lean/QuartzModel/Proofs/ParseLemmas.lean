import QuartzModel.Cron.Parse
/-!
# Helper lemmas about the cron parser model (`Cron/Parse.lean`)

Sorting, range/step filling, text splitting, and the "output stays in range" lemmas for each
sub-parser. The property theorems proper are in `Theorems/C07.lean`.
-/
namespace Cron

/-! ## `Sorted` / `allIn` as propositions -/

theorem sorted_iff_pairwise (l : List Nat) : Sorted l = true ↔ l.Pairwise (· ≤ ·) := by
  induction l with
  | nil => simp [Sorted]
  | cons a t ih =>
    cases t with
    | nil => simp [Sorted]
    | cons b t =>
      simp only [Sorted, Bool.and_eq_true, decide_eq_true_eq, ih]
      constructor
      · rintro ⟨hab, hp⟩
        refine List.pairwise_cons.2 ⟨?_, hp⟩
        intro x hx
        rcases List.mem_cons.1 hx with rfl | hx
        · exact hab
        · exact Nat.le_trans hab ((List.pairwise_cons.1 hp).1 x hx)
      · intro hp
        have := List.pairwise_cons.1 hp
        exact ⟨this.1 b (by simp), this.2⟩

theorem allIn_iff (lo hi : Nat) (l : List Nat) :
    allIn lo hi l = true ↔ ∀ v ∈ l, lo ≤ v ∧ v ≤ hi := by
  simp [allIn, List.all_eq_true]

/-- the "good value list" predicate used throughout: sorted and inside `[lo, hi]` -/
def Good (lo hi : Nat) (l : List Nat) : Prop := l.Pairwise (· ≤ ·) ∧ ∀ v ∈ l, lo ≤ v ∧ v ≤ hi

theorem Good.sorted {lo hi l} (h : Good lo hi l) : Sorted l = true := (sorted_iff_pairwise l).2 h.1
theorem Good.allIn {lo hi l} (h : Good lo hi l) : allIn lo hi l = true := (allIn_iff lo hi l).2 h.2

/-! ## insertion sort -/

theorem mem_insertSorted {x y : Nat} {l : List Nat} : y ∈ insertSorted x l ↔ y = x ∨ y ∈ l := by
  induction l with
  | nil => simp [insertSorted]
  | cons h t ih =>
    simp only [insertSorted]
    split
    · simp
    · simp only [List.mem_cons, ih]
      exact or_left_comm

theorem pairwise_insertSorted (x : Nat) (l : List Nat) (h : l.Pairwise (· ≤ ·)) :
    (insertSorted x l).Pairwise (· ≤ ·) := by
  induction l with
  | nil => simp [insertSorted]
  | cons a t ih =>
    simp only [insertSorted]
    have hc := List.pairwise_cons.1 h
    split
    · rename_i hxa
      refine List.pairwise_cons.2 ⟨?_, h⟩
      intro y hy
      rcases List.mem_cons.1 hy with rfl | hy
      · exact hxa
      · exact Nat.le_trans hxa (hc.1 y hy)
    · rename_i hxa
      refine List.pairwise_cons.2 ⟨?_, ih hc.2⟩
      intro y hy
      rcases mem_insertSorted.1 hy with rfl | hy
      · omega
      · exact hc.1 y hy

theorem mem_sortNat {y : Nat} {l : List Nat} : y ∈ sortNat l ↔ y ∈ l := by
  induction l with
  | nil => simp [sortNat]
  | cons a t ih =>
    have : sortNat (a :: t) = insertSorted a (sortNat t) := rfl
    rw [this, mem_insertSorted, ih]; simp

theorem pairwise_sortNat (l : List Nat) : (sortNat l).Pairwise (· ≤ ·) := by
  induction l with
  | nil => simp [sortNat]
  | cons a t ih =>
    have : sortNat (a :: t) = insertSorted a (sortNat t) := rfl
    rw [this]; exact pairwise_insertSorted a _ ih

theorem sorted_sortNat (l : List Nat) : Sorted (sortNat l) = true :=
  (sorted_iff_pairwise _).2 (pairwise_sortNat l)

theorem good_sortNat {lo hi : Nat} {l : List Nat} (h : ∀ v ∈ l, lo ≤ v ∧ v ≤ hi) :
    Good lo hi (sortNat l) :=
  ⟨pairwise_sortNat l, fun v hv => h v (mem_sortNat.1 hv)⟩

/-- sorting a sorted list changes nothing -/
theorem insertSorted_of_le (x : Nat) (l : List Nat) (h : ∀ y ∈ l, x ≤ y) :
    insertSorted x l = x :: l := by
  cases l with
  | nil => rfl
  | cons a t => simp [insertSorted, h a (by simp)]

theorem sortNat_of_pairwise (l : List Nat) (h : l.Pairwise (· ≤ ·)) : sortNat l = l := by
  induction l with
  | nil => rfl
  | cons a t ih =>
    have hc := List.pairwise_cons.1 h
    have : sortNat (a :: t) = insertSorted a (sortNat t) := rfl
    rw [this, ih hc.2, insertSorted_of_le a t hc.1]

/-! ## `fillRange`, `fillStep` -/

theorem pairwise_map_range (n : Nat) (g : Nat → Nat) (hg : ∀ i j, i < j → g i ≤ g j) :
    ((List.range n).map g).Pairwise (· ≤ ·) := by
  rw [List.pairwise_map]
  exact List.Pairwise.imp (fun {a b} hab => hg a b hab) List.pairwise_lt_range

theorem fillRange_good {a z : Nat} {l : List Nat} (h : fillRange a z = some l) : Good a z l := by
  unfold fillRange at h
  split at h
  · cases h
  · rename_i hlt
    injection h with h; subst h
    refine ⟨pairwise_map_range _ _ (fun i j hij => by omega), ?_⟩
    intro v hv
    simp only [List.mem_map, List.mem_range] at hv
    obtain ⟨j, hj, rfl⟩ := hv
    omega

theorem fillStep_good {a s z : Nat} {l : List Nat} (h : fillStep a s z = some l) : Good a z l := by
  unfold fillStep at h
  split at h
  · cases h
  · rename_i hc
    injection h with h; subst h
    refine ⟨pairwise_map_range _ _ (fun i j hij => ?_), ?_⟩
    · have : i * s ≤ j * s := Nat.mul_le_mul_right s (Nat.le_of_lt hij)
      omega
    · intro v hv
      simp only [List.mem_map, List.mem_range] at hv
      obtain ⟨j, hj, rfl⟩ := hv
      have h1 : j * s ≤ (z - a) / s * s := Nat.mul_le_mul_right s (by omega)
      have h2 : (z - a) / s * s ≤ z - a := Nat.div_mul_le_self _ _
      omega

theorem Good.mono {lo hi lo' hi' : Nat} {l : List Nat} (h : Good lo hi l) (h1 : lo' ≤ lo) (h2 : hi ≤ hi') :
    Good lo' hi' l :=
  ⟨h.1, fun v hv => ⟨Nat.le_trans h1 (h.2 v hv).1, Nat.le_trans (h.2 v hv).2 h2⟩⟩

theorem inScope_iff (v lo hi : Int) : inScope v lo hi = true ↔ lo ≤ v ∧ v ≤ hi := by
  simp [inScope]

/-! ## `mapM'` -/

theorem mapM'_mem {α β} {f : α → Option β} {l : List α} {r : List β} (h : mapM' f l = some r) :
    ∀ y ∈ r, ∃ x ∈ l, f x = some y := by
  induction l generalizing r with
  | nil => simp [mapM'] at h; subst h; simp
  | cons a t ih =>
    simp only [mapM'] at h
    split at h
    · rename_i b bs hb hbs
      injection h with h; subst h
      intro y hy
      rcases List.mem_cons.1 hy with rfl | hy
      · exact ⟨a, by simp, hb⟩
      · obtain ⟨x, hx, hfx⟩ := ih hbs y hy
        exact ⟨x, by simp [hx], hfx⟩
    · cases h

/-! ## sub-parsers stay in range -/

theorem parseRange_good {fld : Str} {b : Bound} {names : List Str} {l : List Nat}
    (h : parseRange fld b names = some l) : Good b.lower b.upper l := by
  unfold parseRange at h
  split at h
  · split at h
    · rename_i frm to _ _
      split at h
      · rename_i hs
        simp only [Bool.and_eq_true, inScope_iff] at hs
        exact (fillRange_good h).mono (by omega) (by omega)
      · cases h
    · cases h
  · cases h

theorem parseStep_good {fld : Str} {b : Bound} {names : List Str} {l : List Nat}
    (h : parseStep fld b names = some l) : Good b.lower b.upper l := by
  unfold parseStep at h
  split at h
  · simp only at h
    split at h
    · rename_i frm to step _ _
      split at h
      · rename_i hs
        simp only [Bool.and_eq_true, inScope_iff] at hs
        exact (fillStep_good h).mono (by omega) (by omega)
      · cases h
    · cases h
  · cases h

theorem parseList_good {fld : Str} {b : Bound} {names : List Str} {l : List Nat}
    (h : parseList fld b names = some l) : Good b.lower b.upper l := by
  unfold parseList at h
  simp only at h
  split at h
  · cases h
  · rename_i lits hl
    split at h
    · cases h
    · rename_i hall
      split at h
      · rename_i sv rv hsv hrv
        injection h with h; subst h
        apply good_sortNat
        intro v hv
        simp only [List.mem_append, List.mem_map, List.mem_flatten] at hv
        rcases hv with (⟨w, hw, rfl⟩ | ⟨ys, hys, hv⟩) | ⟨ys, hys, hv⟩
        · simp only [Bool.not_eq_true, Bool.not_eq_false', List.all_eq_true, inScope_iff] at hall
          have := hall w hw
          omega
        · obtain ⟨x, _, hx⟩ := mapM'_mem hsv ys hys
          exact (parseStep_good hx).2 v hv
        · obtain ⟨x, _, hx⟩ := mapM'_mem hrv ys hys
          exact (parseRange_good hx).2 v hv
      · cases h

theorem parseField_good {fld : Str} {b : Bound} {names : List Str} {f : Field}
    (h : parseField fld b names = some f) : f.n = 0 ∧ Good b.lower b.upper f.values := by
  unfold parseField at h
  split at h
  · injection h with h; subst h
    exact ⟨rfl, List.Pairwise.nil, by simp⟩
  · split at h
    · simp only [Option.map_eq_some_iff] at h
      obtain ⟨v, hv, rfl⟩ := h
      exact ⟨rfl, parseList_good hv⟩
    · split at h
      · simp only [Option.map_eq_some_iff] at h
        obtain ⟨v, hv, rfl⟩ := h
        exact ⟨rfl, parseStep_good hv⟩
      · split at h
        · simp only [Option.map_eq_some_iff] at h
          obtain ⟨v, hv, rfl⟩ := h
          exact ⟨rfl, parseRange_good hv⟩
        · split at h
          · split at h
            · rename_i v _ hs
              injection h with h; subst h
              simp only [inScope_iff] at hs
              refine ⟨rfl, by simp, ?_⟩
              intro w hw
              simp only [List.mem_singleton] at hw
              subst hw; omega
            · cases h
          · cases h

/-! ## day-of-month / day-of-week parsers: L / W / # never combine with anything else -/

theorem domOK_lastK (k : Int) (h1 : 1 ≤ k) (h2 : k ≤ 31) : domOK { values := [], n := -k } = true := by
  have a0 : ¬ (-k = 0) := by omega
  have a1 : ¬ (-k = 1) := by omega
  have a2 : ¬ (-k = 2) := by omega
  have a3 : ¬ (-k = 3) := by omega
  simp only [domOK, a0, a1, a2, a3, if_false, Bool.and_eq_true, decide_eq_true_eq, beq_self_eq_true,
    and_true]
  omega

theorem domOK_weekday (d : Int) (h1 : 1 ≤ d) (h2 : d ≤ 31) : domOK { values := [d.toNat], n := 2 } = true := by
  simp [domOK]
  omega

theorem domOK_of_good {f : Field} (h : f.n = 0 ∧ Good 1 31 f.values) : domOK f = true := by
  simp [domOK, h.1, h.2.sorted, h.2.allIn]

theorem parseDom_domOK {fld : Str} {f : Field} (h : parseDom fld ⟨1, 31⟩ = some f) : domOK f = true := by
  unfold parseDom at h
  split at h
  · split at h
    · injection h with h; subst h; rfl
    · split at h
      · split at h
        · split at h
          · rename_i n _ hs
            injection h with h; subst h
            simp only [inScope_iff] at hs
            exact domOK_lastK n (by omega) (by omega)
          · cases h
        · cases h
      · cases h
  · split at h
    · injection h with h; subst h; rfl
    · split at h
      · split at h
        · split at h
          · rename_i d _ hs
            injection h with h; subst h
            simp only [inScope_iff] at hs
            exact domOK_weekday d (by omega) (by omega)
          · cases h
        · cases h
      · exact domOK_of_good (parseField_good h)

/-- the field produced by `buildFields` for the day of week (`add(-1)`) -/
def shiftDow (f : Field) : Field := { f with values := f.values.map (· - 1) }

theorem dowOK_last (w : Int) (_h1 : 1 ≤ w) (h2 : w ≤ 7) :
    dowOK (shiftDow { values := [w.toNat], n := -1 }) = true := by
  simp [dowOK, shiftDow]
  omega

theorem dowOK_hash (w n : Int) (h1 : 1 ≤ w) (h2 : w ≤ 7) (h3 : 1 ≤ n) (h4 : n ≤ 5) :
    dowOK (shiftDow { values := [w.toNat], n := n }) = true := by
  have a0 : ¬ (n = 0) := by omega
  simp [dowOK, shiftDow, a0]
  omega

theorem dowOK_of_good {f : Field} (h : f.n = 0 ∧ Good 1 7 f.values) : dowOK (shiftDow f) = true := by
  have hs : Sorted (f.values.map (· - 1)) = true := by
    rw [sorted_iff_pairwise, List.pairwise_map]
    exact List.Pairwise.imp (fun {a b} hab => by omega) h.2.1
  have ha : allIn 0 6 (f.values.map (· - 1)) = true := by
    rw [allIn_iff]
    intro v hv
    simp only [List.mem_map] at hv
    obtain ⟨w, hw, rfl⟩ := hv
    have := h.2.2 w hw
    omega
  simp [dowOK, shiftDow, h.1, hs, ha]

theorem parseDow_dowOK {fld : Str} {f : Field} (h : parseDow fld ⟨1, 7⟩ = some f) :
    dowOK (shiftDow f) = true := by
  unfold parseDow at h
  split at h
  · simp only at h
    split at h
    · injection h with h; subst h; rfl
    · split at h
      · split at h
        · rename_i w _ hs
          injection h with h; subst h
          simp only [inScope_iff] at hs
          exact dowOK_last w (by omega) (by omega)
        · cases h
      · cases h
  · split at h
    · split at h
      · split at h
        · split at h
          · rename_i w n _ _ hs
            injection h with h; subst h
            simp only [Bool.and_eq_true, inScope_iff] at hs
            exact dowOK_hash w n (by omega) (by omega) (by omega) (by omega)
          · cases h
        · cases h
      · cases h
    · exact dowOK_of_good (parseField_good h)

/-- an unrestricted day token parses to the unrestricted field -/
theorem anyDay_iff (t : Str) : anyDay t = true ↔ t = ['?'] ∨ t = ['*'] := by
  simp [anyDay]

theorem parseDom_anyDay {t : Str} {f : Field} (ha : anyDay t = true) (h : parseDom t ⟨1, 31⟩ = some f) :
    f.values = [] ∧ f.n = 0 := by
  rcases (anyDay_iff t).1 ha with rfl | rfl
  · have : parseDom ['?'] ⟨1, 31⟩ = some { values := [] } := by decide
    rw [this] at h; injection h with h; subst h; exact ⟨rfl, rfl⟩
  · have : parseDom ['*'] ⟨1, 31⟩ = some { values := [] } := by decide
    rw [this] at h; injection h with h; subst h; exact ⟨rfl, rfl⟩

theorem parseDow_anyDay {t : Str} {f : Field} (ha : anyDay t = true) (h : parseDow t ⟨1, 7⟩ = some f) :
    f.values = [] ∧ f.n = 0 := by
  rcases (anyDay_iff t).1 ha with rfl | rfl
  · have : parseDow ['?'] ⟨1, 7⟩ = some { values := [] } := by decide
    rw [this] at h; injection h with h; subst h; exact ⟨rfl, rfl⟩
  · have : parseDow ['*'] ⟨1, 7⟩ = some { values := [] } := by decide
    rw [this] at h; injection h with h; subst h; exact ⟨rfl, rfl⟩

/-! ## text: `splitOn` -/

theorem splitOn_ne_nil (sep : Char) (s : Str) : splitOn sep s ≠ [] := by
  induction s with
  | nil => simp [splitOn]
  | cons c cs ih =>
    simp only [splitOn]
    split
    · simp
    · split <;> simp

/-- `strings.Split` distributes over a separator occurrence -/
theorem splitOn_append_sep (sep : Char) (x y : Str) :
    splitOn sep (x ++ sep :: y) = splitOn sep x ++ splitOn sep y := by
  induction x with
  | nil => simp [splitOn]
  | cons c cs ih =>
    simp only [List.cons_append, splitOn]
    split
    · simp [ih]
    · rw [ih]
      cases hs : splitOn sep cs with
      | nil => exact absurd hs (splitOn_ne_nil _ _)
      | cons h t => simp

theorem splitOn_noSep (sep : Char) (x : Str) (h : ∀ c ∈ x, c ≠ sep) : splitOn sep x = [x] := by
  induction x with
  | nil => rfl
  | cons c cs ih =>
    have hc : c ≠ sep := h c (by simp)
    simp only [splitOn, hc, if_false]
    rw [ih (fun d hd => h d (by simp [hd]))]

theorem splitOn_noSep' (sep : Char) (x : Str) (h : ¬ (x.contains sep = true)) : splitOn sep x = [x] := by
  apply splitOn_noSep
  intro c hc hcs
  subst hcs
  exact h (by simpa using hc)

theorem splitOn_two (sep : Char) (x y : Str) (hx : ¬ (x.contains sep = true)) (hy : ¬ (y.contains sep = true)) :
    splitOn sep (x ++ sep :: y) = [x, y] := by
  rw [splitOn_append_sep, splitOn_noSep' sep x hx, splitOn_noSep' sep y hy]; rfl

/-- no token of a split contains the separator -/
theorem splitOn_no_sep_mem (sep : Char) (s : Str) : ∀ t ∈ splitOn sep s, ∀ c ∈ t, c ≠ sep := by
  induction s with
  | nil => simp [splitOn]
  | cons c cs ih =>
    simp only [splitOn]
    split
    · intro t ht
      rcases List.mem_cons.1 ht with rfl | ht
      · simp
      · exact ih t ht
    · rename_i hc
      cases hs : splitOn sep cs with
      | nil => exact absurd hs (splitOn_ne_nil _ _)
      | cons h tl =>
        rw [hs] at ih
        intro t ht
        rcases List.mem_cons.1 ht with rfl | ht
        · intro d hd
          rcases List.mem_cons.1 hd with rfl | hd
          · exact hc
          · exact ih h (by simp) d hd
        · exact ih t (by simp [ht])

/-! ## the token-level core of `parseExpr` -/

/-- the tokens `parseCronExpression` works on -/
def tokensOf (expr : Str) : List Str :=
  match specialTable.lookup expr with
  | some v => splitOn ' ' v
  | none => splitOn ' ' expr

/-- `parseCronExpression` after tokenisation -/
def parseTokens (bs : Bounds) (tokens : List Str) : Option Fields :=
  if tokens.length < 6 ∨ tokens.length > 7 then none else
  let tokens := if tokens.length = 6 then tokens ++ [['*']] else tokens
  if !anyDay (tokens.getD 3 []) && !anyDay (tokens.getD 5 []) then none
  else buildFields bs tokens

theorem parseExpr_eq (bs : Bounds) (expr : Str) : parseExpr bs expr = parseTokens bs (tokensOf expr) := rfl

theorem tokensOf_of_lookup_none {expr : Str} (h : specialTable.lookup expr = none) :
    tokensOf expr = splitOn ' ' expr := by
  simp [tokensOf, h]

/-- a six-token expression is parsed like the seven-token one with year `*` -/
theorem parseTokens_six (bs : Bounds) (tokens : List Str) (h : tokens.length = 6) :
    parseTokens bs tokens = parseTokens bs (tokens ++ [['*']]) := by
  have h7 : (tokens ++ [['*']]).length = 7 := by simp [h]
  unfold parseTokens
  simp only [h, h7]
  simp

theorem sorted_range60 : Sorted (List.range 60) = true := by decide
theorem allIn_range60 : allIn 0 59 (List.range 60) = true := by decide

theorem finish_wellFormed {f : Fields} (h : WellFormed f = true) : WellFormed (finish f) = true := by
  unfold finish
  split
  · simp only [WellFormed, Bool.and_eq_true] at h ⊢
    simp at h
    simp [h, sorted_range60, allIn_range60]
  · exact h

theorem buildFields_wellFormed {tokens : List Str} {f : Fields}
    (hd : anyDay (tokens.getD 3 []) = true ∨ anyDay (tokens.getD 5 []) = true)
    (h : buildFields {} tokens = some f) : WellFormed f = true := by
  unfold buildFields at h
  split at h
  · rename_i t0 t1 t2 t3 t4 t5 t6
    split at h
    · rename_i f0 f1 f2 f3 f4 f5 f6 h0 h1 h2 h3 h4 h5 h6
      injection h with h; subst h
      have g0 : f0.n = 0 ∧ Good 0 59 f0.values := parseField_good h0
      have g1 : f1.n = 0 ∧ Good 0 59 f1.values := parseField_good h1
      have g2 : f2.n = 0 ∧ Good 0 23 f2.values := parseField_good h2
      have g3 : domOK f3 = true := parseDom_domOK h3
      have g4 : f4.n = 0 ∧ Good 1 12 f4.values := parseField_good h4
      have g5 : dowOK (shiftDow f5) = true := parseDow_dowOK h5
      have g6 : f6.n = 0 ∧ Good 1970 3940 f6.values := parseField_good h6
      have gd : (f3.values = [] ∧ f3.n = 0) ∨ (f5.values = [] ∧ f5.n = 0) := by
        rcases hd with hd | hd
        · exact Or.inl (parseDom_anyDay (by simpa using hd) h3)
        · exact Or.inr (parseDow_anyDay (by simpa using hd) h5)
      have gd' : ((f3.values == [] && decide (f3.n = 0)) ||
          ((f5.values.map (· - 1)) == [] && decide (f5.n = 0))) = true := by
        rcases gd with ⟨a, b⟩ | ⟨a, b⟩
        · simp [a, b]
        · simp [a, b]
      unfold shiftDow at g5
      simp only [WellFormed, Bool.and_eq_true]
      simp only [g0.1, g1.1, g2.1, g4.1, g6.1, g0.2.sorted, g1.2.sorted, g2.2.sorted, g4.2.sorted,
        g6.2.sorted, g0.2.allIn, g1.2.allIn, g2.2.allIn, g4.2.allIn, g6.2.allIn, g3, g5, gd',
        decide_true, and_self]
    · cases h
  · cases h

theorem parseTokens_wellFormed {tokens : List Str} {f : Fields} (h : parseTokens {} tokens = some f) :
    WellFormed f = true := by
  unfold parseTokens at h
  split at h
  · cases h
  · dsimp only at h
    generalize (if tokens.length = 6 then tokens ++ [['*']] else tokens) = toks at h
    split at h
    · cases h
    · rename_i hd
      refine buildFields_wellFormed ?_ h
      simp only [Bool.and_eq_true, Bool.not_eq_true', not_and, Bool.not_eq_false] at hd
      cases ha : anyDay (toks.getD 3 [])
      · exact Or.inr (hd ha)
      · exact Or.inl rfl

/-! ## characters, `atoi`, decimal rendering -/

theorem char_le_iff (a b : Char) : a ≤ b ↔ a.toNat ≤ b.toNat := by
  rw [Char.le_def, UInt32.le_iff_toNat_le]; rfl

theorem isDigit_iff (c : Char) : isDigit c = true ↔ 48 ≤ c.toNat ∧ c.toNat ≤ 57 := by
  simp [isDigit, char_le_iff]

theorem isDigit_eq (c : Char) : isDigit c = c.isDigit := by
  rw [Bool.eq_iff_iff, isDigit_iff]
  unfold Char.isDigit
  simp only [ge_iff_le, Bool.and_eq_true, decide_eq_true_eq, UInt32.le_iff_toNat_le]
  rfl

theorem digitsVal_eq (l : Str) (acc : Nat) : digitsVal l acc = Nat.ofDigitChars 10 l acc := by
  induction l generalizing acc with
  | nil => simp [digitsVal]
  | cons c cs ih => rw [digitsVal, Nat.ofDigitChars_cons, ih, Nat.mul_comm]

/-- `atoi` on a string that does not start with a sign -/
theorem atoi_cons_of_not_sign (c : Char) (cs : Str) (h1 : c ≠ '-') (h2 : c ≠ '+') :
    atoi (c :: cs) =
      if (c :: cs).all isDigit = true then
        (if digitsVal (c :: cs) 0 ≤ maxInt64 then some (digitsVal (c :: cs) 0 : Int) else none)
      else none := by
  unfold atoi
  split
  rename_i neg ds heq
  split at heq
  · rename_i heq'; injection heq' with heq' _; exact absurd heq' h1
  · rename_i heq'; injection heq' with heq' _; exact absurd heq' h2
  · injection heq with e1 e2; subst e1; subst e2
    by_cases hall : (c :: cs).all isDigit = true
    · simp [hall]
    · simp [hall]

theorem atoi_digits (ds : Str) (hne : ds ≠ []) (hall : ds.all isDigit = true)
    (hv : digitsVal ds 0 ≤ maxInt64) : atoi ds = some (digitsVal ds 0 : Int) := by
  cases ds with
  | nil => exact absurd rfl hne
  | cons c cs =>
    have hc : isDigit c = true := by simp at hall; exact hall.1
    have h1 : c ≠ '-' := by rintro rfl; revert hc; decide
    have h2 : c ≠ '+' := by rintro rfl; revert hc; decide
    rw [atoi_cons_of_not_sign c cs h1 h2]
    simp [hall, hv]

/-- decimal rendering (`strconv.Itoa` on a non-negative number) -/
def renderNat (n : Nat) : Str := Nat.toDigits 10 n

theorem renderNat_all_digit (n : Nat) : (renderNat n).all isDigit = true := by
  rw [List.all_eq_true]
  intro c hc
  rw [isDigit_eq]
  exact Nat.isDigit_of_mem_toDigits (by decide) (by decide) hc

theorem digitsVal_renderNat (n : Nat) : digitsVal (renderNat n) 0 = n := by
  rw [digitsVal_eq]; exact Nat.ofDigitChars_ten_toDigits

theorem atoi_renderNat (n : Nat) (h : n ≤ maxInt64) : atoi (renderNat n) = some (n : Int) := by
  have := atoi_digits (renderNat n) Nat.toDigits_ne_nil (renderNat_all_digit n)
    (by rw [digitsVal_renderNat]; exact h)
  rw [digitsVal_renderNat] at this
  exact this

theorem normalize_renderNat (names : List Str) (n : Nat) (h : n ≤ maxInt64) :
    normalize names (renderNat n) = some (n : Int) := by
  unfold normalize; rw [atoi_renderNat n h]

/-! ## separators -/

/-- no list / step / range separator -/
def noSep (v : Str) : Bool := !v.contains ',' && !v.contains '/' && !v.contains '-'

theorem noSep_iff (v : Str) : noSep v = true ↔
    ¬ (v.contains ',' = true) ∧ ¬ (v.contains '/' = true) ∧ ¬ (v.contains '-' = true) := by
  simp [noSep, and_assoc]

theorem contains_append_sep (a z : Str) (sep c : Char) :
    (a ++ sep :: z).contains c = true ↔ (a.contains c = true ∨ c = sep ∨ z.contains c = true) := by
  simp [List.contains_eq_mem, List.mem_append]

theorem not_contains_of_all_digit (v : Str) (h : v.all isDigit = true) (c : Char) (hc : isDigit c = false) :
    ¬ (v.contains c = true) := by
  intro hm
  rw [List.all_eq_true] at h
  have := h c (by simpa using hm)
  rw [hc] at this; cases this

theorem noSep_of_all_digit (v : Str) (h : v.all isDigit = true) : noSep v = true :=
  (noSep_iff v).2 ⟨not_contains_of_all_digit v h _ (by decide), not_contains_of_all_digit v h _ (by decide),
    not_contains_of_all_digit v h _ (by decide)⟩

theorem noSep_renderNat (n : Nat) : noSep (renderNat n) = true := noSep_of_all_digit _ (renderNat_all_digit n)

theorem not_wild_of_all_digit (v : Str) (h : v.all isDigit = true) : v ≠ ['*'] ∧ v ≠ ['?'] := by
  constructor
  · rintro rfl; revert h; decide
  · rintro rfl; revert h; decide

/-! ## names -/

theorem indexOf?_of_nodup (names : List Str) (i : Nat) (nm : Str) (h : names[i]? = some nm)
    (hnodup : names.Nodup) : indexOf? names nm = some i := by
  induction names generalizing i with
  | nil => simp at h
  | cons x t ih =>
    have hn := List.nodup_cons.1 hnodup
    cases i with
    | zero =>
      simp at h; subst h; simp [indexOf?]
    | succ j =>
      simp at h
      have hmem : nm ∈ t := List.mem_of_getElem? h
      have hx : x ≠ nm := by rintro rfl; exact hn.1 hmem
      simp [indexOf?, hx, ih j h hn.2]

def isUpperAZ (c : Char) : Bool := 'A' ≤ c && c ≤ 'Z'

theorem isUpperAZ_iff (c : Char) : isUpperAZ c = true ↔ 65 ≤ c.toNat ∧ c.toNat ≤ 90 := by
  simp [isUpperAZ, char_le_iff]

/-- whatever upper-cases to an ASCII capital is itself a letter(-like) character: code ≥ 65, in
    particular no digit, sign, separator, wildcard or blank -/
theorem ge65_of_upperChar (c : Char) (h : isUpperAZ (upperChar c) = true) : 65 ≤ c.toNat := by
  unfold upperChar at h
  split at h
  · rename_i hc
    simp only [Bool.and_eq_true, decide_eq_true_eq, char_le_iff] at hc
    have : 'a'.toNat = 97 := rfl
    omega
  · split at h
    · omega
    · split at h
      · omega
      · exact ((isUpperAZ_iff c).1 h).1

/-- every character has code ≥ 65 (letters and beyond) -/
def Wordy (v : Str) : Prop := ∀ c ∈ v, 65 ≤ c.toNat

theorem wordy_of_map_upper (v nm : Str) (hv : v.map upperChar = nm) (hall : nm.all isUpperAZ = true) :
    Wordy v := by
  intro c hc
  apply ge65_of_upperChar
  rw [List.all_eq_true] at hall
  apply hall
  rw [← hv]
  exact List.mem_map_of_mem hc

theorem Wordy.not_mem {v : Str} (h : Wordy v) (c : Char) (hc : c.toNat < 65) : ¬ (v.contains c = true) := by
  intro hm
  have := h c (by simpa using hm)
  omega

theorem atoi_wordy (v : Str) (h : Wordy v) : atoi v = none := by
  cases v with
  | nil => decide
  | cons c cs =>
    have hc : 65 ≤ c.toNat := h c (by simp)
    have h1 : c ≠ '-' := by rintro rfl; revert hc; decide
    have h2 : c ≠ '+' := by rintro rfl; revert hc; decide
    have h3 : isDigit c = false := by
      rw [Bool.eq_false_iff]; intro hd; have := (isDigit_iff c).1 hd; omega
    rw [atoi_cons_of_not_sign c cs h1 h2]
    simp [h3]

theorem Wordy.noSep {v : Str} (h : Wordy v) : noSep v = true :=
  (noSep_iff v).2 ⟨h.not_mem _ (by decide), h.not_mem _ (by decide), h.not_mem _ (by decide)⟩

theorem Wordy.not_wild {v : Str} (h : Wordy v) : v ≠ ['*'] ∧ v ≠ ['?'] := by
  constructor
  · rintro rfl; have := h '*' (by simp); revert this; decide
  · rintro rfl; have := h '?' (by simp); revert this; decide

/-- the glossary entries from index 1 on are non-empty words of ASCII capitals -/
def glossaryOK (names : List Str) : Bool :=
  (names.drop 1).all (fun nm => nm.all isUpperAZ && nm != []) 

theorem glossaryOK_get {names : List Str} (h : glossaryOK names = true) {i : Nat} {nm : Str}
    (hi : 0 < i) (hnm : names[i]? = some nm) : nm.all isUpperAZ = true ∧ nm ≠ [] := by
  unfold glossaryOK at h
  rw [List.all_eq_true] at h
  have hmem : nm ∈ names.drop 1 := by
    apply List.mem_of_getElem? (i := i - 1)
    rw [List.getElem?_drop]
    have : 1 + (i - 1) = i := by omega
    rw [this]; exact hnm
  have := h nm hmem
  simpa using this

/-! ## meaning equations for the generic field parser -/

/-- meaning of a single-value field -/
def singleOf (b : Bound) (x : Option Int) : Option Field :=
  match x with
  | some v => if inScope v b.lower b.upper then some { values := [v.toNat] } else none
  | none => none

theorem parseField_single (v : Str) (b : Bound) (names : List Str) (hw : v ≠ ['*'] ∧ v ≠ ['?'])
    (hs : noSep v = true) : parseField v b names = singleOf b (normalize names v) := by
  obtain ⟨h1, h2, h3⟩ := (noSep_iff v).1 hs
  unfold parseField singleOf
  simp only [hw.1, hw.2, or_self, if_false, h1, h2, h3]
  rfl

/-- meaning of a range field -/
def rangeOf (b : Bound) (x y : Option Int) : Option (List Nat) :=
  match x, y with
  | some frm, some to =>
    if inScope frm b.lower b.upper && inScope to b.lower b.upper then fillRange frm.toNat to.toNat else none
  | _, _ => none

theorem parseRange_eq (a z : Str) (b : Bound) (names : List Str)
    (ha : ¬ (a.contains '-' = true)) (hz : ¬ (z.contains '-' = true)) :
    parseRange (a ++ '-' :: z) b names = rangeOf b (normalize names a) (normalize names z) := by
  unfold parseRange rangeOf
  rw [splitOn_two '-' a z ha hz]
  rfl

theorem parseField_range (a z : Str) (b : Bound) (names : List Str)
    (ha : noSep a = true) (hz : noSep z = true) :
    parseField (a ++ '-' :: z) b names =
      (rangeOf b (normalize names a) (normalize names z)).map (fun v => { values := v }) := by
  obtain ⟨a1, a2, a3⟩ := (noSep_iff a).1 ha
  obtain ⟨z1, z2, z3⟩ := (noSep_iff z).1 hz
  have hd : (a ++ '-' :: z).contains '-' = true := by simp
  have w1 : a ++ '-' :: z ≠ ['*'] := by intro h; rw [h] at hd; revert hd; decide
  have w2 : a ++ '-' :: z ≠ ['?'] := by intro h; rw [h] at hd; revert hd; decide
  have c1 : ¬ ((a ++ '-' :: z).contains ',' = true) := by
    simp only [contains_append_sep, not_or]; exact ⟨a1, by decide, z1⟩
  have c2 : ¬ ((a ++ '-' :: z).contains '/' = true) := by
    simp only [contains_append_sep, not_or]; exact ⟨a2, by decide, z2⟩
  unfold parseField
  simp only [w1, w2, or_self, if_false, c1, c2, hd, if_true, Bool.false_eq_true,
    parseRange_eq a z b names a3 z3]

/-- the `from`/`to` pair of a step field, as computed by `parseStepField` from the text before `/` -/
def stepFromTo (b : Bound) (names : List Str) (t0 : Str) : Option (Int × Int) :=
  if t0 = ['*'] then some (b.lower, b.upper)
  else if t0.contains '-' then
    match splitOn '-' t0 with
    | [a, z] =>
      match normalize names a, normalize names z with
      | some frm, some to => some (frm, to)
      | _, _ => none
    | _ => none
  else (normalize names t0).map (fun frm => (frm, (b.upper : Int)))

/-- meaning of a step field -/
def stepOf (b : Bound) (fromTo : Option (Int × Int)) (step : Option Int) : Option (List Nat) :=
  match fromTo, step with
  | some (frm, to), some step =>
    if inScope frm b.lower b.upper && inScope step 1 b.upper && inScope to b.lower b.upper
    then fillStep frm.toNat step.toNat to.toNat else none
  | _, _ => none

theorem parseStep_eq (t0 t1 : Str) (b : Bound) (names : List Str)
    (h0 : ¬ (t0.contains '/' = true)) (h1 : ¬ (t1.contains '/' = true)) :
    parseStep (t0 ++ '/' :: t1) b names = stepOf b (stepFromTo b names t0) (atoi t1) := by
  unfold parseStep stepOf stepFromTo
  rw [splitOn_two '/' t0 t1 h0 h1]
  rfl

theorem stepFromTo_star (b : Bound) (names : List Str) :
    stepFromTo b names ['*'] = some ((b.lower : Int), (b.upper : Int)) := by
  simp [stepFromTo]

theorem stepFromTo_from (b : Bound) (names : List Str) (a : Str) (hw : a ≠ ['*'])
    (ha : ¬ (a.contains '-' = true)) :
    stepFromTo b names a = (normalize names a).map (fun frm => (frm, (b.upper : Int))) := by
  unfold stepFromTo
  simp only [hw, if_false, ha, Bool.false_eq_true]

theorem stepFromTo_range (b : Bound) (names : List Str) (a z : Str)
    (ha : ¬ (a.contains '-' = true)) (hz : ¬ (z.contains '-' = true)) :
    stepFromTo b names (a ++ '-' :: z) =
      (match normalize names a, normalize names z with
       | some frm, some to => some (frm, to)
       | _, _ => none) := by
  have hd : (a ++ '-' :: z).contains '-' = true := by simp
  have w1 : a ++ '-' :: z ≠ ['*'] := by intro h; rw [h] at hd; revert hd; decide
  unfold stepFromTo
  simp only [w1, if_false, hd, if_true, splitOn_two '-' a z ha hz]

theorem parseField_step (t0 t1 : Str) (b : Bound) (names : List Str)
    (c0 : ¬ (t0.contains ',' = true)) (c1 : ¬ (t1.contains ',' = true))
    (h0 : ¬ (t0.contains '/' = true)) (h1 : ¬ (t1.contains '/' = true)) :
    parseField (t0 ++ '/' :: t1) b names =
      (stepOf b (stepFromTo b names t0) (atoi t1)).map (fun v => { values := v }) := by
  have hd : (t0 ++ '/' :: t1).contains '/' = true := by simp
  have w1 : t0 ++ '/' :: t1 ≠ ['*'] := by intro h; rw [h] at hd; revert hd; decide
  have w2 : t0 ++ '/' :: t1 ≠ ['?'] := by intro h; rw [h] at hd; revert hd; decide
  have cc : ¬ ((t0 ++ '/' :: t1).contains ',' = true) := by
    simp only [contains_append_sep, not_or]; exact ⟨c0, by decide, c1⟩
  unfold parseField
  simp only [w1, w2, or_self, if_false, cc, hd, if_true, Bool.false_eq_true,
    parseStep_eq t0 t1 b names h0 h1]

/-! ## list members -/

theorem mapM'_forall {α β} {f : α → Option β} {l : List α} {r : List β} (h : mapM' f l = some r) :
    ∀ x ∈ l, ∃ y ∈ r, f x = some y := by
  induction l generalizing r with
  | nil => simp
  | cons a t ih =>
    simp only [mapM'] at h
    split at h
    · rename_i b bs hb hbs
      injection h with h; subst h
      intro x hx
      rcases List.mem_cons.1 hx with rfl | hx
      · exact ⟨b, by simp, hb⟩
      · obtain ⟨y, hy, hfy⟩ := ih hbs x hx
        exact ⟨y, by simp [hy], hfy⟩
    · cases h

/-- what `parseListField` does with one comma-separated member -/
def parseMember (t : Str) (b : Bound) (names : List Str) : Option (List Nat) :=
  if t.contains '/' then parseStep t b names
  else if t.contains '-' then parseRange t b names
  else match normalize names t with
    | some v => if inScope v b.lower b.upper then some [v.toNat] else none
    | none => none

/-- a comma-free, non-wildcard field on its own is parsed exactly like a list member -/
theorem parseField_eq_member (t : Str) (b : Bound) (names : List Str) (hw : t ≠ ['*'] ∧ t ≠ ['?'])
    (hc : ¬ (t.contains ',' = true)) :
    parseField t b names = (parseMember t b names).map (fun v => { values := v }) := by
  unfold parseField parseMember
  simp only [hw.1, hw.2, or_self, if_false, hc, Bool.false_eq_true]
  by_cases h1 : t.contains '/' = true
  · simp only [h1, if_true]
  · by_cases h2 : t.contains '-' = true
    · simp only [h1, h2, if_true, Bool.false_eq_true, if_false]
    · simp only [h1, h2, Bool.false_eq_true, if_false]
      cases normalize names t with
      | none => rfl
      | some v =>
        simp only
        split <;> rfl

/-- a list is accepted only if every member is -/
theorem parseList_members {fld : Str} {b : Bound} {names : List Str} {l : List Nat}
    (h : parseList fld b names = some l) :
    ∀ t ∈ splitOn ',' fld, (parseMember t b names).isSome = true := by
  unfold parseList at h
  simp only at h
  split at h
  · cases h
  · rename_i lits hl
    split at h
    · cases h
    · rename_i hall
      split at h
      · rename_i sv rv hsv hrv
        intro t ht
        unfold parseMember
        by_cases h1 : '/' ∈ t
        · have h1c : t.contains '/' = true := by simpa using h1
          simp only [h1c, if_true]
          obtain ⟨y, _, hy⟩ := mapM'_forall hsv t (by simp [List.mem_filter, ht, h1])
          simp [hy]
        · have h1c : t.contains '/' = false := by simpa using h1
          by_cases h2 : '-' ∈ t
          · have h2c : t.contains '-' = true := by simpa using h2
            simp only [h1c, h2c, if_true, Bool.false_eq_true, if_false]
            obtain ⟨y, _, hy⟩ := mapM'_forall hrv t (by simp [List.mem_filter, ht, h1, h2])
            simp [hy]
          · have h2c : t.contains '-' = false := by simpa using h2
            simp only [h1c, h2c, Bool.false_eq_true, if_false]
            obtain ⟨y, hyl, hy⟩ := mapM'_forall hl t (by simp [List.mem_filter, ht, h1, h2])
            simp only [Bool.not_eq_true, Bool.not_eq_false', List.all_eq_true] at hall
            simp [hy, hall y hyl]
      · cases h

/-! ## whitespace normalisation -/

/-- a (possibly empty) run of RE2 `\s` characters -/
def AllReSpace (w : Str) : Prop := ∀ c ∈ w, isReSpace c = true

theorem AllReSpace.tail {c : Char} {w : Str} (h : AllReSpace (c :: w)) : AllReSpace w :=
  fun d hd => h d (by simp [hd])

theorem collapseAux_true_run (w y : Str) (hw : AllReSpace w) :
    collapseAux true (w ++ y) = collapseAux true y := by
  induction w with
  | nil => rfl
  | cons c w ih =>
    have hc : isReSpace c = true := hw c (by simp)
    simp only [List.cons_append, collapseAux, hc, if_true]
    exact ih hw.tail

theorem collapseAux_run (f : Bool) (w y : Str) (hne : w ≠ []) (hw : AllReSpace w) :
    collapseAux f (w ++ y) = (if f then [] else [' ']) ++ collapseAux true y := by
  cases w with
  | nil => exact absurd rfl hne
  | cons c w =>
    have hc : isReSpace c = true := hw c (by simp)
    simp only [List.cons_append, collapseAux, hc, if_true]
    rw [collapseAux_true_run w y hw.tail]
    cases f <;> simp

theorem collapseAux_between (f : Bool) (x y w1 w2 : Str) (h1 : w1 ≠ []) (h2 : w2 ≠ [])
    (a1 : AllReSpace w1) (a2 : AllReSpace w2) :
    collapseAux f (x ++ (w1 ++ y)) = collapseAux f (x ++ (w2 ++ y)) := by
  induction x generalizing f with
  | nil => simp only [List.nil_append]; rw [collapseAux_run f w1 y h1 a1, collapseAux_run f w2 y h2 a2]
  | cons c x ih =>
    simp only [List.cons_append, collapseAux]
    split
    · split
      · exact ih true
      · rw [ih true]
    · rw [ih false]

theorem trimExpr_between (x y w1 w2 : Str) (h1 : w1 ≠ []) (h2 : w2 ≠ [])
    (a1 : AllReSpace w1) (a2 : AllReSpace w2) :
    trimExpr (x ++ w1 ++ y) = trimExpr (x ++ w2 ++ y) := by
  unfold trimExpr collapseSpace
  rw [List.append_assoc, List.append_assoc, collapseAux_between false x y w1 w2 h1 h2 a1 a2]

theorem isUniSpace_space : isUniSpace ' ' = true := by decide

theorem dropWhile_collapseAux (x : Str) :
    (collapseAux true x).dropWhile isUniSpace = (collapseAux false x).dropWhile isUniSpace := by
  cases x with
  | nil => rfl
  | cons c x =>
    simp only [collapseAux]
    split
    · simp [isUniSpace_space]
    · rfl

theorem trimExpr_leading (w x : Str) (hw : AllReSpace w) : trimExpr (w ++ x) = trimExpr x := by
  cases hw0 : w with
  | nil => rfl
  | cons c w' =>
    subst hw0
    unfold trimExpr collapseSpace trimSpace
    rw [collapseAux_run false (c :: w') x (by simp) hw]
    simp only [Bool.false_eq_true, if_false, List.singleton_append, List.dropWhile_cons,
      isUniSpace_space, if_true]
    rw [dropWhile_collapseAux]

theorem collapseAux_trailing (f : Bool) (x w : Str) (hw : AllReSpace w) :
    ∃ e, (e = [] ∨ e = [' ']) ∧ collapseAux f (x ++ w) = collapseAux f x ++ e := by
  induction x generalizing f with
  | nil =>
    by_cases hne : w = []
    · subst hne; exact ⟨[], Or.inl rfl, rfl⟩
    · have := collapseAux_run f w [] hne hw
      simp only [List.append_nil] at this
      refine ⟨if f then [] else [' '], ?_, ?_⟩
      · cases f <;> simp
      · simp only [List.nil_append, this, collapseAux, List.append_nil]
  | cons c x ih =>
    simp only [List.cons_append, collapseAux]
    split
    · split
      · exact ih true
      · obtain ⟨e, he, h⟩ := ih true
        exact ⟨e, he, by rw [h]; rfl⟩
    · obtain ⟨e, he, h⟩ := ih false
      exact ⟨e, he, by rw [h]; rfl⟩

theorem trimSpace_append_space (A : Str) : trimSpace (A ++ [' ']) = trimSpace A := by
  unfold trimSpace
  rw [List.dropWhile_append]
  split
  · rename_i hemp
    have : A.dropWhile isUniSpace = [] := by simpa using hemp
    rw [this]
    simp [isUniSpace_space]
  · simp [isUniSpace_space]

theorem trimExpr_trailing (x w : Str) (hw : AllReSpace w) : trimExpr (x ++ w) = trimExpr x := by
  unfold trimExpr collapseSpace
  obtain ⟨e, he, h⟩ := collapseAux_trailing false x w hw
  rw [h]
  rcases he with rfl | rfl
  · simp
  · exact trimSpace_append_space _

/-! ## the list field, exactly -/

section ListMeaning
open List

theorem perm_insertSorted (x : Nat) (l : List Nat) : insertSorted x l ~ x :: l := by
  induction l with
  | nil => exact Perm.refl _
  | cons h t ih =>
    simp only [insertSorted]
    split
    · exact Perm.refl _
    · exact ((Perm.cons h ih).trans (Perm.swap x h t))

theorem perm_sortNat (l : List Nat) : sortNat l ~ l := by
  induction l with
  | nil => exact Perm.refl _
  | cons a t ih =>
    have : sortNat (a :: t) = insertSorted a (sortNat t) := rfl
    rw [this]
    exact (perm_insertSorted a _).trans (Perm.cons a ih)

/-- `sort.Ints` depends only on the multiset of its input -/
theorem sortNat_perm {l₁ l₂ : List Nat} (h : l₁ ~ l₂) : sortNat l₁ = sortNat l₂ := by
  apply Perm.eq_of_pairwise (le := (· ≤ ·)) (fun a b _ _ h1 h2 => Nat.le_antisymm h1 h2)
    (pairwise_sortNat l₁) (pairwise_sortNat l₂)
  exact (perm_sortNat l₁).trans (h.trans (perm_sortNat l₂).symm)

theorem mapM'_eq_none {α β} {f : α → Option β} {l : List α} (h : mapM' f l = none) :
    ∃ x ∈ l, f x = none := by
  induction l with
  | nil => simp [mapM'] at h
  | cons a t ih =>
    cases hfa : f a with
    | none => exact ⟨a, by simp, hfa⟩
    | some b =>
      cases ht : mapM' f t with
      | none =>
        obtain ⟨x, hx, hfx⟩ := ih ht
        exact ⟨x, by simp [hx], hfx⟩
      | some bs => simp [mapM', hfa, ht] at h

theorem mapM'_of_forall {α β} {f : α → Option β} {l : List α} (d : β)
    (h : ∀ x ∈ l, (f x).isSome = true) : mapM' f l = some (l.map (fun x => (f x).getD d)) := by
  induction l with
  | nil => rfl
  | cons a t ih =>
    have ha := h a (by simp)
    obtain ⟨y, hy⟩ := Option.isSome_iff_exists.1 ha
    simp only [mapM', hy, ih (fun x hx => h x (by simp [hx])), List.map_cons, Option.getD_some]

theorem mapM'_congr {α β} {f g : α → Option β} {l : List α} (h : ∀ x ∈ l, f x = g x) :
    mapM' f l = mapM' g l := by
  induction l with
  | nil => rfl
  | cons a t ih =>
    simp only [mapM', h a (by simp), ih (fun x hx => h x (by simp [hx]))]

theorem flatten_map_singleton {α β} (l : List α) (g : α → β) : (l.map (fun x => [g x])).flatten = l.map g := by
  induction l with
  | nil => rfl
  | cons a t ih => simp [ih]

/-- **meaning of a list field**: every comma-separated member is parsed on its own
(`parseMember`: step, range or single value), and the result is the sorted union -/
theorem parseList_eq (fld : Str) (b : Bound) (names : List Str) :
    parseList fld b names =
      (mapM' (fun t => parseMember t b names) (splitOn ',' fld)).map (fun vs => sortNat vs.flatten) := by
  cases hm : mapM' (fun t => parseMember t b names) (splitOn ',' fld) with
  | none =>
    obtain ⟨x, hx, hxn⟩ := mapM'_eq_none hm
    cases hp : parseList fld b names with
    | none => rfl
    | some l =>
      have := parseList_members hp x hx
      rw [hxn] at this; cases this
  | some vs =>
    have hsome : ∀ x ∈ splitOn ',' fld, (parseMember x b names).isSome = true := by
      intro x hx
      obtain ⟨y, _, hy⟩ := mapM'_forall hm x hx
      simp [hy]
    have hvs := mapM'_of_forall [] hsome
    rw [hm] at hvs
    injection hvs with hvs
    -- abbreviations
    generalize hT : splitOn ',' fld = T at *
    let g : Str → List Nat := fun x => (parseMember x b names).getD []
    let nz : Str → Int := fun x => (normalize names x).getD 0
    -- steps
    have hsv : mapM' (fun s => parseStep s b names) (T.filter (fun v => v.contains '/')) =
        some ((T.filter (fun v => v.contains '/')).map g) := by
      rw [mapM'_congr (g := fun t => parseMember t b names)]
      · exact mapM'_of_forall [] (fun x hx => hsome x (List.mem_filter.1 hx).1)
      · intro x hx
        have := (List.mem_filter.1 hx).2
        simp only [parseMember, this, if_true]
    -- ranges
    have hrv : mapM' (fun r => parseRange r b names)
        ((T.filter (fun v => !v.contains '/')).filter (fun v => v.contains '-')) =
        some (((T.filter (fun v => !v.contains '/')).filter (fun v => v.contains '-')).map g) := by
      rw [mapM'_congr (g := fun t => parseMember t b names)]
      · exact mapM'_of_forall [] (fun x hx => hsome x (List.mem_filter.1 (List.mem_filter.1 hx).1).1)
      · intro x hx
        have h2 := (List.mem_filter.1 hx).2
        have h1 := (List.mem_filter.1 (List.mem_filter.1 hx).1).2
        simp only [Bool.not_eq_true'] at h1
        simp only [parseMember, h1, h2, if_true, Bool.false_eq_true, if_false]
    -- plain values
    have hplain : ∀ x ∈ (T.filter (fun v => !v.contains '/')).filter (fun v => !v.contains '-'),
        normalize names x = some (nz x) ∧ inScope (nz x) b.lower b.upper = true ∧ g x = [(nz x).toNat] := by
      intro x hx
      have h2 := (List.mem_filter.1 hx).2
      have h1 := (List.mem_filter.1 (List.mem_filter.1 hx).1).2
      have hs := hsome x (List.mem_filter.1 (List.mem_filter.1 hx).1).1
      simp only [Bool.not_eq_true'] at h1 h2
      simp only [g, nz]
      simp only [parseMember, h1, h2, Bool.false_eq_true, if_false] at hs ⊢
      cases hn : normalize names x with
      | none => rw [hn] at hs; cases hs
      | some v =>
        rw [hn] at hs
        simp only at hs
        by_cases hsc : inScope v b.lower b.upper = true
        · simp [hsc]
        · simp [hsc] at hs
    have hl : mapM' (normalize names)
        ((T.filter (fun v => !v.contains '/')).filter (fun v => !v.contains '-')) =
        some (((T.filter (fun v => !v.contains '/')).filter (fun v => !v.contains '-')).map nz) := by
      apply mapM'_of_forall 0
      intro x hx
      rw [(hplain x hx).1]; rfl
    have hsc : (((T.filter (fun v => !v.contains '/')).filter (fun v => !v.contains '-')).map nz).all
        (fun v => inScope v b.lower b.upper) = true := by
      rw [List.all_eq_true]
      intro v hv
      obtain ⟨x, hx, rfl⟩ := List.mem_map.1 hv
      exact (hplain x hx).2.1
    have hpl : (((T.filter (fun v => !v.contains '/')).filter (fun v => !v.contains '-')).map nz).map Int.toNat =
        (((T.filter (fun v => !v.contains '/')).filter (fun v => !v.contains '-')).map g).flatten := by
      rw [List.map_map, ← flatten_map_singleton]
      congr 1
      apply List.map_congr_left
      intro x hx
      rw [(hplain x hx).2.2]; rfl
    unfold parseList
    simp only [hT, hl, hsc, hsv, hrv, Bool.not_true, Bool.false_eq_true, if_false, Option.map_some]
    congr 1
    apply sortNat_perm
    rw [hpl, hvs]
    -- permutation bookkeeping
    have p1 : T ~ T.filter (fun v => v.contains '/') ++ T.filter (fun v => !v.contains '/') :=
      (filter_append_perm _ T).symm
    have p2 : T.filter (fun v => !v.contains '/') ~
        (T.filter (fun v => !v.contains '/')).filter (fun v => v.contains '-') ++
        (T.filter (fun v => !v.contains '/')).filter (fun v => !v.contains '-') :=
      (filter_append_perm _ _).symm
    have p3 := p1.trans (Perm.append_left _ p2)
    have p4 := (p3.map g).flatten
    refine Perm.trans ?_ p4.symm
    simp only [List.map_append, List.flatten_append]
    generalize ((T.filter (fun v => !v.contains '/')).filter (fun v => !v.contains '-')).map g = P
    generalize ((T.filter (fun v => !v.contains '/')).filter (fun v => v.contains '-')).map g = R
    generalize (T.filter (fun v => v.contains '/')).map g = S
    exact (perm_append_comm (l₁ := P.flatten ++ S.flatten) (l₂ := R.flatten)).trans
      ((Perm.append_left _ perm_append_comm).trans (by
        rw [← List.append_assoc, ← List.append_assoc]
        exact Perm.append_right _ perm_append_comm))

end ListMeaning

end Cron
