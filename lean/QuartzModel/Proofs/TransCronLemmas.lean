import QuartzModel.Generated.TransCron
import QuartzModel.Theorems.TransFinal
import QuartzModel.Proofs.ZoneLemmas
import QuartzModel.Cron.Parse
/-!
# Helpers for `Theorems/TransCron.lean`: the translated `CronTrigger.NextFireTime` is the model's `Cron.nextFire`

* `goClock : ClockExt` — package `time`'s calendar on UTC seconds, from `Cal.Civil.toSeconds` / `Cal.Civil.ofSeconds`
  (with `time.Date`'s month/day normalisation via `Cron.goDate`); `locOfZone z : LocExt` — the model's `Zone` as the
  translated code's location parameter;
* `floorDiv` — Go's `prev / 1e9` followed by `if prev % 1e9 < 0 { prevSec-- }` is floor division;
* `nextTriggerTime_exact` — the inner call: the exact `Wall` record the translated state machine returns
  (a strengthening of `TransCsm.trans_nextTriggerTime`, which reads the record back through `Int.toNat`);
* `loop1_eq` — the translated `for {}` loop of `NextFireTime` is `Cron.zoneLoop`, for every fuel;
* `zoneLoop_mono` — more fuel does not change a definite answer of the model loop;
* `fillRange_loop`, `fillStep_loop`, `add_loop` — the loops of the parser's integer helpers.
-/
set_option linter.unusedSimpArgs false
set_option linter.unusedVariables false

namespace TransCron
open Generated.TransCron Generated.Trans Cron Cal Odo TransRepr TransCsm

/-! ## the concrete external structures -/

/-- `time.Date(y, time.Month(m), d, h, mi, s, 0, time.UTC).Unix()` -/
def goUnixOf (y m d h mi s : Int) : Int := (goDate y m d - epochDay) * 86400 + h * 3600 + mi * 60 + s

/-- a civil date-time as the six `Int`s of the translated code -/
def wallOfCivil (c : Civil) : Wall :=
  { year := c.year, month := c.month, day := c.day, hour := c.hour, minute := c.minute, second := c.second }

/-- the wall-clock fields of `time.Unix(u, 0).UTC()` -/
def goCivil (u : Int) : Wall := wallOfCivil (Civil.ofSeconds u)

/-- package `time` on UTC seconds -/
def goClock : ClockExt := { unixOf := goUnixOf, civil := goCivil }

/-- the model's `Zone` as the location of the translated code -/
def locOfZone (z : Zone) : LocExt := { offsetAt := z.offsetAt, date := z.date }

/-- a `CronTrigger` whose parsed fields are the model's `f` -/
def mkTrigger (expression : String) (f : Fields) (lastDefined : Int) : CronTrigger :=
  { expression := expression, fields := mkFields f, lastDefined := lastDefined }

/-- the model's outcome as the Go result `(int64, error)` of the translated code (`none` = out of fuel) -/
def ofOutcome : Outcome → Option (Int × Option String)
  | .ok r => some (r, none)
  | .expired => some (0, some "ErrTriggerExpired")
  | .outOfFuel => none

theorem ofOutcome_inj (a b : Outcome) (h : ofOutcome a = ofOutcome b) : a = b := by
  cases a <;> cases b <;> simp [ofOutcome] at h <;> first | rfl | (subst h; rfl)

theorem ofOutcome_ok (o : Outcome) (r : Int) (h : ofOutcome o = some (r, none)) : o = .ok r := by
  cases o <;> simp [ofOutcome] at h
  subst h; rfl

theorem ofOutcome_expired (o : Outcome) (r : Int) (s : String) (h : ofOutcome o = some (r, some s)) : o = .expired := by
  cases o <;> simp [ofOutcome] at h
  rfl

theorem ofOutcome_none (o : Outcome) (h : ofOutcome o = none) : o = .outOfFuel := by
  cases o <;> simp [ofOutcome] at h
  rfl

/-! ## arithmetic -/

/-- Go: `prevSec := prev / int64(time.Second); if prev%int64(time.Second) < 0 { prevSec-- }` is floor division -/
theorem floorDiv (p : Int) :
    (if Int.tmod p 1000000000 < 0 then Int.tdiv p 1000000000 - 1 else Int.tdiv p 1000000000) = p / 1000000000 := by
  rw [Int.tdiv_eq_ediv, Int.tmod_eq_emod]
  have hs : Int.sign 1000000000 = 1 := by decide
  have hn : Int.natAbs 1000000000 = 1000000000 := by decide
  rw [hs, hn]
  by_cases h : 0 ≤ p
  · simp [h]; omega
  · by_cases hd : (1000000000:Int) ∣ p
    · simp [hd]; omega
    · simp [h, hd]
      have : p % 1000000000 ≠ 0 := fun h0 => hd (Int.dvd_of_emod_eq_zero h0)
      omega

theorem goUnixOf_valid (t : Civil) (hv : t.Valid) :
    goUnixOf t.year t.month t.day t.hour t.minute t.second = t.toSeconds := by
  obtain ⟨⟨hm1, hm12, _, _⟩, _⟩ := hv
  unfold goUnixOf Civil.toSeconds
  rw [TransDay.goDate_valid t.year t.month t.day hm1 hm12]

theorem goCivil_toSeconds (t : Civil) (hv : t.Valid) : goCivil t.toSeconds = wallOfCivil t := by
  unfold goCivil
  rw [Civil.ofSeconds_toSeconds t hv]

/-! ## the inner call and the loop -/

theorem value_mkCsm (f : Fields) (c : Cfg) (ex : Bool) :
    CronStateMachine.ValueWithLocation (mkCsm {} f c ex) = wallOfCivil (civilOfCfg c) := by
  simp [wallOfCivil, CronStateMachine.ValueWithLocation, mkCsm, CommonNode.Value, mkCommon, DayNode.Value, mkDay, civilOfCfg]

/-- the inner call, exactly -/
theorem nextTriggerTime_exact (f : Fields) (hwf : WellFormed f = true) (fuel : Nat) (hfuel : csmFuel + 1 ≤ fuel)
    (wall : Civil) (hv : wall.Valid) (hy : wall.year ≤ 3940) :
    csmNext {} f wall ≠ none ∧
    ∃ csm', CronStateMachine.NextTriggerTime goTime
        (newCSMFromFields wall.year wall.month wall.day wall.hour wall.minute wall.second (mkFields f)) fuel =
      some (csm', match csmNext {} f wall with
                  | some (some t) => (wallOfCivil t, true)
                  | _ => (Wall.zero, false)) := by
  have hf7 : 7 ≤ fuel := by have := csmFuel_eq; omega
  have hne := findForward_ne_none f hwf wall hv
  have hD := trans_dayEquiv f hwf fuel (by have := csmFuel_eq; omega)
  unfold csmNext
  rw [trans_newCSMFromFields]
  cases hff : Odo.findForward (levels {} f) (levelsDec {} f) 6 csmFuel (cfgOfCivil wall) with
  | none => exact absurd hff hne
  | some r =>
    obtain ⟨c, fl⟩ := r
    have h := trans_findForward goTime f hwf fuel hD hf7 csmFuel hfuel _ (box_cfgOfCivil wall hv hy) _ hff
    simp only [CronStateMachine.NextTriggerTime, h, Option.bind_some]
    cases fl with
    | true => exact ⟨by simp, mkCsm {} f c true, rfl⟩
    | false =>
      have hex : (mkCsm {} f c false).exhausted = false := rfl
      refine ⟨by simp, mkCsm {} f c false, ?_⟩
      simp only [hex, Bool.false_eq_true, ↓reduceIte, value_mkCsm]

/-- the translated cursor (a `time.Time`) shows the model's wall clock -/
def Shows (z : Zone) (wallT : Time) (wallM : Civil) : Prop :=
  goCivil (Time.wallSec (locOfZone z) wallT) = wallOfCivil wallM

theorem shows_fields (z : Zone) (wallT : Time) (wallM : Civil) (h : Shows z wallT wallM) :
    Time.Year goClock (locOfZone z) wallT = wallM.year ∧ Time.Month goClock (locOfZone z) wallT = wallM.month ∧
    Time.Day goClock (locOfZone z) wallT = wallM.day ∧ Time.Hour goClock (locOfZone z) wallT = wallM.hour ∧
    Time.Minute goClock (locOfZone z) wallT = wallM.minute ∧ Time.Second goClock (locOfZone z) wallT = wallM.second := by
  unfold Shows at h
  simp only [Time.Year, Time.Month, Time.Day, Time.Hour, Time.Minute, Time.Second, goClock, h, wallOfCivil, and_self]

theorem shows_utc (z : Zone) (t : Civil) (hv : t.Valid) : Shows z ⟨t.toSeconds, true⟩ t := by
  simp only [Shows, Time.wallSec, Time.zoneOffset, if_true, Int.add_zero]
  exact goCivil_toSeconds t hv

theorem shows_start (z : Zone) (s : Int) :
    Shows z (Time.unixIn s) (Civil.ofSeconds (s + z.offsetAt s)) := by
  simp [Shows, Time.wallSec, Time.zoneOffset, Time.unixIn, locOfZone, goCivil]

theorem goClock_unixOf : goClock.unixOf = goUnixOf := rfl
theorem locOfZone_date (z : Zone) : (locOfZone z).date = z.date := rfl
theorem locOfZone_offsetAt (z : Zone) : (locOfZone z).offsetAt = z.offsetAt := rfl

/-- translated `fires` = the model's `fires` -/
theorem fires_eq (z : Zone) (ct : CronTrigger) (next w prevSec : Int) (b : Bool) :
    CronTrigger.fires (locOfZone z) ct ⟨next, false⟩ ⟨w, b⟩ ⟨prevSec, false⟩ = Cron.fires z next w prevSec := by
  simp [CronTrigger.fires, Time.zoneOffset, Time.Unix, Time.After, locOfZone, Cron.fires]

/-- **the translated `for {}` loop of `NextFireTime` is the model's `zoneLoop`** (same loop fuel on both sides) -/
theorem loop1_eq (f : Fields) (hwf : WellFormed f = true) (cf : Nat) (hcf : csmFuel + 1 ≤ cf) (z : Zone)
    (ct : CronTrigger) (hct : ct.fields = mkFields f) (prevSec prevOff : Int) (fuel : Nat) :
    ∀ (wallT : Time) (wallM : Civil), wallM.Valid → wallM.year ≤ 3940 → Shows z wallT wallM →
      CronTrigger.NextFireTime.loop1 goTime goClock (locOfZone z) ct (Time.unixIn prevSec) prevOff cf fuel wallT =
        ofOutcome (zoneLoop {} f z prevSec prevOff fuel wallM) := by
  induction fuel with
  | zero => intro _ _ _ _ _; simp only [CronTrigger.NextFireTime.loop1, zoneLoop, ofOutcome]
  | succ fuel ih =>
    intro wallT wallM hv hy hS
    obtain ⟨e1, e2, e3, e4, e5, e6⟩ := shows_fields z wallT wallM hS
    obtain ⟨hne, csm', hN⟩ := nextTriggerTime_exact f hwf cf hcf wallM hv hy
    rw [zoneLoop_succ]
    simp only [CronTrigger.NextFireTime.loop1, e1, e2, e3, e4, e5, e6, hct, hN, Option.bind_some]
    cases hc : csmNext {} f wallM with
    | none => exact absurd hc hne
    | some o =>
      cases o with
      | none => simp [ofOutcome]
      | some t =>
        obtain ⟨hm, _, _⟩ := csmNext_spec_some f hwf wallM t hc
        have hvt := matches_valid f t hm
        have hty : t.year ≤ 3940 := by
          have : t.year ≤ lastYear := hm.2.2.2.2.2.2.2.2.2.2.1
          unfold lastYear at this; omega
        have hst := shows_utc z t hvt
        obtain ⟨d1, d2, d3, d4, d5, d6⟩ := shows_fields z _ t hst
        have hw : Time.ofWallUTC goClock (wallOfCivil t) = ⟨t.toSeconds, true⟩ := by
          simp only [Time.ofWallUTC, goClock, wallOfCivil, goUnixOf_valid t hvt]
        simp only [hw, d1, d2, d3, d4, d5, d6]
        simp only [Time.date, goClock_unixOf, locOfZone_date, goUnixOf_valid t hvt, Time.unixIn, Time.Unix, fires_eq]
        cases hf1 : Cron.fires z (z.date t.toSeconds) t.toSeconds prevSec with
        | true =>
          simp only [Bool.not_true, Bool.false_eq_true, if_false, if_true, fires_eq, hf1, Time.UnixNano, ofOutcome]
        | false =>
          simp only [Bool.not_false, if_true, fires_eq, Bool.false_eq_true, if_false]
          cases hf2 : Cron.fires z (t.toSeconds - prevOff) t.toSeconds prevSec with
          | true => simp only [if_true, Time.UnixNano, ofOutcome, Bool.not_true, Bool.false_eq_true, if_false]
          | false =>
            simp only [Bool.false_eq_true, if_false]
            exact ih _ t hvt hty hst

/-- more fuel does not change a definite answer of the model's loop -/
theorem zoneLoop_mono (f : Fields) (z : Zone) (prevSec prevOff : Int) (fuel : Nat) :
    ∀ (wall : Civil) (fuel' : Nat), fuel ≤ fuel' → zoneLoop {} f z prevSec prevOff fuel wall ≠ .outOfFuel →
      zoneLoop {} f z prevSec prevOff fuel' wall = zoneLoop {} f z prevSec prevOff fuel wall := by
  induction fuel with
  | zero => intro wall _ _ h; exact absurd (by simp only [zoneLoop]) h
  | succ fuel ih =>
    intro wall fuel' hle hne
    obtain ⟨k, rfl⟩ : ∃ k, fuel' = k + 1 := ⟨fuel' - 1, by omega⟩
    rw [zoneLoop_succ] at hne ⊢
    rw [zoneLoop_succ]
    cases hc : csmNext {} f wall with
    | none => rfl
    | some o =>
      cases o with
      | none => rfl
      | some nw =>
        simp only [hc] at hne ⊢
        generalize (if fires z (z.date nw.toSeconds) nw.toSeconds prevSec = true
          then z.date nw.toSeconds else nw.toSeconds - prevOff) = next at hne ⊢
        by_cases hf : fires z next nw.toSeconds prevSec = true
        · simp only [hf, if_true]
        · simp only [hf, if_false] at hne ⊢
          exact ih nw k (by omega) hne

/-- every int64 `prev`: the start wall clock is a valid civil time before the year 2263 -/
theorem wall0_int64 (c prev : Int) (hc : -100000 ≤ c ∧ c ≤ 100000)
    (hmin : -9223372036854775808 ≤ prev) (hmax : prev ≤ 9223372036854775807) :
    (Civil.ofSeconds (prev / 1000000000 + c)).Valid ∧ (Civil.ofSeconds (prev / 1000000000 + c)).year ≤ 3940 := by
  have h0 : -((719529 : Nat) : Int) * 86400 + 86400 ≤ prev / 1000000000 + c := by omega
  refine ⟨(Civil.toSeconds_ofSeconds _ h0).1, ?_⟩
  have h1 := Civil.ofSeconds_year_mono (prev / 1000000000 + c) 9223472137 h0 (by omega)
  have h2 : (Civil.ofSeconds 9223472137).year = 2262 := by decide
  omega

/-! ## loops of the parser helpers -/

/-- the loop of `fillRangeValues` writes `i, i+1, …` into the `r` remaining cells -/
theorem fillRange_loop (to : Int) : ∀ (r : Nat) (i j : Int) (pre rest : List Int) (cnt : Nat),
    rest.length = r → j = pre.length → i + r = to + 1 → r + 1 ≤ cnt →
    fillRangeValues.loop1 to cnt i j (pre ++ rest) = some (pre ++ (List.range r).map (fun (d : Nat) => i + (d : Int))) := by
  intro r
  induction r with
  | zero =>
    intro i j pre rest cnt hr hj hi hc
    obtain ⟨cnt, rfl⟩ : ∃ k, cnt = k + 1 := ⟨cnt - 1, by omega⟩
    have : rest = [] := List.eq_nil_of_length_eq_zero hr
    subst this
    have hgt : ¬ i ≤ to := by omega
    simp [fillRangeValues.loop1, hgt]
  | succ r ih =>
    intro i j pre rest cnt hr hj hi hc
    obtain ⟨cnt, rfl⟩ : ∃ k, cnt = k + 1 := ⟨cnt - 1, by omega⟩
    obtain ⟨x, rest', rfl⟩ : ∃ x rest', rest = x :: rest' := by
      cases rest with
      | nil => simp at hr
      | cons x t => exact ⟨x, t, rfl⟩
    have hle : i ≤ to := by omega
    have hset : setIdx (pre ++ x :: rest') j i = (pre ++ [i]) ++ rest' := by
      subst hj
      simp [setIdx, List.set_append]
    simp only [fillRangeValues.loop1, hle, decide_true, if_true, hset]
    rw [ih (i + 1) (j + 1) (pre ++ [i]) rest' cnt (by simpa using hr) (by simp [hj]) (by omega) (by omega)]
    simp only [List.range_succ_eq_map, List.map_cons, List.map_map, List.append_assoc, List.singleton_append]
    congr 2
    simp
    intro a _
    omega

/-- the loop of `fillStepValues` writes `i, i+step, …` into the `r` remaining cells -/
theorem fillStep_loop (step ub : Int) : ∀ (r : Nat) (i j : Int) (pre rest : List Int) (cnt : Nat),
    rest.length = r → j = pre.length → (∀ d : Nat, d < r → i + (d : Int) * step ≤ ub) → ub < i + (r : Int) * step →
    r + 1 ≤ cnt →
    fillStepValues.loop1 step ub cnt i j (pre ++ rest) =
      some (pre ++ (List.range r).map (fun (d : Nat) => i + (d : Int) * step)) := by
  intro r
  induction r with
  | zero =>
    intro i j pre rest cnt hr hj hlo hhi hc
    obtain ⟨cnt, rfl⟩ : ∃ k, cnt = k + 1 := ⟨cnt - 1, by omega⟩
    have : rest = [] := List.eq_nil_of_length_eq_zero hr
    subst this
    have hgt : ¬ i ≤ ub := by simp at hhi; omega
    simp [fillStepValues.loop1, hgt]
  | succ r ih =>
    intro i j pre rest cnt hr hj hlo hhi hc
    obtain ⟨cnt, rfl⟩ : ∃ k, cnt = k + 1 := ⟨cnt - 1, by omega⟩
    obtain ⟨x, rest', rfl⟩ : ∃ x rest', rest = x :: rest' := by
      cases rest with
      | nil => simp at hr
      | cons x t => exact ⟨x, t, rfl⟩
    have hle : i ≤ ub := by have := hlo 0 (by omega); simpa using this
    have hset : setIdx (pre ++ x :: rest') j i = (pre ++ [i]) ++ rest' := by
      subst hj
      simp [setIdx, List.set_append]
    have hsucc : ∀ d : Nat, ((d + 1 : Nat) : Int) * step = (d : Int) * step + step := by
      intro d; rw [Int.natCast_succ, Int.add_mul, Int.one_mul]
    simp only [fillStepValues.loop1, hle, decide_true, if_true, hset]
    rw [ih (i + step) (j + 1) (pre ++ [i]) rest' cnt (by simpa using hr) (by simp [hj])
      (by intro d hd; have := hlo (d + 1) (by omega); rw [hsucc] at this; omega)
      (by rw [hsucc] at hhi; omega) (by omega)]
    simp only [List.range_succ_eq_map, List.map_cons, List.map_map, List.append_assoc, List.singleton_append]
    congr 2
    simp
    intro a _
    have := hsucc a
    simp only [Int.natCast_succ] at this
    omega

/-- the loop of `(*cronField).add` -/
theorem add_loop (delta : Int) : ∀ (rest pre : List Int) (n : Int) (s : Nat), pre.length = s →
    cronField.add.loop1 delta ⟨pre ++ rest, n⟩ ((List.range' s rest.length).map Int.ofNat) =
      ⟨pre ++ rest.map (· + delta), n⟩ := by
  intro rest
  induction rest with
  | nil => intro pre n s _; simp [cronField.add.loop1]
  | cons x rest' ih =>
    intro pre n s hs
    have hidx : Generated.Trans.idx (pre ++ x :: rest') (Int.ofNat s) = x := by
      subst hs; simp [Generated.Trans.idx]
    have hset : setIdx (pre ++ x :: rest') (Int.ofNat s) (x + delta) = (pre ++ [x + delta]) ++ rest' := by
      subst hs; simp [setIdx, List.set_append]
    simp only [List.length_cons, List.range'_succ, List.map_cons, cronField.add.loop1, hidx, hset]
    rw [ih (pre ++ [x + delta]) n (s + 1) (by simp [hs])]
    simp

end TransCron
