import QuartzModel.Proofs.CronAssembly
/-!
# `nextFire` on an arbitrary location (helpers for `Theorems/C14.lean`)

The location is an abstract `Zone`: nothing is assumed about `z.date`, and nothing relates
`z.offsetAt` at different instants. The retry loop `zoneLoop` is analysed with

* an inductive invariant (`ZoneInv`): the cursor is at or above the reading of `prev`, and every
  matching reading at or below the cursor (and above the reading of `prev`) was rejected, i.e. neither
  of the two instants the code can name for it (`time.Date(reading)` and `reading − offset at prev`)
  shows the reading and lies after `prev`;
* a measure argument (`zoneLoop_fuel`): every iteration strictly raises the cursor in `Civil.lexLt`,
  the cursors are valid civil times with year ≤ 3940, so the mixed-radix measure `μ6` bounds the number
  of iterations by `csmFuel`.
-/
namespace Cron
open Cal Odo

theorem lexLt_trans (a b c : Civil) (h1 : Civil.lexLt a b) (h2 : Civil.lexLt b c) :
    Civil.lexLt a c := by
  unfold Civil.lexLt at *
  omega

theorem lexLt_irrefl (a : Civil) : ¬ Civil.lexLt a a := by
  unfold Civil.lexLt
  omega

theorem lexLt_asymm (a b : Civil) (h1 : Civil.lexLt a b) : ¬ Civil.lexLt b a := by
  unfold Civil.lexLt at *
  omega

/-- Go `fires`, as a proposition -/
theorem fires_iff (z : Zone) (next wall prevSec : Int) :
    fires z next wall prevSec = true ↔ (next + z.offsetAt next = wall ∧ prevSec < next) := by
  unfold fires
  simp only [Bool.and_eq_true, decide_eq_true_eq]

/-- neither of the two instants the code can name for the reading `w` shows `w` and lies after prev -/
def ZoneRejected (z : Zone) (prevSec prevOff w : Int) : Prop :=
  ¬ (z.date w + z.offsetAt (z.date w) = w ∧ prevSec < z.date w) ∧
  ¬ ((w - prevOff) + z.offsetAt (w - prevOff) = w ∧ prevSec < w - prevOff)

/-- the invariant of the `for` loop at cursor `wall` (search started from `wall0`) -/
structure ZoneInv (f : Fields) (z : Zone) (prevSec prevOff : Int) (wall0 wall : Civil) : Prop where
  ge : wall0 = wall ∨ Civil.lexLt wall0 wall
  rej : ∀ L, Matches f L → Civil.lexLt wall0 L → (L = wall ∨ Civil.lexLt L wall) →
    ZoneRejected z prevSec prevOff L.toSeconds

theorem zoneInv_init (f : Fields) (z : Zone) (prevSec prevOff : Int) (wall0 : Civil) :
    ZoneInv f z prevSec prevOff wall0 wall0 := by
  refine ⟨Or.inl rfl, ?_⟩
  intro L _ h1 h2
  rcases h2 with h2 | h2
  · subst h2; exact absurd h1 (lexLt_irrefl _)
  · exact absurd h1 (lexLt_asymm _ _ h2)

/-- what an accepted result is -/
def ZoneOk (f : Fields) (z : Zone) (prevSec prevOff : Int) (wall0 : Civil) (r : Int) : Prop :=
  ∃ (nw : Civil) (next : Int),
    Matches f nw ∧ Civil.lexLt wall0 nw ∧
    (next = z.date nw.toSeconds ∨ next = nw.toSeconds - prevOff) ∧
    next + z.offsetAt next = nw.toSeconds ∧ prevSec < next ∧ r = next * 1000000000 ∧
    ∀ L, Matches f L → Civil.lexLt wall0 L → Civil.lexLt L nw → ZoneRejected z prevSec prevOff L.toSeconds

theorem zoneInv_step (f : Fields) (hwf : WellFormed f = true) (z : Zone) (prevSec prevOff : Int)
    (wall0 wall nw : Civil) (hinv : ZoneInv f z prevSec prevOff wall0 wall)
    (hc : csmNext {} f wall = some (some nw)) :
    Civil.lexLt wall0 nw ∧
      ∀ L, Matches f L → Civil.lexLt wall0 L → Civil.lexLt L nw →
        ZoneRejected z prevSec prevOff L.toSeconds := by
  obtain ⟨_, hlt, hleast⟩ := csmNext_spec_some f hwf wall nw hc
  constructor
  · rcases hinv.ge with h | h
    · rw [h]; exact hlt
    · exact lexLt_trans _ _ _ h hlt
  · intro L hL h1 h2
    rcases Civil.lexLt_trichotomy L wall with h | h | h
    · exact hinv.rej L hL h1 (Or.inr h)
    · exact hinv.rej L hL h1 (Or.inl h)
    · exact absurd h2 (hleast L hL h)

/-- partial correctness of the loop, for any fuel and any cursor satisfying the invariant -/
theorem zoneLoop_spec (f : Fields) (hwf : WellFormed f = true) (z : Zone) (prevSec prevOff : Int)
    (wall0 : Civil) :
    ∀ (fuel : Nat) (wall : Civil), ZoneInv f z prevSec prevOff wall0 wall →
      (∀ r, zoneLoop {} f z prevSec prevOff fuel wall = .ok r → ZoneOk f z prevSec prevOff wall0 r) ∧
      (zoneLoop {} f z prevSec prevOff fuel wall = .expired →
        ∀ L, Matches f L → Civil.lexLt wall0 L → ZoneRejected z prevSec prevOff L.toSeconds) := by
  intro fuel
  induction fuel with
  | zero =>
    intro wall _
    exact ⟨fun r h => (by cases h), fun h => (by cases h)⟩
  | succ fuel ih =>
    intro wall hinv
    rw [zoneLoop_succ]
    cases hc : csmNext {} f wall with
    | none => exact ⟨fun r h => (by cases h), fun h => (by cases h)⟩
    | some o =>
      cases o with
      | none =>
        refine ⟨fun r h => (by cases h), fun _ => ?_⟩
        intro L hL h1
        have hnone := csmNext_spec_none f hwf wall hc
        rcases Civil.lexLt_trichotomy L wall with h | h | h
        · exact hinv.rej L hL h1 (Or.inr h)
        · exact hinv.rej L hL h1 (Or.inl h)
        · exact absurd ⟨L, hL, h⟩ hnone
      | some nw =>
        obtain ⟨hm, _, _⟩ := csmNext_spec_some f hwf wall nw hc
        obtain ⟨hge, hrej⟩ := zoneInv_step f hwf z prevSec prevOff wall0 wall nw hinv hc
        simp only
        by_cases hf1 : fires z (z.date nw.toSeconds) nw.toSeconds prevSec = true
        · simp only [hf1, if_true]
          refine ⟨fun r h => ?_, fun h => (by cases h)⟩
          have hr := Outcome.ok.inj h
          obtain ⟨e1, e2⟩ := (fires_iff _ _ _ _).mp hf1
          exact ⟨nw, z.date nw.toSeconds, hm, hge, Or.inl rfl, e1, e2, hr.symm, hrej⟩
        · by_cases hf2 : fires z (nw.toSeconds - prevOff) nw.toSeconds prevSec = true
          · simp only [hf1, hf2, if_true, Bool.false_eq_true, if_false]
            refine ⟨fun r h => ?_, fun h => (by cases h)⟩
            have hr := Outcome.ok.inj h
            obtain ⟨e1, e2⟩ := (fires_iff _ _ _ _).mp hf2
            exact ⟨nw, nw.toSeconds - prevOff, hm, hge, Or.inr rfl, e1, e2, hr.symm, hrej⟩
          · simp only [hf1, hf2, Bool.false_eq_true, if_false]
            apply ih nw
            refine ⟨Or.inr hge, ?_⟩
            intro L hL h1 h2
            rcases h2 with h2 | h2
            · subst h2
              exact ⟨fun h => hf1 ((fires_iff _ _ _ _).mpr h), fun h => hf2 ((fires_iff _ _ _ _).mpr h)⟩
            · exact hrej L hL h1 h2

/-- the loop does not run out of fuel: the measure of the cursor strictly increases -/
theorem zoneLoop_fuel (f : Fields) (hwf : WellFormed f = true) (z : Zone) (prevSec prevOff : Int) :
    ∀ (fuel : Nat) (wall : Civil), wall.Valid → wall.year ≤ 3940 →
      (((((3940 * 13 + 12) * 32 + 31) * 24 + 23) * 60 + 59) * 60 + 59) - μ6 (cfgOfCivil wall) < fuel →
      zoneLoop {} f z prevSec prevOff fuel wall ≠ .outOfFuel := by
  intro fuel
  induction fuel with
  | zero => intro wall _ _ h; omega
  | succ fuel ih =>
    intro wall hv hy hf
    rw [zoneLoop_succ]
    cases hc : csmNext {} f wall with
    | none => exact absurd hc (csmNext_ne_none f hwf wall hv)
    | some o =>
      cases o with
      | none => exact fun h => by cases h
      | some nw =>
        obtain ⟨hm, hlt, _⟩ := csmNext_spec_some f hwf wall nw hc
        have hv' := matches_valid f nw hm
        have hy' : nw.year ≤ 3940 := by
          have := hm.2.2.2.2.2.2.2.2.2.2.1
          unfold lastYear at this
          omega
        have hb := inBox_cfgOfCivil wall hv hy
        have hb' := inBox_cfgOfCivil nw hv' hy'
        have h1 := μ6_measure.mono _ _ hb hb' ((lt_cfgOfCivil_iff wall nw).mpr hlt)
        have h2 := μ6_measure.le _ hb'
        simp only
        generalize (if fires z (z.date nw.toSeconds) nw.toSeconds prevSec = true
          then z.date nw.toSeconds else nw.toSeconds - prevOff) = next
        split
        · exact fun h => by cases h
        · exact ih nw hv' hy' (by omega)

/-- a start beyond the year range: exhausted at once -/
theorem csmNext_year_big (f : Fields) (wall : Civil) (h : 2261 < wall.year) :
    csmNext {} f wall = some none := by
  obtain ⟨c', hff⟩ := findForward_year_big f csmFuel wall h
  unfold csmNext
  rw [hff]

/-- `nextFire` as one call of the loop, with floor division -/
theorem nextFire_eq (f : Fields) (z : Zone) (prev : Int) (hp : -9223372036854775808 ≤ prev) :
    nextFire {} f z prev =
      zoneLoop {} f z (prev / 1000000000) (z.offsetAt (prev / 1000000000))
        ((((((3940 * 13 + 12) * 32 + 31) * 24 + 23) * 60 + 59) * 60 + 59) + 1)
        (Civil.ofSeconds (prev / 1000000000 + z.offsetAt (prev / 1000000000))) := by
  show zoneLoop {} f z (prev / 1000000000) (z.offsetAt (prev / 1000000000)) csmFuel
    (Civil.ofSeconds (prev / 1000000000 + z.offsetAt (prev / 1000000000))) = _
  rw [csmFuel_eq]

theorem nextFire_zone_ne_outOfFuel (f : Fields) (hwf : WellFormed f = true) (z : Zone) (prev : Int)
    (hp : -9223372036854775808 ≤ prev) (hz : ∀ u, -100000 ≤ z.offsetAt u ∧ z.offsetAt u ≤ 100000) :
    nextFire {} f z prev ≠ .outOfFuel := by
  rw [nextFire_eq f z prev hp]
  obtain ⟨hwv, _⟩ := wall0_valid (z.offsetAt (prev / 1000000000)) prev (hz _) hp
  by_cases hy : (Civil.ofSeconds (prev / 1000000000 + z.offsetAt (prev / 1000000000))).year ≤ 3940
  · exact zoneLoop_fuel f hwf z _ _ _ _ hwv hy (by omega)
  · rw [zoneLoop_succ, csmNext_year_big f _ (by omega)]
    exact fun h => by cases h

/-- an accepted result of `nextFire` -/
theorem nextFire_ok_spec (f : Fields) (hwf : WellFormed f = true) (z : Zone) (prev : Int)
    (hp : -9223372036854775808 ≤ prev) (r : Int) (h : nextFire {} f z prev = .ok r) :
    ZoneOk f z (prev / 1000000000) (z.offsetAt (prev / 1000000000))
      (Civil.ofSeconds (prev / 1000000000 + z.offsetAt (prev / 1000000000))) r := by
  rw [nextFire_eq f z prev hp] at h
  exact (zoneLoop_spec f hwf z _ _ _ _ _ (zoneInv_init f z _ _ _)).1 r h

theorem nextFire_expired_spec (f : Fields) (hwf : WellFormed f = true) (z : Zone) (prev : Int)
    (hp : -9223372036854775808 ≤ prev) (h : nextFire {} f z prev = .expired) :
    ∀ L, Matches f L →
      Civil.lexLt (Civil.ofSeconds (prev / 1000000000 + z.offsetAt (prev / 1000000000))) L →
      ZoneRejected z (prev / 1000000000) (z.offsetAt (prev / 1000000000)) L.toSeconds := by
  rw [nextFire_eq f z prev hp] at h
  exact (zoneLoop_spec f hwf z _ _ _ _ _ (zoneInv_init f z _ _ _)).2 h

/-- the first candidate is accepted when `time.Date` and the offset at the candidate agree with the
offset in force at prev -/
theorem nextFire_first_accepted (f : Fields) (hwf : WellFormed f = true) (z : Zone) (prev : Int)
    (hp : -9223372036854775808 ≤ prev) (hz : ∀ u, -100000 ≤ z.offsetAt u ∧ z.offsetAt u ≤ 100000) (t : Civil)
    (ht : csmNext {} f
      (Civil.ofSeconds (prev / 1000000000 + z.offsetAt (prev / 1000000000))) = some (some t))
    (hd : z.date t.toSeconds = t.toSeconds - z.offsetAt (prev / 1000000000))
    (ho : z.offsetAt (t.toSeconds - z.offsetAt (prev / 1000000000)) =
      z.offsetAt (prev / 1000000000)) :
    nextFire {} f z prev = .ok ((t.toSeconds - z.offsetAt (prev / 1000000000)) * 1000000000) := by
  rw [nextFire_eq f z prev hp, zoneLoop_succ, ht]
  obtain ⟨hwv, hws⟩ := wall0_valid (z.offsetAt (prev / 1000000000)) prev (hz _) hp
  obtain ⟨hm, hlt, _⟩ := csmNext_spec_some f hwf _ t ht
  have hsec := (Civil.toSeconds_lt_iff _ t hwv (matches_valid f t hm)).mpr hlt
  have hf : fires z (t.toSeconds - z.offsetAt (prev / 1000000000)) t.toSeconds (prev / 1000000000)
      = true := by
    rw [fires_iff, ho]
    omega
  simp only [hd, hf, if_true]

end Cron
