import QuartzModel.Generated.TransParse
import QuartzModel.Theorems.TransCron
import QuartzModel.Proofs.ParseLemmas
/-!
# Lemmas for `Theorems/TransParse.lean`: the translated text level of the cron parser = `Cron/Parse.lean`

`modelExt` instantiates the library interface `Generated.TransParse.StrExt` with the re-implementations of the
hand-written model (`Cron.splitOn`, `Cron.atoi`, `Cron.upperChar`, `Cron.trimSpace`, `Cron.collapseSpace`, the four anchored
regexp matchers, insertion sort).  The regexp entries are keyed by the PATTERN TEXT: a pattern the model does not know
matches nothing, so an edited pattern in the Go source (it is data in the generated file) breaks the equivalences.
-/
namespace TransParse
open Generated Generated.TransParse TransRepr

def insertSortedInt (x : Int) : List Int → List Int
  | [] => [x]
  | h :: t => if x ≤ h then x :: h :: t else h :: insertSortedInt x t

/-- `sort.Ints` as insertion sort (the sorted permutation is unique) -/
def sortInt (l : List Int) : List Int := l.foldr insertSortedInt []

/-- `strings.TrimSuffix` -/
def trimSuffix (s suf : Str) : Str :=
  if suf.isSuffixOf s then s.take (s.length - suf.length) else s

/-- the model's regexp matchers, by pattern text -/
def reMatch (p s : Str) : Bool :=
  if p = "^L(-[0-9]+)?$".toList then Cron.matchLastMonthDay s
  else if p = "^[0-9]+W$".toList then Cron.matchWeekday s
  else if p = "^[a-zA-Z0-9]*L$".toList then Cron.matchLastWeekday s
  else if p = "^[a-zA-Z0-9]+#[0-9]+$".toList then Cron.matchHash s
  else false

/-- `ReplaceAllString`: only `\s+` → one blank is known -/
def reReplaceAll (p s r : Str) : Str :=
  if p = "\\s+".toList ∧ r = [' '] then Cron.collapseSpace s else s

/-- the library functions as re-implemented by the hand-written model -/
def modelExt : StrExt where
  split s sep := match sep with
    | [c] => Cron.splitOn c s
    | _ => [s]
  containsRune s c := s.contains c
  toUpper s := s.map Cron.upperChar
  trimSpace := Cron.trimSpace
  trimSuffix := trimSuffix
  atoi := Cron.atoi
  reMatch := reMatch
  reReplaceAll := reReplaceAll
  sortInts := sortInt

end TransParse

namespace TransParse
open Generated Generated.TransParse TransRepr

@[simp] theorem ext_split (s : Str) (c : Char) : modelExt.split s [c] = Cron.splitOn c s := rfl
@[simp] theorem ext_containsRune (s : Str) (c : Char) : modelExt.containsRune s c = s.contains c := rfl
@[simp] theorem ext_toUpper (s : Str) : modelExt.toUpper s = s.map Cron.upperChar := rfl
@[simp] theorem ext_trimSpace (s : Str) : modelExt.trimSpace s = Cron.trimSpace s := rfl
@[simp] theorem ext_trimSuffix (s t : Str) : modelExt.trimSuffix s t = trimSuffix s t := rfl
@[simp] theorem ext_atoi (s : Str) : modelExt.atoi s = Cron.atoi s := rfl
@[simp] theorem ext_reMatch (p s : Str) : modelExt.reMatch p s = reMatch p s := rfl
@[simp] theorem ext_reReplaceAll (p s r : Str) : modelExt.reReplaceAll p s r = reReplaceAll p s r := rfl
@[simp] theorem ext_sortInts (l : List Int) : modelExt.sortInts l = sortInt l := rfl

/-! ## results -/

/-- the error value wraps `ErrCronParse` (`errors.Is(err, ErrCronParse)`) -/
abbrev WrapsParse (e : String) : Prop := wraps e "ErrCronParse" = true

/-- the translated result `t` (`none` = out of fuel) agrees with the model's `m`: the model's value (through `f`) with a nil
error, or SOME non-nil error that wraps `ErrCronParse` (the value next to it is irrelevant) when the model rejects -/
def Agrees {α β : Type} (t : Option (α × Option String)) (m : Option β) (f : β → α) : Prop :=
  match m with
  | some b => t = some (f b, none)
  | none => ∃ a e, t = some (a, some e) ∧ WrapsParse e

theorem Agrees.ok {α β : Type} {t : Option (α × Option String)} {f : β → α} {b : β}
    (h : Agrees t (Option.some b) f) : t = Option.some (f b, Option.none) := h

theorem Agrees.err {α β : Type} {t : Option (α × Option String)} {f : β → α}
    (h : Agrees t (Option.none : Option β) f) : ∃ a e, t = Option.some (a, Option.some e) ∧ WrapsParse e := h

theorem wraps_range : WrapsParse "newInvalidCronFieldError: range, _" := by decide
theorem wraps_step : WrapsParse "newInvalidCronFieldError: step, _" := by decide
theorem wraps_list : WrapsParse "newInvalidCronFieldError: list, _" := by decide
theorem wraps_numeric : WrapsParse "newInvalidCronFieldError: numeric, _" := by decide
theorem wraps_last : WrapsParse "newInvalidCronFieldError: last, _" := by decide
theorem wraps_weekday : WrapsParse "newInvalidCronFieldError: weekday, _" := by decide
theorem wraps_hash : WrapsParse "newInvalidCronFieldError: hash, _" := by decide
theorem wraps_unknown : WrapsParse "newCronParseError: unknown literal %s" := by decide
theorem wraps_length : WrapsParse "newCronParseError: invalid expression length" := by decide
theorem wraps_twice : WrapsParse "newCronParseError: day field set twice" := by decide
theorem wraps_fillRange : WrapsParse "newCronParseError: fill range values" := by decide
theorem wraps_fillStep : WrapsParse "newCronParseError: fill step values" := by decide

/-! ## `translateLiteral`, `normalize`, `translateLiterals` -/

theorem model_translateLiteral (g : List Str) (s : Str) :
    Cron.translateLiteral g s = (Cron.indexOf? g (s.map Cron.upperChar)).map Int.ofNat := by
  unfold Cron.translateLiteral
  cases Cron.indexOf? g (s.map Cron.upperChar) <;> rfl

theorem translateLiteral_loop (u : Str) : ∀ (l : List Str) (i : Int),
    translateLiteral.loop1 modelExt u i l =
      match Cron.indexOf? l u with
      | some k => .error (i + (k : Int), none)
      | none => .ok () := by
  intro l
  induction l with
  | nil => intro i; rfl
  | cons h t ih =>
    intro i
    unfold translateLiteral.loop1 Cron.indexOf?
    by_cases hh : h = u
    · simp [hh]
    · simp only [hh, decide_false, if_false, Bool.false_eq_true, ih]
      cases Cron.indexOf? t u with
      | none => rfl
      | some k =>
        simp only [Option.map_some]
        congr 2
        push_cast
        omega

theorem trans_translateLiteral (g : List Str) (s : Str) :
    Agrees (some (translateLiteral modelExt g s)) (Cron.translateLiteral g s) id := by
  rw [model_translateLiteral]
  unfold translateLiteral
  simp only [translateLiteral_loop, ext_toUpper]
  cases Cron.indexOf? g (s.map Cron.upperChar) with
  | none => exact ⟨_, _, rfl, wraps_unknown⟩
  | some k => simp [Agrees]

theorem normalize_aux (o : Option Int) (tl : Int × Option String) (m : Option Int) (h : Agrees (some tl) m id) :
    Agrees (some (if (atoiPair o).2.isSome then tl else ((atoiPair o).1, none)))
      (match o with | some v => some v | none => m) id := by
  cases o with
  | none => simpa [atoiPair] using h
  | some v => simp [Agrees, atoiPair]

theorem trans_normalize (s : Str) (g : List Str) :
    Agrees (some (normalize modelExt s g)) (Cron.normalize g s) id :=
  normalize_aux _ _ _ (trans_translateLiteral g s)

/-- `normalize` by cases, in the form the callers need -/
theorem normalize_cases (s : Str) (g : List Str) :
    (∃ v, Cron.normalize g s = some v ∧ normalize modelExt s g = (v, none)) ∨
    (∃ a e, Cron.normalize g s = none ∧ normalize modelExt s g = (a, some e) ∧ WrapsParse e) := by
  have h := trans_normalize s g
  cases hm : Cron.normalize g s with
  | some v => rw [hm] at h; exact Or.inl ⟨v, rfl, by simpa using h.ok⟩
  | none =>
    rw [hm] at h
    obtain ⟨a, e, he, hw⟩ := h.err
    exact Or.inr ⟨a, e, rfl, by simpa using he, hw⟩

theorem translateLiterals_loop (g : List Str) : ∀ (l : List Str) (acc : List Int),
    match Cron.mapM' (Cron.normalize g) l with
    | some vs => translateLiterals.loop1 modelExt g acc l = .ok (acc ++ vs)
    | none => ∃ e, translateLiterals.loop1 modelExt g acc l = .error ([], some e) ∧ WrapsParse e := by
  intro l
  induction l with
  | nil => intro acc; simp [Cron.mapM', translateLiterals.loop1]
  | cons h t ih =>
    intro acc
    unfold translateLiterals.loop1 Cron.mapM'
    rcases normalize_cases h g with ⟨v, hm, ht⟩ | ⟨a, e, hm, ht, hw⟩
    · rw [hm, ht]
      simp only [Option.isSome_none, Bool.false_eq_true, if_false]
      have := ih (acc ++ [v])
      cases hr : Cron.mapM' (Cron.normalize g) t with
      | none => rw [hr] at this; exact this
      | some vs => rw [hr] at this; simp [this]
    · rw [hm, ht]
      simp only [Option.isSome_some, if_true]
      exact ⟨e, rfl, hw⟩

theorem trans_translateLiterals (g : List Str) (l : List Str) :
    Agrees (some (translateLiterals modelExt g l)) (Cron.mapM' (Cron.normalize g) l) id := by
  unfold translateLiterals
  have := translateLiterals_loop g l []
  cases hr : Cron.mapM' (Cron.normalize g) l with
  | none =>
    rw [hr] at this
    obtain ⟨e, he, hw⟩ := this
    simp only [he]
    exact ⟨_, _, rfl, hw⟩
  | some vs => rw [hr] at this; simp [this, Agrees]

/-! ## `extractStepValues`, `extractRangeValues` -/

theorem extractStepValues_loop : ∀ (l vs ss : List Str),
    extractStepValues.loop1 modelExt vs ss l =
      (vs ++ l.filter (fun v => !v.contains '/'), ss ++ l.filter (fun v => v.contains '/')) := by
  intro l
  induction l with
  | nil => intro vs ss; simp [extractStepValues.loop1]
  | cons h t ih =>
    intro vs ss
    unfold extractStepValues.loop1
    by_cases hc : h.contains '/' = true
    · have hc' : '/' ∈ h := by simpa using hc
      simp only [ext_containsRune, hc, if_true, ih]; simp [hc']
    · have hc' : ¬ '/' ∈ h := by simpa using hc
      simp only [ext_containsRune, hc, ih]; simp [hc']

theorem trans_extractStepValues (l : List Str) :
    extractStepValues modelExt l = (l.filter (fun v => !v.contains '/'), l.filter (fun v => v.contains '/')) := by
  simp [extractStepValues, extractStepValues_loop]

theorem extractRangeValues_loop : ∀ (l vs ss : List Str),
    extractRangeValues.loop1 modelExt vs ss l =
      (vs ++ l.filter (fun v => !v.contains '-'), ss ++ l.filter (fun v => v.contains '-')) := by
  intro l
  induction l with
  | nil => intro vs ss; simp [extractRangeValues.loop1]
  | cons h t ih =>
    intro vs ss
    unfold extractRangeValues.loop1
    by_cases hc : h.contains '-' = true
    · have hc' : '-' ∈ h := by simpa using hc
      simp only [ext_containsRune, hc, if_true, ih]; simp [hc']
    · have hc' : ¬ '-' ∈ h := by simpa using hc
      simp only [ext_containsRune, hc, ih]; simp [hc']

theorem trans_extractRangeValues (l : List Str) :
    extractRangeValues modelExt l = (l.filter (fun v => !v.contains '-'), l.filter (fun v => v.contains '-')) := by
  simp [extractRangeValues, extractRangeValues_loop]


/-- closes `t = some (?a, some e)` after evaluating the `if`s of `t` -/
macro "err_eq" : tactic => `(tactic| (first | rfl | (simp <;> rfl)))

/-! ## `parseRangeField` -/

/-- the model's `Bound` as the Go `boundary` -/
def bnd (b : Cron.Bound) : boundary := { lower := (b.lower : Int), upper := (b.upper : Int) }

/-- a plain value list as a `*cronField` (`newCronField`) -/
def fld (v : List Nat) : Trans.cronField := { values := ints v, n := 0 }

@[simp] theorem bnd_lower (b : Cron.Bound) : (bnd b).lower = (b.lower : Int) := rfl
@[simp] theorem bnd_upper (b : Cron.Bound) : (bnd b).upper = (b.upper : Int) := rfl
@[simp] theorem strIdx_zero (a : Str) (l : List Str) : strIdx (a :: l) 0 = a := rfl
@[simp] theorem strIdx_one (a b : Str) (l : List Str) : strIdx (a :: b :: l) 1 = b := rfl

theorem inScope_eq (v lo hi : Int) : TransCron.inScope v lo hi = Cron.inScope v lo hi :=
  _root_.TransCron.trans_inScope v lo hi

/-- `fillRangeValues` on in-scope integers, against the model on their `toNat`s -/
theorem fillRange_agrees (frm to : Int) (b : Cron.Bound) (fuel : Nat) (hf : b.upper + 3 ≤ fuel)
    (h1 : Cron.inScope frm b.lower b.upper = true) (h2 : Cron.inScope to b.lower b.upper = true) :
    (∃ l, Cron.fillRange frm.toNat to.toNat = some l ∧ TransCron.fillRangeValues frm to fuel = some (ints l, none)) ∨
    (Cron.fillRange frm.toNat to.toNat = none ∧
      TransCron.fillRangeValues frm to fuel = some ([], some "newCronParseError: fill range values")) := by
  rw [Cron.inScope_iff] at h1 h2
  obtain ⟨n, rfl⟩ := Int.eq_ofNat_of_zero_le (by omega : 0 ≤ frm)
  obtain ⟨m, rfl⟩ := Int.eq_ofNat_of_zero_le (by omega : 0 ≤ to)
  have := _root_.TransCron.trans_fillRangeValues n m fuel (by omega)
  simp only [Int.toNat_natCast]
  cases hr : Cron.fillRange n m with
  | none => rw [hr] at this; exact Or.inr ⟨rfl, this⟩
  | some l => rw [hr] at this; exact Or.inl ⟨l, rfl, this⟩


theorem trans_parseRangeField (field : Str) (b : Cron.Bound) (names : List Str) (fuel : Nat) (hf : b.upper + 3 ≤ fuel) :
    Agrees (parseRangeField modelExt field (bnd b) names fuel) (Cron.parseRange field b names) fld := by
  unfold parseRangeField Cron.parseRange
  have hs : Cron.splitOn '-' field = modelExt.split field ['-'] := rfl
  rw [hs]
  generalize modelExt.split field ['-'] = t
  rcases t with _ | ⟨a, _ | ⟨z, _ | ⟨y, r⟩⟩⟩
  · exact ⟨_, _, by err_eq, wraps_range⟩
  · exact ⟨_, _, by err_eq, wraps_range⟩
  · simp only [List.length_cons, List.length_nil, strIdx_zero, strIdx_one]
    rcases normalize_cases a names with ⟨v, hm, ht⟩ | ⟨_, e, hm, ht, hw⟩
    · rcases normalize_cases z names with ⟨w, hm2, ht2⟩ | ⟨_, e, hm2, ht2, hw⟩
      · simp only [hm, hm2, ht, ht2, inScope_eq, bnd_lower, bnd_upper]
        cases h1 : Cron.inScope v b.lower b.upper
        · exact ⟨_, _, by err_eq, wraps_range⟩
        · cases h2 : Cron.inScope w b.lower b.upper
          · exact ⟨_, _, by err_eq, wraps_range⟩
          · rcases fillRange_agrees v w b fuel hf h1 h2 with ⟨l, e1, e2⟩ | ⟨e1, e2⟩
            · simp [e1, e2, Agrees, fld, newCronField]
            · simp only [e1, e2]
              exact ⟨_, _, by err_eq, wraps_fillRange⟩
      · simp only [hm, hm2, ht, ht2]
        exact ⟨_, _, by err_eq, hw⟩
    · simp only [hm, ht]
      exact ⟨_, _, by err_eq, hw⟩
  · exact ⟨_, _, by err_eq, wraps_range⟩


/-! ## `parseStepField` -/

theorem model_parseStep (field : Str) (b : Cron.Bound) (names : List Str) :
    Cron.parseStep field b names =
      match Cron.splitOn '/' field with
      | [t0, t1] => Cron.stepOf b (Cron.stepFromTo b names t0) (Cron.atoi t1)
      | _ => none := by
  unfold Cron.parseStep Cron.stepOf Cron.stepFromTo
  rcases Cron.splitOn '/' field with _ | ⟨t0, _ | ⟨t1, _ | ⟨y, r⟩⟩⟩ <;> rfl

theorem fillStep_agrees (frm step to : Int) (b : Cron.Bound) (fuel : Nat) (hf : b.upper + 3 ≤ fuel)
    (h1 : Cron.inScope frm b.lower b.upper = true) (h2 : Cron.inScope step 1 b.upper = true)
    (h3 : Cron.inScope to b.lower b.upper = true) :
    (∃ l, Cron.fillStep frm.toNat step.toNat to.toNat = some l ∧
      TransCron.fillStepValues frm step to fuel = some (ints l, none)) ∨
    (Cron.fillStep frm.toNat step.toNat to.toNat = none ∧
      TransCron.fillStepValues frm step to fuel = some ([], some "newCronParseError: fill step values")) := by
  rw [Cron.inScope_iff] at h1 h2 h3
  obtain ⟨n, rfl⟩ := Int.eq_ofNat_of_zero_le (by omega : 0 ≤ frm)
  obtain ⟨k, rfl⟩ := Int.eq_ofNat_of_zero_le (by omega : 0 ≤ step)
  obtain ⟨m, rfl⟩ := Int.eq_ofNat_of_zero_le (by omega : 0 ≤ to)
  have := _root_.TransCron.trans_fillStepValues n k m fuel (by omega)
  simp only [Int.toNat_natCast]
  cases hr : Cron.fillStep n k m with
  | none => rw [hr] at this; exact Or.inr ⟨rfl, this⟩
  | some l => rw [hr] at this; exact Or.inl ⟨l, rfl, this⟩

/-- the part of `parseStepField` after `from`/`to` are known (it occurs once per `switch` case in the translation) -/
theorem step_tail (b : Cron.Bound) (fuel : Nat) (hf : b.upper + 3 ≤ fuel) (frm to : Int) (t1 : Str) :
    Agrees
      (if (atoiPair (modelExt.atoi t1)).2.isSome then
        some ((default : Trans.cronField), some "newInvalidCronFieldError: step, _")
      else
        if ((!(TransCron.inScope frm (bnd b).lower (bnd b).upper)) ||
            (!(TransCron.inScope (atoiPair (modelExt.atoi t1)).1 1 (bnd b).upper))) ||
            (!(TransCron.inScope to (bnd b).lower (bnd b).upper)) then
          some ((default : Trans.cronField), some "newInvalidCronFieldError: step, _")
        else
          (TransCron.fillStepValues frm (atoiPair (modelExt.atoi t1)).1 to fuel).bind fun r =>
          if r.2.isSome then some ((default : Trans.cronField), r.2)
          else some (newCronField r.1, (none : Option String)))
      (Cron.stepOf b (some (frm, to)) (Cron.atoi t1)) fld := by
  have ha : modelExt.atoi t1 = Cron.atoi t1 := rfl
  rw [ha]
  generalize Cron.atoi t1 = o
  cases o with
  | none => exact ⟨_, _, by err_eq, wraps_step⟩
  | some step =>
    simp only [atoiPair, Cron.stepOf, inScope_eq, bnd_lower, bnd_upper]
    cases h1 : Cron.inScope frm b.lower b.upper
    · exact ⟨_, _, by err_eq, wraps_step⟩
    · cases h2 : Cron.inScope step 1 b.upper
      · exact ⟨_, _, by err_eq, wraps_step⟩
      · cases h3 : Cron.inScope to b.lower b.upper
        · exact ⟨_, _, by err_eq, wraps_step⟩
        · rcases fillStep_agrees frm step to b fuel hf h1 h2 h3 with ⟨l, e1, e2⟩ | ⟨e1, e2⟩
          · simp [e1, e2, Agrees, fld, newCronField]
          · simp only [e1, e2]
            exact ⟨_, _, by err_eq, wraps_fillStep⟩

theorem stepOf_none (b : Cron.Bound) (o : Option Int) : Cron.stepOf b none o = none := by
  unfold Cron.stepOf; rfl

theorem trans_parseStepField (field : Str) (b : Cron.Bound) (names : List Str) (fuel : Nat) (hf : b.upper + 3 ≤ fuel) :
    Agrees (parseStepField modelExt field (bnd b) names fuel) (Cron.parseStep field b names) fld := by
  rw [model_parseStep]
  unfold parseStepField
  have hs : Cron.splitOn '/' field = modelExt.split field ['/'] := rfl
  rw [hs]
  generalize modelExt.split field ['/'] = t
  rcases t with _ | ⟨t0, _ | ⟨t1, _ | ⟨y, r⟩⟩⟩
  · exact ⟨_, _, by err_eq, wraps_step⟩
  · exact ⟨_, _, by err_eq, wraps_step⟩
  · show Agrees _ (Cron.stepOf b (Cron.stepFromTo b names t0) (Cron.atoi t1)) _
    -- name the inner split (no `generalize` after a `simp`: simp leaves `Decidable` instance arguments behind)
    obtain ⟨tr, htr⟩ : ∃ tr, Cron.splitOn '-' t0 = tr := ⟨_, rfl⟩
    unfold Cron.stepFromTo
    simp only [List.length_cons, List.length_nil, strIdx_zero, strIdx_one, ext_containsRune, ext_split, htr]
    by_cases hstar : t0 = ['*']
    · subst hstar
      simp only [if_true, decide_true]
      exact step_tail b fuel hf _ _ t1
    · by_cases hc : t0.contains '-' = true
      · simp only [hstar, hc, decide_false, Bool.false_eq_true, if_false, if_true]
        rcases tr with _ | ⟨a, _ | ⟨z, _ | ⟨y, r⟩⟩⟩
        · simp only [stepOf_none]; exact ⟨_, _, by err_eq, wraps_step⟩
        · simp only [stepOf_none]; exact ⟨_, _, by err_eq, wraps_step⟩
        · simp only [List.length_cons, List.length_nil, strIdx_zero, strIdx_one]
          rcases normalize_cases a names with ⟨v, hm, ht⟩ | ⟨_, e, hm, ht, hw⟩
          · rcases normalize_cases z names with ⟨w, hm2, ht2⟩ | ⟨_, e, hm2, ht2, hw⟩
            · simp only [hm, hm2, ht, ht2]
              exact step_tail b fuel hf v w t1
            · simp only [hm, hm2, ht, ht2, stepOf_none]
              exact ⟨_, _, by err_eq, hw⟩
          · simp only [hm, ht, stepOf_none]
            exact ⟨_, _, by err_eq, hw⟩
        · simp only [stepOf_none]; exact ⟨_, _, by err_eq, wraps_step⟩
      · simp only [hstar, hc, decide_false, Bool.false_eq_true, if_false]
        rcases normalize_cases t0 names with ⟨v, hm, ht⟩ | ⟨_, e, hm, ht, hw⟩
        · simp only [hm, ht, Option.map_some]
          exact step_tail b fuel hf v _ t1
        · simp only [hm, ht, Option.map_none, stepOf_none]
          exact ⟨_, _, by err_eq, hw⟩
  · exact ⟨_, _, by err_eq, wraps_step⟩


/-! ## `parseListField` -/

theorem insertSortedInt_ints (x : Nat) (l : List Nat) :
    insertSortedInt (x : Int) (ints l) = ints (Cron.insertSorted x l) := by
  induction l with
  | nil => rfl
  | cons h t ih =>
    simp only [ints, List.map_cons, insertSortedInt, Cron.insertSorted] at ih ⊢
    by_cases hx : x ≤ h
    · have : (x : Int) ≤ (h : Int) := by omega
      simp [hx, this]
    · have : ¬ (x : Int) ≤ (h : Int) := by omega
      simp only [hx, if_false, Int.ofNat_eq_natCast, this, List.map_cons]
      rw [← ih]

theorem sortInt_ints (l : List Nat) : sortInt (ints l) = ints (Cron.sortNat l) := by
  induction l with
  | nil => rfl
  | cons h t ih =>
    have : sortInt (ints (h :: t)) = insertSortedInt (h : Int) (sortInt (ints t)) := rfl
    rw [this, ih, insertSortedInt_ints]
    simp [Cron.sortNat]

theorem ints_append (a b : List Nat) : ints (a ++ b) = ints a ++ ints b := by simp [ints]

theorem list_loop1 (field : Str) (b : Cron.Bound) : ∀ l : List Int,
    parseListField.loop1 modelExt field (bnd b) l =
      if l.all (fun v => Cron.inScope v b.lower b.upper) then .ok ()
      else .error ((default : Trans.cronField), some "newInvalidCronFieldError: list, _") := by
  intro l
  induction l with
  | nil => rfl
  | cons h t ih =>
    unfold parseListField.loop1
    simp only [inScope_eq, bnd_lower, bnd_upper, List.all_cons]
    by_cases hh : Cron.inScope h b.lower b.upper = true
    · simp [hh, ih]
    · simp [hh]

theorem list_loop2 (b : Cron.Bound) (names : List Str) (fuel : Nat) (hf : b.upper + 3 ≤ fuel) :
    ∀ (l : List Str) (acc : List Int),
    match Cron.mapM' (fun s => Cron.parseStep s b names) l with
    | some sv => parseListField.loop2 modelExt (bnd b) names fuel acc l = some (.ok (acc ++ ints sv.flatten))
    | none => ∃ a e, parseListField.loop2 modelExt (bnd b) names fuel acc l = some (.error (a, some e)) ∧ WrapsParse e := by
  intro l
  induction l with
  | nil => intro acc; simp [Cron.mapM', parseListField.loop2, ints]
  | cons h t ih =>
    intro acc
    unfold parseListField.loop2 Cron.mapM'
    have hh := trans_parseStepField h b names fuel hf
    cases hm : Cron.parseStep h b names with
    | none =>
      rw [hm] at hh
      obtain ⟨a, e, he, hw⟩ := hh.err
      rw [he]
      exact ⟨_, _, by err_eq, hw⟩
    | some v =>
      rw [hm] at hh
      rw [hh.ok]
      simp only [Option.bind_some, Option.isSome_none, Bool.false_eq_true, if_false, fld]
      have := ih (acc ++ ints v)
      cases hr : Cron.mapM' (fun s => Cron.parseStep s b names) t with
      | none => rw [hr] at this; exact this
      | some sv => rw [hr] at this; simp [this, ints_append]

theorem list_loop3 (b : Cron.Bound) (names : List Str) (fuel : Nat) (hf : b.upper + 3 ≤ fuel) :
    ∀ (l : List Str) (acc : List Int),
    match Cron.mapM' (fun s => Cron.parseRange s b names) l with
    | some sv => parseListField.loop3 modelExt (bnd b) names fuel acc l = some (.ok (acc ++ ints sv.flatten))
    | none => ∃ a e, parseListField.loop3 modelExt (bnd b) names fuel acc l = some (.error (a, some e)) ∧ WrapsParse e := by
  intro l
  induction l with
  | nil => intro acc; simp [Cron.mapM', parseListField.loop3, ints]
  | cons h t ih =>
    intro acc
    unfold parseListField.loop3 Cron.mapM'
    have hh := trans_parseRangeField h b names fuel hf
    cases hm : Cron.parseRange h b names with
    | none =>
      rw [hm] at hh
      obtain ⟨a, e, he, hw⟩ := hh.err
      rw [he]
      exact ⟨_, _, by err_eq, hw⟩
    | some v =>
      rw [hm] at hh
      rw [hh.ok]
      simp only [Option.bind_some, Option.isSome_none, Bool.false_eq_true, if_false, fld]
      have := ih (acc ++ ints v)
      cases hr : Cron.mapM' (fun s => Cron.parseRange s b names) t with
      | none => rw [hr] at this; exact this
      | some sv => rw [hr] at this; simp [this, ints_append]

/-- integers in scope of a `Bound` are the casts of their `toNat`s -/
theorem ints_toNat_of_inScope (b : Cron.Bound) (l : List Int)
    (h : l.all (fun v => Cron.inScope v b.lower b.upper) = true) : ints (l.map Int.toNat) = l := by
  induction l with
  | nil => rfl
  | cons x t ih =>
    simp only [List.all_cons, Bool.and_eq_true, Cron.inScope_iff] at h
    have := ih (by simpa [Cron.inScope_iff] using h.2)
    simp only [ints, List.map_cons, List.map_map] at this ⊢
    rw [this]
    congr 1
    simp only [Int.ofNat_eq_natCast]
    omega

theorem trans_parseListField (field : Str) (b : Cron.Bound) (names : List Str) (fuel : Nat) (hf : b.upper + 3 ≤ fuel) :
    Agrees (parseListField modelExt field (bnd b) names fuel) (Cron.parseList field b names) fld := by
  unfold parseListField Cron.parseList
  simp only [ext_split, trans_extractStepValues, trans_extractRangeValues]
  obtain ⟨plain, hplain⟩ : ∃ p, ((Cron.splitOn ',' field).filter (fun v => !v.contains '/')).filter (fun v => !v.contains '-') = p := ⟨_, rfl⟩
  obtain ⟨steps, hsteps⟩ : ∃ p, (Cron.splitOn ',' field).filter (fun v => v.contains '/') = p := ⟨_, rfl⟩
  obtain ⟨ranges, hranges⟩ : ∃ p, ((Cron.splitOn ',' field).filter (fun v => !v.contains '/')).filter (fun v => v.contains '-') = p := ⟨_, rfl⟩
  simp only [hplain, hsteps, hranges]
  have hl := trans_translateLiterals names plain
  cases hm : Cron.mapM' (Cron.normalize names) plain with
  | none =>
    rw [hm] at hl
    obtain ⟨a, e, he, hw⟩ := hl.err
    simp only [Option.some.injEq] at he
    simp only [he]
    exact ⟨_, _, by err_eq, hw⟩
  | some lits =>
    rw [hm] at hl
    have he := hl.ok
    simp only [Option.some.injEq, id] at he
    simp only [he, Option.isSome_none, Bool.false_eq_true, if_false, list_loop1]
    cases hall : lits.all (fun v => Cron.inScope v b.lower b.upper)
    · exact ⟨_, _, by err_eq, wraps_list⟩
    · simp only [Bool.not_true, Bool.false_eq_true, if_false, if_true]
      have h2 := list_loop2 b names fuel hf steps lits
      cases hs : Cron.mapM' (fun s => Cron.parseStep s b names) steps with
      | none =>
        rw [hs] at h2
        obtain ⟨a, e, he2, hw⟩ := h2
        simp only [he2, Option.bind_some]
        exact ⟨_, _, by err_eq, hw⟩
      | some sv =>
        rw [hs] at h2
        simp only [h2, Option.bind_some]
        have h3 := list_loop3 b names fuel hf ranges (lits ++ ints sv.flatten)
        cases hr : Cron.mapM' (fun s => Cron.parseRange s b names) ranges with
        | none =>
          rw [hr] at h3
          obtain ⟨a, e, he3, hw⟩ := h3
          simp only [he3, Option.bind_some]
          exact ⟨_, _, by err_eq, hw⟩
        | some rv =>
          rw [hr] at h3
          have key : sortInt (lits ++ ints sv.flatten ++ ints rv.flatten) =
              ints (Cron.sortNat (lits.map Int.toNat ++ sv.flatten ++ rv.flatten)) := by
            rw [← sortInt_ints, ints_append, ints_append, ints_toNat_of_inScope b lits hall]
          simp only [h3, Option.bind_some, ext_sortInts, Agrees, newCronField, fld, key]


/-! ## `parseField` -/

theorem Agrees.map_fld {t : Option (Trans.cronField × Option String)} {m : Option (List Nat)}
    (h : Agrees t m fld) : Agrees t (m.map (fun v => ({ values := v } : Cron.Field))) mkField := by
  cases m with
  | none => exact h
  | some v => exact h

theorem toNat_cast_of_inScope {v : Int} {b : Cron.Bound} (h : Cron.inScope v b.lower b.upper = true) :
    ((v.toNat : Nat) : Int) = v := by
  rw [Cron.inScope_iff] at h
  omega

theorem trans_parseField (field : Str) (b : Cron.Bound) (names : List Str) (fuel : Nat) (hf : b.upper + 3 ≤ fuel) :
    Agrees (parseField modelExt field (bnd b) names fuel) (Cron.parseField field b names) mkField := by
  unfold parseField Cron.parseField
  simp only [ext_containsRune]
  by_cases h1 : field = ['*']
  · simp [h1, Agrees, mkField, newCronField, ints]
  by_cases h2 : field = ['?']
  · simp [h2, Agrees, mkField, newCronField, ints]
  simp only [h1, h2, decide_false, Bool.or_self, Bool.false_eq_true, if_false, or_self]
  by_cases hc : field.contains ',' = true
  · simp only [hc, if_true]
    exact (trans_parseListField field b names fuel hf).map_fld
  by_cases hs : field.contains '/' = true
  · simp only [hc, hs, if_true, if_false]
    exact (trans_parseStepField field b names fuel hf).map_fld
  by_cases hr : field.contains '-' = true
  · simp only [hc, hs, hr, if_true, if_false]
    exact (trans_parseRangeField field b names fuel hf).map_fld
  simp only [hc, hs, hr, if_false]
  rcases normalize_cases field names with ⟨v, hm, ht⟩ | ⟨_, e, hm, ht, hw⟩
  · simp only [hm, ht, inScope_eq, bnd_lower, bnd_upper]
    cases hi : Cron.inScope v b.lower b.upper
    · exact ⟨_, _, by err_eq, wraps_numeric⟩
    · simp [Agrees, mkField, newCronField, ints, toNat_cast_of_inScope hi]
  · simp only [hm, ht]
    exact ⟨_, _, by err_eq, hw⟩

/-! ## the regexp patterns and `TrimSuffix` -/

theorem re_lastMonthDay (s : Str) : reMatch cronLastMonthDayRegex s = Cron.matchLastMonthDay s := by
  unfold reMatch; rw [if_pos (by decide)]

theorem re_weekday (s : Str) : reMatch cronWeekdayRegex s = Cron.matchWeekday s := by
  unfold reMatch; rw [if_neg (by decide), if_pos (by decide)]

theorem re_lastWeekday (s : Str) : reMatch cronLastWeekdayRegex s = Cron.matchLastWeekday s := by
  unfold reMatch; rw [if_neg (by decide), if_neg (by decide), if_pos (by decide)]

theorem re_hash (s : Str) : reMatch cronHashRegex s = Cron.matchHash s := by
  unfold reMatch; rw [if_neg (by decide), if_neg (by decide), if_neg (by decide), if_pos (by decide)]

theorem re_whitespace (s : Str) : reReplaceAll whitespacePattern s [' '] = Cron.collapseSpace s := by
  unfold reReplaceAll; rw [if_pos ⟨by decide, rfl⟩]

theorem trimSuffix_snoc (x : Str) (c : Char) : trimSuffix (x ++ [c]) [c] = x := by
  unfold trimSuffix
  have : [c].isSuffixOf (x ++ [c]) = true := by
    rw [List.isSuffixOf_iff_suffix]; exact List.suffix_append x [c]
  simp [this]

theorem eq_snoc_of_reverse {s ds : Str} {c : Char} (h : s.reverse = c :: ds) : s = ds.reverse ++ [c] := by
  have := congrArg List.reverse h
  simpa using this

theorem matchWeekday_snoc {s : Str} (h : Cron.matchWeekday s = true) :
    ∃ x, s = x ++ ['W'] ∧ x ≠ [] := by
  unfold Cron.matchWeekday at h
  split at h
  · rename_i ds hrev
    refine ⟨ds.reverse, eq_snoc_of_reverse hrev, ?_⟩
    simp only [Bool.and_eq_true, decide_eq_true_eq] at h
    simpa using h.1
  · cases h

theorem matchLastWeekday_snoc {s : Str} (h : Cron.matchLastWeekday s = true) : ∃ x, s = x ++ ['L'] := by
  unfold Cron.matchLastWeekday at h
  split at h
  · rename_i r hrev
    exact ⟨r.reverse, eq_snoc_of_reverse hrev⟩
  · cases h


/-! ## `parseDayOfMonthField`, `parseDayOfWeekField` -/

theorem trans_parseDayOfMonthField (field : Str) (b : Cron.Bound) (fuel : Nat) (hf : b.upper + 3 ≤ fuel) :
    Agrees (parseDayOfMonthField modelExt field (bnd b) [] fuel) (Cron.parseDom field b) mkField := by
  unfold parseDayOfMonthField Cron.parseDom
  obtain ⟨sp, hsp⟩ : ∃ sp, Cron.splitOn '-' field = sp := ⟨_, rfl⟩
  simp only [ext_containsRune, ext_reMatch, re_lastMonthDay, re_weekday, ext_split, ext_trimSuffix, ext_atoi, hsp]
  by_cases hL : field.contains 'L' = true ∧ Cron.matchLastMonthDay field = true
  · simp only [hL.1, hL.2, Bool.and_self, and_self, if_true]
    by_cases h1 : field = ['L']
    · simp [h1, Agrees, mkField, newCronFieldN, ints]
    · simp only [h1, decide_false, Bool.false_eq_true, if_false]
      rcases sp with _ | ⟨a, _ | ⟨k, _ | ⟨y, r⟩⟩⟩
      · exact ⟨_, _, by err_eq, wraps_last⟩
      · exact ⟨_, _, by err_eq, wraps_last⟩
      · simp only [List.length_cons, List.length_nil, strIdx_one]
        obtain ⟨o, ho⟩ : ∃ o, Cron.atoi k = o := ⟨_, rfl⟩
        simp only [ho]
        cases o with
        | none => exact ⟨_, _, by err_eq, wraps_last⟩
        | some n =>
          simp only [atoiPair, inScope_eq, bnd_lower, bnd_upper]
          rcases Bool.eq_false_or_eq_true (Cron.inScope n b.lower b.upper) with hi | hi
          · simp [hi, Agrees, mkField, newCronFieldN, ints]
          · simp only [hi, Bool.false_eq_true, if_false]
            exact ⟨_, _, by err_eq, wraps_last⟩
      · exact ⟨_, _, by err_eq, wraps_last⟩
  · have hL' : (field.contains 'L' && Cron.matchLastMonthDay field) = false := by
      cases h1 : field.contains 'L' <;> cases h2 : Cron.matchLastMonthDay field <;> simp_all
    simp only [hL', hL, Bool.false_eq_true, if_false]
    by_cases hW : field.contains 'W' = true
    · simp only [hW, if_true, true_and]
      by_cases hLW : field = ['L', 'W']
      · simp [hLW, Agrees, mkField, newCronFieldN, ints]
      · simp only [hLW, decide_false, Bool.false_eq_true, if_false]
        by_cases hm : Cron.matchWeekday field = true
        · simp only [hm, if_true]
          obtain ⟨x, rfl, hx⟩ := matchWeekday_snoc hm
          simp only [trimSuffix_snoc, List.dropLast_concat, hx, decide_false, Bool.false_eq_true, if_false]
          obtain ⟨o, ho⟩ : ∃ o, Cron.atoi x = o := ⟨_, rfl⟩
          simp only [ho]
          cases o with
          | none => exact ⟨_, _, by err_eq, wraps_weekday⟩
          | some d =>
            simp only [atoiPair, inScope_eq, bnd_lower, bnd_upper]
            rcases Bool.eq_false_or_eq_true (Cron.inScope d b.lower b.upper) with hi | hi
            · simp [hi, Agrees, mkField, newCronFieldN, ints, toNat_cast_of_inScope hi]
            · simp only [hi, Bool.false_eq_true, if_false]
              exact ⟨_, _, by err_eq, wraps_weekday⟩
        · simp only [hm, Bool.false_eq_true, if_false]
          exact trans_parseField field b [] fuel hf
    · simp only [hW, Bool.false_eq_true, if_false, false_and]
      exact trans_parseField field b [] fuel hf

theorem trans_parseDayOfWeekField (field : Str) (b : Cron.Bound) (fuel : Nat) (hf : b.upper + 3 ≤ fuel) :
    Agrees (parseDayOfWeekField modelExt field (bnd b) Cron.dayNames fuel) (Cron.parseDow field b) mkField := by
  unfold parseDayOfWeekField Cron.parseDow
  obtain ⟨sp, hsp⟩ : ∃ sp, Cron.splitOn '#' field = sp := ⟨_, rfl⟩
  simp only [ext_containsRune, ext_reMatch, re_lastWeekday, re_hash, ext_split, ext_trimSuffix, ext_atoi, hsp]
  by_cases hL : field.contains 'L' = true ∧ Cron.matchLastWeekday field = true
  · simp only [hL.1, hL.2, Bool.and_self, and_self, if_true]
    obtain ⟨x, rfl⟩ := matchLastWeekday_snoc hL.2
    simp only [trimSuffix_snoc, List.dropLast_concat]
    by_cases hx : x = []
    · simp [hx, Agrees, mkField, newCronFieldN, ints]
    · simp only [hx, decide_false, Bool.false_eq_true, if_false]
      rcases normalize_cases x Cron.dayNames with ⟨v, hm, ht⟩ | ⟨_, e, hm, ht, hw⟩
      · simp only [hm, ht, inScope_eq, bnd_lower, bnd_upper]
        rcases Bool.eq_false_or_eq_true (Cron.inScope v b.lower b.upper) with hi | hi
        · simp [hi, Agrees, mkField, newCronFieldN, ints, toNat_cast_of_inScope hi]
        · simp only [hi, Bool.false_eq_true, if_false]
          exact ⟨_, _, by err_eq, wraps_last⟩
      · simp only [hm, ht]
        exact ⟨_, _, by err_eq, wraps_last⟩
  · have hL' : (field.contains 'L' && Cron.matchLastWeekday field) = false := by
      cases h1 : field.contains 'L' <;> cases h2 : Cron.matchLastWeekday field <;> simp_all
    simp only [hL', hL, Bool.false_eq_true, if_false]
    by_cases hH : field.contains '#' = true ∧ Cron.matchHash field = true
    · simp only [hH.1, hH.2, Bool.and_self, and_self, if_true]
      rcases sp with _ | ⟨a, _ | ⟨k, _ | ⟨y, r⟩⟩⟩
      · exact ⟨_, _, by err_eq, wraps_hash⟩
      · exact ⟨_, _, by err_eq, wraps_hash⟩
      · simp only [List.length_cons, List.length_nil, strIdx_zero, strIdx_one]
        rcases normalize_cases a Cron.dayNames with ⟨v, hm, ht⟩ | ⟨_, e, hm, ht, hw⟩
        · obtain ⟨o, ho⟩ : ∃ o, Cron.atoi k = o := ⟨_, rfl⟩
          simp only [hm, ht, ho, inScope_eq, bnd_lower, bnd_upper]
          rcases Bool.eq_false_or_eq_true (Cron.inScope v b.lower b.upper) with hi | hi
          · cases o with
            | none =>
              simp only [hi]
              exact ⟨_, _, by err_eq, wraps_hash⟩
            | some n =>
              simp only [atoiPair]
              rcases Bool.eq_false_or_eq_true (Cron.inScope n 1 5) with hn | hn
              · simp [hi, hn, Agrees, mkField, newCronFieldN, ints, toNat_cast_of_inScope hi]
              · simp only [hi, hn, Bool.and_false, Bool.false_eq_true, if_false]
                exact ⟨_, _, by err_eq, wraps_hash⟩
          · cases o with
            | none =>
              simp only [hi]
              exact ⟨_, _, by err_eq, wraps_hash⟩
            | some n =>
              simp only [hi, Bool.false_and, Bool.false_eq_true, if_false]
              exact ⟨_, _, by err_eq, wraps_hash⟩
        · simp only [hm, ht]
          exact ⟨_, _, by err_eq, wraps_hash⟩
      · exact ⟨_, _, by err_eq, wraps_hash⟩
    · have hH' : (field.contains '#' && Cron.matchHash field) = false := by
        cases h1 : field.contains '#' <;> cases h2 : Cron.matchHash field <;> simp_all
      simp only [hH', hH, Bool.false_eq_true, if_false]
      exact trans_parseField field b Cron.dayNames fuel hf


/-! ## `buildCronField` -/

theorem months_eq : months = Cron.monthNames := by decide
theorem days_eq : days = Cron.dayNames := by decide

theorem parseDow_pos {fld : Str} {f : Cron.Field} (h : Cron.parseDow fld ⟨1, 7⟩ = some f) : ∀ v ∈ f.values, 1 ≤ v := by
  unfold Cron.parseDow at h
  split at h
  · simp only at h
    split at h
    · injection h with h; subst h; simp
    · split at h
      · split at h
        · rename_i w _ hs
          injection h with h; subst h
          simp only [Cron.inScope_iff] at hs
          intro v hv
          simp only [List.mem_singleton] at hv
          subst hv; omega
        · cases h
      · cases h
  · split at h
    · split at h
      · split at h
        · split at h
          · rename_i w n _ _ hs
            injection h with h; subst h
            simp only [Bool.and_eq_true, Cron.inScope_iff] at hs
            intro v hv
            simp only [List.mem_singleton] at hv
            subst hv; omega
          · cases h
        · cases h
      · cases h
    · intro v hv
      exact ((Cron.parseField_good h).2.2 v hv).1

/-- `buildFields` as a chain of binds, in the order `buildCronField` parses the fields -/
theorem model_buildFields (bs : Cron.Bounds) (t0 t1 t2 t3 t4 t5 t6 : Str) :
    Cron.buildFields bs [t0, t1, t2, t3, t4, t5, t6] =
      (Cron.parseField t0 bs.sec []).bind fun f0 =>
      (Cron.parseField t1 bs.min []).bind fun f1 =>
      (Cron.parseField t2 bs.hour []).bind fun f2 =>
      (Cron.parseDom t3 bs.dom).bind fun f3 =>
      (Cron.parseField t4 bs.month Cron.monthNames).bind fun f4 =>
      (Cron.parseDow t5 bs.dow).bind fun f5 =>
      (Cron.parseField t6 bs.year []).bind fun f6 =>
      some { sec := f0, min := f1, hour := f2, dom := f3, month := f4,
             dow := { f5 with values := f5.values.map (· - 1) }, year := f6 } := by
  unfold Cron.buildFields
  dsimp only
  generalize Cron.parseField t0 bs.sec [] = p0
  generalize Cron.parseField t1 bs.min [] = p1
  generalize Cron.parseField t2 bs.hour [] = p2
  generalize Cron.parseDom t3 bs.dom = p3
  generalize Cron.parseField t4 bs.month Cron.monthNames = p4
  generalize Cron.parseDow t5 bs.dow = p5
  generalize Cron.parseField t6 bs.year [] = p6
  cases p0 <;> cases p1 <;> cases p2 <;> cases p3 <;> cases p4 <;> cases p5 <;> cases p6 <;> rfl

/-- one `x, err = f(…); if err != nil { return nil, err }` step -/
theorem Agrees.bind_step {α β γ δ : Type} {t : Option (α × Option String)} {m : Option β} {f : β → α}
    (h : Agrees t m f) (k : α × Option String → Option (γ × Option String)) (km : β → Option δ) (g : δ → γ)
    (herr : ∀ a e, WrapsParse e → ∃ c e', k (a, Option.some e) = Option.some (c, Option.some e') ∧ WrapsParse e')
    (hok : ∀ b, m = Option.some b → Agrees (k (f b, Option.none)) (km b) g) :
    Agrees (t.bind k) (m.bind km) g := by
  cases m with
  | none =>
    obtain ⟨a, e, he, hw⟩ := h.err
    obtain ⟨c, e', hk, hw'⟩ := herr a e hw
    rw [he]
    exact ⟨c, e', hk, hw'⟩
  | some b =>
    rw [h.ok]
    exact hok b rfl

theorem strIdx7 (t0 t1 t2 t3 t4 t5 t6 : Str) :
    strIdx [t0, t1, t2, t3, t4, t5, t6] 0 = t0 ∧ strIdx [t0, t1, t2, t3, t4, t5, t6] 1 = t1 ∧
    strIdx [t0, t1, t2, t3, t4, t5, t6] 2 = t2 ∧ strIdx [t0, t1, t2, t3, t4, t5, t6] 3 = t3 ∧
    strIdx [t0, t1, t2, t3, t4, t5, t6] 4 = t4 ∧ strIdx [t0, t1, t2, t3, t4, t5, t6] 5 = t5 ∧
    strIdx [t0, t1, t2, t3, t4, t5, t6] 6 = t6 := ⟨rfl, rfl, rfl, rfl, rfl, rfl, rfl⟩

/-- the fuel every field parser needs: the largest upper bound (year) + 3 -/
def parseFuel : Nat := 3943

theorem trans_buildCronField (t0 t1 t2 t3 t4 t5 t6 : Str) (fuel : Nat) (hf : parseFuel ≤ fuel) :
    Agrees (buildCronField modelExt [t0, t1, t2, t3, t4, t5, t6] fuel)
      (Cron.buildFields {} [t0, t1, t2, t3, t4, t5, t6]) mkFields := by
  unfold parseFuel at hf
  rw [model_buildFields]
  unfold buildCronField
  obtain ⟨e0, e1, e2, e3, e4, e5, e6⟩ := strIdx7 t0 t1 t2 t3 t4 t5 t6
  simp only [e0, e1, e2, e3, e4, e5, e6, months_eq, days_eq]
  have herr : ∀ (α : Type) (a : α) (e : String) (k : Option (List Trans.cronField × Option String)), WrapsParse e →
      ∃ c e', (if (Option.some e).isSome = true then Option.some (([] : List Trans.cronField), Option.some e) else k) =
        Option.some (c, Option.some e') ∧ WrapsParse e' :=
    fun _ _ e _ hw => ⟨[], e, by simp, hw⟩
  refine Agrees.bind_step (trans_parseField t0 ⟨0, 59⟩ [] fuel (by simp; omega)) _ _ _ (fun a e hw => herr _ a e _ hw) ?_
  intro f0 _
  simp only [Option.isSome_none, Bool.false_eq_true, if_false]
  refine Agrees.bind_step (trans_parseField t1 ⟨0, 59⟩ [] fuel (by simp; omega)) _ _ _ (fun a e hw => herr _ a e _ hw) ?_
  intro f1 _
  simp only [Option.isSome_none, Bool.false_eq_true, if_false]
  refine Agrees.bind_step (trans_parseField t2 ⟨0, 23⟩ [] fuel (by simp; omega)) _ _ _ (fun a e hw => herr _ a e _ hw) ?_
  intro f2 _
  simp only [Option.isSome_none, Bool.false_eq_true, if_false]
  refine Agrees.bind_step (trans_parseDayOfMonthField t3 ⟨1, 31⟩ fuel (by simp; omega)) _ _ _ (fun a e hw => herr _ a e _ hw) ?_
  intro f3 _
  simp only [Option.isSome_none, Bool.false_eq_true, if_false]
  refine Agrees.bind_step (trans_parseField t4 ⟨1, 12⟩ Cron.monthNames fuel (by simp; omega)) _ _ _ (fun a e hw => herr _ a e _ hw) ?_
  intro f4 _
  simp only [Option.isSome_none, Bool.false_eq_true, if_false]
  refine Agrees.bind_step (trans_parseDayOfWeekField t5 ⟨1, 7⟩ fuel (by simp; omega)) _ _ _ (fun a e hw => herr _ a e _ hw) ?_
  intro f5 hf5
  simp only [Option.isSome_none, Bool.false_eq_true, if_false]
  refine Agrees.bind_step (trans_parseField t6 ⟨1970, 3940⟩ [] fuel (by simp; omega)) _ _ _ (fun a e hw => herr _ a e _ hw) ?_
  intro f6 _
  simp only [Option.isSome_none, Bool.false_eq_true, if_false]
  have hshift := _root_.TransCron.trans_dowShift f5 (parseDow_pos hf5)
  show Option.some (_, Option.none) = Option.some (mkFields _, Option.none)
  simp only [setAt, mkFields]
  congr 2
  simp [List.replicate, Trans.idxD, hshift]


/-! ## `parseCronExpression`, `trimCronExpression` -/

theorem special_eq : special = Cron.specialTable := by decide

theorem notAny (t : Str) : (decide (t ≠ ['?']) && decide (t ≠ ['*'])) = !Cron.anyDay t := by
  unfold Cron.anyDay
  by_cases h1 : t = ['?'] <;> by_cases h2 : t = ['*'] <;> simp [h1, h2]

theorem tokens7_agree (t0 t1 t2 t3 t4 t5 t6 : Str) (fuel : Nat) (hf : parseFuel ≤ fuel) :
    Agrees
      (if ((decide (strIdx [t0, t1, t2, t3, t4, t5, t6] 3 ≠ ['?'])) && (decide (strIdx [t0, t1, t2, t3, t4, t5, t6] 3 ≠ ['*']))) &&
          ((decide (strIdx [t0, t1, t2, t3, t4, t5, t6] 5 ≠ ['?'])) && (decide (strIdx [t0, t1, t2, t3, t4, t5, t6] 5 ≠ ['*']))) then
        some (([] : List Trans.cronField), some "newCronParseError: day field set twice")
      else buildCronField modelExt [t0, t1, t2, t3, t4, t5, t6] fuel)
      (if (!Cron.anyDay ([t0, t1, t2, t3, t4, t5, t6].getD 3 []) && !Cron.anyDay ([t0, t1, t2, t3, t4, t5, t6].getD 5 [])) = true then none
       else Cron.buildFields {} [t0, t1, t2, t3, t4, t5, t6]) mkFields := by
  obtain ⟨_, _, _, e3, _, e5, _⟩ := strIdx7 t0 t1 t2 t3 t4 t5 t6
  have g3 : [t0, t1, t2, t3, t4, t5, t6].getD 3 [] = t3 := rfl
  have g5 : [t0, t1, t2, t3, t4, t5, t6].getD 5 [] = t5 := rfl
  simp only [e3, e5, g3, g5, notAny]
  rcases Bool.eq_false_or_eq_true (!Cron.anyDay t3 && !Cron.anyDay t5) with h | h
  · simp only [h, if_true]
    exact ⟨_, _, rfl, wraps_twice⟩
  · simp only [h, Bool.false_eq_true, if_false]
    exact trans_buildCronField t0 t1 t2 t3 t4 t5 t6 fuel hf

theorem length7 {α : Type} (l : List α) (h : l.length = 7) : ∃ a b c d e f g, l = [a, b, c, d, e, f, g] := by
  match l, h with
  | [a, b, c, d, e, f, g], _ => exact ⟨a, b, c, d, e, f, g, rfl⟩

/-- the part of `parseCronExpression` after tokenisation, for any token list -/
theorem tokens_agree (toks : List Str) (fuel : Nat) (hf : parseFuel ≤ fuel) :
    Agrees
      (if (decide ((toks.length : Int) < 6)) || (decide ((toks.length : Int) > 7)) then
        some (([] : List Trans.cronField), some "newCronParseError: invalid expression length")
      else
        if ((decide (strIdx (if decide ((toks.length : Int) = 6) then toks ++ [['*']] else toks) 3 ≠ ['?'])) &&
              (decide (strIdx (if decide ((toks.length : Int) = 6) then toks ++ [['*']] else toks) 3 ≠ ['*']))) &&
            ((decide (strIdx (if decide ((toks.length : Int) = 6) then toks ++ [['*']] else toks) 5 ≠ ['?'])) &&
              (decide (strIdx (if decide ((toks.length : Int) = 6) then toks ++ [['*']] else toks) 5 ≠ ['*']))) then
          some (([] : List Trans.cronField), some "newCronParseError: day field set twice")
        else buildCronField modelExt (if decide ((toks.length : Int) = 6) then toks ++ [['*']] else toks) fuel)
      (Cron.parseTokens {} toks) mkFields := by
  unfold Cron.parseTokens
  by_cases hlen : toks.length < 6 ∨ toks.length > 7
  · have : (decide ((toks.length : Int) < 6) || decide ((toks.length : Int) > 7)) = true := by
      rcases hlen with h | h
      · have : (toks.length : Int) < 6 := by omega
        simp [this]
      · have : (toks.length : Int) > 7 := by omega
        simp [this]
    rw [if_pos this, if_pos hlen]
    exact ⟨_, _, rfl, wraps_length⟩
  · have : (decide ((toks.length : Int) < 6) || decide ((toks.length : Int) > 7)) = false := by
      have h1 : ¬ (toks.length : Int) < 6 := by omega
      have h2 : ¬ (toks.length : Int) > 7 := by omega
      simp [h1, h2]
    rw [if_neg (by simp [this]), if_neg hlen]
    by_cases h6 : toks.length = 6
    · have h6' : decide ((toks.length : Int) = 6) = true := by
        have : (toks.length : Int) = 6 := by omega
        simp [this]
      obtain ⟨t0, t1, t2, t3, t4, t5, t6, hl⟩ := length7 (toks ++ [['*']]) (by simp [h6])
      simp only [h6', if_true, h6, hl]
      exact tokens7_agree t0 t1 t2 t3 t4 t5 t6 fuel hf
    · have h6' : decide ((toks.length : Int) = 6) = false := by
        have : ¬ (toks.length : Int) = 6 := by omega
        simp [this]
      obtain ⟨t0, t1, t2, t3, t4, t5, t6, hl⟩ := length7 toks (by omega)
      subst hl
      simp only [h6', Bool.false_eq_true, if_false, h6]
      exact tokens7_agree t0 t1 t2 t3 t4 t5 t6 fuel hf

theorem trans_parseCronExpression (expr : Str) (fuel : Nat) (hf : parseFuel ≤ fuel) :
    Agrees (parseCronExpression modelExt expr fuel) (Cron.parseExpr {} expr) mkFields := by
  rw [Cron.parseExpr_eq]
  unfold parseCronExpression
  rw [special_eq]
  have htok : (if (mapLookup Cron.specialTable expr).2 = true then modelExt.split (mapLookup Cron.specialTable expr).1 [' ']
      else modelExt.split expr [' ']) = Cron.tokensOf expr := by
    unfold mapLookup Cron.tokensOf
    cases List.lookup expr Cron.specialTable <;> rfl
  simp only [htok]
  exact tokens_agree (Cron.tokensOf expr) fuel hf

theorem trans_trimCronExpression (s : Str) : trimCronExpression modelExt s = Cron.trimExpr s := by
  unfold trimCronExpression Cron.trimExpr
  simp only [ext_trimSpace, ext_reReplaceAll, re_whitespace]


/-! ## `ValidateCronExpression`, `NewCronTriggerWithLoc`, `NewCronTrigger` -/

theorem trans_ValidateCronExpression (s : Str) (fuel : Nat) (hf : parseFuel ≤ fuel) :
    match Cron.parse {} s with
    | some _ => ValidateCronExpression modelExt s fuel = some none
    | none => ∃ e, ValidateCronExpression modelExt s fuel = some (some e) ∧ WrapsParse e := by
  unfold ValidateCronExpression Cron.parse
  rw [trans_trimCronExpression]
  have h := trans_parseCronExpression (Cron.trimExpr s) fuel hf
  cases hm : Cron.parseExpr {} (Cron.trimExpr s) with
  | none =>
    rw [hm] at h
    obtain ⟨a, e, he, hw⟩ := h.err
    rw [he]
    exact ⟨e, rfl, hw⟩
  | some f =>
    rw [hm] at h
    rw [h.ok]
    rfl

theorem lastDefined_loop : ∀ (l : List Trans.cronField) (i ld : Int), 0 ≤ i →
    (NewCronTriggerWithLoc.loop1 modelExt i ld l = -1 ↔ ld = -1 ∧ ∀ f ∈ l, f.values = []) := by
  intro l
  induction l with
  | nil => intro i ld _; simp [NewCronTriggerWithLoc.loop1]
  | cons h t ih =>
    intro i ld hi
    unfold NewCronTriggerWithLoc.loop1
    simp only
    rw [ih _ _ (by omega)]
    by_cases hv : h.values = []
    · simp [hv]
    · have : (h.values.length : Int) > 0 := by
        have : h.values.length ≠ 0 := by simpa using hv
        omega
      simp only [this, decide_true, if_true, List.mem_cons, forall_eq_or_imp, hv, false_and, and_false, iff_false,
        not_and]
      intro h1; omega

/-- `lastDefined` as `NewCronTriggerWithLoc` computes it from the parsed fields (before the full-wildcard adjustment) -/
def lastDefinedOf (g : Cron.Fields) : Int := NewCronTriggerWithLoc.loop1 modelExt 0 (-1) (mkFields g)

theorem ints_eq_nil (l : List Nat) : ints l = [] ↔ l = [] := by simp [ints]

theorem lastDefinedOf_eq (g : Cron.Fields) : lastDefinedOf g = -1 ↔ Cron.allAny g = true := by
  unfold lastDefinedOf
  rw [lastDefined_loop _ _ _ (by omega)]
  simp [mkFields, mkField, ints_eq_nil, Cron.allAny, and_assoc]

theorem fillRange_0_59 (fuel : Nat) (hf : parseFuel ≤ fuel) :
    TransCron.fillRangeValues 0 59 fuel = some (ints (List.range 60), none) := by
  unfold parseFuel at hf
  have := _root_.TransCron.trans_fillRangeValues 0 59 fuel (by omega)
  have e : Cron.fillRange 0 59 = some (List.range 60) := by decide
  rw [e] at this
  exact this

theorem mkFields_finish (g : Cron.Fields) (h : Cron.allAny g = true) :
    setAt (mkFields g) 0 { (Trans.idxD (mkFields g) 0) with values := ints (List.range 60) } = mkFields (Cron.finish g) := by
  simp [Cron.finish, h, mkFields, mkField, setAt, Trans.idxD]

theorem finish_of_not (g : Cron.Fields) (h : ¬ Cron.allAny g = true) : Cron.finish g = g := by
  simp [Cron.finish, h]

theorem trans_NewCronTriggerWithLoc (s : Str) (fuel : Nat) (hf : parseFuel ≤ fuel) :
    Agrees (NewCronTriggerWithLoc modelExt s false fuel) (Cron.parse {} s)
      (fun g => TransCron.mkTrigger (String.ofList (Cron.trimExpr s)) (Cron.finish g) (lastDefinedOf g)) := by
  unfold NewCronTriggerWithLoc Cron.parse
  simp only [Bool.false_eq_true, if_false]
  rw [trans_trimCronExpression]
  have h := trans_parseCronExpression (Cron.trimExpr s) fuel hf
  cases hm : Cron.parseExpr {} (Cron.trimExpr s) with
  | none =>
    rw [hm] at h
    obtain ⟨a, e, he, hw⟩ := h.err
    rw [he]
    exact ⟨_, _, by err_eq, hw⟩
  | some g =>
    rw [hm] at h
    rw [h.ok]
    simp only [Option.bind_some, Option.isSome_none, Bool.false_eq_true, if_false]
    show Agrees (if decide (lastDefinedOf g = -1) = true then _ else _) _ _
    by_cases ha : Cron.allAny g = true
    · have hl : lastDefinedOf g = -1 := (lastDefinedOf_eq g).2 ha
      simp only [hl, decide_true, if_true, fillRange_0_59 fuel hf, Option.bind_some, mkFields_finish g ha]
      rfl
    · have hl : ¬ lastDefinedOf g = -1 := fun h => ha ((lastDefinedOf_eq g).1 h)
      simp only [hl, decide_false, Bool.false_eq_true, if_false]
      unfold Agrees
      simp only [finish_of_not g ha]
      rfl

theorem trans_NewCronTrigger (s : Str) (fuel : Nat) (hf : parseFuel ≤ fuel) :
    Agrees (NewCronTrigger modelExt s fuel) (Cron.parse {} s)
      (fun g => TransCron.mkTrigger (String.ofList (Cron.trimExpr s)) (Cron.finish g) (lastDefinedOf g)) :=
  trans_NewCronTriggerWithLoc s fuel hf

end TransParse
