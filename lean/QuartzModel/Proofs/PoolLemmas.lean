import QuartzModel.Sched.Pool
/-!
# Helper lemmas for C12 (`Sched/Pool.lean`): list facts, `run`, the three mode invariants
-/
namespace Pool

/-! ## lists of worker flags -/

theorem exists_idle : ∀ (l : List Bool), l.count true < l.length → ∃ i : Nat, l[i]? = some false
  | [], h => by simp at h
  | false :: _, _ => ⟨0, rfl⟩
  | true :: l, h => by
    have h' : l.count true < l.length := by simp at h; omega
    obtain ⟨i, hi⟩ := exists_idle l h'
    exact ⟨i + 1, by simpa using hi⟩

theorem count_set_busy : ∀ (l : List Bool) (i : Nat), l[i]? = some false →
    (l.set i true).count true = l.count true + 1
  | [], i, h => by simp at h
  | b :: l, 0, h => by
    have hb : b = false := by simpa using h
    subst hb; simp
  | b :: l, i + 1, h => by
    have h' : l[i]? = some false := by simpa using h
    have ih := count_set_busy l i h'
    cases b <;> simp [ih]

theorem all_busy_no_idle (l : List Bool) (h : l.count true = l.length) (i : Nat) : l[i]? ≠ some false := by
  intro hi
  have h1 := count_set_busy l i hi
  have h2 : (l.set i true).count true ≤ (l.set i true).length := List.count_le_length
  rw [List.length_set] at h2
  omega

/-! ## runs -/

theorem run_append (code : Code) (c : Cfg) (s : St) (as bs : List Act) :
    run code c s (as ++ bs) = (run code c s as).bind (fun s' => run code c s' bs) := by
  induction as generalizing s with
  | nil => simp [run]
  | cons a as ih =>
    simp only [List.cons_append, run]
    cases step code c s a with
    | none => simp
    | some s1 => simpa using ih s1

/-- an invariant of `step` holds along every run -/
theorem run_inv (code : Code) (c : Cfg) (P : St → Prop)
    (hstep : ∀ s a s', P s → step code c s a = some s' → P s') :
    ∀ (as : List Act) (s s' : St), P s → run code c s as = some s' → P s' := by
  intro as
  induction as with
  | nil => intro s s' hp h; simp [run] at h; subst h; exact hp
  | cons a as ih =>
    intro s s' hp h
    simp only [run] at h
    cases hst : step code c s a with
    | none => simp [hst] at h
    | some s1 =>
      simp [hst] at h
      exact ih s1 s' (hstep s a s1 hp hst) h

theorem reach_inv (code : Code) (c : Cfg) (P : St → Prop) (hinit : ∀ p, P (init code c p))
    (hstep : ∀ s a s', P s → step code c s a = some s' → P s') (s : St) (hr : Reach code c s) : P s := by
  obtain ⟨p, as, h⟩ := hr
  exact run_inv code c P hstep as _ s (hinit p) h

theorem reach_step (code : Code) (c : Cfg) (s s' : St) (a : Act) (hr : Reach code c s)
    (h : step code c s a = some s') : Reach code c s' := by
  obtain ⟨p, as, hrun⟩ := hr
  refine ⟨p, as ++ [a], ?_⟩
  rw [run_append, hrun]
  simp [run, h]

/-! ## the arms of the real switch -/

theorem arm_std_blocking (c : Cfg) (h : c.blocking = true) : Code.std.arm c = .inline := by
  simp [Code.arm, Code.std, pick, Guard.holds, h]

theorem arm_std_pool (c : Cfg) (hb : c.blocking = false) (hn : 0 < c.workerLimit) :
    Code.std.arm c = .handoff := by
  simp [Code.arm, Code.std, pick, Guard.holds, hb, hn]

theorem arm_std_unbounded (c : Cfg) (hb : c.blocking = false) (hn : c.workerLimit = 0) :
    Code.std.arm c = .spawn := by
  simp [Code.arm, Code.std, pick, Guard.holds, hb, hn]

theorem workers_std_blocking (c : Cfg) (h : c.blocking = true) : Code.std.workers c = 0 := by
  simp [Code.workers, Code.std, h]

theorem workers_std_pool (c : Cfg) (hb : c.blocking = false) (hn : 0 < c.workerLimit) :
    Code.std.workers c = c.workerLimit := by
  simp [Code.workers, Code.std, hb, hn]

theorem workers_std_unbounded (c : Cfg) (hn : c.workerLimit = 0) : Code.std.workers c = 0 := by
  simp [Code.workers, Code.std, hn]

/-! ## mode invariants -/

/-- blocking mode: no workers, no per-execution goroutines, empty channel -/
def InvBlocking (s : St) : Prop := s.workers = [] ∧ s.spawned = 0 ∧ s.chan = 0

theorem invBlocking_init (c : Cfg) (h : c.blocking = true) (p : Nat) : InvBlocking (init Code.std c p) := by
  simp [InvBlocking, init, workers_std_blocking c h]

theorem invBlocking_step (c : Cfg) (h : c.blocking = true) (s : St) (a : Act) (s' : St)
    (hi : InvBlocking s) (hs : step Code.std c s a = some s') : InvBlocking s' := by
  obtain ⟨hw, hsp, hch⟩ := hi
  have harm := arm_std_blocking c h
  cases a <;> simp only [step, harm] at hs
  case arrive => simp at hs; subst hs; exact ⟨hw, hsp, hch⟩
  case fetch => split at hs <;> simp at hs; subst hs; exact ⟨hw, hsp, hch⟩
  case runInline => split at hs <;> simp at hs; subst hs; exact ⟨hw, hsp, hch⟩
  case inlineDone => split at hs <;> simp at hs; subst hs; exact ⟨hw, hsp, hch⟩
  case handoff i => simp at hs
  case sendBuf => simp at hs
  case recvBuf i => simp [hw] at hs
  case workerDone i => simp [hw] at hs
  case spawn => simp at hs
  case spawnedDone => split at hs <;> simp at hs; subst hs; exact ⟨hw, by simp; omega, hch⟩
  case skipJob => simp at hs

/-- pool mode: the loop never executes itself, no per-execution goroutines, `n` workers, and the
    unbuffered channel never holds a job -/
def InvPool (n : Nat) (s : St) : Prop :=
  s.pc ≠ .executing ∧ s.spawned = 0 ∧ s.workers.length = n ∧ s.chan = 0

theorem invPool_init (c : Cfg) (hb : c.blocking = false) (hn : 0 < c.workerLimit) (p : Nat) :
    InvPool c.workerLimit (init Code.std c p) := by
  simp [InvPool, init, workers_std_pool c hb hn]

theorem invPool_step (c : Cfg) (hb : c.blocking = false) (hn : 0 < c.workerLimit) (s : St) (a : Act)
    (s' : St) (hi : InvPool c.workerLimit s) (hs : step Code.std c s a = some s') :
    InvPool c.workerLimit s' := by
  obtain ⟨hpc, hsp, hw, hch⟩ := hi
  have harm := arm_std_pool c hb hn
  cases a <;> simp only [step, harm] at hs
  case arrive => simp at hs; subst hs; exact ⟨hpc, hsp, hw, hch⟩
  case fetch => split at hs <;> simp at hs; subst hs; exact ⟨by simp, hsp, hw, hch⟩
  case runInline => simp at hs
  case inlineDone => split at hs <;> simp at hs; subst hs; exact ⟨by simp, hsp, hw, hch⟩
  case handoff i =>
    split at hs <;> simp at hs; subst hs
    exact ⟨by simp, hsp, by simp [hw], hch⟩
  case sendBuf => simp [Code.std] at hs
  case recvBuf i => simp [hch] at hs
  case workerDone i =>
    split at hs <;> simp at hs; subst hs
    exact ⟨hpc, hsp, by simp [hw], hch⟩
  case spawn => simp at hs
  case spawnedDone => simp [hsp] at hs
  case skipJob => simp at hs

/-- unbounded mode: the loop never executes itself, there are no workers -/
def InvUnbounded (s : St) : Prop := s.pc ≠ .executing ∧ s.workers = [] ∧ s.chan = 0

theorem invUnbounded_init (c : Cfg) (hn : c.workerLimit = 0) (p : Nat) :
    InvUnbounded (init Code.std c p) := by
  simp [InvUnbounded, init, workers_std_unbounded c hn]

theorem invUnbounded_step (c : Cfg) (hb : c.blocking = false) (hn : c.workerLimit = 0) (s : St) (a : Act)
    (s' : St) (hi : InvUnbounded s) (hs : step Code.std c s a = some s') : InvUnbounded s' := by
  obtain ⟨hpc, hw, hch⟩ := hi
  have harm := arm_std_unbounded c hb hn
  cases a <;> simp only [step, harm] at hs
  case arrive => simp at hs; subst hs; exact ⟨hpc, hw, hch⟩
  case fetch => split at hs <;> simp at hs; subst hs; exact ⟨by simp, hw, hch⟩
  case runInline => simp at hs
  case inlineDone => split at hs <;> simp at hs; subst hs; exact ⟨by simp, hw, hch⟩
  case handoff i => simp at hs
  case sendBuf => simp at hs
  case recvBuf i => simp [hw] at hs
  case workerDone i => simp [hw] at hs
  case spawn => split at hs <;> simp at hs; subst hs; exact ⟨by simp, hw, hch⟩
  case spawnedDone => split at hs <;> simp at hs; subst hs; exact ⟨hpc, hw, hch⟩
  case skipJob => simp at hs

/-! ## filling the pool: `m` further hand-offs without any job finishing -/

/-- one fetch followed by a hand-off to an idle worker -/
theorem fill_one (c : Cfg) (hb : c.blocking = false) (hn : 0 < c.workerLimit) (s : St)
    (hpc : s.pc = .idle) (hp : 0 < s.pending) (hidle : busy s < s.workers.length) :
    ∃ i s', run Code.std c s [.fetch, .handoff i] = some s' ∧ s'.pc = .idle ∧
      s'.pending = s.pending - 1 ∧ busy s' = busy s + 1 ∧ s'.workers.length = s.workers.length ∧
      s'.spawned = s.spawned := by
  obtain ⟨i, hi⟩ := exists_idle s.workers hidle
  have harm := arm_std_pool c hb hn
  refine ⟨i, { s with pc := .idle, pending := s.pending - 1, workers := s.workers.set i true }, ?_, rfl, rfl,
    ?_, by simp, rfl⟩
  · simp [run, step, hpc, hp, harm, hi]
  · simpa [busy] using count_set_busy s.workers i hi

theorem fill (c : Cfg) (hb : c.blocking = false) (hn : 0 < c.workerLimit) :
    ∀ (m : Nat) (s : St), s.pc = .idle → m ≤ s.pending → busy s + m ≤ s.workers.length →
    ∃ as s', (∀ a ∈ as, a.isFinish = false) ∧ run Code.std c s as = some s' ∧ s'.pc = .idle ∧
      busy s' = busy s + m ∧ s'.spawned = s.spawned := by
  intro m
  induction m with
  | zero => intro s hpc _ _; exact ⟨[], s, by simp, rfl, hpc, rfl, rfl⟩
  | succ m ih =>
    intro s hpc hp hb'
    obtain ⟨i, s1, hrun1, hpc1, hp1, hbusy1, hlen1, hsp1⟩ :=
      fill_one c hb hn s hpc (by omega) (by omega)
    obtain ⟨as, s2, hfin, hrun2, hpc2, hbusy2, hsp2⟩ :=
      ih s1 hpc1 (by omega) (by omega)
    refine ⟨[.fetch, .handoff i] ++ as, s2, ?_, ?_, hpc2, by omega, by omega⟩
    · intro a ha
      simp only [List.mem_append, List.mem_cons, List.not_mem_nil, or_false] at ha
      rcases ha with (rfl | rfl) | ha
      · rfl
      · rfl
      · exact hfin a ha
    · rw [run_append, hrun1]; simpa using hrun2

/-- unbounded mode: `m` further dispatches without any job finishing -/
theorem flood (c : Cfg) (hb : c.blocking = false) (hn : c.workerLimit = 0) :
    ∀ (m : Nat) (s : St), s.pc = .idle → m ≤ s.pending →
    ∃ as s', (∀ a ∈ as, a.isFinish = false) ∧ run Code.std c s as = some s' ∧ s'.pc = .idle ∧
      s'.spawned = s.spawned + m ∧ s'.workers = s.workers := by
  intro m
  induction m with
  | zero => intro s hpc _; exact ⟨[], s, by simp, rfl, hpc, rfl, rfl⟩
  | succ m ih =>
    intro s hpc hp
    have harm := arm_std_unbounded c hb hn
    let s1 : St := { s with pc := .idle, pending := s.pending - 1, spawned := s.spawned + 1 }
    have hrun1 : run Code.std c s [.fetch, .spawn] = some s1 := by
      have : 0 < s.pending := by omega
      simp [run, step, hpc, this, harm, s1]
    obtain ⟨as, s2, hfin, hrun2, hpc2, hsp2, hw2⟩ := ih s1 rfl (by simp [s1]; omega)
    refine ⟨[.fetch, .spawn] ++ as, s2, ?_, ?_, hpc2, by simp [s1] at hsp2; omega, by simpa [s1] using hw2⟩
    · intro a ha
      simp only [List.mem_append, List.mem_cons, List.not_mem_nil, or_false] at ha
      rcases ha with (rfl | rfl) | ha
      · rfl
      · rfl
      · exact hfin a ha
    · rw [run_append, hrun1]; simpa using hrun2

/-! ## several runs: a worker of run `h` only ever executes jobs handed off by the loop of run `h` -/

theorem set_get_cases {α : Type} {l : List α} {i j : Nat} {x y : α} (h : (l.set i x)[j]? = some y) :
    (j = i ∧ y = x) ∨ l[j]? = some y := by
  rw [List.getElem?_set] at h
  by_cases hij : i = j
  · subst hij
    simp only [if_true] at h
    split at h
    · exact Or.inl ⟨rfl, (Option.some.inj h).symm⟩
    · cases h
  · simp only [hij, if_false] at h
    exact Or.inr h

def InvR (s : RSt) : Prop :=
  ∀ (h : Nat) (r : RunRec), s.runs[h]? = some r → ∀ (i g : Nat), r.workers[i]? = some (.busy g) → g = h

theorem invR_setRun {s : RSt} {g : Nat} {r' : RunRec} (hi : InvR s)
    (hr : ∀ (i g' : Nat), r'.workers[i]? = some (.busy g') → g' = g) : InvR (setRun s g r') := by
  intro h r hh i g' hw
  simp only [setRun] at hh
  rcases set_get_cases hh with ⟨rfl, rfl⟩ | hh'
  · exact hr i g' hw
  · exact hi h r hh' i g' hw

theorem invR_step (s s' : RSt) (a : RAct) (hi : InvR s) (hs : rstep RunsCode.std s a = some s') : InvR s' := by
  cases a <;> simp only [rstep] at hs
  case start n =>
    cases hs
    intro h r hh i g hw
    by_cases hl : h < s.runs.length
    · rw [List.getElem?_append_left hl] at hh; exact hi h r hh i g hw
    · rw [List.getElem?_append_right (by omega)] at hh
      rcases Nat.eq_zero_or_pos (h - s.runs.length) with h0 | h0
      · rw [h0] at hh
        simp only [List.getElem?_cons_zero, Option.some.injEq] at hh
        subst hh
        simp only [List.getElem?_replicate] at hw
        split at hw <;> cases hw
      · rw [List.getElem?_eq_none (by simp; omega)] at hh; cases hh
  case cancel g =>
    split at hs
    · rename_i r hr; cases hs
      exact invR_setRun hi (fun i g' hw => hi g r hr i g' hw)
    · cases hs
  case fetch g =>
    split at hs
    · rename_i r hr
      split at hs <;> cases hs
      exact invR_setRun hi (fun i g' hw => hi g r hr i g' hw)
    · cases hs
  case handoff g h i =>
    split at hs
    · rename_i rg rh hrg hrh
      split at hs
      · rename_i hc
        have hgh : g = h := by
          have := hc.2.2.1
          simpa [RunsCode.chanOf, RunsCode.std] using this
        have hi1 : InvR (setRun s g { rg with holding := false }) :=
          invR_setRun hi (fun i g' hw => hi g rg hrg i g' hw)
        split at hs
        · rename_i rh' hrh'
          cases hs
          apply invR_setRun hi1
          intro j g' hw
          rcases set_get_cases hw with ⟨_, hb⟩ | hw'
          · cases hb; exact hgh
          · exact hi1 h rh' hrh' j g' hw'
        · cases hs
      · cases hs
    · cases hs
  case loopExit g =>
    split at hs
    · rename_i r hr
      split at hs <;> cases hs
      exact invR_setRun hi (fun i g' hw => hi g r hr i g' hw)
    · cases hs
  case workerDone h i =>
    split at hs
    · rename_i r hr
      split at hs
      · cases hs
        apply invR_setRun hi
        intro j g' hw
        rcases set_get_cases hw with ⟨_, hb⟩ | hw'
        · cases hb
        · exact hi h r hr j g' hw'
      · cases hs
    · cases hs
  case workerExit h i =>
    split at hs
    · rename_i r hr
      split at hs <;> cases hs
      apply invR_setRun hi
      intro j g' hw
      rcases set_get_cases hw with ⟨_, hb⟩ | hw'
      · cases hb
      · exact hi h r hr j g' hw'
    · cases hs

theorem invR_run : ∀ (as : List RAct) (s s' : RSt), InvR s → rrun RunsCode.std s as = some s' → InvR s' := by
  intro as
  induction as with
  | nil => intro s s' hi h; simp [rrun] at h; subst h; exact hi
  | cons a as ih =>
    intro s s' hi h
    simp only [rrun] at h
    cases hst : rstep RunsCode.std s a with
    | none => simp [hst] at h
    | some s1 =>
      simp [hst] at h
      exact ih s1 s' (invR_step s s1 a hi hst) h

end Pool
