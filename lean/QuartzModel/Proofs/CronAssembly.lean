import QuartzModel.Cron.NextFire
import QuartzModel.Cron.Spec
import QuartzModel.Proofs.Odometer
import QuartzModel.Proofs.CalendarLemmas
import QuartzModel.Proofs.CommonNode
import QuartzModel.Proofs.DayContract
import QuartzModel.Proofs.DaySpec
/-!
# Assembly: from the component contracts to `csmNext` and `nextFire` on a fixed-offset location

Helpers for `Theorems/C01.lean`, `C02.lean`, `C06.lean`.

* `levels_ok`, `levels_bound`: the six levels built from well-formed fields meet the odometer
  contract (`Odo.LvlOK`) and the digit bounds (`Odo.LvlBound B6`);
* `allValid_iff_matches`: "every level valid" is the declarative `Matches`;
* `Lt6_iff`, `lt_cfgOfCivil_iff`: the odometer order on six levels is `Civil.lexLt`;
* `csmNext_ne_none`: the fuel constant suffices for every start that is a valid civil time
  (any year, also beyond the node range);
* `csmNext_spec_some`, `csmNext_spec_none`: one call of the state machine returns the least matching
  civil time strictly after the start / reports exhaustion iff there is none;
* `nextFire_fixed`: on a fixed-offset location `nextFire` is one call of the state machine.
-/
namespace Odo

variable (L : Nat → Lvl) (D : ∀ k, LvlDec (L k))

/-- `findForward` never runs out of fuel from a start inside the box when the fuel exceeds the
measure bound (first pass included). -/
theorem findForward_fuel (B : Nat → Nat) (n : Nat) (hL : ∀ k, LvlOK n k (L k))
    (hB : ∀ k, LvlBound B k (L k)) (μ : Cfg → Nat) (M : Nat) (hμ : Measure B n μ M)
    (p : Cfg) (fuel : Nat) (hbox : InBox B n p) (hf : M < fuel) :
    findForward L D n fuel p ≠ none := by
  have hLB0 : LB L n p p := fun u _ hpu => Or.inl hpu
  have hInv0 : Inv L n 0 p p := fun u _ hpu => by
    obtain ⟨i, hi, hlt, hag⟩ := hpu
    exact ⟨i, Nat.zero_le _, hi, hlt, hag⟩
  have hs := advFrom_spec L D n hL p n (Nat.le_refl _) p hLB0
  have ho := overflowFrom_spec L n hL p 0 p hInv0
  unfold findForward
  cases hadv : advFrom L D n n p with
  | none =>
    simp only
    cases hb : (overflowFrom L n 0 p).2 with
    | true => simp
    | false =>
      simp only [Bool.false_eq_true, if_false]
      have hbox' : InBox B n (overflowFrom L n 0 p).1 := InBox_overflowFrom L B n hB 0 p hbox
      exact loop_fuel L D B n hL hB μ M hμ p fuel _ hbox' (ho.1 hb) (by omega)
  | some res =>
    obtain ⟨c', b⟩ := res
    cases b with
    | true => simp
    | false =>
      simp only [Bool.false_eq_true, if_false]
      obtain ⟨hLB', _⟩ := hs.2.1 c' hadv
      have hbox' : InBox B n c' := InBox_advFrom L D B n hB n (Nat.le_refl _) p hbox (c', false) hadv
      exact loop_fuel L D B n hL hB μ M hμ p fuel c' hbox' hLB' (by omega)

/-- the odometer order on six levels, spelled out -/
theorem Lt6_iff (a b : Cfg) :
    Lt 6 a b ↔
      a 5 < b 5 ∨ (a 5 = b 5 ∧ (a 4 < b 4 ∨ (a 4 = b 4 ∧ (a 3 < b 3 ∨ (a 3 = b 3 ∧
      (a 2 < b 2 ∨ (a 2 = b 2 ∧ (a 1 < b 1 ∨ (a 1 = b 1 ∧ a 0 < b 0))))))))) := by
  constructor
  · rintro ⟨k, hk, hlt, hag⟩
    have e1 := hag 1; have e2 := hag 2; have e3 := hag 3; have e4 := hag 4; have e5 := hag 5
    have hk6 : k = 0 ∨ k = 1 ∨ k = 2 ∨ k = 3 ∨ k = 4 ∨ k = 5 := by omega
    rcases hk6 with rfl | rfl | rfl | rfl | rfl | rfl
    · have := e1 (by omega) (by omega); have := e2 (by omega) (by omega)
      have := e3 (by omega) (by omega); have := e4 (by omega) (by omega)
      have := e5 (by omega) (by omega); omega
    · have := e2 (by omega) (by omega)
      have := e3 (by omega) (by omega); have := e4 (by omega) (by omega)
      have := e5 (by omega) (by omega); omega
    · have := e3 (by omega) (by omega); have := e4 (by omega) (by omega)
      have := e5 (by omega) (by omega); omega
    · have := e4 (by omega) (by omega)
      have := e5 (by omega) (by omega); omega
    · have := e5 (by omega) (by omega); omega
    · omega
  · intro h
    have key : ∀ k, k < 6 → a k < b k → (∀ j, k < j → j < 6 → a j = b j) → Lt 6 a b :=
      fun k hk hlt hag => ⟨k, hk, hlt, hag⟩
    rcases h with h | ⟨e5, h | ⟨e4, h | ⟨e3, h | ⟨e2, h | ⟨e1, h⟩⟩⟩⟩⟩
    · exact key 5 (by omega) h (fun j h1 h2 => by omega)
    · refine key 4 (by omega) h (fun j h1 h2 => ?_)
      have : j = 5 := by omega
      subst this; exact e5
    · refine key 3 (by omega) h (fun j h1 h2 => ?_)
      have : j = 4 ∨ j = 5 := by omega
      rcases this with rfl | rfl <;> assumption
    · refine key 2 (by omega) h (fun j h1 h2 => ?_)
      have : j = 3 ∨ j = 4 ∨ j = 5 := by omega
      rcases this with rfl | rfl | rfl <;> assumption
    · refine key 1 (by omega) h (fun j h1 h2 => ?_)
      have : j = 2 ∨ j = 3 ∨ j = 4 ∨ j = 5 := by omega
      rcases this with rfl | rfl | rfl | rfl <;> assumption
    · refine key 0 (by omega) h (fun j h1 h2 => ?_)
      have : j = 1 ∨ j = 2 ∨ j = 3 ∨ j = 4 ∨ j = 5 := by omega
      rcases this with rfl | rfl | rfl | rfl | rfl <;> assumption

theorem Le6_iff (a b : Cfg) :
    Le 6 a b ↔ Lt 6 a b ∨ (a 0 = b 0 ∧ a 1 = b 1 ∧ a 2 = b 2 ∧ a 3 = b 3 ∧ a 4 = b 4 ∧ a 5 = b 5) := by
  unfold Le
  constructor
  · rintro (h | h)
    · exact Or.inl h
    · exact Or.inr ⟨h 0 (by omega), h 1 (by omega), h 2 (by omega), h 3 (by omega), h 4 (by omega),
        h 5 (by omega)⟩
  · rintro (h | ⟨h0, h1, h2, h3, h4, h5⟩)
    · exact Or.inl h
    · refine Or.inr (fun j hj => ?_)
      have : j = 0 ∨ j = 1 ∨ j = 2 ∨ j = 3 ∨ j = 4 ∨ j = 5 := by omega
      rcases this with rfl | rfl | rfl | rfl | rfl | rfl <;> assumption

/-- one unfolding of the validation pass -/
theorem advFrom_succ (n m : Nat) (c : Cfg) :
    advFrom L D n (m+1) c =
      if (D m).isValid c (c m) then advFrom L D n m c else
        some (if ((L m).next c (c m)).2
          then overflowFrom L n (m+1) (resetFrom L m (set c m ((L m).next c (c m)).1))
          else (resetFrom L m (set c m ((L m).next c (c m)).1), false)) := rfl

/-- if the most significant digit is invalid and cannot be advanced, the first pass exhausts -/
theorem findForward_top_overflow (m fuel : Nat) (c : Cfg) (hinv : (D m).isValid c (c m) = false)
    (hov : ((L m).next c (c m)).2 = true) :
    ∃ c', findForward L D (m+1) fuel c = some (c', true) := by
  refine ⟨resetFrom L m (set c m ((L m).next c (c m)).1), ?_⟩
  have hadv : advFrom L D (m+1) (m+1) c =
      some (resetFrom L m (set c m ((L m).next c (c m)).1), true) := by
    rw [advFrom_succ, hinv, hov]
    simp only [Bool.false_eq_true, if_false, if_true]
    unfold overflowFrom
    simp
  unfold findForward
  rw [hadv]
  simp

end Odo

namespace Cron
open Cal Odo

/-! ## (1), (2): the levels meet the contract and the digit bounds -/

/-- the parts of `WellFormed` used here -/
structure WFParts (f : Fields) : Prop where
  secS : Sorted f.sec.values = true
  secA : allIn 0 59 f.sec.values = true
  minS : Sorted f.min.values = true
  minA : allIn 0 59 f.min.values = true
  hourS : Sorted f.hour.values = true
  hourA : allIn 0 23 f.hour.values = true
  monthS : Sorted f.month.values = true
  monthA : allIn 1 12 f.month.values = true
  yearS : Sorted f.year.values = true
  yearA : allIn 1970 3940 f.year.values = true

theorem wfParts (f : Fields) (hwf : WellFormed f = true) : WFParts f := by
  simp only [WellFormed, Bool.and_eq_true] at hwf
  obtain ⟨⟨⟨⟨⟨⟨⟨⟨⟨⟨⟨⟨⟨⟨⟨⟨⟨_, h1⟩, h2⟩, _⟩, h3⟩, h4⟩, _⟩, h5⟩, h6⟩, _⟩, _⟩, h7⟩, h8⟩, _⟩, _⟩, h9⟩, h10⟩, _⟩ := hwf
  exact ⟨h1, h2, h3, h4, h5, h6, h7, h8, h9, h10⟩

theorem levels_ok (f : Fields) (hwf : WellFormed f = true) : ∀ k, LvlOK 6 k (levels {} f k) := by
  have w := wfParts f hwf
  intro k
  match k with
  | 0 => exact commonLvl_ok_partial 6 0 0 59 f.sec.values w.secS w.secA (by omega) (Or.inl (by omega))
  | 1 => exact commonLvl_ok_partial 6 1 0 59 f.min.values w.minS w.minA (by omega) (Or.inl (by omega))
  | 2 => exact commonLvl_ok_partial 6 2 0 23 f.hour.values w.hourS w.hourA (by omega) (Or.inl (by omega))
  | 3 => exact dayLvl_ok f hwf
  | 4 => exact commonLvl_ok_partial 6 4 1 12 f.month.values w.monthS w.monthA (by omega) (Or.inl (by omega))
  | 5 =>
    exact commonLvl_ok_lower 6 5 0 2261 f.year.values w.yearS (fun _ _ => Nat.zero_le _)
      (Or.inl (by omega))
  | k+6 => exact commonLvl_ok_lower 6 (k+6) 0 0 [] rfl (fun _ _ => Nat.zero_le _) (Or.inl (by omega))

theorem levels_bound (f : Fields) (hwf : WellFormed f = true) : ∀ k, LvlBound B6 k (levels {} f k) := by
  have w := wfParts f hwf
  intro k
  match k with
  | 0 => exact commonLvl_bound B6 0 0 59 f.sec.values w.secA (by omega) (Nat.le_refl _)
  | 1 => exact commonLvl_bound B6 1 0 59 f.min.values w.minA (by omega) (Nat.le_refl _)
  | 2 => exact commonLvl_bound B6 2 0 23 f.hour.values w.hourA (by omega) (Nat.le_refl _)
  | 3 => exact dayLvl_bound f hwf B6 (Nat.le_refl _)
  | 4 => exact commonLvl_bound B6 4 1 12 f.month.values w.monthA (by omega) (Nat.le_refl _)
  | 5 =>
    exact commonLvl_bound_values B6 5 0 2261 f.year.values
      (fun x hx => ((allIn_iff 1970 3940 f.year.values).mp w.yearA x hx).2) (by omega)
      (by show 2261 ≤ 3940; omega)
  | k+6 =>
    exact commonLvl_bound_values B6 (k+6) 0 0 [] (fun x hx => by cases hx) (Nat.le_refl _)
      (Nat.zero_le _)

/-! ## (3): "every level valid" is `Matches` -/

theorem allValid_iff_matches (f : Fields) (hwf : WellFormed f = true) (c : Cfg) :
    AllValid (levels {} f) 6 c ↔ Matches f (civilOfCfg c) := by
  constructor
  · intro h
    have h0 : commonValid 0 59 f.sec.values (c 0) = true := h 0 (by omega)
    have h1 : commonValid 0 59 f.min.values (c 1) = true := h 1 (by omega)
    have h2 : commonValid 0 23 f.hour.values (c 2) = true := h 2 (by omega)
    have h3 : dayValid (dayCfg {} f) (c 5) (c 4) (c 3) = true := h 3 (by omega)
    have h4 : commonValid 1 12 f.month.values (c 4) = true := h 4 (by omega)
    have h5 : commonValid 0 2261 f.year.values (c 5) = true := h 5 (by omega)
    rw [commonValid_iff] at h0 h1 h2 h4 h5
    rw [dayValid_iff f hwf] at h3
    exact ⟨h0.2.2, h0.2.1, h1.2.2, h1.2.1, h2.2.2, h2.2.1, h4.2.2, h4.1, h4.2.1, h5.2.2, h5.2.1, h3⟩
  · rintro ⟨s1, s2, m1, m2, h1, h2, mo1, mo2, mo3, y1, y2, hd⟩
    intro k hk
    have hk6 : k = 0 ∨ k = 1 ∨ k = 2 ∨ k = 3 ∨ k = 4 ∨ k = 5 := by omega
    rcases hk6 with rfl | rfl | rfl | rfl | rfl | rfl
    · exact (commonValid_iff 0 59 f.sec.values (c 0)).mpr ⟨Nat.zero_le _, s2, s1⟩
    · exact (commonValid_iff 0 59 f.min.values (c 1)).mpr ⟨Nat.zero_le _, m2, m1⟩
    · exact (commonValid_iff 0 23 f.hour.values (c 2)).mpr ⟨Nat.zero_le _, h2, h1⟩
    · exact (dayValid_iff f hwf (c 5) (c 4) (c 3)).mpr hd
    · exact (commonValid_iff 1 12 f.month.values (c 4)).mpr ⟨mo2, mo3, mo1⟩
    · exact (commonValid_iff 0 2261 f.year.values (c 5)).mpr ⟨Nat.zero_le _, y2, y1⟩

theorem matches_valid (f : Fields) (t : Civil) (h : Matches f t) : t.Valid := by
  obtain ⟨_, s2, _, m2, _, h2, _, mo2, mo3, _, _, hd⟩ := h
  exact ⟨⟨mo2, mo3, hd.1, hd.2.1⟩, h2, m2, s2⟩

/-! ## (4): the two orders -/

theorem civilOfCfg_cfgOfCivil (t : Civil) : civilOfCfg (cfgOfCivil t) = t := rfl

theorem lt_cfgOfCivil_iff (a b : Civil) : Lt 6 (cfgOfCivil a) (cfgOfCivil b) ↔ Civil.lexLt a b := by
  rw [Lt6_iff]; exact Iff.rfl

theorem lt_cfg_iff (a : Civil) (r : Cfg) : Lt 6 (cfgOfCivil a) r ↔ Civil.lexLt a (civilOfCfg r) := by
  rw [Lt6_iff]; exact Iff.rfl

theorem le_cfg_not_lt (r : Cfg) (u : Civil) (h : Le 6 r (cfgOfCivil u)) : ¬ Civil.lexLt u (civilOfCfg r) := by
  rw [Le6_iff, Lt6_iff] at h
  intro hlt
  unfold Civil.lexLt at hlt
  simp only [cfgOfCivil, civilOfCfg] at h hlt
  omega

/-! ## (5): the fuel constant suffices -/

theorem csmFuel_eq :
    csmFuel = (((((3940 * 13 + 12) * 32 + 31) * 24 + 23) * 60 + 59) * 60 + 59) + 1 := rfl

theorem commonNext_ovf_of_gt (min max : Nat) (values : List Nat) (v : Nat) (h : max < v) :
    (commonNext min max values v).2 = true := by
  unfold commonNext nextInRange
  split
  · have hnone : values.find? (fun x => decide (v < x) && decide (x ≤ max)) = none := by
      rw [List.find?_eq_none]
      intro x _
      simp only [Bool.and_eq_true, decide_eq_true_eq]
      omega
    rw [hnone]
  · rw [if_pos (by omega)]

/-- a start beyond the last year of the year node: the first pass reports exhaustion at once -/
theorem findForward_year_big (f : Fields) (fuel : Nat) (wall : Civil) (h : 2261 < wall.year) :
    ∃ c', findForward (levels {} f) (levelsDec {} f) 6 fuel (cfgOfCivil wall) = some (c', true) := by
  have hinv : (levelsDec {} f 5).isValid (cfgOfCivil wall) (cfgOfCivil wall 5) = false := by
    show commonValid 0 2261 f.year.values wall.year = false
    cases hv : commonValid 0 2261 f.year.values wall.year with
    | false => rfl
    | true => have := commonValid_le _ _ _ _ hv; omega
  have hov : ((levels {} f 5).next (cfgOfCivil wall) (cfgOfCivil wall 5)).2 = true :=
    commonNext_ovf_of_gt 0 2261 f.year.values wall.year h
  exact findForward_top_overflow (levels {} f) (levelsDec {} f) 5 fuel (cfgOfCivil wall) hinv hov

theorem inBox_cfgOfCivil (wall : Civil) (hv : wall.Valid) (hy : wall.year ≤ 3940) :
    InBox B6 6 (cfgOfCivil wall) := by
  intro k hk
  obtain ⟨⟨_, hm, _, hd⟩, hh, hmi, hs⟩ := hv
  have hdim := (Cal.dim_bounds wall.year wall.month).2
  have hk6 : k = 0 ∨ k = 1 ∨ k = 2 ∨ k = 3 ∨ k = 4 ∨ k = 5 := by omega
  rcases hk6 with rfl | rfl | rfl | rfl | rfl | rfl <;> simp only [cfgOfCivil, B6] <;> omega

theorem findForward_ne_none (f : Fields) (hwf : WellFormed f = true) (wall : Civil) (hv : wall.Valid) :
    findForward (levels {} f) (levelsDec {} f) 6 csmFuel (cfgOfCivil wall) ≠ none := by
  by_cases hy : wall.year ≤ 3940
  · exact findForward_fuel (levels {} f) (levelsDec {} f) B6 6 (levels_ok f hwf) (levels_bound f hwf)
      μ6 _ μ6_measure (cfgOfCivil wall) csmFuel (inBox_cfgOfCivil wall hv hy)
      (by rw [csmFuel_eq]; omega)
  · obtain ⟨c', h⟩ := findForward_year_big f csmFuel wall (by omega)
    rw [h]; simp

/-- the state machine never runs out of fuel from a valid civil start (any year) -/
theorem csmNext_ne_none (f : Fields) (hwf : WellFormed f = true) (wall : Civil) (hv : wall.Valid) :
    csmNext {} f wall ≠ none := by
  have hff := findForward_ne_none f hwf wall hv
  unfold csmNext
  cases h : findForward (levels {} f) (levelsDec {} f) 6 csmFuel (cfgOfCivil wall) with
  | none => exact absurd h hff
  | some r =>
    obtain ⟨c, b⟩ := r
    cases b <;> simp

/-! ## (6): what one call of the state machine returns -/

theorem csmNext_spec_some (f : Fields) (hwf : WellFormed f = true) (wall t : Civil)
    (h : csmNext {} f wall = some (some t)) :
    Matches f t ∧ Civil.lexLt wall t ∧
      ∀ u, Matches f u → Civil.lexLt wall u → ¬ Civil.lexLt u t := by
  have hs := findForward_spec (levels {} f) (levelsDec {} f) 6 csmFuel (levels_ok f hwf) (cfgOfCivil wall)
  unfold csmNext at h
  cases hff : findForward (levels {} f) (levelsDec {} f) 6 csmFuel (cfgOfCivil wall) with
  | none => rw [hff] at h; simp at h
  | some r =>
    obtain ⟨c, b⟩ := r
    rw [hff] at h
    cases b with
    | true => simp at h
    | false =>
      simp only [Option.some.injEq] at h
      subst h
      obtain ⟨hav, hlt, hleast⟩ := hs.1 c hff
      refine ⟨(allValid_iff_matches f hwf c).mp hav, (lt_cfg_iff wall c).mp hlt, ?_⟩
      intro u hu hwu
      apply le_cfg_not_lt
      apply hleast
      · exact (allValid_iff_matches f hwf (cfgOfCivil u)).mpr hu
      · exact (lt_cfgOfCivil_iff wall u).mpr hwu

theorem csmNext_spec_none (f : Fields) (hwf : WellFormed f = true) (wall : Civil)
    (h : csmNext {} f wall = some none) : ¬ ∃ u, Matches f u ∧ Civil.lexLt wall u := by
  have hs := findForward_spec (levels {} f) (levelsDec {} f) 6 csmFuel (levels_ok f hwf) (cfgOfCivil wall)
  unfold csmNext at h
  cases hff : findForward (levels {} f) (levelsDec {} f) 6 csmFuel (cfgOfCivil wall) with
  | none => rw [hff] at h; simp at h
  | some r =>
    obtain ⟨c, b⟩ := r
    rw [hff] at h
    cases b with
    | false => simp at h
    | true =>
      rintro ⟨u, hu, hwu⟩
      exact hs.2 c hff (cfgOfCivil u) ((allValid_iff_matches f hwf (cfgOfCivil u)).mpr hu)
        ((lt_cfgOfCivil_iff wall u).mpr hwu)

/-! ## (7): `nextFire` on a fixed-offset location -/

theorem zoneLoop_succ (lim : Limits) (f : Fields) (z : Zone) (prevSec prevOff : Int) (fuel : Nat)
    (wall : Civil) :
    zoneLoop lim f z prevSec prevOff (fuel+1) wall =
      match csmNext lim f wall with
      | none => .outOfFuel
      | some none => .expired
      | some (some nw) =>
        let w := nw.toSeconds
        let n1 := z.date w
        let next := if fires z n1 w prevSec then n1 else w - prevOff
        if fires z next w prevSec then .ok (next * 1000000000)
        else zoneLoop lim f z prevSec prevOff fuel nw := rfl

theorem fires_fixed (c w prevSec : Int) (h : prevSec + c < w) :
    fires (fixedZone c) (w - c) w prevSec = true := by
  unfold fires fixedZone
  simp only [Bool.and_eq_true, decide_eq_true_eq]
  omega

/-- for a fixed offset the retry loop returns after a single call of the state machine, provided the
found wall-clock reading lies after the start -/
theorem zoneLoop_fixed (f : Fields) (c prevSec : Int) (fuel : Nat) (wall : Civil)
    (hnext : ∀ t, csmNext {} f wall = some (some t) → prevSec + c < t.toSeconds) :
    zoneLoop {} f (fixedZone c) prevSec c (fuel+1) wall =
      match csmNext {} f wall with
      | none => .outOfFuel
      | some none => .expired
      | some (some t) => .ok ((t.toSeconds - c) * 1000000000) := by
  rw [zoneLoop_succ]
  cases h : csmNext {} f wall with
  | none => rfl
  | some o =>
    cases o with
    | none => rfl
    | some t =>
      have hf := fires_fixed c t.toSeconds prevSec (hnext t h)
      have hd : (fixedZone c).date t.toSeconds = t.toSeconds - c := rfl
      simp only [hd, hf, if_true]

theorem wall0_valid (c prev : Int) (hc : -100000 ≤ c ∧ c ≤ 100000) (hp : -9223372036854775808 ≤ prev) :
    (Civil.ofSeconds (prev / 1000000000 + c)).Valid ∧
      (Civil.ofSeconds (prev / 1000000000 + c)).toSeconds = prev / 1000000000 + c := by
  apply Civil.toSeconds_ofSeconds
  show -((719529 : Nat) : Int) * 86400 + 86400 ≤ _
  omega

/-- `nextFire` on a fixed-offset location is one call of the state machine -/
theorem nextFire_fixed (f : Fields) (hwf : WellFormed f = true) (c prev : Int)
    (hc : -100000 ≤ c ∧ c ≤ 100000) (hp : -9223372036854775808 ≤ prev) :
    ∃ nw, csmNext {} f (Civil.ofSeconds (prev / 1000000000 + c)) = some nw ∧
      nextFire {} f (fixedZone c) prev =
        (match nw with
         | none => .expired
         | some t => .ok ((t.toSeconds - c) * 1000000000)) := by
  obtain ⟨hwv, hws⟩ := wall0_valid c prev hc hp
  have hnf : nextFire {} f (fixedZone c) prev =
      zoneLoop {} f (fixedZone c) (prev / 1000000000) c
        ((((((3940 * 13 + 12) * 32 + 31) * 24 + 23) * 60 + 59) * 60 + 59) + 1)
        (Civil.ofSeconds (prev / 1000000000 + c)) := by
    show zoneLoop {} f (fixedZone c) (prev / 1000000000) c csmFuel
      (Civil.ofSeconds (prev / 1000000000 + c)) = _
    rw [csmFuel_eq]
  have hnext : ∀ t, csmNext {} f (Civil.ofSeconds (prev / 1000000000 + c)) = some (some t) →
      prev / 1000000000 + c < t.toSeconds := by
    intro t ht
    obtain ⟨hm, hlt, _⟩ := csmNext_spec_some f hwf _ t ht
    have := (Civil.toSeconds_lt_iff _ t hwv (matches_valid f t hm)).mpr hlt
    omega
  rw [hnf, zoneLoop_fixed f c _ _ _ hnext]
  cases h : csmNext {} f (Civil.ofSeconds (prev / 1000000000 + c)) with
  | none => exact absurd h (csmNext_ne_none f hwf _ hwv)
  | some nw =>
    refine ⟨nw, rfl, ?_⟩
    cases nw <;> rfl

/-- an `.ok` result is the instant of the civil time found by the state machine -/
theorem nextFire_ok (f : Fields) (hwf : WellFormed f = true) (c prev : Int)
    (hc : -100000 ≤ c ∧ c ≤ 100000) (hp : -9223372036854775808 ≤ prev) (r : Int)
    (h : nextFire {} f (fixedZone c) prev = .ok r) :
    ∃ t, csmNext {} f (Civil.ofSeconds (prev / 1000000000 + c)) = some (some t) ∧
      r = (t.toSeconds - c) * 1000000000 := by
  obtain ⟨nw, hnw, hnf⟩ := nextFire_fixed f hwf c prev hc hp
  rw [hnf] at h
  cases nw with
  | none => cases h
  | some t => exact ⟨t, hnw, (Outcome.ok.inj h).symm⟩

theorem nextFire_expired (f : Fields) (hwf : WellFormed f = true) (c prev : Int)
    (hc : -100000 ≤ c ∧ c ≤ 100000) (hp : -9223372036854775808 ≤ prev)
    (h : nextFire {} f (fixedZone c) prev = .expired) :
    csmNext {} f (Civil.ofSeconds (prev / 1000000000 + c)) = some none := by
  obtain ⟨nw, hnw, hnf⟩ := nextFire_fixed f hwf c prev hc hp
  rw [hnf] at h
  cases nw with
  | none => exact hnw
  | some t => cases h

end Cron
