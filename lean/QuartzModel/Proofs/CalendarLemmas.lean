import QuartzModel.Calendar
/-!
# CalendarLemmas — correctness of the proleptic-Gregorian calendar model

* year / month lengths (`yearLen`, `monthLen`, `dim_bounds`);
* `dayNumber` is strictly monotone in lexicographic order on valid dates, hence injective;
* `weekday` is linear in the day;
* the bounded searches `yearOfDay`, `monthSearch` find the bracket, so `civilOfDay` is the two-sided
  inverse of `dayNumber` on valid dates / positive ordinals;
* `Civil.toSeconds` / `Civil.ofSeconds` are mutually inverse, order preserving and order reflecting.

Core Lean only.
-/
namespace Cal

/-! ## month and year lengths -/

theorem dim_bounds (y m : Nat) : 28 ≤ dim y m ∧ dim y m ≤ 31 := by
  unfold dim; split
  · split <;> omega
  · split <;> omega

theorem step4 (y : Nat) : (y + 1 + 3) / 4 = (y + 3) / 4 + (if y % 4 = 0 then 1 else 0) := by
  split <;> omega
theorem step100 (y : Nat) : (y + 1 + 99) / 100 = (y + 99) / 100 + (if y % 100 = 0 then 1 else 0) := by
  split <;> omega
theorem step400 (y : Nat) : (y + 1 + 399) / 400 = (y + 399) / 400 + (if y % 400 = 0 then 1 else 0) := by
  split <;> omega

theorem centuries_le_quads (y : Nat) : (y + 99) / 100 ≤ (y + 3) / 4 := by omega

theorem yearLen (y : Nat) :
    daysBeforeYear (y + 1) = daysBeforeYear y + (if IsLeap y then 366 else 365) := by
  unfold daysBeforeYear
  rw [step4, step100, step400]
  have l1 := centuries_le_quads y
  have m1 : y % 400 = 0 → y % 100 = 0 := by omega
  have m2 : y % 100 = 0 → y % 4 = 0 := by omega
  unfold IsLeap
  by_cases h4 : y % 4 = 0 <;> by_cases h100 : y % 100 = 0 <;> by_cases h400 : y % 400 = 0 <;>
    simp_all <;> omega

theorem monthLen (y m : Nat) (h1 : 1 ≤ m) (h2 : m < 12) :
    daysBeforeMonth y (m + 1) = daysBeforeMonth y m + dim y m := by
  have : m = 1 ∨ m = 2 ∨ m = 3 ∨ m = 4 ∨ m = 5 ∨ m = 6 ∨ m = 7 ∨ m = 8 ∨ m = 9 ∨ m = 10 ∨ m = 11 := by
    omega
  by_cases hl : IsLeap y <;>
  rcases this with h | h | h | h | h | h | h | h | h | h | h <;> subst h <;>
    simp [daysBeforeMonth, dim, monthTable, hl]

theorem epochDay_eq : dayNumber 1970 1 1 = epochDay := by decide

/-- length of year `y` -/
theorem yearLen_bounds (y : Nat) :
    365 ≤ (if IsLeap y then 366 else 365) ∧ (if IsLeap y then 366 else 365) ≤ 366 := by
  split <;> omega

theorem daysBeforeMonth_one (y : Nat) : daysBeforeMonth y 1 = 0 := by
  simp [daysBeforeMonth, monthTable]

/-- December ends the year -/
theorem daysBeforeMonth_twelve (y : Nat) :
    daysBeforeMonth y 12 + dim y 12 = (if IsLeap y then 366 else 365) := by
  by_cases hl : IsLeap y <;> simp [daysBeforeMonth, dim, monthTable, hl]

/-- month offsets grow by at least 28 per month -/
theorem daysBeforeMonth_mono (y m k : Nat) (h1 : 1 ≤ m) (h2 : m + k ≤ 12) :
    daysBeforeMonth y m + 28 * k ≤ daysBeforeMonth y (m + k) := by
  induction k with
  | zero => simp
  | succ k ih =>
    have := ih (by omega)
    have hl := monthLen y (m + k) (by omega) (by omega)
    have hd := dim_bounds y (m + k)
    have e : m + (k + 1) = m + k + 1 := by omega
    rw [e, hl]; omega

theorem daysBeforeMonth_next (y m m' : Nat) (h1 : 1 ≤ m) (h2 : m < m') (h3 : m' ≤ 12) :
    daysBeforeMonth y m + dim y m ≤ daysBeforeMonth y m' := by
  have hl := monthLen y m h1 (by omega)
  have := daysBeforeMonth_mono y (m + 1) (m' - (m + 1)) (by omega) (by omega)
  have e : m + 1 + (m' - (m + 1)) = m' := by omega
  rw [e] at this
  omega

theorem daysBeforeMonth_year (y m : Nat) (h1 : 1 ≤ m) (h2 : m ≤ 12) :
    daysBeforeMonth y m + dim y m ≤ (if IsLeap y then 366 else 365) := by
  by_cases h : m = 12
  · subst h; exact Nat.le_of_eq (daysBeforeMonth_twelve y)
  · have a := daysBeforeMonth_next y m 12 h1 (by omega) (by omega)
    have b := daysBeforeMonth_twelve y
    omega

theorem daysBeforeYear_mono (y k : Nat) : daysBeforeYear y + 365 * k ≤ daysBeforeYear (y + k) := by
  induction k with
  | zero => simp
  | succ k ih =>
    have hl := yearLen (y + k)
    have e : y + (k + 1) = y + k + 1 := by omega
    rw [e, hl]
    split <;> omega

theorem daysBeforeYear_next (y y' : Nat) (h : y < y') :
    daysBeforeYear y + (if IsLeap y then 366 else 365) ≤ daysBeforeYear y' := by
  have hl := yearLen y
  have := daysBeforeYear_mono (y + 1) (y' - (y + 1))
  have e : y + 1 + (y' - (y + 1)) = y' := by omega
  rw [e] at this
  omega

theorem daysBeforeYear_le_of_le (y y' : Nat) (h : y ≤ y') : daysBeforeYear y ≤ daysBeforeYear y' := by
  have := daysBeforeYear_mono y (y' - y)
  have e : y + (y' - y) = y' := by omega
  rw [e] at this
  omega

theorem daysBeforeYear_zero : daysBeforeYear 0 = 0 := by decide

/-- a year has at most 366 days, so `y` years have at most `366 * y` -/
theorem daysBeforeYear_le (y : Nat) : daysBeforeYear y ≤ 366 * y := by
  induction y with
  | zero => simp [daysBeforeYear_zero]
  | succ y ih =>
    rw [yearLen]
    split <;> omega

/-! ## `dayNumber` is strictly monotone and injective on valid dates -/

/-- strict monotonicity in lexicographic order -/
theorem dayNumber_lt (y m d y' m' d' : Nat) (hv : ValidDate y m d) (hv' : ValidDate y' m' d')
    (hlt : y < y' ∨ (y = y' ∧ (m < m' ∨ (m = m' ∧ d < d')))) :
    dayNumber y m d < dayNumber y' m' d' := by
  obtain ⟨h1, h2, h3, h4⟩ := hv
  obtain ⟨h1', h2', h3', h4'⟩ := hv'
  unfold dayNumber
  rcases hlt with hy | ⟨rfl, hm | ⟨rfl, hd⟩⟩
  · have a := daysBeforeYear_next y y' hy
    have b := daysBeforeMonth_year y m h1 h2
    omega
  · have a := daysBeforeMonth_next y m m' h1 hm h2'
    omega
  · omega

/-- equal day numbers of valid dates are the same date -/
theorem dayNumber_inj (y m d y' m' d' : Nat) (hv : ValidDate y m d) (hv' : ValidDate y' m' d')
    (h : dayNumber y m d = dayNumber y' m' d') : y = y' ∧ m = m' ∧ d = d' := by
  by_cases hy : y < y'
  · have := dayNumber_lt y m d y' m' d' hv hv' (Or.inl hy); omega
  · by_cases hy' : y' < y
    · have := dayNumber_lt y' m' d' y m d hv' hv (Or.inl hy'); omega
    · have e : y = y' := by omega
      subst e
      by_cases hm : m < m'
      · have := dayNumber_lt y m d y m' d' hv hv' (Or.inr ⟨rfl, Or.inl hm⟩); omega
      · by_cases hm' : m' < m
        · have := dayNumber_lt y m' d' y m d hv' hv (Or.inr ⟨rfl, Or.inl hm'⟩); omega
        · have e : m = m' := by omega
          subst e
          refine ⟨rfl, rfl, ?_⟩
          unfold dayNumber at h; omega

/-- `dayNumber` reflects the lexicographic order as well -/
theorem dayNumber_lt_iff (y m d y' m' d' : Nat) (hv : ValidDate y m d) (hv' : ValidDate y' m' d') :
    dayNumber y m d < dayNumber y' m' d' ↔ (y < y' ∨ (y = y' ∧ (m < m' ∨ (m = m' ∧ d < d')))) := by
  constructor
  · intro h
    by_cases hlt : (y < y' ∨ (y = y' ∧ (m < m' ∨ (m = m' ∧ d < d'))))
    · exact hlt
    · by_cases hgt : (y' < y ∨ (y' = y ∧ (m' < m ∨ (m' = m ∧ d' < d))))
      · have := dayNumber_lt y' m' d' y m d hv' hv hgt; omega
      · have e : y = y' ∧ m = m' ∧ d = d' := by omega
        obtain ⟨rfl, rfl, rfl⟩ := e
        omega
  · exact dayNumber_lt y m d y' m' d' hv hv'

/-! ## weekday -/

theorem weekday_lt (y m d : Nat) : weekday y m d < 7 := by
  unfold weekday; omega

/-- weekday is linear in the day, for ANY month number m (also out of range) -/
theorem weekday_add (y m d k : Nat) : weekday y m (d + k) = (weekday y m d + k) % 7 := by
  unfold weekday dayNumber; omega

theorem weekday_of_first (y m d : Nat) (hd : 1 ≤ d) :
    weekday y m d = (weekday y m 1 + (d - 1)) % 7 := by
  have := weekday_add y m 1 (d - 1)
  have e : 1 + (d - 1) = d := by omega
  rw [e] at this; exact this

/-! ## the bounded searches find the bracket -/

theorem yearSearch_spec (n : Nat) : ∀ fuel y, daysBeforeYear y < n → n ≤ daysBeforeYear (y + fuel) →
    daysBeforeYear (yearSearch fuel y n) < n ∧ n ≤ daysBeforeYear (yearSearch fuel y n + 1) := by
  intro fuel
  induction fuel with
  | zero => intro y h1 h2; simp at h2; omega
  | succ f ih =>
    intro y h1 h2
    unfold yearSearch
    split
    · next hlt =>
      apply ih (y + 1) hlt
      have e : y + 1 + f = y + (f + 1) := by omega
      rw [e]; exact h2
    · next hge => exact ⟨h1, by omega⟩

/-- the year bracket: Jan 1 of `yearOfDay n` is on or before day `n`, Jan 1 of the next year after -/
theorem yearOfDay_spec (n : Nat) (h : 1 ≤ n) :
    daysBeforeYear (yearOfDay n) < n ∧ n ≤ daysBeforeYear (yearOfDay n + 1) := by
  unfold yearOfDay
  apply yearSearch_spec
  · have := daysBeforeYear_le ((n - 1) / 366); omega
  · have := daysBeforeYear_mono ((n - 1) / 366) n; omega

/-- the bracket determines the year -/
theorem year_unique (n y y' : Nat)
    (h : daysBeforeYear y < n ∧ n ≤ daysBeforeYear (y + 1))
    (h' : daysBeforeYear y' < n ∧ n ≤ daysBeforeYear (y' + 1)) : y = y' := by
  by_cases h1 : y < y'
  · have := daysBeforeYear_le_of_le (y + 1) y' (by omega); omega
  · by_cases h2 : y' < y
    · have := daysBeforeYear_le_of_le (y' + 1) y (by omega); omega
    · omega

theorem yearOfDay_mono (n n' : Nat) (h : 1 ≤ n) (hle : n ≤ n') : yearOfDay n ≤ yearOfDay n' := by
  have a := yearOfDay_spec n h
  have b := yearOfDay_spec n' (by omega)
  by_cases hlt : yearOfDay n' < yearOfDay n
  · have := daysBeforeYear_le_of_le (yearOfDay n' + 1) (yearOfDay n) (by omega); omega
  · omega

theorem monthSearch_spec (y r : Nat) (hr : r ≤ (if IsLeap y then 366 else 365)) :
    ∀ fuel m, 1 ≤ m → m ≤ 12 → 13 ≤ m + fuel → daysBeforeMonth y m < r →
      1 ≤ monthSearch fuel y m r ∧ monthSearch fuel y m r ≤ 12 ∧
      daysBeforeMonth y (monthSearch fuel y m r) < r ∧
      r ≤ daysBeforeMonth y (monthSearch fuel y m r) + dim y (monthSearch fuel y m r) := by
  intro fuel
  induction fuel with
  | zero => intro m h1 h2 h3; omega
  | succ f ih =>
    intro m h1 h2 h3 h4
    unfold monthSearch
    split
    · next hc => exact ih (m + 1) (by omega) (by omega) (by omega) hc.2
    · next hc =>
      refine ⟨h1, h2, h4, ?_⟩
      by_cases h12 : m = 12
      · subst h12; have := daysBeforeMonth_twelve y; omega
      · have := monthLen y m h1 (by omega)
        have : ¬ daysBeforeMonth y (m + 1) < r := fun hh => hc ⟨by omega, hh⟩
        omega

/-! ## `civilOfDay` is the inverse of `dayNumber` -/

theorem civilOfDay_valid (n : Nat) (h : 1 ≤ n) :
    ValidDate (civilOfDay n).1 (civilOfDay n).2.1 (civilOfDay n).2.2 ∧
    dayNumber (civilOfDay n).1 (civilOfDay n).2.1 (civilOfDay n).2.2 = n := by
  have hy := yearOfDay_spec n h
  have hl := yearLen (yearOfDay n)
  have hm := monthSearch_spec (yearOfDay n) (n - daysBeforeYear (yearOfDay n)) (by omega) 12 1
    (by omega) (by omega) (by omega) (by rw [daysBeforeMonth_one]; omega)
  simp only [civilOfDay, ValidDate, dayNumber]
  omega

theorem civilOfDay_dayNumber (y m d : Nat) (hv : ValidDate y m d) :
    civilOfDay (dayNumber y m d) = (y, m, d) := by
  have h1 : 1 ≤ dayNumber y m d := by have := hv.2.2.1; unfold dayNumber; omega
  obtain ⟨hv', he⟩ := civilOfDay_valid (dayNumber y m d) h1
  obtain ⟨e1, e2, e3⟩ := dayNumber_inj _ _ _ _ _ _ hv' hv he
  apply Prod.ext
  · exact e1
  · apply Prod.ext
    · exact e2
    · exact e3

theorem civilOfDay_fst (n : Nat) : (civilOfDay n).1 = yearOfDay n := rfl

/-! ## seconds <-> civil reading -/

theorem Civil.ofSeconds_eq (s : Int) :
    Civil.ofSeconds s =
      { year := (civilOfDay (s / 86400 + epochDay).toNat).1
        month := (civilOfDay (s / 86400 + epochDay).toNat).2.1
        day := (civilOfDay (s / 86400 + epochDay).toNat).2.2
        hour := (s % 86400).toNat / 3600
        minute := (s % 86400).toNat % 3600 / 60
        second := (s % 86400).toNat % 60 } := rfl

theorem Civil.ofSeconds_toSeconds (t : Civil) (hv : t.Valid) : Civil.ofSeconds t.toSeconds = t := by
  obtain ⟨hd, hh, hm, hs⟩ := hv
  have k1 : (t.toSeconds / 86400 + epochDay).toNat = dayNumber t.year t.month t.day := by
    unfold Civil.toSeconds; omega
  have k2 : (t.toSeconds % 86400).toNat = t.hour * 3600 + t.minute * 60 + t.second := by
    unfold Civil.toSeconds; omega
  rw [Civil.ofSeconds_eq, k1, k2, civilOfDay_dayNumber _ _ _ hd]
  cases t
  simp only [Civil.mk.injEq, true_and] at *
  omega

theorem Civil.toSeconds_ofSeconds (s : Int) (h : -(epochDay : Int) * 86400 + 86400 ≤ s) :
    (Civil.ofSeconds s).Valid ∧ (Civil.ofSeconds s).toSeconds = s := by
  have hn : 1 ≤ (s / 86400 + epochDay).toNat := by omega
  obtain ⟨hv, he⟩ := civilOfDay_valid _ hn
  rw [Civil.ofSeconds_eq]
  refine ⟨⟨hv, ?_, ?_, ?_⟩, ?_⟩
  · show (s % 86400).toNat / 3600 ≤ 23
    omega
  · show (s % 86400).toNat % 3600 / 60 ≤ 59
    omega
  · show (s % 86400).toNat % 60 ≤ 59
    omega
  · simp only [Civil.toSeconds]
    rw [he]
    omega

/-- lexicographic order on (year, month, day, hour, minute, second) -/
def Civil.lexLt (t u : Civil) : Prop :=
  t.year < u.year ∨ (t.year = u.year ∧ (t.month < u.month ∨ (t.month = u.month ∧ (t.day < u.day ∨ (t.day = u.day ∧
  (t.hour < u.hour ∨ (t.hour = u.hour ∧ (t.minute < u.minute ∨ (t.minute = u.minute ∧ t.second < u.second)))))))))

theorem Civil.toSeconds_lt_of_lexLt (t u : Civil) (ht : t.Valid) (hu : u.Valid) (h : Civil.lexLt t u) :
    t.toSeconds < u.toSeconds := by
  obtain ⟨hd, hh, hm, hs⟩ := ht
  obtain ⟨hd', hh', hm', hs'⟩ := hu
  unfold Civil.lexLt at h
  by_cases hdate : t.year < u.year ∨ (t.year = u.year ∧ (t.month < u.month ∨ (t.month = u.month ∧ t.day < u.day)))
  · have := dayNumber_lt _ _ _ _ _ _ hd hd' hdate
    unfold Civil.toSeconds; omega
  · have e : t.year = u.year ∧ t.month = u.month ∧ t.day = u.day := by omega
    obtain ⟨e1, e2, e3⟩ := e
    unfold Civil.toSeconds; rw [e1, e2, e3]; omega

theorem Civil.lexLt_trichotomy (t u : Civil) : Civil.lexLt t u ∨ t = u ∨ Civil.lexLt u t := by
  cases t; cases u
  simp only [Civil.lexLt, Civil.mk.injEq]
  omega

theorem Civil.toSeconds_lt_iff (t u : Civil) (ht : t.Valid) (hu : u.Valid) :
    t.toSeconds < u.toSeconds ↔ Civil.lexLt t u := by
  constructor
  · intro h
    rcases Civil.lexLt_trichotomy t u with h1 | h1 | h1
    · exact h1
    · subst h1; omega
    · have := Civil.toSeconds_lt_of_lexLt u t hu ht h1; omega
  · exact Civil.toSeconds_lt_of_lexLt t u ht hu

theorem Civil.toSeconds_inj (t u : Civil) (ht : t.Valid) (hu : u.Valid) (h : t.toSeconds = u.toSeconds) :
    t = u := by
  rcases Civil.lexLt_trichotomy t u with h1 | h1 | h1
  · have := Civil.toSeconds_lt_of_lexLt t u ht hu h1; omega
  · exact h1
  · have := Civil.toSeconds_lt_of_lexLt u t hu ht h1; omega

/-- year of an instant is monotone: used to bound results by the last representable year -/
theorem Civil.ofSeconds_year_mono (s s' : Int) (h0 : -(epochDay : Int) * 86400 + 86400 ≤ s) (h : s ≤ s') :
    (Civil.ofSeconds s).year ≤ (Civil.ofSeconds s').year := by
  rw [Civil.ofSeconds_eq, Civil.ofSeconds_eq]
  show (civilOfDay _).1 ≤ (civilOfDay _).1
  rw [civilOfDay_fst, civilOfDay_fst]
  apply yearOfDay_mono <;> omega

/-! ## non-vacuity -/

instance (y m d : Nat) : Decidable (ValidDate y m d) := by unfold ValidDate; infer_instance
instance (t : Civil) : Decidable t.Valid := by unfold Civil.Valid; infer_instance
instance (t u : Civil) : Decidable (Civil.lexLt t u) := by unfold Civil.lexLt; infer_instance

example : dim 2024 2 = 29 ∧ dim 2023 2 = 28 ∧ dim 2100 2 = 28 ∧ dim 2000 2 = 29 := by decide
example : ValidDate 2024 2 29 := by decide
example : ValidDate 2023 12 31 ∧ ValidDate 2024 1 1 ∧
    dayNumber 2023 12 31 < dayNumber 2024 1 1 := by decide
example : weekday 2024 2 29 = 4 := by decide          -- a Thursday
example : civilOfDay (dayNumber 2024 2 29) = (2024, 2, 29) :=
  civilOfDay_dayNumber 2024 2 29 (by decide)

def leapEve : Civil := { year := 2024, month := 2, day := 29, hour := 23, minute := 59, second := 59 }

theorem leapEve_valid : leapEve.Valid := by decide
theorem leapEve_seconds : leapEve.toSeconds = 1709251199 := by decide

example : Civil.ofSeconds leapEve.toSeconds = leapEve := Civil.ofSeconds_toSeconds leapEve leapEve_valid
example : (Civil.ofSeconds 1709251199).Valid ∧ (Civil.ofSeconds 1709251199).toSeconds = 1709251199 :=
  Civil.toSeconds_ofSeconds 1709251199 (by decide)
example : (Civil.ofSeconds (-1)).Valid ∧ (Civil.ofSeconds (-1)).toSeconds = -1 :=
  Civil.toSeconds_ofSeconds (-1) (by decide)
example : Civil.lexLt leapEve { leapEve with month := 3, day := 1, hour := 0, minute := 0, second := 0 } := by
  decide

def marchFirst : Civil := { year := 2024, month := 3, day := 1, hour := 0, minute := 0, second := 0 }
theorem marchFirst_valid : marchFirst.Valid := by decide

example : leapEve.toSeconds < marchFirst.toSeconds :=
  (Civil.toSeconds_lt_iff leapEve marchFirst leapEve_valid marchFirst_valid).2 (by decide)
example : Civil.ofSeconds 1709251200 = marchFirst :=
  Civil.toSeconds_inj _ _ (Civil.toSeconds_ofSeconds 1709251200 (by decide)).1 marchFirst_valid
    ((Civil.toSeconds_ofSeconds 1709251200 (by decide)).2.trans (by decide))
example : (Civil.ofSeconds 1709251199).year ≤ (Civil.ofSeconds 4102444800).year :=
  Civil.ofSeconds_year_mono _ _ (by decide) (by decide)
example : dayNumber 2024 2 29 = dayNumber 2024 2 29 → (2024 = 2024 ∧ 2 = 2 ∧ 29 = 29) :=
  dayNumber_inj 2024 2 29 2024 2 29 (by decide) (by decide)
example : civilOfDay 1 = (0, 1, 1) ∧ civilOfDay epochDay = (1970, 1, 1) := by decide

end Cal
