import QuartzModel.Proofs.TransLemmas
import QuartzModel.Proofs.CronAssembly
/-!
# Stage C — the translated state machine (`Generated.Trans.CronStateMachine.*`) is the odometer

`resetFrom`, `overflowFrom`, `advanceInvalid`, `findForward` of the translated Go code, run on the state
machine `mkCsm {} f c ex` that `newCSMFromFields` builds, compute `Odo.resetFrom / overflowFrom / advFrom /
findForward` instantiated with `Cron.levels {} f`, under the abstraction "digit k of the configuration =
value of node k".

The common nodes are handled by Stage A (`TransA.*_mk`).  The day node enters through the abstract
per-node equivalence `DayEquiv T f fuel` (what Stage B proves for `T := goTime`), so that the stages compose.
The digits stay inside `Box` (month in 1..12, day in 1..31, …) along every step: that is where the day node's
equivalence is needed, and it is preserved by the model's operations (`InBox_*` from `Proofs/Odometer.lean` for
the upper bounds, `LowBox_*` below for the lower bounds).
-/
set_option linter.unusedSimpArgs false

namespace TransC
open Generated.Trans Cron Odo TransRepr TransA

/-! ## lower bounds of the digits (mirror of `Odo.InBox`) -/

structure LvlLow (A : Nat → Nat) (k : Nat) (l : Lvl) : Prop where
  next_ge : ∀ c v, A k ≤ (l.next c v).1
  rst_ge : ∀ c, A k ≤ l.rst c

def LowBox (A : Nat → Nat) (n : Nat) (c : Cfg) : Prop := ∀ k, k < n → A k ≤ c k

section low
variable (L : Nat → Lvl) (D : ∀ k, LvlDec (L k))

theorem LowBox_set (A : Nat → Nat) (n : Nat) (c : Cfg) (k v : Nat) (h : LowBox A n c) (hv : A k ≤ v) :
    LowBox A n (set c k v) := by
  intro j hj
  by_cases hjk : j = k
  · subst hjk; simp [Odo.set, hv]
  · rw [set_ne _ _ _ _ hjk]; exact h j hj

theorem LowBox_resetFrom (A : Nat → Nat) (n : Nat) (hA : ∀ k, LvlLow A k (L k)) (k : Nat) (c : Cfg)
    (h : LowBox A n c) : LowBox A n (resetFrom L k c) := by
  induction k generalizing c with
  | zero => exact h
  | succ k ih => exact ih _ (LowBox_set A n c k _ h ((hA k).rst_ge c))

theorem LowBox_overflowFrom (A : Nat → Nat) (n : Nat) (hA : ∀ k, LvlLow A k (L k)) (k : Nat) (c : Cfg)
    (h : LowBox A n c) : LowBox A n (overflowFrom L n k c).1 := by
  induction hm : n - k generalizing k c with
  | zero =>
    have hk : k ≥ n := by omega
    unfold overflowFrom; simp [hk]; exact h
  | succ m ih =>
    have hk : ¬ k ≥ n := by omega
    unfold overflowFrom
    simp only [hk, if_false]
    have hset := LowBox_set A n c k _ h ((hA k).next_ge c (c k))
    split
    · exact ih (k+1) _ hset (by omega)
    · exact LowBox_resetFrom L A n hA k _ hset

theorem LowBox_advFrom (A : Nat → Nat) (n : Nat) (hA : ∀ k, LvlLow A k (L k)) (m : Nat) (c : Cfg)
    (h : LowBox A n c) : ∀ r, advFrom L D n m c = some r → LowBox A n r.1 := by
  induction m with
  | zero => intro r hr; simp [advFrom] at hr
  | succ m ih =>
    intro r hr
    unfold advFrom at hr
    split at hr
    · exact ih r hr
    · have hr := Option.some.inj hr
      have hset := LowBox_set A n c m _ h ((hA m).next_ge c (c m))
      have hrs := LowBox_resetFrom L A n hA m _ hset
      rw [← hr]
      split
      · exact LowBox_overflowFrom L A n hA (m+1) _ hrs
      · exact hrs

end low

/-- month and day digits are at least 1 -/
def A6 : Nat → Nat
  | 3 => 1 | 4 => 1 | _ => 0

theorem levels_low (f : Fields) (hwf : WellFormed f = true) : ∀ k, LvlLow A6 k (levels {} f k) := by
  have w := wfParts f hwf
  intro k
  match k with
  | 0 => exact ⟨fun _ _ => Nat.zero_le _, fun _ => Nat.zero_le _⟩
  | 1 => exact ⟨fun _ _ => Nat.zero_le _, fun _ => Nat.zero_le _⟩
  | 2 => exact ⟨fun _ _ => Nat.zero_le _, fun _ => Nat.zero_le _⟩
  | 3 => exact ⟨fun c v => (dayLvl_pos f hwf c).1 v, fun c => (dayLvl_pos f hwf c).2⟩
  | 4 =>
    have hv : ∀ x ∈ f.month.values, 1 ≤ x := fun x hx => ((allIn_iff 1 12 f.month.values).mp w.monthA x hx).1
    exact ⟨fun _ v => commonNext_fst_ge 1 12 f.month.values (Nat.le_refl _) hv v,
           fun _ => commonNext_fst_ge 1 12 f.month.values (Nat.le_refl _) hv 12⟩
  | 5 => exact ⟨fun _ _ => Nat.zero_le _, fun _ => Nat.zero_le _⟩
  | k+6 => exact ⟨fun _ _ => Nat.zero_le _, fun _ => Nat.zero_le _⟩

/-- the digits are inside their ranges -/
structure Box (c : Cfg) : Prop where
  hi : InBox B6 6 c
  lo : LowBox A6 6 c

variable {c : Cfg}

theorem Box.month (h : Box c) : 1 ≤ c 4 ∧ c 4 ≤ 12 := ⟨h.lo 4 (by omega), h.hi 4 (by omega)⟩
theorem Box.day (h : Box c) : 1 ≤ c 3 ∧ c 3 ≤ 31 := ⟨h.lo 3 (by omega), h.hi 3 (by omega)⟩

section box
variable (f : Fields) (hwf : WellFormed f = true)
include hwf

theorem Box.set_next (h : Box c) (k : Nat) (hk : k < 6) :
    Box (set c k ((levels {} f k).next c (c k)).1) :=
  ⟨InBox_set B6 6 c k _ h.hi ((levels_bound f hwf k).next_le c (c k) (h.hi k hk)),
   LowBox_set A6 6 c k _ h.lo ((levels_low f hwf k).next_ge c (c k))⟩

theorem Box.set_rst (h : Box c) (k : Nat) : Box (set c k ((levels {} f k).rst c)) :=
  ⟨InBox_set B6 6 c k _ h.hi ((levels_bound f hwf k).rst_le c),
   LowBox_set A6 6 c k _ h.lo ((levels_low f hwf k).rst_ge c)⟩

theorem Box.resetFrom (h : Box c) (k : Nat) : Box (resetFrom (levels {} f) k c) :=
  ⟨InBox_resetFrom _ B6 6 (levels_bound f hwf) k c h.hi, LowBox_resetFrom _ A6 6 (levels_low f hwf) k c h.lo⟩

theorem Box.overflowFrom (h : Box c) (k : Nat) : Box (overflowFrom (levels {} f) 6 k c).1 :=
  ⟨InBox_overflowFrom _ B6 6 (levels_bound f hwf) k c h.hi, LowBox_overflowFrom _ A6 6 (levels_low f hwf) k c h.lo⟩

theorem Box.advFrom (h : Box c) (m : Nat) (hm : m ≤ 6) (r : Cfg × Bool)
    (hr : advFrom (levels {} f) (levelsDec {} f) 6 m c = some r) : Box r.1 :=
  ⟨InBox_advFrom _ _ B6 6 (levels_bound f hwf) m hm c h.hi r hr,
   LowBox_advFrom _ _ A6 6 (levels_low f hwf) m c h.lo r hr⟩

end box

/-! ## what Stage C needs from the day node (provided by Stage B for `T := goTime`) -/

structure DayEquiv (T : TimeExt) (f : Fields) (fuel : Nat) : Prop where
  findForward : ∀ y m v : Nat, 1 ≤ m → m ≤ 12 → 1 ≤ v → v ≤ 31 →
    DayNode.findForward T (mkDay (dayCfg {} f) v) (m : Int) (y : Int) fuel =
      some (if dayValid (dayCfg {} f) y m v then (mkDay (dayCfg {} f) v, unchanged)
            else (mkDay (dayCfg {} f) (dayNext (dayCfg {} f) y m v).1, ffCode (dayNext (dayCfg {} f) y m v).2))
  next : ∀ y m v : Nat, 1 ≤ m → m ≤ 12 → 1 ≤ v → v ≤ 31 →
    DayNode.Next T (mkDay (dayCfg {} f) v) (m : Int) (y : Int) fuel =
      some (mkDay (dayCfg {} f) (dayNext (dayCfg {} f) y m v).1, (dayNext (dayCfg {} f) y m v).2)
  reset : ∀ y m v : Nat, 1 ≤ m → m ≤ 12 → 1 ≤ v → v ≤ 31 →
    DayNode.Reset T (mkDay (dayCfg {} f) v) (m : Int) (y : Int) fuel =
      some (mkDay (dayCfg {} f) (dayReset (dayCfg {} f) y m))

/-! ## one node -/

section node
variable (lim : Limits) (f : Fields) (c : Cfg) (ex : Bool) (v : Nat)

theorem mk_set0 : mkCsm lim f (set c 0 v) ex = { mkCsm lim f c ex with second := mkCommon 0 lim.secMax f.sec.values v } := by
  simp [mkCsm, Odo.set]
theorem mk_set1 : mkCsm lim f (set c 1 v) ex = { mkCsm lim f c ex with minute := mkCommon 0 lim.minMax f.min.values v } := by
  simp [mkCsm, Odo.set]
theorem mk_set2 : mkCsm lim f (set c 2 v) ex = { mkCsm lim f c ex with hour := mkCommon 0 lim.hourMax f.hour.values v } := by
  simp [mkCsm, Odo.set]
theorem mk_set3 : mkCsm lim f (set c 3 v) ex = { mkCsm lim f c ex with day := mkDay (dayCfg lim f) v } := by
  simp [mkCsm, Odo.set]
theorem mk_set4 : mkCsm lim f (set c 4 v) ex = { mkCsm lim f c ex with month := mkCommon lim.monthMin lim.monthMax f.month.values v } := by
  simp [mkCsm, Odo.set]
theorem mk_set5 : mkCsm lim f (set c 5 v) ex = { mkCsm lim f c ex with year := mkCommon lim.yearMin lim.yearMax f.year.values v } := by
  simp [mkCsm, Odo.set]

end node

section nodes
variable (T : TimeExt) (f : Fields) (fuel : Nat) (hD : DayEquiv T f fuel) (c : Cfg) (hb : Box c) (ex : Bool)

theorem nodeIsNil_lt (k : Nat) (hk : k < 6) : nodeIsNil (k : Int) = false := by
  have : k = 0 ∨ k = 1 ∨ k = 2 ∨ k = 3 ∨ k = 4 ∨ k = 5 := by omega
  rcases this with rfl | rfl | rfl | rfl | rfl | rfl <;> decide

theorem nodeIsNil_neg : nodeIsNil (-1) = true := by decide
theorem nodeIsNil_six : nodeIsNil 6 = true := by decide

include hD hb

theorem nodeNext_mk (k : Nat) (hk : k < 6) :
    nodeNext T (mkCsm {} f c ex) (k : Int) fuel =
      some (mkCsm {} f (Odo.set c k ((levels {} f k).next c (c k)).1) ex, ((levels {} f k).next c (c k)).2) := by
  have : k = 0 ∨ k = 1 ∨ k = 2 ∨ k = 3 ∨ k = 4 ∨ k = 5 := by omega
  rcases this with rfl | rfl | rfl | rfl | rfl | rfl
  · rw [mk_set0]
    simp [nodeNext, years, months, days, hours, minutes, seconds, levels, commonLvl, mkCsm, Next_mk]
  · rw [mk_set1]
    simp [nodeNext, years, months, days, hours, minutes, seconds, levels, commonLvl, mkCsm, Next_mk]
  · rw [mk_set2]
    simp [nodeNext, years, months, days, hours, minutes, seconds, levels, commonLvl, mkCsm, Next_mk]
  · rw [mk_set3]
    have h := hD.next (c 5) (c 4) (c 3) hb.month.1 hb.month.2 hb.day.1 hb.day.2
    simp [nodeNext, years, months, days, hours, minutes, seconds, levels, dayLvl, mkCsm, Value_mk, h]
  · rw [mk_set4]
    simp [nodeNext, years, months, days, hours, minutes, seconds, levels, commonLvl, mkCsm, Next_mk]
  · rw [mk_set5]
    simp [nodeNext, years, months, days, hours, minutes, seconds, levels, commonLvl, mkCsm, Next_mk]

theorem nodeReset_mk (k : Nat) (hk : k < 6) :
    nodeReset T (mkCsm {} f c ex) (k : Int) fuel =
      some (mkCsm {} f (Odo.set c k ((levels {} f k).rst c)) ex) := by
  have : k = 0 ∨ k = 1 ∨ k = 2 ∨ k = 3 ∨ k = 4 ∨ k = 5 := by omega
  rcases this with rfl | rfl | rfl | rfl | rfl | rfl
  · rw [mk_set0]
    simp [nodeReset, years, months, days, hours, minutes, seconds, levels, commonLvl, mkCsm, Reset_mk]
  · rw [mk_set1]
    simp [nodeReset, years, months, days, hours, minutes, seconds, levels, commonLvl, mkCsm, Reset_mk]
  · rw [mk_set2]
    simp [nodeReset, years, months, days, hours, minutes, seconds, levels, commonLvl, mkCsm, Reset_mk]
  · rw [mk_set3]
    have h := hD.reset (c 5) (c 4) (c 3) hb.month.1 hb.month.2 hb.day.1 hb.day.2
    simp [nodeReset, years, months, days, hours, minutes, seconds, levels, dayLvl, mkCsm, Value_mk, h]
  · rw [mk_set4]
    simp [nodeReset, years, months, days, hours, minutes, seconds, levels, commonLvl, mkCsm, Reset_mk]
  · rw [mk_set5]
    simp [nodeReset, years, months, days, hours, minutes, seconds, levels, commonLvl, mkCsm, Reset_mk]

theorem nodeFindForward_mk (k : Nat) (hk : k < 6) :
    nodeFindForward T (mkCsm {} f c ex) (k : Int) fuel =
      some (if (levelsDec {} f k).isValid c (c k) then (mkCsm {} f c ex, unchanged)
            else (mkCsm {} f (Odo.set c k ((levels {} f k).next c (c k)).1) ex, ffCode ((levels {} f k).next c (c k)).2)) := by
  have : k = 0 ∨ k = 1 ∨ k = 2 ∨ k = 3 ∨ k = 4 ∨ k = 5 := by omega
  rcases this with rfl | rfl | rfl | rfl | rfl | rfl
  · rw [mk_set0]
    cases hv : commonValid 0 59 f.sec.values (c 0) <;>
      simp [nodeFindForward, years, months, days, hours, minutes, seconds, levels, levelsDec, commonLvl, mkCsm, findForward_mk, hv]
  · rw [mk_set1]
    cases hv : commonValid 0 59 f.min.values (c 1) <;>
      simp [nodeFindForward, years, months, days, hours, minutes, seconds, levels, levelsDec, commonLvl, mkCsm, findForward_mk, hv]
  · rw [mk_set2]
    cases hv : commonValid 0 23 f.hour.values (c 2) <;>
      simp [nodeFindForward, years, months, days, hours, minutes, seconds, levels, levelsDec, commonLvl, mkCsm, findForward_mk, hv]
  · rw [mk_set3]
    have h := hD.findForward (c 5) (c 4) (c 3) hb.month.1 hb.month.2 hb.day.1 hb.day.2
    cases hv : dayValid (dayCfg {} f) (c 5) (c 4) (c 3) <;>
      simp [nodeFindForward, years, months, days, hours, minutes, seconds, levels, levelsDec, dayLvl, mkCsm, Value_mk, h, hv]
  · rw [mk_set4]
    cases hv : commonValid 1 12 f.month.values (c 4) <;>
      simp [nodeFindForward, years, months, days, hours, minutes, seconds, levels, levelsDec, commonLvl, mkCsm, findForward_mk, hv]
  · rw [mk_set5]
    cases hv : commonValid 0 2261 f.year.values (c 5) <;>
      simp [nodeFindForward, years, months, days, hours, minutes, seconds, levels, levelsDec, commonLvl, mkCsm, findForward_mk, hv]
end nodes

/-! ## resetFrom / overflowFrom -/

section machine
variable (T : TimeExt) (f : Fields) (hwf : WellFormed f = true) (fuel : Nat) (hD : DayEquiv T f fuel)
include hwf hD

/-- Go `resetFrom(k-1)` = `Odo.resetFrom L k` -/
theorem resetFrom_go (k : Nat) (hk : k ≤ 6) : ∀ (c : Cfg) (ex : Bool) (cnt : Nat) (node : Int), Box c → k + 1 ≤ cnt →
    node = (k : Int) - 1 →
    CronStateMachine.resetFrom.go T fuel cnt (mkCsm {} f c ex) node =
      some (mkCsm {} f (Odo.resetFrom (levels {} f) k c) ex) := by
  induction k with
  | zero =>
    intro c ex cnt node _ hc hn
    obtain ⟨cnt', rfl⟩ : ∃ n, cnt = n + 1 := ⟨cnt - 1, by omega⟩
    subst hn
    simp [CronStateMachine.resetFrom.go, Odo.resetFrom, nodeIsNil_neg]
  | succ k ih =>
    intro c ex cnt node hb hc hn
    obtain ⟨cnt', rfl⟩ : ∃ n, cnt = n + 1 := ⟨cnt - 1, by omega⟩
    have hn' : node = (k : Int) := by omega
    subst hn'
    simp only [CronStateMachine.resetFrom.go, nodeIsNil_lt k (by omega), Bool.false_eq_true, ↓reduceIte,
      nodeReset_mk T f fuel hD c hb ex k (by omega), Option.bind_some, Odo.resetFrom]
    exact ih (by omega) _ ex cnt' _ (hb.set_rst f hwf k) (by omega) rfl

theorem resetFrom_mk (k : Nat) (hk : k ≤ 6) (c : Cfg) (ex : Bool) (hb : Box c) (hf : 7 ≤ fuel) (node : Int)
    (hn : node = (k : Int) - 1) :
    CronStateMachine.resetFrom T (mkCsm {} f c ex) node fuel =
      some (mkCsm {} f (Odo.resetFrom (levels {} f) k c) ex) :=
  resetFrom_go T f hwf fuel hD k hk c ex fuel node hb (by omega) hn

/-- Go `overflowFrom(k)` = `Odo.overflowFrom L 6 k`; `exhausted` is only ever set -/
theorem overflowFrom_go (hf : 7 ≤ fuel) (m : Nat) : ∀ (k : Nat) (c : Cfg) (ex : Bool) (cnt : Nat), 6 - k = m → k ≤ 6 → Box c →
    7 - k ≤ cnt →
    CronStateMachine.overflowFrom.go T fuel cnt (mkCsm {} f c ex) (k : Int) =
      some (mkCsm {} f (Odo.overflowFrom (levels {} f) 6 k c).1 (ex || (Odo.overflowFrom (levels {} f) 6 k c).2)) := by
  induction m with
  | zero =>
    intro k c ex cnt hm hk _ hc
    obtain ⟨cnt', rfl⟩ : ∃ n, cnt = n + 1 := ⟨cnt - 1, by omega⟩
    have : k = 6 := by omega
    subst this
    unfold Odo.overflowFrom
    simp [CronStateMachine.overflowFrom.go, nodeIsNil_six, mkCsm]
  | succ m ih =>
    intro k c ex cnt hm hk hb hc
    obtain ⟨cnt', rfl⟩ : ∃ n, cnt = n + 1 := ⟨cnt - 1, by omega⟩
    have hk6 : k < 6 := by omega
    have hnk : ¬ k ≥ 6 := by omega
    rw [Odo.overflowFrom]
    simp only [hnk, ↓reduceIte, CronStateMachine.overflowFrom.go, nodeIsNil_lt k hk6, Bool.false_eq_true,
      nodeNext_mk T f fuel hD c hb ex k hk6, Option.bind_some]
    have hb' := hb.set_next f hwf k hk6
    cases hov : ((levels {} f k).next c (c k)).2 with
    | true =>
      simp only [↓reduceIte]
      have := ih (k + 1) _ ex cnt' (by omega) (by omega) hb' (by omega)
      rw [← this]; congr 1
    | false =>
      simp only [Bool.false_eq_true, ↓reduceIte, Bool.or_false]
      exact resetFrom_mk T f hwf fuel hD k (by omega) _ ex hb' hf _ rfl

theorem overflowFrom_mk (hf : 7 ≤ fuel) (k : Nat) (hk : k ≤ 6) (c : Cfg) (ex : Bool) (hb : Box c) (node : Int)
    (hn : node = (k : Int)) :
    CronStateMachine.overflowFrom T (mkCsm {} f c ex) node fuel =
      some (mkCsm {} f (Odo.overflowFrom (levels {} f) 6 k c).1 (ex || (Odo.overflowFrom (levels {} f) 6 k c).2)) := by
  subst hn
  exact overflowFrom_go T f hwf fuel hD hf (6 - k) k c ex fuel rfl hk hb (by omega)


/-! ## advanceInvalid -/

/-- node ids `m-1, …, 0` (most significant first) -/
def descList (m : Nat) : List Int := ((List.range m).reverse).map Int.ofNat

omit hwf hD in
theorem descList_succ (m : Nat) : descList (m + 1) = (m : Int) :: descList m := by
  simp [descList, List.range_succ]

omit hwf hD in
theorem descList_six : descList 6 = [years, months, days, hours, minutes, seconds] := by decide

/-- result of the validation pass in terms of the model's -/
def advRepr (c : Cfg) (ex : Bool) : Option (Cfg × Bool) → Ctl CronStateMachine (CronStateMachine × Bool)
  | none => .done (mkCsm {} f c ex)
  | some r => .ret (mkCsm {} f r.1 (ex || r.2), true)

theorem advanceInvalid_loop (hf : 7 ≤ fuel) (m : Nat) (hm : m ≤ 6) (c : Cfg) (ex : Bool) (hb : Box c) :
    CronStateMachine.advanceInvalid.loop1 T fuel (mkCsm {} f c ex) (descList m) =
      some (advRepr f c ex (Odo.advFrom (levels {} f) (levelsDec {} f) 6 m c)) := by
  induction m with
  | zero => rfl
  | succ m ih =>
    have hm6 : m < 6 := by omega
    rw [descList_succ, advFrom_succ]
    simp only [CronStateMachine.advanceInvalid.loop1, nodeFindForward_mk T f fuel hD c hb ex m hm6, Option.bind_some]
    cases hv : (levelsDec {} f m).isValid c (c m) with
    | true =>
      simp only [↓reduceIte, ne_eq, not_true_eq_false, decide_false, Bool.false_eq_true]
      exact ih (by omega)
    | false =>
      have hb1 := hb.set_next f hwf m hm6
      have hb2 := hb1.resetFrom f hwf m
      have hrs := resetFrom_mk T f hwf fuel hD m (by omega) _ ex hb1 hf ((m : Int) - 1) rfl
      cases hov : ((levels {} f m).next c (c m)).2 with
      | true =>
        have hof := overflowFrom_mk T f hwf fuel hD hf (m + 1) (by omega) _ ex hb2 ((m : Int) + 1) (by omega)
        simp [ffCode, hrs, hof, advRepr, unchanged, overflowed, advanced]
      | false =>
        simp [ffCode, hrs, advRepr, unchanged, overflowed, advanced]

/-- Go `advanceInvalid` = `Odo.advFrom L D 6 6` -/
theorem advanceInvalid_mk (hf : 7 ≤ fuel) (c : Cfg) (ex : Bool) (hb : Box c) :
    CronStateMachine.advanceInvalid T (mkCsm {} f c ex) fuel =
      some (match Odo.advFrom (levels {} f) (levelsDec {} f) 6 6 c with
            | none => (mkCsm {} f c ex, false)
            | some r => (mkCsm {} f r.1 (ex || r.2), true)) := by
  unfold CronStateMachine.advanceInvalid
  rw [← descList_six]
  simp only [advanceInvalid_loop T f hwf fuel hD hf 6 (Nat.le_refl _) c ex hb]
  cases Odo.advFrom (levels {} f) (levelsDec {} f) 6 6 c <;> rfl


/-! ## the loop of findForward -/

omit hwf hD in
theorem loop1_exhausted (cnt : Nat) (csm : CronStateMachine) (h : csm.exhausted = true) :
    CronStateMachine.findForward.loop1 T fuel (cnt + 1) csm = some csm := by
  simp [CronStateMachine.findForward.loop1, h]

/-- Go `for !csm.exhausted && csm.advanceInvalid() {}` against `Odo.loop` (the Go loop needs one more
turn to notice `exhausted`, hence `n + 1 ≤ cnt`) -/
theorem loop_mk (hf : 7 ≤ fuel) (n : Nat) : ∀ (c : Cfg) (cnt : Nat) (r : Cfg × Bool), Box c → n + 1 ≤ cnt →
    Odo.loop (levels {} f) (levelsDec {} f) 6 n c = some r →
    CronStateMachine.findForward.loop1 T fuel cnt (mkCsm {} f c false) = some (mkCsm {} f r.1 r.2) := by
  induction n with
  | zero => intro c cnt r _ _ h; simp [Odo.loop] at h
  | succ n ih =>
    intro c cnt r hb hc h
    obtain ⟨cnt', rfl⟩ : ∃ k, cnt = k + 1 := ⟨cnt - 1, by omega⟩
    have hadv := advanceInvalid_mk T f hwf fuel hD hf c false hb
    have hex : (mkCsm {} f c false).exhausted = false := rfl
    simp only [CronStateMachine.findForward.loop1, hex, Bool.not_false, ↓reduceIte, hadv, Option.bind_some]
    unfold Odo.loop at h
    cases ha : Odo.advFrom (levels {} f) (levelsDec {} f) 6 6 c with
    | none =>
      rw [ha] at h
      simp only [Option.some.injEq] at h
      subst h
      simp
    | some r' =>
      obtain ⟨c', fl⟩ := r'
      rw [ha] at h
      have hb' := hb.advFrom f hwf 6 (Nat.le_refl _) _ ha
      cases fl with
      | true =>
        simp only [Option.some.injEq] at h
        subst h
        obtain ⟨cnt'', rfl⟩ : ∃ k, cnt' = k + 1 := ⟨cnt' - 1, by omega⟩
        simp only [Bool.false_or, ↓reduceIte]
        exact loop1_exhausted T fuel cnt'' _ rfl
      | false =>
        simp only [Bool.false_or, ↓reduceIte]
        exact ih c' cnt' r hb' (by omega) h

/-- Go `findForward` = `Odo.findForward` (whenever the model's fuel `n` suffices and `n < fuel`) -/
theorem findForward_mk (hf : 7 ≤ fuel) (n : Nat) (hn : n + 1 ≤ fuel) (p : Cfg) (hb : Box p) (r : Cfg × Bool)
    (h : Odo.findForward (levels {} f) (levelsDec {} f) 6 n p = some r) :
    CronStateMachine.findForward T (mkCsm {} f p false) fuel = some (mkCsm {} f r.1 r.2) := by
  have hadv := advanceInvalid_mk T f hwf fuel hD hf p false hb
  unfold Odo.findForward at h
  simp only [CronStateMachine.findForward, hadv, Option.bind_some]
  obtain ⟨fuel', rfl⟩ : ∃ k, fuel = k + 1 := ⟨fuel - 1, by omega⟩
  cases ha : Odo.advFrom (levels {} f) (levelsDec {} f) 6 6 p with
  | none =>
    rw [ha] at h
    simp only [Bool.false_eq_true, ↓reduceIte, CronStateMachine.next]
    rw [overflowFrom_mk T f hwf (fuel' + 1) hD hf 0 (by omega) p false hb seconds rfl]
    have hb' := hb.overflowFrom f hwf 0
    simp only [Option.bind_some, Bool.false_or]
    cases hfl : (Odo.overflowFrom (levels {} f) 6 0 p).2 with
    | true =>
      simp only [hfl, ↓reduceIte, Option.some.injEq] at h
      subst h
      rw [hfl]
      exact loop1_exhausted T (fuel' + 1) fuel' _ rfl
    | false =>
      simp only [hfl, Bool.false_eq_true, ↓reduceIte] at h
      exact loop_mk T f hwf (fuel' + 1) hD hf n _ (fuel' + 1) r hb' hn h
  | some r' =>
    obtain ⟨c', fl⟩ := r'
    rw [ha] at h
    have hb' := hb.advFrom f hwf 6 (Nat.le_refl _) _ ha
    simp only [↓reduceIte, Bool.false_or]
    cases fl with
    | true =>
      simp only [↓reduceIte, Option.some.injEq] at h
      subst h
      exact loop1_exhausted T (fuel' + 1) fuel' _ rfl
    | false =>
      simp only [Bool.false_eq_true, ↓reduceIte] at h
      exact loop_mk T f hwf (fuel' + 1) hD hf n _ (fuel' + 1) r hb' hn h

end machine
end TransC
