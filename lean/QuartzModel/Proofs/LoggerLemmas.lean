import QuartzModel.Logger.Simple
/-!
# Helper lemmas for C18: the mutex of `SimpleLogger.output` keeps a prefix together with its line
-/
namespace Logger

theorem updT_same (f : Nat → Thread) (i : Nat) (t : Thread) : updT f i t i = t := by simp [updT]

theorem updT_other (f : Nat → Thread) (i j : Nat) (t : Thread) (h : j ≠ i) : updT f i t j = f j := by
  simp [updT, h]

/-- the inductive invariant of the locked system -/
structure LInv (thr : Int) (s : LState) : Prop where
  /-- mutual exclusion: whoever is past `Lock()` holds the mutex -/
  excl : ∀ i, (s.th i).pc ≠ .start → s.lock = some i
  /-- whoever is past the filter is logging an enabled record -/
  cur : ∀ i, (s.th i).pc ≠ .start → ∃ r rest, (s.th i).todo = r :: rest ∧ enabled thr r.lvl.value = true
  /-- between `SetPrefix` and `Output` the shared prefix is the one of the record being logged -/
  pfx : ∀ i r rest, (s.th i).pc = .prefixed → (s.th i).todo = r :: rest → s.pfx = r.lvl.label
  /-- every written line carries the label of its own level, and passed the filter -/
  out : ∀ e ∈ s.out, e.label = e.lvl.label ∧ enabled thr e.lvl.value = true

theorem linv_init (thr : Int) (work : Nat → List Rec) : LInv thr (linit work) where
  excl := by intro i h; simp [linit] at h
  cur := by intro i h; simp [linit] at h
  pfx := by intro i r rest h; simp [linit] at h
  out := by intro e h; simp [linit] at h

theorem linv_step (thr : Int) (s : LState) (i : Nat) (h : LInv thr s) : LInv thr (lstep true thr s i) := by
  unfold lstep
  cases htodo : (s.th i).todo with
  | nil => exact h
  | cons r rest =>
    cases hpc : (s.th i).pc with
    | start =>
      by_cases hen : enabled thr r.lvl.value = true
      · cases hl : s.lock with
        | none =>
          simp only [hen, Bool.not_true, Bool.false_eq_true, if_false, if_true]
          refine ⟨?_, ?_, ?_, h.out⟩
          · intro j hj
            by_cases hji : j = i
            · subst hji; rfl
            · simp only [updT_other _ _ _ _ hji] at hj
              have := h.excl j hj
              rw [hl] at this; cases this
          · intro j hj
            by_cases hji : j = i
            · subst hji; simp only [updT_same]; exact ⟨r, rest, rfl, hen⟩
            · simp only [updT_other _ _ _ _ hji] at hj ⊢; exact h.cur j hj
          · intro j r' rest' hj ht
            by_cases hji : j = i
            · subst hji; simp only [updT_same] at hj; cases hj
            · simp only [updT_other _ _ _ _ hji] at hj ht; exact h.pfx j r' rest' hj ht
        | some k =>
          simp only [hen, Bool.not_true, Bool.false_eq_true, if_false, if_true]
          exact h
      · simp only [hen, Bool.not_false, if_true]
        refine ⟨?_, ?_, ?_, h.out⟩
        · intro j hj
          by_cases hji : j = i
          · subst hji; simp only [updT_same] at hj; exact absurd rfl hj
          · simp only [updT_other _ _ _ _ hji] at hj; exact h.excl j hj
        · intro j hj
          by_cases hji : j = i
          · subst hji; simp only [updT_same] at hj; exact absurd rfl hj
          · simp only [updT_other _ _ _ _ hji] at hj ⊢; exact h.cur j hj
        · intro j r' rest' hj ht
          by_cases hji : j = i
          · subst hji; simp only [updT_same] at hj; cases hj
          · simp only [updT_other _ _ _ _ hji] at hj ht; exact h.pfx j r' rest' hj ht
    | locked =>
      have hli : s.lock = some i := h.excl i (by rw [hpc]; intro hc; cases hc)
      refine ⟨?_, ?_, ?_, h.out⟩
      · intro j hj
        by_cases hji : j = i
        · subst hji; exact hli
        · simp only [updT_other _ _ _ _ hji] at hj; exact h.excl j hj
      · intro j hj
        by_cases hji : j = i
        · subst hji; simp only [updT_same]
          obtain ⟨r', rest', h1, h2⟩ := h.cur j (by rw [hpc]; intro hc; cases hc)
          rw [htodo] at h1; cases h1
          exact ⟨r, rest, rfl, h2⟩
        · simp only [updT_other _ _ _ _ hji] at hj ⊢; exact h.cur j hj
      · intro j r' rest' hj ht
        by_cases hji : j = i
        · subst hji; simp only [updT_same] at ht; cases ht; rfl
        · simp only [updT_other _ _ _ _ hji] at hj ht
          have := h.excl j (by rw [hj]; intro hc; cases hc)
          rw [hli] at this; cases this; exact absurd rfl hji
    | prefixed =>
      refine ⟨?_, ?_, ?_, ?_⟩
      · intro j hj
        by_cases hji : j = i
        · subst hji; exact h.excl j (by rw [hpc]; intro hc; cases hc)
        · simp only [updT_other _ _ _ _ hji] at hj; exact h.excl j hj
      · intro j hj
        by_cases hji : j = i
        · subst hji; simp only [updT_same]
          obtain ⟨r', rest', h1, h2⟩ := h.cur j (by rw [hpc]; intro hc; cases hc)
          rw [htodo] at h1; cases h1
          exact ⟨r, rest, rfl, h2⟩
        · simp only [updT_other _ _ _ _ hji] at hj ⊢; exact h.cur j hj
      · intro j r' rest' hj ht
        by_cases hji : j = i
        · subst hji; simp only [updT_same] at hj; cases hj
        · simp only [updT_other _ _ _ _ hji] at hj ht; exact h.pfx j r' rest' hj ht
      · intro e he
        rcases List.mem_cons.mp he with he | he
        · subst he
          obtain ⟨r', rest', h1, h2⟩ := h.cur i (by rw [hpc]; intro hc; cases hc)
          rw [htodo] at h1; cases h1
          exact ⟨h.pfx i r rest hpc htodo, h2⟩
        · exact h.out e he
    | written =>
      have hli : s.lock = some i := h.excl i (by rw [hpc]; intro hc; cases hc)
      refine ⟨?_, ?_, ?_, h.out⟩
      · intro j hj
        by_cases hji : j = i
        · subst hji; simp only [updT_same] at hj; exact absurd rfl hj
        · simp only [updT_other _ _ _ _ hji] at hj
          have := h.excl j hj
          rw [hli] at this; cases this; exact absurd rfl hji
      · intro j hj
        by_cases hji : j = i
        · subst hji; simp only [updT_same] at hj; exact absurd rfl hj
        · simp only [updT_other _ _ _ _ hji] at hj ⊢; exact h.cur j hj
      · intro j r' rest' hj ht
        by_cases hji : j = i
        · subst hji; simp only [updT_same] at hj; cases hj
        · simp only [updT_other _ _ _ _ hji] at hj ht; exact h.pfx j r' rest' hj ht

theorem linv_run (thr : Int) (sched : List Nat) (s : LState) (h : LInv thr s) : LInv thr (lrun true thr s sched) := by
  induction sched generalizing s with
  | nil => exact h
  | cons i rest ih => exact ih _ (linv_step thr s i h)

theorem linv_reachable (thr : Int) (work : Nat → List Rec) (sched : List Nat) :
    LInv thr (lrun true thr (linit work) sched) :=
  linv_run thr sched _ (linv_init thr work)

/-! ## the structured reading of an argument list -/

/-- key/value pairs, and the odd argument at the end if there is one -/
structure Structured where
  pairs : List (String × String)
  tail : Option String
  deriving DecidableEq, Repr

def structured : List String → Structured
  | [] => ⟨[], none⟩
  | [a] => ⟨[], some a⟩
  | k :: v :: rest => ⟨(k, v) :: (structured rest).pairs, (structured rest).tail⟩

/-- back from the structured form to the flat argument list -/
def Structured.flat (s : Structured) : List String := s.pairs.flatMap (fun kv => [kv.1, kv.2]) ++ s.tail.toList

/-- the items that follow `msg=…`, each rendered on its own -/
def Structured.items (s : Structured) : List String := s.pairs.map (fun kv => kv.1 ++ "=" ++ kv.2) ++ s.tail.toList

theorem structured_flat : ∀ args : List String, (structured args).flat = args
  | [] => rfl
  | [_] => rfl
  | k :: v :: rest => by
    have ih := structured_flat rest
    simp only [Structured.flat, structured, List.flatMap_cons, List.cons_append, List.nil_append] at ih ⊢
    rw [ih]

theorem structured_counts : ∀ args : List String,
    (structured args).pairs.length = args.length / 2 ∧ ((structured args).tail.isSome ↔ args.length % 2 = 1)
  | [] => by simp [structured]
  | [_] => by simp [structured]
  | k :: v :: rest => by
    have ih := structured_counts rest
    simp only [structured, List.length_cons]
    refine ⟨by omega, ?_⟩
    rw [ih.2]; omega

/-- plain concatenation -/
def concat : List String → String
  | [] => ""
  | a :: t => a ++ concat t

/-- `formatArgs` = every item preceded by `", "` -/
theorem formatArgs_items : ∀ args : List String,
    formatArgs args = concat ((structured args).items.map (", " ++ ·))
  | [] => by simp [formatArgs, structured, Structured.items, concat]
  | [a] => by simp [formatArgs, structured, Structured.items, concat]
  | k :: v :: rest => by
    have ih := formatArgs_items rest
    simp only [formatArgs, structured, Structured.items, List.map_cons, List.cons_append, concat] at ih ⊢
    rw [ih]
    simp [String.append_assoc]

/-- item `j` of the line, by POSITION in the flat argument list (the Go loop `i = 2j`) -/
def itemAt (args : List String) (j : Nat) : String :=
  if 2 * j + 1 < args.length then ", " ++ args.getD (2 * j) "" ++ "=" ++ args.getD (2 * j + 1) ""
  else ", " ++ args.getD (2 * j) ""

theorem itemAt_succ (k v : String) (rest : List String) (j : Nat) :
    itemAt (k :: v :: rest) (j + 1) = itemAt rest j := by
  unfold itemAt
  have h1 : 2 * (j + 1) = (2 * j + 1) + 1 := by omega
  have h2 : 2 * (j + 1) + 1 = (2 * j + 1 + 1) + 1 := by omega
  rw [h2, h1]
  simp only [List.length_cons, List.getD_cons_succ]
  have : (2 * j + 1 + 1 + 1 < rest.length + 1 + 1) ↔ (2 * j + 1 < rest.length) := by omega
  simp only [this]

theorem formatArgs_indexed : ∀ args : List String,
    formatArgs args = concat ((List.range ((args.length + 1) / 2)).map (itemAt args))
  | [] => by simp [formatArgs, concat]
  | [a] => by simp [formatArgs, concat, itemAt, List.range_succ]
  | k :: v :: rest => by
    have ih := formatArgs_indexed rest
    have hl : ((k :: v :: rest).length + 1) / 2 = (rest.length + 1) / 2 + 1 := by simp only [List.length_cons]; omega
    rw [hl, List.range_succ_eq_map, List.map_cons, List.map_map]
    have hf : (itemAt (k :: v :: rest) ∘ Nat.succ) = itemAt rest := by
      funext j; exact itemAt_succ k v rest j
    rw [hf, concat, ← ih]
    simp [formatArgs, itemAt, String.append_assoc]

end Logger

/-! ## nothing is lost: per goroutine, written ++ still to write = the enabled records of its work -/
namespace Logger

def Emitted.record (e : Emitted) : Rec := ⟨e.lvl, e.msg⟩

/-- the records goroutine `i` has written so far, oldest first -/
def writtenBy (s : LState) (i : Nat) : List Rec := ((s.out.filter (fun e => e.tid = i)).map Emitted.record).reverse

/-- the enabled records a goroutine has still to write -/
def pending (thr : Int) (t : Thread) : List Rec :=
  match t.pc with
  | .written => t.todo.tail.filter (fun r => enabled thr r.lvl.value)
  | _ => t.todo.filter (fun r => enabled thr r.lvl.value)

def Complete (thr : Int) (work : Nat → List Rec) (s : LState) : Prop :=
  ∀ i, writtenBy s i ++ pending thr (s.th i) = (work i).filter (fun r => enabled thr r.lvl.value)

theorem complete_init (thr : Int) (work : Nat → List Rec) : Complete thr work (linit work) := by
  intro i; simp [writtenBy, pending, linit]

theorem complete_step (thr : Int) (work : Nat → List Rec) (s : LState) (i : Nat) (h : LInv thr s)
    (hc : Complete thr work s) : Complete thr work (lstep true thr s i) := by
  unfold lstep
  cases htodo : (s.th i).todo with
  | nil => exact hc
  | cons r rest =>
    cases hpc : (s.th i).pc with
    | start =>
      by_cases hen : enabled thr r.lvl.value = true
      · cases hl : s.lock with
        | none =>
          simp only [hen, Bool.not_true, Bool.false_eq_true, if_false, if_true]
          intro j
          have hj := hc j
          by_cases hji : j = i
          · subst hji
            simp only [writtenBy, updT_same, pending] at hj ⊢
            rw [hpc, htodo] at hj
            exact hj
          · simp only [writtenBy, updT_other _ _ _ _ hji] at hj ⊢; exact hj
        | some k =>
          simp only [hen, Bool.not_true, Bool.false_eq_true, if_false, if_true]
          exact hc
      · simp only [hen, Bool.not_false, if_true]
        intro j
        have hj := hc j
        by_cases hji : j = i
        · subst hji
          simp only [writtenBy, updT_same, pending] at hj ⊢
          rw [hpc, htodo] at hj
          simp only [List.filter_cons, hen, Bool.false_eq_true, if_false] at hj
          exact hj
        · simp only [writtenBy, updT_other _ _ _ _ hji] at hj ⊢; exact hj
    | locked =>
      intro j
      have hj := hc j
      by_cases hji : j = i
      · subst hji
        simp only [writtenBy, updT_same, pending] at hj ⊢
        rw [hpc, htodo] at hj
        exact hj
      · simp only [writtenBy, updT_other _ _ _ _ hji] at hj ⊢; exact hj
    | prefixed =>
      obtain ⟨r', rest', h1, hen⟩ := h.cur i (by rw [hpc]; intro hx; cases hx)
      rw [htodo] at h1; cases h1
      intro j
      have hj := hc j
      by_cases hji : j = i
      · subst hji
        simp only [writtenBy, updT_same, pending] at hj ⊢
        rw [hpc, htodo] at hj
        simp only [List.filter_cons, hen, if_true] at hj
        simp only [List.filter_cons, decide_true, if_true, List.map_cons, List.reverse_cons, List.tail_cons,
          List.append_assoc, List.singleton_append, Emitted.record]
        exact hj
      · have hne : ¬ (i = j) := fun hx => hji hx.symm
        simp only [writtenBy, updT_other _ _ _ _ hji, List.filter_cons, hne, decide_false, Bool.false_eq_true,
          if_false] at hj ⊢
        exact hj
    | written =>
      intro j
      have hj := hc j
      by_cases hji : j = i
      · subst hji
        simp only [writtenBy, updT_same, pending] at hj ⊢
        rw [hpc, htodo] at hj
        exact hj
      · simp only [writtenBy, updT_other _ _ _ _ hji] at hj ⊢; exact hj

theorem complete_run (thr : Int) (work : Nat → List Rec) (sched : List Nat) (s : LState) (h : LInv thr s)
    (hc : Complete thr work s) : Complete thr work (lrun true thr s sched) := by
  induction sched generalizing s with
  | nil => exact hc
  | cons i rest ih => exact ih _ (linv_step thr s i h) (complete_step thr work s i h hc)

theorem complete_reachable (thr : Int) (work : Nat → List Rec) (sched : List Nat) :
    Complete thr work (lrun true thr (linit work) sched) :=
  complete_run thr work sched _ (linv_init thr work) (complete_init thr work)

end Logger
