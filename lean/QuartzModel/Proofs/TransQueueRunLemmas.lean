import QuartzModel.Proofs.TransQueueLemmas
import QuartzModel.Theorems.C11
/-!
# Runs of the translated queue (`Generated.TransQueue.jobQueue.*`) simulate runs of the model (`Queue.step`)
-/
set_option autoImplicit false

namespace TransQueue
open Generated.TransQueue
open Queue

/-! ## runs of the translated queue simulate runs of the model -/

theorem hremove_size_le (a : Arr) (i : Nat) : (hremove a i).1.size ≤ a.size := by
  unfold hremove
  split
  · exact Nat.le_refl _
  · simp only [Array.size_pop]
    split
    · split
      · rw [down_size, size_swp]; omega
      · rw [up_size, down_size, size_swp]; omega
    · omega

theorem hpop_size_le (a : Arr) : (hpop a).1.size ≤ a.size := by
  unfold hpop
  split
  · exact Nat.le_refl _
  · simp only [Array.size_pop]
    rw [down_size, size_swp]; omega

theorem step_size_le (a : Arr) (op : Op) : (step a op).size ≤ a.size + 1 := by
  cases op with
  | push e =>
    simp only [step]
    unfold qpush
    cases findIdx a e.group e.name with
    | none => simp [hpush_size]
    | some i =>
      have := hremove_size_le a i
      by_cases hr : e.replace = true
      · simp only [hr, if_true, hpush_size]; omega
      · simp [hr]
  | pop =>
    simp only [step]
    unfold qpop
    have := hpop_size_le a
    rcases hp : hpop a with ⟨a', o⟩
    rw [hp] at this
    cases o with
    | none => simp
    | some e => simp only at this ⊢; omega
  | remove g n =>
    simp only [step]
    unfold qremove
    cases findIdx a g n with
    | none => simp
    | some i =>
      have := hremove_size_le a i
      rcases hp : hremove a i with ⟨a', o⟩
      rw [hp] at this
      simp only [hp]
      cases o with
      | none => simp
      | some e => simp only at this ⊢; omega
  | clear => simp [step]

/-- operations of the translated queue -/
inductive TOp where
  | push (sj : scheduledJob) | pop | remove (key : JobKey) | clear

def absOp : TOp → Op
  | .push sj => .push (toEntry sj)
  | .pop => .pop
  | .remove key => .remove key.group key.name
  | .clear => .clear

/-- one call of a translated `jobQueue` method (result dropped, queue kept) -/
def tstep (fuel : Nat) (jq : jobQueue) : TOp → Option jobQueue
  | .push sj => (jobQueue.Push jq sj fuel).map (·.1)
  | .pop => (jobQueue.Pop jq fuel).map (·.1)
  | .remove key => (jobQueue.Remove jq key fuel).map (·.1)
  | .clear => some (jobQueue.Clear jq).1

def trun (fuel : Nat) : jobQueue → List TOp → Option jobQueue
  | jq, [] => some jq
  | jq, op :: ops => (tstep fuel jq op).bind fun jq' => trun fuel jq' ops

theorem tstep_sim (fuel : Nat) (jq : jobQueue) (op : TOp) (hf : jq.delegate.length < fuel) :
    ∃ jq', tstep fuel jq op = some jq' ∧ toArr jq'.delegate = step (toArr jq.delegate) (absOp op) := by
  cases op with
  | push sj =>
    have h := trans_qpush jq sj fuel hf
    simp only [tstep, absOp, step]
    cases hq : qpush (toArr jq.delegate) (toEntry sj) with
    | ok a' => rw [hq] at h; obtain ⟨jq', e1, e2⟩ := h; exact ⟨jq', by simp [e1], e2⟩
    | error e => rw [hq] at h; exact ⟨jq, by simp [h], rfl⟩
  | pop =>
    have h := trans_qpop jq fuel (by omega)
    simp only [tstep, absOp, step]
    cases hq : qpop (toArr jq.delegate) with
    | ok r => obtain ⟨a', e⟩ := r; rw [hq] at h; obtain ⟨jq', sj, e1, e2, _⟩ := h; exact ⟨jq', by simp [e1], e2⟩
    | error e => rw [hq] at h; exact ⟨jq, by simp [h], rfl⟩
  | remove key =>
    have h := trans_qremove jq key fuel (by omega)
    simp only [tstep, absOp, step]
    cases hq : qremove (toArr jq.delegate) key.group key.name with
    | ok r => obtain ⟨a', e⟩ := r; rw [hq] at h; obtain ⟨jq', sj, e1, e2, _⟩ := h; exact ⟨jq', by simp [e1], e2⟩
    | error e => rw [hq] at h; exact ⟨jq, by simp [h], rfl⟩
  | clear => exact ⟨_, rfl, (trans_qclear jq).1⟩

theorem trun_sim (fuel : Nat) : ∀ (ops : List TOp) (jq : jobQueue), jq.delegate.length + ops.length ≤ fuel →
    ∃ jq', trun fuel jq ops = some jq' ∧ toArr jq'.delegate = (ops.map absOp).foldl step (toArr jq.delegate) := by
  intro ops
  induction ops with
  | nil => intro jq _; exact ⟨jq, rfl, rfl⟩
  | cons op ops ih =>
    intro jq hf
    simp only [List.length_cons] at hf
    obtain ⟨jq1, e1, e2⟩ := tstep_sim fuel jq op (by omega)
    have hsz : jq1.delegate.length ≤ jq.delegate.length + 1 := by
      have := step_size_le (toArr jq.delegate) (absOp op)
      rw [← e2] at this
      simpa using this
    obtain ⟨jq2, r1, r2⟩ := ih jq1 (by omega)
    exact ⟨jq2, by simp [trun, e1, r1], by simp [r2, e2]⟩

end TransQueue
