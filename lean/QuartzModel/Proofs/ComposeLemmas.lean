import QuartzModel.Sched.Model
import QuartzModel.Sched.History
import QuartzModel.Proofs.SchedLemmas
import QuartzModel.Theorems.C01
import QuartzModel.Theorems.C02
import QuartzModel.Theorems.C03
import QuartzModel.Theorems.C04
/-!
# Helper lemmas for the composition scheduler ∘ cron trigger (`Theorems/Compose.lean`)

Vocabulary (`NonnegClock`, `cronNext`, `chain`, `NoSkip`, `ExactlyFirst`, `lastOr`), the cron trigger as
a stateless `Trig`, and the history invariant of a registered cron job: its trigger object stays
`.cron f c`, every call on it is `⟨tag, pv, cronNext f c pv⟩` with `0 ≤ pv`, every active entry that
carries it has a non-negative fire time.
-/
namespace Sched
open Queue

/-! ## vocabulary -/

/-- the clock reading the event carries (if it carries one) is not before the Unix epoch -/
def Ev.clockNonneg : Ev → Prop
  | .schedule now _ => 0 ≤ now
  | .resume now _ _ _ => 0 ≤ now
  | .step now => 0 ≤ now
  | _ => True

instance (ev : Ev) : Decidable ev.clockNonneg := by
  cases ev <;> unfold Ev.clockNonneg <;> infer_instance

/-- every clock reading of the history (`ScheduleJob`, `ResumeJob`, loop step) is `≥ 0` -/
def NonnegClock (evs : List Ev) : Prop := ∀ ev ∈ evs, ev.clockNonneg

instance (evs : List Ev) : Decidable (NonnegClock evs) :=
  inferInstanceAs (Decidable (∀ ev ∈ evs, ev.clockNonneg))

/-- `CronTrigger.NextFireTime(prev)` as the scheduler sees it: `none` = the trigger's error -/
def cronNext (f : Cron.Fields) (c prev : Int) : Option Int := (Trig.fire (.cron f c) prev).1

/-- the first `k` answers of the trigger when it is iterated from `prev`:
`r₁ = next(prev), r₂ = next(r₁), …` (shorter if the trigger expires on the way) -/
def chain (f : Cron.Fields) (c : Int) : Int → Nat → List Int
  | _, 0 => []
  | prev, k + 1 =>
    match cronNext f c prev with
    | some r => r :: chain f c r k
    | none => []

/-- `l` lists whole seconds after `prev` that satisfy the expression (civil reading at offset `c`), in
strictly increasing order, and no matching whole second lies strictly between `prev` and the first or
between two consecutive members.  (An inductive predicate rather than a recursive definition, so that
the elaborator never tries to evaluate it on a concrete history.) -/
inductive NoSkip (f : Cron.Fields) (c : Int) : Int → List Int → Prop
  | nil (prev : Int) : NoSkip f c prev []
  | cons {prev r : Int} {rest : List Int} :
      prev < r → r % 1000000000 = 0 →
      Cron.Matches f (Cal.Civil.ofSeconds (r / 1000000000 + c)) →
      (∀ u : Int, prev < u → u < r → u % 1000000000 = 0 →
        ¬ Cron.Matches f (Cal.Civil.ofSeconds (u / 1000000000 + c))) →
      NoSkip f c r rest → NoSkip f c prev (r :: rest)

/-- `l` is EXACTLY the list of the first `l.length` matching instants after `prev`, in increasing
order: increasing, all after `prev`, and a whole second `u` with `prev < u ≤ max l` is in `l` iff its
civil reading satisfies the expression -/
def ExactlyFirst (f : Cron.Fields) (c : Int) (prev : Int) (l : List Int) : Prop :=
  l.Pairwise (· < ·) ∧ (∀ r ∈ l, prev < r) ∧
  ∀ u : Int, u % 1000000000 = 0 → prev < u → (∃ r ∈ l, u ≤ r) →
    (u ∈ l ↔ Cron.Matches f (Cal.Civil.ofSeconds (u / 1000000000 + c)))

/-- last member of `l`, `d` if there is none -/
def lastOr (d : Int) (l : List Int) : Int := l.getLast?.getD d

/-- Bool-valued checker for `NeverOutdated` (concrete histories) -/
def neverOutdatedB (t : Nat) (obs : List Obs) : Bool :=
  obs.all fun o =>
    match o.out with
    | some out =>
      match out.popped with
      | some e => !(e.tag == t && out.cls == some .outdated)
      | none => true
    | none => true

/-- Bool-valued checker for `OnlySteps` -/
def onlyStepsB (evs : List Ev) : Bool :=
  evs.all fun ev => match ev with | .step _ => true | _ => false

theorem neverOutdatedB_sound (t : Nat) (obs : List Obs) (h : neverOutdatedB t obs = true) :
    NeverOutdated t obs := by
  intro o ho out e hout hpop het hcls
  have := (List.all_eq_true.mp h) o ho
  simp only [hout, hpop, het, hcls, beq_self_eq_true, Bool.and_self, Bool.not_true] at this
  cases this

theorem onlyStepsB_sound (evs : List Ev) (h : onlyStepsB evs = true) : OnlySteps evs := by
  intro ev hev
  have := (List.all_eq_true.mp h) ev hev
  cases ev with
  | step now => exact ⟨now, rfl⟩
  | _ => cases this

@[simp] theorem lastOr_nil (d : Int) : lastOr d [] = d := rfl

theorem lastOr_cons (d a : Int) (l : List Int) : lastOr d (a :: l) = lastOr a l := by
  simp [lastOr, List.getLast?_cons]

/-! ## the cron trigger as a `Trig` -/

theorem cron_fire_eq (f : Cron.Fields) (c prev : Int) :
    Trig.fire (.cron f c) prev = (cronNext f c prev, .cron f c) := by
  unfold cronNext
  simp only [Trig.fire]
  split <;> rfl

theorem cron_fire_state (f : Cron.Fields) (c prev : Int) :
    (Trig.fire (.cron f c) prev).2 = .cron f c := by rw [cron_fire_eq]

theorem cronNext_some_iff (f : Cron.Fields) (c prev r : Int) :
    cronNext f c prev = some r ↔ Cron.nextFire {} f (Cron.fixedZone c) prev = .ok r := by
  unfold cronNext
  simp only [Trig.fire]
  cases h : Cron.nextFire {} f (Cron.fixedZone c) prev <;> simp

/-- on a fixed-offset location the trigger's error is exactly "expired" (never "out of fuel") -/
theorem cronNext_none_iff (f : Cron.Fields) (hwf : Cron.WellFormed f = true) (c prev : Int)
    (hc : -100000 ≤ c ∧ c ≤ 100000) (hp : -9223372036854775808 ≤ prev) :
    cronNext f c prev = none ↔ Cron.nextFire {} f (Cron.fixedZone c) prev = .expired := by
  obtain ⟨nw, _, hnf⟩ := Cron.nextFire_fixed f hwf c prev hc hp
  unfold cronNext
  simp only [Trig.fire]
  rw [hnf]
  cases nw <;> simp

/-- C01 for the trigger object -/
theorem cronNext_sound (f : Cron.Fields) (hwf : Cron.WellFormed f = true) (c prev : Int)
    (hc : -100000 ≤ c ∧ c ≤ 100000) (hp : -9223372036854775808 ≤ prev) (r : Int) (h : cronNext f c prev = some r) :
    r % 1000000000 = 0 ∧ prev < r ∧ Cron.Matches f (Cal.Civil.ofSeconds (r / 1000000000 + c)) :=
  Cron.C01_sound f hwf c prev hc hp r ((cronNext_some_iff f c prev r).mp h)

/-- C02 (minimality) for the trigger object -/
theorem cronNext_minimal (f : Cron.Fields) (hwf : Cron.WellFormed f = true) (c prev : Int)
    (hc : -100000 ≤ c ∧ c ≤ 100000) (hp : -9223372036854775808 ≤ prev) (r : Int) (h : cronNext f c prev = some r) :
    ∀ u : Int, prev < u → u < r → u % 1000000000 = 0 →
      ¬ Cron.Matches f (Cal.Civil.ofSeconds (u / 1000000000 + c)) :=
  Cron.C02_minimal f hwf c prev hc hp r ((cronNext_some_iff f c prev r).mp h)

/-- C02 (expiry) for the trigger object: the error answer means that no matching instant is left -/
theorem cronNext_none_iff_no_match (f : Cron.Fields) (hwf : Cron.WellFormed f = true) (c prev : Int)
    (hc : -100000 ≤ c ∧ c ≤ 100000) (hp : -9223372036854775808 ≤ prev) :
    cronNext f c prev = none ↔
      ¬ ∃ u : Int, prev < u ∧ u % 1000000000 = 0 ∧
        Cron.Matches f (Cal.Civil.ofSeconds (u / 1000000000 + c)) := by
  rw [cronNext_none_iff f hwf c prev hc hp]
  exact Cron.C02_expired_iff f hwf c prev hc hp

/-! ## the chain of answers -/

@[simp] theorem chain_zero (f : Cron.Fields) (c prev : Int) : chain f c prev 0 = [] := rfl

theorem chain_succ_some (f : Cron.Fields) (c prev r : Int) (k : Nat) (h : cronNext f c prev = some r) :
    chain f c prev (k + 1) = r :: chain f c r k := by
  simp only [chain, h]

theorem chain_succ_none (f : Cron.Fields) (c prev : Int) (k : Nat) (h : cronNext f c prev = none) :
    chain f c prev (k + 1) = [] := by
  simp only [chain, h]

/-- C01 + C02 along the chain -/
theorem chain_noSkip (f : Cron.Fields) (hwf : Cron.WellFormed f = true) (c : Int)
    (hc : -100000 ≤ c ∧ c ≤ 100000) (k : Nat) :
    ∀ prev : Int, -9223372036854775808 ≤ prev → NoSkip f c prev (chain f c prev k) := by
  induction k with
  | zero => intro prev _; exact .nil prev
  | succ k ih =>
    intro prev hp
    cases h : cronNext f c prev with
    | none => rw [chain_succ_none f c prev k h]; exact .nil prev
    | some r =>
      rw [chain_succ_some f c prev r k h]
      obtain ⟨h1, h2, h3⟩ := cronNext_sound f hwf c prev hc hp r h
      exact .cons h2 h1 h3 (cronNext_minimal f hwf c prev hc hp r h) (ih r (by omega))

/-- "no gap between consecutive members" is the same as "exactly the first matching instants" -/
theorem noSkip_exactlyFirst (f : Cron.Fields) (c : Int) (l : List Int) :
    ∀ prev : Int, NoSkip f c prev l → ExactlyFirst f c prev l := by
  induction l with
  | nil =>
    intro prev _
    exact ⟨List.Pairwise.nil, (fun r hr => by cases hr), fun u _ _ ⟨r, hr, _⟩ => by cases hr⟩
  | cons r rest ih =>
    intro prev h
    cases h with
    | cons h1 h2 h3 h4 h5 =>
      obtain ⟨i1, i2, i3⟩ := ih r h5
      refine ⟨List.pairwise_cons.mpr ⟨fun r' hr' => i2 r' hr', i1⟩, ?_, ?_⟩
      · intro r' hr'
        rcases List.mem_cons.mp hr' with rfl | hr'
        · exact h1
        · have := i2 r' hr'; omega
      · intro u hu hpu ⟨r', hr', hur'⟩
        rcases Int.lt_trichotomy u r with hlt | heq | hgt
        · constructor
          · intro hmem
            rcases List.mem_cons.mp hmem with rfl | hmem
            · omega
            · have := i2 u hmem; omega
          · intro hm
            exact absurd hm (h4 u hpu hlt hu)
        · subst heq
          exact ⟨fun _ => h3, fun _ => List.mem_cons_self⟩
        · have hex : ∃ r'' ∈ rest, u ≤ r'' := by
            rcases List.mem_cons.mp hr' with rfl | hr'
            · omega
            · exact ⟨r', hr', hur'⟩
          rw [← i3 u hu hgt hex, List.mem_cons]
          constructor
          · rintro (rfl | hmem)
            · omega
            · exact hmem
          · exact fun hmem => Or.inr hmem

/-! ## one event, seen from a registered cron job -/

/-- where the argument of a trigger call comes from: the clock reading of the event, or the fire time
of the active registry entry that is being dispatched -/
theorem kind_calls_prev {thr : Int} {s s' : SState} {ev : Ev} {o : Obs} (hk : Kind thr s ev s' o) :
    ∀ cl ∈ o.calls, ev.schedTag? = some cl.tag ∨ (ev.clockNonneg → 0 ≤ cl.prev) ∨
      ∃ e ∈ s.q.toList, e.tag = cl.tag ∧ e.suspended = false ∧ cl.prev = e.prio := by
  intro cl hc
  cases hk with
  | idle _ _ _ hmem hinv htr hcalls hdisp hpop => rw [hcalls] at hc; cases hc
  | schedFail now a r err => rw [List.mem_singleton] at hc; subst hc; exact Or.inl rfl
  | sched now a t t' p calls q' old hl ht hpc hold hnew hmem hinv =>
    rcases hpc with ⟨_, _, _, h4⟩ | ⟨_, _, _, h4⟩
    · subst h4; cases hc
    · subst h4; rw [List.mem_singleton] at hc; subst hc; exact Or.inl rfl
  | del => cases hc
  | pause => cases hc
  | resumeFail now g n e he hg hn hs hf =>
    rw [List.mem_singleton] at hc; subst hc
    exact Or.inr (Or.inl (fun h => h))
  | resume now g n e p q1 he hg hn hs hf hmem hinv =>
    rw [List.mem_singleton] at hc; subst hc
    exact Or.inr (Or.inl (fun h => h))
  | clear => cases hc
  | stepAsk now e q1 pv r q' he hmin ha hf hmem1 hq' hinv =>
    rw [List.mem_singleton] at hc; subst hc
    obtain ⟨hs, ⟨_, hpv, _, _⟩ | ⟨_, hpv, _⟩⟩ := askedWith_some_active ha
    · exact Or.inr (Or.inr ⟨e, he, rfl, hs, hpv⟩)
    · exact Or.inr (Or.inl (fun h => by subst hpv; exact h))

/-- the invariant of a registered cron job with trigger object `t`: the stored trigger is `.cron f c`
and every active entry that carries it has a fire time `≥ 0` -/
structure CronInv (t : Nat) (f : Cron.Fields) (c : Int) (s : SState) : Prop where
  trig : s.trig t = .cron f c
  prio : ∀ x ∈ s.q.toList, x.tag = t → x.suspended = false → 0 ≤ x.prio

theorem kind_cron {thr : Int} {s s' : SState} {ev : Ev} {o : Obs} (hwf : WF s)
    (hk : Kind thr s ev s' o) (t : Nat) (f : Cron.Fields) (hwff : Cron.WellFormed f = true) (c : Int)
    (hc : -100000 ≤ c ∧ c ≤ 100000) (hns : ev.schedTag? ≠ some t) (hclk : ev.clockNonneg)
    (hI : CronInv t f c s) :
    CronInv t f c s' ∧
      ∀ cl ∈ o.calls, cl.tag = t → 0 ≤ cl.prev ∧ cl.result = cronNext f c cl.prev := by
  have hcalls : ∀ cl ∈ o.calls, cl.tag = t →
      0 ≤ cl.prev ∧ cl.result = cronNext f c cl.prev ∧ s'.trig t = .cron f c := by
    intro cl hcl hct
    have hprev : 0 ≤ cl.prev := by
      rcases kind_calls_prev hk cl hcl with hst | h | ⟨e, he, het, hes, hpe⟩
      · exact absurd (by rw [hst, hct]) hns
      · exact h hclk
      · rw [hpe]; exact hI.prio e he (by rw [het, hct]) hes
    rcases kind_calls hk cl hcl with hst | ⟨e, he, het, hres, htr', _⟩
    · exact absurd (by rw [hst, hct]) hns
    · rw [het, hct, hI.trig, cron_fire_eq] at hres htr'
      exact ⟨hprev, hres, htr'⟩
  refine ⟨⟨?_, ?_⟩, fun cl hcl hct => ⟨(hcalls cl hcl hct).1, (hcalls cl hcl hct).2.1⟩⟩
  · by_cases hex : ∃ cl ∈ o.calls, cl.tag = t
    · obtain ⟨cl, hcl, hct⟩ := hex
      exact (hcalls cl hcl hct).2.2
    · rw [kind_trig_frame hk t (fun cl hcl hct => hex ⟨cl, hcl, hct⟩) hns]; exact hI.trig
  · intro x hx hxt hxs
    rcases kind_active hwf hk x hx hxs with ⟨pv, hcl⟩ | ⟨h1, _⟩
    · obtain ⟨h0, hres, _⟩ := hcalls _ hcl hxt
      have h0' : 0 ≤ pv := h0
      have := (cronNext_sound f hwff c pv hc (by omega) x.prio hres.symm).2.1
      omega
    · exact hI.prio x h1 hxt hxs

theorem nonnegClock_cons {ev : Ev} {evs : List Ev} (h : NonnegClock (ev :: evs)) :
    ev.clockNonneg ∧ NonnegClock evs :=
  ⟨h ev List.mem_cons_self, fun ev' hev' => h ev' (List.mem_cons_of_mem _ hev')⟩

theorem nonnegClock_append {evs1 evs2 : List Ev} (h : NonnegClock (evs1 ++ evs2)) :
    NonnegClock evs1 ∧ NonnegClock evs2 :=
  ⟨fun ev hev => h ev (List.mem_append_left _ hev), fun ev hev => h ev (List.mem_append_right _ hev)⟩

theorem callLog_cons (o : Obs) (os : List Obs) : callLog (o :: os) = o.calls ++ callLog os := by
  simp [callLog]

theorem callLog_append (o1 o2 : List Obs) : callLog (o1 ++ o2) = callLog o1 ++ callLog o2 := by
  simp [callLog]

/-- **the history invariant**: as long as the trigger object `t` is not handed to another
`ScheduleJob`, it stays `.cron f c` and every call on it has a non-negative argument and the answer
of `CronTrigger.NextFireTime` -/
theorem run_cron (thr : Int) (t : Nat) (f : Cron.Fields) (hwff : Cron.WellFormed f = true) (c : Int)
    (hc : -100000 ≤ c ∧ c ≤ 100000) (evs : List Ev) (s : SState) (hwf : WF s) (hft : FreshTags evs)
    (hff : FreshFor s evs) (hns : t ∉ schedTags evs) (hclk : NonnegClock evs) (hI : CronInv t f c s) :
    CronInv t f c (run thr s evs).1 ∧
      ∀ cl ∈ callLog (run thr s evs).2, cl.tag = t → 0 ≤ cl.prev ∧ cl.result = cronNext f c cl.prev := by
  induction evs generalizing s with
  | nil => exact ⟨hI, fun cl hcl => by cases hcl⟩
  | cons ev evs ih =>
    have hk := apply_kind thr s hwf.wf0 ev
    obtain ⟨h1, h2, h3⟩ := fresh_cons hft hff hk
    rw [schedTags_cons] at hns
    have hns1 : ev.schedTag? ≠ some t := fun hh => hns (List.mem_append_left _ (by rw [hh]; simp))
    have hns2 : t ∉ schedTags evs := fun hh => hns (List.mem_append_right _ hh)
    obtain ⟨hc1, hc2⟩ := nonnegClock_cons hclk
    obtain ⟨hI', hcl'⟩ := kind_cron hwf hk t f hwff c hc hns1 hc1 hI
    obtain ⟨i1, i2⟩ := ih _ (kind_wf hwf h1 hk) h2 h3 hns2 hc2 hI'
    rw [run_cons]
    refine ⟨i1, ?_⟩
    intro cl hcl hct
    rw [callLog_cons, List.mem_append] at hcl
    rcases hcl with hcl | hcl
    · exact hcl' cl hcl hct
    · exact i2 cl hcl hct

/-! ## quiet observations -/

theorem dispTime_none_of_quiet {t : Nat} {o : Obs} (h : o.quiet t) : o.dispTime? t = none := by
  cases hd : o.dispTime? t with
  | none => rfl
  | some v =>
    obtain ⟨d, hd0, hdt, _⟩ := (dispTime_some_iff t o v).mp hd
    exact absurd hdt ((quiet_noConsume h).2 0 d hd0)

theorem quiet_nothing (t : Nat) (obs : List Obs) (h : ∀ o ∈ obs, o.quiet t) :
    dispatchTimes t obs = [] ∧ (callLog obs).filter (fun cl => cl.tag == t) = [] ∧
      ∀ cl ∈ callLog obs, cl.tag ≠ t := by
  induction obs with
  | nil => exact ⟨rfl, rfl, fun cl hcl => by cases hcl⟩
  | cons o os ih =>
    obtain ⟨i1, i2, i3⟩ := ih (fun o' ho' => h o' (List.mem_cons_of_mem _ ho'))
    have hq := h o List.mem_cons_self
    have hcl : ∀ cl ∈ callLog (o :: os), cl.tag ≠ t := by
      intro cl hcl
      rw [callLog_cons, List.mem_append] at hcl
      rcases hcl with hcl | hcl
      · exact hq.1 cl hcl
      · exact i3 cl hcl
    refine ⟨?_, ?_, hcl⟩
    · rw [dispatchTimes_cons, dispTime_none_of_quiet hq, i1]; rfl
    · rw [List.filter_eq_nil_iff]
      intro cl hcl'
      simpa using hcl cl hcl'

theorem onlySteps_schedTags {evs : List Ev} (h : OnlySteps evs) : schedTags evs = [] := by
  induction evs with
  | nil => rfl
  | cons ev evs ih =>
    obtain ⟨now, rfl⟩ := h _ List.mem_cons_self
    rw [schedTags_cons, ih (fun ev' hev' => h ev' (List.mem_cons_of_mem _ hev'))]
    rfl

theorem onlySteps_fresh {evs : List Ev} (h : OnlySteps evs) (s : SState) :
    FreshTags evs ∧ FreshFor s evs := by
  unfold FreshTags FreshFor
  rw [onlySteps_schedTags h]
  exact ⟨List.nodup_nil, fun t ht => by cases ht⟩

/-! ## `ScheduleJob`, seen from the trigger it brings -/

/-- every trigger call of `ScheduleJob` is the one call on the trigger it was given, with the clock -/
theorem schedule_calls (s : SState) (now : Int) (a : SchedArgs) :
    ∀ cl ∈ (schedule s now a).2.2, ∃ t, a.trig = some t ∧ cl = ⟨a.tag, now, (t.fire now).1⟩ := by
  intro cl hcl
  rcases schedule_cases s now a with ⟨_, hs⟩ | ⟨_, ⟨_, t, ht, hf⟩, hs⟩ |
    ⟨_, _, t, p, t', calls, ht, hpc, ⟨e, _, hs⟩ | ⟨q', _, hs⟩⟩
  · rw [hs] at hcl; cases hcl
  · rw [hs, List.mem_singleton] at hcl
    exact ⟨t, ht, by rw [hcl, hf]⟩
  · rw [hs] at hcl
    rcases hpc with ⟨_, _, _, h4⟩ | ⟨_, hf, _, h4⟩
    · rw [h4] at hcl; cases hcl
    · rw [h4, List.mem_singleton] at hcl
      exact ⟨t, ht, by rw [hcl, hf]⟩
  · rw [hs] at hcl
    rcases hpc with ⟨_, _, _, h4⟩ | ⟨_, hf, _, h4⟩
    · rw [h4] at hcl; cases hcl
    · rw [h4, List.mem_singleton] at hcl
      exact ⟨t, ht, by rw [hcl, hf]⟩

/-- a successful `ScheduleJob`, written as the triple the theorems take -/
theorem schedule_ok_eta (s : SState) (now : Int) (a : SchedArgs) (h : (schedule s now a).2.1 = none) :
    schedule s now a = ((schedule s now a).1, none, (schedule s now a).2.2) := by
  have e : schedule s now a =
      ((schedule s now a).1, (schedule s now a).2.1, (schedule s now a).2.2) := rfl
  rw [h] at e
  exact e

/-- a failed `ScheduleJob` leaves the scheduler as it was -/
theorem schedule_err_state (s : SState) (now : Int) (a : SchedArgs)
    (herr : (schedule s now a).2.1 ≠ none) : (schedule s now a).1 = s := by
  rcases schedule_cases s now a with ⟨_, hs⟩ | ⟨_, _, hs⟩ |
    ⟨_, _, t, p, t', calls, _, _, ⟨e, _, hs⟩ | ⟨q', _, hs⟩⟩
  · rw [hs]
  · rw [hs]
  · rw [hs]
  · rw [hs] at herr; exact absurd rfl herr

/-- the state right after a successful `ScheduleJob` of a cron job satisfies the invariant -/
theorem schedule_cronInv (thr : Int) (s : SState) (hwf : WF s) (now : Int) (h0 : 0 ≤ now) (a : SchedArgs)
    (f : Cron.Fields) (hwff : Cron.WellFormed f = true) (c : Int) (hc : -100000 ≤ c ∧ c ≤ 100000)
    (ha : a.trig = some (.cron f c)) (hfresh : AbsentTag a.tag s)
    (hok : (schedule s now a).2.1 = none) :
    WF (schedule s now a).1 ∧ CronInv a.tag f c (schedule s now a).1 := by
  have hkind : Kind thr s (.schedule now a) (schedule s now a).1
      { err := (schedule s now a).2.1, calls := (schedule s now a).2.2 } :=
    apply_kind thr s hwf.wf0 (.schedule now a)
  have hwf' : WF (schedule s now a).1 :=
    kind_wf hwf (fun t ht e he => by injection ht with ht; subst ht; exact hfresh e he) hkind
  refine ⟨hwf', ?_⟩
  obtain ⟨t, p, ht, _, hcs, hmem, _⟩ := schedule_ok_facts s now a hwf.inv hok
  rw [ha] at ht
  injection ht with ht
  subst ht
  rcases hcs with ⟨hsu, _, htr, _⟩ | ⟨hsu, hp, htr, _⟩
  · refine ⟨htr, ?_⟩
    intro x hx hxt hxs
    have : x = a.entry p := hwf'.tags x hx _ hmem hxt
    rw [this, show (a.entry p).suspended = a.suspended from rfl, hsu] at hxs
    cases hxs
  · refine ⟨by rw [htr, cron_fire_state], ?_⟩
    intro x hx hxt hxs
    have : x = a.entry p := hwf'.tags x hx _ hmem hxt
    rw [this]
    have := (cronNext_sound f hwff c now hc (by omega) p hp).2.1
    show 0 ≤ p
    omega

/-- the part of `schedule_cronInv` that needs nothing about the clock reading: after a successful
`ScheduleJob` of a cron job the state is well formed and the stored trigger is `.cron f c` -/
theorem schedule_cron_trig (thr : Int) (s : SState) (hwf : WF s) (now : Int) (a : SchedArgs)
    (f : Cron.Fields) (c : Int)
    (ha : a.trig = some (.cron f c)) (hfresh : AbsentTag a.tag s)
    (hok : (schedule s now a).2.1 = none) :
    WF (schedule s now a).1 ∧ (schedule s now a).1.trig a.tag = .cron f c := by
  have hkind : Kind thr s (.schedule now a) (schedule s now a).1
      { err := (schedule s now a).2.1, calls := (schedule s now a).2.2 } :=
    apply_kind thr s hwf.wf0 (.schedule now a)
  have hwf' : WF (schedule s now a).1 :=
    kind_wf hwf (fun t ht e he => by injection ht with ht; subst ht; exact hfresh e he) hkind
  refine ⟨hwf', ?_⟩
  obtain ⟨t, p, ht, _, hcs, hmem, _⟩ := schedule_ok_facts s now a hwf.inv hok
  rw [ha] at ht
  injection ht with ht
  subst ht
  rcases hcs with ⟨hsu, _, htr, _⟩ | ⟨hsu, hp, htr, _⟩
  · exact htr
  · rw [htr, cron_fire_state]

/-- **calls on a cron job's trigger, whole histories from the empty scheduler**: every call on the
trigger object a `ScheduleJob` event of the history brought with `.cron f c` has an argument `≥ 0` and
the answer of `CronTrigger.NextFireTime` -/
theorem cron_calls (thr : Int) (evs : List Ev) (hft : FreshTags evs) (hclk : NonnegClock evs)
    (now0 : Int) (a : SchedArgs) (f : Cron.Fields) (c : Int) (hsch : Ev.schedule now0 a ∈ evs)
    (ha : a.trig = some (.cron f c)) (hwff : Cron.WellFormed f = true)
    (hc : -100000 ≤ c ∧ c ≤ 100000) :
    ∀ cl ∈ callLog (run thr {} evs).2, cl.tag = a.tag →
      0 ≤ cl.prev ∧ cl.result = cronNext f c cl.prev := by
  obtain ⟨evs1, evs2, rfl⟩ := List.append_of_mem hsch
  obtain ⟨hwf0, habs0, hft2, hff2⟩ := C04_hyps_reachable thr evs1 now0 a evs2 hft
  have hnd : (schedTags evs1 ++ (a.tag :: schedTags evs2)).Nodup := by
    have := hft
    unfold FreshTags at this
    rw [schedTags_append, schedTags_cons] at this
    exact this
  have hns1 : a.tag ∉ schedTags evs1 := fun hh =>
    (List.nodup_append.mp hnd).2.2 a.tag hh a.tag List.mem_cons_self rfl
  have hns2 : a.tag ∉ schedTags evs2 :=
    (List.nodup_cons.mp (List.nodup_append.mp hnd).2.1).1
  obtain ⟨hc1, hc23⟩ := nonnegClock_append hclk
  obtain ⟨hc2, hc3⟩ := nonnegClock_cons hc23
  have hq1 := (run_absent thr a.tag evs1 {} wf0_empty (fun e he => by simp at he) hns1).2
  intro cl hcl hct
  rw [run_append, run_cons] at hcl
  simp only [callLog_append, callLog_cons, List.mem_append] at hcl
  generalize hs0 : (run thr {} evs1).1 = s0 at *
  rcases hcl with hcl | hcl | hcl
  · exact absurd hct ((quiet_nothing a.tag _ hq1).2.2 cl hcl)
  · obtain ⟨t, ht, hcle⟩ := schedule_calls s0 now0 a cl hcl
    rw [ha] at ht
    injection ht with ht
    subst ht
    rw [hcle]
    exact ⟨hc2, rfl⟩
  · cases herr : (schedule s0 now0 a).2.1 with
    | none =>
      obtain ⟨hwf1, hI1⟩ := schedule_cronInv thr s0 hwf0 now0 hc2 a f hwff c hc ha habs0 herr
      exact (run_cron thr a.tag f hwff c hc evs2 _ hwf1 hft2 hff2 hns2 hc3 hI1).2 cl hcl hct
    | some err =>
      have hst : (apply thr s0 (.schedule now0 a)).1 = s0 :=
        schedule_err_state s0 now0 a (by rw [herr]; exact fun hh => by cases hh)
      rw [hst] at hcl
      have hq2 := (run_absent thr a.tag evs2 s0 hwf0.wf0 habs0 hns2).2
      exact absurd hct ((quiet_nothing a.tag _ hq2).2.2 cl hcl)

/-! ## dispatches and the steps that made them -/

/-- an observation in the middle of a run belongs to one event, applied to the state the events before
it lead to -/
theorem run_split_obs (thr : Int) (evs : List Ev) :
    ∀ (s : SState) (pre : List Obs) (o : Obs) (post : List Obs),
      (run thr s evs).2 = pre ++ o :: post →
      ∃ evs1 ev evs2, evs = evs1 ++ ev :: evs2 ∧ pre = (run thr s evs1).2 ∧
        o = (apply thr (run thr s evs1).1 ev).2 := by
  induction evs with
  | nil =>
    intro s pre o post h
    cases pre <;> cases h
  | cons ev evs ih =>
    intro s pre o post h
    rw [run_cons] at h
    cases pre with
    | nil =>
      simp only [List.nil_append, List.cons.injEq] at h
      exact ⟨[], ev, evs, rfl, rfl, h.1.symm⟩
    | cons o' pre =>
      simp only [List.cons_append, List.cons.injEq] at h
      obtain ⟨evs1, ev', evs2, h1, h2, h3⟩ := ih _ pre o post h.2
      refine ⟨ev :: evs1, ev', evs2, by rw [h1]; rfl, ?_, ?_⟩
      · rw [run_cons, ← h2, h.1]
      · rw [run_cons]; exact h3

/-- only a step dispatches; the dispatch shows the entry `fetchAndReschedule` popped -/
theorem apply_disp (thr : Int) (s : SState) (ev : Ev) (pos : Nat) (d : Disp)
    (h : (apply thr s ev).2.disp? pos = some d) :
    ∃ now e, ev = .step now ∧ (step s now thr).2.dispatched = true ∧
      (step s now thr).2.popped = some e ∧ d = ⟨pos, e.tag, e.prio⟩ := by
  cases ev with
  | step now =>
    refine ⟨now, ?_⟩
    have h' : Obs.disp? { calls := (step s now thr).2.calls, out := some (step s now thr).2 } pos =
        some d := h
    unfold Obs.disp? at h'
    simp only at h'
    split at h'
    · rename_i hdp
      split at h'
      · rename_i e hpop
        injection h' with h'
        exact ⟨e, rfl, hdp, hpop, h'.symm⟩
      · cases h'
    · cases h'
  | schedule now a => cases h
  | delete hk g n => cases h
  | pause hk g n => cases h
  | resume now hk g n => cases h
  | clear => cases h

/-- every dispatch of a history was made by one of its step events, at a clock reading `now` with
`d.time ≤ now` (never early) and `now - thr ≤ d.time` (`C03_never_early`) -/
theorem dispatch_at_step (thr : Int) (s : SState) (evs : List Ev) (d : Disp)
    (hd : d ∈ dispatches (run thr s evs).2) :
    ∃ (evs1 : List Ev) (now : Int) (evs2 : List Ev), evs = evs1 ++ .step now :: evs2 ∧
      (apply thr (run thr s evs1).1 (.step now)).2.disp? (callLog (run thr s evs1).2).length = some d ∧
      d.time ≤ now ∧ now - thr ≤ d.time := by
  unfold dispatches at hd
  obtain ⟨pre, o, post, hobs, hdisp⟩ := (mem_dispatchesFrom 0 _ d).mp hd
  obtain ⟨evs1, ev, evs2, rfl, rfl, rfl⟩ := run_split_obs thr evs s pre o post hobs
  rw [Nat.zero_add] at hdisp
  obtain ⟨now, e, rfl, hdp, hpop, hde⟩ := apply_disp thr _ _ _ d hdisp
  obtain ⟨h1, h2, _, _⟩ := C03_never_early _ now thr e hdp hpop
  refine ⟨evs1, now, evs2, rfl, hdisp, ?_, ?_⟩
  · rw [hde]; exact h1
  · rw [hde]; exact h2

/-! ## a cron job under loop steps only, never more than the threshold late -/

/-- one loop step, seen from an active cron job `x` that is not found outdated: not dispatched and
left as it is; or dispatched for its scheduled fire time `x.prio`, the trigger asked with exactly that
fire time, and the job put back with the answer — or gone if the trigger had nothing left -/
theorem cron_drift_step {thr : Int} {s s' : SState} {now : Int} {o : Obs} (hwf : WF s)
    (hk : Kind thr s (.step now) s' o) (x : Entry) (hx : x ∈ s.q.toList) (hxs : x.suspended = false)
    (f : Cron.Fields) (c : Int) (htr : s.trig x.tag = .cron f c)
    (hno : ∀ out e, o.out = some out → out.popped = some e → e.tag = x.tag → out.cls ≠ some .outdated) :
    (o.dispTime? x.tag = none ∧ (∀ cl ∈ o.calls, cl.tag ≠ x.tag) ∧ x ∈ s'.q.toList ∧
      s'.trig x.tag = .cron f c) ∨
    (o.dispTime? x.tag = some x.prio ∧ o.calls = [⟨x.tag, x.prio, cronNext f c x.prio⟩] ∧
      ((∃ r, cronNext f c x.prio = some r ∧ ({ x with prio := r } : Entry) ∈ s'.q.toList ∧
          s'.trig x.tag = .cron f c) ∨
       (cronNext f c x.prio = none ∧ AbsentTag x.tag s'))) := by
  cases hk with
  | idle _ _ _ hmem hinv htrs hcalls hdisp hpop =>
    left
    refine ⟨dispTime_of_disp_none _ hdisp, (by rw [hcalls]; exact fun c hc => by cases hc),
      (hmem x).mpr hx, ?_⟩
    unfold SState.trig at htr ⊢; rw [htrs]; exact htr
  | stepAsk _ e q1 pv r q' he hmin ha hf hmem1 hq' hinv =>
    by_cases hex : e = x
    · subst hex
      right
      obtain ⟨_, ⟨hcv, hpv, _, _⟩ | ⟨hcv, _⟩⟩ := askedWith_some_active ha
      · subst hpv
        have hr : r = cronNext f c e.prio := by rw [← hf, htr, cron_fire_eq]
        subst hr
        refine ⟨?_, rfl, ?_⟩
        · unfold Obs.dispTime?
          rw [disp_stepAsk, if_pos hcv]
          simp
        · rcases hq' with ⟨h1, rfl⟩ | ⟨p, hp, rfl⟩
          · right
            refine ⟨h1, ?_⟩
            intro y hy hyt
            obtain ⟨hy1, hy2⟩ := (hmem1 y).mp hy
            exact hy2 (hwf.tags y hy1 e he hyt)
          · left
            refine ⟨p, hp, (mem_hpush_iff _ _ _).mpr (Or.inl rfl), ?_⟩
            show ((({ s with q := q1 } : SState).setTrig e.tag _).trig e.tag) = _
            rw [trig_setTrig_same, htr, cron_fire_state]
      · exfalso
        apply hno _ e rfl rfl rfl
        show some (classify e now thr) = _
        rw [hcv]
    · left
      have hte : x.tag ≠ e.tag := fun hh => hex (hwf.tags e he x hx hh.symm)
      refine ⟨?_, ?_, ?_, ?_⟩
      · unfold Obs.dispTime?
        rw [disp_stepAsk]
        by_cases hv : classify e now thr = .valid
        · rw [if_pos hv]
          show (if e.tag = x.tag then some e.prio else none) = none
          rw [if_neg (fun hh => hte hh.symm)]
        · rw [if_neg hv]
      · intro cl hcl
        rw [List.mem_singleton] at hcl
        subst hcl
        exact fun hh => hte hh.symm
      · have hx1 : x ∈ q1.toList := (hmem1 x).mpr ⟨hx, fun hh => hex hh.symm⟩
        rcases hq' with ⟨_, rfl⟩ | ⟨p, _, rfl⟩
        · exact hx1
        · exact (mem_hpush_iff _ _ _).mpr (Or.inr hx1)
      · show ((({ s with q := q1 } : SState).setTrig e.tag _).trig x.tag) = _
        rw [trig_setTrig_other _ _ _ _ hte]
        exact htr

/-- the induction behind `cron_job_no_skip_while_on_time`: the job's entry `x` carries the trigger's
answer for `pv` -/
theorem cron_drift_aux (thr : Int) (t : Nat) (f : Cron.Fields) (hwff : Cron.WellFormed f = true)
    (c : Int) (hc : -100000 ≤ c ∧ c ≤ 100000) (evs : List Ev) :
    ∀ (s : SState) (x : Entry) (pv : Int), WF s → x ∈ s.q.toList → x.suspended = false → x.tag = t →
      s.trig t = .cron f c → -9223372036854775808 ≤ pv → cronNext f c pv = some x.prio → OnlySteps evs →
      NeverOutdated t (run thr s evs).2 →
      ∃ k : Nat,
        dispatchTimes t (run thr s evs).2 = chain f c pv k ∧ (chain f c pv k).length = k ∧
        (callLog (run thr s evs).2).filter (fun cl => cl.tag == t) =
          (chain f c pv k).map (fun p => (⟨t, p, cronNext f c p⟩ : TrigCall)) ∧
        (∀ r, cronNext f c (lastOr pv (chain f c pv k)) = some r →
          ({ x with prio := r } : Entry) ∈ (run thr s evs).1.q.toList ∧
            (run thr s evs).1.trig t = .cron f c) ∧
        (cronNext f c (lastOr pv (chain f c pv k)) = none → AbsentTag t (run thr s evs).1) := by
  induction evs with
  | nil =>
    intro s x pv _ hx _ _ htr _ hpv _ _
    refine ⟨0, rfl, rfl, rfl, ?_, ?_⟩
    · intro r hr
      rw [chain_zero, lastOr_nil, hpv] at hr
      injection hr with hr
      subst hr
      exact ⟨hx, htr⟩
    · intro hn
      rw [chain_zero, lastOr_nil, hpv] at hn
      cases hn
  | cons ev evs ih =>
    intro s x pv hwf hx hxs hxt htr h0 hpv hos hno
    obtain ⟨now, rfl⟩ := hos _ List.mem_cons_self
    have hk := apply_kind thr s hwf.wf0 (.step now)
    have hwf' := kind_wf hwf (fun t ht => by cases ht) hk
    rw [run_cons] at hno ⊢
    have hno1 := hno _ List.mem_cons_self
    have hno2 : NeverOutdated t (run thr (apply thr s (.step now)).1 evs).2 :=
      fun o ho => hno o (List.mem_cons_of_mem _ ho)
    have hos2 : OnlySteps evs := fun ev hev => hos ev (List.mem_cons_of_mem _ hev)
    subst hxt
    have hp0 : -9223372036854775808 ≤ x.prio := by
      have := (cronNext_sound f hwff c pv hc h0 x.prio hpv).2.1
      omega
    rcases cron_drift_step hwf hk x hx hxs f c htr hno1 with ⟨h1, h2, h3, h4⟩ |
      ⟨h1, h2, ⟨r, hr, h3, h4⟩ | ⟨hr, habs⟩⟩
    · -- not dispatched
      obtain ⟨k, i1, i2, i3, i4, i5⟩ := ih _ x pv hwf' h3 hxs rfl h4 h0 hpv hos2 hno2
      refine ⟨k, ?_, i2, ?_, i4, i5⟩
      · rw [dispatchTimes_cons, h1]; exact i1
      · rw [callLog_cons, List.filter_append, i3]
        have : List.filter (fun cl => cl.tag == x.tag) (apply thr s (.step now)).2.calls = [] := by
          rw [List.filter_eq_nil_iff]
          intro cl hcl
          simpa using h2 cl hcl
        rw [this]; rfl
    · -- dispatched, the trigger answered `r`
      obtain ⟨k, i1, i2, i3, i4, i5⟩ :=
        ih _ { x with prio := r } x.prio hwf' h3 hxs rfl h4 hp0 hr hos2 hno2
      have hch : chain f c pv (k + 1) = x.prio :: chain f c x.prio k := chain_succ_some f c pv _ k hpv
      refine ⟨k + 1, ?_, ?_, ?_, ?_, ?_⟩
      · rw [dispatchTimes_cons, h1, hch]
        show x.prio :: dispatchTimes x.tag _ = _
        rw [i1]
      · rw [hch, List.length_cons, i2]
      · rw [callLog_cons, List.filter_append, h2, hch, List.map_cons]
        rw [i3]
        simp
      · rw [hch, lastOr_cons]; exact i4
      · rw [hch, lastOr_cons]; exact i5
    · -- dispatched, the trigger had nothing left: the job is gone
      have hch : chain f c pv 1 = [x.prio] := by
        rw [chain_succ_some f c pv _ 0 hpv, chain_zero]
      obtain ⟨habs', hq⟩ := run_absent thr x.tag evs _ hwf'.wf0 habs
        (by rw [onlySteps_schedTags hos2]; exact fun hh => by cases hh)
      obtain ⟨q1, q2, _⟩ := quiet_nothing x.tag _ hq
      refine ⟨1, ?_, ?_, ?_, ?_, ?_⟩
      · rw [dispatchTimes_cons, h1, q1, hch]; rfl
      · rw [hch]; rfl
      · rw [callLog_cons, List.filter_append, h2, q2, hch]
        simp
      · intro r' hr'
        rw [hch, lastOr_cons, lastOr_nil, hr] at hr'
        cases hr'
      · intro _
        exact habs'

end Sched
