import QuartzModel.Generated.TransQueue
import QuartzModel.Queue.Heap
import QuartzModel.Queue.JobQueue
import QuartzModel.Proofs.HeapLemmas
/-!
# The translated queue code (`Generated.TransQueue`, regenerated from `quartz/queue.go`,
`container/heap/heap.go`, `matcher/*.go`) computes what the hand-written model `Queue.*` computes.

Representation map: a translated `scheduledJob` is abstracted to the model's `Queue.Entry` by `toEntry`
(what the queue looks at: key, priority, the two option flags, and the trigger handle as identity tag);
a translated `priorityQueue` (a `List`) to the model's `Arr` by `toArr`.  Core Lean only.
-/
set_option autoImplicit false

namespace TransQueue
open Generated.TransQueue
open Queue

def toEntry (sj : scheduledJob) : Entry :=
  { group := sj.job.jobKey.group, name := sj.job.jobKey.name, prio := sj.priority,
    suspended := sj.job.opts.Suspended, replace := sj.job.opts.Replace, tag := sj.trigger }

def toArr (pq : priorityQueue) : Arr := (pq.map toEntry).toArray

@[simp] theorem toArr_size (pq : priorityQueue) : (toArr pq).size = pq.length := by simp [toArr]

theorem toEntry_default : toEntry default = default := rfl

theorem toArr_getElem? (pq : priorityQueue) (k : Nat) : (toArr pq)[k]? = pq[k]?.map toEntry := by
  simp [toArr]

theorem toArr_getD (pq : priorityQueue) (k : Nat) :
    (toArr pq).getD k default = toEntry (pq.getD k default) := by
  rw [Array.getD_eq_getD_getElem?, toArr_getElem?, List.getD_eq_getElem?_getD]
  cases pq[k]? <;> simp [toEntry_default]

theorem prioAt_toArr (pq : priorityQueue) (k : Nat) :
    prioAt (toArr pq) k = (pq.getD k default).priority := by
  unfold prioAt; rw [toArr_getD]; rfl

/-! ## `priorityQueue.Less`, `Swap`, `Push`, `Pop` -/

theorem trans_less (pq : priorityQueue) (i j : Nat) :
    priorityQueue.Less pq i j = decide (prioAt (toArr pq) i < prioAt (toArr pq) j) := by
  simp [priorityQueue.Less, idxD, prioAt_toArr]

theorem trans_swap (pq : priorityQueue) (i j : Nat) (hi : i < pq.length) (hj : j < pq.length) :
    toArr (priorityQueue.Swap pq i j) = swp (toArr pq) i j := by
  apply Array.ext_getElem?
  intro k
  rw [getElem?_swp _ _ _ _ (by simpa using hi) (by simpa using hj)]
  simp only [priorityQueue.Swap, setI, idxD, Int.toNat_natCast, toArr_getElem?, List.getElem?_set]
  by_cases h1 : k = i
  · subst h1
    by_cases h2 : j = k
    · subst h2; simp [hj]
    · simp [h2, hi, hj]
  · by_cases h2 : k = j
    · subst h2; simp [hj, hi]; intro h; exact absurd h h1
    · simp [h1, h2, Ne.symm h1, Ne.symm h2]

theorem swap_length (pq : priorityQueue) (i j : Int) : (priorityQueue.Swap pq i j).length = pq.length := by
  simp [priorityQueue.Swap, setI]

theorem trans_pq_push (pq : priorityQueue) (x : scheduledJob) :
    toArr (priorityQueue.Push pq x) = (toArr pq).push (toEntry x) := by
  simp [priorityQueue.Push, toArr]

theorem trans_pq_pop (pq : priorityQueue) (hne : pq ≠ []) :
    toArr (priorityQueue.Pop pq).1 = (toArr pq).pop ∧
      some (toEntry (priorityQueue.Pop pq).2) = (toArr pq).back? := by
  have hl : 0 < pq.length := List.length_pos_iff.mpr hne
  have h1 : ((pq.length : Int) - 1).toNat = pq.length - 1 := by omega
  constructor
  · simp only [priorityQueue.Pop, slice, h1, Int.toNat_zero, List.drop_zero, toArr]
    simp [List.map_take, List.dropLast_eq_take]
  · simp only [priorityQueue.Pop, idxD, h1, Array.back?, toArr_getElem?, toArr_size]
    rw [List.getD_eq_getElem?_getD]
    have : pq.length - 1 < pq.length := by omega
    simp [this]

/-! ## `heap.up` -/

theorem tdiv_parent (j : Nat) (hj : 0 < j) : Int.tdiv ((j : Int) - 1) 2 = (((j - 1) / 2 : Nat) : Int) := by
  have h : ((j : Int) - 1) = ((j - 1 : Nat) : Int) := by omega
  rw [h, Int.tdiv_eq_ediv_of_nonneg (by omega)]
  omega

/-- the translated `up` loop follows the model's recursion; `j + 1` iterations of fuel suffice -/
theorem up_loop_eq (j : Nat) : ∀ (cnt : Nat) (h : priorityQueue), j < h.length → j < cnt →
    ∃ h' j', heap.up.loop1 cnt h (j : Int) = some (h', j') ∧ toArr h' = Queue.up (toArr h) j := by
  induction j using Nat.strongRecOn with
  | _ j ih =>
    intro cnt h hj hc
    obtain ⟨cnt, rfl⟩ : ∃ c, cnt = c + 1 := ⟨cnt - 1, by omega⟩
    unfold heap.up.loop1
    unfold Queue.up
    by_cases h0 : j = 0
    · subst h0
      refine ⟨h, 0, ?_, by simp⟩
      simp
    · have hpos : 0 < j := Nat.pos_of_ne_zero h0
      have hlt : (j - 1) / 2 < j := by omega
      simp only [tdiv_parent j hpos, h0, dite_false]
      have hne : ¬ (((j - 1) / 2 : Nat) : Int) = (j : Int) := by omega
      simp only [hne, decide_false, Bool.false_or, trans_less]
      by_cases hp : prioAt (toArr h) j < prioAt (toArr h) ((j - 1) / 2)
      · simp only [hp, decide_true, Bool.not_true, Bool.false_eq_true, if_false, if_true]
        have hs := trans_swap h ((j - 1) / 2) j (by omega) hj
        obtain ⟨h', j', e1, e2⟩ := ih ((j - 1) / 2) hlt cnt (priorityQueue.Swap h ((j - 1) / 2 : Nat) j)
          (by rw [swap_length]; omega) (by omega)
        exact ⟨h', j', e1, by rw [e2, hs]⟩
      · simp only [hp, decide_false, Bool.not_false, if_true, if_false]
        exact ⟨h, j, rfl, rfl⟩

theorem trans_up (h : priorityQueue) (j : Nat) (fuel : Nat) (hj : j < h.length) (hf : j < fuel) :
    ∃ h', heap.up h (j : Int) fuel = some h' ∧ toArr h' = Queue.up (toArr h) j := by
  obtain ⟨h', j', e1, e2⟩ := up_loop_eq j fuel h hj hf
  exact ⟨h', by simp [heap.up, e1], e2⟩

/-! ## `heap.down` -/

/-- the translated `down` loop follows the model's recursion; the final index tells whether the
element moved -/
theorem down_loop_eq (n : Nat) : ∀ (m i cnt : Nat) (h : priorityQueue), n - i = m → n ≤ h.length → n - i < cnt →
    ∃ h' i', heap.down.loop1 (n : Int) cnt h (i : Int) = some (h', ((i' : Nat) : Int)) ∧
      toArr h' = (Queue.down (toArr h) i n).1 ∧ i ≤ i' ∧ (Queue.down (toArr h) i n).2 = decide (i < i') := by
  intro m
  induction m using Nat.strongRecOn with
  | _ m ih =>
    intro i cnt h hm hn hc
    obtain ⟨cnt, rfl⟩ : ∃ c, cnt = c + 1 := ⟨cnt - 1, by omega⟩
    unfold heap.down.loop1
    unfold Queue.down
    by_cases hlt : 2 * i + 1 < n
    · have c1 : ¬ (2 * (i : Int) + 1 ≥ (n : Int)) := by omega
      have c2 : ¬ (2 * (i : Int) + 1 < 0) := by omega
      simp only [hlt, dite_true, c1, c2, decide_false, Bool.or_false, Bool.false_eq_true, if_false]
      have e1 : (2 * (i : Int) + 1) = ((2 * i + 1 : Nat) : Int) := by omega
      have e2 : (2 * (i : Int) + 1 + 1) = ((2 * i + 2 : Nat) : Int) := by omega
      -- the chosen child
      have hchild : (if (decide (2 * (i : Int) + 1 + 1 < (n : Int)) && priorityQueue.Less h (2 * (i : Int) + 1 + 1) (2 * (i : Int) + 1)) = true
            then (2 * (i : Int) + 1 + 1) else (2 * (i : Int) + 1)) = ((child (toArr h) i n : Nat) : Int) := by
        rw [e2, e1, trans_less]
        unfold child
        by_cases ha : 2 * i + 2 < n
        · have : 2 * (i : Int) + 2 < (n : Int) := by omega
          by_cases hb : prioAt (toArr h) (2 * i + 2) < prioAt (toArr h) (2 * i + 1)
          · simp [ha, hb, this]
          · simp [ha, hb, this]
        · have : ¬ 2 * (i : Int) + 2 < (n : Int) := by omega
          simp [ha, this]
      rw [hchild, trans_less]
      have hcl := child_lt (toArr h) i n hlt
      have hcc := child_cases (toArr h) i n
      generalize child (toArr h) i n = j at hcl hcc ⊢
      by_cases hp : prioAt (toArr h) j < prioAt (toArr h) i
      · simp only [hp, decide_true, Bool.not_true, Bool.false_eq_true, if_false, if_true]
        have hs := trans_swap h i j (by omega) (by omega)
        obtain ⟨h', i', q1, q2, q3, q4⟩ := ih (n - j) (by omega) j cnt (priorityQueue.Swap h (i : Nat) (j : Nat)) rfl
          (by rw [swap_length]; exact hn) (by omega)
        refine ⟨h', i', q1, by rw [q2, hs], by omega, ?_⟩
        have : i < i' := by omega
        simp [this]
      · simp only [hp, decide_false, Bool.not_false, if_true, if_false]
        exact ⟨h, i, rfl, rfl, Nat.le_refl _, by simp⟩
    · have c1 : (2 * (i : Int) + 1 ≥ (n : Int)) := by omega
      simp only [hlt, dite_false, c1, decide_true, Bool.true_or, if_true]
      exact ⟨h, i, rfl, rfl, Nat.le_refl _, by simp⟩

theorem trans_down (h : priorityQueue) (i n fuel : Nat) (hn : n ≤ h.length) (hf : n - i < fuel) :
    ∃ h' b, heap.down h (i : Int) (n : Int) fuel = some (h', b) ∧
      toArr h' = (Queue.down (toArr h) i n).1 ∧ b = (Queue.down (toArr h) i n).2 := by
  obtain ⟨h', i', e1, e2, _, e4⟩ := down_loop_eq n (n - i) i fuel h rfl hn hf
  refine ⟨h', decide ((i' : Int) > (i : Int)), by simp [heap.down, e1], e2, ?_⟩
  rw [e4]
  by_cases hh : i < i'
  · have : (i' : Int) > (i : Int) := by omega
    simp [hh, this]
  · have : ¬ (i' : Int) > (i : Int) := by omega
    simp [hh, this]

/-! ## `heap.Push`, `heap.Pop`, `heap.Remove` -/

theorem length_of_toArr_eq {h h' : priorityQueue} {a : Arr} (e : toArr h' = a) (hs : a.size = h.length) :
    h'.length = h.length := by
  have := congrArg Array.size e
  rw [toArr_size] at this
  omega

theorem trans_heap_push (h : priorityQueue) (x : scheduledJob) (fuel : Nat) (hf : h.length < fuel) :
    ∃ h', heap.Push h x fuel = some h' ∧ toArr h' = hpush (toArr h) (toEntry x) := by
  have hl : (priorityQueue.Push h x).length = h.length + 1 := by simp [priorityQueue.Push]
  have hj : ((priorityQueue.Len (priorityQueue.Push h x)) - 1 : Int) = ((h.length : Nat) : Int) := by
    simp only [priorityQueue.Len, hl]; omega
  obtain ⟨h', e1, e2⟩ := trans_up (priorityQueue.Push h x) h.length fuel (by omega) hf
  refine ⟨h', ?_, ?_⟩
  · simp only [heap.Push, hj, e1, Option.bind_some]
  · rw [e2, trans_pq_push]; simp [hpush]

theorem trans_heap_pop (h : priorityQueue) (fuel : Nat) (hne : h ≠ []) (hf : h.length ≤ fuel) :
    ∃ h' e, heap.Pop h fuel = some (h', e) ∧ hpop (toArr h) = (toArr h', some (toEntry e)) := by
  have hl : 0 < h.length := List.length_pos_iff.mpr hne
  have hn : ((priorityQueue.Len h) - 1 : Int) = ((h.length - 1 : Nat) : Int) := by
    simp only [priorityQueue.Len]; omega
  have hs := trans_swap h 0 (h.length - 1) hl (by omega)
  obtain ⟨h1, b, d1, d2, _⟩ := trans_down (priorityQueue.Swap h (0 : Nat) ((h.length - 1 : Nat) : Int)) 0 (h.length - 1) fuel
    (by rw [swap_length]; omega) (by omega)
  have hl1 : h1.length = h.length := length_of_toArr_eq d2 (by rw [down_size, toArr_size, swap_length])
  have hne1 : h1 ≠ [] := by intro hh; rw [hh] at hl1; simp at hl1; omega
  obtain ⟨p1, p2⟩ := trans_pq_pop h1 hne1
  refine ⟨(priorityQueue.Pop h1).1, (priorityQueue.Pop h1).2, ?_, ?_⟩
  · simp only [heap.Pop, hn]
    simp only [Int.natCast_zero] at d1
    simp only [d1, Option.bind_some]
  · have hsz : ¬ (toArr h).size = 0 := by rw [toArr_size]; omega
    rw [hpop, if_neg hsz]
    simp only [toArr_size]
    rw [p1, p2, d2, hs]

theorem remove_finish (X : Option priorityQueue) (h2 : priorityQueue) (hX : X = some h2) (hne2 : h2 ≠ [])
    (a2 : Arr) (k3 : toArr h2 = a2) :
    ∃ h' e, (X.bind fun h => let r4 := priorityQueue.Pop h; let h := r4.1; some (h, r4.2)) = some (h', e) ∧
      (a2.pop, a2.back?) = (toArr h', some (toEntry e)) := by
  obtain ⟨p1, p2⟩ := trans_pq_pop h2 hne2
  refine ⟨(priorityQueue.Pop h2).1, (priorityQueue.Pop h2).2, by simp [hX], ?_⟩
  rw [p1, p2, k3]

theorem trans_heap_remove (h : priorityQueue) (i fuel : Nat) (hi : i < h.length) (hf : h.length ≤ fuel) :
    ∃ h' e, heap.Remove h (i : Int) fuel = some (h', e) ∧ hremove (toArr h) i = (toArr h', some (toEntry e)) := by
  have hn : ((priorityQueue.Len h) - 1 : Int) = ((h.length - 1 : Nat) : Int) := by
    simp only [priorityQueue.Len]; omega
  have hsz : ¬ ((toArr h).size = 0 ∨ i ≥ (toArr h).size) := by rw [toArr_size]; omega
  rw [hremove, if_neg hsz]
  simp only [heap.Remove, hn, toArr_size]
  by_cases hni : h.length - 1 = i
  · have c : ¬ (((h.length - 1 : Nat) : Int) ≠ (i : Int)) := by omega
    have hne : h ≠ [] := by intro hh; rw [hh] at hi; simp at hi
    simp only [decide_false, Bool.false_eq_true, if_false, hni, ne_eq, not_true_eq_false]
    exact remove_finish _ h rfl hne _ rfl
  · have c : (((h.length - 1 : Nat) : Int) ≠ (i : Int)) := by omega
    have hs := trans_swap h i (h.length - 1) hi (by omega)
    obtain ⟨h1, b, d1, d2, d3⟩ := trans_down (priorityQueue.Swap h (i : Nat) ((h.length - 1 : Nat) : Int)) i (h.length - 1) fuel
      (by rw [swap_length]; omega) (by omega)
    have hl1 : h1.length = h.length := length_of_toArr_eq d2 (by rw [down_size, toArr_size, swap_length])
    simp only [c, decide_true, if_true, d1, Option.bind_some, hni, ne_eq, not_false_eq_true]
    rw [hs] at d2 d3
    cases hb : b with
    | true =>
      have hne1 : h1 ≠ [] := by intro hh; rw [hh] at hl1; simp at hl1; omega
      have : (Queue.down (swp (toArr h) i (h.length - 1)) i (h.length - 1)).2 = true := by rw [← d3, hb]
      simp only [this, if_true]
      exact remove_finish _ h1 (by simp) hne1 _ d2
    | false =>
      obtain ⟨h2, u1, u2⟩ := trans_up h1 i fuel (by omega) (by omega)
      have hl2 : h2.length = h.length := length_of_toArr_eq u2 (by rw [up_size, toArr_size, hl1])
      have hne2 : h2 ≠ [] := by intro hh; rw [hh] at hl2; simp at hl2; omega
      have : (Queue.down (swp (toArr h) i (h.length - 1)) i (h.length - 1)).2 = false := by rw [← d3, hb]
      simp only [this, Bool.false_eq_true, if_false]
      exact remove_finish _ h2 (by simp [u1]) hne2 _ (by rw [u2, d2])

/-! ## `jobQueue` -/

/-- the model's error for a translated `error` value (`newIllegalStateError(ErrX)`) -/
def qerr : QErr → Error
  | .queueEmpty => newIllegalStateError Error.ErrQueueEmpty
  | .jobNotFound => newIllegalStateError Error.ErrJobNotFound
  | .jobAlreadyExists => newIllegalStateError Error.ErrJobAlreadyExists

theorem qerr_ne_nil (e : QErr) : qerr e ≠ Error.nil := by cases e <;> decide

theorem qerr_injective (e e' : QErr) (h : qerr e = qerr e') : e = e' := by
  cases e <;> cases e' <;> first | rfl | (exact absurd h (by decide))

/-- the key test of the translated code on a `scheduledJob` -/
def keyIs (key : JobKey) (sj : scheduledJob) : Bool := JobKey.Equals (scheduledJob.JobDetail sj).jobKey key

theorem keyIs_eq (key : JobKey) (sj : scheduledJob) :
    keyIs key sj = ((toEntry sj).name == key.name && (toEntry sj).group == key.group) := by
  rfl

theorem findIdx_toArr (pq : priorityQueue) (key : JobKey) :
    findIdx (toArr pq) key.group key.name = pq.findIdx? (keyIs key) := by
  unfold findIdx toArr
  rw [List.findIdx?_toArray, List.findIdx?_map]
  congr 1

theorem scheduledJobs_loop (l : priorityQueue) : ∀ (pre : List scheduledJob),
    jobQueue.scheduledJobs.loop1 (pre.length : Int) l (pre ++ List.replicate l.length default) = pre ++ l := by
  induction l with
  | nil => intro pre; simp [jobQueue.scheduledJobs.loop1]
  | cons x xs ih =>
    intro pre
    unfold jobQueue.scheduledJobs.loop1
    have h1 : setI (pre ++ List.replicate (x :: xs).length default) (pre.length : Int) x
        = (pre ++ [x]) ++ List.replicate xs.length default := by
      simp [setI, List.replicate_succ]
    have h2 : ((pre.length : Int) + 1) = ((pre ++ [x]).length : Int) := by simp
    simp only [h1, h2]
    rw [ih (pre ++ [x])]
    simp

theorem trans_scheduledJobs (jq : jobQueue) : jobQueue.scheduledJobs jq = jq.delegate := by
  have := scheduledJobs_loop jq.delegate []
  simpa [jobQueue.scheduledJobs] using this

/-- the search loop of `jobQueue.Push`, in closed form -/
theorem push_loop (job : scheduledJob) (fuel : Nat) : ∀ (l : List scheduledJob) (k : Nat) (jq : jobQueue),
    jobQueue.Push.loop1 job fuel (k : Int) l jq =
      match l.findIdx? (keyIs (scheduledJob.JobDetail job).jobKey) with
      | none => some (.done jq)
      | some d =>
        if (scheduledJob.JobDetail job).opts.Replace then
          (heap.Remove jq.delegate ((k + d : Nat) : Int) fuel).bind fun r1 => some (.done { jq with delegate := r1.1 })
        else some (.ret (jq, newIllegalStateError Error.ErrJobAlreadyExists)) := by
  intro l
  induction l with
  | nil => intro k jq; simp [jobQueue.Push.loop1]
  | cons x xs ih =>
    intro k jq
    unfold jobQueue.Push.loop1
    rw [List.findIdx?_cons]
    by_cases hx : keyIs (scheduledJob.JobDetail job).jobKey x = true
    · have hx' : JobKey.Equals (scheduledJob.JobDetail x).jobKey (scheduledJob.JobDetail job).jobKey = true := hx
      simp only [hx, hx', if_true, Nat.add_zero]
    · have hx' : ¬ JobKey.Equals (scheduledJob.JobDetail x).jobKey (scheduledJob.JobDetail job).jobKey = true := hx
      have hk : ((k : Int) + 1) = ((k + 1 : Nat) : Int) := by omega
      simp only [hx, hx', if_false, hk, Bool.false_eq_true]
      rw [ih (k + 1) jq]
      cases xs.findIdx? (keyIs (scheduledJob.JobDetail job).jobKey) with
      | none => rfl
      | some d =>
        have : k + 1 + d = k + (d + 1) := by omega
        simp only [Option.map_some, this]

theorem jobKey_eta (sj : scheduledJob) :
    ((toEntry sj).group, (toEntry sj).name) = ((scheduledJob.JobDetail sj).jobKey.group, (scheduledJob.JobDetail sj).jobKey.name) := rfl

/-- `jobQueue.Push` = `Queue.qpush` -/
theorem trans_qpush (jq : jobQueue) (job : scheduledJob) (fuel : Nat) (hf : jq.delegate.length < fuel) :
    match qpush (toArr jq.delegate) (toEntry job) with
    | .ok a' => ∃ jq', jobQueue.Push jq job fuel = some (jq', Error.nil) ∧ toArr jq'.delegate = a'
    | .error e => jobQueue.Push jq job fuel = some (jq, qerr e) := by
  unfold qpush
  have hfi : findIdx (toArr jq.delegate) (toEntry job).group (toEntry job).name
      = jq.delegate.findIdx? (keyIs (scheduledJob.JobDetail job).jobKey) :=
    findIdx_toArr jq.delegate (scheduledJob.JobDetail job).jobKey
  rw [hfi]
  simp only [jobQueue.Push, trans_scheduledJobs]
  have hl := push_loop job fuel jq.delegate 0 jq
  simp only [Int.natCast_zero] at hl
  rw [hl]
  cases hidx : jq.delegate.findIdx? (keyIs (scheduledJob.JobDetail job).jobKey) with
  | none =>
    obtain ⟨h', e1, e2⟩ := trans_heap_push jq.delegate job fuel hf
    simp only [Option.bind_some, e1]
    exact ⟨_, rfl, e2⟩
  | some d =>
    have hd : d < jq.delegate.length := by
      have := List.findIdx?_eq_some_iff_getElem.mp hidx
      exact this.1
    have hrep : (toEntry job).replace = (scheduledJob.JobDetail job).opts.Replace := rfl
    rw [hrep]
    cases hr : (scheduledJob.JobDetail job).opts.Replace with
    | false => simp [qerr]
    | true =>
      obtain ⟨h1, e, r1, r2⟩ := trans_heap_remove jq.delegate d fuel hd (by omega)
      have hl1 : h1.length + 1 = jq.delegate.length := by
        have hs : (hremove (toArr jq.delegate) d).1.size + 1 = (toArr jq.delegate).size := by
          have hsz : ¬ ((toArr jq.delegate).size = 0 ∨ d ≥ (toArr jq.delegate).size) := by rw [toArr_size]; omega
          rw [hremove, if_neg hsz]
          have hpos : 0 < (toArr jq.delegate).size := by rw [toArr_size]; omega
          simp only [Array.size_pop]
          split
          · split
            · rw [down_size, size_swp]; omega
            · rw [up_size, down_size, size_swp]; omega
          · omega
        rw [r2] at hs
        simpa using hs
      obtain ⟨h2, p1, p2⟩ := trans_heap_push h1 job fuel (by omega)
      simp only [if_true, Nat.zero_add, r1, Option.bind_some, p1, r2]
      exact ⟨_, rfl, p2⟩

/-- `jobQueue.Pop` = `Queue.qpop` -/
theorem trans_qpop (jq : jobQueue) (fuel : Nat) (hf : jq.delegate.length ≤ fuel) :
    match qpop (toArr jq.delegate) with
    | .ok (a', e) => ∃ jq' sj, jobQueue.Pop jq fuel = some (jq', sj, Error.nil) ∧ toArr jq'.delegate = a' ∧ toEntry sj = e
    | .error e => jobQueue.Pop jq fuel = some (jq, default, qerr e) := by
  unfold qpop
  by_cases hne : jq.delegate = []
  · have : hpop (toArr jq.delegate) = (toArr jq.delegate, none) := hpop_empty' _ (by simp [hne])
    rw [this]
    simp [jobQueue.Pop, hne, qerr]
  · obtain ⟨h', e, p1, p2⟩ := trans_heap_pop jq.delegate fuel hne hf
    rw [p2]
    have hl : ¬ ((jq.delegate.length : Int) = 0) := by
      have := List.length_pos_iff.mpr hne
      omega
    simp only [jobQueue.Pop, hl, decide_false, Bool.false_eq_true, if_false, p1, Option.bind_some]
    exact ⟨_, _, rfl, rfl, rfl⟩

/-- `jobQueue.Head` = `Queue.qhead` -/
theorem trans_qhead (jq : jobQueue) :
    match qhead (toArr jq.delegate) with
    | .ok e => ∃ sj, jobQueue.Head jq = (sj, Error.nil) ∧ toEntry sj = e
    | .error e => jobQueue.Head jq = (default, qerr e) := by
  unfold qhead
  rw [toArr_getElem?]
  cases hd : jq.delegate with
  | nil => simp [jobQueue.Head, hd, qerr]
  | cons x xs =>
    have : ¬ ((xs.length : Int) + 1 = 0) := by omega
    simp [jobQueue.Head, hd, idxD, this]

/-- the search loop of `jobQueue.Get` -/
theorem get_loop (key : JobKey) : ∀ (l : List scheduledJob),
    jobQueue.Get.loop1 key l = match l.find? (keyIs key) with
      | some sj => .ret (sj, Error.nil)
      | none => .done () := by
  intro l
  induction l with
  | nil => simp [jobQueue.Get.loop1]
  | cons x xs ih =>
    unfold jobQueue.Get.loop1
    rw [List.find?_cons]
    by_cases hx : keyIs key x = true
    · have hx' : JobKey.Equals (scheduledJob.JobDetail x).jobKey key = true := hx
      simp only [hx, hx', if_true]
    · have hx' : ¬ JobKey.Equals (scheduledJob.JobDetail x).jobKey key = true := hx
      simp only [Bool.not_eq_true] at hx
      simp only [hx', hx, if_false, ih, Bool.false_eq_true]

/-- `jobQueue.Get` = `Queue.qget` -/
theorem trans_qget (jq : jobQueue) (key : JobKey) :
    match qget (toArr jq.delegate) key.group key.name with
    | .ok e => ∃ sj, jobQueue.Get jq key = (sj, Error.nil) ∧ toEntry sj = e
    | .error e => jobQueue.Get jq key = (default, qerr e) := by
  unfold qget
  rw [findIdx_toArr]
  simp only [jobQueue.Get, get_loop]
  cases hidx : jq.delegate.findIdx? (keyIs key) with
  | none =>
    have : jq.delegate.find? (keyIs key) = none := by
      rw [List.findIdx?_eq_none_iff] at hidx
      rw [List.find?_eq_none]
      intro x hx; simpa using hidx x hx
    simp [this, qerr]
  | some d =>
    have hh := List.findIdx?_eq_some_iff_getElem.mp hidx
    obtain ⟨hd, hp, hlt⟩ := hh
    have hfind : jq.delegate.find? (keyIs key) = some jq.delegate[d] := by
      rw [List.find?_eq_some_iff_getElem]
      exact ⟨hp, d, hd, rfl, fun j hj => by simpa using hlt j hj⟩
    simp [hfind, hd, toArr]

/-- the search loop of `jobQueue.Remove`, in closed form -/
theorem remove_loop (key : JobKey) (fuel : Nat) : ∀ (l : List scheduledJob) (k : Nat) (jq : jobQueue),
    jobQueue.Remove.loop1 key fuel (k : Int) l jq =
      match l.findIdx? (keyIs key) with
      | none => some (.done jq)
      | some d =>
        (heap.Remove jq.delegate ((k + d : Nat) : Int) fuel).bind fun r1 =>
          some (.ret ({ jq with delegate := r1.1 }, r1.2, Error.nil)) := by
  intro l
  induction l with
  | nil => intro k jq; simp [jobQueue.Remove.loop1]
  | cons x xs ih =>
    intro k jq
    unfold jobQueue.Remove.loop1
    rw [List.findIdx?_cons]
    by_cases hx : keyIs key x = true
    · have hx' : JobKey.Equals (scheduledJob.JobDetail x).jobKey key = true := hx
      simp only [hx, hx', if_true, Nat.add_zero]
    · have hx' : ¬ JobKey.Equals (scheduledJob.JobDetail x).jobKey key = true := hx
      have hk : ((k : Int) + 1) = ((k + 1 : Nat) : Int) := by omega
      simp only [hx, hx', if_false, hk, Bool.false_eq_true]
      rw [ih (k + 1) jq]
      cases xs.findIdx? (keyIs key) with
      | none => rfl
      | some d =>
        have : k + 1 + d = k + (d + 1) := by omega
        simp only [Option.map_some, this]

/-- `jobQueue.Remove` = `Queue.qremove` -/
theorem trans_qremove (jq : jobQueue) (key : JobKey) (fuel : Nat) (hf : jq.delegate.length ≤ fuel) :
    match qremove (toArr jq.delegate) key.group key.name with
    | .ok (a', e) => ∃ jq' sj, jobQueue.Remove jq key fuel = some (jq', sj, Error.nil) ∧ toArr jq'.delegate = a' ∧ toEntry sj = e
    | .error e => jobQueue.Remove jq key fuel = some (jq, default, qerr e) := by
  unfold qremove
  rw [findIdx_toArr]
  simp only [jobQueue.Remove, trans_scheduledJobs]
  have hl := remove_loop key fuel jq.delegate 0 jq
  simp only [Int.natCast_zero] at hl
  rw [hl]
  cases hidx : jq.delegate.findIdx? (keyIs key) with
  | none => simp [qerr]
  | some d =>
    have hd : d < jq.delegate.length := (List.findIdx?_eq_some_iff_getElem.mp hidx).1
    obtain ⟨h1, e, r1, r2⟩ := trans_heap_remove jq.delegate d fuel hd hf
    simp only [Nat.zero_add, r1, Option.bind_some, r2]
    exact ⟨_, _, rfl, rfl, rfl⟩

/-- `jobQueue.Size`, `jobQueue.Clear`, `NewJobQueue` -/
theorem trans_qsize (jq : jobQueue) : jobQueue.Size jq = ((((toArr jq.delegate).size : Nat) : Int), Error.nil) := by
  simp [jobQueue.Size]

theorem trans_qclear (jq : jobQueue) : toArr (jobQueue.Clear jq).1.delegate = #[] ∧ (jobQueue.Clear jq).2 = Error.nil := by
  simp [jobQueue.Clear, toArr]

theorem trans_newJobQueue : toArr NewJobQueue.delegate = #[] := by simp [NewJobQueue, toArr]

/-! ## `jobQueue.ScheduledJobs` and the matchers -/

theorem list_inner (job : scheduledJob) : ∀ (ms : List Generated.TransQueue.Matcher),
    jobQueue.ScheduledJobs.loop2 job ms = if ms.all (fun m => m job) then .done () else .next () := by
  intro ms
  induction ms with
  | nil => simp [jobQueue.ScheduledJobs.loop2]
  | cons m ms ih =>
    unfold jobQueue.ScheduledJobs.loop2
    cases hm : m job <;> simp [ih, hm]

theorem list_outer (ms : List Generated.TransQueue.Matcher) : ∀ (l acc : List scheduledJob),
    jobQueue.ScheduledJobs.loop1 ms l acc = acc ++ l.filter (fun sj => ms.all (fun m => m sj)) := by
  intro l
  induction l with
  | nil => intro acc; simp [jobQueue.ScheduledJobs.loop1]
  | cons x xs ih =>
    intro acc
    unfold jobQueue.ScheduledJobs.loop1
    rw [list_inner]
    cases hx : ms.all (fun m => m x) <;> simp [ih, hx]

/-- translated matchers `ms` implement the model matchers `Ms` -/
def MatchersAgree : List Generated.TransQueue.Matcher → List Queue.Matcher → Prop
  | [], [] => True
  | m :: ms, M :: Ms => (∀ sj, m sj = M.isMatch (toEntry sj)) ∧ MatchersAgree ms Ms
  | _, _ => False

theorem matchers_all {ms : List Generated.TransQueue.Matcher} {Ms : List Queue.Matcher} (h : MatchersAgree ms Ms) (sj : scheduledJob) :
    ms.all (fun m => m sj) = Ms.all (fun M => M.isMatch (toEntry sj)) := by
  induction ms generalizing Ms with
  | nil => cases Ms with
    | nil => rfl
    | cons M Ms => simp [MatchersAgree] at h
  | cons m ms ih => cases Ms with
    | nil => simp [MatchersAgree] at h
    | cons M Ms =>
      simp only [MatchersAgree] at h
      simp only [List.all_cons, h.1 sj, ih h.2]

/-- `jobQueue.ScheduledJobs` = `Queue.qlist` -/
theorem trans_qlist (jq : jobQueue) (ms : List Generated.TransQueue.Matcher) (Ms : List Queue.Matcher) (h : MatchersAgree ms Ms) :
    (jobQueue.ScheduledJobs jq ms).1.map toEntry = qlist (toArr jq.delegate) Ms ∧
      (jobQueue.ScheduledJobs jq ms).2 = Error.nil := by
  unfold qlist
  have hfl : (jq.delegate.filter (fun sj => ms.all (fun m => m sj))).map toEntry
      = (toArr jq.delegate).toList.filter (fun e => Ms.all (fun m => m.isMatch e)) := by
    simp only [toArr, List.filter_map]
    congr 1
    apply List.filter_congr
    intro sj _
    exact matchers_all h sj
  cases hms : ms with
  | nil =>
    subst hms
    cases Ms with
    | nil =>
      have ft : ∀ l : List Entry, l.filter (fun _ => true) = l := by
        intro l; induction l with
        | nil => rfl
        | cons x xs ih => simp [ih]
      simp [jobQueue.ScheduledJobs, trans_scheduledJobs, toArr, ft]
    | cons M Ms => simp [MatchersAgree] at h
  | cons m ms' =>
    rw [← hms]
    have hlen : ¬ ((ms.length : Int) = 0) := by rw [hms]; simp; omega
    simp only [jobQueue.ScheduledJobs, hlen, decide_false, Bool.false_eq_true, if_false, list_outer, List.nil_append]
    exact ⟨hfl, trivial⟩

/-- modelled, not translated: Go's `strings.HasPrefix/HasSuffix/Contains` are taken to be the model's string operators -/
def goStrings : StringsExt where
  HasPrefix := StrOp.startsWith.apply
  HasSuffix := StrOp.endsWith.apply
  Contains := StrOp.contains.apply

/-- the translated string operator for a model `StrOp` -/
def opOf : StrOp → matcher.StringOperator
  | .equals => matcher.StringEquals
  | .startsWith => matcher.StringStartsWith goStrings
  | .endsWith => matcher.StringEndsWith goStrings
  | .contains => matcher.StringContains goStrings

theorem trans_strop (op : StrOp) (s p : String) : opOf op s p = op.apply s p := by
  cases op
  · simp only [opOf, matcher.StringEquals, matcher.stringsEqual, StrOp.apply]
    by_cases h : s = p <;> simp [h]
  · rfl
  · rfl
  · rfl

theorem trans_matcher_name (op : StrOp) (p : String) (sj : scheduledJob) :
    matcher.NewJobName (opOf op) p sj = (Queue.Matcher.name op p).isMatch (toEntry sj) := by
  simp only [matcher.NewJobName, matcher.JobName.IsMatch, trans_strop, Queue.Matcher.isMatch]
  rfl

theorem trans_matcher_group (op : StrOp) (p : String) (sj : scheduledJob) :
    matcher.NewJobGroup (opOf op) p sj = (Queue.Matcher.group op p).isMatch (toEntry sj) := by
  simp only [matcher.NewJobGroup, matcher.JobGroup.IsMatch, trans_strop, Queue.Matcher.isMatch]
  rfl

theorem trans_matcher_status (sj : scheduledJob) :
    matcher.JobActive sj = (Queue.Matcher.status false).isMatch (toEntry sj) ∧
    matcher.JobPaused sj = (Queue.Matcher.status true).isMatch (toEntry sj) := by
  constructor <;> rfl

/-- the ten public constructors of package matcher are the model's matchers -/
theorem trans_matcher_ctors (p : String) (sj : scheduledJob) :
    matcher.JobNameEquals p sj = (Queue.Matcher.name .equals p).isMatch (toEntry sj) ∧
    matcher.JobNameStartsWith goStrings p sj = (Queue.Matcher.name .startsWith p).isMatch (toEntry sj) ∧
    matcher.JobNameEndsWith goStrings p sj = (Queue.Matcher.name .endsWith p).isMatch (toEntry sj) ∧
    matcher.JobNameContains goStrings p sj = (Queue.Matcher.name .contains p).isMatch (toEntry sj) ∧
    matcher.JobGroupEquals p sj = (Queue.Matcher.group .equals p).isMatch (toEntry sj) ∧
    matcher.JobGroupStartsWith goStrings p sj = (Queue.Matcher.group .startsWith p).isMatch (toEntry sj) ∧
    matcher.JobGroupEndsWith goStrings p sj = (Queue.Matcher.group .endsWith p).isMatch (toEntry sj) ∧
    matcher.JobGroupContains goStrings p sj = (Queue.Matcher.group .contains p).isMatch (toEntry sj) :=
  ⟨trans_matcher_name .equals p sj, trans_matcher_name .startsWith p sj, trans_matcher_name .endsWith p sj,
   trans_matcher_name .contains p sj, trans_matcher_group .equals p sj, trans_matcher_group .startsWith p sj,
   trans_matcher_group .endsWith p sj, trans_matcher_group .contains p sj⟩

end TransQueue
