import QuartzModel.Sched.Lifecycle
/-!
# Helper lemmas for C10 (`Sched/Lifecycle.lean`): list facts, the inductive invariant, runs
-/
namespace Lifecycle

/-! ## lists of generations -/

theorem getElem?_set_cases {l : List Gen} {i j : Nat} {x g : Gen} (h : (l.set i x)[j]? = some g) :
    (j = i ∧ g = x ∧ i < l.length) ∨ (j ≠ i ∧ l[j]? = some g) := by
  rw [List.getElem?_set] at h
  by_cases hij : i = j
  · subst hij
    simp only [if_true] at h
    split at h
    · exact Or.inl ⟨rfl, (Option.some.inj h).symm, by assumption⟩
    · cases h
  · simp only [hij, if_false] at h
    exact Or.inr ⟨fun e => hij e.symm, h⟩

theorem lt_of_getElem? {l : List Gen} {i : Nat} {g : Gen} (h : l[i]? = some g) : i < l.length := by
  rcases Nat.lt_or_ge i l.length with h' | h'
  · exact h'
  · simp [List.getElem?_eq_none h'] at h

theorem liveL_append (l₁ l₂ : List Gen) : liveL (l₁ ++ l₂) = liveL l₁ + liveL l₂ := by
  induction l₁ with
  | nil => simp [liveL]
  | cons g l ih => simp [liveL, ih]; omega

theorem liveL_set : ∀ (l : List Gen) (i : Nat) (g g' : Gen), l[i]? = some g →
    liveL (l.set i g') + g.live = liveL l + g'.live
  | [], i, _, _, h => by simp at h
  | x :: l, 0, g, g', h => by
    have : x = g := by simpa using h
    subst this; simp [liveL]; omega
  | x :: l, i + 1, g, g', h => by
    have h' : l[i]? = some g := by simpa using h
    have := liveL_set l i g g' h'
    simp [liveL]; omega

theorem live_le_liveL : ∀ (l : List Gen) (i : Nat) (g : Gen), l[i]? = some g → g.live ≤ liveL l
  | [], i, _, h => by simp at h
  | x :: l, 0, g, h => by
    have : x = g := by simpa using h
    subst this; simp [liveL]
  | x :: l, i + 1, g, h => by
    have h' : l[i]? = some g := by simpa using h
    have := live_le_liveL l i g h'
    simp [liveL]; omega

theorem liveL_eq_zero (l : List Gen) (h : liveL l = 0) : ∀ g ∈ l, g.live = 0 := by
  intro g hg
  obtain ⟨i, hi⟩ := List.mem_iff_getElem?.mp hg
  have := live_le_liveL l i g hi
  omega

theorem set_same (l : List Gen) (i : Nat) (g : Gen) (h : l[i]? = some g) : l.set i g = l := by
  apply List.ext_getElem?
  intro j
  rw [List.getElem?_set]
  by_cases hij : i = j
  · subst hij; rw [if_pos rfl, if_pos (lt_of_getElem? h)]; exact h.symm
  · simp [hij]

/-! ## cancelAt / stopBody / curCancelled -/

theorem cancelAt_length (l : List Gen) (i : Nat) : (cancelAt l i).length = l.length := by
  unfold cancelAt; split <;> simp

theorem cancelAt_get (l : List Gen) (i j : Nat) :
    (cancelAt l i)[j]? = (l[j]?).map (fun g => if j = i then { g with cancelled := true } else g) := by
  unfold cancelAt
  split
  · rename_i g hg
    rw [List.getElem?_set]
    by_cases hij : i = j
    · subst hij; rw [if_pos rfl, if_pos (lt_of_getElem? hg), hg]; simp
    · have : ¬ j = i := fun e => hij e.symm
      simp only [hij, this, if_false]
      cases l[j]? <;> simp
  · rename_i hn
    by_cases hij : j = i
    · subst hij
      simp [hn]
    · simp only [hij, if_false]; cases l[j]? <;> simp

theorem stopBody_length (s : St) : (stopBody s).gens.length = s.gens.length := by
  unfold stopBody; split <;> simp [cancelAt_length]

theorem stopBody_started (s : St) : (stopBody s).started = false := by
  unfold stopBody; split
  · rfl
  · rename_i h; simpa using h

theorem stopBody_wg (s : St) : (stopBody s).wg = s.wg := by
  unfold stopBody; split <;> rfl

theorem stopBody_of_not_started (s : St) (h : s.started = false) : stopBody s = s := by
  simp [stopBody, h]

/-- `stop()` only sets the `cancelled` flag of the current generation -/
theorem stopBody_get (s : St) (j : Nat) (g : Gen) (h : s.gens[j]? = some g) :
    ∃ g2, (stopBody s).gens[j]? = some g2 ∧ g2.watcher = g.watcher ∧ g2.loop = g.loop ∧
      g2.workers = g.workers ∧ g2.jobs = g.jobs ∧ (g.cancelled = true → g2.cancelled = true) ∧
      (g2 = g ∨ (s.started = true ∧ j + 1 = s.gens.length ∧ g2 = { g with cancelled := true })) := by
  unfold stopBody
  split
  · rename_i hst
    simp only [cancelAt_get, h, Option.map_some]
    by_cases hj : j = s.gens.length - 1
    · refine ⟨{ g with cancelled := true }, by simp [hj], rfl, rfl, rfl, rfl, fun _ => rfl, Or.inr ⟨hst, ?_, rfl⟩⟩
      have := lt_of_getElem? h; omega
    · exact ⟨g, by simp [hj], rfl, rfl, rfl, rfl, id, Or.inl rfl⟩
  · exact ⟨g, h, rfl, rfl, rfl, rfl, id, Or.inl rfl⟩

theorem curCancelled_append (l : List Gen) (g : Gen) (st : Bool) (w : Nat) :
    curCancelled { started := st, gens := l ++ [g], wg := w } = g.cancelled := by
  simp [curCancelled]

theorem curCancelled_stopBody (s : St) (h : s.started = true) (hne : s.gens ≠ []) :
    curCancelled (stopBody s) = true := by
  have hlt : s.gens.length - 1 < s.gens.length := by
    have : 0 < s.gens.length := List.length_pos_iff.mpr hne
    omega
  obtain ⟨g, hg⟩ : ∃ g, s.gens[s.gens.length - 1]? = some g := ⟨_, List.getElem?_eq_getElem hlt⟩
  simp [curCancelled, stopBody, h, cancelAt_length, cancelAt_get, hg]

/-! ## the inductive invariant -/

structure Inv (s : St) : Prop where
  /-- the WaitGroup counter is the number of live counted goroutines -/
  wg_live : s.wg = live s
  /-- the context of every generation except a started current one is cancelled -/
  old_cancelled : ∀ (i : Nat) (g : Gen), s.gens[i]? = some g → (i + 1 < s.gens.length ∨ s.started = false) → g.cancelled = true
  started_has : s.started = true → s.gens ≠ []
  /-- a watcher leaves `<-ctx.Done()` only after the cancellation -/
  woke_cancelled : ∀ (i : Nat) (g : Gen), s.gens[i]? = some g → g.watcher ≠ .waiting → g.cancelled = true
  /-- while `started` is set the watcher of the current generation has not returned -/
  cur_watching : ∀ (g : Gen), s.gens[s.gens.length - 1]? = some g → s.started = true → g.watcher ≠ .done

theorem inv_init : Inv init := by
  refine ⟨rfl, ?_, ?_, ?_, ?_⟩ <;> simp [init]

/-- replacing generation `i` by a record that keeps a cancellation, respects the watcher rule and is
    accounted for in the WaitGroup keeps the invariant -/
theorem inv_set {s : St} {i : Nat} {g g' : Gen} {w' : Nat} (hi : Inv s) (hg : s.gens[i]? = some g)
    (hc : g.cancelled = true → g'.cancelled = true)
    (hk : g'.watcher ≠ .waiting → g'.cancelled = true)
    (hw : w' + g.live = s.wg + g'.live)
    (hd : s.started = true → i + 1 = s.gens.length → g'.watcher ≠ .done) :
    Inv { s with gens := s.gens.set i g', wg := w' } := by
  have hlt := lt_of_getElem? hg
  refine ⟨?_, ?_, ?_, ?_, ?_⟩
  · have h1 := liveL_set s.gens i g g' hg
    have h2 := hi.wg_live
    simp only [live] at h2 ⊢
    omega
  · intro j gj hj hcond
    simp only [List.length_set] at hcond
    rcases getElem?_set_cases hj with ⟨rfl, rfl, _⟩ | ⟨_, hj'⟩
    · exact hc (hi.old_cancelled _ g hg hcond)
    · exact hi.old_cancelled j gj hj' hcond
  · intro hst
    have := hi.started_has hst
    intro hnil
    have hl : (s.gens.set i g').length = 0 := by simp only at hnil; rw [hnil]; rfl
    rw [List.length_set] at hl
    exact this (List.length_eq_zero_iff.mp hl)
  · intro j gj hj hw'
    rcases getElem?_set_cases hj with ⟨rfl, rfl, _⟩ | ⟨_, hj'⟩
    · exact hk hw'
    · exact hi.woke_cancelled j gj hj' hw'
  · intro gj hj hst
    simp only [List.length_set] at hj
    rcases getElem?_set_cases hj with ⟨hji, rfl, _⟩ | ⟨_, hj'⟩
    · exact hd hst (by omega)
    · exact hi.cur_watching gj hj' hst

theorem inv_stopBody {s : St} (hi : Inv s) : Inv (stopBody s) := by
  by_cases hst : s.started = true
  · have hne := hi.started_has hst
    have hpos : 0 < s.gens.length := List.length_pos_iff.mpr hne
    have hlt : s.gens.length - 1 < s.gens.length := by omega
    obtain ⟨g, hg⟩ : ∃ g, s.gens[s.gens.length - 1]? = some g := ⟨_, List.getElem?_eq_getElem hlt⟩
    have hsb : stopBody s = { s with started := false, gens := s.gens.set (s.gens.length - 1) { g with cancelled := true } } := by
      simp [stopBody, hst, cancelAt, hg]
    rw [hsb]
    refine ⟨?_, ?_, ?_, ?_, ?_⟩
    · have h1 := liveL_set s.gens _ g { g with cancelled := true } hg
      have h2 := hi.wg_live
      simp only [live] at h2 ⊢
      have : ({ g with cancelled := true } : Gen).live = g.live := rfl
      omega
    · intro j gj hj _
      rcases getElem?_set_cases hj with ⟨_, rfl, _⟩ | ⟨hne', hj'⟩
      · rfl
      · have := lt_of_getElem? hj'
        exact hi.old_cancelled j gj hj' (Or.inl (by omega))
    · intro h; cases h
    · intro j gj hj hw'
      rcases getElem?_set_cases hj with ⟨_, rfl, _⟩ | ⟨_, hj'⟩
      · rfl
      · exact hi.woke_cancelled j gj hj' hw'
    · intro _ _ h; cases h
  · have : s.started = false := by simpa using hst
    rw [stopBody_of_not_started s this]; exact hi

theorem inv_startBody (cfg : Cfg) {s : St} (hi : Inv s) : Inv (startBody cfg s) := by
  unfold startBody
  generalize hs1 : (if (cfg.prestop && s.started && curCancelled s) = true then stopBody s else s) = s1
  have hi1 : Inv s1 := by
    rw [← hs1]; split
    · exact inv_stopBody hi
    · exact hi
  simp only
  split
  · exact hi1
  · rename_i hns
    have hns' : s1.started = false := by simpa using hns
    refine ⟨?_, ?_, ?_, ?_, ?_⟩
    · have h2 := hi1.wg_live
      simp only [live, liveL_append, liveL, newGen, Gen.live] at h2 ⊢
      simp; omega
    · intro j gj hj hcond
      simp only [List.length_append, List.length_cons, List.length_nil] at hcond
      rcases hcond with hcond | hcond
      · rw [List.getElem?_append_left (by omega)] at hj
        exact hi1.old_cancelled j gj hj (Or.inr hns')
      · cases hcond
    · intro _; simp
    · intro j gj hj hw'
      by_cases hjl : j < s1.gens.length
      · rw [List.getElem?_append_left hjl] at hj
        exact hi1.woke_cancelled j gj hj hw'
      · rw [List.getElem?_append_right (by omega)] at hj
        have : j - s1.gens.length = 0 := by
          have := lt_of_getElem? hj; simp at this; omega
        rw [this] at hj
        simp at hj; subst hj
        simp [newGen] at hw'
    · intro gj hj _
      simp at hj; subst hj
      simp [newGen]

theorem inv_finishWatcher {s : St} {i : Nat} {g : Gen} (hi : Inv s) (hg : s.gens[i]? = some g)
    (hw : g.watcher = .woke) (hd : s.started = false ∨ i + 1 ≠ s.gens.length) :
    Inv (finishWatcher s i) := by
  simp only [finishWatcher, hg]
  have hlive : g.live = ({ g with watcher := .done } : Gen).live + 1 := by
    simp [Gen.live, hw]; omega
  have hle := live_le_liveL s.gens i g hg
  have hwl := hi.wg_live
  simp only [live] at hwl
  apply inv_set hi hg
  · exact id
  · intro _; exact hi.woke_cancelled i g hg (by rw [hw]; simp)
  · omega
  · intro hst hil
    rcases hd with hd | hd
    · rw [hd] at hst; cases hst
    · exact absurd hil hd

theorem inv_step (cfg : Cfg) {s s' : St} {a : Act} (hi : Inv s) (hs : step cfg s a = some s') : Inv s' := by
  cases a <;> simp only [step] at hs
  case start => cases hs; exact inv_startBody cfg hi
  case stop => cases hs; exact inv_stopBody hi
  case cancel i =>
    split at hs <;> simp at hs
    rename_i g hg; subst hs
    exact inv_set hi hg (fun _ => rfl) (fun _ => rfl) (by simp [Gen.live]) (fun hst hil => by
      have := hi.cur_watching g (by rw [← hil]; simpa using hg) hst
      simpa using this)
  case watcherWake i =>
    split at hs
    · rename_i g hg
      split at hs <;> simp at hs
      rename_i hc; subst hs
      exact inv_set hi hg (fun h => h) (fun _ => hc.1) (by simp [Gen.live, hc.2]) (fun _ _ => by simp)
    · cases hs
  case watcherStop i =>
    split at hs
    · rename_i g hg
      split at hs <;> simp at hs
      rename_i hw; subst hs
      split
      · rename_i hguard
        have hne : i + 1 ≠ s.gens.length := by
          intro h; exact hguard.2 h.symm
        exact inv_finishWatcher hi hg hw (Or.inr hne)
      · obtain ⟨g2, hg2, hw2, _⟩ := stopBody_get s i g hg
        exact inv_finishWatcher (inv_stopBody hi) hg2 (by rw [hw2, hw]) (Or.inl (stopBody_started s))
    · cases hs
  case loopExit i =>
    split at hs
    · rename_i g hg
      split at hs <;> simp at hs
      rename_i hc; subst hs
      have hle := live_le_liveL s.gens i g hg
      have hwl := hi.wg_live
      simp only [live] at hwl
      have hl : g.live = ({ g with loop := false } : Gen).live + 1 := by simp [Gen.live, hc.1]; omega
      exact inv_set hi hg (fun h => h) (fun h => hi.woke_cancelled i g hg h) (by omega)
        (fun hst hil => hi.cur_watching g (by rw [← hil]; simpa using hg) hst)
    · cases hs
  case workerExit i =>
    split at hs
    · rename_i g hg
      split at hs <;> simp at hs
      rename_i hc; subst hs
      have hle := live_le_liveL s.gens i g hg
      have hwl := hi.wg_live
      simp only [live] at hwl
      have hl : g.live = ({ g with workers := g.workers - 1 } : Gen).live + 1 := by simp [Gen.live]; omega
      exact inv_set hi hg (fun h => h) (fun h => hi.woke_cancelled i g hg h) (by omega)
        (fun hst hil => hi.cur_watching g (by rw [← hil]; simpa using hg) hst)
    · cases hs
  case jobSpawn i =>
    split at hs
    · rename_i g hg
      split at hs <;> simp at hs
      subst hs
      have hl : ({ g with jobs := g.jobs + 1 } : Gen).live = g.live + 1 := by simp [Gen.live]; omega
      exact inv_set hi hg (fun h => h) (fun h => hi.woke_cancelled i g hg h) (by omega)
        (fun hst hil => hi.cur_watching g (by rw [← hil]; simpa using hg) hst)
    · cases hs
  case jobExit i =>
    split at hs
    · rename_i g hg
      split at hs <;> simp at hs
      rename_i hc; subst hs
      have hle := live_le_liveL s.gens i g hg
      have hwl := hi.wg_live
      simp only [live] at hwl
      have hl : g.live = ({ g with jobs := g.jobs - 1 } : Gen).live + 1 := by simp [Gen.live]; omega
      exact inv_set hi hg (fun h => h) (fun h => hi.woke_cancelled i g hg h) (by omega)
        (fun hst hil => hi.cur_watching g (by rw [← hil]; simpa using hg) hst)
    · cases hs

/-! ## runs -/

theorem run_append (cfg : Cfg) (s : St) (as bs : List Act) :
    run cfg s (as ++ bs) = (run cfg s as).bind (fun s' => run cfg s' bs) := by
  induction as generalizing s with
  | nil => simp [run]
  | cons a as ih =>
    simp only [List.cons_append, run]
    cases step cfg s a with
    | none => simp
    | some s1 => simpa using ih s1

theorem inv_run (cfg : Cfg) : ∀ (as : List Act) (s s' : St), Inv s → run cfg s as = some s' → Inv s' := by
  intro as
  induction as with
  | nil => intro s s' hi h; simp [run] at h; subst h; exact hi
  | cons a as ih =>
    intro s s' hi h
    simp only [run] at h
    cases hst : step cfg s a with
    | none => simp [hst] at h
    | some s1 =>
      simp [hst] at h
      exact ih s1 s' (inv_step cfg hi hst) h

theorem inv_reach (cfg : Cfg) (s : St) (hr : Reach cfg s) : Inv s := by
  obtain ⟨as, h⟩ := hr
  exact inv_run cfg as init s inv_init h

theorem reach_run (cfg : Cfg) (s s' : St) (as : List Act) (hr : Reach cfg s) (h : run cfg s as = some s') :
    Reach cfg s' := by
  obtain ⟨bs, hb⟩ := hr
  exact ⟨bs ++ as, by rw [run_append, hb]; simpa using h⟩

/-! ## the current generation under updates -/

theorem curCancelled_set_keep (s : St) (i : Nat) (g g' : Gen) (w : Nat) (st : Bool)
    (hg : s.gens[i]? = some g) (hc : g'.cancelled = g.cancelled) :
    curCancelled { started := st, gens := s.gens.set i g', wg := w } = curCancelled s := by
  simp only [curCancelled, List.length_set, List.getElem?_set]
  by_cases hi : i = s.gens.length - 1
  · subst hi
    rw [if_pos rfl, if_pos (lt_of_getElem? hg), hg]; simp [hc]
  · simp only [hi, if_false]

theorem curCancelled_set_cancel (s : St) (i : Nat) (g : Gen) (w : Nat) (st : Bool)
    (hg : s.gens[i]? = some g) :
    curCancelled { started := st, gens := s.gens.set i { g with cancelled := true }, wg := w } =
      (decide (i + 1 = s.gens.length) || curCancelled s) := by
  have hlt := lt_of_getElem? hg
  simp only [curCancelled, List.length_set, List.getElem?_set]
  by_cases hi : i = s.gens.length - 1
  · have h1 : i + 1 = s.gens.length := by omega
    subst hi
    rw [if_pos rfl, if_pos hlt]; simp [h1]
  · have h1 : ¬ i + 1 = s.gens.length := by omega
    simp only [hi, if_false, h1, decide_false, Bool.false_or]

theorem curCancelled_started_irrel (s : St) (st : Bool) :
    curCancelled { s with started := st } = curCancelled s := rfl

theorem finishWatcher_length (s : St) (i : Nat) : (finishWatcher s i).gens.length = s.gens.length := by
  unfold finishWatcher; split <;> simp

theorem finishWatcher_started (s : St) (i : Nat) : (finishWatcher s i).started = s.started := by
  unfold finishWatcher; split <;> rfl

theorem curCancelled_finishWatcher (s : St) (i : Nat) : curCancelled (finishWatcher s i) = curCancelled s := by
  unfold finishWatcher
  split
  · rename_i g hg; exact curCancelled_set_keep s i g _ _ _ hg rfl
  · rfl

/-- when the current context is already cancelled, `cancel()` changes nothing -/
theorem cancelAt_cur_same (s : St) (h : curCancelled s = true) :
    cancelAt s.gens (s.gens.length - 1) = s.gens := by
  unfold curCancelled at h
  unfold cancelAt
  split
  · rename_i g hg
    rw [hg] at h
    have : ({ g with cancelled := true } : Gen) = g := by cases g; simp_all
    rw [this]; exact set_same _ _ _ hg
  · rfl

/-- `s` with the `started` flag cleared -/
def clr (s : St) : St := { s with started := false }

theorem stopBody_eq_clr (s : St) (h : curCancelled s = true) : stopBody s = clr s := by
  unfold stopBody
  split
  · simp [clr, cancelAt_cur_same s h]
  · rename_i hn
    have : s.started = false := by simpa using hn
    cases s; simp_all [clr]

/-! ## Start -/

theorem startBody_noop (cfg : Cfg) (s : St) (hst : s.started = true) (hc : curCancelled s = false) :
    startBody cfg s = s := by
  simp [startBody, hst, hc]

/-- a Start that takes effect appends a fresh generation -/
theorem startBody_new (cfg : Cfg) (s : St) (hp : cfg.prestop = true)
    (h : s.started = false ∨ curCancelled s = true) :
    startBody cfg s = { started := true, gens := (stopBody s).gens ++ [newGen cfg],
                        wg := s.wg + 2 + cfg.workers } := by
  by_cases hst : s.started = true
  · have hc : curCancelled s = true := by
      rcases h with h | h
      · rw [h] at hst; cases hst
      · exact h
    simp [startBody, hp, hst, hc, stopBody_started, stopBody_wg]
  · have hst' : s.started = false := by simpa using hst
    simp [startBody, hst', stopBody_of_not_started s hst']

theorem startBody_cases (cfg : Cfg) (s : St) :
    (startBody cfg s = s ∧ s.started = true) ∨
    ∃ l w, startBody cfg s = { started := true, gens := l ++ [newGen cfg], wg := w } := by
  by_cases hcnd : (cfg.prestop && s.started && curCancelled s) = true
  · right
    refine ⟨(stopBody s).gens, (stopBody s).wg + 2 + cfg.workers, ?_⟩
    unfold startBody; rw [hcnd]
    simp [stopBody_started]
  · have hc' : (cfg.prestop && s.started && curCancelled s) = false := by simpa using hcnd
    have e : startBody cfg s = if s.started = true then s else
        { started := true, gens := s.gens ++ [newGen cfg], wg := s.wg + 2 + cfg.workers } := by
      unfold startBody; rw [hc']; rfl
    by_cases hst : s.started = true
    · left; rw [e, if_pos hst]; exact ⟨rfl, hst⟩
    · right; exact ⟨s.gens, s.wg + 2 + cfg.workers, by rw [e, if_neg hst]⟩

theorem startBody_idem (cfg : Cfg) (s : St) : startBody cfg (startBody cfg s) = startBody cfg s ∧
    (startBody cfg s).started = true := by
  rcases startBody_cases cfg s with ⟨h, hst⟩ | ⟨l, w, h⟩
  · rw [h, h]; exact ⟨rfl, hst⟩
  · rw [h]
    refine ⟨?_, rfl⟩
    simp [startBody, curCancelled_append, newGen]

/-! ## IsStarted follows the calls -/

theorem isStarted_std (n : Nat) (s : St) : isStarted (Cfg.std n) s = (s.started && !curCancelled s) := by
  simp [isStarted, Cfg.std]

/-- an update of generation `i` that keeps its `cancelled` flag is invisible to `IsStarted` -/
theorem isStarted_set_keep (cfg : Cfg) (s : St) (i : Nat) (g g' : Gen) (w : Nat)
    (hg : s.gens[i]? = some g) (hc : g'.cancelled = g.cancelled) :
    isStarted cfg { s with gens := s.gens.set i g', wg := w } = isStarted cfg s := by
  simp only [isStarted, curCancelled_set_keep s i g g' w s.started hg hc]

theorem isStarted_finishWatcher (cfg : Cfg) (s : St) (i : Nat) :
    isStarted cfg (finishWatcher s i) = isStarted cfg s := by
  simp only [isStarted, curCancelled_finishWatcher, finishWatcher_started]

theorem latest_step (n : Nat) {s s' : St} {a : Act} (p : Nat × Bool) (hi : Inv s)
    (hl : s.gens.length = p.1) (hs : isStarted (Cfg.std n) s = p.2) (h : step (Cfg.std n) s a = some s') :
    s'.gens.length = (expectStep p a).1 ∧ isStarted (Cfg.std n) s' = (expectStep p a).2 := by
  obtain ⟨m, w⟩ := p
  simp only at hl hs
  cases a <;> simp only [step] at h
  case start =>
    cases h
    by_cases hw : w = true
    · subst hw
      rw [isStarted_std] at hs
      have h1 : s.started = true := by cases hh : s.started <;> simp_all
      have h2 : curCancelled s = false := by cases hh : curCancelled s <;> simp_all
      rw [startBody_noop _ s h1 h2]
      simp [expectStep, hl, isStarted_std, h1, h2]
    · have hw' : w = false := by simpa using hw
      subst hw'
      rw [isStarted_std] at hs
      have h1 : s.started = false ∨ curCancelled s = true := by
        cases hh : s.started <;> cases hc : curCancelled s <;> simp_all
      rw [startBody_new _ s rfl h1]
      simp [expectStep, isStarted_std, curCancelled_append, newGen, stopBody_length, hl]
  case stop =>
    cases h
    simp [expectStep, stopBody_length, hl, isStarted, stopBody_started]
  case cancel i =>
    split at h <;> simp at h
    rename_i g hg; subst h
    have hlt := lt_of_getElem? hg
    simp only [expectStep, List.length_set, isStarted_std]
    rw [curCancelled_set_cancel s i g s.wg s.started hg]
    by_cases hcur : i + 1 = m
    · simp [hcur, hl]
    · rw [isStarted_std] at hs
      simp [hcur, hl, hs]
  case watcherWake i =>
    split at h
    · rename_i g hg
      split at h <;> simp at h
      subst h
      exact ⟨by simp [expectStep, hl], (isStarted_set_keep _ s i g _ _ hg (by rfl)).trans (by simpa [expectStep] using hs)⟩
    · cases h
  case watcherStop i =>
    split at h
    · rename_i g hg
      split at h <;> simp at h
      rename_i hwk; subst h
      have hgc : g.cancelled = true := hi.woke_cancelled i g hg (by rw [hwk]; simp)
      split
      · exact ⟨by simp [expectStep, finishWatcher_length, hl], by
          rw [isStarted_finishWatcher]; simpa [expectStep] using hs⟩
      · rename_i hguard
        have hcur : s.gens.length = i + 1 := by simpa [Cfg.std] using hguard
        have hcc : curCancelled s = true := by
          have : s.gens.length - 1 = i := by omega
          simp [curCancelled, this, hg, hgc]
        refine ⟨by simp [expectStep, finishWatcher_length, stopBody_length, hl], ?_⟩
        rw [isStarted_finishWatcher]
        rw [isStarted_std, hcc] at hs
        simp only [expectStep]
        rw [← hs]
        simp [isStarted, stopBody_started]
    · cases h
  case loopExit i =>
    split at h
    · rename_i g hg
      split at h <;> simp at h
      subst h
      exact ⟨by simp [expectStep, hl], (isStarted_set_keep _ s i g _ _ hg (by rfl)).trans (by simpa [expectStep] using hs)⟩
    · cases h
  case workerExit i =>
    split at h
    · rename_i g hg
      split at h <;> simp at h
      subst h
      exact ⟨by simp [expectStep, hl], (isStarted_set_keep _ s i g _ _ hg (by rfl)).trans (by simpa [expectStep] using hs)⟩
    · cases h
  case jobSpawn i =>
    split at h
    · rename_i g hg
      split at h <;> simp at h
      subst h
      exact ⟨by simp [expectStep, hl], (isStarted_set_keep _ s i g _ _ hg (by rfl)).trans (by simpa [expectStep] using hs)⟩
    · cases h
  case jobExit i =>
    split at h
    · rename_i g hg
      split at h <;> simp at h
      subst h
      exact ⟨by simp [expectStep, hl], (isStarted_set_keep _ s i g _ _ hg (by rfl)).trans (by simpa [expectStep] using hs)⟩
    · cases h

theorem latest_run (n : Nat) : ∀ (as : List Act) (s s' : St) (p : Nat × Bool), Inv s →
    s.gens.length = p.1 → isStarted (Cfg.std n) s = p.2 → run (Cfg.std n) s as = some s' →
    s'.gens.length = (as.foldl expectStep p).1 ∧ isStarted (Cfg.std n) s' = (as.foldl expectStep p).2 := by
  intro as
  induction as with
  | nil => intro s s' p _ hl hs h; simp [run] at h; subst h; exact ⟨hl, hs⟩
  | cons a as ih =>
    intro s s' p hi hl hs h
    simp only [run] at h
    cases hst : step (Cfg.std n) s a with
    | none => simp [hst] at h
    | some s1 =>
      simp [hst] at h
      obtain ⟨hl1, hs1⟩ := latest_step n p hi hl hs hst
      exact ih s1 s' (expectStep p a) (inv_step _ hi hst) hl1 hs1 h

/-! ## quiescence of the watchers -/

theorem quiet_started {s : St} (hi : Inv s) (hq : Quiet s) (hst : s.started = true) :
    curCancelled s = false := by
  have hne := hi.started_has hst
  have hpos : 0 < s.gens.length := List.length_pos_iff.mpr hne
  have hlt : s.gens.length - 1 < s.gens.length := by omega
  obtain ⟨g, hg⟩ : ∃ g, s.gens[s.gens.length - 1]? = some g := ⟨_, List.getElem?_eq_getElem hlt⟩
  have hmem : g ∈ s.gens := List.mem_iff_getElem?.mpr ⟨_, hg⟩
  obtain ⟨q1, q2⟩ := hq g hmem
  have hnd := hi.cur_watching g hg hst
  simp only [curCancelled, hg]
  cases hc : g.cancelled with
  | false => rfl
  | true =>
    exfalso
    cases hw : g.watcher with
    | waiting => exact q2 ⟨hw, hc⟩
    | woke => exact q1 hw
    | done => exact hnd hw

theorem quiet_iff (cfg : Cfg) (s : St) :
    Quiet s ↔ ∀ i, step cfg s (.watcherWake i) = none ∧ step cfg s (.watcherStop i) = none := by
  constructor
  · intro hq i
    simp only [step]
    cases hg : s.gens[i]? with
    | none => simp
    | some g =>
      obtain ⟨q1, q2⟩ := hq g (List.mem_iff_getElem?.mpr ⟨i, hg⟩)
      simp only
      constructor
      · rw [if_neg]; intro h; exact q2 ⟨h.2, h.1⟩
      · rw [if_neg q1]
  · intro h g hg
    obtain ⟨i, hi⟩ := List.mem_iff_getElem?.mp hg
    obtain ⟨h1, h2⟩ := h i
    simp only [step, hi] at h1 h2
    constructor
    · intro hw; simp [hw] at h2
    · intro hw; simp [hw.1, hw.2] at h1

/-! ## cancel ≃ Stop: lock-step simulation -/

/-- equal, or equal up to the `started` flag while the current context is cancelled (the watcher has not
    reacted yet) -/
def Sim (a b : St) : Prop := a = b ∨ (b = clr a ∧ curCancelled a = true)

theorem finishWatcher_clr (s : St) (i : Nat) : finishWatcher (clr s) i = clr (finishWatcher s i) := by
  simp only [finishWatcher, clr]
  split <;> rfl

theorem stopBody_clr (s : St) : stopBody (clr s) = clr s := by simp [stopBody, clr]

theorem sim_isStarted (n : Nat) {a b : St} (h : Sim a b) : isStarted (Cfg.std n) a = isStarted (Cfg.std n) b := by
  rcases h with rfl | ⟨rfl, hc⟩
  · rfl
  · simp [isStarted_std, hc, clr]

theorem sim_step (n : Nat) {a b : St} (x : Act) (h : Sim a b) :
    (step (Cfg.std n) a x = none ∧ step (Cfg.std n) b x = none) ∨
    ∃ a' b', step (Cfg.std n) a x = some a' ∧ step (Cfg.std n) b x = some b' ∧ Sim a' b' := by
  rcases h with rfl | ⟨rfl, hc⟩
  · cases hs : step (Cfg.std n) a x with
    | none => exact Or.inl ⟨rfl, rfl⟩
    | some a' => exact Or.inr ⟨a', a', rfl, rfl, Or.inl rfl⟩
  · have hgens : (clr a).gens = a.gens := rfl
    have hwg : (clr a).wg = a.wg := rfl
    cases x <;> simp only [step, hgens, hwg]
    case start =>
      refine Or.inr ⟨_, _, rfl, rfl, Or.inl ?_⟩
      rw [startBody_new _ a rfl (Or.inr hc), startBody_new _ (clr a) rfl (Or.inl rfl),
        stopBody_eq_clr a hc, stopBody_clr]
      rfl
    case stop =>
      refine Or.inr ⟨_, _, rfl, rfl, Or.inl ?_⟩
      rw [stopBody_eq_clr a hc, stopBody_clr]
    case cancel i =>
      cases hg : a.gens[i]? with
      | none => exact Or.inl ⟨rfl, rfl⟩
      | some g =>
        refine Or.inr ⟨_, _, rfl, rfl, Or.inr ⟨rfl, ?_⟩⟩
        rw [curCancelled_set_cancel a i g a.wg a.started hg, hc]; simp
    case watcherWake i =>
      cases hg : a.gens[i]? with
      | none => exact Or.inl ⟨rfl, rfl⟩
      | some g =>
        simp only
        split
        · refine Or.inr ⟨_, _, rfl, rfl, Or.inr ⟨rfl, ?_⟩⟩
          exact (curCancelled_set_keep a i g _ _ _ hg (by rfl)).trans hc
        · exact Or.inl ⟨rfl, rfl⟩
    case watcherStop i =>
      cases hg : a.gens[i]? with
      | none => exact Or.inl ⟨rfl, rfl⟩
      | some g =>
        simp only
        split
        · split
          · refine Or.inr ⟨_, _, rfl, rfl, Or.inr ⟨finishWatcher_clr a i, ?_⟩⟩
            rw [curCancelled_finishWatcher, hc]
          · refine Or.inr ⟨_, _, rfl, rfl, Or.inl ?_⟩
            rw [stopBody_eq_clr a hc, stopBody_clr]
        · exact Or.inl ⟨rfl, rfl⟩
    case loopExit i =>
      cases hg : a.gens[i]? with
      | none => exact Or.inl ⟨rfl, rfl⟩
      | some g =>
        simp only
        split
        · refine Or.inr ⟨_, _, rfl, rfl, Or.inr ⟨rfl, ?_⟩⟩
          exact (curCancelled_set_keep a i g _ _ _ hg (by rfl)).trans hc
        · exact Or.inl ⟨rfl, rfl⟩
    case workerExit i =>
      cases hg : a.gens[i]? with
      | none => exact Or.inl ⟨rfl, rfl⟩
      | some g =>
        simp only
        split
        · refine Or.inr ⟨_, _, rfl, rfl, Or.inr ⟨rfl, ?_⟩⟩
          exact (curCancelled_set_keep a i g _ _ _ hg (by rfl)).trans hc
        · exact Or.inl ⟨rfl, rfl⟩
    case jobSpawn i =>
      cases hg : a.gens[i]? with
      | none => exact Or.inl ⟨rfl, rfl⟩
      | some g =>
        simp only
        split
        · refine Or.inr ⟨_, _, rfl, rfl, Or.inr ⟨rfl, ?_⟩⟩
          exact (curCancelled_set_keep a i g _ _ _ hg (by rfl)).trans hc
        · exact Or.inl ⟨rfl, rfl⟩
    case jobExit i =>
      cases hg : a.gens[i]? with
      | none => exact Or.inl ⟨rfl, rfl⟩
      | some g =>
        simp only
        split
        · refine Or.inr ⟨_, _, rfl, rfl, Or.inr ⟨rfl, ?_⟩⟩
          exact (curCancelled_set_keep a i g _ _ _ hg (by rfl)).trans hc
        · exact Or.inl ⟨rfl, rfl⟩

theorem sim_run (n : Nat) : ∀ (as : List Act) (a b : St), Sim a b →
    (run (Cfg.std n) a as = none ∧ run (Cfg.std n) b as = none) ∨
    ∃ a' b', run (Cfg.std n) a as = some a' ∧ run (Cfg.std n) b as = some b' ∧ Sim a' b' := by
  intro as
  induction as with
  | nil => intro a b h; exact Or.inr ⟨a, b, rfl, rfl, h⟩
  | cons x as ih =>
    intro a b h
    simp only [run]
    rcases sim_step n x h with ⟨h1, h2⟩ | ⟨a1, b1, h1, h2, hs⟩
    · left; simp [h1, h2]
    · rw [h1, h2]; simpa using ih a1 b1 hs

/-! ## restart: a fresh current generation survives every internal step -/

/-- started, and the current generation is as `Start` created it (context live, watcher blocked, loop alive) -/
def Fresh (s : St) : Prop :=
  s.started = true ∧ ∃ g, s.gens[s.gens.length - 1]? = some g ∧ g.cancelled = false ∧
    g.watcher = .waiting ∧ g.loop = true

theorem fresh_isStarted (cfg : Cfg) {s : St} (h : Fresh s) : isStarted cfg s = true := by
  obtain ⟨hst, g, hg, hc, _, _⟩ := h
  simp [isStarted, hst, curCancelled, hg, hc]

theorem fresh_startBody_new (cfg : Cfg) (l : List Gen) (w : Nat) :
    Fresh { started := true, gens := l ++ [newGen cfg], wg := w } := by
  refine ⟨rfl, newGen cfg, by simp, rfl, rfl, rfl⟩

theorem fresh_set_ne {s : St} (hf : Fresh s) (i : Nat) (g' : Gen) (w : Nat) (hne : i ≠ s.gens.length - 1) :
    Fresh { s with gens := s.gens.set i g', wg := w } := by
  obtain ⟨hst, g, hg, hc, hw, hl⟩ := hf
  refine ⟨hst, g, ?_, hc, hw, hl⟩
  simp only [List.length_set]
  rw [List.getElem?_set_ne hne]; exact hg

theorem fresh_set_cur {s : St} (hf : Fresh s) (g' : Gen) (w : Nat)
    (hc : g'.cancelled = false) (hw : g'.watcher = .waiting) (hl : g'.loop = true) :
    Fresh { s with gens := s.gens.set (s.gens.length - 1) g', wg := w } := by
  obtain ⟨hst, g, hg, _, _, _⟩ := hf
  refine ⟨hst, g', ?_, hc, hw, hl⟩
  simp only [List.length_set]
  exact List.getElem?_set_self (lt_of_getElem? hg)

theorem fresh_step (cfg : Cfg) (hgd : cfg.guarded = true) {s s' : St} {a : Act} (hf : Fresh s)
    (ha : a.isInternal = true) (h : step cfg s a = some s') : Fresh s' := by
  have hf' := hf
  obtain ⟨hst, gc, hgc, hcc, hwc, hlc⟩ := hf'
  cases a <;> simp only [Act.isInternal] at ha <;> simp only [step] at h
  case start => cases ha
  case stop => cases ha
  case cancel => cases ha
  case watcherWake i =>
    split at h
    · rename_i g hg
      split at h <;> simp at h
      rename_i hcond; subst h
      by_cases hi : i = s.gens.length - 1
      · subst hi; rw [hg] at hgc; cases hgc; rw [hcc] at hcond; cases hcond.1
      · exact fresh_set_ne hf i _ _ hi
    · cases h
  case watcherStop i =>
    split at h
    · rename_i g hg
      split at h <;> simp at h
      rename_i hcond; subst h
      by_cases hi : i = s.gens.length - 1
      · subst hi; rw [hg] at hgc; cases hgc; rw [hwc] at hcond; cases hcond
      · have hlt := lt_of_getElem? hg
        have hne : ¬ s.gens.length = i + 1 := by omega
        rw [if_pos ⟨hgd, hne⟩]
        simp only [finishWatcher, hg]
        exact fresh_set_ne hf i _ _ hi
    · cases h
  case loopExit i =>
    split at h
    · rename_i g hg
      split at h <;> simp at h
      rename_i hcond; subst h
      by_cases hi : i = s.gens.length - 1
      · subst hi; rw [hg] at hgc; cases hgc; rw [hcc] at hcond; cases hcond.2
      · exact fresh_set_ne hf i _ _ hi
    · cases h
  case workerExit i =>
    split at h
    · rename_i g hg
      split at h <;> simp at h
      rename_i hcond; subst h
      by_cases hi : i = s.gens.length - 1
      · subst hi; rw [hg] at hgc; cases hgc; rw [hcc] at hcond; cases hcond.2
      · exact fresh_set_ne hf i _ _ hi
    · cases h
  case jobSpawn i =>
    split at h
    · rename_i g hg
      split at h <;> simp at h
      subst h
      by_cases hi : i = s.gens.length - 1
      · subst hi; rw [hg] at hgc; cases hgc
        exact fresh_set_cur hf _ _ hcc hwc hlc
      · exact fresh_set_ne hf i _ _ hi
    · cases h
  case jobExit i =>
    split at h
    · rename_i g hg
      split at h <;> simp at h
      subst h
      by_cases hi : i = s.gens.length - 1
      · subst hi; rw [hg] at hgc; cases hgc
        exact fresh_set_cur hf _ _ hcc hwc hlc
      · exact fresh_set_ne hf i _ _ hi
    · cases h

theorem fresh_run (cfg : Cfg) (hgd : cfg.guarded = true) : ∀ (as : List Act) (s s' : St), Fresh s →
    (∀ a ∈ as, a.isInternal = true) → run cfg s as = some s' → Fresh s' := by
  intro as
  induction as with
  | nil => intro s s' hf _ h; simp [run] at h; subst h; exact hf
  | cons a as ih =>
    intro s s' hf hint h
    simp only [run] at h
    cases hst : step cfg s a with
    | none => simp [hst] at h
    | some s1 =>
      simp [hst] at h
      exact ih s1 s' (fresh_step cfg hgd hf (hint a (by simp)) hst) (fun b hb => hint b (by simp [hb])) h

/-! ## the counter at zero -/

theorem dead_of_wg_zero {s : St} (hi : Inv s) (h0 : s.wg = 0) :
    ∀ (i : Nat) (g : Gen), s.gens[i]? = some g →
      g.watcher = .done ∧ g.loop = false ∧ g.workers = 0 ∧ g.jobs = 0 := by
  intro i g hg
  have hl : liveL s.gens = 0 := by have := hi.wg_live; simp only [live] at this; omega
  have := liveL_eq_zero s.gens hl g (List.mem_iff_getElem?.mpr ⟨i, hg⟩)
  simp only [Gen.live] at this
  refine ⟨?_, ?_, by omega, by omega⟩
  · cases hw : g.watcher <;> simp [hw] at this ⊢
  · cases hlp : g.loop <;> simp [hlp] at this ⊢

theorem no_internal_of_wg_zero (cfg : Cfg) {s : St} (hi : Inv s) (h0 : s.wg = 0) (a : Act)
    (ha : a.isInternal = true) : step cfg s a = none := by
  have hat := dead_of_wg_zero hi h0
  cases a <;> simp only [Act.isInternal] at ha <;> first | (cases ha; done) | skip
  all_goals
    simp only [step]
    split
    · rename_i g hg
      obtain ⟨h1, h2, h3, h4⟩ := hat _ g hg
      simp [h1, h2, h3, h4]
    · rfl

theorem startBody_len_wg (cfg : Cfg) (s : St) :
    ((startBody cfg s).gens.length = s.gens.length ∧ (startBody cfg s).wg = s.wg) ∨
    (startBody cfg s).gens.length = s.gens.length + 1 := by
  by_cases hcnd : (cfg.prestop && s.started && curCancelled s) = true
  · right
    unfold startBody; rw [hcnd]
    simp [stopBody_started, stopBody_length]
  · have hc' : (cfg.prestop && s.started && curCancelled s) = false := by simpa using hcnd
    have e : startBody cfg s = if s.started = true then s else
        { started := true, gens := s.gens ++ [newGen cfg], wg := s.wg + 2 + cfg.workers } := by
      unfold startBody; rw [hc']; rfl
    by_cases hst : s.started = true
    · left; rw [e, if_pos hst]; exact ⟨rfl, rfl⟩
    · right; rw [e, if_neg hst]; simp

theorem step_length_mono (cfg : Cfg) {s s' : St} {a : Act} (h : step cfg s a = some s') :
    s.gens.length ≤ s'.gens.length := by
  cases a <;> simp only [step] at h
  case start => cases h; rcases startBody_len_wg cfg s with h | h <;> omega
  case stop => cases h; rw [stopBody_length]; exact Nat.le_refl _
  case watcherStop i =>
    split at h
    · split at h <;> simp at h
      subst h
      rw [finishWatcher_length]; split <;> simp [stopBody_length]
    · cases h
  all_goals
    split at h
    · first
        | (split at h <;> simp at h; subst h; simp)
        | (simp at h; subst h; simp)
    · cases h

/-- the counter leaves zero only through a `Start` that takes effect -/
theorem fresh_only_by_start (cfg : Cfg) {s s' : St} {a : Act} (hi : Inv s) (h : step cfg s a = some s')
    (h0 : s.wg = 0) (h1 : s'.wg ≠ 0) : s.gens.length < s'.gens.length := by
  by_cases ha : a.isInternal = true
  · rw [no_internal_of_wg_zero cfg hi h0 a ha] at h; cases h
  · cases a <;> simp only [Act.isInternal] at ha <;> simp only [step] at h
    case start =>
      cases h
      rcases startBody_len_wg cfg s with ⟨_, hw⟩ | hl
      · rw [hw] at h1; exact absurd h0 h1
      · omega
    case stop => cases h; rw [stopBody_wg] at h1; exact absurd h0 h1
    case cancel i =>
      split at h <;> simp at h
      subst h; exact absurd h0 h1
    all_goals exact absurd trivial ha

/-! ## waiters -/

theorem wrun_sched (cfg : Cfg) (old : Bool) : ∀ (as : List WAct) (w w' : WSt),
    wrun cfg old w as = some w' → run cfg w.sched (schedActs as) = some w'.sched := by
  intro as
  induction as with
  | nil => intro w w' h; simp [wrun] at h; subst h; rfl
  | cons a as ih =>
    intro w w' h
    simp only [wrun] at h
    cases hst : wstep cfg old w a with
    | none => simp [hst] at h
    | some w1 =>
      simp [hst] at h
      have := ih w1 w' h
      cases a with
      | sched x =>
        simp only [wstep] at hst
        cases hx : step cfg w.sched x with
        | none => simp [hx] at hst
        | some s1 =>
          simp [hx] at hst
          subst hst
          simp only [schedActs, run, hx, Option.bind_some]
          exact this
      | waitCall => simp only [wstep] at hst; cases hst; exact this
      | waitWake k =>
        simp only [wstep] at hst
        split at hst
        · split at hst <;> simp at hst
          subst hst; exact this
        · cases hst
      | waitReturn k =>
        simp only [wstep] at hst
        split at hst
        · cases hst; exact this
        · cases hst
      | waitExpire k =>
        simp only [wstep] at hst
        split at hst
        · split at hst <;> cases hst <;> exact this
        · cases hst

theorem wreach_sched (cfg : Cfg) (old : Bool) (w : WSt) (h : WReach cfg old w) : Reach cfg w.sched := by
  obtain ⟨as, h⟩ := h
  exact ⟨schedActs as, wrun_sched cfg old as winit w h⟩

/-- what is known about every blocked caller -/
structure WInv (w : WSt) : Prop where
  sched : Inv w.sched
  blocked : ∀ (k e g0 : Nat), w.waiters[k]? = some (.blocked e g0) →
    e ≤ w.epoch ∧ g0 ≤ w.sched.gens.length ∧ (w.sched.gens.length = g0 → w.epoch = e)

theorem winv_init : WInv winit := ⟨inv_init, by simp [winit]⟩

theorem waiters_set_blocked {l : List WaitPc} {k j e g0 : Nat} {x : WaitPc}
    (hx : ∀ e g0, x ≠ .blocked e g0) (h : (l.set k x)[j]? = some (.blocked e g0)) :
    l[j]? = some (.blocked e g0) := by
  rw [List.getElem?_set] at h
  by_cases hkj : k = j
  · subst hkj
    simp only [if_true] at h
    split at h
    · exact absurd (Option.some.inj h) (hx e g0)
    · cases h
  · simpa [hkj] using h

theorem winv_step (cfg : Cfg) (old : Bool) {w w' : WSt} {a : WAct} (hi : WInv w)
    (h : wstep cfg old w a = some w') : WInv w' := by
  cases a <;> simp only [wstep] at h
  case sched x =>
    cases hx : step cfg w.sched x with
    | none => simp [hx] at h
    | some s1 =>
      simp [hx] at h
      subst h
      refine ⟨inv_step cfg hi.sched hx, ?_⟩
      intro k e g0 hk
      obtain ⟨h1, h2, h3⟩ := hi.blocked k e g0 hk
      have hmono := step_length_mono cfg hx
      refine ⟨by simp only; split <;> omega, by simp only; omega, ?_⟩
      intro hlen
      simp only at hlen
      have hl : w.sched.gens.length = g0 := by omega
      have hnf : ¬ (w.sched.wg = 0 ∧ ¬ s1.wg = 0) := by
        intro hf
        have := fresh_only_by_start cfg hi.sched hx hf.1 hf.2
        omega
      rw [if_neg hnf]
      exact h3 hl
  case waitCall =>
    cases h
    refine ⟨hi.sched, ?_⟩
    intro k e g0 hk
    simp only at hk
    by_cases hkl : k < w.waiters.length
    · rw [List.getElem?_append_left hkl] at hk
      exact hi.blocked k e g0 hk
    · rw [List.getElem?_append_right (by omega)] at hk
      have hk0 : k - w.waiters.length = 0 := by
        rcases Nat.eq_zero_or_pos (k - w.waiters.length) with h | h
        · exact h
        · rw [List.getElem?_eq_none (by simp; omega)] at hk; cases hk
      rw [hk0] at hk
      simp only [List.getElem?_cons_zero, Option.some.injEq] at hk
      split at hk
      · cases hk
      · cases hk
        exact ⟨Nat.le_refl _, Nat.le_refl _, fun _ => rfl⟩
  case waitWake k =>
    split at h
    · split at h <;> simp at h
      subst h
      exact ⟨hi.sched, fun j e g0 hj => hi.blocked j e g0 (waiters_set_blocked (by intro _ _ hh; cases hh) hj)⟩
    · cases h
  case waitReturn k =>
    split at h
    · cases h
      exact ⟨hi.sched, fun j e g0 hj => hi.blocked j e g0 (waiters_set_blocked (by intro _ _ hh; cases hh) hj)⟩
    · cases h
  case waitExpire k =>
    split at h
    · split at h
      · cases h; exact hi
      · cases h
        exact ⟨hi.sched, fun j e g0 hj => hi.blocked j e g0 (waiters_set_blocked (by intro _ _ hh; cases hh) hj)⟩
    · cases h

theorem winv_run (cfg : Cfg) (old : Bool) : ∀ (as : List WAct) (w w' : WSt), WInv w →
    wrun cfg old w as = some w' → WInv w' := by
  intro as
  induction as with
  | nil => intro w w' hi h; simp [wrun] at h; subst h; exact hi
  | cons a as ih =>
    intro w w' hi h
    simp only [wrun] at h
    cases hst : wstep cfg old w a with
    | none => simp [hst] at h
    | some w1 =>
      simp [hst] at h
      exact ih w1 w' (winv_step cfg old hi hst) h

theorem winv_reach (cfg : Cfg) (old : Bool) (w : WSt) (h : WReach cfg old w) : WInv w := by
  obtain ⟨as, h⟩ := h
  exact winv_run cfg old as winit w winv_init h

/-- a closed `done` channel stays closed, whatever happens next (including further Starts) -/
theorem chanClosed_step (cfg : Cfg) (old : Bool) {w w' : WSt} {a : WAct} (e : Nat)
    (hc : chanClosed w e = true) (h : wstep cfg old w a = some w') : chanClosed w' e = true := by
  cases a <;> simp only [wstep] at h
  case sched x =>
    cases hx : step cfg w.sched x with
    | none => simp [hx] at h
    | some s1 =>
      simp [hx] at h
      subst h
      simp only [chanClosed, Bool.or_eq_true, decide_eq_true_eq, Bool.and_eq_true, beq_iff_eq] at hc ⊢
      by_cases hf : (w.sched.wg = 0 ∧ ¬ s1.wg = 0)
      · simp only [hf, not_false_eq_true, and_self, if_true]
        rcases hc with hc | hc
        · left; omega
        · left; omega
      · simp only [hf, if_false]
        rcases hc with hc | ⟨hc1, hc2⟩
        · left; exact hc
        · right
          refine ⟨hc1, ?_⟩
          by_cases h0 : s1.wg = 0
          · exact h0
          · exact absurd ⟨hc2, h0⟩ hf
  case waitCall => cases h; exact hc
  case waitWake k =>
    split at h
    · split at h <;> simp at h
      subst h; exact hc
    · cases h
  case waitReturn k =>
    split at h
    · cases h; exact hc
    · cases h
  case waitExpire k =>
    split at h
    · split at h <;> cases h <;> exact hc
    · cases h

theorem chanClosed_run (cfg : Cfg) (old : Bool) (e : Nat) : ∀ (as : List WAct) (w w' : WSt),
    chanClosed w e = true → wrun cfg old w as = some w' → chanClosed w' e = true := by
  intro as
  induction as with
  | nil => intro w w' hc h; simp [wrun] at h; subst h; exact hc
  | cons a as ih =>
    intro w w' hc h
    simp only [wrun] at h
    cases hst : wstep cfg old w a with
    | none => simp [hst] at h
    | some w1 =>
      simp [hst] at h
      exact ih w1 w' (chanClosed_step cfg old e hc hst) h

theorem not_broken_step (cfg : Cfg) {w w' : WSt} {a : WAct} (hb : w.broken = false)
    (h : wstep cfg false w a = some w') : w'.broken = false := by
  cases a <;> simp only [wstep] at h
  case sched x =>
    cases hx : step cfg w.sched x with
    | none => simp [hx] at h
    | some s1 => simp [hx] at h; subst h; simp [hb]
  case waitCall => cases h; exact hb
  case waitWake k =>
    split at h
    · split at h <;> simp at h
      subst h; exact hb
    · cases h
  case waitReturn k =>
    split at h
    · cases h; exact hb
    · cases h
  case waitExpire k =>
    split at h
    · simp at h; subst h; exact hb
    · cases h

theorem not_broken_run (cfg : Cfg) : ∀ (as : List WAct) (w w' : WSt), w.broken = false →
    wrun cfg false w as = some w' → w'.broken = false := by
  intro as
  induction as with
  | nil => intro w w' hb h; simp [wrun] at h; subst h; exact hb
  | cons a as ih =>
    intro w w' hb h
    simp only [wrun] at h
    cases hst : wstep cfg false w a with
    | none => simp [hst] at h
    | some w1 =>
      simp [hst] at h
      exact ih w1 w' (not_broken_step cfg hb hst) h

end Lifecycle
