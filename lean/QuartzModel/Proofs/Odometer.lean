import QuartzModel.Odometer
/-!
# Odometer theory (promoted from the design spikes Odo/Odo2/Fuel)

`findForward_spec`: for levels meeting the four-line contract `LvlOK`, the Go-shaped search returns
the lexicographically least all-valid configuration strictly above the start, or `exhausted` iff
none exists. `loop_fuel`: with digit bounds and a measure, the loop never runs out of fuel.
-/
namespace Odo

variable (L : Nat → Lvl)

@[simp] theorem set_same (c : Cfg) (k v : Nat) : set c k v k = v := by simp [set]
theorem set_ne (c : Cfg) (k v j : Nat) (h : j ≠ k) : set c k v j = c j := by simp [set, h]

/-- agreement above level k -/
def AgreeAbove (n k : Nat) (c c' : Cfg) : Prop := ∀ j, k < j → j < n → c j = c' j

structure LvlOK (n k : Nat) (l : Lvl) : Prop where
  ext_valid : ∀ c c' v, AgreeAbove n k c c' → (l.valid c v ↔ l.valid c' v)
  next_ok : ∀ c v, (l.next c v).2 = false →
      l.valid c (l.next c v).1 ∧ v < (l.next c v).1 ∧ ∀ u, l.valid c u → v < u → (l.next c v).1 ≤ u
  next_ovf : ∀ c v, (l.next c v).2 = true → ∀ u, l.valid c u → u ≤ v
  rst_ok : ∀ c, (∃ u, l.valid c u) → l.valid c (l.rst c) ∧ ∀ u, l.valid c u → l.rst c ≤ u

/-- lexicographic order on the lowest n levels, most significant = n-1 -/
def Lt (n : Nat) (a b : Cfg) : Prop := ∃ k, k < n ∧ a k < b k ∧ ∀ j, k < j → j < n → a j = b j
def Le (n : Nat) (a b : Cfg) : Prop := Lt n a b ∨ ∀ j, j < n → a j = b j

def AllValid (n : Nat) (c : Cfg) : Prop := ∀ k, k < n → (L k).valid c (c k)

theorem resetFrom_above (k : Nat) (c : Cfg) : ∀ j, k ≤ j → resetFrom L k c j = c j := by
  induction k generalizing c with
  | zero => intro j _; rfl
  | succ k ih =>
    intro j hj
    simp only [resetFrom]
    rw [ih _ j (by omega), set_ne _ _ _ _ (by omega)]

/-- Lemma A: after resetFrom k, the config is ≤ every config that agrees at levels ≥ k and is
    valid on all levels < k. -/
theorem resetFrom_least (n : Nat) (hL : ∀ k, LvlOK n k (L k)) (k : Nat) (c u : Cfg)
    (hag : ∀ j, k ≤ j → j < n → u j = c j)
    (hv : ∀ i, i < k → (L i).valid u (u i)) :
    Le k (resetFrom L k c) u := by
  induction k generalizing c with
  | zero => right; intro j hj; omega
  | succ k ih =>
    simp only [resetFrom]
    -- level k: context of u and c agree above k
    have hagk : AgreeAbove n k u c := fun j hj hjn => hag j (by omega) hjn
    have hvk : (L k).valid c (u k) := ((hL k).ext_valid u c (u k) hagk).mp (hv k (by omega))
    have hr := (hL k).rst_ok c ⟨u k, hvk⟩
    have hle : (L k).rst c ≤ u k := hr.2 _ hvk
    let c' := set c k ((L k).rst c)
    by_cases heq : (L k).rst c = u k
    · -- equal at level k: recurse
      have hag' : ∀ j, k ≤ j → j < n → u j = c' j := by
        intro j hj hjn
        by_cases hjk : j = k
        · subst hjk; simp [c', heq]
        · simp only [c']; rw [set_ne _ _ _ _ hjk]; exact hag j (by omega) hjn
      have := ih c' hag' (fun i hi => hv i (by omega))
      rcases this with ⟨i, hi, hlt, hab⟩ | hall
      · left
        refine ⟨i, by omega, hlt, ?_⟩
        intro j hij hj
        by_cases hjk : j = k
        · subst hjk
          rw [resetFrom_above L _ c' _ (Nat.le_refl _)]; simp [c', heq]
        · exact hab j hij (by omega)
      · right
        intro j hj
        by_cases hjk : j = k
        · subst hjk
          rw [resetFrom_above L _ c' _ (Nat.le_refl _)]; simp [c', heq]
        · exact hall j (by omega)
    · left
      refine ⟨k, by omega, ?_, ?_⟩
      · rw [resetFrom_above L _ c' _ (Nat.le_refl _)]; simp only [c', set_same]; omega
      · intro j hkj hj; omega


/-- U is strictly greater than c, first differing at some level ≥ k -/
def LtAbove (n k : Nat) (c u : Cfg) : Prop :=
  ∃ i, k ≤ i ∧ i < n ∧ c i < u i ∧ ∀ j, i < j → j < n → c j = u j

/-- every all-valid successor of p is strictly above c on levels ≥ k -/
def Inv (n k : Nat) (p c : Cfg) : Prop :=
  ∀ u, AllValid L n u → Lt n p u → LtAbove n k c u

def LB (n : Nat) (p c : Cfg) : Prop := ∀ u, AllValid L n u → Lt n p u → Le n c u

theorem Le_of_resetFrom (n k : Nat) (hk : k < n) (c' u : Cfg)
    (hag : ∀ j, k ≤ j → j < n → u j = c' j)
    (h : Le k (resetFrom L k c') u) : Le n (resetFrom L k c') u := by
  rcases h with ⟨i, hi, hlt, hab⟩ | hall
  · left
    refine ⟨i, by omega, hlt, ?_⟩
    intro j hij hj
    by_cases hjk : j < k
    · exact hab j hij hjk
    · rw [resetFrom_above L k c' j (by omega)]; exact (hag j (by omega) hj).symm
  · right
    intro j hj
    by_cases hjk : j < k
    · exact hall j hjk
    · rw [resetFrom_above L k c' j (by omega)]; exact (hag j (by omega) hj).symm

/-- Lemma B: the carry chain. -/
theorem overflowFrom_spec (n : Nat) (hL : ∀ k, LvlOK n k (L k)) (p : Cfg) (k : Nat) (c : Cfg)
    (hinv : Inv L n k p c) :
    ((overflowFrom L n k c).2 = false → LB L n p (overflowFrom L n k c).1) ∧
    ((overflowFrom L n k c).2 = true → ∀ u, AllValid L n u → Lt n p u → False) := by
  induction hm : n - k generalizing k c with
  | zero =>
    have hk : k ≥ n := by omega
    unfold overflowFrom
    simp only [hk, if_true]
    refine ⟨(fun h => by cases h), ?_⟩
    intro _ u hu hpu
    obtain ⟨i, h1, h2, _⟩ := hinv u hu hpu
    omega
  | succ m ih =>
    have hk : ¬ k ≥ n := by omega
    unfold overflowFrom
    simp only [hk, if_false]
    by_cases hov : ((L k).next c (c k)).2 = true
    · simp only [hov, if_true]
      apply ih
      · -- Inv at k+1
        intro u hu hpu
        obtain ⟨i, h1, h2, h3, h4⟩ := hinv u hu hpu
        by_cases hik : i = k
        · subst hik
          have hag : AgreeAbove n i u c := fun j hj hjn => (h4 j hj hjn).symm
          have hv : (L i).valid c (u i) := ((hL i).ext_valid u c (u i) hag).mp (hu i h2)
          have := (hL i).next_ovf c (c i) hov (u i) hv
          omega
        · refine ⟨i, by omega, h2, ?_, ?_⟩
          · rw [set_ne _ _ _ _ hik]; exact h3
          · intro j hj hjn; rw [set_ne _ _ _ _ (by omega)]; exact h4 j hj hjn
      · omega
    · have hov' : ((L k).next c (c k)).2 = false := by
        cases h : ((L k).next c (c k)).2 <;> simp_all
      simp only [hov', Bool.false_eq_true, if_false]
      refine ⟨?_, (fun h => by cases h)⟩
      intro _ u hu hpu
      obtain ⟨hval, hgt, hleast⟩ := (hL k).next_ok c (c k) hov'
      obtain ⟨i, h1, h2, h3, h4⟩ := hinv u hu hpu
      have hkn : k < n := by omega
      by_cases hik : i = k
      · subst hik
        have hag : AgreeAbove n i u c := fun j hj hjn => (h4 j hj hjn).symm
        have hv : (L i).valid c (u i) := ((hL i).ext_valid u c (u i) hag).mp (hu i h2)
        have hle := hleast (u i) hv h3
        by_cases heq : ((L i).next c (c i)).1 = u i
        · apply Le_of_resetFrom L n i hkn
          · intro j hj hjn
            by_cases hji : j = i
            · subst hji; simp [heq]
            · rw [set_ne _ _ _ _ hji]; exact (h4 j (by omega) hjn).symm
          · apply resetFrom_least L n hL
            · intro j hj hjn
              by_cases hji : j = i
              · subst hji; simp [heq]
              · rw [set_ne _ _ _ _ hji]; exact (h4 j (by omega) hjn).symm
            · intro i' hi'; exact hu i' (by omega)
        · left
          refine ⟨i, h2, ?_, ?_⟩
          · rw [resetFrom_above L _ _ _ (Nat.le_refl _)]; simp only [set_same]; omega
          · intro j hj hjn
            rw [resetFrom_above L _ _ _ (by omega), set_ne _ _ _ _ (by omega)]; exact h4 j hj hjn
      · left
        refine ⟨i, h2, ?_, ?_⟩
        · rw [resetFrom_above L _ _ _ (by omega), set_ne _ _ _ _ hik]; exact h3
        · intro j hj hjn
          rw [resetFrom_above L _ _ _ (by omega), set_ne _ _ _ _ (by omega)]; exact h4 j hj hjn




variable (D : ∀ k, LvlDec (L k))

theorem Inv_congr (n k : Nat) (p c d : Cfg) (h : ∀ j, k ≤ j → j < n → c j = d j)
    (hinv : Inv L n k p c) : Inv L n k p d := by
  intro u hu hpu
  obtain ⟨i, h1, h2, h3, h4⟩ := hinv u hu hpu
  refine ⟨i, h1, h2, ?_, ?_⟩
  · rw [← h i h1 h2]; exact h3
  · intro j hj hjn; rw [← h j (by omega) hjn]; exact h4 j hj hjn

theorem Lt_trans (n : Nat) (a b c : Cfg) (h1 : Lt n a b) (h2 : Lt n b c) : Lt n a c := by
  obtain ⟨i, hi, hlt, hag⟩ := h1
  obtain ⟨j, hj, hlt', hag'⟩ := h2
  by_cases hij : i < j
  · refine ⟨j, hj, ?_, ?_⟩
    · rw [hag j hij hj]; exact hlt'
    · intro k hk hkn; rw [hag k (by omega) hkn]; exact hag' k hk hkn
  · by_cases hji : j < i
    · refine ⟨i, hi, ?_, ?_⟩
      · rw [← hag' i hji hi]; exact hlt
      · intro k hk hkn; rw [hag k hk hkn]; exact hag' k (by omega) hkn
    · have : i = j := by omega
      subst this
      refine ⟨i, hi, by omega, ?_⟩
      intro k hk hkn; rw [hag k hk hkn]; exact hag' k hk hkn

theorem Lt_of_Lt_of_Le (n : Nat) (a b c : Cfg) (h1 : Lt n a b) (h2 : Le n b c) : Lt n a c := by
  rcases h2 with h2 | h2
  · exact Lt_trans n a b c h1 h2
  · obtain ⟨i, hi, hlt, hag⟩ := h1
    refine ⟨i, hi, by rw [← h2 i hi]; exact hlt, ?_⟩
    intro k hk hkn; rw [← h2 k hkn]; exact hag k hk hkn

theorem Lt_of_Le_of_Lt (n : Nat) (a b c : Cfg) (h1 : Le n a b) (h2 : Lt n b c) : Lt n a c := by
  rcases h1 with h1 | h1
  · exact Lt_trans n a b c h1 h2
  · obtain ⟨i, hi, hlt, hag⟩ := h2
    refine ⟨i, hi, by rw [h1 i hi]; exact hlt, ?_⟩
    intro k hk hkn; rw [h1 k hkn]; exact hag k hk hkn

/-- the carry chain strictly increases the configuration -/
theorem overflowFrom_lt (n : Nat) (hL : ∀ k, LvlOK n k (L k)) (k : Nat) (c : Cfg)
    (h : (overflowFrom L n k c).2 = false) : LtAbove n k c (overflowFrom L n k c).1 := by
  induction hm : n - k generalizing k c with
  | zero =>
    have hk : k ≥ n := by omega
    unfold overflowFrom at h
    simp [hk] at h
  | succ m ih =>
    have hk : ¬ k ≥ n := by omega
    unfold overflowFrom at h ⊢
    simp only [hk, if_false] at h ⊢
    by_cases hov : ((L k).next c (c k)).2 = true
    · simp only [hov, if_true] at h ⊢
      obtain ⟨i, h1, h2, h3, h4⟩ := ih (k+1) _ h (by omega)
      refine ⟨i, by omega, h2, ?_, ?_⟩
      · rw [set_ne _ _ _ _ (by omega)] at h3; exact h3
      · intro j hj hjn
        have := h4 j hj hjn
        rw [set_ne _ _ _ _ (by omega)] at this; exact this
    · have hov' : ((L k).next c (c k)).2 = false := by
        cases h' : ((L k).next c (c k)).2 <;> simp_all
      simp only [hov', Bool.false_eq_true, if_false]
      obtain ⟨_, hgt, _⟩ := (hL k).next_ok c (c k) hov'
      refine ⟨k, Nat.le_refl _, by omega, ?_, ?_⟩
      · rw [resetFrom_above L _ _ _ (Nat.le_refl _)]; simp only [set_same]; exact hgt
      · intro j hj hjn
        rw [resetFrom_above L _ _ _ (by omega), set_ne _ _ _ _ (by omega)]

theorem LtAbove_Lt (n k : Nat) (c u : Cfg) (h : LtAbove n k c u) : Lt n c u := by
  obtain ⟨i, _, h2, h3, h4⟩ := h
  exact ⟨i, h2, h3, h4⟩

theorem Inv_step (n : Nat) (hL : ∀ k, LvlOK n k (L k)) (p c : Cfg) (k w : Nat)
    (hinv : Inv L n k p c) (hov : ((L k).next c (c k)).2 = true) :
    Inv L n (k+1) p (set c k w) := by
  intro u hu hpu
  obtain ⟨i, h1, h2, h3, h4⟩ := hinv u hu hpu
  by_cases hik : i = k
  · subst hik
    have hag : AgreeAbove n i u c := fun j hj hjn => (h4 j hj hjn).symm
    have hv : (L i).valid c (u i) := ((hL i).ext_valid u c (u i) hag).mp (hu i h2)
    have := (hL i).next_ovf c (c i) hov (u i) hv
    omega
  · refine ⟨i, by omega, h2, ?_, ?_⟩
    · rw [set_ne _ _ _ _ hik]; exact h3
    · intro j hj hjn; rw [set_ne _ _ _ _ (by omega)]; exact h4 j hj hjn

/-- Lemma C: one validation pass. -/
theorem advFrom_spec (n : Nat) (hL : ∀ k, LvlOK n k (L k)) (p : Cfg) (m : Nat) (hm : m ≤ n)
    (c : Cfg) (hLB : LB L n p c) :
    (advFrom L D n m c = none → ∀ k, k < m → (L k).valid c (c k)) ∧
    (∀ c', advFrom L D n m c = some (c', false) → LB L n p c' ∧ Lt n c c') ∧
    (∀ c', advFrom L D n m c = some (c', true) → ∀ u, AllValid L n u → Lt n p u → False) := by
  induction m with
  | zero =>
    refine ⟨fun _ k hk => by omega, ?_, ?_⟩ <;> intro c' h <;> simp [advFrom] at h
  | succ m ih =>
    have ih := ih (by omega)
    unfold advFrom
    by_cases hv : (D m).isValid c (c m) = true
    · simp only [hv, if_true]
      refine ⟨?_, ih.2.1, ih.2.2⟩
      intro h k hk
      by_cases hkm : k = m
      · subst hkm; exact ((D k).ok c (c k)).mp hv
      · exact ih.1 h k (by omega)
    · simp only [hv]
      have hinvalid : ¬ (L m).valid c (c m) := fun h => hv (((D m).ok c (c m)).mpr h)
      -- Inv at level m
      have hinv : Inv L n m p c := by
        intro u hu hpu
        have hmn : m < n := by omega
        rcases hLB u hu hpu with ⟨i, hi, hlt, hag⟩ | hall
        · by_cases him : m ≤ i
          · exact ⟨i, him, hi, hlt, hag⟩
          · exfalso
            have hag' : AgreeAbove n m u c := fun j hj hjn => (hag j (by omega) hjn).symm
            have := ((hL m).ext_valid u c (u m) hag').mp (hu m hmn)
            rw [← hag m (by omega) hmn] at this
            exact hinvalid this
        · exfalso
          have hag' : AgreeAbove n m u c := fun j _ hjn => (hall j hjn).symm
          have := ((hL m).ext_valid u c (u m) hag').mp (hu m hmn)
          rw [← hall m hmn] at this
          exact hinvalid this
      -- relate to overflowFrom at level m
      have hspec := overflowFrom_spec L n hL p m c hinv
      have hlt := overflowFrom_lt L n hL m c
      have hmn : ¬ m ≥ n := by omega
      unfold overflowFrom at hspec hlt
      simp only [hmn, if_false] at hspec hlt
      by_cases hov : ((L m).next c (c m)).2 = true
      · simp only [hov, if_true] at hspec hlt ⊢
        -- overflow: extra reset below m does not matter
        have hagree : ∀ j, m + 1 ≤ j → j < n →
            set c m ((L m).next c (c m)).1 j = resetFrom L m (set c m ((L m).next c (c m)).1) j := by
          intro j hj _; rw [resetFrom_above L _ _ _ (by omega)]
        have hinv' : Inv L n (m+1) p (resetFrom L m (set c m ((L m).next c (c m)).1)) :=
          Inv_congr L n (m+1) p _ _ hagree (Inv_step L n hL p c m _ hinv hov)
        have hspec' := overflowFrom_spec L n hL p (m+1) _ hinv'
        have hlt' := overflowFrom_lt L n hL (m+1) (resetFrom L m (set c m ((L m).next c (c m)).1))
        refine ⟨(fun h => by cases h), ?_, ?_⟩
        · intro c' h
          have h := Option.some.inj h
          have h2 : (overflowFrom L n (m+1) (resetFrom L m (set c m ((L m).next c (c m)).1))).2 = false := by
            rw [h]
          have h1 : (overflowFrom L n (m+1) (resetFrom L m (set c m ((L m).next c (c m)).1))).1 = c' := by
            rw [h]
          refine ⟨h1 ▸ hspec'.1 h2, ?_⟩
          obtain ⟨i, hi1, hi2, hi3, hi4⟩ := hlt' h2
          rw [h1] at hi3 hi4
          refine ⟨i, hi2, ?_, ?_⟩
          · rw [resetFrom_above L _ _ _ (by omega), set_ne _ _ _ _ (by omega)] at hi3; exact hi3
          · intro j hj hjn
            have := hi4 j hj hjn
            rw [resetFrom_above L _ _ _ (by omega), set_ne _ _ _ _ (by omega)] at this; exact this
        · intro c' h
          have h := Option.some.inj h
          have h2 : (overflowFrom L n (m+1) (resetFrom L m (set c m ((L m).next c (c m)).1))).2 = true := by
            rw [h]
          exact hspec'.2 h2
      · have hov' : ((L m).next c (c m)).2 = false := by
          cases h' : ((L m).next c (c m)).2 <;> simp_all
        simp only [hov', Bool.false_eq_true, if_false] at hspec hlt ⊢
        refine ⟨(fun h => by cases h), ?_, ?_⟩
        · intro c' h
          simp only [Option.some.injEq, Prod.mk.injEq, and_true] at h
          subst h
          exact ⟨hspec.1 trivial, LtAbove_Lt n m _ _ (hlt trivial)⟩
        · intro c' h
          simp at h


theorem loop_spec (n : Nat) (hL : ∀ k, LvlOK n k (L k)) (p : Cfg) (f : Nat) (c : Cfg)
    (hLB : LB L n p c) (hlt : Lt n p c) :
    (∀ r, loop L D n f c = some (r, false) → AllValid L n r ∧ Lt n p r ∧ LB L n p r) ∧
    (∀ r, loop L D n f c = some (r, true) → ∀ u, AllValid L n u → Lt n p u → False) := by
  induction f generalizing c with
  | zero => constructor <;> intro r h <;> simp [loop] at h
  | succ f ih =>
    have hs := advFrom_spec L D n hL p n (Nat.le_refl _) c hLB
    unfold loop
    cases hadv : advFrom L D n n c with
    | none =>
      simp only
      constructor
      · intro r h
        have h := Option.some.inj h
        have hr : c = r := congrArg Prod.fst h
        subst hr
        exact ⟨fun k hk => hs.1 hadv k hk, hlt, hLB⟩
      · intro r h
        have h := Option.some.inj h
        have : false = true := congrArg Prod.snd h
        cases this
    | some res =>
      obtain ⟨c', b⟩ := res
      cases b with
      | true =>
        simp only
        constructor
        · intro r h
          have h := Option.some.inj h
          have : true = false := congrArg Prod.snd h
          cases this
        · intro r _
          exact hs.2.2 c' hadv
      | false =>
        simp only
        obtain ⟨hLB', hlt'⟩ := hs.2.1 c' hadv
        exact ih c' hLB' (Lt_trans n p c c' hlt hlt')

theorem findForward_spec (n fuel : Nat) (hL : ∀ k, LvlOK n k (L k)) (p : Cfg) :
    (∀ r, findForward L D n fuel p = some (r, false) →
        AllValid L n r ∧ Lt n p r ∧ ∀ u, AllValid L n u → Lt n p u → Le n r u) ∧
    (∀ r, findForward L D n fuel p = some (r, true) → ∀ u, AllValid L n u → Lt n p u → False) := by
  have hLB0 : LB L n p p := fun u _ hpu => Or.inl hpu
  have hInv0 : Inv L n 0 p p := fun u _ hpu => by
    obtain ⟨i, hi, hlt, hag⟩ := hpu
    exact ⟨i, Nat.zero_le _, hi, hlt, hag⟩
  have hs := advFrom_spec L D n hL p n (Nat.le_refl _) p hLB0
  have ho := overflowFrom_spec L n hL p 0 p hInv0
  have holt := overflowFrom_lt L n hL 0 p
  unfold findForward
  cases hadv : advFrom L D n n p with
  | none =>
    simp only
    cases hb : (overflowFrom L n 0 p).2 with
    | true =>
      simp only [if_true]
      constructor
      · intro r h
        have h := Option.some.inj h
        have : (overflowFrom L n 0 p).2 = false := by rw [h]
        rw [hb] at this; cases this
      · intro r _; exact ho.2 hb
    | false =>
      simp only [Bool.false_eq_true, if_false]
      exact loop_spec L D n hL p fuel _ (ho.1 hb) (LtAbove_Lt n 0 _ _ (holt hb))
  | some res =>
    obtain ⟨c', b⟩ := res
    cases b with
    | true =>
      simp only [if_true]
      constructor
      · intro r h
        have h := Option.some.inj h
        have : true = false := congrArg Prod.snd h
        cases this
      · intro r _; exact hs.2.2 c' hadv
    | false =>
      simp only [Bool.false_eq_true, if_false]
      obtain ⟨hLB', hlt'⟩ := hs.2.1 c' hadv
      exact loop_spec L D n hL p fuel c' hLB' hlt'



/-- digit bounds: every level's outputs are ≤ B k -/
structure LvlBound (B : Nat → Nat) (k : Nat) (l : Lvl) : Prop where
  next_le : ∀ c v, v ≤ B k → (l.next c v).1 ≤ B k
  rst_le : ∀ c, l.rst c ≤ B k

def InBox (B : Nat → Nat) (n : Nat) (c : Cfg) : Prop := ∀ k, k < n → c k ≤ B k

theorem InBox_set (B : Nat → Nat) (n : Nat) (c : Cfg) (k v : Nat) (h : InBox B n c) (hv : v ≤ B k) :
    InBox B n (set c k v) := by
  intro j hj
  by_cases hjk : j = k
  · subst hjk; simp [hv]
  · rw [set_ne _ _ _ _ hjk]; exact h j hj

theorem InBox_resetFrom (B : Nat → Nat) (n : Nat) (hB : ∀ k, LvlBound B k (L k)) (k : Nat) (c : Cfg)
    (h : InBox B n c) : InBox B n (resetFrom L k c) := by
  induction k generalizing c with
  | zero => exact h
  | succ k ih => exact ih _ (InBox_set B n c k _ h ((hB k).rst_le c))

theorem InBox_overflowFrom (B : Nat → Nat) (n : Nat) (hB : ∀ k, LvlBound B k (L k)) (k : Nat) (c : Cfg)
    (h : InBox B n c) : InBox B n (overflowFrom L n k c).1 := by
  induction hm : n - k generalizing k c with
  | zero =>
    have hk : k ≥ n := by omega
    unfold overflowFrom; simp [hk]; exact h
  | succ m ih =>
    have hk : ¬ k ≥ n := by omega
    unfold overflowFrom
    simp only [hk, if_false]
    have hset := InBox_set B n c k _ h ((hB k).next_le c (c k) (h k (by omega)))
    split
    · exact ih (k+1) _ hset (by omega)
    · exact InBox_resetFrom L B n hB k _ hset

theorem InBox_advFrom (B : Nat → Nat) (n : Nat) (hB : ∀ k, LvlBound B k (L k)) (m : Nat) (hmn : m ≤ n) (c : Cfg)
    (h : InBox B n c) : ∀ r, advFrom L D n m c = some r → InBox B n r.1 := by
  induction m with
  | zero => intro r hr; simp [advFrom] at hr
  | succ m ih =>
    have ih := ih (by omega)
    intro r hr
    unfold advFrom at hr
    split at hr
    · exact ih r hr
    · have hr := Option.some.inj hr
      have hset := InBox_set B n c m _ h ((hB m).next_le c (c m) (h m (by omega)))
      have hrs := InBox_resetFrom L B n hB m _ hset
      rw [← hr]
      split
      · exact InBox_overflowFrom L B n hB (m+1) _ hrs
      · exact hrs

/-- a measure that is strictly monotone for `Lt` inside the box, bounded by `M` -/
structure Measure (B : Nat → Nat) (n : Nat) (μ : Cfg → Nat) (M : Nat) : Prop where
  mono : ∀ c c', InBox B n c → InBox B n c' → Lt n c c' → μ c < μ c'
  le : ∀ c, InBox B n c → μ c ≤ M

theorem loop_fuel (B : Nat → Nat) (n : Nat) (hL : ∀ k, LvlOK n k (L k)) (hB : ∀ k, LvlBound B k (L k))
    (μ : Cfg → Nat) (M : Nat) (hμ : Measure B n μ M) (p : Cfg) (f : Nat) (c : Cfg)
    (hbox : InBox B n c) (hLB : LB L n p c) (hf : M - μ c < f) :
    loop L D n f c ≠ none := by
  induction f generalizing c with
  | zero => omega
  | succ f ih =>
    unfold loop
    have hs := advFrom_spec L D n hL p n (Nat.le_refl _) c hLB
    cases hadv : advFrom L D n n c with
    | none => simp
    | some res =>
      obtain ⟨c', b⟩ := res
      cases b with
      | true => simp
      | false =>
        simp only
        obtain ⟨hLB', hlt'⟩ := hs.2.1 c' hadv
        have hbox' : InBox B n c' := InBox_advFrom L D B n hB n (Nat.le_refl _) c hbox (c', false) hadv
        have h1 := hμ.mono c c' hbox hbox' hlt'
        have h2 := hμ.le c' hbox'
        exact ih c' hbox' hLB' (by omega)

/-- concrete measure for six levels: mixed radix -/
def μ6 (c : Cfg) : Nat :=
  ((((c 5 * 13 + c 4) * 32 + c 3) * 24 + c 2) * 60 + c 1) * 60 + c 0

def B6 : Nat → Nat
  | 0 => 59 | 1 => 59 | 2 => 23 | 3 => 31 | 4 => 12 | 5 => 3940 | _ => 0

theorem μ6_measure : Measure B6 6 μ6 (((((3940 * 13 + 12) * 32 + 31) * 24 + 23) * 60 + 59) * 60 + 59) := by
  constructor
  · intro c c' h h' hlt
    obtain ⟨k, hk, hlt, hag⟩ := hlt
    have b0 := h 0 (by omega); have b1 := h 1 (by omega); have b2 := h 2 (by omega)
    have b3 := h 3 (by omega); have b4 := h 4 (by omega); have b5 := h 5 (by omega)
    have b0' := h' 0 (by omega); have b1' := h' 1 (by omega); have b2' := h' 2 (by omega)
    have b3' := h' 3 (by omega); have b4' := h' 4 (by omega); have b5' := h' 5 (by omega)
    simp only [B6] at *
    unfold μ6
    have hk6 : k = 0 ∨ k = 1 ∨ k = 2 ∨ k = 3 ∨ k = 4 ∨ k = 5 := by omega
    rcases hk6 with rfl | rfl | rfl | rfl | rfl | rfl
    · have e1 := hag 1 (by omega) (by omega); have e2 := hag 2 (by omega) (by omega)
      have e3 := hag 3 (by omega) (by omega); have e4 := hag 4 (by omega) (by omega)
      have e5 := hag 5 (by omega) (by omega)
      omega
    · have e2 := hag 2 (by omega) (by omega)
      have e3 := hag 3 (by omega) (by omega); have e4 := hag 4 (by omega) (by omega)
      have e5 := hag 5 (by omega) (by omega)
      omega
    · have e3 := hag 3 (by omega) (by omega); have e4 := hag 4 (by omega) (by omega)
      have e5 := hag 5 (by omega) (by omega)
      omega
    · have e4 := hag 4 (by omega) (by omega)
      have e5 := hag 5 (by omega) (by omega)
      omega
    · have e5 := hag 5 (by omega) (by omega)
      omega
    · omega
  · intro c h
    have b0 := h 0 (by omega); have b1 := h 1 (by omega); have b2 := h 2 (by omega)
    have b3 := h 3 (by omega); have b4 := h 4 (by omega); have b5 := h 5 (by omega)
    simp only [B6] at *
    unfold μ6
    omega



end Odo
