import QuartzModel.Sched.Faults
/-! Helper lemmas for `Theorems/C15.lean`. -/
namespace Faults

/-! ### one iteration -/

theorem iter_fields (S : Shape) (c : Cfg) (trig : Trig) (st : BState) (i : In) :
    (iter S c trig st i).dispatched = (if i.interrupted then none else (fetch S c trig i).dispatched) ∧
    (iter S c trig st i).pushed = (if i.interrupted then none else (fetch S c trig i).pushed) ∧
    (iter S c trig st i).popped = (if i.interrupted then none else (fetch S c trig i).popped) ∧
    (iter S c trig st i).tickErr = (if i.interrupted then false else (fetch S c trig i).tickErr) ∧
    (iter S c trig st i).st =
      (if i.interrupted then afterArm S c st (iter S c trig st i).armErr i.now2
       else afterTick S c (afterArm S c st (iter S c trig st i).armErr i.now2) (fetch S c trig i).retErr i.nowErr) := by
  unfold iter; simp only; cases i.interrupted <;> simp

theorem iter_armed (S : Shape) (c : Cfg) (trig : Trig) (st : BState) (i : In) :
    (iter S c trig st i).armed = (match chooseArm S st i.size i.now1 with
      | .zero => 0 | .retry => c.R | .max => c.M | .other => 0
      | .nextTick => calcNextTick S c i.head i.now2
      | .untilRetry => st.retryAt.getD i.now2 - i.now2) := by
  unfold iter; simp only; split <;> rfl

theorem iter_armErr_eq (S : Shape) (c : Cfg) (trig : Trig) (st : BState) (i : In) :
    (iter S c trig st i).armErr =
      ((!skipsSize S st i.now1 && i.size.isNone) ||
        (decide (chooseArm S st i.size i.now1 = .nextTick) && decide (i.head = .err))) := by
  unfold iter; simp only; split <;> rfl

theorem iter_calls_eq (S : Shape) (c : Cfg) (trig : Trig) (st : BState) (i : In) :
    (iter S c trig st i).calls =
      (if !skipsSize S st i.now1 then [(.size, if i.size.isSome then .ok else .err)] else []) ++
      (if decide (chooseArm S st i.size i.now1 = .nextTick) then [(.head, i.head.outcome)] else []) ++
      (if i.interrupted then [] else (fetch S c trig i).calls) := by
  unfold iter; simp only; cases i.interrupted <;> simp

theorem iter_interrupted (S : Shape) (c : Cfg) (trig : Trig) (st : BState) (i : In)
    (h : i.interrupted = true) :
    (iter S c trig st i).st = afterArm S c st (iter S c trig st i).armErr i.now2 ∧
    (iter S c trig st i).dispatched = none ∧
    (iter S c trig st i).popped = none ∧ (iter S c trig st i).pushed = none ∧
    (iter S c trig st i).tickErr = false := by
  unfold iter; simp [h]

theorem afterArm_noErr (S : Shape) (c : Cfg) (st : BState) (t : Int) : afterArm S c st false t = st := by
  unfold afterArm; cases S.stateFromArm <;> cases S.backoff <;> simp

theorem afterArm_err (S : Shape) (hS : WF S) (c : Cfg) (st : BState) (t : Int) :
    afterArm S c st true t = { st with retryAt := some (t + c.R) } := by
  simp [afterArm, hS.2.1, hS.2.2.2.2.2.2.2.2.2.2.2.2]

/-- while the loop is backing off it asks the queue nothing before the `select`: no `Size()`, no `Head()` -/
theorem iter_backoff_quiet (S : Shape) (hS : WF S) (c : Cfg) (trig : Trig) (st : BState) (i : In)
    (hb : inBackoff S st i.now1 = true) :
    (iter S c trig st i).armErr = false ∧ chooseArm S st i.size i.now1 = .untilRetry ∧
    (iter S c trig st i).calls = (if i.interrupted then [] else (fetch S c trig i).calls) := by
  have hsk : skipsSize S st i.now1 = true := by simp [skipsSize, hb, hS.2.2.2.2.2.2.2.2.2.2.2.1]
  have hch : chooseArm S st i.size i.now1 = .untilRetry := by simp [chooseArm, hsk, hS.2.2.1]
  refine ⟨?_, hch, ?_⟩
  · rw [iter_armErr_eq]; simp [hsk, hch]
  · rw [iter_calls_eq]; simp [hsk, hch]

/-- outside the back-off window the iteration starts with `Size()` -/
theorem iter_asks_size (S : Shape) (c : Cfg) (trig : Trig) (st : BState) (i : In)
    (hb : inBackoff S st i.now1 = false) :
    (iter S c trig st i).calls.head? = some (.size, if i.size.isSome then .ok else .err) := by
  rw [iter_calls_eq]; simp [skipsSize, hb]

/-- a failing `Size()` / `Head()` arms `RetryInterval` in the same iteration -/
theorem iter_armErr (S : Shape) (hS : WF S) (c : Cfg) (trig : Trig) (st : BState) (i : In)
    (h : (iter S c trig st i).armErr = true) : (iter S c trig st i).armed = c.R := by
  by_cases hb : inBackoff S st i.now1 = true
  · rw [(iter_backoff_quiet S hS c trig st i hb).1] at h; cases h
  · have hsk : skipsSize S st i.now1 = false := by simp [skipsSize, hb]
    obtain ⟨h1, _, _, _, _, h6, -⟩ := hS
    rw [iter_armErr_eq] at h
    rw [iter_armed]
    cases hs : i.size with
    | none => simp [chooseArm, h1, hsk]
    | some n =>
      simp [hs] at h
      obtain ⟨ha, hh⟩ := h
      rw [ha]
      simp [calcNextTick, hh, h6]

/-- … and sets the deadline to `RetryInterval` after its clock reading -/
theorem iter_armErr_st (S : Shape) (hS : WF S) (c : Cfg) (trig : Trig) (st : BState) (i : In)
    (h : (iter S c trig st i).armErr = true) :
    afterArm S c st (iter S c trig st i).armErr i.now2 = { st with retryAt := some (i.now2 + c.R) } := by
  rw [h, afterArm_err S hS]

/-- in the back-off case the timer is armed for exactly the remembered deadline -/
theorem iter_armed_backoff (S : Shape) (hS : WF S) (c : Cfg) (trig : Trig) (st : BState) (i : In) (r : Int)
    (hr : st.retryAt = some r) (hlt : i.now1 < r) :
    (iter S c trig st i).armed = r - i.now2 := by
  have hb : inBackoff S st i.now1 = true := by simp [inBackoff, hS.2.1, hr, hlt]
  rw [iter_armed, (iter_backoff_quiet S hS c trig st i hb).2.1]
  simp [hr]

/-- outside the back-off case the deadline loop chooses what the loop without back-off state chooses -/
theorem chooseArm_plain (S : Shape) (st : BState) (sz : Option Nat) (now1 : Int)
    (h : inBackoff S st now1 = false) : chooseArm S st sz now1 = chooseArm (plain S) {} sz now1 := by
  have hp : inBackoff (plain S) {} now1 = false := by simp [inBackoff, plain]
  unfold chooseArm skipsSize
  rw [h, hp]
  cases sz <;> simp [plain]

theorem calcNextTick_plain (S : Shape) (c : Cfg) (h : Res Int) (n : Int) :
    calcNextTick (plain S) c h n = calcNextTick S c h n := by
  simp [calcNextTick, plain]

/-- a tick whose `fetchAndReschedule` returns an error sets the deadline to `RetryInterval` after the clock reading -/
theorem iter_retErr (S : Shape) (hS : WF S) (c : Cfg) (trig : Trig) (st : BState) (i : In)
    (hni : i.interrupted = false) (hret : (fetch S c trig i).retErr = true) :
    (iter S c trig st i).st.retryAt = some (i.nowErr + c.R) := by
  rw [(iter_fields S c trig st i).2.2.2.2]
  simp [hni, afterTick, hS.2.2.2.2.2.2.2.1, hS.2.1, hret]

theorem fetch_popEmpty_nothing (S : Shape) (c : Cfg) (trig : Trig) (i : In) (h : i.pop = .empty) :
    (fetch S c trig i).dispatched = none ∧ (fetch S c trig i).popped = none ∧ (fetch S c trig i).pushed = none ∧
    (fetch S c trig i).tickErr = false := by
  unfold fetch; rw [h]; cases S.popEmpty <;> simp

/-- a failing `Pop()` / `Push()` makes `fetchAndReschedule` return an error -/
theorem fetch_tickErr (S : Shape) (hS : WF S) (c : Cfg) (trig : Trig) (i : In)
    (h : (fetch S c trig i).tickErr = true) : (fetch S c trig i).retErr = true := by
  obtain ⟨_, _, _, _, _, _, _, _, h9, _, h11⟩ := hS
  unfold fetch at h ⊢
  split at h
  · simp [h9]
  · rename_i hp
    have := (fetch_popEmpty_nothing S c trig i hp).2.2.2
    unfold fetch at this
    simp only [hp] at this
    simp [this] at h
  · simp only at h ⊢
    split at h
    · simp at h
    · split at h
      · simp at h
      · rename_i hp
        simp [hp, h11]

/-- … and so does a `Pop()` that answers `ErrQueueEmpty` while the queue still claims to hold jobs (or cannot say) -/
theorem fetch_popEmpty (S : Shape) (hS : WF S) (c : Cfg) (trig : Trig) (i : In) (h : i.pop = .empty)
    (hsz : i.size2 ≠ some 0) : (fetch S c trig i).retErr = true := by
  simp [fetch, h, hS.2.2.2.2.2.2.2.2.2.1, hsz]

/-- an honestly empty queue (`Pop()` empty, `Size()` = 0) is not a failure -/
theorem fetch_popEmpty_honest (S : Shape) (hS : WF S) (c : Cfg) (trig : Trig) (i : In) (h : i.pop = .empty)
    (hsz : i.size2 = some 0) : (fetch S c trig i).retErr = false := by
  simp [fetch, h, hS.2.2.2.2.2.2.2.2.2.1, hsz]

/-- a failing `Pop()` / `Push()` on a tick sets the deadline to `RetryInterval` after the clock reading -/
theorem iter_tickErr (S : Shape) (hS : WF S) (c : Cfg) (trig : Trig) (st : BState) (i : In)
    (h : (iter S c trig st i).tickErr = true) :
    i.interrupted = false ∧ (iter S c trig st i).st.retryAt = some (i.nowErr + c.R) := by
  rw [(iter_fields S c trig st i).2.2.2.1] at h
  cases hint : i.interrupted
  · simp only [hint, Bool.false_eq_true, ↓reduceIte] at h
    exact ⟨rfl, iter_retErr S hS c trig st i hint (fetch_tickErr S hS c trig i h)⟩
  · simp [hint] at h

/-- the deadline never moves backwards past a bound that lies at most `R` after the current time -/
theorem iter_retryAt_ge (S : Shape) (hS : WF S) (c : Cfg) (trig : Trig) (st : BState) (i : In) (X r : Int)
    (hr : st.retryAt = some r) (hX : X ≤ r) (hnow2 : X ≤ i.now2 + c.R) (hnow : X ≤ i.nowErr + c.R) :
    ∃ r', (iter S c trig st i).st.retryAt = some r' ∧ X ≤ r' := by
  have h1 : ∃ r1, (afterArm S c st (iter S c trig st i).armErr i.now2).retryAt = some r1 ∧ X ≤ r1 := by
    cases (iter S c trig st i).armErr
    · rw [afterArm_noErr]; exact ⟨r, hr, hX⟩
    · rw [afterArm_err S hS]; exact ⟨i.now2 + c.R, rfl, hnow2⟩
  obtain ⟨r1, hr1, hX1⟩ := h1
  obtain ⟨_, h2, _, _, _, _, _, h8, -⟩ := hS
  rw [(iter_fields S c trig st i).2.2.2.2]
  cases i.interrupted
  · simp only [Bool.false_eq_true, ↓reduceIte, afterTick, h8, h2]
    cases (fetch S c trig i).retErr
    · exact ⟨r1, by simpa using hr1, hX1⟩
    · exact ⟨i.nowErr + c.R, by simp, hnow⟩
  · exact ⟨r1, by simpa using hr1, hX1⟩

/-- a failing `Size()` / `Head()` leaves a deadline at least `RetryInterval` after its clock reading -/
theorem iter_armErr_retryAt (S : Shape) (hS : WF S) (c : Cfg) (trig : Trig) (st : BState) (i : In)
    (h : (iter S c trig st i).armErr = true) (hle : i.now2 ≤ i.nowErr) :
    ∃ r', (iter S c trig st i).st.retryAt = some r' ∧ i.now2 + c.R ≤ r' := by
  have h1 := iter_armErr_st S hS c trig st i h
  obtain ⟨_, h2, _, _, _, _, _, h8, -⟩ := hS
  rw [(iter_fields S c trig st i).2.2.2.2, h1]
  cases i.interrupted
  · simp only [Bool.false_eq_true, ↓reduceIte, afterTick, h8, h2]
    cases (fetch S c trig i).retErr
    · exact ⟨i.now2 + c.R, by simp, Int.le_refl _⟩
    · exact ⟨i.nowErr + c.R, by simp, by omega⟩
  · exact ⟨i.now2 + c.R, by simp, Int.le_refl _⟩

/-- `fetchAndReschedule` starts with `Pop()` -/
theorem fetch_calls_head (S : Shape) (c : Cfg) (trig : Trig) (i : In) :
    ∃ o, (fetch S c trig i).calls.head? = some (.pop, o) := by
  unfold fetch
  cases i.pop with
  | err => exact ⟨_, rfl⟩
  | empty => cases S.popEmpty <;> exact ⟨_, rfl⟩
  | ok e =>
    simp only
    cases (validate c trig e i.nowVal).2 with
    | none => exact ⟨_, rfl⟩
    | some t => cases i.pushOk <;> exact ⟨_, rfl⟩

/-- Key timing lemma: once the deadline is at least `X` (and `X` is at most `R` after the current time), no later
    iteration ticks before `X`, whatever the inputs (faults, interrupts) are. -/
theorem no_tick_before (S : Shape) (hS : WF S) (c : Cfg) (trig : Trig) (X : Int) (ins : List In) (st : BState)
    (prev r : Int) (hr : st.retryAt = some r) (hX : X ≤ r) (hprev : X ≤ prev + c.R)
    (hwt : WellTimed S c trig st prev ins) (j : Nat) (ij : In) (hj : ins[j]? = some ij)
    (hnint : ij.interrupted = false) : X ≤ ij.tickAt := by
  induction ins generalizing st prev r j with
  | nil => simp at hj
  | cons i is ih =>
    obtain ⟨w1, w2, w3, w4, w5, w6, w7, wrest⟩ := hwt
    cases j with
    | zero =>
      simp at hj; subst hj
      have harm := w5 hnint
      by_cases hlt : i.now1 < r
      · rw [iter_armed_backoff S hS c trig st i r hr hlt] at harm
        omega
      · omega
    | succ j =>
      simp only [List.getElem?_cons_succ] at hj
      obtain ⟨r', hr', hXr'⟩ := iter_retryAt_ge S hS c trig st i X r hr hX (by omega) (by omega)
      exact ih _ i.nowErr r' hr' hXr' (by omega) wrest j hj

/-- … and no later iteration asks `Size()` (the call an iteration outside the back-off window starts with) before `X`:
    until the deadline the loop asks the queue nothing at all, however many interrupts arrive -/
theorem no_size_before (S : Shape) (hS : WF S) (c : Cfg) (trig : Trig) (X : Int) (ins : List In) (st : BState)
    (prev r : Int) (hr : st.retryAt = some r) (hX : X ≤ r) (hprev : X ≤ prev + c.R)
    (hwt : WellTimed S c trig st prev ins) (j : Nat) (ij : In) (oj : Out) (hj : ins[j]? = some ij)
    (hoj : (runLoop S c trig st ins).1[j]? = some oj) (o : Outcome) (hsz : oj.calls.head? = some (.size, o)) :
    X ≤ ij.now1 := by
  induction ins generalizing st prev r j with
  | nil => simp at hj
  | cons i is ih =>
    obtain ⟨w1, w2, w3, w4, w5, w6, w7, wrest⟩ := hwt
    cases j with
    | zero =>
      simp at hj; subst hj
      have hoj' : iter S c trig st i = oj := by simpa [runLoop] using hoj
      subst hoj'
      by_cases hlt : i.now1 < r
      · have hb : inBackoff S st i.now1 = true := by simp [inBackoff, hS.2.1, hr, hlt]
        rw [(iter_backoff_quiet S hS c trig st i hb).2.2] at hsz
        cases hint : i.interrupted
        · obtain ⟨o', ho'⟩ := fetch_calls_head S c trig i
          simp [hint, ho'] at hsz
        · simp [hint] at hsz
      · omega
    | succ j =>
      simp only [List.getElem?_cons_succ] at hj
      simp only [runLoop, List.getElem?_cons_succ] at hoj
      obtain ⟨r', hr', hXr'⟩ := iter_retryAt_ge S hS c trig st i X r hr hX (by omega) (by omega)
      exact ih _ i.nowErr r' hr' hXr' (by omega) wrest j hj hoj

/-- the clock readings of iteration `k` of a well-timed run are in program order -/
theorem wellTimed_at (S : Shape) (c : Cfg) (trig : Trig) (st0 : BState) (prev : Int) (ins : List In)
    (hwt : WellTimed S c trig st0 prev ins) (k : Nat) (ik : In) (ok : Out) (hik : ins[k]? = some ik)
    (hok : (runLoop S c trig st0 ins).1[k]? = some ok) :
    ik.now1 ≤ ik.now2 ∧ ik.now2 ≤ ik.tArm ∧ ik.tArm ≤ ik.tickAt ∧ ik.tickAt ≤ ik.nowVal ∧ ik.nowVal ≤ ik.nowErr ∧
    (ik.interrupted = false → ik.tArm + ok.armed ≤ ik.tickAt) := by
  induction ins generalizing st0 prev k with
  | nil => simp at hik
  | cons i is ih =>
    obtain ⟨w1, w2, w3, w4, w5, w6, w7, wrest⟩ := hwt
    cases k with
    | zero =>
      have hik' : i = ik := by simpa using hik
      have hok' : iter S c trig st0 i = ok := by simpa [runLoop] using hok
      subst hik'; subst hok'
      exact ⟨w2, w3, w4, w6, w7, w5⟩
    | succ k =>
      simp only [List.getElem?_cons_succ] at hik
      simp only [runLoop, List.getElem?_cons_succ] at hok
      exact ih _ _ wrest k hik hok

/-- In a well-timed run: if iteration `k` leaves a deadline of at least `X` (and `X` is at most `R` after its last clock
    reading), then no later iteration ticks, and none asks `Size()`, before `X`. -/
theorem after_deadline (S : Shape) (hS : WF S) (c : Cfg) (trig : Trig) (st0 : BState) (prev : Int) (ins : List In)
    (hwt : WellTimed S c trig st0 prev ins) (k : Nat) (ik : In) (ok : Out) (hik : ins[k]? = some ik)
    (hok : (runLoop S c trig st0 ins).1[k]? = some ok) (X : Int)
    (hX : ∃ r, ok.st.retryAt = some r ∧ X ≤ r) (hXn : X ≤ ik.nowErr + c.R)
    (j : Nat) (ij : In) (oj : Out) (hkj : k < j) (hij : ins[j]? = some ij)
    (hoj : (runLoop S c trig st0 ins).1[j]? = some oj) :
    (ij.interrupted = false → X ≤ ij.tickAt) ∧ (∀ o, oj.calls.head? = some (.size, o) → X ≤ ij.now1) := by
  induction ins generalizing st0 prev k j with
  | nil => simp at hik
  | cons i is ih =>
    obtain ⟨w1, w2, w3, w4, w5, w6, w7, wrest⟩ := hwt
    cases j with
    | zero => omega
    | succ j =>
      simp only [List.getElem?_cons_succ] at hij
      simp only [runLoop, List.getElem?_cons_succ] at hoj
      cases k with
      | zero =>
        have hik' : i = ik := by simpa using hik
        have hok' : iter S c trig st0 i = ok := by simpa [runLoop] using hok
        subst hik'; subst hok'
        obtain ⟨r, hr, hXr⟩ := hX
        exact ⟨fun hni => no_tick_before S hS c trig X is _ i.nowErr r hr hXr hXn wrest j ij hij hni,
          fun o ho => no_size_before S hS c trig X is _ i.nowErr r hr hXr hXn wrest j ij oj hij hoj o ho⟩
      | succ k =>
        simp only [List.getElem?_cons_succ] at hik
        simp only [runLoop, List.getElem?_cons_succ] at hok
        exact ih _ _ wrest k hik hok j (by omega) hij hoj

/-- In a well-timed run: after a tick (iteration `k`) whose `fetchAndReschedule` returned an error, read off the clock
    at `ik.nowErr`, no later iteration ticks before `ik.nowErr + RetryInterval`. -/
theorem backoff_after (S : Shape) (hS : WF S) (c : Cfg) (trig : Trig) (st0 : BState) (prev : Int) (ins : List In)
    (hwt : WellTimed S c trig st0 prev ins) (k : Nat) (ik : In) (hik : ins[k]? = some ik)
    (hni : ik.interrupted = false) (hret : (fetch S c trig ik).retErr = true)
    (j : Nat) (ij : In) (hkj : k < j) (hij : ins[j]? = some ij) (hnj : ij.interrupted = false) :
    ik.nowErr + c.R ≤ ij.tickAt := by
  induction ins generalizing st0 prev k j with
  | nil => simp at hik
  | cons i is ih =>
    obtain ⟨w1, w2, w3, w4, w5, w6, w7, wrest⟩ := hwt
    cases j with
    | zero => omega
    | succ j =>
      simp only [List.getElem?_cons_succ] at hij
      cases k with
      | zero =>
        have hik' : i = ik := by simpa using hik
        subst hik'
        have hst := iter_retErr S hS c trig st0 i hni hret
        exact no_tick_before S hS c trig (i.nowErr + c.R) is _ i.nowErr _ hst (Int.le_refl _) (Int.le_refl _)
          wrest j ij hij hnj
      | succ k =>
        simp only [List.getElem?_cons_succ] at hik
        exact ih _ _ wrest k hik j (by omega) hij

/-- the tick part of the `k`-th output of a run depends on the `k`-th input only -/
theorem runLoop_tick_fields (S : Shape) (c : Cfg) (trig : Trig) (st0 : BState) (ins : List In) (k : Nat) (ik : In)
    (ok : Out) (hik : ins[k]? = some ik) (hok : (runLoop S c trig st0 ins).1[k]? = some ok) :
    ok.tickErr = (if ik.interrupted then false else (fetch S c trig ik).tickErr) ∧
    ok.dispatched = (if ik.interrupted then none else (fetch S c trig ik).dispatched) := by
  induction ins generalizing st0 k with
  | nil => simp at hik
  | cons i is ih =>
    cases k with
    | zero =>
      have hik' : i = ik := by simpa using hik
      have hok' : iter S c trig st0 i = ok := by simpa [runLoop] using hok
      subst hik'; subst hok'
      exact ⟨(iter_fields S c trig st0 i).2.2.2.1, (iter_fields S c trig st0 i).1⟩
    | succ k =>
      simp only [List.getElem?_cons_succ] at hik
      simp only [runLoop, List.getElem?_cons_succ] at hok
      exact ih _ k hik hok

/-! ### the stored entries -/

theorem mem_qpush (e x : Entry) (q : Queue) : x ∈ qpush e q ↔ x = e ∨ x ∈ q := by
  induction q with
  | nil => simp [qpush]
  | cons y ys ih =>
    unfold qpush
    split
    · simp
    · simp [ih]; constructor
      · rintro (h | h | h) <;> simp [h]
      · rintro (h | h | h) <;> simp [h]

theorem qpush_perm (e : Entry) (q : Queue) : (qpush e q).Perm (e :: q) := by
  induction q with
  | nil => simp [qpush]
  | cons y ys ih =>
    unfold qpush
    split
    · exact List.Perm.refl _
    · exact (List.Perm.cons y ih).trans (List.Perm.swap e y ys)

theorem validate_le (c : Cfg) (hthr : 0 ≤ c.thr) (trig : Trig) (hmono : ∀ k p t, trig k p = some t → p < t)
    (e : Entry) (now t : Int) (h : (validate c trig e now).2 = some t) :
    e.prio ≤ t ∧ ((validate c trig e now).1 = true → e.prio < t) := by
  unfold validate at h ⊢
  by_cases h1 : e.prio < now - c.thr
  · simp only [h1, ↓reduceIte] at h ⊢
    have := hmono _ _ _ h
    simp; omega
  · by_cases h2 : e.prio > now
    · simp only [h1, h2, ↓reduceIte] at h ⊢
      simp at h; simp; omega
    · simp only [h1, h2, ↓reduceIte] at h ⊢
      have := hmono _ _ _ h
      simp; omega

/-- invariant linking the execution log and the stored entries -/
def J (log : List (Nat × Int)) (q : Queue) : Prop :=
  (q.map (·.key)).Nodup ∧ ∀ e ∈ q, ∀ t, (e.key, t) ∈ log → t < e.prio

def logOf (o : Out) : List (Nat × Int) := (o.dispatched.map (fun e => (e.key, e.prio))).toList

theorem J_drop_head (log : List (Nat × Int)) (e : Entry) (rest : Queue) (hJ : J log (e :: rest)) (hl : log.Nodup)
    (b : Bool) :
    (log ++ (if b then [(e.key, e.prio)] else [])).Nodup ∧ J (log ++ (if b then [(e.key, e.prio)] else [])) rest := by
  obtain ⟨hk, hlt⟩ := hJ
  simp only [List.map_cons, List.nodup_cons] at hk
  cases b
  · simp only [Bool.false_eq_true, ↓reduceIte, List.append_nil]
    exact ⟨hl, hk.2, fun x hx t ht => hlt x (List.mem_cons_of_mem _ hx) t ht⟩
  · simp only [↓reduceIte]
    refine ⟨?_, hk.2, ?_⟩
    · rw [List.nodup_append]
      refine ⟨hl, by simp, ?_⟩
      intro a ha b hb
      simp at hb; subst hb
      intro hab; subst hab
      have := hlt e (by simp) e.prio ha
      omega
    · intro x hx t ht
      simp only [List.mem_append, List.mem_singleton, Prod.mk.injEq] at ht
      rcases ht with ht | ⟨hke, _⟩
      · exact hlt x (List.mem_cons_of_mem _ hx) t ht
      · exact absurd (List.mem_map.mpr ⟨x, hx, hke⟩) hk.1

theorem J_repush (log : List (Nat × Int)) (e : Entry) (rest : Queue) (hJ : J log (e :: rest)) (hl : log.Nodup)
    (b : Bool) (t : Int) (hle : e.prio ≤ t) (hlt' : b = true → e.prio < t) :
    (log ++ (if b then [(e.key, e.prio)] else [])).Nodup ∧
      J (log ++ (if b then [(e.key, e.prio)] else [])) (qpush { e with prio := t } rest) := by
  obtain ⟨hnd, hk', hrest⟩ := J_drop_head log e rest hJ hl b
  refine ⟨hnd, ?_, ?_⟩
  · have hp := (qpush_perm { e with prio := t } rest).map (·.key)
    rw [hp.nodup_iff]
    simpa using hJ.1
  · intro x hx u hu
    rw [mem_qpush] at hx
    rcases hx with hx | hx
    · subst hx
      simp only [List.mem_append] at hu
      rcases hu with hu | hu
      · have := hJ.2 e (by simp) u hu
        simp; omega
      · cases b
        · simp at hu
        · simp at hu
          have := hlt' rfl
          simp; omega
    · exact hrest x hx u hu

theorem iterQ_J (S : Shape) (c : Cfg) (hthr : 0 ≤ c.thr) (trig : Trig)
    (hmono : ∀ k p t, trig k p = some t → p < t) (log : List (Nat × Int)) (s : LState) (p : Plan)
    (hJ : J log s.q) (hl : log.Nodup) :
    (log ++ logOf (iterQ S c trig s p).1).Nodup ∧ J (log ++ logOf (iterQ S c trig s p).1) (iterQ S c trig s p).2.q := by
  unfold iterQ
  simp only
  cases hint : p.interrupted with
  | true =>
    have h := iter_interrupted S c trig s.st (inOf s.q p) (by simp [inOf, hint])
    simp [logOf, qAfter, h.2.1, h.2.2.1, hl, hJ]
  | false =>
    unfold iter
    simp only [inOf, hint, Bool.false_eq_true, ↓reduceIte]
    unfold fetch
    simp only
    cases hfp : p.fPop with
    | true => simp [logOf, qAfter, hl, hJ]
    | false =>
      simp only [Bool.false_eq_true, ↓reduceIte]
      cases hq : s.q with
      | nil =>
        rw [hq] at hJ
        cases S.popEmpty <;> simp [logOf, qAfter, hl] <;> exact hJ
      | cons e rest =>
        rw [hq] at hJ
        simp only
        cases hv : (validate c trig e p.nowVal).2 with
        | none =>
          have := J_drop_head log e rest hJ hl (validate c trig e p.nowVal).1
          simp only [logOf, qAfter, List.tail_cons]
          cases hb : (validate c trig e p.nowVal).1 <;> simp [hb] at this ⊢ <;> exact this
        | some t =>
          have hvl := validate_le c hthr trig hmono e p.nowVal t hv
          cases hpu : p.fPush with
          | true =>
            have := J_drop_head log e rest hJ hl (validate c trig e p.nowVal).1
            simp only [logOf, qAfter, Bool.not_true, Bool.false_eq_true, ↓reduceIte, List.tail_cons]
            cases hb : (validate c trig e p.nowVal).1 <;> simp [hb] at this ⊢ <;> exact this
          | false =>
            have := J_repush log e rest hJ hl (validate c trig e p.nowVal).1 t hvl.1 hvl.2
            simp only [logOf, qAfter, Bool.not_false, ↓reduceIte, List.tail_cons]
            cases hb : (validate c trig e p.nowVal).1 <;> simp [hb] at this ⊢ <;> exact this

theorem dispatchLog_cons (o : Out) (os : List Out) : dispatchLog (o :: os) = logOf o ++ dispatchLog os := by
  unfold dispatchLog logOf
  cases h : o.dispatched <;> simp [h]

theorem runQ_nodup (S : Shape) (c : Cfg) (hthr : 0 ≤ c.thr) (trig : Trig)
    (hmono : ∀ k p t, trig k p = some t → p < t) (ps : List Plan) (log : List (Nat × Int)) (s : LState)
    (hJ : J log s.q) (hl : log.Nodup) : (log ++ dispatchLog (runQ S c trig s ps).1).Nodup := by
  induction ps generalizing log s with
  | nil => simpa [runQ, dispatchLog] using hl
  | cons p ps ih =>
    simp only [runQ, dispatchLog_cons]
    obtain ⟨h1, h2⟩ := iterQ_J S c hthr trig hmono log s p hJ hl
    rw [← List.append_assoc]
    exact ih _ _ h2 h1

/-! ### recovery -/

theorem fetch_plain (S : Shape) (c : Cfg) (trig : Trig) (i : In) :
    fetch (plain S) c trig i = fetch S c trig i := by
  unfold fetch plain; rfl

theorem fetch_faultFree (S : Shape) (hS : WF S) (c : Cfg) (trig : Trig) (q : Queue) (p : Plan)
    (hp : p.faultFree = true) : (fetch S c trig (inOf q p)).retErr = false := by
  simp only [Plan.faultFree, Bool.and_eq_true, Bool.not_eq_eq_eq_not, Bool.not_true] at hp
  obtain ⟨⟨⟨⟨_, _⟩, hpop⟩, hpush⟩, hs2⟩ := hp
  cases q with
  | nil => exact fetch_popEmpty_honest S hS c trig _ (by simp [inOf, hpop]) (by simp [inOf, hs2])
  | cons e rest =>
    unfold fetch inOf
    simp only [hpop, hpush, Bool.false_eq_true, ↓reduceIte]
    cases (validate c trig e p.nowVal).2 <;> simp

theorem afterTick_noErr (S : Shape) (c : Cfg) (st : BState) (t : Int) (hS : WF S) :
    afterTick S c st false t = st := by
  simp [afterTick, hS.2.1]

theorem afterTick_plain (S : Shape) (c : Cfg) (st : BState) (b : Bool) (t : Int) :
    afterTick (plain S) c st b t = st := by
  unfold afterTick plain
  by_cases h : S.stateFromTick = true <;> simp [h]

theorem inOf_faultFree (q : Queue) (p : Plan) (hp : p.faultFree = true) :
    (inOf q p).size.isNone = false ∧ decide ((inOf q p).head = .err) = false := by
  simp only [Plan.faultFree, Bool.and_eq_true, Bool.not_eq_eq_eq_not, Bool.not_true] at hp
  obtain ⟨⟨⟨⟨hs, hh⟩, _⟩, _⟩, _⟩ := hp
  refine ⟨by simp [inOf, hs], ?_⟩
  cases q <;> simp [inOf, hh]

/-- a fault-free iteration has no `Size()` / `Head()` error -/
theorem iter_faultFree_armErr (S : Shape) (c : Cfg) (trig : Trig) (st : BState) (q : Queue) (p : Plan)
    (hp : p.faultFree = true) : (iter S c trig st (inOf q p)).armErr = false := by
  obtain ⟨h1, h2⟩ := inOf_faultFree q p hp
  rw [iter_armErr_eq, h1, h2]; simp

/-- a fault-free iteration leaves the back-off state alone (also a tick on an honestly empty queue) -/
theorem iter_faultFree_st (S : Shape) (hS : WF S) (c : Cfg) (trig : Trig) (st : BState) (q : Queue) (p : Plan)
    (hp : p.faultFree = true) : (iter S c trig st (inOf q p)).st = st := by
  rw [(iter_fields S c trig st (inOf q p)).2.2.2.2, iter_faultFree_armErr S c trig st q p hp, afterArm_noErr,
    fetch_faultFree S hS c trig q p hp, afterTick_noErr S c st _ hS]
  simp

/-- the tick part of an iteration (what is popped, dispatched, pushed) does not depend on the back-off state -/
theorem iter_tick_indep (S : Shape) (c : Cfg) (trig : Trig) (st : BState) (i : In) :
    (iter S c trig st i).dispatched = (iter (plain S) c trig {} i).dispatched ∧
    (iter S c trig st i).pushed = (iter (plain S) c trig {} i).pushed ∧
    (iter S c trig st i).popped = (iter (plain S) c trig {} i).popped ∧
    (iter S c trig st i).tickErr = (iter (plain S) c trig {} i).tickErr := by
  obtain ⟨a1, a2, a3, a4, _⟩ := iter_fields S c trig st i
  obtain ⟨b1, b2, b3, b4, _⟩ := iter_fields (plain S) c trig {} i
  rw [a1, a2, a3, a4, b1, b2, b3, b4, fetch_plain]
  simp

/-- outside the back-off window a fault-free iteration is an iteration of the loop without back-off state -/
theorem iter_eq_plain (S : Shape) (hS : WF S) (c : Cfg) (trig : Trig) (st : BState) (q : Queue) (p : Plan)
    (hp : p.faultFree = true) (hout : inBackoff S st p.now1 = false) :
    iter S c trig st (inOf q p) = { iter (plain S) c trig {} (inOf q p) with st := st } := by
  have hout' : inBackoff S st (inOf q p).now1 = false := by simpa [inOf] using hout
  have hsk : skipsSize S st (inOf q p).now1 = false := by simp [skipsSize, hout']
  have hskp : skipsSize (plain S) {} (inOf q p).now1 = false := by simp [skipsSize, inBackoff, plain]
  obtain ⟨hz1, hz2⟩ := inOf_faultFree q p hp
  have hch : chooseArm S st (inOf q p).size (inOf q p).now1 = chooseArm (plain S) {} (inOf q p).size (inOf q p).now1 :=
    chooseArm_plain S st _ _ hout'
  have hne : chooseArm (plain S) {} (inOf q p).size (inOf q p).now1 ≠ .untilRetry := by
    obtain ⟨h1, _, _, h4, h5, -⟩ := hS
    unfold chooseArm
    rw [hskp]
    cases (inOf q p).size with
    | none => simp [plain, h1]
    | some n => simp [plain, inBackoff, h4, h5]; split <;> simp
  unfold iter
  simp only [hch, hsk, hskp, hz1, hz2, calcNextTick_plain, fetch_plain, Bool.and_false, Bool.or_false, Bool.not_false,
    afterArm_noErr]
  cases hint : (inOf q p).interrupted
  · have hf := fetch_faultFree S hS c trig q p hp
    simp only [Bool.false_eq_true, ↓reduceIte]
    simp only [hf, afterTick_noErr S c st _ hS]
    congr 1
    split <;> first | rfl | (rename_i h; exact absurd h hne)
  · simp only [↓reduceIte]
    congr 1
    split <;> first | rfl | (rename_i h; exact absurd h hne)

theorem iterQ_plain_st (S : Shape) (c : Cfg) (trig : Trig) (q : Queue) (p : Plan) :
    (iterQ (plain S) c trig ⟨{}, q⟩ p).2.st = {} := by
  simp only [iterQ]
  have hA : ∀ b t, afterArm (plain S) c {} b t = {} := by
    intro b t; unfold afterArm plain; cases S.stateFromArm <;> simp
  rw [(iter_fields (plain S) c trig {} (inOf q p)).2.2.2.2]
  cases (inOf q p).interrupted <;> simp [afterTick_plain, hA]

/-- one fault-free iteration next to the same iteration of the loop without back-off state -/
theorem iterQ_vs_plain (S : Shape) (hS : WF S) (c : Cfg) (trig : Trig) (st : BState) (q : Queue) (p : Plan)
    (hp : p.faultFree = true) :
    (iterQ S c trig ⟨st, q⟩ p).2 = ⟨st, (iterQ (plain S) c trig ⟨{}, q⟩ p).2.q⟩ ∧
    logOf (iterQ S c trig ⟨st, q⟩ p).1 = logOf (iterQ (plain S) c trig ⟨{}, q⟩ p).1 ∧
    (inBackoff S st p.now1 = false →
      (iterQ S c trig ⟨st, q⟩ p).1 = { (iterQ (plain S) c trig ⟨{}, q⟩ p).1 with st := st }) := by
  obtain ⟨t1, t2, t3, _⟩ := iter_tick_indep S c trig st (inOf q p)
  refine ⟨?_, ?_, ?_⟩
  · simp only [iterQ, qAfter, t2, t3, iter_faultFree_st S hS c trig st q p hp]
  · simp only [iterQ, logOf, t1]
  · intro hout
    simp only [iterQ]
    exact iter_eq_plain S hS c trig st q p hp hout

/-! ### a queue that reports a size but has no head -/

/-- `Size()` says non-empty, `Head()` and `Pop()` answer `ErrQueueEmpty` -/
def SpuriousEmpty (i : In) : Prop :=
  (∃ n, i.size = some (n + 1)) ∧ i.head = .empty ∧ i.pop = .empty ∧ i.size2 ≠ some 0

theorem iter_spurious (S : Shape) (hS : WF S) (c : Cfg) (trig : Trig) (st : BState) (i : In)
    (hsp : SpuriousEmpty i) (hnb : inBackoff S st i.now1 = false) :
    (iter S c trig st i).armed = c.R ∧ (iter S c trig st i).dispatched = none := by
  obtain ⟨⟨n, hn⟩, hh, hp, _⟩ := hsp
  refine ⟨?_, ?_⟩
  · rw [iter_armed]
    simp [chooseArm, skipsSize, hn, hnb, hS.2.2.2.2.1, calcNextTick, hh, hS.2.2.2.2.2.2.1]
  · rw [(iter_fields S c trig st i).1, (fetch_popEmpty_nothing S c trig i hp).1]; simp

end Faults
