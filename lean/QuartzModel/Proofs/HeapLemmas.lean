import QuartzModel.Queue.Heap
import QuartzModel.Queue.JobQueue
/-!
# Helper lemmas for the `container/heap` model (`up`, `down`, `swp`): size, frame, permutation and
heap-order preservation.  Core Lean only.
-/
namespace Queue

/-! ## `swp` -/

theorem size_swp (a : Arr) (i j : Nat) : (swp a i j).size = a.size := by
  unfold swp; split <;> simp

theorem swp_perm (a : Arr) (i j : Nat) : (swp a i j).toList.Perm a.toList := by
  unfold swp
  split
  · rename_i h
    exact Array.perm_iff_toList_perm.mp (Array.swap_perm h.1 h.2)
  · exact List.Perm.refl _

theorem getElem?_swp (a : Arr) (i j k : Nat) (hi : i < a.size) (hj : j < a.size) :
    (swp a i j)[k]? = if k = i then a[j]? else if k = j then a[i]? else a[k]? := by
  unfold swp
  simp only [hi, hj, and_self, dite_true]
  rw [Array.getElem?_swap]
  by_cases h1 : k = i
  · subst h1
    by_cases h3 : j = k
    · subst h3; simp
    · simp [hj, h3]
  · by_cases h2 : k = j
    · subst h2; simp [hi, h1]
    · simp [h1, h2, Ne.symm h1, Ne.symm h2]

theorem getD_swp (a : Arr) (i j k : Nat) (hi : i < a.size) (hj : j < a.size) :
    (swp a i j).getD k default =
      if k = i then a.getD j default else if k = j then a.getD i default else a.getD k default := by
  simp only [Array.getD_eq_getD_getElem?, getElem?_swp a i j k hi hj]
  split
  · rfl
  · split <;> rfl

theorem prioAt_swp (a : Arr) (i j k : Nat) (hi : i < a.size) (hj : j < a.size) :
    prioAt (swp a i j) k = if k = i then prioAt a j else if k = j then prioAt a i else prioAt a k := by
  unfold prioAt
  rw [getD_swp a i j k hi hj]
  split
  · rfl
  · split <;> rfl

/-! ## `up` -/

/-- heap order on the prefix `[0, n)` -/
def IsHeapN (a : Arr) (n : Nat) : Prop := ∀ k, 0 < k → k < n → prioAt a ((k - 1) / 2) ≤ prioAt a k

/-- heap on `[0,n)` everywhere except at the edge above `j`; `j`'s children dominate `j`'s parent -/
def UpInv (a : Arr) (j n : Nat) : Prop :=
  (∀ k, 0 < k → k < n → k ≠ j → prioAt a ((k - 1) / 2) ≤ prioAt a k) ∧
  (∀ c, 0 < c → c < n → (c - 1) / 2 = j → 0 < j → prioAt a ((j - 1) / 2) ≤ prioAt a c)

theorem up_size (a : Arr) (j : Nat) : (up a j).size = a.size := by
  induction j using Nat.strongRecOn generalizing a with
  | _ j ih =>
    unfold up
    split
    · rfl
    · simp only
      split
      · rw [ih _ (by omega), size_swp]
      · rfl

theorem up_perm (a : Arr) (j : Nat) : (up a j).toList.Perm a.toList := by
  induction j using Nat.strongRecOn generalizing a with
  | _ j ih =>
    unfold up
    split
    · exact List.Perm.refl _
    · simp only
      split
      · exact (ih _ (by omega) _).trans (swp_perm _ _ _)
      · exact List.Perm.refl _

/-- `up a j` does not touch indices above `j` -/
theorem up_frame (a : Arr) (j k : Nat) (hj : j < a.size) (hk : j < k) : (up a j)[k]? = a[k]? := by
  induction j using Nat.strongRecOn generalizing a with
  | _ j ih =>
    unfold up
    split
    · rfl
    · simp only
      split
      · have hi : (j - 1) / 2 < a.size := by omega
        rw [ih _ (by omega) _ (by rw [size_swp]; exact hi) (by omega), getElem?_swp a _ _ _ hi hj]
        have h1 : k ≠ (j - 1) / 2 := by omega
        have h2 : k ≠ j := by omega
        simp only [h1, h2, if_false]
      · rfl

theorem up_heapN (a : Arr) (j n : Nat) (hn : n ≤ a.size) (hj : j < n) (h : UpInv a j n) :
    IsHeapN (up a j) n := by
  induction j using Nat.strongRecOn generalizing a with
  | _ j ih =>
    have hj' : j < a.size := by omega
    unfold up
    split
    · rename_i h0
      subst h0
      intro k hk hks
      exact h.1 k hk hks (by omega)
    · rename_i h0
      simp only
      split
      · rename_i hlt
        have hi : (j - 1) / 2 < a.size := by omega
        apply ih ((j - 1) / 2) (by omega) _ (by rw [size_swp]; exact hn) (by omega)
        constructor
        · intro k hk hks hki
          rw [prioAt_swp a _ _ _ hi hj', prioAt_swp a _ _ _ hi hj']
          by_cases hkj : k = j
          · subst hkj
            simp only [if_true, hki, if_false]
            omega
          · simp only [hki, hkj, if_false]
            by_cases hp : (k - 1) / 2 = (j - 1) / 2
            · -- sibling of j
              simp only [hp, if_true]
              have := h.1 k hk hks hkj
              rw [hp] at this; omega
            · by_cases hp2 : (k - 1) / 2 = j
              · have hjne : j ≠ (j - 1) / 2 := by omega
                simp only [hp2, hjne, if_false, if_true]
                exact h.2 k hk hks hp2 (by omega)
              · simp only [hp, hp2, if_false]
                exact h.1 k hk hks hkj
        · intro c hc hcs hcp hpos
          rw [prioAt_swp a _ _ _ hi hj', prioAt_swp a _ _ _ hi hj']
          have hpi : 0 < (j - 1) / 2 := hpos
          have hne1 : ((j - 1) / 2 - 1) / 2 ≠ (j - 1) / 2 := by omega
          have hne2 : ((j - 1) / 2 - 1) / 2 ≠ j := by omega
          simp only [hne1, hne2, if_false]
          have hgp := h.1 ((j - 1) / 2) hpi (by omega) (by omega)
          by_cases hcj : c = j
          · subst hcj
            have : c ≠ (c - 1) / 2 := by omega
            simp only [this, if_false, if_true]
            exact hgp
          · have hci : c ≠ (j - 1) / 2 := by omega
            simp only [hci, hcj, if_false]
            have := h.1 c hc hcs hcj
            rw [hcp] at this
            omega
      · rename_i hge
        intro k hk hks
        by_cases hkj : k = j
        · subst hkj; omega
        · exact h.1 k hk hks hkj

/-! ## `down` -/

theorem child_cases (a : Arr) (i n : Nat) : child a i n = 2 * i + 1 ∨ child a i n = 2 * i + 2 := by
  unfold child; split <;> omega

theorem child_lt (a : Arr) (i n : Nat) (h : 2 * i + 1 < n) : child a i n < n := by
  unfold child; split
  · rename_i hc; omega
  · omega

/-- heap on `[0,n)` except possibly between `i` and its children; `i`'s children dominate `i`'s
parent -/
def DownInv (a : Arr) (i n : Nat) : Prop :=
  (∀ k, 0 < k → k < n → (k - 1) / 2 ≠ i → prioAt a ((k - 1) / 2) ≤ prioAt a k) ∧
  (∀ c, 0 < c → c < n → (c - 1) / 2 = i → 0 < i → prioAt a ((i - 1) / 2) ≤ prioAt a c)

theorem down_size (a : Arr) (i n : Nat) : (down a i n).1.size = a.size := by
  induction hm : n - i using Nat.strongRecOn generalizing a i with
  | _ m ih =>
    unfold down
    split
    · rename_i hlt
      simp only
      split
      · simp only
        have := child_cases a i n
        have := child_lt a i n hlt
        rw [ih (n - child a i n) (by omega) _ _ rfl, size_swp]
      · rfl
    · rfl

theorem down_perm (a : Arr) (i n : Nat) : (down a i n).1.toList.Perm a.toList := by
  induction hm : n - i using Nat.strongRecOn generalizing a i with
  | _ m ih =>
    unfold down
    split
    · rename_i hlt
      simp only
      split
      · simp only
        have := child_cases a i n
        have := child_lt a i n hlt
        exact (ih (n - child a i n) (by omega) _ _ rfl).trans (swp_perm _ _ _)
      · exact List.Perm.refl _
    · exact List.Perm.refl _

/-- `down a i n` does not touch indices `≥ n` -/
theorem down_frame (a : Arr) (i n k : Nat) (hn : n ≤ a.size) (hk : n ≤ k) :
    (down a i n).1[k]? = a[k]? := by
  induction hm : n - i using Nat.strongRecOn generalizing a i with
  | _ m ih =>
    unfold down
    split
    · rename_i hlt
      simp only
      split
      · simp only
        have := child_cases a i n
        have := child_lt a i n hlt
        rw [ih (n - child a i n) (by omega) _ _ (by rw [size_swp]; exact hn) rfl,
          getElem?_swp a _ _ _ (by omega) (by omega)]
        have h1 : k ≠ i := by omega
        have h2 : k ≠ child a i n := by omega
        simp only [h1, h2, if_false]
      · rfl
    · rfl

/-- if `down` reports "not moved" the array is unchanged -/
theorem down_false (a : Arr) (i n : Nat) (h : (down a i n).2 = false) : (down a i n).1 = a := by
  unfold down at h ⊢
  split
  · rename_i hlt
    simp only [hlt, dite_true] at h
    simp only
    split
    · rename_i hc
      simp only [hc, if_true] at h
      cases h
    · rfl
  · rfl

theorem down_heapN (a : Arr) (i n : Nat) (hn : n ≤ a.size) (hi : i < n) (h : DownInv a i n) :
    IsHeapN (down a i n).1 n := by
  induction hm : n - i using Nat.strongRecOn generalizing a i with
  | _ m ih =>
    unfold down
    split
    · rename_i hlt'
      simp only
      generalize hj : child a i n = j
      have hjc : j = 2 * i + 1 ∨ j = 2 * i + 2 := hj ▸ child_cases a i n
      have hjn : j < n := hj ▸ child_lt a i n hlt'
      have hjpar : (j - 1) / 2 = i := by omega
      -- j is the smaller of the children inside the prefix
      have hjmin : ∀ c, 0 < c → c < n → (c - 1) / 2 = i → prioAt a j ≤ prioAt a c := by
        intro c hc hcn hcp
        have hcc : c = 2 * i + 1 ∨ c = 2 * i + 2 := by omega
        subst hj
        unfold child
        split
        · rename_i hcond
          rcases hcc with rfl | rfl
          · omega
          · exact Int.le_refl _
        · rename_i hcond
          rcases hcc with rfl | rfl
          · exact Int.le_refl _
          · have : ¬ (prioAt a (2 * i + 2) < prioAt a (2 * i + 1)) := by
              intro hh; exact hcond ⟨hcn, hh⟩
            omega
      split
      · rename_i hless
        simp only
        have hia : i < a.size := by omega
        have hja : j < a.size := by omega
        apply ih (n - j) (by omega) (swp a i j) j (by rw [size_swp]; exact hn) hjn _ rfl
        constructor
        · intro k hk hkn hkp
          rw [prioAt_swp a _ _ _ hia hja, prioAt_swp a _ _ _ hia hja]
          by_cases hki : k = i
          · subst hki
            have hpi : (k - 1) / 2 ≠ k := by omega
            have hpj : (k - 1) / 2 ≠ j := by omega
            simp only [hpi, hpj, if_false, if_true]
            exact h.2 j (by omega) hjn hjpar hk
          · by_cases hkj : k = j
            · subst hkj
              have : k ≠ i := hki
              simp only [hjpar, this, if_false, if_true]
              omega
            · simp only [hki, hkj, if_false]
              by_cases hp : (k - 1) / 2 = i
              · simp only [hp, if_true]
                exact hjmin k hk hkn hp
              · have hpj : (k - 1) / 2 ≠ j := hkp
                simp only [hp, hpj, if_false]
                exact h.1 k hk hkn hp
        · intro c hc hcn hcp hjpos
          rw [prioAt_swp a _ _ _ hia hja, prioAt_swp a _ _ _ hia hja]
          have hci : c ≠ i := by omega
          have hcj : c ≠ j := by omega
          have hji : j ≠ i := by omega
          simp only [hjpar, if_true, hci, hcj, if_false]
          have := h.1 c hc hcn (by omega)
          rw [hcp] at this
          exact this
      · rename_i hnl
        show IsHeapN a n
        intro k hk hkn
        by_cases hp : (k - 1) / 2 = i
        · have := hjmin k hk hkn hp
          rw [hp]; omega
        · exact h.1 k hk hkn hp
    · -- no children inside the prefix: nothing can be broken
      rename_i hge
      intro k hk hkn
      exact h.1 k hk hkn (by omega)

/-! ## root of a heap is minimal -/

theorem rootN_min (a : Arr) (n : Nat) (h : IsHeapN a n) (k : Nat) (hk : k < n) :
    prioAt a 0 ≤ prioAt a k := by
  induction k using Nat.strongRecOn with
  | _ k ih =>
    by_cases h0 : k = 0
    · subst h0; exact Int.le_refl _
    · have h1 := ih ((k - 1) / 2) (by omega) (by omega)
      have h2 := h k (by omega) hk
      omega

theorem prioAt_of_getElem? (a : Arr) (k : Nat) (e : Entry) (h : a[k]? = some e) :
    prioAt a k = e.prio := by
  unfold prioAt
  rw [Array.getD_eq_getD_getElem?, h]; rfl

theorem prioAt_congr (a b : Arr) (k : Nat) (h : a[k]? = b[k]?) : prioAt a k = prioAt b k := by
  unfold prioAt
  rw [Array.getD_eq_getD_getElem?, Array.getD_eq_getD_getElem?, h]

theorem mem_toList_iff_getElem? (a : Arr) (x : Entry) : x ∈ a.toList ↔ ∃ k, k < a.size ∧ a[k]? = some x := by
  rw [Array.mem_toList_iff, Array.mem_iff_getElem?]
  constructor
  · rintro ⟨k, hk⟩
    refine ⟨k, ?_, hk⟩
    by_cases hlt : k < a.size
    · exact hlt
    · rw [Array.getElem?_eq_none (by omega)] at hk; cases hk
  · rintro ⟨k, _, hk⟩; exact ⟨k, hk⟩

theorem heapN_root_min (a : Arr) (h : IsHeapN a a.size) (e : Entry) (h0 : a[0]? = some e) :
    ∀ x ∈ a.toList, e.prio ≤ x.prio := by
  intro x hx
  obtain ⟨k, hk, hkx⟩ := (mem_toList_iff_getElem? a x).mp hx
  have := rootN_min a a.size h k hk
  rw [prioAt_of_getElem? a 0 e h0, prioAt_of_getElem? a k x hkx] at this
  exact this

/-! ## `push` / `pop` of the backing array -/

theorem prioAt_push_lt (a : Arr) (e : Entry) (k : Nat) (hk : k < a.size) :
    prioAt (a.push e) k = prioAt a k := by
  apply prioAt_congr
  rw [Array.getElem?_push_lt hk, Array.getElem?_eq_getElem hk]

/-- removing the last slot of an array whose prefix is a heap -/
theorem pop_spec (b : Arr) (n : Nat) (e : Entry) (hs : b.size = n + 1) (hh : IsHeapN b n)
    (he : b[n]? = some e) :
    b.back? = some e ∧ b.toList.Perm (e :: b.pop.toList) ∧ IsHeapN b.pop b.pop.size := by
  obtain ⟨ys, x, rfl⟩ := Array.exists_push_of_size_pos (xs := b) (by omega)
  have hys : ys.size = n := by simpa using hs
  subst hys
  have hx : x = e := by simpa using he
  subst hx
  refine ⟨by simp, ?_, ?_⟩
  · simp only [Array.pop_push, Array.toList_push]
    exact List.perm_append_singleton _ _
  · simp only [Array.pop_push]
    intro k hk hkn
    have := hh k hk hkn
    rw [prioAt_push_lt _ _ _ (by omega), prioAt_push_lt _ _ _ hkn] at this
    exact this

/-! ## `hpush` -/

theorem hpush_size (a : Arr) (e : Entry) : (hpush a e).size = a.size + 1 := by
  unfold hpush; rw [up_size]; simp

theorem hpush_perm' (a : Arr) (e : Entry) : (hpush a e).toList.Perm (e :: a.toList) := by
  unfold hpush
  refine (up_perm _ _).trans ?_
  simp only [Array.toList_push]
  exact List.perm_append_singleton _ _

theorem hpush_heapN (a : Arr) (e : Entry) (h : IsHeapN a a.size) :
    IsHeapN (hpush a e) (hpush a e).size := by
  rw [hpush_size]
  unfold hpush
  apply up_heapN _ _ _ (by simp) (by omega)
  constructor
  · intro k hk hks hne
    have hk' : k < a.size := by omega
    rw [prioAt_push_lt _ _ _ hk', prioAt_push_lt _ _ _ (by omega)]
    exact h k hk hk'
  · intro c hc hcs hcp hpos
    omega

/-! ## `hpop` -/

theorem hpop_empty' (a : Arr) (h : a.size = 0) : hpop a = (a, none) := by
  unfold hpop; simp [h]

theorem hpop_core (a : Arr) (h : IsHeapN a a.size) (hne : a.size ≠ 0) :
    ∃ a' e, hpop a = (a', some e) ∧ a.toList.Perm (e :: a'.toList) ∧ IsHeapN a' a'.size ∧
      a[0]? = some e := by
  have h0 : 0 < a.size := by omega
  have hn : a.size - 1 < a.size := by omega
  generalize hnn : a.size - 1 = n at hn
  let a1 := swp a 0 n
  have ha1s : a1.size = a.size := size_swp _ _ _
  let a2 := (down a1 0 n).1
  have ha2s : a2.size = n + 1 := by
    show (down a1 0 n).1.size = n + 1
    rw [down_size, ha1s]; omega
  have hpo : hpop a = (a2.pop, a2.back?) := by
    unfold hpop
    simp only [hne, if_false, hnn]
    rfl
  -- the last slot holds the old root
  have hlast : a2[n]? = a[0]? := by
    show (down a1 0 n).1[n]? = a[0]?
    rw [down_frame _ _ _ _ (by omega) (Nat.le_refl _)]
    show (swp a 0 n)[n]? = a[0]?
    rw [getElem?_swp a 0 n n h0 hn]
    split
    · rename_i h; rw [h]
    · simp
  have hheap : IsHeapN a2 n := by
    by_cases hn0 : n = 0
    · subst hn0; intro k hk hk'; omega
    apply down_heapN _ _ _ (by omega) (by omega)
    constructor
    · intro k hk hkn hkp
      show prioAt (swp a 0 n) _ ≤ prioAt (swp a 0 n) _
      rw [prioAt_swp a _ _ _ h0 hn, prioAt_swp a _ _ _ h0 hn]
      have e1 : (k - 1) / 2 ≠ 0 := hkp
      have e2 : (k - 1) / 2 ≠ n := by omega
      have e3 : k ≠ 0 := by omega
      have e4 : k ≠ n := by omega
      simp only [e1, e2, e3, e4, if_false]
      exact h k hk (by omega)
    · intro c _ _ _ hpos; omega
  have hperm : a2.toList.Perm a.toList := (down_perm _ _ _).trans (swp_perm _ _ _)
  obtain ⟨e, he⟩ : ∃ e, a[0]? = some e := ⟨a[0], Array.getElem?_eq_getElem h0⟩
  obtain ⟨hb, hp, hh⟩ := pop_spec a2 n e ha2s hheap (hlast.trans he)
  exact ⟨a2.pop, e, by rw [hpo, hb], hperm.symm.trans hp, hh, he⟩

/-! ## `hremove` -/

theorem heapN_upInv (a : Arr) (j n : Nat) (h : IsHeapN a n) (hj : j < n) : UpInv a j n := by
  constructor
  · intro k hk hkn _; exact h k hk hkn
  · intro c hc hcn hcp hpos
    have h1 := h c hc hcn
    have h2 := h j hpos hj
    rw [hcp] at h1; omega

theorem hremove_core (a : Arr) (i : Nat) (h : IsHeapN a a.size) (hi : i < a.size) :
    ∃ a' e, hremove a i = (a', some e) ∧ a[i]? = some e ∧ a.toList.Perm (e :: a'.toList) ∧
      IsHeapN a' a'.size := by
  have hne : a.size ≠ 0 := by omega
  have hn : a.size - 1 < a.size := by omega
  generalize hnn : a.size - 1 = n at hn
  obtain ⟨e, he⟩ : ∃ e, a[i]? = some e := ⟨a[i], Array.getElem?_eq_getElem hi⟩
  have hguard : ¬ (a.size = 0 ∨ i ≥ a.size) := by omega
  by_cases hni : n = i
  · -- removing the last slot
    have hre : hremove a i = (a.pop, a.back?) := by
      unfold hremove
      simp only [hguard, if_false, hnn, hni, ne_eq, not_true_eq_false]
    have hh : IsHeapN a n := fun k hk hkn => h k hk (by omega)
    obtain ⟨hb, hp, hh'⟩ := pop_spec a n e (by omega) hh (hni ▸ he)
    exact ⟨a.pop, e, by rw [hre, hb], he, hp, hh'⟩
  · have hin : i < n := by omega
    let a1 := swp a i n
    have ha1s : a1.size = a.size := size_swp _ _ _
    have hp1 : ∀ k, prioAt a1 k = if k = i then prioAt a n else if k = n then prioAt a i else prioAt a k :=
      fun k => prioAt_swp a i n k hi hn
    -- facts about `a1` on the prefix `[0, n)`
    have F1 : ∀ k, 0 < k → k < n → k ≠ i → (k - 1) / 2 ≠ i → prioAt a1 ((k - 1) / 2) ≤ prioAt a1 k := by
      intro k hk hkn hki hkp
      rw [hp1, hp1]
      have e2 : (k - 1) / 2 ≠ n := by omega
      have e4 : k ≠ n := by omega
      simp only [hkp, e2, hki, e4, if_false]
      exact h k hk (by omega)
    have F2 : ∀ c, 0 < c → c < n → (c - 1) / 2 = i → 0 < i → prioAt a1 ((i - 1) / 2) ≤ prioAt a1 c := by
      intro c hc hcn hcp hpos
      rw [hp1, hp1]
      have e1 : (i - 1) / 2 ≠ i := by omega
      have e2 : (i - 1) / 2 ≠ n := by omega
      have e3 : c ≠ i := by omega
      have e4 : c ≠ n := by omega
      simp only [e1, e2, e3, e4, if_false]
      have h1 := h c hc (by omega)
      have h2 := h i hpos hi
      rw [hcp] at h1; omega
    let r := down a1 i n
    let a2 := if r.2 then r.1 else up r.1 i
    have hre : hremove a i = (a2.pop, a2.back?) := by
      unfold hremove
      simp only [hguard, if_false, hnn, ne_eq, hni, not_false_eq_true, if_true]
      rfl
    have hrs : r.1.size = a.size := by
      show (down a1 i n).1.size = a.size
      rw [down_size, ha1s]
    have ha2s : a2.size = n + 1 := by
      show (if r.2 then r.1 else up r.1 i).size = n + 1
      split
      · omega
      · rw [up_size]; omega
    have hrl : r.1[n]? = a[i]? := by
      show (down a1 i n).1[n]? = a[i]?
      rw [down_frame _ _ _ _ (by omega) (Nat.le_refl _)]
      show (swp a i n)[n]? = a[i]?
      rw [getElem?_swp a i n n hi hn]
      have : n ≠ i := hni
      simp [this]
    have hlast : a2[n]? = a[i]? := by
      show (if r.2 then r.1 else up r.1 i)[n]? = a[i]?
      split
      · exact hrl
      · rw [up_frame _ _ _ (by omega) hin]; exact hrl
    have hperm : a2.toList.Perm a.toList := by
      have hr : r.1.toList.Perm a.toList := (down_perm _ _ _).trans (swp_perm _ _ _)
      show (if r.2 then r.1 else up r.1 i).toList.Perm a.toList
      split
      · exact hr
      · exact (up_perm _ _).trans hr
    have hheap : IsHeapN a2 n := by
      by_cases hA : i = 0 ∨ prioAt a1 ((i - 1) / 2) ≤ prioAt a1 i
      · -- the moved element is not smaller than its new parent: `down` repairs the heap
        have hD : DownInv a1 i n := by
          constructor
          · intro k hk hkn hkp
            by_cases hki : k = i
            · subst hki
              rcases hA with hA | hA
              · omega
              · exact hA
            · exact F1 k hk hkn hki hkp
          · exact F2
        have hH : IsHeapN r.1 n := down_heapN a1 i n (by omega) hin hD
        show IsHeapN (if r.2 then r.1 else up r.1 i) n
        split
        · exact hH
        · exact up_heapN _ _ _ (by omega) hin (heapN_upInv _ _ _ hH hin)
      · -- the moved element is smaller than its new parent: `down` is a no-op, `up` repairs
        have hpos : 0 < i := by omega
        have hlt : prioAt a1 i < prioAt a1 ((i - 1) / 2) := by omega
        have hdn : down a1 i n = (a1, false) := by
          unfold down
          split
          · rename_i hc
            simp only
            have hcl := child_lt a1 i n hc
            have hcc := child_cases a1 i n
            have := F2 (child a1 i n) (by omega) hcl (by omega) hpos
            have hnl : ¬ prioAt a1 (child a1 i n) < prioAt a1 i := by omega
            simp only [hnl, if_false]
          · rfl
        have hr1 : r = (a1, false) := hdn
        show IsHeapN (if r.2 then r.1 else up r.1 i) n
        rw [hr1]
        simp only [Bool.false_eq_true, if_false]
        apply up_heapN _ _ _ (by omega) hin
        constructor
        · intro k hk hkn hki
          by_cases hkp : (k - 1) / 2 = i
          · have := F2 k hk hkn hkp hpos
            rw [hkp]; omega
          · exact F1 k hk hkn hki hkp
        · exact F2
    obtain ⟨hb, hp, hh⟩ := pop_spec a2 n e ha2s hheap (hlast.trans he)
    exact ⟨a2.pop, e, by rw [hre, hb], he, hperm.symm.trans hp, hh⟩

end Queue
