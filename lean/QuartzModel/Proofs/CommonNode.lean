import QuartzModel.Proofs.Odometer
import QuartzModel.Cron.Nodes
import QuartzModel.Cron.Spec
/-!
# CommonNode meets the odometer level contract

`commonLvl min max values` (model of `internal/csm/common_node.go`) satisfies `Odo.LvlOK` and
`Odo.LvlBound` for a sorted value list inside `[min,max]` (or no list).

**Deviation from the requested statement.**  `commonLvl_ok` *without* a further hypothesis is false:
with no value list, `Next` is `v+1` whenever `v+1 ≤ max`, also when `v+1 < min`, so the produced
digit is not valid (`min = 5, max = 10, values = [], v = 0`: `Next` yields `(1,false)` and `1` is not
in `[5,10]`; see `commonLvl_ok_counterexample`).  The Go code has the same behaviour
(`CommonNode.next` never looks at `min` unless it wraps).  The contract holds as soon as
`min ≤ 1 ∨ values ≠ []`, which is the case for all six nodes built by `newCSMFromFields`
(`min` is 0 or 1).  That hypothesis is about the node limits, not about the parsed field, so the
theorem is delivered as `commonLvl_ok_partial`; the name `commonLvl_ok` is deliberately absent.

Everything else is proved as requested.  `commonLvl_ok_lower` / `commonLvl_bound_values` are
slightly more general forms (only the lower bound of the list is needed for the contract, which is
what the year node needs: its list is within `[1970,3940]` while the node range is `[0,2261]`).
-/
namespace Cron
open Odo

/-! ## Lists -/

theorem sorted_tail {a : Nat} {t : List Nat} (h : Sorted (a :: t) = true) : Sorted t = true := by
  cases t with
  | nil => rfl
  | cons b t =>
    simp only [Sorted, Bool.and_eq_true] at h
    exact h.2

theorem sorted_head_le {a : Nat} {t : List Nat} (h : Sorted (a :: t) = true) :
    ∀ y ∈ t, a ≤ y := by
  induction t generalizing a with
  | nil => intro y hy; cases hy
  | cons b t ih =>
    intro y hy
    simp only [Sorted, Bool.and_eq_true, decide_eq_true_eq] at h
    cases hy with
    | head => exact h.1
    | tail _ hy' => exact Nat.le_trans h.1 (ih h.2 y hy')

/-- Sorted (adjacent ≤, Bool) implies pairwise ≤ -/
theorem sorted_pairwise (l : List Nat) (h : Sorted l = true) : l.Pairwise (· ≤ ·) := by
  induction l with
  | nil => exact List.Pairwise.nil
  | cons a t ih =>
    exact List.Pairwise.cons (fun y hy => sorted_head_le h y hy) (ih (sorted_tail h))

theorem allIn_iff (lo hi : Nat) (l : List Nat) :
    allIn lo hi l = true ↔ ∀ x ∈ l, lo ≤ x ∧ x ≤ hi := by
  simp [allIn, List.all_eq_true]

/-- in a sorted list `find?` returns the least element satisfying the predicate -/
theorem find_least (p : Nat → Bool) (l : List Nat) (hs : Sorted l = true) (x : Nat)
    (h : l.find? p = some x) : x ∈ l ∧ p x = true ∧ ∀ y ∈ l, p y = true → x ≤ y := by
  induction l with
  | nil => simp at h
  | cons a t ih =>
    simp only [List.find?] at h
    cases hp : p a with
    | true =>
      simp [hp] at h; subst h
      refine ⟨by simp, hp, ?_⟩
      intro y hy _
      cases hy with
      | head => exact Nat.le_refl _
      | tail _ hy' => exact sorted_head_le hs y hy'
    | false =>
      simp [hp] at h
      obtain ⟨h1, h2, h3⟩ := ih (sorted_tail hs) h
      refine ⟨by simp [h1], h2, ?_⟩
      intro y hy hpy
      cases hy with
      | head => rw [hp] at hpy; cases hpy
      | tail _ hy' => exact h3 y hy' hpy

/-! ## Validity -/

/-- validity of a common node, spelled out -/
theorem commonValid_iff (min max : Nat) (values : List Nat) (v : Nat) :
    commonValid min max values v = true ↔ min ≤ v ∧ v ≤ max ∧ memOrAny values v := by
  unfold commonValid memOrAny
  cases values with
  | nil => simp
  | cons a t => simp [and_assoc]

theorem commonValid_le (min max : Nat) (values : List Nat) (v : Nat)
    (h : commonValid min max values v = true) : v ≤ max :=
  ((commonValid_iff min max values v).mp h).2.1

/-! ## `Next` -/

theorem pick_iff (v max x : Nat) :
    (decide (v < x) && decide (x ≤ max)) = true ↔ v < x ∧ x ≤ max := by simp

/-- `Next` without overflow: the least valid value above `v`.  Only the lower bound of the list is
used; `hmin` is needed for the list-less node only (`v+1` must not fall below `min`). -/
theorem commonNext_ok (min max : Nat) (values : List Nat)
    (hs : Sorted values = true) (hlo : ∀ x ∈ values, min ≤ x)
    (hmin : min ≤ 1 ∨ values ≠ []) (v : Nat)
    (h : (commonNext min max values v).2 = false) :
    commonValid min max values (commonNext min max values v).1 = true ∧
      v < (commonNext min max values v).1 ∧
      ∀ u, commonValid min max values u = true → v < u → (commonNext min max values v).1 ≤ u := by
  simp only [commonValid_iff]
  unfold commonNext nextInRange memOrAny at *
  cases values with
  | nil =>
    simp only [ne_eq, not_true_eq_false, if_false] at h ⊢
    have hmin' : min ≤ 1 := by
      rcases hmin with h1 | h1
      · exact h1
      · exact absurd rfl h1
    split at h
    · cases h
    · rename_i hle
      simp only [hle, if_false]
      refine ⟨⟨by omega, by omega, by simp⟩, by omega, ?_⟩
      intro u _ hu; omega
  | cons a t =>
    simp only [ne_eq, reduceCtorEq, not_false_eq_true, if_true] at h ⊢
    cases hf : (a :: t).find? (fun x => decide (v < x) && decide (x ≤ max)) with
    | none => rw [hf] at h; cases h
    | some x =>
      simp only
      obtain ⟨hm, hp, hleast⟩ := find_least _ _ hs x hf
      simp only [pick_iff] at hp hleast
      refine ⟨⟨hlo x hm, hp.2, Or.inr hm⟩, hp.1, ?_⟩
      intro u hu hvu
      rcases hu with ⟨_, hu2, hu3 | hu3⟩
      · cases hu3
      · exact hleast u hu3 ⟨hvu, hu2⟩

/-- `Next` with overflow: no valid value above `v` (no hypothesis on the list at all) -/
theorem commonNext_ovf (min max : Nat) (values : List Nat) (v : Nat)
    (h : (commonNext min max values v).2 = true) :
    ∀ u, commonValid min max values u = true → u ≤ v := by
  intro u hu
  rw [commonValid_iff] at hu
  unfold commonNext nextInRange at h
  unfold memOrAny at hu
  cases values with
  | nil =>
    simp only [ne_eq, not_true_eq_false, if_false] at h
    split at h
    · have := hu.2.1; omega
    · cases h
  | cons a t =>
    simp only [ne_eq, reduceCtorEq, not_false_eq_true, if_true] at h
    cases hf : (a :: t).find? (fun x => decide (v < x) && decide (x ≤ max)) with
    | some x => rw [hf] at h; cases h
    | none =>
      rcases hu with ⟨_, hu2, hu3 | hu3⟩
      · cases hu3
      · have := List.find?_eq_none.mp hf u hu3
        simp only [pick_iff] at this
        omega

/-! ## `Reset` -/

/-- `Reset` on a node with a list is the head of the list -/
theorem commonReset_cons (min max a : Nat) (t : List Nat) :
    commonReset min max (a :: t) = a := by
  unfold commonReset commonNext nextInRange
  simp only [ne_eq, reduceCtorEq, not_false_eq_true, if_true]
  cases hf : (a :: t).find? (fun x => decide (max < x) && decide (x ≤ max)) with
  | none => rfl
  | some x =>
    have := List.find?_some hf
    simp only [pick_iff] at this
    omega

/-- `Reset` on a list-less node is `min` -/
theorem commonReset_nil (min max : Nat) : commonReset min max [] = min := by
  unfold commonReset commonNext
  simp

/-- `Reset` yields the least valid value whenever a valid value exists (lower bound of the list
only; the list may reach beyond `max`). -/
theorem commonReset_least (min max : Nat) (values : List Nat)
    (hs : Sorted values = true) (hlo : ∀ x ∈ values, min ≤ x)
    (hex : ∃ u, commonValid min max values u = true) :
    commonValid min max values (commonReset min max values) = true ∧
    ∀ u, commonValid min max values u = true → commonReset min max values ≤ u := by
  simp only [commonValid_iff] at hex ⊢
  unfold memOrAny at *
  cases values with
  | nil =>
    rw [commonReset_nil]
    obtain ⟨u, h1, h2, _⟩ := hex
    exact ⟨⟨Nat.le_refl _, by omega, Or.inl rfl⟩, fun u hu => hu.1⟩
  | cons a t =>
    rw [commonReset_cons]
    have hle : ∀ y ∈ a :: t, a ≤ y := by
      intro y hy
      cases hy with
      | head => exact Nat.le_refl _
      | tail _ hy' => exact sorted_head_le hs y hy'
    obtain ⟨u, _, h2, h3 | h3⟩ := hex
    · cases h3
    · have := hle u h3
      refine ⟨⟨hlo a (by simp), by omega, Or.inr (by simp)⟩, ?_⟩
      intro w hw
      rcases hw with ⟨_, _, hw | hw⟩
      · cases hw
      · exact hle w hw

/-- what Reset yields: the least valid value -/
theorem commonReset_spec (min max : Nat) (values : List Nat)
    (hs : Sorted values = true) (hin : allIn min max values = true) (hmm : min ≤ max) :
    commonValid min max values (commonReset min max values) = true ∧
    ∀ u, commonValid min max values u = true → commonReset min max values ≤ u := by
  have hb := (allIn_iff min max values).mp hin
  apply commonReset_least min max values hs (fun x hx => (hb x hx).1)
  cases values with
  | nil => exact ⟨min, by rw [commonValid_iff]; exact ⟨Nat.le_refl _, hmm, Or.inl rfl⟩⟩
  | cons a t =>
    have := hb a (by simp)
    exact ⟨a, by rw [commonValid_iff]; exact ⟨this.1, this.2, Or.inr (by simp)⟩⟩

/-! ## The contract -/

/-- The contract from the lower bound of the list alone (the list may reach beyond `max`, as the
year list does: values within `[1970,3940]`, node range `[0,2261]`). -/
theorem commonLvl_ok_lower (n k min max : Nat) (values : List Nat)
    (hs : Sorted values = true) (hlo : ∀ x ∈ values, min ≤ x)
    (hmin : min ≤ 1 ∨ values ≠ []) :
    LvlOK n k (commonLvl min max values) where
  ext_valid := fun _ _ _ _ => Iff.rfl
  next_ok := fun _ v h => commonNext_ok min max values hs hlo hmin v h
  next_ovf := fun _ v h => commonNext_ovf min max values v h
  rst_ok := fun _ hex => commonReset_least min max values hs hlo hex

/-- the contract: for a sorted value list inside [min,max] (or no list), at every level index k of
an n-level odometer.  **Extra hypothesis `hmin`** compared with the requested `commonLvl_ok`
(which is false without it, see `commonLvl_ok_counterexample`): a list-less node must have
`min ≤ 1`.  True for every node of `newCSMFromFields` (`min ∈ {0,1}`). -/
theorem commonLvl_ok_partial (n k min max : Nat) (values : List Nat)
    (hs : Sorted values = true) (hin : allIn min max values = true) (_hmm : min ≤ max)
    (hmin : min ≤ 1 ∨ values ≠ []) :
    LvlOK n k (commonLvl min max values) :=
  commonLvl_ok_lower n k min max values hs
    (fun x hx => ((allIn_iff min max values).mp hin x hx).1) hmin

/-- The requested `commonLvl_ok` (no `hmin`) is false: list-less node on `[5,10]`, digit `0`.
`Next` reports "no overflow" and yields `1`, which is not valid. -/
theorem commonLvl_ok_counterexample :
    Sorted [] = true ∧ allIn 5 10 [] = true ∧ 5 ≤ 10 ∧ ¬ LvlOK 1 0 (commonLvl 5 10 []) := by
  refine ⟨rfl, rfl, by decide, ?_⟩
  intro h
  have h1 : commonValid 5 10 [] (commonNext 5 10 [] 0).1 = true :=
    (h.next_ok ⟨fun _ => 0⟩ 0 (by decide)).1
  revert h1
  decide

/-- digit bounds from a bound on the listed values (they need not be ≤ max) -/
theorem commonLvl_bound_values (B : Nat → Nat) (k min max : Nat) (values : List Nat)
    (hv : ∀ x ∈ values, x ≤ B k) (hmm : min ≤ max) (hB : max ≤ B k) :
    LvlBound B k (commonLvl min max values) := by
  have hnext : ∀ v, (commonNext min max values v).1 ≤ B k := by
    intro v
    unfold commonNext nextInRange
    cases values with
    | nil =>
      simp only [ne_eq, not_true_eq_false, if_false]
      split
      · show min ≤ B k; omega
      · show v + 1 ≤ B k; omega
    | cons a t =>
      simp only [ne_eq, reduceCtorEq, not_false_eq_true, if_true]
      cases hf : (a :: t).find? (fun x => decide (v < x) && decide (x ≤ max)) with
      | none => exact hv a (by simp)
      | some x => exact hv x (List.mem_of_find?_eq_some hf)
  exact ⟨fun _ v _ => hnext v, fun _ => hnext max⟩

/-- digit bounds: everything the node outputs, and every valid digit, is ≤ max -/
theorem commonLvl_bound (B : Nat → Nat) (k min max : Nat) (values : List Nat)
    (hin : allIn min max values = true) (hmm : min ≤ max) (hB : max ≤ B k) :
    LvlBound B k (commonLvl min max values) :=
  commonLvl_bound_values B k min max values
    (fun x hx => Nat.le_trans ((allIn_iff min max values).mp hin x hx).2 hB) hmm hB

/-! ## Non-vacuity -/

example : LvlOK 6 0 (commonLvl 0 59 [0, 15, 30, 45]) :=
  commonLvl_ok_partial 6 0 0 59 [0, 15, 30, 45] (by decide) (by decide) (by decide)
    (Or.inl (by decide))

/-- month node, no list: `min = 1` -/
example : LvlOK 6 4 (commonLvl 1 12 []) :=
  commonLvl_ok_partial 6 4 1 12 [] (by decide) (by decide) (by decide) (Or.inl (by decide))

/-- year node: list beyond `max` is fine for the contract -/
example : LvlOK 6 5 (commonLvl 0 2261 [1999, 2024, 3000]) :=
  commonLvl_ok_lower 6 5 0 2261 [1999, 2024, 3000] (by decide) (fun _ _ => Nat.zero_le _)
    (Or.inl (by decide))

example : LvlBound B6 0 (commonLvl 0 59 [0, 15, 30, 45]) :=
  commonLvl_bound B6 0 0 59 [0, 15, 30, 45] (by decide) (by decide) (by decide)

example : commonValid 0 59 [0, 15, 30, 45] 30 = true ∧ commonReset 0 59 [0, 15, 30, 45] = 0 ∧
    commonNext 0 59 [0, 15, 30, 45] 45 = (0, true) ∧ commonNext 0 59 [0, 15, 30, 45] 7 = (15, false) ∧
    commonNext 0 59 [] 59 = (0, true) ∧ commonNext 0 59 [] 100 = (0, true) := by decide

example : (commonValid_iff 0 59 [0, 15, 30, 45] 30).mp (by decide) =
    ⟨Nat.zero_le _, by decide, Or.inr (by decide)⟩ := rfl

example : [0, 15, 30, 45].Pairwise (· ≤ ·) := sorted_pairwise _ (by decide)

example : commonValid 0 59 [0, 15, 30, 45] (commonReset 0 59 [0, 15, 30, 45]) = true :=
  (commonReset_spec 0 59 [0, 15, 30, 45] (by decide) (by decide) (by decide)).1

example : (45 : Nat) ≤ 59 := commonValid_le 0 59 [0, 15, 30, 45] 45 (by decide)

end Cron
