import QuartzModel.Generated.TransSched
import QuartzModel.Sched.Model
import QuartzModel.Proofs.SchedLemmas
/-!
# Representation maps between the translated scheduler code (`Generated.TransSched`) and the hand-written
model (`Sched.Model`), the model instances of the externals, and the equivalence lemmas.

* `ofEntry` / `toEntry`: a model `Queue.Entry` as a translated `scheduledJob` and back.
* `modelQ : JobQueueExt (Arr × List Entry) Matcher`: the default-queue model `Queue.qpush` … as a queue external
  (the second component logs the successfully pushed entries, so that `StepOut.pushed` is observable).
* `modelT : TriggerExt (List (Nat × Trig) × List TrigCall)`: trigger objects by identity, `Sched.Trig.fire`; the
  second component logs the calls (`StepOut.calls`).
-/
namespace TransSched
open Generated.TransSched Sched Queue

/-! ## representation -/

/-- a model entry as a Go `*scheduledJob` (non-nil detail, key, options, trigger; `tag` = identity of the trigger) -/
def ofEntry (e : Entry) : scheduledJob :=
  { job := some { job := none, jobKey := some { name := e.name, group := e.group },
                  opts := some { Suspended := e.suspended, Replace := e.replace } },
    trigger := some e.tag, priority := e.prio }

/-- what the default queue and the scheduler observe of a `ScheduledJob` -/
def toEntry (j : scheduledJob) : Entry :=
  { group := (deref (deref j.job).jobKey).group, name := (deref (deref j.job).jobKey).name, prio := j.priority,
    suspended := (deref (deref j.job).opts).Suspended, replace := (deref (deref j.job).opts).Replace,
    tag := deref j.trigger }

@[simp] theorem toEntry_ofEntry (e : Entry) : toEntry (ofEntry e) = e := rfl

@[simp] theorem deref_some {α : Type} [Inhabited α] (a : α) : deref (some a) = a := rfl

/-- the errors of the default queue (`quartz/queue.go`: `newIllegalStateError(ErrQueueEmpty)` …) -/
def qerr : QErr → Option Err
  | .queueEmpty => newIllegalStateError (some ErrQueueEmpty)
  | .jobNotFound => newIllegalStateError (some ErrJobNotFound)
  | .jobAlreadyExists => newIllegalStateError (some ErrJobAlreadyExists)

theorem qerr_isSome (e : QErr) : (qerr e).isSome = true := by cases e <;> rfl

/-- the model's classification of a Go error by `errors.Is` against the sentinels -/
def absErr : Option Err → Option SErr
  | none => none
  | some e =>
    if e.is ErrIllegalArgument then some .illegalArgument
    else if e.is ErrJobAlreadyExists then some .jobAlreadyExists
    else if e.is ErrJobNotFound then some .jobNotFound
    else if e.is ErrJobIsSuspended then some .jobIsSuspended
    else if e.is ErrJobIsActive then some .jobIsActive
    else if e.is ErrQueueEmpty then some .queueEmpty
    else some .triggerError

theorem absErr_qerr (e : QErr) : absErr (qerr e) = some (ofQErr e) := by cases e <;> decide

/-- queue state of the model instance: the heap array and the log of successful pushes -/
abbrev MQ := Arr × List Entry
/-- trigger heap of the model instance: trigger objects by identity and the log of calls -/
abbrev MH := List (Nat × Trig) × List TrigCall

/-- the default-queue model as the external `JobQueue` -/
def modelQ : JobQueueExt MQ Matcher where
  Push q j :=
    match qpush q.1 (toEntry (deref j)) with
    | .ok q' => ((q', q.2 ++ [toEntry (deref j)]), none)
    | .error e => (q, qerr e)
  Pop q :=
    match qpop q.1 with
    | .ok (q', e) => ((q', q.2), (some (ofEntry e), none))
    | .error e => (q, (none, qerr e))
  Head q :=
    match qhead q.1 with
    | .ok e => (q, (some (ofEntry e), none))
    | .error e => (q, (none, qerr e))
  Get q k :=
    match qget q.1 (deref k).group (deref k).name with
    | .ok e => (q, (some (ofEntry e), none))
    | .error e => (q, (none, qerr e))
  Remove q k :=
    match qremove q.1 (deref k).group (deref k).name with
    | .ok (q', e) => ((q', q.2), (some (ofEntry e), none))
    | .error e => (q, (none, qerr e))
  ScheduledJobs q ms := (q, ((qlist q.1 ms).map (fun e => some (ofEntry e)), none))
  Size q := (q, (Int.ofNat q.1.size, none))
  Clear q := ((#[], q.2), none)

/-- `Sched.Trig.fire` on trigger objects held by identity as the external `Trigger` -/
def modelT : TriggerExt MH where
  NextFireTime h ref prev :=
    let r := ((h.1.lookup ref).getD (.script [])).fire prev
    (((ref, r.2) :: h.1.filter (fun p => p.1 != ref), h.2 ++ [⟨ref, prev, r.1⟩]),
      match r.1 with
      | some v => (v, none)
      | none => (0, some ErrTriggerExpired))
  Description h _ := (h, "")

def envOf (thr : Int) (started : Bool) (now : Int) : Env := { opts := { OutdatedThreshold := thr }, started := started, now := now }

/-- a model state as the state of the translated code (empty logs) -/
def stOf (s : SState) : St MQ MH := { queue := (s.q, []), trigs := (s.trigs, []), out := [] }

/-- back -/
def ssOf (σ : St MQ MH) : SState := { q := σ.queue.1, trigs := σ.trigs.1 }

@[simp] theorem ssOf_stOf (s : SState) : ssOf (stOf s) = s := rfl

/-! ## int64 -/

theorem i64_id {x : Int} (h : -9223372036854775808 ≤ x ∧ x ≤ 9223372036854775807) : i64 x = x := by
  unfold i64; omega

theorem i64_range (x : Int) : -9223372036854775808 ≤ i64 x ∧ i64 x ≤ 9223372036854775807 := by
  unfold i64; omega

/-! ## the triggers -/

/-- translated `addNanos` = `goAddNanos`-style saturating add = the model's `satAdd`, under the hypotheses of
`C04_addNanos_is_satAdd` -/
theorem addNanos_eq_satAdd (t d : Int) (ht : -maxInt64 - 1 ≤ t ∧ t ≤ maxInt64) (hd : d ≤ maxInt64)
    (hlow : 0 < d ∨ -maxInt64 - 1 ≤ t + d) : addNanos t d = satAdd t d := by
  unfold addNanos satAdd i64 maxInt64 at *
  simp only [Bool.and_eq_true, decide_eq_true_eq]
  split <;> split <;> omega

/-- well-formed int64 arguments for a trigger call -/
def I64 (x : Int) : Prop := -maxInt64 - 1 ≤ x ∧ x ≤ maxInt64

theorem simple_fire (i prev : Int) (hp : I64 prev) (hi : I64 i) (hlow : 0 < i ∨ -maxInt64 - 1 ≤ prev + i) :
    SimpleTrigger.NextFireTime { Interval := i } prev = (((Trig.simple i).fire prev).1.getD 0, none) ∧
    ((Trig.simple i).fire prev).2 = .simple i := by
  unfold SimpleTrigger.NextFireTime Trig.fire
  simp only [Option.getD_some, and_true]
  rw [addNanos_eq_satAdd prev i hp hi.2 hlow]

theorem runOnce_fire (d prev : Int) (ex : Bool) (hp : I64 prev) (hd : I64 d) (hlow : 0 < d ∨ -maxInt64 - 1 ≤ prev + d) :
    let r := RunOnceTrigger.NextFireTime { Delay := d, Expired := ex } prev
    let m := (Trig.runOnce d ex).fire prev
    Trig.runOnce r.1.Delay r.1.Expired = m.2 ∧
    (match m.1 with
     | some v => r.2 = (v, none)
     | none => r.2 = (0, some ErrTriggerExpired)) := by
  cases ex with
  | false =>
    simp only [RunOnceTrigger.NextFireTime, Trig.fire, Bool.not_false, if_true]
    rw [addNanos_eq_satAdd prev d hp hd.2 hlow]
    simp
  | true =>
    simp [RunOnceTrigger.NextFireTime, Trig.fire]

/-- the class of a defunctionalised extractor -/
def fnClass : validateJob.Fn → Class
  | .lit0 => .suspended
  | .lit1 _ _ => .outdated
  | .lit2 _ => .notDue
  | .lit3 _ => .valid

theorem validateJob_spec {Q H M : Type} (JQ : JobQueueExt Q M) (TR : TriggerExt H) (σ : St Q H) (e : Entry) (now thr : Int) (started : Bool)
    (hnov : i64 (now - thr) = now - thr) :
    let r := validateJob JQ TR (envOf thr started now) σ (some (ofEntry e))
    fnClass r.2.2 = classify e now thr ∧ r.2.1 = (classify e now thr == .valid) ∧
    r.1.queue = σ.queue ∧ r.1.trigs = σ.trigs ∧
    r.1.out = σ.out ++ (match classify e now thr with
      | .outdated => [Event.log "Info" "Job is outdated", Event.misfireOffer (some (ofEntry e))]
      | .notDue => [Event.log "Debug" "Job is not due to run yet"]
      | _ => []) ∧
    r.2.2 = (match classify e now thr with
      | .suspended => .lit0
      | .outdated => .lit1 (some (ofEntry e)) now
      | .notDue => .lit2 (some (ofEntry e))
      | .valid => .lit3 (some (ofEntry e))) := by
  simp only [validateJob, classify, envOf, deref_some, scheduledJob.JobDetail, scheduledJob.NextRunTime, ofEntry, hnov, St.emit]
  cases hs : e.suspended
  · simp only [Bool.false_eq_true, if_false, decide_eq_true_eq]
    by_cases h1 : e.prio < now - thr
    · simp [h1, fnClass]
    · by_cases h2 : e.prio > now
      · simp [h1, h2, fnClass]
      · simp [h1, h2, fnClass]
  · simp [fnClass]

/-! ## observables of a dispatch step -/

def isMisfire : Event → Bool
  | .misfireOffer _ => true
  | _ => false
def hasMisfire (out : List Event) : Bool := out.any isMisfire
def clsOf (valid : Bool) (out : List Event) : Class :=
  if valid then .valid else if hasMisfire out then .outdated
  else if out.contains (Event.log "Debug" "Job is not due to run yet") then .notDue else .suspended

def absStep (r : St MQ MH × (Option scheduledJob × Bool × Option Err)) : SState × StepOut :=
  (ssOf r.1, { popped := r.2.1.map toEntry, cls := r.2.1.map (fun _ => clsOf r.2.2.1 r.1.out), dispatched := r.2.2.1,
               misfired := hasMisfire r.1.out, calls := r.1.trigs.2, pushed := r.1.queue.2.head? })

end TransSched
