import QuartzModel.Sched.Retry
namespace Sched.Retry

theorem loop_stop {m : Int} {c : Option Nat} {i : Nat} (rest : List Outcome) (h : ¬ (i : Int) ≤ m) :
    retryLoop m c i rest = ([], .returned .gaveUp) := by
  unfold retryLoop; simp [h]

theorem loop_cancel {m : Int} {c : Option Nat} {i : Nat} (rest : List Outcome) (h : (i : Int) ≤ m)
    (hc : ctxDone c i = true) : retryLoop m c i rest = ([.waitCancelled], .returned .cancelled) := by
  unfold retryLoop; simp [h, hc]

theorem loop_nil {m : Int} {c : Option Nat} {i : Nat} (h : (i : Int) ≤ m) (hc : ctxDone c i = false) :
    retryLoop m c i [] = ([.wait, .attempt .ok], .returned .succeeded) := by
  unfold retryLoop; simp [h, hc]

theorem loop_ok {m : Int} {c : Option Nat} {i : Nat} (rest : List Outcome) (h : (i : Int) ≤ m)
    (hc : ctxDone c i = false) :
    retryLoop m c i (.ok :: rest) = ([.wait, .attempt .ok], .returned .succeeded) := by
  unfold retryLoop; simp [h, hc]

theorem loop_panic {m : Int} {c : Option Nat} {i : Nat} (rest : List Outcome) (h : (i : Int) ≤ m)
    (hc : ctxDone c i = false) :
    retryLoop m c i (.panic :: rest) = ([.wait, .attempt .panic], .panicking) := by
  unfold retryLoop; simp [h, hc]

theorem loop_err {m : Int} {c : Option Nat} {i : Nat} (rest : List Outcome) (h : (i : Int) ≤ m)
    (hc : ctxDone c i = false) :
    retryLoop m c i (.err :: rest) =
      (.wait :: .attempt .err :: (retryLoop m c (i + 1) rest).1, (retryLoop m c (i + 1) rest).2) := by
  rw [retryLoop]; simp [h, hc]

/-- case analysis principle for one loop iteration -/
theorem loop_cases (m : Int) (c : Option Nat) (i : Nat) (rest : List Outcome) :
    (¬ (i : Int) ≤ m ∧ retryLoop m c i rest = ([], .returned .gaveUp)) ∨
    ((i : Int) ≤ m ∧ ctxDone c i = true ∧ retryLoop m c i rest = ([.waitCancelled], .returned .cancelled)) ∨
    ((i : Int) ≤ m ∧ ctxDone c i = false ∧ (rest = [] ∨ ∃ t, rest = .ok :: t) ∧
        retryLoop m c i rest = ([.wait, .attempt .ok], .returned .succeeded)) ∨
    ((i : Int) ≤ m ∧ ctxDone c i = false ∧ (∃ t, rest = .panic :: t) ∧
        retryLoop m c i rest = ([.wait, .attempt .panic], .panicking)) ∨
    ((i : Int) ≤ m ∧ ctxDone c i = false ∧ ∃ t, rest = .err :: t ∧
        retryLoop m c i rest =
          (.wait :: .attempt .err :: (retryLoop m c (i + 1) t).1, (retryLoop m c (i + 1) t).2)) := by
  by_cases h : (i : Int) ≤ m
  · cases hc : ctxDone c i
    · match rest with
      | [] => exact .inr (.inr (.inl ⟨h, rfl, .inl rfl, loop_nil h hc⟩))
      | .ok :: t => exact .inr (.inr (.inl ⟨h, rfl, .inr ⟨t, rfl⟩, loop_ok t h hc⟩))
      | .panic :: t => exact .inr (.inr (.inr (.inl ⟨h, rfl, ⟨t, rfl⟩, loop_panic t h hc⟩)))
      | .err :: t => exact .inr (.inr (.inr (.inr ⟨h, rfl, t, rfl, loop_err t h hc⟩)))
    · exact .inr (.inl ⟨h, rfl, loop_cancel rest h hc⟩)
  · exact .inl ⟨h, loop_stop rest h⟩


/-! ## shape of the trace -/

/-- `wait, attempt o₁, wait, attempt o₂, …` -/
def pairs : List Outcome → List Event
  | [] => []
  | o :: t => .wait :: .attempt o :: pairs t

def cancelTail (x : Exit) : List Event := if x = .returned .cancelled then [.waitCancelled] else []

@[simp] theorem attemptsOf_nil : attemptsOf [] = [] := rfl
@[simp] theorem attemptsOf_attempt (o : Outcome) (t : List Event) :
    attemptsOf (.attempt o :: t) = o :: attemptsOf t := rfl
@[simp] theorem attemptsOf_wait (t : List Event) : attemptsOf (.wait :: t) = attemptsOf t := rfl
@[simp] theorem attemptsOf_waitCancelled (t : List Event) :
    attemptsOf (.waitCancelled :: t) = attemptsOf t := rfl

theorem attemptsOf_append (a b : List Event) : attemptsOf (a ++ b) = attemptsOf a ++ attemptsOf b := by
  induction a with
  | nil => rfl
  | cons e t ih => cases e <;> simp [ih]

@[simp] theorem attemptsOf_pairs (l : List Outcome) : attemptsOf (pairs l) = l := by
  induction l with
  | nil => rfl
  | cons o t ih => simp [pairs, ih]

@[simp] theorem count_wait_pairs (l : List Outcome) : (pairs l).count .wait = l.length := by
  induction l with
  | nil => rfl
  | cons o t ih => simp [pairs, ih]

theorem loop_shape (m : Int) (c : Option Nat) : ∀ (rest : List Outcome) (i : Nat),
    (retryLoop m c i rest).1 =
      pairs (attemptsOf (retryLoop m c i rest).1) ++ cancelTail (retryLoop m c i rest).2 := by
  intro rest
  induction rest with
  | nil =>
    intro i
    rcases loop_cases m c i [] with ⟨_, h⟩ | ⟨_, _, h⟩ | ⟨_, _, _, h⟩ | ⟨_, _, ⟨t, ht⟩, _⟩ | ⟨_, _, t, ht, _⟩
    · rw [h]; rfl
    · rw [h]; rfl
    · rw [h]; rfl
    · cases ht
    · cases ht
  | cons o rest ih =>
    intro i
    rcases loop_cases m c i (o :: rest) with ⟨_, h⟩ | ⟨_, _, h⟩ | ⟨_, _, _, h⟩ | ⟨_, _, _, h⟩ | ⟨_, _, t, ht, h⟩
    · rw [h]; rfl
    · rw [h]; rfl
    · rw [h]; rfl
    · rw [h]; rfl
    · cases ht
      rw [h]
      simp only [attemptsOf_wait, attemptsOf_attempt, pairs, List.cons_append]
      rw [← ih (i + 1)]

/-- every attempt of the loop except the last one failed -/
theorem loop_init_err (m : Int) (c : Option Nat) : ∀ (rest : List Outcome) (i j : Nat),
    j + 1 < (attemptsOf (retryLoop m c i rest).1).length →
      (attemptsOf (retryLoop m c i rest).1)[j]? = some .err := by
  intro rest
  induction rest with
  | nil =>
    intro i j
    rcases loop_cases m c i [] with ⟨_, h⟩ | ⟨_, _, h⟩ | ⟨_, _, _, h⟩ | ⟨_, _, ⟨t, ht⟩, _⟩ | ⟨_, _, t, ht, _⟩
    · rw [h]; simp
    · rw [h]; simp
    · rw [h]; simp
    · cases ht
    · cases ht
  | cons o rest ih =>
    intro i j
    rcases loop_cases m c i (o :: rest) with ⟨_, h⟩ | ⟨_, _, h⟩ | ⟨_, _, _, h⟩ | ⟨_, _, _, h⟩ | ⟨_, _, t, ht, h⟩
    · rw [h]; simp
    · rw [h]; simp
    · rw [h]; simp
    · rw [h]; simp
    · cases ht
      rw [h]
      simp only [attemptsOf_wait, attemptsOf_attempt, List.length_cons]
      intro hj
      cases j with
      | zero => rfl
      | succ j => simpa using ih (i + 1) j (by omega)

/-- the attempts of the loop follow the script (`ok` after its end) -/
theorem loop_prefix (m : Int) (c : Option Nat) : ∀ (rest : List Outcome) (i : Nat),
    attemptsOf (retryLoop m c i rest).1 <+: rest ++ [.ok] := by
  intro rest
  induction rest with
  | nil =>
    intro i
    rcases loop_cases m c i [] with ⟨_, h⟩ | ⟨_, _, h⟩ | ⟨_, _, _, h⟩ | ⟨_, _, ⟨t, ht⟩, _⟩ | ⟨_, _, t, ht, _⟩
    · rw [h]; simp
    · rw [h]; simp
    · rw [h]; simp
    · cases ht
    · cases ht
  | cons o rest ih =>
    intro i
    rcases loop_cases m c i (o :: rest) with ⟨_, h⟩ | ⟨_, _, h⟩ | ⟨_, _, hr, h⟩ | ⟨_, _, ⟨t, ht⟩, h⟩ | ⟨_, _, t, ht, h⟩
    · rw [h]; simp
    · rw [h]; simp
    · rw [h]
      rcases hr with hr | ⟨t, ht⟩
      · cases hr
      · cases ht; simp [List.prefix_cons_iff]
    · cases ht; rw [h]; simp [List.prefix_cons_iff]
    · cases ht
      rw [h]
      simp only [attemptsOf_wait, attemptsOf_attempt, List.cons_append]
      simpa [List.prefix_cons_iff] using ih (i + 1)

/-- how the loop is left, read off the last attempt it made -/
theorem loop_exit (m : Int) (c : Option Nat) : ∀ (rest : List Outcome) (i : Nat),
    ((retryLoop m c i rest).2 = .panicking ↔
        (attemptsOf (retryLoop m c i rest).1).getLast? = some .panic) ∧
    ((retryLoop m c i rest).2 = .returned .succeeded ↔
        (attemptsOf (retryLoop m c i rest).1).getLast? = some .ok) := by
  intro rest
  induction rest with
  | nil =>
    intro i
    rcases loop_cases m c i [] with ⟨_, h⟩ | ⟨_, _, h⟩ | ⟨_, _, _, h⟩ | ⟨_, _, ⟨t, ht⟩, _⟩ | ⟨_, _, t, ht, _⟩
    · rw [h]; simp
    · rw [h]; simp
    · rw [h]; simp
    · cases ht
    · cases ht
  | cons o rest ih =>
    intro i
    rcases loop_cases m c i (o :: rest) with ⟨_, h⟩ | ⟨_, _, h⟩ | ⟨_, _, _, h⟩ | ⟨_, _, _, h⟩ | ⟨_, _, t, ht, h⟩
    · rw [h]; simp
    · rw [h]; simp
    · rw [h]; simp
    · rw [h]; simp
    · cases ht
      rw [h]
      simp only [attemptsOf_wait, attemptsOf_attempt]
      have := ih (i + 1)
      cases hl : attemptsOf (retryLoop m c (i + 1) rest).1 with
      | nil =>
        rw [hl] at this
        simp only [List.getLast?_nil] at this
        simp [this]
      | cons a l =>
        rw [hl] at this
        rw [List.getLast?_cons_cons]
        exact this

/-! ## counting -/

theorem ctxDone_none (i : Nat) : ctxDone none i = false := rfl
theorem ctxDone_some (k i : Nat) : ctxDone (some k) i = decide (k ≤ i) := rfl

/-- without cancellation: the loop makes `min (iterations allowed) (failures + 1)` attempts -/
theorem loop_count (m : Int) : ∀ (rest : List Outcome) (i : Nat),
    (attemptsOf (retryLoop m none i rest).1).length = min (m + 1 - i).toNat (failuresBefore rest + 1) := by
  intro rest
  induction rest with
  | nil =>
    intro i
    rcases loop_cases m none i [] with ⟨hi, h⟩ | ⟨_, hc, _⟩ | ⟨hi, _, _, h⟩ | ⟨_, _, ⟨t, ht⟩, _⟩ | ⟨_, _, t, ht, _⟩
    · rw [h]; simp [failuresBefore]; omega
    · simp [ctxDone_none] at hc
    · rw [h]; simp [failuresBefore]; omega
    · cases ht
    · cases ht
  | cons o rest ih =>
    intro i
    rcases loop_cases m none i (o :: rest) with ⟨hi, h⟩ | ⟨_, hc, _⟩ | ⟨hi, _, hr, h⟩ | ⟨hi, _, ⟨t, ht⟩, h⟩ | ⟨hi, _, t, ht, h⟩
    · rw [h]; simp; omega
    · simp [ctxDone_none] at hc
    · rw [h]
      rcases hr with hr | ⟨t, ht⟩
      · cases hr
      · cases ht; simp [failuresBefore]; omega
    · cases ht; rw [h]; simp [failuresBefore]; omega
    · cases ht
      rw [h]
      simp only [attemptsOf_wait, attemptsOf_attempt, List.length_cons, failuresBefore, ih (i + 1)]
      omega

/-- without cancellation the loop is never left through `ctx.Done()` -/
theorem loop_not_cancelled (m : Int) : ∀ (rest : List Outcome) (i : Nat),
    (retryLoop m none i rest).2 ≠ .returned .cancelled := by
  intro rest
  induction rest with
  | nil =>
    intro i
    rcases loop_cases m none i [] with ⟨hi, h⟩ | ⟨_, hc, _⟩ | ⟨hi, _, _, h⟩ | ⟨_, _, ⟨t, ht⟩, _⟩ | ⟨_, _, t, ht, _⟩
    · rw [h]; simp
    · simp [ctxDone_none] at hc
    · rw [h]; simp
    · cases ht
    · cases ht
  | cons o rest ih =>
    intro i
    rcases loop_cases m none i (o :: rest) with ⟨hi, h⟩ | ⟨_, hc, _⟩ | ⟨hi, _, hr, h⟩ | ⟨hi, _, _, h⟩ | ⟨hi, _, t, ht, h⟩
    · rw [h]; simp
    · simp [ctxDone_none] at hc
    · rw [h]; simp
    · rw [h]; simp
    · cases ht; rw [h]; exact ih (i + 1)

/-- the context ends during the `k`-th wait and the loop gets there: it stops right there -/
theorem loop_cancel_exact (m : Int) (k : Nat) (hk : (k : Int) ≤ m) : ∀ (d i : Nat) (rest : List Outcome),
    i + d = k → (∀ j, j < d → rest[j]? = some .err) →
      retryLoop m (some k) i rest =
        (pairs (List.replicate d .err) ++ [.waitCancelled], .returned .cancelled) := by
  intro d
  induction d with
  | zero =>
    intro i rest hik _
    have hi : (i : Int) ≤ m := by omega
    rw [loop_cancel rest hi (by simp [ctxDone_some]; omega)]
    rfl
  | succ d ih =>
    intro i rest hik hr
    have hi : (i : Int) ≤ m := by omega
    have hc : ctxDone (some k) i = false := by simp [ctxDone_some]; omega
    have h0 := hr 0 (by omega)
    match rest, h0 with
    | o :: t, h0 =>
      simp only [List.getElem?_cons_zero, Option.some.injEq] at h0
      subst h0
      rw [loop_err t hi hc, ih (i + 1) t (by omega) (fun j hj => by simpa using hr (j + 1) (by omega))]
      simp [List.replicate_succ, pairs]

/-- once the context has ended no further attempt is made: at most `k - i` attempts from wait `i` on -/
theorem loop_cancel_bound (m : Int) (k : Nat) : ∀ (rest : List Outcome) (i : Nat),
    (attemptsOf (retryLoop m (some k) i rest).1).length + i ≤ max k i := by
  intro rest
  induction rest with
  | nil =>
    intro i
    rcases loop_cases m (some k) i [] with ⟨hi, h⟩ | ⟨_, hc, h⟩ | ⟨hi, hc, _, h⟩ | ⟨_, _, ⟨t, ht⟩, _⟩ | ⟨_, _, t, ht, _⟩
    · rw [h]; simp; omega
    · rw [h]; simp; omega
    · rw [h]; simp [ctxDone_some] at hc ⊢; omega
    · cases ht
    · cases ht
  | cons o rest ih =>
    intro i
    rcases loop_cases m (some k) i (o :: rest) with ⟨hi, h⟩ | ⟨_, hc, h⟩ | ⟨hi, hc, hr, h⟩ | ⟨hi, hc, _, h⟩ | ⟨hi, hc, t, ht, h⟩
    · rw [h]; simp; omega
    · rw [h]; simp; omega
    · rw [h]; simp [ctxDone_some] at hc ⊢; omega
    · rw [h]; simp [ctxDone_some] at hc ⊢; omega
    · cases ht
      rw [h]
      simp only [attemptsOf_wait, attemptsOf_attempt, List.length_cons]
      have := ih (i + 1)
      simp [ctxDone_some] at hc
      omega

theorem failuresBefore_err (t : List Outcome) : failuresBefore (.err :: t) = failuresBefore t + 1 := rfl

/-- without cancellation and without a panic in the script: how the loop is left -/
theorem loop_exit_count (m : Int) : ∀ (rest : List Outcome) (i : Nat), Outcome.panic ∉ rest →
    (retryLoop m none i rest).2 =
      if failuresBefore rest + 1 ≤ (m + 1 - i).toNat then .returned .succeeded else .returned .gaveUp := by
  intro rest
  induction rest with
  | nil =>
    intro i _
    rcases loop_cases m none i [] with ⟨hi, h⟩ | ⟨_, hc, _⟩ | ⟨hi, _, _, h⟩ | ⟨_, _, ⟨t, ht⟩, _⟩ | ⟨_, _, t, ht, _⟩
    · rw [h, if_neg (by simp [failuresBefore]; omega)]
    · simp [ctxDone_none] at hc
    · rw [h, if_pos (by simp [failuresBefore]; omega)]
    · cases ht
    · cases ht
  | cons o rest ih =>
    intro i hp
    rcases loop_cases m none i (o :: rest) with ⟨hi, h⟩ | ⟨_, hc, _⟩ | ⟨hi, _, hr, h⟩ | ⟨hi, _, ⟨t, ht⟩, h⟩ | ⟨hi, _, t, ht, h⟩
    · rw [h, if_neg (by omega)]
    · simp [ctxDone_none] at hc
    · rcases hr with hr | ⟨t, ht⟩
      · cases hr
      · cases ht; rw [h, if_pos (by simp [failuresBefore]; omega)]
    · cases ht; simp at hp
    · cases ht
      rw [h, failuresBefore_err]
      simp only
      rw [ih (i + 1) (fun hm => hp (List.mem_cons_of_mem _ hm))]
      by_cases hh : failuresBefore rest + 1 ≤ (m + 1 - ((i + 1 : Nat) : Int)).toNat
      · rw [if_pos hh, if_pos (by omega)]
      · rw [if_neg hh, if_neg (by omega)]

/-! ## the whole function -/

theorem exec_nil (m : Int) (c : Option Nat) :
    executeWithRetries m [] c = ⟨[.attempt .ok], .succeeded⟩ := rfl
theorem exec_ok (m : Int) (c : Option Nat) (t : List Outcome) :
    executeWithRetries m (.ok :: t) c = ⟨[.attempt .ok], .succeeded⟩ := rfl
theorem exec_panic (m : Int) (c : Option Nat) (t : List Outcome) :
    executeWithRetries m (.panic :: t) c = ⟨[.attempt .panic], .recovered⟩ := rfl
theorem exec_err (m : Int) (c : Option Nat) (t : List Outcome) :
    executeWithRetries m (.err :: t) c =
      ⟨.attempt .err :: (retryLoop m c 1 t).1, recoverDeferred (retryLoop m c 1 t).2⟩ := rfl

theorem recoverDeferred_recovered (x : Exit) : recoverDeferred x = .recovered ↔ x = .panicking := by
  cases x with
  | returned n => cases n <;> simp [recoverDeferred]
  | panicking => simp [recoverDeferred]
theorem recoverDeferred_succeeded (x : Exit) :
    recoverDeferred x = .succeeded ↔ x = .returned .succeeded := by
  cases x with
  | returned n => cases n <;> simp [recoverDeferred]
  | panicking => simp [recoverDeferred]
theorem recoverDeferred_cancelled (x : Exit) :
    recoverDeferred x = .cancelled ↔ x = .returned .cancelled := by
  cases x with
  | returned n => cases n <;> simp [recoverDeferred]
  | panicking => simp [recoverDeferred]

/-- case analysis on the script -/
theorem script_cases (s : List Outcome) :
    s = [] ∨ (∃ t, s = .ok :: t) ∨ (∃ t, s = .panic :: t) ∨ (∃ t, s = .err :: t) := by
  match s with
  | [] => exact .inl rfl
  | .ok :: t => exact .inr (.inl ⟨t, rfl⟩)
  | .panic :: t => exact .inr (.inr (.inl ⟨t, rfl⟩))
  | .err :: t => exact .inr (.inr (.inr ⟨t, rfl⟩))

/-- the trace is: first attempt, then (wait, attempt) pairs, then possibly the cancelled wait -/
theorem exec_shape (m : Int) (s : List Outcome) (c : Option Nat) :
    ∃ o os, (executeWithRetries m s c).attempts = o :: os ∧
      (executeWithRetries m s c).trace = .attempt o :: pairs os ++
        (if (executeWithRetries m s c).ending = .cancelled then [.waitCancelled] else []) := by
  rcases script_cases s with h | ⟨t, h⟩ | ⟨t, h⟩ | ⟨t, h⟩ <;> subst h
  · exact ⟨.ok, [], rfl, rfl⟩
  · exact ⟨.ok, [], rfl, rfl⟩
  · exact ⟨.panic, [], rfl, rfl⟩
  · refine ⟨.err, attemptsOf (retryLoop m c 1 t).1, rfl, ?_⟩
    rw [exec_err]
    simp only [recoverDeferred_cancelled]
    have := loop_shape m c t 1
    simp only [cancelTail] at this
    rw [List.cons_append, ← this]

theorem exec_init_err (m : Int) (s : List Outcome) (c : Option Nat) (j : Nat)
    (hj : j + 1 < (executeWithRetries m s c).attempts.length) :
    (executeWithRetries m s c).attempts[j]? = some .err := by
  rcases script_cases s with h | ⟨t, h⟩ | ⟨t, h⟩ | ⟨t, h⟩ <;> subst h
  · simp [exec_nil, Result.attempts] at hj
  · simp [exec_ok, Result.attempts] at hj
  · simp [exec_panic, Result.attempts] at hj
  · rw [exec_err] at hj ⊢
    simp only [Result.attempts, attemptsOf_attempt, List.length_cons] at hj ⊢
    cases j with
    | zero => rfl
    | succ j => simpa using loop_init_err m c t 1 j (by omega)

theorem exec_prefix (m : Int) (s : List Outcome) (c : Option Nat) :
    (executeWithRetries m s c).attempts <+: s ++ [.ok] := by
  rcases script_cases s with h | ⟨t, h⟩ | ⟨t, h⟩ | ⟨t, h⟩ <;> subst h
  · simp [exec_nil, Result.attempts]
  · simp [exec_ok, Result.attempts, List.prefix_cons_iff]
  · simp [exec_panic, Result.attempts, List.prefix_cons_iff]
  · rw [exec_err]
    simpa [Result.attempts, List.prefix_cons_iff] using loop_prefix m c t 1

theorem exec_ending (m : Int) (s : List Outcome) (c : Option Nat) :
    ((executeWithRetries m s c).ending = .recovered ↔
        (executeWithRetries m s c).attempts.getLast? = some .panic) ∧
    ((executeWithRetries m s c).ending = .succeeded ↔
        (executeWithRetries m s c).attempts.getLast? = some .ok) := by
  rcases script_cases s with h | ⟨t, h⟩ | ⟨t, h⟩ | ⟨t, h⟩ <;> subst h
  · simp [exec_nil, Result.attempts]
  · simp [exec_ok, Result.attempts]
  · simp [exec_panic, Result.attempts]
  · rw [exec_err]
    simp only [Result.attempts, attemptsOf_attempt, recoverDeferred_recovered, recoverDeferred_succeeded]
    have := loop_exit m c t 1
    cases hl : attemptsOf (retryLoop m c 1 t).1 with
    | nil => rw [hl] at this; simp only [List.getLast?_nil] at this; simp [this]
    | cons a l => rw [hl] at this; rw [List.getLast?_cons_cons]; exact this

theorem exec_waits (m : Int) (s : List Outcome) (c : Option Nat) :
    (executeWithRetries m s c).waits + 1 = (executeWithRetries m s c).attempts.length := by
  obtain ⟨o, os, ha, ht⟩ := exec_shape m s c
  rw [Result.waits, ht, ha]
  split <;> simp [List.count_append]

/-- positions in a trace of the form `attempt, (wait, attempt)*, tail` where the tail has no attempt -/
theorem spaced_pointwise (tl : List Event) (htl : ∀ (q : Nat) (o : Outcome), tl[q]? ≠ some (Event.attempt o)) :
    ∀ (os : List Outcome) (o : Outcome) (p : Nat) (a : Outcome),
      (Event.attempt o :: pairs os ++ tl)[p]? = some (.attempt a) →
        p = 0 ∨ (2 ≤ p ∧ (Event.attempt o :: pairs os ++ tl)[p - 1]? = some .wait ∧
          ∃ a', (Event.attempt o :: pairs os ++ tl)[p - 2]? = some (.attempt a')) := by
  intro os
  induction os with
  | nil =>
    intro o p a h
    cases p with
    | zero => exact .inl rfl
    | succ p => simp [pairs] at h; exact absurd h (htl p a)
  | cons o2 os ih =>
    intro o p a h
    match p, h with
    | 0, _ => exact .inl rfl
    | 1, h => simp [pairs] at h
    | p + 2, h =>
      right
      have h' : (Event.attempt o2 :: pairs os ++ tl)[p]? = some (.attempt a) := by
        simpa [pairs] using h
      rcases ih o2 p a h' with h0 | ⟨h2, hw, a', ha'⟩
      · subst h0
        exact ⟨by omega, by simp [pairs], o, by simp⟩
      · refine ⟨by omega, ?_, a', ?_⟩
        · have : p + 2 - 1 = (p - 1) + 2 := by omega
          rw [this]; simpa [pairs] using hw
        · have : p + 2 - 2 = (p - 2) + 2 := by omega
          rw [this]; simpa [pairs] using ha'

end Sched.Retry
