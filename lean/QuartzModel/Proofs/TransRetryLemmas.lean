import QuartzModel.Generated.TransRetry
import QuartzModel.Sched.Retry
import QuartzModel.Proofs.RetryLemmas
/-!
# Helpers for `Theorems/TransRetry.lean`

The scripted environment (`Scripted`), the abstraction of the recorded events of the translated
`executeWithRetries` (`Generated.TransRetry`, regenerated from quartz/scheduler.go by `gotolean-retry`) to
the events of the hand-written model `Sched.Retry`, and the simulation lemma for the retry loop.
-/
set_option autoImplicit false

namespace TransRetry
open Generated.TransRetry
open Sched.Retry (Outcome End Exit Normal ctxDone retryLoop)

/-- the events of the hand-written model -/
abbrev REvent := Sched.Retry.Event

/-! ## the scripted environment -/

/-- the world of the scripted environment: the outcomes of the `Execute` calls still to come (an exhausted
script means the job succeeds) and the number of `select`s (retry waits) made so far -/
structure MW where
  script : List Outcome
  waits : Nat
deriving Repr, DecidableEq

/-- what `Execute` returns for a scripted outcome -/
def resOf : Outcome → CallResult (Option Err)
  | .ok => .returned none
  | .err => .returned (some {})
  | .panic => .panicked

/-- `jobDetail.job.Execute(ctx)`: the next outcome of the script -/
def scriptExecute (w : MW) (_ : Ref) : MW × CallResult (Option Err) :=
  match w.script with
  | [] => (w, .returned none)
  | o :: t => ({ w with script := t }, resOf o)

/-- the `i`-th `select` (1-based): as long as the context has not ended (`ctxDone cancelAt i = false`) only the
timer can fire (case 0); once it has ended `pick i` says which case wins — ANY value: the timer may be ready at
the same time (0) or `<-ctx.Done()` wins (≥ 1) -/
def scriptSelect (cancelAt : Option Nat) (pick : Nat → Nat) (w : MW) (_ : List Chan) : MW × Nat :=
  ({ w with waits := w.waits + 1 }, if ctxDone cancelAt (w.waits + 1) then pick (w.waits + 1) else 0)

/-- `ctx.Err()` after the `i`-th select: non-nil iff the context has ended by then -/
def scriptCtxErr (cancelAt : Option Nat) (w : MW) : MW × Option Err :=
  (w, if ctxDone cancelAt w.waits then some {} else none)

/-- `X` answers `Execute`, `select`, `ctx.Err()` from the script; its other fields are arbitrary -/
structure Scripted {SJ : Type} (X : Ext MW SJ) (cancelAt : Option Nat) (pick : Nat → Nat) : Prop where
  execute : X.Execute = scriptExecute
  select : X.select = scriptSelect cancelAt pick
  ctxErr : X.ctxErr = scriptCtxErr cancelAt

/-- a scripted environment built on any other one -/
def scriptedOn {SJ : Type} (base : Ext MW SJ) (cancelAt : Option Nat) (pick : Nat → Nat) : Ext MW SJ :=
  { base with Execute := scriptExecute, select := scriptSelect cancelAt pick, ctxErr := scriptCtxErr cancelAt }

theorem scriptedOn_scripted {SJ : Type} (base : Ext MW SJ) (cancelAt : Option Nat) (pick : Nat → Nat) :
    Scripted (scriptedOn base cancelAt pick) cancelAt pick := ⟨rfl, rfl, rfl⟩

/-! ## from recorded events to the model's events -/

def outcomeOf : CallResult (Option Err) → Outcome
  | .returned none => .ok
  | .returned (some _) => .err
  | .panicked => .panic

@[simp] theorem outcomeOf_resOf (o : Outcome) : outcomeOf (resOf o) = o := by cases o <;> rfl

/-- `Execute` ↦ `attempt`; the answer of `ctx.Err()` after a select won by the timer decides between a completed
wait and a cancelled one; a select won by a later case (`<-ctx.Done()`) is a cancelled wait; timers, logger
calls and everything else are not events of the model -/
def absEvent {SJ : Type} : Event SJ → Option REvent
  | .execute _ r => some (.attempt (outcomeOf r))
  | .ctxErr none => some .wait
  | .ctxErr (some _) => some .waitCancelled
  | .select _ (_ + 1) => some .waitCancelled
  | _ => none

def absTrace {SJ : Type} (es : List (Event SJ)) : List REvent := es.filterMap absEvent

section
variable {SJ : Type}
@[simp] theorem absEvent_execute (j : Ref) (r : CallResult (Option Err)) :
    absEvent (Event.execute j r : Event SJ) = some (.attempt (outcomeOf r)) := rfl
@[simp] theorem absEvent_ctxErr_none : absEvent (Event.ctxErr none : Event SJ) = some .wait := rfl
@[simp] theorem absEvent_ctxErr_some (e : Err) : absEvent (Event.ctxErr (some e) : Event SJ) = some .waitCancelled := rfl
@[simp] theorem absEvent_select_zero (cs : List Chan) : absEvent (Event.select cs 0 : Event SJ) = none := rfl
@[simp] theorem absEvent_select_succ (cs : List Chan) (n : Nat) :
    absEvent (Event.select cs (n + 1) : Event SJ) = some .waitCancelled := rfl
@[simp] theorem absEvent_log (l m : String) : absEvent (Event.log l m : Event SJ) = none := rfl
@[simp] theorem absEvent_newTimer (d : Int) : absEvent (Event.newTimer d : Event SJ) = none := rfl
@[simp] theorem absEvent_timerStop : absEvent (Event.timerStop : Event SJ) = none := rfl
@[simp] theorem absEvent_fetch (b : Bool) : absEvent (Event.fetch b : Event SJ) = none := rfl
@[simp] theorem absEvent_wgAdd (n : Int) : absEvent (Event.wgAdd n : Event SJ) = none := rfl
@[simp] theorem absEvent_wgDone : absEvent (Event.wgDone : Event SJ) = none := rfl
end

def isLog {SJ : Type} (level msg : String) : Event SJ → Bool
  | .log l m => l == level && m == msg
  | _ => false

/-- the deferred function logged a recovered panic -/
def panicLogged {SJ : Type} (es : List (Event SJ)) : Bool := es.any (isLog "Error" "Job panicked")

/-- the function ended with `err != nil` -/
def termLogged {SJ : Type} (es : List (Event SJ)) : Bool := es.any (isLog "Warn" "Job terminated")

/-- how the function ended, read off what it logged and whether a wait was cancelled -/
def absEnd {SJ : Type} (es : List (Event SJ)) : End :=
  if panicLogged es then .recovered
  else if termLogged es then (if Sched.Retry.Event.waitCancelled ∈ absTrace es then .cancelled else .gaveUp)
  else .succeeded

def absResult {SJ : Type} (es : List (Event SJ)) : Sched.Retry.Result := ⟨absTrace es, absEnd es⟩

/-- the outcomes of the `Execute` calls, in order -/
def executes {SJ : Type} : List (Event SJ) → List Outcome
  | [] => []
  | .execute _ r :: t => outcomeOf r :: executes t
  | _ :: t => executes t

theorem absTrace_append {SJ : Type} (a b : List (Event SJ)) : absTrace (a ++ b) = absTrace a ++ absTrace b :=
  List.filterMap_append

theorem panicLogged_append {SJ : Type} (a b : List (Event SJ)) :
    panicLogged (a ++ b) = (panicLogged a || panicLogged b) := List.any_append

theorem termLogged_append {SJ : Type} (a b : List (Event SJ)) :
    termLogged (a ++ b) = (termLogged a || termLogged b) := List.any_append

/-- the model's `attempts` of the abstracted trace are exactly the recorded `Execute` calls -/
theorem attempts_eq_executes {SJ : Type} (es : List (Event SJ)) :
    (absResult es).attempts = executes es := by
  show Sched.Retry.attemptsOf (absTrace es) = executes es
  induction es with
  | nil => rfl
  | cons e t ih =>
    have hc : absTrace (e :: t) = (match absEvent e with | some x => x :: absTrace t | none => absTrace t) := by
      simp only [absTrace, List.filterMap_cons]
      cases absEvent e <;> rfl
    rw [hc]
    cases e with
    | execute j r => simp only [absEvent, executes, Sched.Retry.attemptsOf_attempt, ih]
    | ctxErr x => cases x <;> simp only [absEvent, executes, Sched.Retry.attemptsOf_wait,
        Sched.Retry.attemptsOf_waitCancelled, ih]
    | select cs n => cases n <;> simp only [absEvent, executes, Sched.Retry.attemptsOf_waitCancelled, ih]
    | _ => simp only [absEvent, executes, ih]

/-! ## facts about the model's loop -/

/-- a cancelled wait is in the trace of the loop iff the loop was left by `break retryLoop` on `ctx.Done()` -/
theorem loop_wc (m : Int) (c : Option Nat) : ∀ (rest : List Outcome) (i : Nat),
    Sched.Retry.Event.waitCancelled ∈ (retryLoop m c i rest).1 ↔ (retryLoop m c i rest).2 = .returned .cancelled := by
  intro rest
  induction rest with
  | nil =>
    intro i
    rcases Sched.Retry.loop_cases m c i [] with ⟨_, h⟩ | ⟨_, _, h⟩ | ⟨_, _, _, h⟩ | ⟨_, _, ⟨t, ht⟩, _⟩ | ⟨_, _, t, ht, _⟩
    · rw [h]; simp
    · rw [h]; simp
    · rw [h]; simp
    · cases ht
    · cases ht
  | cons o rest ih =>
    intro i
    rcases Sched.Retry.loop_cases m c i (o :: rest) with ⟨_, h⟩ | ⟨_, _, h⟩ | ⟨_, _, _, h⟩ | ⟨_, _, _, h⟩ | ⟨_, _, t, ht, h⟩
    · rw [h]; simp
    · rw [h]; simp
    · rw [h]; simp
    · rw [h]; simp
    · cases ht
      rw [h]
      simp only [List.mem_cons, reduceCtorEq, false_or]
      exact ih (i + 1)

@[simp] theorem deref_some {α : Type} [Inhabited α] (a : α) : deref (some a) = a := rfl

/-! ## the retry loop: translated code against the model -/

/-- One run of the translated loop from the `(w+1)`-th wait with `err != nil`, against `retryLoop` of the model:
the abstracted events are the model's, nothing is logged at `Warn`/`Error` level, and the loop is left the same way
(`Flow.panic` ↔ `panicking`; `succeeded` ↔ `err == nil`; otherwise `err != nil`). -/
theorem loop1_spec {SJ : Type} (X : Ext MW SJ) (c : Option Nat) (pick : Nat → Nat) (hX : Scripted X c pick)
    (env : Env) (jd : JobDetail) (o : JobDetailOptions) (hjd : jd.opts = some o) :
    ∀ (rest : List Outcome) (w n : Nat) (out : List (Event SJ)) (e : Err),
      n = (o.MaxRetries + 1 - ((w : Int) + 1)).toNat →
      absTrace (executeWithRetries.loop1 X env (some jd) n ((w : Int) + 1) ⟨⟨rest, w⟩, out⟩ (some e)).1.out
          = absTrace out ++ (retryLoop o.MaxRetries c (w + 1) rest).1 ∧
      panicLogged (executeWithRetries.loop1 X env (some jd) n ((w : Int) + 1) ⟨⟨rest, w⟩, out⟩ (some e)).1.out
          = panicLogged out ∧
      termLogged (executeWithRetries.loop1 X env (some jd) n ((w : Int) + 1) ⟨⟨rest, w⟩, out⟩ (some e)).1.out
          = termLogged out ∧
      (match (retryLoop o.MaxRetries c (w + 1) rest).2 with
       | .panicking =>
         (executeWithRetries.loop1 X env (some jd) n ((w : Int) + 1) ⟨⟨rest, w⟩, out⟩ (some e)).2.2 = Flow.panic
       | .returned .succeeded =>
         (executeWithRetries.loop1 X env (some jd) n ((w : Int) + 1) ⟨⟨rest, w⟩, out⟩ (some e)).2.2 = Flow.next ∧
         (executeWithRetries.loop1 X env (some jd) n ((w : Int) + 1) ⟨⟨rest, w⟩, out⟩ (some e)).2.1 = none
       | .returned _ =>
         (executeWithRetries.loop1 X env (some jd) n ((w : Int) + 1) ⟨⟨rest, w⟩, out⟩ (some e)).2.2 = Flow.next ∧
         (executeWithRetries.loop1 X env (some jd) n ((w : Int) + 1) ⟨⟨rest, w⟩, out⟩ (some e)).2.1.isSome = true) := by
  intro rest
  induction rest with
  | nil =>
    intro w n out e hn
    rcases Sched.Retry.loop_cases o.MaxRetries c (w + 1) [] with ⟨hle, h⟩ | ⟨hle, hc, h⟩ | ⟨hle, hc, _, h⟩ | ⟨_, _, ⟨t, ht⟩, _⟩ | ⟨_, _, t, ht, _⟩
    · have hn0 : n = 0 := by omega
      subst hn0
      rw [h]
      simp [executeWithRetries.loop1]
    · have hle' : (w : Int) + 1 ≤ o.MaxRetries := by omega
      obtain ⟨k, rfl⟩ : ∃ k, n = k + 1 := ⟨n - 1, by omega⟩
      rw [h]
      cases hp : pick (w + 1) <;>
        simp [executeWithRetries.loop1, hjd, hle', St.select, St.emit, St.ctxErr, hX.select, hX.ctxErr, scriptSelect,
          scriptCtxErr, hc, hp, absTrace, panicLogged, termLogged, isLog, List.filterMap_append, List.filterMap_cons]
    · have hle' : (w : Int) + 1 ≤ o.MaxRetries := by omega
      obtain ⟨k, rfl⟩ : ∃ k, n = k + 1 := ⟨n - 1, by omega⟩
      rw [h]
      simp [executeWithRetries.loop1, hjd, hle', St.select, St.emit, St.ctxErr, St.execute, hX.select, hX.ctxErr,
        hX.execute, scriptSelect, scriptCtxErr, scriptExecute, hc, absTrace, panicLogged, termLogged, isLog,
        List.filterMap_append, List.filterMap_cons, outcomeOf]
    · cases ht
    · cases ht
  | cons oc rest ih =>
    intro w n out e hn
    rcases Sched.Retry.loop_cases o.MaxRetries c (w + 1) (oc :: rest) with ⟨hle, h⟩ | ⟨hle, hc, h⟩ | ⟨hle, hc, hr, h⟩ | ⟨hle, hc, ⟨t, ht⟩, h⟩ | ⟨hle, hc, t, ht, h⟩
    · have hn0 : n = 0 := by omega
      subst hn0
      rw [h]
      simp [executeWithRetries.loop1]
    · have hle' : (w : Int) + 1 ≤ o.MaxRetries := by omega
      obtain ⟨k, rfl⟩ : ∃ k, n = k + 1 := ⟨n - 1, by omega⟩
      rw [h]
      cases hp : pick (w + 1) <;>
        simp [executeWithRetries.loop1, hjd, hle', St.select, St.emit, St.ctxErr, hX.select, hX.ctxErr, scriptSelect,
          scriptCtxErr, hc, hp, absTrace, panicLogged, termLogged, isLog, List.filterMap_append, List.filterMap_cons]
    · have hle' : (w : Int) + 1 ≤ o.MaxRetries := by omega
      obtain ⟨k, rfl⟩ : ∃ k, n = k + 1 := ⟨n - 1, by omega⟩
      rcases hr with hr | ⟨t, ht⟩
      · cases hr
      · cases ht
        rw [h]
        simp [executeWithRetries.loop1, hjd, hle', St.select, St.emit, St.ctxErr, St.execute, hX.select, hX.ctxErr,
          hX.execute, scriptSelect, scriptCtxErr, scriptExecute, resOf, hc, absTrace, panicLogged,
          termLogged, isLog, List.filterMap_append, List.filterMap_cons, outcomeOf]
    · have hle' : (w : Int) + 1 ≤ o.MaxRetries := by omega
      obtain ⟨k, rfl⟩ : ∃ k, n = k + 1 := ⟨n - 1, by omega⟩
      cases ht
      rw [h]
      simp [executeWithRetries.loop1, hjd, hle', St.select, St.emit, St.ctxErr, St.execute, hX.select, hX.ctxErr,
        hX.execute, scriptSelect, scriptCtxErr, scriptExecute, resOf, hc, absTrace, panicLogged,
        termLogged, isLog, List.filterMap_append, List.filterMap_cons, outcomeOf]
    · have hle' : (w : Int) + 1 ≤ o.MaxRetries := by omega
      obtain ⟨k, rfl⟩ : ∃ k, n = k + 1 := ⟨n - 1, by omega⟩
      cases ht
      have hk : k = (o.MaxRetries + 1 - (((w + 1 : Nat) : Int) + 1)).toNat := by omega
      have step : executeWithRetries.loop1 X env (some jd) (k + 1) ((w : Int) + 1) ⟨⟨.err :: rest, w⟩, out⟩ (some e)
          = executeWithRetries.loop1 X env (some jd) k (((w + 1 : Nat) : Int) + 1)
              ⟨⟨rest, w + 1⟩, out ++ [Event.newTimer o.RetryInterval,
                Event.select [Chan.recv "timer.C", Chan.recv "ctx.Done()"] 0, Event.ctxErr none,
                Event.log "Trace" "Job retry", Event.execute jd.job (.returned (some {}))]⟩ (some {}) := by
        simp [executeWithRetries.loop1, hjd, hle', St.select, St.emit, St.ctxErr, St.execute, hX.select, hX.ctxErr,
          hX.execute, scriptSelect, scriptCtxErr, scriptExecute, resOf, hc]
      rw [step, h]
      obtain ⟨h1, h2, h3, h4⟩ := ih (w + 1) k _ {} hk
      refine ⟨?_, ?_, ?_, h4⟩
      · rw [h1]
        simp [absTrace, List.filterMap_append, List.filterMap_cons, outcomeOf]
      · rw [h2]; simp [panicLogged, isLog]
      · rw [h3]; simp [termLogged, isLog]

/-! ## any environment: the retry loop against the model, script and cancel point read off the run -/

section
variable {W SJ : Type}

/-- from `a` to `b` the record grew by events whose abstraction is `tr`, none of them one of the two final log lines -/
def Adds (a b : St W SJ) (tr : List REvent) : Prop :=
  absTrace b.out = absTrace a.out ++ tr ∧ panicLogged b.out = panicLogged a.out ∧ termLogged b.out = termLogged a.out

theorem Adds.refl (a : St W SJ) : Adds a a [] := ⟨by simp, rfl, rfl⟩
theorem Adds.trans {a b c : St W SJ} {t1 t2 : List REvent} (h1 : Adds a b t1) (h2 : Adds b c t2) :
    Adds a c (t1 ++ t2) :=
  ⟨by rw [h2.1, h1.1, List.append_assoc], by rw [h2.2.1, h1.2.1], by rw [h2.2.2, h1.2.2]⟩
theorem Adds.one (a : St W SJ) (w : W) (e : Event SJ) (hp : isLog "Error" "Job panicked" e = false)
    (ht : isLog "Warn" "Job terminated" e = false) :
    Adds a { world := w, out := a.out ++ [e] } (absEvent e).toList := by
  refine ⟨?_, ?_, ?_⟩
  · simp only [absTrace, List.filterMap_append, List.filterMap_cons, List.filterMap_nil]
    cases absEvent e <;> rfl
  · simp [panicLogged, List.any_append, hp]
  · simp [termLogged, List.any_append, ht]

theorem Adds.newTimer (a : St W SJ) (d : Int) : Adds a (a.emit (Event.newTimer d)) [] := Adds.one a _ _ rfl rfl
theorem Adds.timerStop (a : St W SJ) : Adds a (a.emit Event.timerStop) [] := Adds.one a _ _ rfl rfl
theorem Adds.retryLog (a : St W SJ) : Adds a (a.emit (Event.log "Trace" "Job retry")) [] :=
  Adds.one a _ _ (by simp [isLog]) (by simp [isLog])
theorem Adds.select_zero (a : St W SJ) (X : Ext W SJ) (cs : List Chan) (h : (a.select X cs).2 = 0) :
    Adds a (a.select X cs).1 [] := by
  have this : Adds a (a.select X cs).1 (absEvent (Event.select cs (X.select a.world cs).2 : Event SJ)).toList :=
    Adds.one a (X.select a.world cs).1 (Event.select cs (X.select a.world cs).2) rfl rfl
  have h' : (X.select a.world cs).2 = 0 := h
  rw [h'] at this
  exact this
theorem Adds.select_succ (a : St W SJ) (X : Ext W SJ) (cs : List Chan) (h : (a.select X cs).2 = 0 → False) :
    Adds a (a.select X cs).1 [.waitCancelled] := by
  have this : Adds a (a.select X cs).1 (absEvent (Event.select cs (X.select a.world cs).2 : Event SJ)).toList :=
    Adds.one a (X.select a.world cs).1 (Event.select cs (X.select a.world cs).2) rfl rfl
  have h' : (X.select a.world cs).2 = 0 → False := h
  cases hs : (X.select a.world cs).2 with
  | zero => exact absurd hs h'
  | succ n => rw [hs] at this; exact this
theorem Adds.ctxErr_some (a : St W SJ) (X : Ext W SJ) (h : (a.ctxErr X).2.isSome = true) :
    Adds a (a.ctxErr X).1 [.waitCancelled] := by
  have this : Adds a (a.ctxErr X).1 (absEvent (Event.ctxErr (X.ctxErr a.world).2 : Event SJ)).toList :=
    Adds.one a (X.ctxErr a.world).1 (Event.ctxErr (X.ctxErr a.world).2) rfl rfl
  have h' : (X.ctxErr a.world).2.isSome = true := h
  cases hs : (X.ctxErr a.world).2 with
  | none => rw [hs] at h'; cases h'
  | some e => rw [hs] at this; exact this
theorem Adds.ctxErr_none (a : St W SJ) (X : Ext W SJ) (h : ¬ (a.ctxErr X).2.isSome = true) :
    Adds a (a.ctxErr X).1 [.wait] := by
  have this : Adds a (a.ctxErr X).1 (absEvent (Event.ctxErr (X.ctxErr a.world).2 : Event SJ)).toList :=
    Adds.one a (X.ctxErr a.world).1 (Event.ctxErr (X.ctxErr a.world).2) rfl rfl
  have h' : ¬ (X.ctxErr a.world).2.isSome = true := h
  cases hs : (X.ctxErr a.world).2 with
  | none => rw [hs] at this; exact this
  | some e => rw [hs] at h'; exact absurd rfl h'
theorem Adds.execute (a : St W SJ) (X : Ext W SJ) (j : Ref) :
    Adds a (a.execute X j).1 [.attempt (outcomeOf (a.execute X j).2)] :=
  Adds.one a (X.Execute a.world j).1 (Event.execute j (X.Execute a.world j).2) rfl rfl

/-- what the loop lemma says about one run of the translated loop `r` from state `σ` against the model's loop `m` -/
def LoopSim (σ : St W SJ) (r : St W SJ × Option Err × Flow) (m : List REvent × Exit) : Prop :=
  Adds σ r.1 m.1 ∧
  (match m.2 with
   | .panicking => r.2.2 = Flow.panic
   | .returned .succeeded => r.2.2 = Flow.next ∧ r.2.1 = none
   | .returned _ => r.2.2 = Flow.next ∧ r.2.1.isSome = true)

theorem loop1_any (X : Ext W SJ) (env : Env) (jd : JobDetail) (o : JobDetailOptions) (hjd : jd.opts = some o)
    (n : Nat) (i : Int) (σ : St W SJ) (err : Option Err) :
    ∀ (w : Nat) (e : Err), i = (w : Int) + 1 → n = (o.MaxRetries + 1 - i).toNat → err = some e →
      ∃ (rest : List Outcome) (c : Option Nat), (∀ k, c = some k → w + 1 ≤ k) ∧
        LoopSim σ (executeWithRetries.loop1 X env (some jd) n i σ err) (retryLoop o.MaxRetries c (w + 1) rest) := by
  fun_induction executeWithRetries.loop1 X env (some jd) n i σ err
  case case1 i σ err =>
    intro w e hi hn he
    subst hi; subst he
    refine ⟨[], none, (fun k h => by cases h), ?_⟩
    rw [Sched.Retry.loop_stop [] (by omega)]
    exact ⟨Adds.refl σ, rfl, rfl⟩
  case case2 fuel i σ err hc σ1 r2 σ2 hs r3 σ3 hce =>
    intro w e hi hn he
    subst hi; subst he
    have hle : ((w + 1 : Nat) : Int) ≤ o.MaxRetries := by
      simp only [hjd, deref_some, decide_eq_true_eq] at hc; omega
    refine ⟨[], some (w + 1), (fun k h => by cases h; exact Nat.le_refl _), ?_⟩
    rw [Sched.Retry.loop_cancel [] hle (by simp [ctxDone])]
    exact ⟨((Adds.newTimer σ _).trans (Adds.select_zero σ1 X _ hs)).trans (Adds.ctxErr_some σ2 X hce), rfl, rfl⟩
  case case3 fuel i σ err hc σ1 r2 σ2 hs r3 σ3 hce σ4 r4 σ5 hx =>
    intro w e hi hn he
    subst hi; subst he
    have hle : ((w + 1 : Nat) : Int) ≤ o.MaxRetries := by
      simp only [hjd, deref_some, decide_eq_true_eq] at hc; omega
    refine ⟨[.panic], none, (fun k h => by cases h), ?_⟩
    rw [Sched.Retry.loop_panic [] hle rfl]
    have hA := ((((Adds.newTimer σ _).trans (Adds.select_zero σ1 X _ hs)).trans (Adds.ctxErr_none σ2 X hce)).trans
      (Adds.retryLog σ3)).trans (Adds.execute σ4 X (deref (some jd)).job)
    have hx' : (σ4.execute X (deref (some jd)).job).2 = CallResult.panicked := hx
    rw [hx'] at hA
    exact ⟨hA, rfl⟩
  case case4 fuel i σ err hc σ1 r2 σ2 hs r3 σ3 hce σ4 r4 σ5 err' hx hnone =>
    intro w e hi hn he
    subst hi; subst he
    have hle : ((w + 1 : Nat) : Int) ≤ o.MaxRetries := by
      simp only [hjd, deref_some, decide_eq_true_eq] at hc; omega
    refine ⟨[], none, (fun k h => by cases h), ?_⟩
    rw [Sched.Retry.loop_nil hle rfl]
    have hA := ((((Adds.newTimer σ _).trans (Adds.select_zero σ1 X _ hs)).trans (Adds.ctxErr_none σ2 X hce)).trans
      (Adds.retryLog σ3)).trans (Adds.execute σ4 X (deref (some jd)).job)
    have hx' : (σ4.execute X (deref (some jd)).job).2 = CallResult.returned err' := hx
    cases err' with
    | some a => cases hnone
    | none =>
      rw [hx'] at hA
      exact ⟨hA, rfl, rfl⟩
  case case5 fuel i σ err hc σ1 r2 σ2 hs r3 σ3 hce σ4 r4 σ5 err' hx hsome ih =>
    intro w e hi hn he
    subst hi; subst he
    have hle : ((w + 1 : Nat) : Int) ≤ o.MaxRetries := by
      simp only [hjd, deref_some, decide_eq_true_eq] at hc; omega
    have hx' : (σ4.execute X (deref (some jd)).job).2 = CallResult.returned err' := hx
    cases err' with
    | none => exact absurd rfl hsome
    | some a =>
      obtain ⟨rest, c, hck, hsim, hexit⟩ := ih (w + 1) a (by omega) (by omega) rfl
      have hcd : ctxDone c (w + 1) = false := by
        cases c with
        | none => rfl
        | some k => have := hck k rfl; simp [ctxDone]; omega
      refine ⟨.err :: rest, c, (fun k h => by have := hck k h; omega), ?_⟩
      rw [Sched.Retry.loop_err rest hle hcd]
      have hA := ((((Adds.newTimer σ _).trans (Adds.select_zero σ1 X _ hs)).trans (Adds.ctxErr_none σ2 X hce)).trans
        (Adds.retryLog σ3)).trans (Adds.execute σ4 X (deref (some jd)).job)
      rw [hx'] at hA
      exact ⟨hA.trans hsim, hexit⟩
  case case6 fuel i σ err hc σ1 r2 σ2 σ3 hs =>
    intro w e hi hn he
    subst hi; subst he
    have hle : ((w + 1 : Nat) : Int) ≤ o.MaxRetries := by
      simp only [hjd, deref_some, decide_eq_true_eq] at hc; omega
    refine ⟨[], some (w + 1), (fun k h => by cases h; exact Nat.le_refl _), ?_⟩
    rw [Sched.Retry.loop_cancel [] hle (by simp [ctxDone])]
    exact ⟨((Adds.newTimer σ _).trans (Adds.select_succ σ1 X _ hs)).trans (Adds.timerStop σ2), rfl, rfl⟩
  case case7 fuel i σ err hc =>
    intro w e hi hn he
    subst hi; subst he
    have hle : ¬ ((w + 1 : Nat) : Int) ≤ o.MaxRetries := by
      simp only [hjd, deref_some, decide_eq_true_eq] at hc; omega
    refine ⟨[], none, (fun k h => by cases h), ?_⟩
    rw [Sched.Retry.loop_stop [] hle]
    exact ⟨Adds.refl σ, rfl, rfl⟩

/-- the model's loop makes at most `MaxRetries + 1 - i` attempts, whatever the script and the cancel point -/
theorem loop_attempts_le (m : Int) (c : Option Nat) : ∀ (rest : List Outcome) (i : Nat),
    ((Sched.Retry.attemptsOf (retryLoop m c i rest).1).length : Int) ≤ max 0 (m + 1 - i) := by
  intro rest
  induction rest with
  | nil =>
    intro i
    rcases Sched.Retry.loop_cases m c i [] with ⟨_, h⟩ | ⟨_, _, h⟩ | ⟨hle, _, _, h⟩ | ⟨_, _, ⟨t, ht⟩, _⟩ | ⟨_, _, t, ht, _⟩
    · rw [h]; simp; omega
    · rw [h]; simp; omega
    · rw [h]; simp; omega
    · cases ht
    · cases ht
  | cons o rest ih =>
    intro i
    rcases Sched.Retry.loop_cases m c i (o :: rest) with ⟨_, h⟩ | ⟨_, _, h⟩ | ⟨hle, _, _, h⟩ | ⟨hle, _, _, h⟩ | ⟨hle, _, t, ht, h⟩
    · rw [h]; simp; omega
    · rw [h]; simp; omega
    · rw [h]; simp; omega
    · rw [h]; simp; omega
    · cases ht
      rw [h]
      have := ih (i + 1)
      simp only [Sched.Retry.attemptsOf_wait, Sched.Retry.attemptsOf_attempt, List.length_cons]
      push_cast at this ⊢
      omega

end

end TransRetry
