import QuartzModel.Cron.GoTime
import QuartzModel.Cron.NextFire
/-!
# Representation map between the hand-written cron model and the translated Go code

Definitions only (shared by `Proofs/TransLemmas.lean` (Stage A), `Proofs/TransDayLemmas.lean` (Stage B) and
`Proofs/TransMachineLemmas.lean` (Stage C)).  The model works on `Nat` digits and `Nat` value lists; the
translated code (`Generated.Trans`) on `Int`.  `mkCommon`/`mkDay`/`mkCsm` build the translated structures
from the model's parameters exactly as `quartz/csm.go: newCSMFromFields` does (theorem
`trans_newCSMFromFields` in `Theorems/TransCsm.lean` ties them to the *generated* `newCSMFromFields`).
-/
namespace TransRepr
open Generated.Trans Cron Odo

/-- a model value list as a Go `[]int` -/
def ints (l : List Nat) : List Int := l.map Int.ofNat

/-- the `CommonNode` with the model's parameters and digit `v` -/
def mkCommon (min max : Nat) (values : List Nat) (v : Nat) : CommonNode :=
  { value := (v : Int), min := (min : Int), max := (max : Int), values := ints values }

/-- the `DayNode` with the model's day configuration and digit `v`
(the borrowed month/year nodes are passed separately, idiom 1) -/
def mkDay (dc : DayCfg) (v : Nat) : DayNode :=
  { c := mkCommon dc.min dc.max dc.values v, weekdayValues := ints dc.wvalues, n := dc.n }

/-- the state machine `newCSMFromFields` builds, with digits `c` -/
def mkCsm (lim : Limits) (f : Fields) (c : Cfg) (ex : Bool) : CronStateMachine :=
  { second := mkCommon 0 lim.secMax f.sec.values (c 0)
    minute := mkCommon 0 lim.minMax f.min.values (c 1)
    hour := mkCommon 0 lim.hourMax f.hour.values (c 2)
    day := mkDay (dayCfg lim f) (c 3)
    month := mkCommon lim.monthMin lim.monthMax f.month.values (c 4)
    year := mkCommon lim.yearMin lim.yearMax f.year.values (c 5)
    exhausted := ex }

/-- a model field as a `cronField` of the translated `quartz` package -/
def mkField (fl : Field) : cronField := { values := ints fl.values, n := fl.n }

/-- `CronTrigger.fields` in Go order: second, minute, hour, day-of-month, month, day-of-week, year -/
def mkFields (f : Fields) : List cronField :=
  [mkField f.sec, mkField f.min, mkField f.hour, mkField f.dom, mkField f.month, mkField f.dow, mkField f.year]

/-- result code of `findForward` for a `Next` outcome -/
def ffCode (ovf : Bool) : Int := if ovf then overflowed else advanced

end TransRepr
