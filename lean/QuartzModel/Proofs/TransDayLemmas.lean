import QuartzModel.Proofs.TransRepr
import QuartzModel.Proofs.CalendarLemmas
import QuartzModel.Proofs.DayContract
import QuartzModel.Proofs.CommonNode
/-!
# Stage B: the translated `DayNode` (`Generated.Trans`, instantiated at `Cron.goTime`) agrees with the
hand-written day node of `Cron/Nodes.lean`

For `1 ≤ m ≤ 12`, any year `y : Nat` (also 0), digit `v ≤ 31`, fuel `≥ 32`, `dc = dayCfg {} f`, `WellFormed f`:

* calendar bridge: `goDate_int`, `goDate_valid`, `goDate_succ_month`, `goDate_next_jan`, `goDay_dn`, `goMonth_dn`,
  `goYear_dn`, `goWeekday_dn`, `goDay_over`, `goMonth_over(_ne)`, `goMonth_under_ne`;
* `trans_lastDayOfMonth`, `trans_dayMax`, `trans_getWeekday`, `trans_closestWeekday`,
  `trans_daysOfWeekInMonth`, `trans_targetDay` (for `dc.n ≠ 0`, conclusion `TargetSpec`);
* `trans_dayIsValid`, `trans_dayNext`, `trans_dayFindForward`, `trans_dayReset` (consumed by Stage C).

None needs `1 ≤ v`.  None needs `1 ≤ y`: against the first version of `goTime` (ordinals `≤ 0` clamped by
`Int.toNat`) `trans_closestWeekday` and hence the last four were false at `y = 0, m = 1` for `1W`
(`closestWeekday goTime (dayNumber 0 1 1) = 0`, model `3`); `goTime` now reads ordinals `≤ 0` as December of
year -1, as Go does, and the statements hold for every `y` (`goMonth_under_ne` is where this is used).
CommonNode facts needed here are proved locally as `dayaux_*`.  Core Lean only.
-/
namespace TransDay
open Generated.Trans Cron Cal TransRepr

/-! ## 1. calendar bridge for `goTime` -/

/- `id rfl`: deliberately NOT `rfl`-lemmas, so that `simp` rewrites with congruence (a `dsimp` step would leave
`Decidable` instances mentioning `goTime.month`, which later `simp` calls reject) -/
theorem T_date : goTime.date = goDate := id rfl
theorem T_day : goTime.day = goDay := id rfl
theorem T_month : goTime.month = goMonth := id rfl
theorem T_year : goTime.year = goYear := id rfl
theorem T_weekday : goTime.weekday = goWeekday := id rfl

theorem dayNumber_lin (y m d : Nat) : dayNumber y m d = dayNumber y m 0 + d := by
  unfold dayNumber; omega

/-- `time.Date` with an arbitrary (also non-positive or too large) day argument -/
theorem goDate_int (y m : Nat) (d : Int) (hm1 : 1 ≤ m) (hm12 : m ≤ 12) :
    goDate (y : Int) (m : Int) d = (dayNumber y m 0 : Int) + d := by
  unfold goDate
  have e1 : ((y : Int) + ((m : Int) - 1) / 12).toNat = y := by omega
  have e2 : (((m : Int) - 1) % 12 + 1).toNat = m := by omega
  simp only [e1, e2]
  rw [dayNumber_lin y m 1]; omega

theorem goDate_valid (y m d : Nat) (hm1 : 1 ≤ m) (hm12 : m ≤ 12) :
    goDate (y : Int) (m : Int) (d : Int) = (dayNumber y m d : Int) := by
  rw [goDate_int y m d hm1 hm12, dayNumber_lin y m d]; omega

/-- the month after `(y, m)` -/
def nxt (y m : Nat) : Nat × Nat := if m = 12 then (y + 1, 1) else (y, m + 1)

theorem nxt_ok (y m : Nat) (hm1 : 1 ≤ m) (hm12 : m ≤ 12) :
    1 ≤ (nxt y m).2 ∧ (nxt y m).2 ≤ 12 ∧ (nxt y m).2 ≠ m := by
  unfold nxt; split <;> simp <;> omega

/-- day `dim + k` of a month is day `k` of the following month -/
theorem dayNumber_over (y m k : Nat) (hm1 : 1 ≤ m) (hm12 : m ≤ 12) :
    dayNumber y m (dim y m + k) = dayNumber (nxt y m).1 (nxt y m).2 k := by
  unfold nxt
  split
  · rename_i h; subst h
    have a := daysBeforeMonth_twelve y
    have b := yearLen y
    have c := daysBeforeMonth_one (y + 1)
    simp only [dayNumber]; omega
  · have a := monthLen y m hm1 (by omega)
    simp only [dayNumber]; omega

/-- the month before `(y, m)` -/
def prv (y m : Nat) : Nat × Nat := if m = 1 then (y - 1, 12) else (y, m - 1)

theorem prv_ok (y m : Nat) (hm1 : 1 ≤ m) (hm12 : m ≤ 12) :
    1 ≤ (prv y m).2 ∧ (prv y m).2 ≤ 12 ∧ (prv y m).2 ≠ m := by
  unfold prv; split <;> simp <;> omega

theorem nxt_prv (y m : Nat) (hm1 : 1 ≤ m) (hm12 : m ≤ 12) (hy : 1 ≤ y ∨ 2 ≤ m) :
    nxt (prv y m).1 (prv y m).2 = (y, m) := by
  unfold nxt prv
  by_cases h : m = 1
  · subst h
    have : y - 1 + 1 = y := by omega
    simp [this]
  · have h2 : ¬ m - 1 = 12 := by omega
    have : m - 1 + 1 = m := by omega
    simp [h, h2, this]

/-- day `0 - j` of a month is day `dim - j` of the previous month -/
theorem dayNumber_under (y m j : Nat) (hm1 : 1 ≤ m) (hm12 : m ≤ 12) (hy : 1 ≤ y ∨ 2 ≤ m) (hj : j ≤ 27) :
    (dayNumber y m 0 : Int) - j = (dayNumber (prv y m).1 (prv y m).2 (dim (prv y m).1 (prv y m).2 - j) : Nat) := by
  have hp := prv_ok y m hm1 hm12
  have a := dayNumber_over (prv y m).1 (prv y m).2 0 hp.1 hp.2.1
  rw [nxt_prv y m hm1 hm12 hy] at a
  have hd := dim_bounds (prv y m).1 (prv y m).2
  have b := dayNumber_lin (prv y m).1 (prv y m).2 (dim (prv y m).1 (prv y m).2 - j)
  have c := dayNumber_lin (prv y m).1 (prv y m).2 (dim (prv y m).1 (prv y m).2 + 0)
  simp only at a
  omega

theorem dayNumber_pos (y m d : Nat) (hv : ValidDate y m d) : ¬ ((dayNumber y m d : Int) ≤ 0) := by
  have := hv.2.2.1
  have := dayNumber_lin y m d
  omega

theorem goDay_dn (y m d : Nat) (hv : ValidDate y m d) : goDay (dayNumber y m d : Int) = (d : Int) := by
  unfold goDay; rw [if_neg (dayNumber_pos y m d hv), Int.toNat_natCast, civilOfDay_dayNumber y m d hv]

theorem goMonth_dn (y m d : Nat) (hv : ValidDate y m d) : goMonth (dayNumber y m d : Int) = (m : Int) := by
  unfold goMonth; rw [if_neg (dayNumber_pos y m d hv), Int.toNat_natCast, civilOfDay_dayNumber y m d hv]

theorem goYear_dn (y m d : Nat) (hv : ValidDate y m d) : goYear (dayNumber y m d : Int) = (y : Int) := by
  unfold goYear; rw [if_neg (dayNumber_pos y m d hv), Int.toNat_natCast, civilOfDay_dayNumber y m d hv]

theorem goWeekday_dn (y m d : Nat) : goWeekday (dayNumber y m d : Int) = (weekday y m d : Int) := by
  unfold goWeekday weekday; omega

theorem validDate_over (y m k : Nat) (hm1 : 1 ≤ m) (hm12 : m ≤ 12) (hk1 : 1 ≤ k) (hk : k ≤ 28) :
    ValidDate (nxt y m).1 (nxt y m).2 k := by
  have a := nxt_ok y m hm1 hm12
  have b := dim_bounds (nxt y m).1 (nxt y m).2
  exact ⟨a.1, a.2.1, hk1, by omega⟩

/-- overflow into the next month: `Day` -/
theorem goDay_over (y m k : Nat) (hm1 : 1 ≤ m) (hm12 : m ≤ 12) (hk1 : 1 ≤ k) (hk : k ≤ 28) :
    goDay (dayNumber y m (dim y m + k) : Int) = (k : Int) := by
  rw [dayNumber_over y m k hm1 hm12]; exact goDay_dn _ _ _ (validDate_over y m k hm1 hm12 hk1 hk)

/-- overflow into the next month: `Month` -/
theorem goMonth_over (y m k : Nat) (hm1 : 1 ≤ m) (hm12 : m ≤ 12) (hk1 : 1 ≤ k) (hk : k ≤ 28) :
    goMonth (dayNumber y m (dim y m + k) : Int) = ((nxt y m).2 : Int) := by
  rw [dayNumber_over y m k hm1 hm12]; exact goMonth_dn _ _ _ (validDate_over y m k hm1 hm12 hk1 hk)

theorem goMonth_over_ne (y m k : Nat) (hm1 : 1 ≤ m) (hm12 : m ≤ 12) (hk1 : 1 ≤ k) (hk : k ≤ 28) :
    goMonth (dayNumber y m (dim y m + k) : Int) ≠ (m : Int) := by
  rw [goMonth_over y m k hm1 hm12 hk1 hk]
  have := (nxt_ok y m hm1 hm12).2.2
  omega

/-- underflow into the previous month: `Month` (ordinals `≤ 0` read as December of year -1) -/
theorem goMonth_under_ne (y m j : Nat) (hm1 : 1 ≤ m) (hm12 : m ≤ 12) (hj : j ≤ 27) :
    goMonth ((dayNumber y m 0 : Int) - j) ≠ (m : Int) := by
  by_cases hy : 1 ≤ y ∨ 2 ≤ m
  · rw [dayNumber_under y m j hm1 hm12 hy hj]
    have hp := prv_ok y m hm1 hm12
    have hd := dim_bounds (prv y m).1 (prv y m).2
    rw [goMonth_dn _ _ _ ⟨hp.1, hp.2.1, by omega, by omega⟩]
    have := hp.2.2
    omega
  · have hy0 : y = 0 := by omega
    have hm : m = 1 := by omega
    subst hy0; subst hm
    have e : dayNumber 0 1 0 = 0 := by decide
    unfold goMonth
    rw [e, if_pos (by omega)]
    decide

/-- `time.Date(y, m+1, d)` also for `m = 12` (Go normalises month 13 into January of the next year) -/
theorem goDate_succ_month (y m : Nat) (d : Int) (hm1 : 1 ≤ m) (hm12 : m ≤ 12) :
    goDate (y : Int) ((m : Int) + 1) d = (dayNumber y m (dim y m) : Int) + d := by
  have a := dayNumber_over y m 0 hm1 hm12
  simp only [Nat.add_zero] at a
  rw [a]
  unfold goDate nxt
  by_cases h : m = 12
  · subst h
    have e1 : ((y : Int) + (((12 : Nat) : Int) + 1 - 1) / 12).toNat = y + 1 := by omega
    have e2 : ((((12 : Nat) : Int) + 1 - 1) % 12 + 1).toNat = 1 := by omega
    simp only [e1, e2, if_true]
    rw [dayNumber_lin (y + 1) 1 1]; omega
  · have e1 : ((y : Int) + ((m : Int) + 1 - 1) / 12).toNat = y := by omega
    have e2 : (((m : Int) + 1 - 1) % 12 + 1).toNat = m + 1 := by omega
    simp only [e1, e2, if_neg h]
    rw [dayNumber_lin y (m + 1) 1]; omega

/-- `time.Date(y+1, 1, d)` -/
theorem goDate_next_jan (y : Nat) (d : Int) :
    goDate ((y : Int) + 1) 1 d = (dayNumber y 12 (dim y 12) : Int) + d := by
  have a := goDate_succ_month y 12 d (by omega) (by omega)
  rw [← a]
  unfold goDate
  have e1 : ((y : Int) + 1 + ((1 : Int) - 1) / 12).toNat = ((y : Int) + (((12 : Nat) : Int) + 1 - 1) / 12).toNat := by
    omega
  have e2 : (((1 : Int) - 1) % 12 + 1).toNat = ((((12 : Nat) : Int) + 1 - 1) % 12 + 1).toNat := by omega
  simp only [e1, e2]

theorem validDate_last (y m : Nat) (hm1 : 1 ≤ m) (hm12 : m ≤ 12) : ValidDate y m (dim y m) := by
  have := dim_bounds y m
  exact ⟨hm1, hm12, by omega, Nat.le_refl _⟩

/-! ## 2.–4. month length, weekday -/

theorem trans_lastDayOfMonth (y m : Nat) (hm1 : 1 ≤ m) (hm12 : m ≤ 12) :
    Generated.Trans.lastDayOfMonth goTime (y : Int) (m : Int) = (dim y m : Int) := by
  have hd := dim_bounds y m
  have hv : ValidDate y m 1 := ⟨hm1, hm12, by omega, by omega⟩
  have e : goDate (y : Int) (m : Int) 1 = (dayNumber y m 1 : Int) := goDate_valid y m 1 hm1 hm12
  simp only [Generated.Trans.lastDayOfMonth, makeDateTime, T_date, T_day, T_month, T_year, e,
    goYear_dn y m 1 hv, goMonth_dn y m 1 hv, goDay_dn y m 1 hv, Int.add_zero]
  rw [goDate_succ_month y m _ hm1 hm12]
  have : (dayNumber y m (dim y m) : Int) + (((1 : Nat) : Int) + -1) = (dayNumber y m (dim y m) : Int) := by omega
  rw [this]
  exact goDay_dn y m _ (validDate_last y m hm1 hm12)

theorem trans_dayMax (n : DayNode) (y m : Nat) (hm1 : 1 ≤ m) (hm12 : m ≤ 12) :
    DayNode.max goTime n (m : Int) (y : Int) = (dim y m : Int) := by
  simp only [DayNode.max, makeDateTime, T_date, T_day]
  by_cases h : m = 12
  · subst h
    have : decide ((((12 : Nat) : Int)) = 12) = true := by decide
    simp only [this, if_true]
    rw [goDate_next_jan, Int.add_zero]
    exact goDay_dn y 12 _ (validDate_last y 12 hm1 hm12)
  · have : decide ((m : Int) = 12) = false := by
      simp only [decide_eq_false_iff_not]; omega
    simp only [this, Bool.false_eq_true, if_false]
    rw [goDate_succ_month y m 0 hm1 hm12, Int.add_zero]
    exact goDay_dn y m _ (validDate_last y m hm1 hm12)

theorem trans_getWeekday (dc : DayCfg) (y m v : Nat) (hm1 : 1 ≤ m) (hm12 : m ≤ 12) :
    DayNode.getWeekday goTime (mkDay dc v) (m : Int) (y : Int) = (weekday y m v : Int) := by
  simp only [DayNode.getWeekday, makeDateTime, T_date, T_weekday, mkDay, mkCommon]
  rw [goDate_valid y m v hm1 hm12, goWeekday_dn]

/-! ## 5. closestWeekday -/

theorem dec_ne6 (w : Nat) : decide ((w : Int) ≠ 6) = (w != 6) := by
  by_cases h : w = 6
  · subst h; decide
  · have h' : (w : Int) ≠ 6 := by omega
    simp [h, h', bne]

theorem dec_ne0 (w : Nat) : decide ((w : Int) ≠ 0) = (w != 0) := by
  by_cases h : w = 0
  · subst h; decide
  · have h' : (w : Int) ≠ 0 := by omega
    simp [h]

theorem isWeekday_dn (y m d : Nat) : isWeekday goTime (dayNumber y m d : Int) = isWeekdayB y m d := by
  simp only [isWeekday, T_weekday, goWeekday_dn, isWeekdayB, dec_ne6, dec_ne0]

/-- the "previous day" test of the search loop -/
theorem closest_prev (y m t i : Nat) (hm1 : 1 ≤ m) (hm12 : m ≤ 12) (ht1 : 1 ≤ t) (ht : t ≤ dim y m)
    (hi : i ≤ 7) :
    ((goMonth ((dayNumber y m t : Int) + -(i : Int)) = goMonth (dayNumber y m t : Int) ∧
        isWeekday goTime ((dayNumber y m t : Int) + -(i : Int)) = true) ↔
      (i < t ∧ isWeekdayB y m (t - i) = true)) ∧
    (i < t → goDay ((dayNumber y m t : Int) + -(i : Int)) = ((t - i : Nat) : Int)) := by
  have hvt : ValidDate y m t := ⟨hm1, hm12, ht1, ht⟩
  have l1 := dayNumber_lin y m t
  have l2 := dayNumber_lin y m (t - i)
  by_cases hlt : i < t
  · have e : (dayNumber y m t : Int) + -(i : Int) = (dayNumber y m (t - i) : Nat) := by omega
    have hv : ValidDate y m (t - i) := ⟨hm1, hm12, by omega, by omega⟩
    rw [e, goMonth_dn y m _ hv, goMonth_dn y m t hvt, isWeekday_dn, goDay_dn y m _ hv]
    simp [hlt]
  · have e : (dayNumber y m t : Int) + -(i : Int) = (dayNumber y m 0 : Int) - ((i - t : Nat) : Int) := by omega
    have hne := goMonth_under_ne y m (i - t) hm1 hm12 (by omega)
    rw [e, goMonth_dn y m t hvt]
    simp [hlt, hne]

/-- the "next day" test of the search loop -/
theorem closest_next (y m t i : Nat) (hm1 : 1 ≤ m) (hm12 : m ≤ 12) (ht1 : 1 ≤ t) (ht : t ≤ dim y m)
    (hi : i ≤ 7) :
    ((goMonth ((dayNumber y m t : Int) + (i : Int)) = goMonth (dayNumber y m t : Int) ∧
        isWeekday goTime ((dayNumber y m t : Int) + (i : Int)) = true) ↔
      (t + i ≤ dim y m ∧ isWeekdayB y m (t + i) = true)) ∧
    (t + i ≤ dim y m → goDay ((dayNumber y m t : Int) + (i : Int)) = ((t + i : Nat) : Int)) := by
  have hvt : ValidDate y m t := ⟨hm1, hm12, ht1, ht⟩
  have l1 := dayNumber_lin y m t
  have l2 := dayNumber_lin y m (t + i)
  have e : (dayNumber y m t : Int) + (i : Int) = (dayNumber y m (t + i) : Nat) := by omega
  rw [e, goMonth_dn y m t hvt, isWeekday_dn]
  by_cases hle : t + i ≤ dim y m
  · have hv : ValidDate y m (t + i) := ⟨hm1, hm12, by omega, hle⟩
    rw [goMonth_dn y m _ hv, goDay_dn y m _ hv]
    simp [hle]
  · have e2 : t + i = dim y m + (t + i - dim y m) := by omega
    have hne := goMonth_over_ne y m (t + i - dim y m) hm1 hm12 (by omega) (by omega)
    rw [← e2] at hne
    simp [hle, hne]

theorem closest_loop (y m t : Nat) (hm1 : 1 ≤ m) (hm12 : m ≤ 12) (ht1 : 1 ≤ t) (ht : t ≤ dim y m) :
    ∀ cnt i : Nat, cnt + i = 8 → 1 ≤ i →
      (match closestWeekday.loop1 goTime (dayNumber y m t : Int) cnt (i : Int) with
        | .ret r => r
        | .done _ => (t : Int)) = (closestSearch y m t (dim y m) cnt i : Int) := by
  intro cnt
  induction cnt with
  | zero => intro i _ _; simp only [closestWeekday.loop1, closestSearch]
  | succ cnt ih =>
    intro i h8 hi
    have hi7 : decide ((i : Int) ≤ 7) = true := by
      simp only [decide_eq_true_eq]; omega
    obtain ⟨p1, p2⟩ := closest_prev y m t i hm1 hm12 ht1 ht (by omega)
    obtain ⟨n1, n2⟩ := closest_next y m t i hm1 hm12 ht1 ht (by omega)
    have ei : (i : Int) + 1 = ((i + 1 : Nat) : Int) := by omega
    simp only [closestWeekday.loop1, hi7, if_true, T_month, T_day, ei, Bool.and_eq_true]
    simp only [decide_eq_true_eq]
    simp only [p1, n1]
    unfold closestSearch
    by_cases c1 : i < t ∧ isWeekdayB y m (t - i) = true
    · rw [if_pos c1, if_pos c1]
      exact p2 c1.1
    · rw [if_neg c1, if_neg c1]
      by_cases c2 : t + i ≤ dim y m ∧ isWeekdayB y m (t + i) = true
      · rw [if_pos c2, if_pos c2]
        exact n2 c2.1
      · rw [if_neg c2, if_neg c2]
        exact ih (i + 1) (by omega) (by omega)

theorem trans_closestWeekday (y m t : Nat) (hm1 : 1 ≤ m) (hm12 : m ≤ 12) (ht1 : 1 ≤ t) (ht : t ≤ dim y m) :
    Generated.Trans.closestWeekday goTime (dayNumber y m t : Int) = (Cron.closestWeekday y m t : Int) := by
  have hvt : ValidDate y m t := ⟨hm1, hm12, ht1, ht⟩
  unfold Generated.Trans.closestWeekday Cron.closestWeekday
  rw [isWeekday_dn, T_day, goDay_dn y m t hvt]
  by_cases hw : isWeekdayB y m t = true
  · simp only [hw, if_true]
  · simp only [hw, Bool.false_eq_true, if_false]
    have e : ((7 : Int) + 1 - 1).toNat = 7 := by decide
    rw [e]
    exact closest_loop y m t hm1 hm12 ht1 ht 7 1 (by omega) (by omega)

/-! ## 6. daysOfWeekInMonth -/

theorem ints_nil : ints ([] : List Nat) = [] := rfl

theorem ints_snoc (l : List Nat) (x : Nat) : ints (l ++ [x]) = ints l ++ [(x : Int)] := by
  simp [ints]

theorem idx_ints (l : List Nat) (i : Int) : idx (ints l) i = ((l.getD i.toNat 0 : Nat) : Int) := by
  unfold idx ints
  simp only [List.getD_eq_getElem?_getD, List.getElem?_map]
  cases l[i.toNat]? <;> simp

theorem idx_ints_zero (l : List Nat) : idx (ints l) 0 = ((l.headD 0 : Nat) : Int) := by
  rw [idx_ints]; cases l <;> simp

/-- the filter of the model's `daysOfWeekInMonth` -/
def dowF (y m w : Nat) : Nat → Option Nat := fun i => if weekday y m (i + 1) = w then some (i + 1) else none

theorem daysOfWeekInMonth_eq (y m w : Nat) :
    Cron.daysOfWeekInMonth y m w = (List.range (dim y m)).filterMap (dowF y m w) := rfl

theorem dow_loop (y m w : Nat) (hm1 : 1 ≤ m) (hm12 : m ≤ 12) :
    ∀ k j cnt : Nat, j + k = dim y m → k + 1 ≤ cnt →
      DayNode.daysOfWeekInMonth.loop1 goTime (y : Int) (m : Int) (w : Int) cnt
          (ints ((List.range j).filterMap (dowF y m w))) ((j : Int) + 1) =
        some (ints (Cron.daysOfWeekInMonth y m w)) := by
  intro k
  induction k with
  | zero =>
    intro j cnt hj hc
    obtain ⟨c, rfl⟩ : ∃ c, cnt = c + 1 := ⟨cnt - 1, by omega⟩
    have e : goDate (y : Int) (m : Int) ((j : Int) + 1) = (dayNumber y m (dim y m + 1) : Nat) := by
      rw [goDate_int y m _ hm1 hm12, dayNumber_lin y m (dim y m + 1)]; omega
    have hne := goMonth_over_ne y m 1 hm1 hm12 (by omega) (by omega)
    simp only [DayNode.daysOfWeekInMonth.loop1, makeDateTime, T_date, T_month, e]
    have hj' : j = dim y m := by omega
    simp [hne, hj', daysOfWeekInMonth_eq]
  | succ k ih =>
    intro j cnt hj hc
    obtain ⟨c, rfl⟩ : ∃ c, cnt = c + 1 := ⟨cnt - 1, by omega⟩
    have e : goDate (y : Int) (m : Int) ((j : Int) + 1) = (dayNumber y m (j + 1) : Nat) := by
      rw [goDate_int y m _ hm1 hm12, dayNumber_lin y m (j + 1)]; omega
    have hv : ValidDate y m (j + 1) := ⟨hm1, hm12, by omega, by omega⟩
    have ej : (j : Int) + 1 + 1 = ((j + 1 : Nat) : Int) + 1 := by omega
    have ej1 : (j : Int) + 1 = ((j + 1 : Nat) : Int) := by omega
    simp only [DayNode.daysOfWeekInMonth.loop1, makeDateTime, T_date, T_month, T_weekday, e,
      goMonth_dn y m _ hv, goWeekday_dn, ej]
    have hd : decide (((m : Int)) ≠ (m : Int)) = false := by simp
    simp only [hd, Bool.false_eq_true, if_false]
    have hs : (if decide (((weekday y m (j + 1) : Nat) : Int) = (w : Int)) = true
          then ints ((List.range j).filterMap (dowF y m w)) ++ [(j : Int) + 1]
          else ints ((List.range j).filterMap (dowF y m w))) =
        ints ((List.range (j + 1)).filterMap (dowF y m w)) := by
      rw [List.range_succ, List.filterMap_append]
      by_cases hw : weekday y m (j + 1) = w
      · have hw' : ((weekday y m (j + 1) : Nat) : Int) = (w : Int) := by omega
        have f1 : [j].filterMap (dowF y m w) = [j + 1] := by simp [dowF, hw]
        rw [f1, ints_snoc, if_pos (decide_eq_true hw'), ej1]
      · have hw' : ¬ ((weekday y m (j + 1) : Nat) : Int) = (w : Int) := by omega
        have f1 : [j].filterMap (dowF y m w) = [] := by simp [dowF, hw]
        rw [f1, List.append_nil, if_neg (by simp [hw'])]
    rw [hs]
    exact ih (j + 1) c (by omega) (by omega)

theorem trans_daysOfWeekInMonth (dc : DayCfg) (y m v fuel : Nat) (hm1 : 1 ≤ m) (hm12 : m ≤ 12)
    (hfuel : 32 ≤ fuel) :
    DayNode.daysOfWeekInMonth goTime (mkDay dc v) (m : Int) (y : Int) fuel =
      some (ints (Cron.daysOfWeekInMonth y m (dc.wvalues.headD 0))) := by
  have hd := dim_bounds y m
  have h := dow_loop y m (dc.wvalues.headD 0) hm1 hm12 (dim y m) 0 fuel (by omega) (by omega)
  simp only [DayNode.daysOfWeekInMonth, mkDay, idx_ints_zero]
  simpa [ints_nil] using h

/-! ## CommonNode facts used by the day node (auxiliary; Stage A proves its own versions) -/

theorem ints_cons (a : Nat) (l : List Nat) : ints (a :: l) = (a : Int) :: ints l := rfl

theorem dayaux_contains_loop (x : Nat) : ∀ l : List Nat,
    contains.loop1 (x : Int) (ints l) = if l.contains x = true then Ctl.ret true else Ctl.done () := by
  intro l
  induction l with
  | nil => simp [ints_nil, contains.loop1]
  | cons a t ih =>
    rw [ints_cons]
    simp only [contains.loop1, ih, List.contains_cons]
    by_cases h : x = a
    · subst h; simp
    · have h' : ¬ (x : Int) = (a : Int) := by omega
      simp [h, h']

theorem dayaux_contains (l : List Nat) (x : Nat) : contains (ints l) (x : Int) = l.contains x := by
  unfold contains
  rw [dayaux_contains_loop]
  cases l.contains x <;> simp

theorem dayaux_hasRange (mn mx : Nat) (vs : List Nat) (v : Nat) :
    CommonNode.hasRange (mkCommon mn mx vs v) = decide (vs ≠ []) := by
  cases vs with
  | nil => simp [CommonNode.hasRange, mkCommon, ints]
  | cons a t => simp [CommonNode.hasRange, mkCommon, ints]; omega

theorem dayaux_nextInRange_loop (mn mx : Nat) (vs : List Nat) (v : Nat) : ∀ l : List Nat,
    CommonNode.nextInRange.loop1 (mkCommon mn mx vs v) (ints l) =
      match l.find? (fun x => decide (v < x) && decide (x ≤ mx)) with
      | some x => Ctl.ret (mkCommon mn mx vs x, false)
      | none => Ctl.done (mkCommon mn mx vs v) := by
  intro l
  induction l with
  | nil => simp [ints_nil, CommonNode.nextInRange.loop1]
  | cons a t ih =>
    rw [ints_cons]
    simp only [CommonNode.nextInRange.loop1, ih, List.find?_cons]
    have e : (decide ((a : Int) > (mkCommon mn mx vs v).value) && decide ((a : Int) ≤ (mkCommon mn mx vs v).max)) =
        (decide (v < a) && decide (a ≤ mx)) := by
      simp only [mkCommon]
      congr 1
      · apply decide_eq_decide.mpr; omega
      · apply decide_eq_decide.mpr; omega
    rw [e]
    cases (decide (v < a) && decide (a ≤ mx)) with
    | true => simp [mkCommon]
    | false => simp

theorem dayaux_commonNext (mn mx : Nat) (vs : List Nat) (v : Nat) :
    CommonNode.Next (mkCommon mn mx vs v) =
      (mkCommon mn mx vs (commonNext mn mx vs v).1, (commonNext mn mx vs v).2) := by
  unfold CommonNode.Next commonNext
  rw [dayaux_hasRange]
  by_cases hvs : vs = []
  · subst hvs
    simp only [ne_eq, not_true_eq_false, decide_false, Bool.false_eq_true, if_false, CommonNode.next]
    by_cases h : v + 1 > mx
    · have h' : (mx : Int) < (v : Int) + 1 := by omega
      simp [h, h', mkCommon]
    · have h' : ¬ (mx : Int) < (v : Int) + 1 := by omega
      simp [h, h', mkCommon]
  · simp only [ne_eq, hvs, not_false_eq_true, decide_true, if_true, CommonNode.nextInRange, nextInRange]
    have hl := dayaux_nextInRange_loop mn mx vs v vs
    have hv : (mkCommon mn mx vs v).values = ints vs := rfl
    rw [hv, hl]
    cases vs.find? (fun x => decide (v < x) && decide (x ≤ mx)) with
    | some x => rfl
    | none => simp [mkCommon, idx_ints_zero]

theorem dayaux_commonValid (mn mx : Nat) (vs : List Nat) (v : Nat) :
    CommonNode.isValid (mkCommon mn mx vs v) = commonValid mn mx vs v := by
  unfold CommonNode.isValid commonValid
  rw [dayaux_hasRange]
  have e : (decide ((mkCommon mn mx vs v).value ≥ (mkCommon mn mx vs v).min) &&
        decide ((mkCommon mn mx vs v).value ≤ (mkCommon mn mx vs v).max)) =
      (decide (mn ≤ v) && decide (v ≤ mx)) := by
    simp only [mkCommon]
    congr 1
    · apply decide_eq_decide.mpr; omega
    · apply decide_eq_decide.mpr; omega
  simp only [e]
  have hc : contains (mkCommon mn mx vs v).values (mkCommon mn mx vs v).value = vs.contains v :=
    dayaux_contains vs v
  rw [hc]
  cases vs with
  | nil => simp
  | cons a t => simp

theorem dayaux_commonReset (mn mx : Nat) (vs : List Nat) (v : Nat) :
    CommonNode.Reset (mkCommon mn mx vs v) = mkCommon mn mx vs (commonReset mn mx vs) := by
  unfold CommonNode.Reset commonReset
  have e : ({ mkCommon mn mx vs v with value := (mkCommon mn mx vs v).max } : CommonNode) = mkCommon mn mx vs mx := rfl
  simp only [e, dayaux_commonNext]

/-! ## 7. targetDay -/

theorem ints_length (l : List Nat) : (ints l).length = l.length := by simp [ints]

theorem dayaux_isWeekday (dc : DayCfg) (v : Nat) :
    DayNode.isWeekday (mkDay dc v) = decide (dc.wvalues ≠ []) := by
  cases hw : dc.wvalues with
  | nil => simp [DayNode.isWeekday, mkDay, hw, ints]
  | cons a t => simp [DayNode.isWeekday, mkDay, hw, ints]; omega

/-- every weekday occurs in the first week of a month -/
theorem dow_nonempty (y m w : Nat) (hw : w ≤ 6) : Cron.daysOfWeekInMonth y m w ≠ [] := by
  have hd := dim_bounds y m
  have ha := weekday_lt y m 1
  have hk := weekday_add y m 1 ((w + 7 - weekday y m 1) % 7)
  have hmem : 1 + (w + 7 - weekday y m 1) % 7 ∈ Cron.daysOfWeekInMonth y m w := by
    rw [mem_daysOfWeekInMonth]
    refine ⟨by omega, by omega, ?_⟩
    rw [hk]; omega
  intro h
  rw [h] at hmem
  cases hmem

/-- specification of the translated `targetDay` against the model's -/
def TargetSpec (dc : DayCfg) (y m : Nat) (r : Option (Int × Bool)) : Prop :=
  ∃ t ok, r = some (t, ok) ∧ (ok = true → Cron.targetDay dc y m = some t.toNat ∧ 0 ≤ t) ∧
    (ok = false → Cron.targetDay dc y m = none)

theorem targetDay_W (dc : DayCfg) (y m v fuel : Nat) (hm1 : 1 ≤ m) (hm12 : m ≤ 12) (hfuel : 32 ≤ fuel)
    (hiw : dc.isWeekdayNode = true) (hws : dc.wvalues ≠ []) (h6 : dc.wvalues.headD 0 ≤ 6) :
    TargetSpec dc y m (DayNode.targetDay goTime (mkDay dc v) (m : Int) (y : Int) fuel) := by
  have hD := trans_daysOfWeekInMonth dc y m v fuel hm1 hm12 hfuel
  have hne := dow_nonempty y m _ h6
  unfold TargetSpec DayNode.targetDay
  rw [dayaux_isWeekday]
  simp only [hws, ne_eq, not_false_eq_true, decide_true, if_true]
  unfold DayNode.weekdayOfMonth
  rw [hD]
  simp only [Option.bind_some]
  unfold Cron.targetDay
  simp only [hiw, if_true]
  have hn : (mkDay dc v).n = dc.n := rfl
  rw [hn, ints_length]
  generalize Cron.daysOfWeekInMonth y m (dc.wvalues.headD 0) = D at hne ⊢
  by_cases c1 : dc.n > (D.length : Int)
  · refine ⟨0, false, ?_, ?_, ?_⟩
    · simp [c1]
    · intro h; cases h
    · intro _; simp [c1]
  · by_cases c2 : dc.n > 0
    · have hlt : dc.n.toNat - 1 < D.length := by omega
      refine ⟨idx (ints D) (dc.n - 1), true, ?_, ?_, ?_⟩
      · simp [c1, c2]
      · intro _
        rw [idx_ints]
        have e : (dc.n - 1).toNat = dc.n.toNat - 1 := by omega
        simp only [c1, c2, if_false, if_true, Int.toNat_natCast, e]
        rw [List.getD_eq_getElem?_getD, List.getElem?_eq_getElem hlt]
        simp
      · intro h; cases h
    · have hlt : D.length - 1 < D.length := by
        cases D with
        | nil => exact absurd rfl hne
        | cons a t => simp
      refine ⟨idx (ints D) ((D.length : Int) - 1), true, ?_, ?_, ?_⟩
      · simp [c1, c2]
      · intro _
        rw [idx_ints]
        have e : ((D.length : Int) - 1).toNat = D.length - 1 := by omega
        simp only [c1, c2, if_false, Int.toNat_natCast, e]
        rw [List.getD_eq_getElem?_getD, List.getLast?_eq_getElem?, List.getElem?_eq_getElem hlt]
        simp
      · intro h; cases h

theorem closestOfMonth_eq (iw : Bool) (n : Int) (vs : List Nat) (mx y m v t : Nat) (hm1 : 1 ≤ m) (hm12 : m ≤ 12)
    (ht1 : 1 ≤ t) (ht : t ≤ dim y m)
    (hdate : (if (decide (idx (ints vs) 0 > (dim y m : Int)) || decide (band n NLastDayOfMonth ≠ 0)) = true
        then (dim y m : Int) else idx (ints vs) 0) = (t : Int)) :
    DayNode.closestWeekdayOfMonth goTime (mkDay ⟨iw, n, vs, [], 1, mx⟩ v) (m : Int) (y : Int) =
      (Cron.closestWeekday y m t : Int) := by
  unfold DayNode.closestWeekdayOfMonth
  have hn : (mkDay ⟨iw, n, vs, [], 1, mx⟩ v).n = n := rfl
  have hv : (mkDay ⟨iw, n, vs, [], 1, mx⟩ v).c.values = ints vs := rfl
  simp only [trans_lastDayOfMonth y m hm1 hm12, hn, hv, makeDateTime, T_date]
  rw [hdate, goDate_valid y m t hm1 hm12]
  exact trans_closestWeekday y m t hm1 hm12 ht1 ht

theorem targetDay_M (dc : DayCfg) (y m v fuel : Nat) (hm1 : 1 ≤ m) (hm12 : m ≤ 12)
    (hiw : dc.isWeekdayNode = false) (hws : dc.wvalues = []) (hmin : dc.min = 1)
    (shape : dc.n = 1 ∨ (dc.n = 2 ∧ 1 ≤ dc.values.headD 0) ∨ dc.n = 3 ∨ dc.n < 0) :
    TargetSpec dc y m (DayNode.targetDay goTime (mkDay dc v) (m : Int) (y : Int) fuel) := by
  obtain ⟨iw, n, vs, ws, mn, mx⟩ := dc
  simp only at hiw hws hmin shape
  subst hiw; subst hws; subst hmin
  have hd := dim_bounds y m
  unfold TargetSpec DayNode.targetDay
  rw [dayaux_isWeekday]
  simp only [ne_eq, not_true_eq_false, decide_false, Bool.false_eq_true, if_false]
  have hn : (mkDay ⟨false, n, vs, [], 1, mx⟩ v).n = n := rfl
  rw [hn]
  rcases shape with rfl | ⟨rfl, hd1⟩ | rfl | hneg
  · -- L
    have hc : (decide ((1 : Int) > 0) && decide (band 1 NWeekday ≠ 0)) = false := by decide
    rw [hc]
    refine ⟨(dim y m : Int), true, ?_, ?_, ?_⟩
    · simp [DayNode.lastDayOfMonth, trans_lastDayOfMonth y m hm1 hm12, mkDay, mkCommon]
      omega
    · intro _
      refine ⟨?_, by omega⟩
      unfold Cron.targetDay
      simp
      omega
    · intro h; cases h
  · -- dW
    have hc : (decide ((2 : Int) > 0) && decide (band 2 NWeekday ≠ 0)) = true := by decide
    rw [hc]
    simp only [if_true]
    have hb : decide (band 2 NLastDayOfMonth ≠ 0) = false := by decide
    have ht : (if (decide (idx (ints vs) 0 > (dim y m : Int)) || decide (band 2 NLastDayOfMonth ≠ 0)) = true
        then (dim y m : Int) else idx (ints vs) 0) =
        ((if vs.headD 0 > dim y m then dim y m else vs.headD 0 : Nat) : Int) := by
      rw [hb, Bool.or_false, idx_ints_zero]
      by_cases hgt : vs.headD 0 > dim y m
      · have : ((vs.headD 0 : Nat) : Int) > (dim y m : Int) := by omega
        rw [if_pos (decide_eq_true this), if_pos hgt]
      · have : ¬ ((vs.headD 0 : Nat) : Int) > (dim y m : Int) := by omega
        rw [if_neg (fun h => this (of_decide_eq_true h)), if_neg hgt]
    have hcl := closestOfMonth_eq false 2 vs mx y m v _ hm1 hm12 (by split <;> omega) (by split <;> omega) ht
    refine ⟨_, true, rfl, ?_, ?_⟩
    · intro _
      rw [hcl]
      refine ⟨?_, by omega⟩
      unfold Cron.targetDay
      have hc2 : ((2 : Int) > 0 ∧ (2 : Int).toNat &&& 2 ≠ 0) := by decide
      have hc3 : ¬ ((2 : Int).toNat &&& 1 ≠ 0) := by decide
      simp only [Bool.false_eq_true, if_false]
      rw [if_pos hc2]
      simp only [hc3, or_false, Int.toNat_natCast]
    · intro h; cases h
  · -- LW
    have hc : (decide ((3 : Int) > 0) && decide (band 3 NWeekday ≠ 0)) = true := by decide
    rw [hc]
    simp only [if_true]
    have hb : decide (band 3 NLastDayOfMonth ≠ 0) = true := by decide
    have ht : (if (decide (idx (ints vs) 0 > (dim y m : Int)) || decide (band 3 NLastDayOfMonth ≠ 0)) = true
        then (dim y m : Int) else idx (ints vs) 0) = (dim y m : Int) := by
      rw [hb, Bool.or_true, if_pos rfl]
    have hcl := closestOfMonth_eq false 3 vs mx y m v _ hm1 hm12 (by omega) (Nat.le_refl _) ht
    refine ⟨_, true, rfl, ?_, ?_⟩
    · intro _
      rw [hcl]
      refine ⟨?_, by omega⟩
      unfold Cron.targetDay
      have hc2 : ((3 : Int) > 0 ∧ (3 : Int).toNat &&& 2 ≠ 0) := by decide
      have hc3 : ((3 : Int).toNat &&& 1 ≠ 0) := by decide
      simp only [Bool.false_eq_true, if_false]
      rw [if_pos hc2, if_pos (Or.inr hc3), Int.toNat_natCast]
    · intro h; cases h
  · -- L-k
    have hc : (decide (n > 0) && decide (band n NWeekday ≠ 0)) = false := by
      have : decide (n > 0) = false := by simp; omega
      rw [this, Bool.false_and]
    rw [hc]
    have hn1 : ¬ n = 1 := by omega
    have hc2 : ¬ (n > 0 ∧ n.toNat &&& 2 ≠ 0) := fun hh => by omega
    refine ⟨(dim y m : Int) + n, decide ((dim y m : Int) + n ≥ 1), ?_, ?_, ?_⟩
    · simp [DayNode.lastDayOfMonth, trans_lastDayOfMonth y m hm1 hm12, mkDay, mkCommon, hn1]
    · intro hok
      have hge : (dim y m : Int) + n ≥ 1 := of_decide_eq_true hok
      refine ⟨?_, by omega⟩
      unfold Cron.targetDay
      simp only [Bool.false_eq_true, if_false, hc2, hn1]
      rw [if_pos (by simpa using hge)]
    · intro hok
      have hge : ¬ (dim y m : Int) + n ≥ 1 := of_decide_eq_false hok
      unfold Cron.targetDay
      simp only [Bool.false_eq_true, if_false, hc2, hn1]
      rw [if_neg (by simpa using hge)]

/-! ### shape of `dayCfg {} f` -/

theorem dayCfg_basic (f : Fields) :
    ((dayCfg {} f).isWeekdayNode = true ↔ (dayCfg {} f).wvalues ≠ []) ∧
    ((dayCfg {} f).isWeekdayNode = false → (dayCfg {} f).wvalues = []) ∧
    (dayCfg {} f).min = 1 ∧ (dayCfg {} f).max = 31 := by
  unfold dayCfg
  by_cases hw : f.dow.values = []
  · have hw' : ¬ f.dow.values ≠ [] := fun hh => hh hw
    rw [if_neg hw']
    simp
  · rw [if_pos hw]
    simp [hw]

/-- the special (`n ≠ 0`) configurations, with what the equivalence proofs need -/
theorem dayCfg_special (f : Fields) (hwf : WellFormed f = true) (hn : (dayCfg {} f).n ≠ 0) :
    ((dayCfg {} f).isWeekdayNode = true ∧ (dayCfg {} f).wvalues ≠ [] ∧ (dayCfg {} f).wvalues.headD 0 ≤ 6) ∨
    ((dayCfg {} f).isWeekdayNode = false ∧ (dayCfg {} f).wvalues = [] ∧ (dayCfg {} f).min = 1 ∧
      ((dayCfg {} f).n = 1 ∨ ((dayCfg {} f).n = 2 ∧ 1 ≤ (dayCfg {} f).values.headD 0) ∨ (dayCfg {} f).n = 3 ∨
        (dayCfg {} f).n < 0)) := by
  have hs : Special (dayCfg {} f) := by
    rcases dayCfg_modes f hwf with h | h | h
    · exact absurd h.n0 hn
    · exact absurd h.n0 hn
    · exact h
  obtain ⟨hb1, hb2, hb3, _⟩ := dayCfg_basic f
  cases hiw : (dayCfg {} f).isWeekdayNode with
  | false =>
    right
    refine ⟨rfl, hb2 hiw, hb3, ?_⟩
    rcases hs.shape with h | h
    · rw [hiw] at h; cases h
    · exact h
  | true =>
    left
    refine ⟨rfl, hb1.mp hiw, ?_⟩
    simp only [WellFormed, Bool.and_eq_true] at hwf
    obtain ⟨⟨⟨⟨⟨⟨⟨⟨⟨_, _⟩, _⟩, _⟩, _⟩, hdow⟩, _⟩, _⟩, _⟩, _⟩ := hwf
    have hw : f.dow.values ≠ [] := by
      intro hw
      have hw' : ¬ f.dow.values ≠ [] := fun hh => hh hw
      unfold dayCfg at hiw
      rw [if_neg hw'] at hiw
      cases hiw
    have e : dayCfg {} f = (⟨true, f.dow.n, [], f.dow.values, 1, 31⟩ : DayCfg) := by
      unfold dayCfg; rw [if_pos hw]
    rw [e] at hn ⊢
    simp only at hn ⊢
    unfold dowOK at hdow
    rw [if_neg hn] at hdow
    simp only [Bool.and_eq_true] at hdow
    have h2 := hdow.2
    split at h2
    · rename_i w heq
      rw [heq]
      simpa using h2
    · cases h2

theorem trans_targetDay (f : Fields) (hwf : WellFormed f = true) (y m v fuel : Nat)
    (hm1 : 1 ≤ m) (hm12 : m ≤ 12) (hfuel : 32 ≤ fuel) (hn : (dayCfg {} f).n ≠ 0) :
    TargetSpec (dayCfg {} f) y m (DayNode.targetDay goTime (mkDay (dayCfg {} f) v) (m : Int) (y : Int) fuel) := by
  rcases dayCfg_special f hwf hn with ⟨h1, h2, h3⟩ | ⟨h1, h2, h3, h4⟩
  · exact targetDay_W _ y m v fuel hm1 hm12 hfuel h1 h2 h3
  · exact targetDay_M _ y m v fuel hm1 hm12 h1 h2 h3 h4

/-! ## 8. isValid -/

theorem mkDay_n (dc : DayCfg) (v : Nat) : (mkDay dc v).n = dc.n := id rfl
theorem mkDay_c (dc : DayCfg) (v : Nat) : (mkDay dc v).c = mkCommon dc.min dc.max dc.values v := id rfl
theorem mkDay_w (dc : DayCfg) (v : Nat) : (mkDay dc v).weekdayValues = ints dc.wvalues := id rfl
theorem mkCommon_value (mn mx : Nat) (vs : List Nat) (v : Nat) : (mkCommon mn mx vs v).value = (v : Int) := id rfl
theorem mkCommon_min (mn mx : Nat) (vs : List Nat) (v : Nat) : (mkCommon mn mx vs v).min = (mn : Int) := id rfl

theorem dec_le_cast (a b : Nat) : decide ((a : Int) ≤ (b : Int)) = decide (a ≤ b) := by
  apply decide_eq_decide.mpr; omega

theorem dec_lt_cast (a b : Nat) : decide ((a : Int) < (b : Int)) = decide (a < b) := by
  apply decide_eq_decide.mpr; omega

theorem dec_eq_cast (a b : Nat) : decide ((a : Int) = (b : Int)) = decide (a = b) := by
  apply decide_eq_decide.mpr; omega

theorem isValid_n0 (dc : DayCfg) (hwk : dc.isWeekdayNode = true ↔ dc.wvalues ≠ []) (hn0 : dc.n = 0)
    (y m v fuel : Nat) (hm1 : 1 ≤ m) (hm12 : m ≤ 12) :
    DayNode.isValid goTime (mkDay dc v) (m : Int) (y : Int) fuel = some (dayValid dc y m v) := by
  unfold DayNode.isValid dayValid
  have hd : decide ((mkDay dc v).n ≠ 0) = false := by rw [mkDay_n, hn0]; decide
  have hn' : ¬ dc.n ≠ 0 := fun h => h hn0
  rw [hd, if_neg hn']
  simp only [Bool.false_eq_true, if_false, DayNode.isValidDay, DayNode.isValidWeekday, dayaux_isWeekday,
    trans_dayMax _ y m hm1 hm12, trans_getWeekday dc y m v hm1 hm12, mkDay_c, dayaux_commonValid, mkCommon_value,
    dec_le_cast, mkDay_w, dayaux_contains]
  cases hiw : dc.isWeekdayNode with
  | true =>
    have := hwk.mp hiw
    simp [this]
  | false =>
    have : dc.wvalues = [] := by
      apply Classical.byContradiction
      intro h
      have := hwk.mpr h
      rw [hiw] at this; cases this
    simp [this]

theorem isValid_special (dc : DayCfg) (hn : dc.n ≠ 0) (y m v fuel : Nat)
    (hT : TargetSpec dc y m (DayNode.targetDay goTime (mkDay dc v) (m : Int) (y : Int) fuel)) :
    DayNode.isValid goTime (mkDay dc v) (m : Int) (y : Int) fuel = some (dayValid dc y m v) := by
  obtain ⟨t, ok, ht, h1, h2⟩ := hT
  unfold DayNode.isValid dayValid
  have hd : decide ((mkDay dc v).n ≠ 0) = true := by rw [mkDay_n]; exact decide_eq_true hn
  rw [hd, if_pos hn, ht]
  simp only [if_true, Option.bind_some, mkDay_c, mkCommon_value]
  cases ok with
  | true =>
    obtain ⟨e, h0⟩ := h1 rfl
    rw [e]
    have et : t = ((t.toNat : Nat) : Int) := by omega
    rw [et, dec_eq_cast, Int.toNat_natCast]
    by_cases hh : v = t.toNat <;> simp [hh]
  | false =>
    rw [h2 rfl]
    simp

theorem trans_dayIsValid (f : Fields) (hwf : WellFormed f = true) (y m v fuel : Nat)
    (hm1 : 1 ≤ m) (hm12 : m ≤ 12) (_hv : v ≤ 31) (hfuel : 32 ≤ fuel) :
    DayNode.isValid goTime (mkDay (dayCfg {} f) v) (m : Int) (y : Int) fuel =
      some (dayValid (dayCfg {} f) y m v) := by
  by_cases hn : (dayCfg {} f).n = 0
  · exact isValid_n0 _ (dayCfg_basic f).1 hn y m v fuel hm1 hm12
  · exact isValid_special _ hn y m v fuel (trans_targetDay f hwf y m v fuel hm1 hm12 hfuel hn)

/-! ## 9. Next -/

theorem mkDay_setValue (dc : DayCfg) (v x : Nat) :
    ({ mkDay dc v with c := { (mkDay dc v).c with value := (x : Int) } } : DayNode) = mkDay dc x := rfl

theorem mkDay_setC (dc : DayCfg) (v x : Nat) :
    ({ mkDay dc v with c := mkCommon dc.min dc.max dc.values x } : DayNode) = mkDay dc x := rfl

theorem next_special (dc : DayCfg) (hn : dc.n ≠ 0) (y m v fuel : Nat)
    (hT : TargetSpec dc y m (DayNode.targetDay goTime (mkDay dc v) (m : Int) (y : Int) fuel)) :
    DayNode.Next goTime (mkDay dc v) (m : Int) (y : Int) fuel =
      some (mkDay dc (dayNext dc y m v).1, (dayNext dc y m v).2) := by
  obtain ⟨t, ok, ht, h1, h2⟩ := hT
  unfold DayNode.Next DayNode.nextDayN dayNext Cron.nextDayN
  have hd : decide ((mkDay dc v).n ≠ 0) = true := by rw [mkDay_n]; exact decide_eq_true hn
  rw [hd, if_pos hn, ht]
  simp only [if_true, Option.bind_some]
  have hval : (mkDay dc v).c.value = (v : Int) := rfl
  have hmin : (mkDay dc v).c.min = (dc.min : Int) := rfl
  rw [hval, hmin]
  cases ok with
  | true =>
    obtain ⟨e, h0⟩ := h1 rfl
    obtain ⟨k, rfl⟩ := Int.eq_ofNat_of_zero_le h0
    rw [e, Int.toNat_natCast, Bool.true_and, dec_lt_cast]
    by_cases hlt : v < k
    · simp only [hlt, decide_true, if_true, Option.bind_some]
      rfl
    · simp only [hlt, decide_false, Bool.false_eq_true, if_false, Option.bind_some]
      rfl
  | false =>
    rw [h2 rfl]
    simp only [Bool.false_and, Bool.false_eq_true, if_false, Option.bind_some]
    rfl

theorem nextWeekday_loop (wd : Nat) (off0 : Int) : ∀ l : List Nat,
    DayNode.nextWeekday.loop1 (wd : Int) off0 (ints l) =
      match l.find? (fun x => decide (wd < x)) with
      | some x => (x : Int) - (wd : Int)
      | none => off0 := by
  intro l
  induction l with
  | nil => simp [ints_nil, DayNode.nextWeekday.loop1]
  | cons a t ih =>
    rw [ints_cons]
    simp only [DayNode.nextWeekday.loop1, ih, List.find?_cons]
    have e : decide ((a : Int) > (wd : Int)) = decide (wd < a) := by
      apply decide_eq_decide.mpr; omega
    rw [e]
    cases decide (wd < a) <;> simp

theorem nextWeekday_off (ws : List Nat) (wd : Nat) (hwd : wd < 7) :
    DayNode.nextWeekday.loop1 (wd : Int) ((7 + idx (ints ws) 0) - (wd : Int)) (ints ws) =
      ((wOff ws wd : Nat) : Int) := by
  rw [nextWeekday_loop, idx_ints_zero]
  unfold wOff
  cases hf : ws.find? (fun x => decide (wd < x)) with
  | some x =>
    have := List.find?_some hf
    simp only [decide_eq_true_eq] at this
    simp only
    omega
  | none =>
    simp only
    omega

theorem next_wset (dc : DayCfg) (h : WSet dc) (y m v : Nat) (hm1 : 1 ≤ m) (hm12 : m ≤ 12) (hv : v ≤ 31) :
    DayNode.nextWeekday goTime (mkDay dc v) (m : Int) (y : Int) =
      (mkDay dc (Cron.nextWeekday dc y m v).1, (Cron.nextWeekday dc y m v).2) := by
  obtain ⟨o1, o2, _, _⟩ := wOff_spec dc.wvalues h.ne h.sorted h.le6 _ (weekday_lt y m v)
  have hd := dim_bounds y m
  unfold DayNode.nextWeekday DayNode.addDays
  simp only [trans_getWeekday dc y m v hm1 hm12, mkDay_w, nextWeekday_off dc.wvalues _ (weekday_lt y m v),
    trans_dayMax _ y m hm1 hm12, DayNode.Value, CommonNode.Value, makeDateTime, T_date, T_day]
  have hval : (mkDay dc v).c.value = (v : Int) := rfl
  rw [hval, goDate_valid y m v hm1 hm12, nextWeekday_eq]
  generalize wOff dc.wvalues (weekday y m v) = off at o1 o2 ⊢
  have e : (dayNumber y m v : Int) + (off : Int) = (dayNumber y m (v + off) : Nat) := by
    have := dayNumber_lin y m v
    have := dayNumber_lin y m (v + off)
    omega
  rw [e]
  by_cases hgt : v + off > dim y m
  · have hgt' : (v : Int) + (off : Int) > (dim y m : Int) := by omega
    have e2 : v + off = dim y m + (v + off - dim y m) := by omega
    have hg := goDay_over y m (v + off - dim y m) hm1 hm12 (by omega) (by omega)
    rw [← e2] at hg
    rw [if_pos hgt, hg, decide_eq_true hgt']
    rfl
  · have hgt' : ¬ (v : Int) + (off : Int) > (dim y m : Int) := by omega
    have hg := goDay_dn y m (v + off) ⟨hm1, hm12, by omega, by omega⟩
    rw [if_neg hgt, hg, decide_eq_false hgt']
    rfl

theorem next_mset (dc : DayCfg) (y m v : Nat) (hm1 : 1 ≤ m) (hm12 : m ≤ 12) :
    DayNode.nextDay goTime (mkDay dc v) (m : Int) (y : Int) =
      (mkDay dc (Cron.nextDay dc y m v).1, (Cron.nextDay dc y m v).2) := by
  unfold DayNode.nextDay Cron.nextDay
  simp only [mkDay_c, dayaux_commonNext, mkDay_setC, trans_dayMax _ y m hm1 hm12, mkCommon_value, dayaux_commonReset]
  cases (commonNext dc.min dc.max dc.values v).2 with
  | true => simp
  | false =>
    simp only [Bool.false_eq_true, if_false]
    by_cases hgt : (commonNext dc.min dc.max dc.values v).1 > dim y m
    · have hgt' : ((commonNext dc.min dc.max dc.values v).1 : Int) > (dim y m : Int) := by omega
      rw [if_pos hgt, if_pos (decide_eq_true hgt')]
    · have hgt' : ¬ ((commonNext dc.min dc.max dc.values v).1 : Int) > (dim y m : Int) := by omega
      rw [if_neg hgt, if_neg (fun h => hgt' (of_decide_eq_true h))]

theorem trans_dayNext (f : Fields) (hwf : WellFormed f = true) (y m v fuel : Nat)
    (hm1 : 1 ≤ m) (hm12 : m ≤ 12) (hv : v ≤ 31) (hfuel : 32 ≤ fuel) :
    DayNode.Next goTime (mkDay (dayCfg {} f) v) (m : Int) (y : Int) fuel =
      some (mkDay (dayCfg {} f) (dayNext (dayCfg {} f) y m v).1, (dayNext (dayCfg {} f) y m v).2) := by
  by_cases hn : (dayCfg {} f).n = 0
  · have hd : decide ((mkDay (dayCfg {} f) v).n ≠ 0) = false := by rw [mkDay_n, hn]; decide
    have hn' : ¬ (dayCfg {} f).n ≠ 0 := fun h => h hn
    obtain ⟨hb1, hb2, _, _⟩ := dayCfg_basic f
    unfold DayNode.Next dayNext
    rw [hd, if_neg hn', dayaux_isWeekday]
    simp only [Bool.false_eq_true, if_false]
    rcases dayCfg_modes f hwf with h | h | h
    · rw [if_pos (decide_eq_true h.ne), if_pos h.wk, next_wset _ h y m v hm1 hm12 hv]
    · have hws := hb2 h.wk
      have : ¬ (decide ((dayCfg {} f).wvalues ≠ []) = true) := by simp [hws]
      rw [if_neg this, if_neg (by simp [h.wk]), next_mset _ y m v hm1 hm12]
    · exact absurd hn h.n0
  · exact next_special _ hn y m v fuel (trans_targetDay f hwf y m v fuel hm1 hm12 hfuel hn)

/-! ## 10. findForward, 11. Reset -/

theorem trans_dayFindForward (f : Fields) (hwf : WellFormed f = true) (y m v fuel : Nat)
    (hm1 : 1 ≤ m) (hm12 : m ≤ 12) (hv : v ≤ 31) (hfuel : 32 ≤ fuel) :
    DayNode.findForward goTime (mkDay (dayCfg {} f) v) (m : Int) (y : Int) fuel =
      some (if dayValid (dayCfg {} f) y m v then (mkDay (dayCfg {} f) v, unchanged)
        else (mkDay (dayCfg {} f) (dayNext (dayCfg {} f) y m v).1, ffCode (dayNext (dayCfg {} f) y m v).2)) := by
  unfold DayNode.findForward
  rw [trans_dayIsValid f hwf y m v fuel hm1 hm12 hv hfuel, Option.bind_some]
  cases dayValid (dayCfg {} f) y m v with
  | true => simp only [if_true]
  | false =>
    rw [trans_dayNext f hwf y m v fuel hm1 hm12 hv hfuel]
    simp only [Bool.false_eq_true, if_false, Option.bind_some, ffCode]
    cases (dayNext (dayCfg {} f) y m v).2 <;> simp

theorem trans_dayReset (f : Fields) (hwf : WellFormed f = true) (y m v fuel : Nat)
    (hm1 : 1 ≤ m) (hm12 : m ≤ 12) (_hv : v ≤ 31) (hfuel : 32 ≤ fuel) :
    DayNode.Reset goTime (mkDay (dayCfg {} f) v) (m : Int) (y : Int) fuel =
      some (mkDay (dayCfg {} f) (dayReset (dayCfg {} f) y m)) := by
  have hmin : (dayCfg {} f).min = 1 := (dayCfg_basic f).2.2.1
  have e : ({ mkDay (dayCfg {} f) v with
      c := { (mkDay (dayCfg {} f) v).c with value := (mkDay (dayCfg {} f) v).c.min } } : DayNode) =
      mkDay (dayCfg {} f) (dayCfg {} f).min := rfl
  unfold DayNode.Reset
  simp only [e]
  rw [trans_dayFindForward f hwf y m _ fuel hm1 hm12 (by omega) hfuel, Option.bind_some]
  unfold dayReset
  cases dayValid (dayCfg {} f) y m (dayCfg {} f).min <;> simp

/-! ## axioms, non-vacuity -/

#print axioms trans_dayIsValid
#print axioms trans_dayNext
#print axioms trans_dayFindForward
#print axioms trans_dayReset

/-- `MON,WED,FRI`, February 2024, day 28 (a Wednesday): valid; `Next` overflows into March (Friday the 1st) -/
example : DayNode.isValid goTime (mkDay (dayCfg {} exWeekdays) 28) (2 : Nat) (2024 : Nat) 32 = some true ∧
    DayNode.Next goTime (mkDay (dayCfg {} exWeekdays) 28) (2 : Nat) (2024 : Nat) 32 =
      some (mkDay (dayCfg {} exWeekdays) 1, true) := by
  constructor
  · rw [trans_dayIsValid exWeekdays (by decide) 2024 2 28 32 (by decide) (by decide) (by decide) (by decide)]
    decide
  · rw [trans_dayNext exWeekdays (by decide) 2024 2 28 32 (by decide) (by decide) (by decide) (by decide)]
    decide

/-- `LW`, February 2024: from day 5 `findForward` advances to Thursday the 29th -/
example : DayNode.findForward goTime (mkDay (dayCfg {} exLastWorkday) 5) (2 : Nat) (2024 : Nat) 32 =
    some (mkDay (dayCfg {} exLastWorkday) 29, advanced) := by
  rw [trans_dayFindForward exLastWorkday (by decide) 2024 2 5 32 (by decide) (by decide) (by decide) (by decide)]
  decide

/-- `6#3` (third Friday), February 2024: `Reset` lands on the 16th; days 15,30,31 in February: on the 15th -/
example : DayNode.Reset goTime (mkDay (dayCfg {} exThirdFriday) 30) (2 : Nat) (2024 : Nat) 32 =
      some (mkDay (dayCfg {} exThirdFriday) 16) ∧
    DayNode.Reset goTime (mkDay (dayCfg {} exMonthDays) 30) (2 : Nat) (2024 : Nat) 32 =
      some (mkDay (dayCfg {} exMonthDays) 15) := by
  constructor
  · rw [trans_dayReset exThirdFriday (by decide) 2024 2 30 32 (by decide) (by decide) (by decide) (by decide)]
    decide
  · rw [trans_dayReset exMonthDays (by decide) 2024 2 30 32 (by decide) (by decide) (by decide) (by decide)]
    decide

/-- year 0, January, `1W` (the case that separated the first `goTime` from Go): Saturday the 1st moves to Monday
the 3rd in both the model and the translation -/
example : Generated.Trans.closestWeekday goTime (dayNumber 0 1 1 : Int) = 3 := by
  rw [trans_closestWeekday 0 1 1 (by decide) (by decide) (by decide) (by decide)]
  decide

end TransDay
