import QuartzModel.Generated.TransJobs
import QuartzModel.Jobs.Status
import QuartzModel.Proofs.JobsLemmas
import QuartzModel.Theorems.C16
/-!
# Helpers for `Theorems/TransJobs.lean`: abstractions from the translated jobs (`Generated.TransJobs`, regenerated from
`job/*.go` by `harness/cmd/gotolean-jobs`) to the hand-written model `Jobs` (`QuartzModel/Jobs/Status.lean`), checkers over
recorded events (lock discipline, callbacks, response bodies), and the exact effect of one `Execute` of each job.
-/
set_option autoImplicit false
set_option linter.unusedSimpArgs false
set_option linter.unusedVariables false

namespace TransJobs
open Generated.TransJobs

/-! ## abstractions -/

/-- the translated `Status` constants are the model's -/
def absStatus : Status → Jobs.Status
  | .StatusNA => .na
  | .StatusOK => .ok
  | .StatusFailure => .failure

/-- a Go error is observed through its message -/
def absErr (e : Option Err) : Option String := e.map (·.msg)

theorem absErr_isSome (e : Option Err) : (absErr e).isSome = e.isSome := by cases e <;> rfl
theorem absErr_eq_none (e : Option Err) : absErr e = none ↔ e = none := by cases e <;> simp [absErr]

/-- the fields `jobStatus`, `result`, `err` of a translated FunctionJob as the model's `FnFields` -/
def absFn {R : Type} (f : FunctionJob R) : Jobs.FnFields R := { status := absStatus f.jobStatus, result := f.result, err := absErr f.err }

def absSh (sh : ShellJob) : Jobs.ShFields :=
  { status := absStatus sh.jobStatus, exitCode := sh.exitCode, stdout := sh.stdout, stderr := sh.stderr }

/-- a response: the status code as a natural number (a negative code, which net/http never produces, becomes 0 —
outside `[200, 400)` like every negative number), the body handle unchanged -/
def absResp (r : Response) : Jobs.Resp := { code := r.StatusCode.toNat, body := r.Body }

@[simp] theorem deref_some {α : Type} [Inhabited α] (a : α) : deref (some a) = a := rfl
@[simp] theorem deref_none {α : Type} [Inhabited α] : deref (none : Option α) = default := rfl

/-! ## checkers over recorded events -/

/-- Lock discipline of ONE method call seen from its own goroutine: `held` = the call holds the mutex `m`.
Every read/write of a mutable field happens while it is held; it is never acquired twice nor released when not held. -/
def accessGuarded (m : String) : Bool → List Event → Bool
  | _, [] => true
  | h, .lock m' :: es => if m' = m then !h && accessGuarded m true es else accessGuarded m h es
  | h, .rlock m' :: es => if m' = m then !h && accessGuarded m true es else accessGuarded m h es
  | h, .unlock m' :: es => if m' = m then h && accessGuarded m false es else accessGuarded m h es
  | h, .runlock m' :: es => if m' = m then h && accessGuarded m false es else accessGuarded m h es
  | h, .read _ :: es => h && accessGuarded m h es
  | h, .write _ :: es => h && accessGuarded m h es
  | h, _ :: es => accessGuarded m h es

/-- does the call still hold `m` after these events? -/
def heldAfter (m : String) : Bool → List Event → Bool
  | h, [] => h
  | h, .lock m' :: es => heldAfter m (if m' = m then true else h) es
  | h, .rlock m' :: es => heldAfter m (if m' = m then true else h) es
  | h, .unlock m' :: es => heldAfter m (if m' = m then false else h) es
  | h, .runlock m' :: es => heldAfter m (if m' = m then false else h) es
  | h, _ :: es => heldAfter m h es

/-- no user function and no callback runs while `m` is held -/
def userOutside (m : String) : Bool → List Event → Bool
  | _, [] => true
  | h, .lock m' :: es => userOutside m (if m' = m then true else h) es
  | h, .unlock m' :: es => userOutside m (if m' = m then false else h) es
  | h, .function _ _ :: es => !h && userOutside m h es
  | h, .callback _ _ :: es => !h && userOutside m h es
  | h, _ :: es => userOutside m h es

def isCallback : Event → Bool
  | .callback _ _ => true
  | _ => false

def isWrite : Event → Bool
  | .write _ => true
  | _ => false

/-- number of callback calls recorded -/
def callbacks (es : List Event) : Nat := (es.filter isCallback).length

/-- ghost accounting of response bodies read off the recorded events, exactly as `Jobs.cuStore` does it:
`closeBody (some b)` erases `b` and counts a close; a `Do` that returned a response with a body opens that body -/
def bodyStep (g : List Nat × Nat) : Event → List Nat × Nat
  | .closeBody (some b) _ => (g.1.erase b, g.2 + 1)
  | .httpDo _ _ (.returned (resp, _)) => ((Jobs.heldBody (resp.map absResp)).toList ++ g.1, g.2)
  | _ => g

def bodies (es : List Event) : List Nat × Nat := es.foldl bodyStep ([], 0)

theorem bodies_append (es fs : List Event) : bodies (es ++ fs) = fs.foldl bodyStep (bodies es) := by
  simp [bodies, List.foldl_append]

/-! ## FunctionJob.Execute -/

/-- the events of one `FunctionJob.Execute` whose function returned -/
def fnEvents (ctx : Ctx) (err : Option Err) : List Event :=
  [.function ctx (.returned err), .lock "f.mtx", .write "f.jobStatus", .write "f.result", .write "f.err", .unlock "f.mtx"]

/-- what the critical section of the translated `FunctionJob.Execute` leaves in the job -/
def fnStored {R : Type} [Inhabited R] (f : FunctionJob R) (res : R) (err : Option Err) : FunctionJob R :=
  if err.isSome then { f with jobStatus := .StatusFailure, result := default, err := err }
  else { f with jobStatus := .StatusOK, result := res, err := none }

theorem fn_execute_returned {W R : Type} [Inhabited R] (X : FnExt W R) (σ : St W) (f : FunctionJob R) (ctx : Ctx)
    (res : R) (err : Option Err) (h : (X.function σ.world ctx).2 = .returned (res, err)) :
    FunctionJob.Execute X σ f ctx =
      (⟨(X.function σ.world ctx).1, σ.out ++ fnEvents ctx err⟩, fnStored f res err, .returned err) := by
  cases err with
  | none => simp [FunctionJob.Execute, St.fnFunction, St.emit, h, fnStored, fnEvents, CallResult.map]
  | some e => simp [FunctionJob.Execute, St.fnFunction, St.emit, h, fnStored, fnEvents, CallResult.map]

theorem fn_execute_panicked {W R : Type} [Inhabited R] (X : FnExt W R) (σ : St W) (f : FunctionJob R) (ctx : Ctx)
    (h : (X.function σ.world ctx).2 = .panicked) :
    FunctionJob.Execute X σ f ctx = (⟨(X.function σ.world ctx).1, σ.out ++ [.function ctx .panicked]⟩, f, .panicked) := by
  simp [FunctionJob.Execute, St.fnFunction, St.emit, h, CallResult.map]

theorem absFn_fnStored {R : Type} [Inhabited R] (f : FunctionJob R) (res : R) (err : Option Err) :
    absFn (fnStored f res err) = Jobs.fnStore ⟨res, absErr err⟩ := by
  cases err <;> simp [fnStored, absFn, Jobs.fnStore, absErr, absStatus, Jobs.functionStatus, Jobs.ErrTest.decide]

/-! ## ShellJob.Execute -/

section shell
variable {W : Type} (X : ShExt W) (σ : St W) (sh : ShellJob) (ctx : Ctx)

/-- the world after `getShell()`, the shell it named, the world after `cmd.Run()`, the error `Run` returned -/
def shW1 : W := (X.getShell σ.world).1
def shShell : String := (X.getShell σ.world).2
def shW2 : W := (X.run (shW1 X σ) "cmd").1
def shErr : Option Err := (X.run (shW1 X σ) "cmd").2

/-- what this run of the command produced, in the model's terms: exit code from `cmd.ProcessState.ExitCode()`, whether
`Run` returned an error, the contents of the two buffers attached to the command — all read AFTER `Run` -/
def shOut : Jobs.ShOut :=
  { exitCode := X.exitCode (shW2 X σ) "cmd", runErr := (shErr X σ).isSome,
    stdout := X.bufferString (shW2 X σ) "stdout", stderr := X.bufferString (shW2 X σ) "stderr" }

/-- what the critical section of the translated `ShellJob.Execute` leaves in the job -/
def shStored : ShellJob :=
  { sh with stdout := X.bufferString (shW2 X σ) "stdout", stderr := X.bufferString (shW2 X σ) "stderr",
            exitCode := X.exitCode (shW2 X σ) "cmd",
            jobStatus := if (shErr X σ).isSome then .StatusFailure else .StatusOK }

/-- the events of one `ShellJob.Execute` up to and including the `Unlock` -/
def shEvents : List Event :=
  [.getShell (shShell X σ), .newBuffer "stdout", .newBuffer "stderr", .command "cmd" ctx (shShell X σ) ["-c", sh.cmd],
   .attach "cmd.Stdout" "stdout", .attach "cmd.Stderr" "stderr", .run "cmd" (shErr X σ),
   .lock "sh.mtx", .write "sh.stdout", .write "sh.stderr", .write "sh.exitCode", .write "sh.jobStatus", .unlock "sh.mtx"]

/-- the callback call made after the `Unlock` (with the stored job) -/
def shCb : W × CallResult Unit := X.callback (shW2 X σ) ctx (shStored X σ sh)

theorem sh_execute :
    ShellJob.Execute X σ sh ctx =
      if sh.callback.isSome then
        (⟨(shCb X σ sh ctx).1, σ.out ++ shEvents X σ sh ctx ++ [.callback ctx (shCb X σ sh ctx).2]⟩, shStored X σ sh,
         match (shCb X σ sh ctx).2 with
         | .returned _ => .returned (shErr X σ)
         | .panicked => .panicked)
      else (⟨shW2 X σ, σ.out ++ shEvents X σ sh ctx⟩, shStored X σ sh, .returned (shErr X σ)) := by
  cases hc : sh.callback with
  | none =>
    cases he : (X.run (X.getShell σ.world).1 "cmd").2 <;>
      simp [ShellJob.Execute, St.shGetShell, St.shRun, St.emit, hc, he, shStored, shEvents, shW1, shW2, shErr, shShell]
  | some c =>
    cases he : (X.run (X.getShell σ.world).1 "cmd").2 <;>
      simp [ShellJob.Execute, St.shGetShell, St.shRun, St.shCallback, St.emit, hc, he, shStored, shEvents, shW1, shW2, shErr,
        shShell, shCb] <;> split <;> simp_all

theorem absSh_shStored : absSh (shStored X σ sh) = Jobs.shStore (shOut X σ) := by
  cases he : (X.run (X.getShell σ.world).1 "cmd").2 <;>
    simp [shStored, absSh, Jobs.shStore, shOut, shErr, shW1, he, absStatus, Jobs.shellStatus, Jobs.ErrTest.decide]

end shell

/-! ## CurlJob.Execute -/

section curl
variable {W : Type} (X : CuExt W) (σ : St W) (cu : CurlJob) (ctx : Ctx)

/-- the request re-bound to the execution's context -/
def cuReq : Option Request := Request.WithContext cu.request ctx

/-- `cu.response != nil && cu.response.Body != nil`: the job holds a body through its stored response -/
def cuPrev : Bool := cu.response.isSome && ((deref cu.response).Body).isSome

/-- the call `cu.response.Body.Close()` (made only when `cuPrev`) -/
def cuClose : W × CallResult (Option Err) := X.closeBody σ.world ((deref cu.response).Body)

/-- the world in which `Do` is called -/
def cuW1 : W := if cuPrev cu then (cuClose X σ cu).1 else σ.world

/-- the call `cu.httpClient.Do(cu.request)` -/
def cuDoCall : W × CallResult (Option Response × Option Err) := X.Do (cuW1 X σ cu) cu.httpClient (cuReq cu ctx)

/-- the status decision of the translated code -/
def cuOk (resp : Option Response) : Bool :=
  (resp.isSome && decide ((deref resp).StatusCode ≥ 200)) && decide ((deref resp).StatusCode < 400)

/-- events up to the `Do` call: lock, re-bind the request, test the stored response, close its body -/
def cuHead : List Event :=
  [.lock "cu.mtx", .read "cu.request", .write "cu.request", .read "cu.response", .read "cu.response"] ++
  (if cuPrev cu then [.read "cu.response", .closeBody ((deref cu.response).Body) (cuClose X σ cu).2] else []) ++
  [.read "cu.request"]

/-- events from the `Do` call (which returned) to the `Unlock` -/
def cuTail (resp : Option Response) (err : Option Err) : List Event :=
  [.httpDo cu.httpClient (cuReq cu ctx) (.returned (resp, err)), .write "cu.response", .read "cu.response", .read "cu.response",
   .read "cu.response", .write "cu.jobStatus", .unlock "cu.mtx"]

/-- what the critical section leaves in the job -/
def cuStored (resp : Option Response) : CurlJob :=
  { cu with request := cuReq cu ctx, response := resp, jobStatus := if cuOk resp then .StatusOK else .StatusFailure }

/-- the callback call made after the `Unlock` (with the stored job) -/
def cuCb (resp : Option Response) : W × CallResult Unit := X.callback (cuDoCall X σ cu ctx).1 ctx (cuStored cu ctx resp)

/-- unfold one `CurlJob.Execute` (and its helper `CurlJob.do`, which holds the critical section) with everything known in the
context -/
macro "cu_simp" : tactic =>
  `(tactic| simp [CurlJob.Execute, CurlJob.do, St.cuCloseBody, St.cuDo, St.cuCallback, St.emit, cuHead, cuTail, cuStored, cuDoCall, cuW1,
      cuClose, cuReq, cuOk, cuCb, *])

/-- the helper `CurlJob.do` (Lock; defer Unlock; …): `Close` (if any) returned, `Do` returned `(resp, err)` — the whole critical
section, ended by the deferred unlock, AFTER the result has been evaluated -/
theorem cu_do_returned (resp : Option Response) (err : Option Err)
    (hclose : cuPrev cu = true → ∃ e, (cuClose X σ cu).2 = .returned e)
    (hdo : (cuDoCall X σ cu ctx).2 = .returned (resp, err)) :
    CurlJob.do X σ cu ctx =
      (⟨(cuDoCall X σ cu ctx).1, σ.out ++ cuHead X σ cu ++ cuTail cu ctx resp err⟩, cuStored cu ctx resp, .returned err) := by
  by_cases hp : cuPrev cu = true
  · obtain ⟨e, he⟩ := hclose hp
    have hp' := hp
    simp only [cuPrev] at hp'
    simp only [cuDoCall, cuW1, cuReq, hp, if_true] at hdo
    simp only [cuClose] at he hdo
    rcases resp with _ | r
    · cu_simp
    · by_cases h1 : (200 : Int) ≤ r.StatusCode <;> by_cases h2 : r.StatusCode < 400 <;> cu_simp
  · have hp' := hp
    simp only [cuPrev] at hp'
    simp only [cuDoCall, cuW1, cuReq, hp] at hdo
    simp only [Bool.false_eq_true, if_false] at hdo
    rcases resp with _ | r
    · cu_simp
    · by_cases h1 : (200 : Int) ≤ r.StatusCode <;> by_cases h2 : r.StatusCode < 400 <;> cu_simp

/-- `Close` (if any) returned, `Do` returned `(resp, err)` -/
theorem cu_execute_returned (resp : Option Response) (err : Option Err)
    (hclose : cuPrev cu = true → ∃ e, (cuClose X σ cu).2 = .returned e)
    (hdo : (cuDoCall X σ cu ctx).2 = .returned (resp, err)) :
    CurlJob.Execute X σ cu ctx =
      if cu.callback.isSome then
        (⟨(cuCb X σ cu ctx resp).1,
          σ.out ++ cuHead X σ cu ++ cuTail cu ctx resp err ++ [.callback ctx (cuCb X σ cu ctx resp).2]⟩, cuStored cu ctx resp,
         match (cuCb X σ cu ctx resp).2 with
         | .returned _ => .returned err
         | .panicked => .panicked)
      else (⟨(cuDoCall X σ cu ctx).1, σ.out ++ cuHead X σ cu ++ cuTail cu ctx resp err⟩, cuStored cu ctx resp, .returned err) := by
  have hd := cu_do_returned X σ cu ctx resp err hclose hdo
  cases hc : cu.callback with
  | none => simp [CurlJob.Execute, hd, cuStored, hc]
  | some c =>
    simp [CurlJob.Execute, hd, St.cuCallback, cuCb, cuStored, hc]
    split <;> simp_all

/-- `Do` panicked (after a `Close` that returned, if any): the deferred unlock runs — the LAST event is the `Unlock` of the mutex,
the only field written is `request`, and the panic goes on to the caller of `Execute` (no callback) -/
theorem cu_execute_do_panicked (hclose : cuPrev cu = true → ∃ e, (cuClose X σ cu).2 = .returned e)
    (hdo : (cuDoCall X σ cu ctx).2 = .panicked) :
    CurlJob.Execute X σ cu ctx =
      (⟨(cuDoCall X σ cu ctx).1, σ.out ++ cuHead X σ cu ++ [.httpDo cu.httpClient (cuReq cu ctx) .panicked, .unlock "cu.mtx"]⟩,
       { cu with request := cuReq cu ctx }, .panicked) := by
  by_cases hp : cuPrev cu = true
  · obtain ⟨e, he⟩ := hclose hp
    have hp' := hp
    simp only [cuPrev] at hp'
    simp only [cuDoCall, cuW1, cuReq, hp, if_true] at hdo
    simp only [cuClose] at he hdo
    cu_simp
  · have hp' := hp
    simp only [cuPrev] at hp'
    simp only [cuDoCall, cuW1, cuReq, hp] at hdo
    simp only [Bool.false_eq_true, if_false] at hdo
    cu_simp

/-- the `Close` of the previous body panicked: `Do` is not called, the deferred unlock runs, the panic goes on -/
theorem cu_execute_close_panicked (hp : cuPrev cu = true) (hclose : (cuClose X σ cu).2 = .panicked) :
    CurlJob.Execute X σ cu ctx =
      (⟨(cuClose X σ cu).1,
        σ.out ++ [.lock "cu.mtx", .read "cu.request", .write "cu.request", .read "cu.response", .read "cu.response",
          .read "cu.response", .closeBody ((deref cu.response).Body) .panicked, .unlock "cu.mtx"]⟩,
       { cu with request := cuReq cu ctx }, .panicked) := by
  have hp' := hp
  simp only [cuPrev] at hp'
  simp only [cuClose] at hclose
  cu_simp

/-- the status decision of the translated code is the model's `curlStatus` -/
theorem absStatus_cuOk (resp : Option Response) :
    absStatus (if cuOk resp then .StatusOK else .StatusFailure) = Jobs.curlStatus ((resp.map absResp).map (·.code)) := by
  rcases resp with _ | r
  · simp [cuOk, absStatus]; decide
  · by_cases h : cuOk (some r) = true
    · rw [if_pos h]
      have h' : (200 : Int) ≤ r.StatusCode ∧ r.StatusCode < 400 := by
        simp [cuOk] at h; exact ⟨h.1, of_decide_eq_true h.2⟩
      obtain ⟨h1, h2⟩ := h'
      have hm : Jobs.curlStatus (some r.StatusCode.toNat) = .ok := (Jobs.C16_curl_status_iff _).mpr ⟨_, rfl, by omega, by omega⟩
      simp [absStatus, absResp, hm]
    · rw [if_neg h]
      have h' : ¬ ((200 : Int) ≤ r.StatusCode ∧ r.StatusCode < 400) := by
        intro ⟨h1, h2⟩; apply h; simp [cuOk, h1, h2]
      have h3 : r.StatusCode < 200 ∨ 400 ≤ r.StatusCode := by omega
      have hm : Jobs.curlStatus (some r.StatusCode.toNat) = .failure :=
        (Jobs.C16_curl_status_failure_iff _).mpr (Or.inr ⟨_, rfl, by omega⟩)
      simp [absStatus, absResp, hm]

/-- the stored fields of a translated CurlJob together with the body accounting read off the recorded events -/
def absCu (cu : CurlJob) (es : List Event) : Jobs.CuState :=
  { status := absStatus cu.jobStatus, response := cu.response.map absResp, openBodies := (bodies es).1, closes := (bodies es).2 }

/-- ONE `Execute` of the translated CurlJob (no panic in `Close`/`Do`) is ONE `Jobs.cuStore true` -/
theorem cu_execute_abs (resp : Option Response) (err : Option Err)
    (hclose : cuPrev cu = true → ∃ e, (cuClose X σ cu).2 = .returned e)
    (hdo : (cuDoCall X σ cu ctx).2 = .returned (resp, err)) :
    absCu (CurlJob.Execute X σ cu ctx).2.1 (CurlJob.Execute X σ cu ctx).1.out =
      Jobs.cuStore true (absCu cu σ.out) ⟨resp.map absResp, err.isSome⟩ := by
  rw [cu_execute_returned X σ cu ctx resp err hclose hdo]
  have hb : bodies (σ.out ++ cuHead X σ cu ++ cuTail cu ctx resp err) =
      ((Jobs.cuStore true (absCu cu σ.out) ⟨resp.map absResp, err.isSome⟩).openBodies,
       (Jobs.cuStore true (absCu cu σ.out) ⟨resp.map absResp, err.isSome⟩).closes) := by
    rw [List.append_assoc, bodies_append]
    rcases hr : cu.response with _ | r
    · simp [cuHead, cuTail, cuPrev, hr, bodyStep, Jobs.cuStore, Jobs.heldBody, absCu]
    · rcases hbd : r.Body with _ | b
      · simp [cuHead, cuTail, cuPrev, hr, hbd, bodyStep, Jobs.cuStore, Jobs.heldBody, absCu, absResp]
      · simp [cuHead, cuTail, cuPrev, hr, hbd, bodyStep, Jobs.cuStore, Jobs.heldBody, absCu, absResp]
  have hst := absStatus_cuOk resp
  by_cases hc : cu.callback.isSome = true
  · rw [if_pos hc]
    have hb' : bodies (σ.out ++ cuHead X σ cu ++ cuTail cu ctx resp err ++ [.callback ctx (cuCb X σ cu ctx resp).2]) =
        bodies (σ.out ++ cuHead X σ cu ++ cuTail cu ctx resp err) := by
      rw [bodies_append]; rfl
    show absCu (cuStored cu ctx resp) (σ.out ++ cuHead X σ cu ++ cuTail cu ctx resp err ++ [.callback ctx (cuCb X σ cu ctx resp).2]) = _
    unfold absCu
    rw [hb', hb]
    simp [cuStored, hst, Jobs.cuStore, absCu]
  · rw [if_neg hc]
    show absCu (cuStored cu ctx resp) (σ.out ++ cuHead X σ cu ++ cuTail cu ctx resp err) = _
    unfold absCu
    rw [hb]
    simp [cuStored, hst, Jobs.cuStore, absCu]

end curl

/-! ## sequences of executions of one CurlJob -/

/-- neither the HTTP client nor a response body panics -/
def CuNoPanic {W : Type} (X : CuExt W) : Prop :=
  (∀ w c r, ∃ v, (X.Do w c r).2 = .returned v) ∧ (∀ w b, ∃ e, (X.closeBody w b).2 = .returned e)

/-- `n` executions of one CurlJob one after the other, the `i`-th with context `ctxs i`, in ANY world (each starts in the
world the previous one left); a panicking callback does not end the sequence (the scheduler recovers it) -/
def cuIter {W : Type} (X : CuExt W) (ctxs : Nat → Ctx) : Nat → St W × CurlJob → St W × CurlJob
  | 0, s => s
  | n + 1, s => ((CurlJob.Execute X (cuIter X ctxs n s).1 (cuIter X ctxs n s).2 (ctxs n)).1,
                 (CurlJob.Execute X (cuIter X ctxs n s).1 (cuIter X ctxs n s).2 (ctxs n)).2.1)

theorem cuRun_snoc (b : Bool) (s : Jobs.CuState) (os : List Jobs.CuOut) (o : Jobs.CuOut) :
    Jobs.cuRun b s (os ++ [o]) = Jobs.cuStore b (Jobs.cuRun b s os) o := by
  simp [Jobs.cuRun, List.foldl_append]

/-- every sequence of executions of the translated code is a `Jobs.cuRun true` of the model -/
theorem cu_iter_abs {W : Type} (X : CuExt W) (hX : CuNoPanic X) (ctxs : Nat → Ctx) (s : St W × CurlJob) (n : Nat) :
    ∃ os : List Jobs.CuOut, os.length = n ∧
      absCu (cuIter X ctxs n s).2 (cuIter X ctxs n s).1.out = Jobs.cuRun true (absCu s.2 s.1.out) os := by
  induction n with
  | zero => exact ⟨[], rfl, rfl⟩
  | succ n ih =>
    obtain ⟨os, hl, ih⟩ := ih
    obtain ⟨⟨resp, err⟩, hdo⟩ := hX.1 (cuW1 X (cuIter X ctxs n s).1 (cuIter X ctxs n s).2) (cuIter X ctxs n s).2.httpClient
      (cuReq (cuIter X ctxs n s).2 (ctxs n))
    refine ⟨os ++ [⟨resp.map absResp, err.isSome⟩], by simp [hl], ?_⟩
    rw [cuRun_snoc, ← ih]
    exact cu_execute_abs X _ _ (ctxs n) resp err (fun _ => hX.2 _ _) hdo

end TransJobs
