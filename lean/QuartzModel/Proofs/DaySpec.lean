import QuartzModel.Cron.Nodes
import QuartzModel.Cron.Spec
/-!
# The executable day check is the declarative day rule

`dayValid (dayCfg {} f) y m d = true ↔ DayMatches f y m d` for every well-formed `f`.

Technique: a month enters only through its length `L = dim y m ∈ {28,…,31}` and the weekday
`s = weekday y m 0` of its (fictitious) day 0, because `weekday y m d = (s + d) % 7`.  The search
`closestWeekday` and the list `daysOfWeekInMonth` are re-expressed as functions of `(L, s, …)`; the
statements about those are finite tables checked by the kernel and lifted to all arguments.
-/
namespace Cron
open Cal

/-! ## Calendar facts used here -/

theorem dim_ge (y m : Nat) : 28 ≤ dim y m := by
  unfold dim; split <;> (try split) <;> omega

theorem dim_le (y m : Nat) : dim y m ≤ 31 := by
  unfold dim; split <;> (try split) <;> omega

/-- the weekday is linear in the day number, for every month number -/
theorem weekday_lin (y m d : Nat) : weekday y m d = (weekday y m 0 + d) % 7 := by
  unfold weekday dayNumber; omega

theorem weekday_lt (y m d : Nat) : weekday y m d < 7 := by
  unfold weekday; omega

/-! ## Abstract month: length `L`, weekday `s` of day 0 -/

def wdA (s d : Nat) : Nat := (s + d) % 7

def isWkA (s d : Nat) : Bool := wdA s d != 6 && wdA s d != 0

def closestSearchA (s t L : Nat) : Nat → Nat → Nat
  | 0, _ => t
  | fuel+1, i =>
    if i < t ∧ isWkA s (t - i) then t - i
    else if t + i ≤ L ∧ isWkA s (t + i) then t + i
    else closestSearchA s t L fuel (i + 1)

def closestA (L s t : Nat) : Nat :=
  if isWkA s t then t else closestSearchA s t L 7 1

theorem isWeekdayB_eq (y m d : Nat) : isWeekdayB y m d = isWkA (weekday y m 0) d := by
  unfold isWeekdayB isWkA wdA; rw [weekday_lin]

theorem closestSearch_eq (y m t L fuel i : Nat) :
    closestSearch y m t L fuel i = closestSearchA (weekday y m 0) t L fuel i := by
  induction fuel generalizing i with
  | zero => rfl
  | succ n ih => simp only [closestSearch, closestSearchA, isWeekdayB_eq, ih]

theorem closestWeekday_eq (y m t : Nat) :
    closestWeekday y m t = closestA (dim y m) (weekday y m 0) t := by
  unfold closestWeekday closestA
  rw [isWeekdayB_eq, closestSearch_eq]

theorem isWorkday_iff (y m d : Nat) : IsWorkday y m d ↔ isWkA (weekday y m 0) d = true := by
  unfold IsWorkday isWkA wdA
  rw [weekday_lin]
  simp only [Bool.and_eq_true, bne_iff_ne, ne_eq]
  exact And.comm

/-- `c` is a workday of the abstract month strictly nearer to `t` than every other workday -/
def StrictNearestA (L s t c : Nat) : Prop :=
  1 ≤ c ∧ c ≤ L ∧ isWkA s c = true ∧
  ∀ e, 1 ≤ e → e ≤ L → isWkA s e = true → e ≠ c → dist c t < dist e t

def strictB (L s t c : Nat) : Bool :=
  decide (1 ≤ c) && decide (c ≤ L) && isWkA s c &&
  (List.range (L + 1)).all fun e =>
    !(decide (1 ≤ e) && isWkA s e && decide (e ≠ c)) || decide (dist c t < dist e t)

theorem strictB_sound (L s t c : Nat) (h : strictB L s t c = true) : StrictNearestA L s t c := by
  simp only [strictB, Bool.and_eq_true, decide_eq_true_eq, List.all_eq_true, List.mem_range,
    Bool.or_eq_true, Bool.not_eq_true', Bool.and_eq_false_imp] at h
  obtain ⟨⟨⟨h1, h2⟩, h3⟩, h4⟩ := h
  refine ⟨h1, h2, h3, ?_⟩
  intro e he1 he2 hwk hne
  rcases h4 e (by omega) with h | h
  · have := h ⟨by simpa using he1, hwk⟩
    simp at this; exact absurd this hne
  · exact h

/-- 4 · 7 · 31 searches, each compared with ≤ 32 candidates -/
def closestTable : Bool :=
  (List.range 32).all fun L => !(decide (28 ≤ L)) ||
    (List.range 7).all fun s =>
      (List.range 32).all fun t => !(decide (1 ≤ t) && decide (t ≤ L)) ||
        strictB L s t (closestA L s t)

theorem closestTable_true : closestTable = true := by decide +kernel

theorem closestA_strict (L s t : Nat) (hL1 : 28 ≤ L) (hL2 : L ≤ 31) (hs : s < 7)
    (ht1 : 1 ≤ t) (ht2 : t ≤ L) : StrictNearestA L s t (closestA L s t) := by
  have h := closestTable_true
  simp only [closestTable, List.all_eq_true, List.mem_range, Bool.or_eq_true, Bool.not_eq_true',
    decide_eq_false_iff_not, Bool.and_eq_false_imp, decide_eq_true_eq] at h
  rcases h L (by omega) with h1 | h1
  · omega
  · rcases h1 s hs t (by omega) with h2 | h2
    · exact absurd ht2 (h2 ht1)
    · exact strictB_sound _ _ _ _ h2

theorem closestWeekday_strict (y m t : Nat) (h1 : 1 ≤ t) (h2 : t ≤ dim y m) :
    StrictNearestA (dim y m) (weekday y m 0) t (closestWeekday y m t) := by
  rw [closestWeekday_eq]
  exact closestA_strict _ _ _ (dim_ge y m) (dim_le y m) (weekday_lt y m 0) h1 h2

/-- closestWeekday is THE nearest Monday–Friday of the month to t (1 ≤ t ≤ dim) -/
theorem closestWeekday_nearest (y m t : Nat) (h1 : 1 ≤ t) (h2 : t ≤ dim y m) :
    NearestWorkday y m t (closestWeekday y m t) := by
  obtain ⟨a, b, c, e⟩ := closestWeekday_strict y m t h1 h2
  refine ⟨a, b, (isWorkday_iff _ _ _).2 c, ?_⟩
  intro d' hd1 hd2 hw
  by_cases hne : d' = closestWeekday y m t
  · rw [hne]; exact Nat.le_refl _
  · exact Nat.le_of_lt (e d' hd1 hd2 ((isWorkday_iff _ _ _).1 hw) hne)

theorem nearestWorkday_eq_closest (y m t d : Nat) (h1 : 1 ≤ t) (h2 : t ≤ dim y m)
    (h : NearestWorkday y m t d) : d = closestWeekday y m t := by
  obtain ⟨a, b, c, e⟩ := closestWeekday_strict y m t h1 h2
  obtain ⟨a', b', c', e'⟩ := h
  by_cases hne : d = closestWeekday y m t
  · exact hne
  · have hlt := e d a' b' ((isWorkday_iff _ _ _).1 c') hne
    have hle := e' _ a b ((isWorkday_iff _ _ _).2 c)
    omega

theorem nearestWorkday_unique (y m t d d' : Nat) (h1 : 1 ≤ t) (h2 : t ≤ dim y m)
    (h : NearestWorkday y m t d) (h' : NearestWorkday y m t d') : d = d' := by
  rw [nearestWorkday_eq_closest y m t d h1 h2 h, nearestWorkday_eq_closest y m t d' h1 h2 h']

theorem nearestWorkday_iff (y m t d : Nat) (h1 : 1 ≤ t) (h2 : t ≤ dim y m) :
    NearestWorkday y m t d ↔ d = closestWeekday y m t :=
  ⟨nearestWorkday_eq_closest y m t d h1 h2, fun h => h ▸ closestWeekday_nearest y m t h1 h2⟩

/-! ## The occurrences of one weekday in the month -/

def dowA (L s w : Nat) : List Nat :=
  (List.range L).filterMap (fun i => if wdA s (i + 1) = w then some (i + 1) else none)

/-- explicit form: first occurrence `d0 ∈ 1..7`, then every 7 days -/
def dowE (L s w : Nat) : List Nat :=
  [(w + 13 - s) % 7 + 1, (w + 13 - s) % 7 + 8, (w + 13 - s) % 7 + 15, (w + 13 - s) % 7 + 22] ++
    (if (w + 13 - s) % 7 + 29 ≤ L then [(w + 13 - s) % 7 + 29] else [])

theorem daysOfWeekInMonth_eq (y m w : Nat) :
    daysOfWeekInMonth y m w = dowA (dim y m) (weekday y m 0) w := by
  unfold daysOfWeekInMonth dowA wdA
  congr 1; funext i; rw [weekday_lin y m (i + 1)]

def dowTable : Bool :=
  (List.range 32).all fun L => !(decide (28 ≤ L)) ||
    (List.range 7).all fun s => (List.range 7).all fun w => dowA L s w == dowE L s w

theorem dowTable_true : dowTable = true := by decide +kernel

theorem dowA_eq_dowE (L s w : Nat) (hL1 : 28 ≤ L) (hL2 : L ≤ 31) (hs : s < 7) (hw : w < 7) :
    dowA L s w = dowE L s w := by
  have h := dowTable_true
  simp only [dowTable, List.all_eq_true, List.mem_range, Bool.or_eq_true, Bool.not_eq_true',
    decide_eq_false_iff_not, beq_iff_eq] at h
  rcases h L (by omega) with h1 | h1
  · omega
  · exact h1 s hs w hw

theorem dowE_get (L s w k d : Nat) (hL1 : 28 ≤ L) (hL2 : L ≤ 31) (hs : s < 7) (hw : w < 7) :
    (dowE L s w)[k]? = some d ↔ (1 ≤ d ∧ d ≤ L ∧ wdA s d = w ∧ (d - 1) / 7 = k) := by
  unfold dowE wdA
  split
  · match k with
    | 0 | 1 | 2 | 3 | 4 => simp; omega
    | k+5 => simp; omega
  · match k with
    | 0 | 1 | 2 | 3 => simp; omega
    | k+4 => simp; omega

theorem dowE_last (L s w d : Nat) (hL1 : 28 ≤ L) (hL2 : L ≤ 31) (hs : s < 7) (hw : w < 7) :
    (dowE L s w).getLast? = some d ↔ (1 ≤ d ∧ d ≤ L ∧ wdA s d = w ∧ d + 7 > L) := by
  unfold dowE wdA
  split
  · simp; omega
  · simp; omega

theorem dowE_length (L s w : Nat) :
    4 ≤ (dowE L s w).length ∧ (dowE L s w).length ≤ 5 := by
  unfold dowE
  split <;> simp

/-- the k-th (1-based) occurrence of weekday w in the month sits at index k - 1: the entry at
    (0-based) index `k` is the day `d` with weekday `w` and `(d - 1) / 7 = k` -/
theorem daysOfWeekInMonth_get (y m w k d : Nat) (hw : w < 7) :
    (daysOfWeekInMonth y m w)[k]? = some d ↔
      (1 ≤ d ∧ d ≤ dim y m ∧ weekday y m d = w ∧ (d - 1) / 7 = k) := by
  rw [daysOfWeekInMonth_eq, dowA_eq_dowE _ _ _ (dim_ge y m) (dim_le y m) (weekday_lt y m 0) hw,
    dowE_get _ _ _ _ _ (dim_ge y m) (dim_le y m) (weekday_lt y m 0) hw, weekday_lin y m d]
  rfl

theorem daysOfWeekInMonth_last (y m w d : Nat) (hw : w < 7) :
    (daysOfWeekInMonth y m w).getLast? = some d ↔
      (1 ≤ d ∧ d ≤ dim y m ∧ weekday y m d = w ∧ d + 7 > dim y m) := by
  rw [daysOfWeekInMonth_eq, dowA_eq_dowE _ _ _ (dim_ge y m) (dim_le y m) (weekday_lt y m 0) hw,
    dowE_last _ _ _ _ (dim_ge y m) (dim_le y m) (weekday_lt y m 0) hw, weekday_lin y m d]
  rfl

theorem daysOfWeekInMonth_length (y m w : Nat) (hw : w < 7) :
    4 ≤ (daysOfWeekInMonth y m w).length ∧ (daysOfWeekInMonth y m w).length ≤ 5 := by
  rw [daysOfWeekInMonth_eq, dowA_eq_dowE _ _ _ (dim_ge y m) (dim_le y m) (weekday_lt y m 0) hw]
  exact dowE_length _ _ _

/-! ## The day node against the day rule -/

theorem dayValid_of_ne (dc : DayCfg) (h : dc.n ≠ 0) (y m d : Nat) :
    dayValid dc y m d = true ↔ targetDay dc y m = some d := by
  unfold dayValid
  rw [if_pos h]
  cases targetDay dc y m with
  | none => simp
  | some t => simp only [beq_iff_eq, Option.some.injEq]; exact eq_comm

theorem targetDay_wL (w y m : Nat) :
    targetDay { isWeekdayNode := true, n := -1, values := [], wvalues := [w], min := 1, max := 31 } y m
      = (daysOfWeekInMonth y m w).getLast? := by
  unfold targetDay
  dsimp only [List.headD_cons]
  rw [if_pos rfl, if_neg (by omega), if_neg (by decide)]

theorem targetDay_nth (w k y m : Nat) (hk : 1 ≤ k) :
    targetDay { isWeekdayNode := true, n := (k : Int), values := [], wvalues := [w], min := 1, max := 31 } y m
      = (daysOfWeekInMonth y m w)[k - 1]? := by
  unfold targetDay
  dsimp only [List.headD_cons]
  rw [if_pos rfl]
  split
  · symm; rw [List.getElem?_eq_none_iff]; omega
  · rw [if_pos (by omega), Int.toNat_natCast]

theorem dowCase (wv : List Nat) (wn : Int) (hok : dowOK ⟨wv, wn⟩ = true) (y m d : Nat) :
    dayValid { isWeekdayNode := true, n := wn, values := [], wvalues := wv, min := 1, max := 31 } y m d = true ↔
    (1 ≤ d ∧ d ≤ dim y m ∧
      (if wn = 0 then weekday y m d ∈ wv
       else ∃ w, wv.head? = some w ∧ weekday y m d = w ∧
         (if wn = -1 then d + 7 > dim y m else (((d - 1) / 7 + 1 : Nat) : Int) = wn))) := by
  by_cases h0 : wn = 0
  · subst h0
    have := dim_le y m
    simp [dayValid, commonValid]
    constructor
    · rintro ⟨⟨⟨a, -⟩, c⟩, e⟩; exact ⟨a, c, e⟩
    · rintro ⟨a, c, e⟩; exact ⟨⟨⟨a, by omega⟩, c⟩, e⟩
  · simp only [dowOK, h0, if_false] at hok
    rcases wv with _ | ⟨w, _ | ⟨w2, tl⟩⟩
    · simp at hok
    · simp only [Bool.and_eq_true, Bool.or_eq_true, decide_eq_true_eq] at hok
      obtain ⟨hn, hw⟩ := hok
      rw [dayValid_of_ne _ h0]
      simp only [h0, if_false, List.head?_cons, Option.some.injEq, exists_eq_left']
      rcases hn with hn | hn
      · subst hn
        rw [targetDay_wL, daysOfWeekInMonth_last _ _ _ _ (by omega)]
        simp
      · obtain ⟨k, rfl⟩ := Int.eq_ofNat_of_zero_le (by omega : 0 ≤ wn)
        rw [targetDay_nth _ _ _ _ (by omega), daysOfWeekInMonth_get _ _ _ _ _ (by omega)]
        rw [if_neg (by omega)]
        constructor
        · rintro ⟨a, b, c, e⟩; exact ⟨a, b, c, by omega⟩
        · rintro ⟨a, b, c, e⟩; exact ⟨a, b, c, by omega⟩
    · simp at hok

theorem targetDay_L (dv : List Nat) (y m : Nat) :
    targetDay { isWeekdayNode := false, n := 1, values := dv, wvalues := [], min := 1, max := 31 } y m
      = some (dim y m) := by
  have := dim_ge y m
  unfold targetDay
  dsimp only
  rw [if_neg (by decide), if_neg (by decide), if_pos rfl, if_pos (by omega)]
  simp

theorem targetDay_tW (t y m : Nat) :
    targetDay { isWeekdayNode := false, n := 2, values := [t], wvalues := [], min := 1, max := 31 } y m
      = some (closestWeekday y m (min t (dim y m))) := by
  unfold targetDay
  dsimp only [List.headD_cons]
  rw [if_neg (by decide), if_pos (by decide)]
  congr 2
  have e : ¬ (Int.toNat 2 &&& 1 ≠ 0) := by decide
  simp only [e, or_false]
  split <;> omega

theorem targetDay_LW (dv : List Nat) (y m : Nat) :
    targetDay { isWeekdayNode := false, n := 3, values := dv, wvalues := [], min := 1, max := 31 } y m
      = some (closestWeekday y m (dim y m)) := by
  unfold targetDay
  dsimp only
  rw [if_neg (by decide), if_pos (by decide), if_pos (Or.inr (by decide))]

theorem targetDay_Lk (dv : List Nat) (n : Int) (hn : n < 0) (y m : Nat) :
    targetDay { isWeekdayNode := false, n := n, values := dv, wvalues := [], min := 1, max := 31 } y m
      = if (dim y m : Int) + n ≥ 1 then some ((dim y m : Int) + n).toNat else none := by
  unfold targetDay
  dsimp only
  rw [if_neg (by decide), if_neg (by omega), if_neg (by omega : ¬ n = 1)]
  rfl

theorem domCase (dv : List Nat) (dn : Int) (hok : domOK ⟨dv, dn⟩ = true) (y m d : Nat) :
    dayValid { isWeekdayNode := false, n := dn, values := dv, wvalues := [], min := 1, max := 31 } y m d = true ↔
    (1 ≤ d ∧ d ≤ dim y m ∧
      (if dn = 0 then memOrAny dv d
       else if dn = 1 then d = dim y m
       else if dn = 2 then ∃ t, dv.head? = some t ∧ NearestWorkday y m (min t (dim y m)) d
       else if dn = 3 then NearestWorkday y m (dim y m) d
       else (d : Int) = (dim y m : Int) + dn)) := by
  have hge := dim_ge y m
  have hle := dim_le y m
  by_cases h0 : dn = 0
  · subst h0
    simp [dayValid, commonValid, memOrAny]
    constructor
    · rintro ⟨⟨⟨a, -⟩, c⟩, e⟩; exact ⟨a, e, c⟩
    · rintro ⟨a, e, c⟩; exact ⟨⟨⟨a, by omega⟩, c⟩, e⟩
  rw [dayValid_of_ne _ h0, if_neg h0]
  by_cases h1 : dn = 1
  · subst h1
    rw [targetDay_L, if_pos rfl, Option.some.injEq]
    constructor
    · intro h; omega
    · intro h; omega
  rw [if_neg h1]
  by_cases h2 : dn = 2
  · subst h2
    simp only [domOK, h0, h1, if_false, if_true] at hok
    rcases dv with _ | ⟨t, _ | ⟨t2, tl⟩⟩
    · simp at hok
    · simp only [Bool.and_eq_true, decide_eq_true_eq] at hok
      rw [targetDay_tW, if_pos rfl, Option.some.injEq]
      simp only [List.head?_cons, Option.some.injEq, exists_eq_left']
      have hm1 : 1 ≤ min t (dim y m) := by omega
      have hm2 : min t (dim y m) ≤ dim y m := by omega
      rw [nearestWorkday_iff _ _ _ _ hm1 hm2]
      have hn := closestWeekday_nearest y m _ hm1 hm2
      constructor
      · intro h; subst h; exact ⟨hn.1, hn.2.1, rfl⟩
      · intro h; exact h.2.2.symm
    · simp at hok
  rw [if_neg h2]
  by_cases h3 : dn = 3
  · subst h3
    rw [targetDay_LW, if_pos rfl, Option.some.injEq]
    have hm1 : 1 ≤ dim y m := by omega
    rw [nearestWorkday_iff _ _ _ _ hm1 (Nat.le_refl _)]
    have hn := closestWeekday_nearest y m _ hm1 (Nat.le_refl _)
    constructor
    · intro h; subst h; exact ⟨hn.1, hn.2.1, rfl⟩
    · intro h; exact h.2.2.symm
  rw [if_neg h3]
  simp only [domOK, h0, h1, h2, h3, if_false, Bool.and_eq_true, decide_eq_true_eq] at hok
  rw [targetDay_Lk _ _ (by omega)]
  split
  · rw [Option.some.injEq]; omega
  · constructor
    · intro h; cases h
    · intro h; omega

/-! ## Main theorem -/

/-- for a well-formed expression the executable day check is the declarative day rule,
    for every year, every month number and every day number -/
theorem dayValid_iff (f : Fields) (hwf : WellFormed f = true) (y m d : Nat) :
    dayValid (dayCfg {} f) y m d = true ↔ DayMatches f y m d := by
  simp only [WellFormed, Bool.and_eq_true] at hwf
  obtain ⟨⟨⟨⟨⟨⟨⟨⟨⟨-, hdom⟩, -⟩, -⟩, -⟩, hdow⟩, -⟩, -⟩, -⟩, -⟩ := hwf
  unfold DayMatches dayCfg
  by_cases hv : f.dow.values = []
  · rw [if_neg (not_not_intro hv), if_neg (not_not_intro hv)]
    exact domCase f.dom.values f.dom.n hdom y m d
  · rw [if_pos hv, if_pos hv]
    exact dowCase f.dow.values f.dow.n hdow y m d

/-! ## Non-vacuity -/

/-- `0 0 12 15W * ?` -/
def ex15W : Fields :=
  { sec := ⟨[0], 0⟩, min := ⟨[0], 0⟩, hour := ⟨[12], 0⟩, dom := ⟨[15], 2⟩, month := ⟨[], 0⟩,
    dow := ⟨[], 0⟩, year := ⟨[], 0⟩ }

/-- `0 0 12 ? * 6#3` (Quartz 6 = Friday, stored shifted as 5) -/
def ex6h3 : Fields :=
  { sec := ⟨[0], 0⟩, min := ⟨[0], 0⟩, hour := ⟨[12], 0⟩, dom := ⟨[], 0⟩, month := ⟨[], 0⟩,
    dow := ⟨[5], 3⟩, year := ⟨[], 0⟩ }

example : WellFormed ex15W = true := by decide
example : WellFormed ex6h3 = true := by decide

/-- 15 June 2024 is a Saturday: `15W` fires on Friday the 14th, and on no other day of that month -/
example : DayMatches ex15W 2024 6 14 := (dayValid_iff ex15W (by decide) 2024 6 14).1 (by decide)
example : ¬ DayMatches ex15W 2024 6 15 := fun h =>
  absurd ((dayValid_iff ex15W (by decide) 2024 6 15).2 h) (by decide)
/-- 1 June 2024 is a Saturday: `1W` stays in the month and moves forward to Monday the 3rd -/
example : NearestWorkday 2024 6 1 3 := by
  have h := closestWeekday_nearest 2024 6 1 (by decide) (by decide)
  have e : closestWeekday 2024 6 1 = 3 := by decide
  rwa [e] at h
/-- the third Friday of March 2024 is the 15th -/
example : DayMatches ex6h3 2024 3 15 := (dayValid_iff ex6h3 (by decide) 2024 3 15).1 (by decide)
example : (daysOfWeekInMonth 2024 3 5)[2]? = some 15 :=
  (daysOfWeekInMonth_get 2024 3 5 2 15 (by decide)).2 (by decide)
example : (daysOfWeekInMonth 2024 3 5).getLast? = some 29 :=
  (daysOfWeekInMonth_last 2024 3 5 29 (by decide)).2 (by decide)

end Cron
