import QuartzModel.Jobs.Status
/-!
# Helper lemmas for C16: the execution-thread system keeps "shared = replay of the store order"
-/
namespace Jobs

theorem upd_same {α : Type} (f : Nat → α) (i : Nat) (v : α) : upd f i v i = v := by simp [upd]

theorem upd_other {α : Type} (f : Nat → α) (i j : Nat) (v : α) (h : j ≠ i) : upd f i v j = f j := by
  simp [upd, h]

/-- the stored state obtained by applying the critical sections in store order (most recent first) -/
def replay {S : Type} (store : S → Nat → S) (s0 : S) : List Nat → S
  | [] => s0
  | i :: rest => store (replay store s0 rest) i

/-- the inductive invariant of `Sys.step` -/
structure Inv {S : Type} (store : S → Nat → S) (cbk : Bool) (s0 : S) (s : Sys S) : Prop where
  shared : s.shared = replay store s0 s.order
  mem : ∀ i, i ∈ s.order ↔ (s.pc i = .stored ∨ s.pc i = .done)
  nodup : s.order.Nodup
  cb : ∀ i, s.cb i = if s.pc i = .done ∧ cbk = true then 1 else 0

theorem inv_init {S : Type} (store : S → Nat → S) (cbk : Bool) (s0 : S) : Inv store cbk s0 (Sys.init s0) where
  shared := rfl
  mem := by intro i; simp [Sys.init]
  nodup := by simp [Sys.init]
  cb := by intro i; simp [Sys.init]

theorem inv_step {S : Type} (store : S → Nat → S) (cbk : Bool) (s0 : S) (s : Sys S) (i : Nat)
    (h : Inv store cbk s0 s) : Inv store cbk s0 (Sys.step store cbk s i) := by
  unfold Sys.step
  cases hpc : s.pc i with
  | idle =>
    refine ⟨h.shared, ?_, h.nodup, ?_⟩
    · intro j
      by_cases hj : j = i
      · subst hj; simp [upd_same, h.mem, hpc]
      · simp [upd_other _ _ _ _ hj, h.mem]
    · intro j
      by_cases hj : j = i
      · subst hj; have := h.cb j; simp [upd_same, hpc] at this ⊢; exact this
      · simp [upd_other _ _ _ _ hj, h.cb]
  | ran =>
    have hni : i ∉ s.order := by rw [h.mem, hpc]; simp
    refine ⟨?_, ?_, ?_, ?_⟩
    · simp [replay, h.shared]
    · intro j
      by_cases hj : j = i
      · subst hj; simp [upd_same]
      · simp [upd_other _ _ _ _ hj, h.mem, hj]
    · exact List.nodup_cons.mpr ⟨hni, h.nodup⟩
    · intro j
      by_cases hj : j = i
      · subst hj; have := h.cb j; simp [upd_same, hpc] at this ⊢; exact this
      · simp [upd_other _ _ _ _ hj, h.cb]
  | stored =>
    refine ⟨h.shared, ?_, h.nodup, ?_⟩
    · intro j
      by_cases hj : j = i
      · subst hj; simp [upd_same, h.mem, hpc]
      · simp [upd_other _ _ _ _ hj, h.mem]
    · intro j
      have hi := h.cb i
      simp [hpc] at hi
      by_cases hj : j = i
      · subst hj
        cases cbk <;> simp [upd_same, hi]
      · cases cbk <;> simp [upd_other _ _ _ _ hj, h.cb]
  | done => exact h

theorem inv_run {S : Type} (store : S → Nat → S) (cbk : Bool) (s0 : S) (sched : List Nat) (s : Sys S)
    (h : Inv store cbk s0 s) : Inv store cbk s0 (Sys.run store cbk s sched) := by
  induction sched generalizing s with
  | nil => exact h
  | cons i rest ih => exact ih _ (inv_step store cbk s0 s i h)

theorem inv_reachable {S : Type} (store : S → Nat → S) (cbk : Bool) (s0 : S) (sched : List Nat) :
    Inv store cbk s0 (Sys.run store cbk (Sys.init s0) sched) :=
  inv_run store cbk s0 sched _ (inv_init store cbk s0)

/-- what the invariant says about the observable fields -/
theorem last_of_inv {S O F : Type} (st : S → O → S) (obs : S → F) (fieldsOf : O → F)
    (hst : ∀ s o, obs (st s o) = fieldsOf o) (outs : Nat → O) (s0 : S) (cbk : Bool) (s : Sys S)
    (h : Inv (fun x i => st x (outs i)) cbk s0 s) :
    (s.order = [] ∧ s.shared = s0 ∧ ∀ i, s.pc i = .idle ∨ s.pc i = .ran) ∨
    (∃ j rest, s.order = j :: rest ∧ obs s.shared = fieldsOf (outs j) ∧ (s.pc j = .stored ∨ s.pc j = .done)) := by
  cases ho : s.order with
  | nil =>
    refine Or.inl ⟨rfl, ?_, ?_⟩
    · have := h.shared; rw [ho] at this; exact this
    · intro i
      have hm := h.mem i
      rw [ho] at hm
      cases hp : s.pc i <;> simp [hp] at hm ⊢
  | cons j rest =>
    refine Or.inr ⟨j, rest, rfl, ?_, ?_⟩
    · have := h.shared; rw [ho] at this; rw [this]; exact hst _ _
    · exact (h.mem j).mp (by rw [ho]; exact List.mem_cons_self)

/-- counting lemma: a 0/1-valued function summed over a list counts the elements where it is 1 -/
theorem sum_indicator (l : List Nat) (f : Nat → Nat) (p : Nat → Bool)
    (h : ∀ i, f i = if p i = true then 1 else 0) : (l.map f).sum = (l.filter p).length := by
  induction l with
  | nil => rfl
  | cons a t ih =>
    simp only [List.map_cons, List.sum_cons, List.filter_cons, ih, h a]
    cases p a <;> simp <;> omega

theorem callback_of_inv {S : Type} (store : S → Nat → S) (s0 : S) (s : Sys S) (m : Nat) (h : Inv store true s0 s) :
    (∀ i, s.cb i ≤ 1 ∧ (s.pc i = .done ↔ s.cb i = 1)) ∧ s.callbacks m = s.completed m := by
  refine ⟨?_, ?_⟩
  · intro i
    rw [h.cb i]
    by_cases hd : s.pc i = .done <;> simp [hd]
  · unfold Sys.callbacks Sys.completed
    exact sum_indicator _ _ (fun i => decide (s.pc i = .done)) (fun i => by rw [h.cb i]; simp)

theorem no_callback_of_inv {S : Type} (store : S → Nat → S) (s0 : S) (s : Sys S) (m : Nat) (h : Inv store false s0 s) :
    s.callbacks m = 0 := by
  unfold Sys.callbacks
  rw [sum_indicator _ _ (fun _ => false) (fun i => by rw [h.cb i]; simp)]
  simp

/-- `replay` as a left fold over the executions in chronological order -/
theorem replay_eq_foldl {S O : Type} (st : S → O → S) (outs : Nat → O) (s0 : S) (order : List Nat) :
    replay (fun s i => st s (outs i)) s0 order = (order.reverse.map outs).foldl st s0 := by
  induction order with
  | nil => rfl
  | cons i rest ih => simp [replay, ih, List.foldl_append]

/-! ## CurlJob body accounting -/

theorem cuRun_cons (b : Bool) (s : CuState) (o : CuOut) (os : List CuOut) :
    cuRun b s (o :: os) = cuRun b (cuStore b s o) os := rfl

/-- with the close: the open bodies are exactly the body held through the stored response -/
theorem cuStore_open_inv (s : CuState) (o : CuOut) (h : s.openBodies = (heldBody s.response).toList) :
    (cuStore true s o).openBodies = (heldBody (cuStore true s o).response).toList := by
  unfold cuStore
  cases hb : heldBody s.response with
  | none => simp [hb] at h; simp [h]
  | some b => simp [hb] at h; simp [h]

theorem cuRun_open_inv (s : CuState) (os : List CuOut) (h : s.openBodies = (heldBody s.response).toList) :
    (cuRun true s os).openBodies = (heldBody (cuRun true s os).response).toList := by
  induction os generalizing s with
  | nil => exact h
  | cons o t ih => rw [cuRun_cons]; exact ih _ (cuStore_open_inv s o h)

theorem gotBody_cons (o : CuOut) (os : List CuOut) :
    gotBody (o :: os) = (if (heldBody o.resp).isSome then 1 else 0) + gotBody os := by
  unfold gotBody
  rw [List.filter_cons]
  split <;> simp <;> omega

/-- with the close: every body handed out was closed or is the one still held -/
theorem cuRun_conserved (s : CuState) (os : List CuOut) (h : s.openBodies = (heldBody s.response).toList) :
    (cuRun true s os).closes + (cuRun true s os).openBodies.length =
      s.closes + s.openBodies.length + gotBody os := by
  induction os generalizing s with
  | nil => simp [cuRun, gotBody]
  | cons o t ih =>
    rw [cuRun_cons, ih _ (cuStore_open_inv s o h), gotBody_cons]
    unfold cuStore
    cases hb : heldBody s.response with
    | none =>
      simp [hb] at h
      cases ho : heldBody o.resp <;> simp [h] <;> omega
    | some b =>
      simp [hb] at h
      cases ho : heldBody o.resp <;> simp [h] <;> omega

/-- without the close nothing is ever closed and every body stays open -/
theorem cuRun_leak (s : CuState) (os : List CuOut) :
    (cuRun false s os).openBodies.length = s.openBodies.length + gotBody os ∧
      (cuRun false s os).closes = s.closes := by
  induction os generalizing s with
  | nil => simp [cuRun, gotBody]
  | cons o t ih =>
    rw [cuRun_cons, gotBody_cons]
    obtain ⟨h1, h2⟩ := ih (cuStore false s o)
    rw [h1, h2]
    unfold cuStore
    cases ho : heldBody o.resp <;> simp <;> omega

end Jobs
