import QuartzModel.Proofs.TransRepr
/-!
# Stage A — the translated `CommonNode` (Generated.Trans) equals the hand-written model (Cron.Nodes)

`Generated.Trans.CommonNode.*` is regenerated from `internal/csm/common_node.go` by `harness/cmd/gotolean`.
The equalities hold for ALL nodes with non-negative fields (`CommonWF`); the model side works on `Nat`.
Two forms are given: over `TransRepr.mkCommon` (used by Stage C) and over an arbitrary well-formed node
(`trans_common*`, the requested statements).
-/
namespace TransA
open Generated.Trans Cron TransRepr

/-! ## lists -/

theorem ints_length (l : List Nat) : (ints l).length = l.length := by simp [ints]

theorem ints_nil : ints [] = [] := rfl
theorem ints_cons (a : Nat) (t : List Nat) : ints (a :: t) = (a : Int) :: ints t := rfl

theorem ints_eq_nil (l : List Nat) : ints l = [] ↔ l = [] := by
  cases l <;> simp [ints]

theorem idx_ints_zero (l : List Nat) : idx (ints l) 0 = ((l.headD 0 : Nat) : Int) := by
  cases l <;> simp [idx, ints]

theorem contains_loop (l : List Nat) (x : Nat) :
    contains.loop1 (x : Int) (ints l) = if l.contains x then Ctl.ret true else Ctl.done () := by
  induction l with
  | nil => rfl
  | cons a t ih =>
    simp only [ints_cons, contains.loop1, List.contains_cons, ih]
    by_cases h : x = a
    · subst h; simp
    · have h' : ¬ ((x : Int) = (a : Int)) := by omega
      simp [h, h']

/-- Go `contains` on `[]int` is list membership -/
theorem trans_contains (l : List Nat) (x : Nat) : contains (ints l) (x : Int) = l.contains x := by
  unfold contains
  rw [contains_loop]
  cases l.contains x <;> rfl

/-! ## `mkCommon` form -/

theorem hasRange_mk (mn mx : Nat) (vs : List Nat) (v : Nat) :
    CommonNode.hasRange (mkCommon mn mx vs v) = decide (vs ≠ []) := by
  cases vs with
  | nil => simp [CommonNode.hasRange, mkCommon, ints]
  | cons a t =>
    simp only [CommonNode.hasRange, mkCommon, ints, List.map_cons, List.length_cons, ne_eq, reduceCtorEq,
      not_false_eq_true, decide_true, decide_eq_true_eq]
    omega

theorem isValid_mk (mn mx : Nat) (vs : List Nat) (v : Nat) :
    CommonNode.isValid (mkCommon mn mx vs v) = commonValid mn mx vs v := by
  unfold CommonNode.isValid
  rw [hasRange_mk]
  simp only [mkCommon, trans_contains, commonValid]
  cases vs with
  | nil => simp
  | cons a t => simp

theorem nextInRange_loop (mn mx : Nat) (vs : List Nat) (v : Nat) (l : List Nat) :
    CommonNode.nextInRange.loop1 (mkCommon mn mx vs v) (ints l) =
      match l.find? (fun x => decide (v < x) && decide (x ≤ mx)) with
      | some x => Ctl.ret (mkCommon mn mx vs x, false)
      | none => Ctl.done (mkCommon mn mx vs v) := by
  induction l with
  | nil => rfl
  | cons a t ih =>
    simp only [ints_cons, CommonNode.nextInRange.loop1, List.find?_cons]
    by_cases h : v < a ∧ a ≤ mx
    · have h1 : ((a : Int) > (v : Int)) := by omega
      have h2 : ((a : Int) ≤ (mx : Int)) := by omega
      simp [mkCommon, h.1, h.2, h1, h2]
    · have h' : ¬ (((a : Int) > (v : Int)) ∧ ((a : Int) ≤ (mx : Int))) := by omega
      have hb : (decide (v < a) && decide (a ≤ mx)) = false := by simpa using h
      have hb' : (decide ((mkCommon mn mx vs v).value < (a : Int)) && decide ((a : Int) ≤ (mkCommon mn mx vs v).max)) = false := by
        simpa [mkCommon] using h'
      simp only [hb, gt_iff_lt, hb', ih]
      rfl

theorem nextInRange_mk (mn mx : Nat) (vs : List Nat) (v : Nat) :
    CommonNode.nextInRange (mkCommon mn mx vs v) =
      (mkCommon mn mx vs (nextInRange vs mx v).1, (nextInRange vs mx v).2) := by
  unfold CommonNode.nextInRange nextInRange
  have : (mkCommon mn mx vs v).values = ints vs := rfl
  rw [this, nextInRange_loop]
  cases vs.find? (fun x => decide (v < x) && decide (x ≤ mx)) with
  | some x => rfl
  | none => simp [mkCommon, idx_ints_zero]

theorem next_mk (mn mx : Nat) (v : Nat) :
    CommonNode.next (mkCommon mn mx [] v) =
      (if v + 1 > mx then (mkCommon mn mx [] mn, true) else (mkCommon mn mx [] (v + 1), false)) := by
  unfold CommonNode.next
  by_cases h : v + 1 > mx
  · have h' : ((v : Int) + 1 > (mx : Int)) := by omega
    simp [mkCommon, h, h']
  · have h' : ¬ ((v : Int) + 1 > (mx : Int)) := by omega
    simp [mkCommon, h, h']

/-- Go `CommonNode.Next` -/
theorem Next_mk (mn mx : Nat) (vs : List Nat) (v : Nat) :
    CommonNode.Next (mkCommon mn mx vs v) =
      (mkCommon mn mx vs (commonNext mn mx vs v).1, (commonNext mn mx vs v).2) := by
  unfold CommonNode.Next commonNext
  rw [hasRange_mk]
  cases vs with
  | nil =>
    simp only [ne_eq, not_true_eq_false, decide_false, Bool.false_eq_true, ↓reduceIte, next_mk mn mx v]
    split <;> rfl
  | cons a t =>
    simp only [ne_eq, reduceCtorEq, not_false_eq_true, decide_true, ↓reduceIte, nextInRange_mk]

/-- Go `CommonNode.Reset` -/
theorem Reset_mk (mn mx : Nat) (vs : List Nat) (v : Nat) :
    CommonNode.Reset (mkCommon mn mx vs v) = mkCommon mn mx vs (commonReset mn mx vs) := by
  unfold CommonNode.Reset commonReset
  have : ({ mkCommon mn mx vs v with value := (mkCommon mn mx vs v).max } : CommonNode) = mkCommon mn mx vs mx := rfl
  show (CommonNode.Next ({ mkCommon mn mx vs v with value := (mkCommon mn mx vs v).max } : CommonNode)).1 = _
  rw [this, Next_mk]

/-- Go `CommonNode.findForward` -/
theorem findForward_mk (mn mx : Nat) (vs : List Nat) (v : Nat) :
    CommonNode.findForward (mkCommon mn mx vs v) =
      (if commonValid mn mx vs v then (mkCommon mn mx vs v, unchanged)
       else (mkCommon mn mx vs (commonNext mn mx vs v).1, ffCode (commonNext mn mx vs v).2)) := by
  unfold CommonNode.findForward
  rw [isValid_mk, Next_mk]
  cases commonValid mn mx vs v with
  | true => rfl
  | false =>
    simp only [Bool.not_false, ↓reduceIte, Bool.false_eq_true, ffCode]
    cases (commonNext mn mx vs v).2 <;> rfl

theorem Value_mk (mn mx : Nat) (vs : List Nat) (v : Nat) : CommonNode.Value (mkCommon mn mx vs v) = (v : Int) := rfl

/-! ## arbitrary well-formed nodes -/

/-- all fields of the node are non-negative (they are: limits and parsed values are) -/
structure CommonWF (n : CommonNode) : Prop where
  value : 0 ≤ n.value
  min : 0 ≤ n.min
  max : 0 ≤ n.max
  values : ∀ x ∈ n.values, 0 ≤ x

theorem ints_toNat (l : List Int) (h : ∀ x ∈ l, 0 ≤ x) : ints (l.map Int.toNat) = l := by
  induction l with
  | nil => rfl
  | cons a t ih =>
    have ha : 0 ≤ a := h a (by simp)
    have ht := ih (fun x hx => h x (by simp [hx]))
    simp only [List.map_cons, ints_cons, ht]
    congr 1
    omega

theorem eq_mk (n : CommonNode) (h : CommonWF n) :
    n = mkCommon n.min.toNat n.max.toNat (n.values.map Int.toNat) n.value.toNat := by
  cases n with
  | mk value min max values =>
    have h1 := h.value; have h2 := h.min; have h3 := h.max
    simp only at h1 h2 h3
    simp only [mkCommon, ints_toNat values h.values, CommonNode.mk.injEq, and_true]
    omega

theorem mk_value (mn mx : Nat) (vs : List Nat) (v w : Nat) :
    ({ mkCommon mn mx vs v with value := (w : Int) } : CommonNode) = mkCommon mn mx vs w := rfl

theorem with_value (n : CommonNode) (h : CommonWF n) (w : Nat) :
    ({ n with value := (w : Int) } : CommonNode) = mkCommon n.min.toNat n.max.toNat (n.values.map Int.toNat) w := by
  cases n with
  | mk value min max values =>
    have h2 := h.min; have h3 := h.max
    simp only at h2 h3
    simp only [mkCommon, ints_toNat values h.values, CommonNode.mk.injEq, and_true, true_and]
    omega

end TransA
