import QuartzModel.Theorems.TransMachine
import QuartzModel.Theorems.C01
import QuartzModel.Theorems.C02
import QuartzModel.Theorems.C06
/-!
# Transfer of C01 / C02 / C06 to the translated state machine

`nextFireT` is the model of `CronTrigger.NextFireTime` (`quartz/cron.go`, hand-written as `Cron.nextFire`) in which
every call `newCSMFromFields(wall, ct.fields).NextTriggerTime(time.UTC)` runs the TRANSLATED Go code
(`TransCsm.transCsmNext T`) instead of the hand-written `Cron.csmNext`.  Given that the two agree on valid
wall clocks (`Agree`, which `Theorems/TransFinal.lean` proves for `T := goTime`), `nextFireT = nextFire`
on fixed-offset locations and the property theorems carry over verbatim.
-/
namespace TransCsm
open Generated.Trans Cron Cal Odo TransRepr TransA TransC

/-- the `for` loop of `NextFireTime` over an arbitrary state-machine step (`Cron.zoneLoop` is the instance
`step := csmNext lim f`) -/
def zoneLoopG (step : Civil → Option (Option Civil)) (z : Zone) (prevSec prevOff : Int) : Nat → Civil → Outcome
  | 0, _ => .outOfFuel
  | fuel+1, wall =>
    match step wall with
    | none => .outOfFuel
    | some none => .expired
    | some (some nw) =>
      let w := nw.toSeconds
      let n1 := z.date w
      let next := if fires z n1 w prevSec then n1 else w - prevOff
      if fires z next w prevSec then .ok (next * 1000000000) else zoneLoopG step z prevSec prevOff fuel nw

theorem zoneLoop_eq_G (lim : Limits) (f : Fields) (z : Zone) (prevSec prevOff : Int) (fuel : Nat) (wall : Civil) :
    zoneLoop lim f z prevSec prevOff fuel wall = zoneLoopG (csmNext lim f) z prevSec prevOff fuel wall := by
  induction fuel generalizing wall with
  | zero => simp only [zoneLoop, zoneLoopG]
  | succ fuel ih =>
    rw [zoneLoop_succ]
    simp only [zoneLoopG]
    cases csmNext lim f wall with
    | none => rfl
    | some o =>
      cases o with
      | none => rfl
      | some t => simp only [ih]

/-- `CronTrigger.NextFireTime(prev)` with the translated state machine (`cf` = its fuel) -/
def nextFireT (T : TimeExt) (cf : Nat) (f : Fields) (z : Zone) (prevNs : Int) : Outcome :=
  let prevSec := prevNs / 1000000000   -- floor: the whole second prev lies in (D27)
  let prevOff := z.offsetAt prevSec
  zoneLoopG (fun wall => transCsmNext T f wall cf) z prevSec prevOff csmFuel (Civil.ofSeconds (prevSec + prevOff))

/-- the translated state machine agrees with the model on every valid wall clock -/
def Agree (T : TimeExt) (cf : Nat) (f : Fields) : Prop :=
  ∀ wall : Civil, wall.Valid → wall.year ≤ 3940 → transCsmNext T f wall cf = csmNext {} f wall

theorem zoneLoopT_eq (T : TimeExt) (cf : Nat) (f : Fields) (hwf : WellFormed f = true) (hA : Agree T cf f)
    (z : Zone) (prevSec prevOff : Int) (fuel : Nat) :
    ∀ wall : Civil, wall.Valid → wall.year ≤ 3940 →
      zoneLoopG (fun wall => transCsmNext T f wall cf) z prevSec prevOff fuel wall =
        zoneLoop {} f z prevSec prevOff fuel wall := by
  induction fuel with
  | zero => intro _ _ _; simp only [zoneLoopG, zoneLoop]
  | succ fuel ih =>
    intro wall hv hy
    rw [zoneLoop_succ]
    simp only [zoneLoopG, hA wall hv hy]
    cases h : csmNext {} f wall with
    | none => rfl
    | some o =>
      cases o with
      | none => rfl
      | some t =>
        obtain ⟨hm, _, _⟩ := csmNext_spec_some f hwf wall t h
        have hty : t.year ≤ 3940 := by
          have : t.year ≤ lastYear := hm.2.2.2.2.2.2.2.2.2.2.1
          unfold lastYear at this; omega
        simp only [ih t (matches_valid f t hm) hty]

/-- every real `prev` is an int64 count of nanoseconds, so the start wall clock is before the year 2263 -/
theorem wall0_year (c prev : Int) (hc : -100000 ≤ c ∧ c ≤ 100000) (hp : -9223372036854775808 ≤ prev) (hmax : prev ≤ 9223372036854775807) :
    (Civil.ofSeconds (prev / 1000000000 + c)).year ≤ 3940 := by
  have h1 := Civil.ofSeconds_year_mono (prev / 1000000000 + c) 9223472137
    (by show -((719529 : Nat) : Int) * 86400 + 86400 ≤ _; omega) (by omega)
  have h2 : (Civil.ofSeconds 9223472137).year = 2262 := by decide
  omega

/-- on a fixed-offset location, `NextFireTime` with the translated state machine is the model's `nextFire` -/
theorem nextFireT_eq (T : TimeExt) (cf : Nat) (f : Fields) (hwf : WellFormed f = true) (hA : Agree T cf f)
    (c prev : Int) (hc : -100000 ≤ c ∧ c ≤ 100000) (hp : -9223372036854775808 ≤ prev) (hmax : prev ≤ 9223372036854775807) :
    nextFireT T cf f (fixedZone c) prev = nextFire {} f (fixedZone c) prev := by
  obtain ⟨hwv, _⟩ := wall0_valid c prev hc hp
  have hy := wall0_year c prev hc hp hmax
  unfold nextFireT nextFire
  simp only [fixedZone]
  exact zoneLoopT_eq T cf f hwf hA _ _ _ _ _ hwv hy

end TransCsm
