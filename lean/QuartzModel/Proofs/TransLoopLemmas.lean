import QuartzModel.Generated.TransLoop
import QuartzModel.Sched.Faults
/-!
# Representation maps between the translated execution loop (`Generated.TransLoop`) and the hand-written fault model
(`Sched/Faults.lean`), the scripted externals, and the equivalence lemmas.

* `theShape`: the one `Faults.Shape` that satisfies `Faults.WF` (`wf_eq`): the shape the TRANSLATED code is proved to have.
* `scriptQ eE eO i : JobQueueExt SQ Unit`: a queue every answer of which is dictated by the model input `i : Faults.In`
  (`Size()` answers `i.size` before the `Pop()` of the iteration and `i.size2` after it, `Head()` answers `i.head`, `Pop()` `i.pop`, `Push()`
  `i.pushOk`); `eE` is the error value it uses for "empty" (any error with `errors.Is(eE, ErrQueueEmpty)`), `eO` the one for every
  other failure (any error that is not).  Its state `SQ` is the script's own log: the calls with their outcomes, the job handed out
  by `Pop()`, the job accepted by `Push()`.
* `scriptT trig : TriggerExt Unit`: `Trigger.NextFireTime` of the trigger with identity `k` is `trig k`.
* `inpOf`: a model input as the generated `Inputs` record; `absOut`: the result of the translated iteration as a `Faults.Out`.
-/
set_option linter.unusedSimpArgs false

namespace TransLoop
open Generated.TransSched Generated.TransLoop Faults

/-- `maxTimerDuration` as the translator evaluates it -/
def maxDur : Int := 9223372036854775807

/-- the shape of the error handling that the translated code has -/
def theShape : Shape :=
  { onSizeErr := .retry, backoff := .deadline, onBackoff := .untilRetry, onEmpty := .max, onDefault := .nextTick,
    headErr := .retry, headEmpty := .retry, stateFromTick := true, popErrReturned := true, popEmpty := .unlessSizeZero,
    pushErrReturned := true, backoffFirst := true, stateFromArm := true }

theorem theShape_wf : WF theShape := by decide

@[simp] theorem theShape_onSizeErr : theShape.onSizeErr = .retry := rfl
@[simp] theorem theShape_backoff : theShape.backoff = .deadline := rfl
@[simp] theorem theShape_onBackoff : theShape.onBackoff = .untilRetry := rfl
@[simp] theorem theShape_onEmpty : theShape.onEmpty = .max := rfl
@[simp] theorem theShape_onDefault : theShape.onDefault = .nextTick := rfl
@[simp] theorem theShape_headErr : theShape.headErr = .retry := rfl
@[simp] theorem theShape_headEmpty : theShape.headEmpty = .retry := rfl
@[simp] theorem theShape_stateFromTick : theShape.stateFromTick = true := rfl
@[simp] theorem theShape_popErrReturned : theShape.popErrReturned = true := rfl
@[simp] theorem theShape_popEmpty : theShape.popEmpty = .unlessSizeZero := rfl
@[simp] theorem theShape_pushErrReturned : theShape.pushErrReturned = true := rfl
@[simp] theorem theShape_backoffFirst : theShape.backoffFirst = true := rfl
@[simp] theorem theShape_stateFromArm : theShape.stateFromArm = true := rfl

/-- `WF` pins the shape down completely -/
theorem wf_eq (S : Shape) (h : WF S) : S = theShape := by
  obtain ⟨h1, h2, h3, h4, h5, h6, h7, h8, h9, h10, h11, h12, h13⟩ := h
  cases S
  simp only [theShape] at *
  subst h1 h2 h3 h4 h5 h6 h7 h8 h9 h10 h11 h12 h13
  rfl

/-! ## representation -/

/-- a model entry as a Go `*scheduledJob`: non-nil detail (the job object and the trigger object are identified by the key),
    key, options (not suspended: `Faults.validate` leaves the paused case out) -/
def ofEntry (e : Entry) : scheduledJob :=
  { job := some { job := some e.key, jobKey := some { name := "job", group := "" }, opts := some {} },
    trigger := some e.key, priority := e.prio }

/-- what the loop observes of a `ScheduledJob` -/
def toEntry (j : scheduledJob) : Entry := { key := deref j.trigger, prio := j.priority }

@[simp] theorem toEntry_ofEntry (e : Entry) : toEntry (ofEntry e) = e := rfl

@[simp] theorem deref_some {α : Type} [Inhabited α] (a : α) : deref (some a) = a := rfl

/-- the script's own record of what happened to it -/
structure SQ where
  /-- `Pop()` has been called (the `Size()` that follows is the one of `fetchAndReschedule`) -/
  afterPop : Bool := false
  log : List (Op × Outcome) := []
  popped : Option scheduledJob := none
  pushed : Option scheduledJob := none
deriving Repr, DecidableEq

def SQ.call (q : SQ) (o : Op) (r : Outcome) : SQ := { q with log := q.log ++ [(o, r)] }

/-- a queue that answers what the model input dictates -/
def scriptQ (eE eO : Err) (i : In) : JobQueueExt SQ Unit where
  Push q j := if i.pushOk then ({ q.call .push .ok with pushed := j }, none) else (q.call .push .err, some eO)
  Pop q :=
    match i.pop with
    | .ok e => ({ q.call .pop .ok with popped := some (ofEntry e), afterPop := true }, (some (ofEntry e), none))
    | .empty => ({ q.call .pop .empty with afterPop := true }, (none, some eE))
    | .err => ({ q.call .pop .err with afterPop := true }, (none, some eO))
  Head q :=
    match i.head with
    | .ok f => (q.call .head .ok, (some (ofEntry ⟨0, f⟩), none))
    | .empty => (q.call .head .empty, (none, some eE))
    | .err => (q.call .head .err, (none, some eO))
  Get q _ := (q, (none, some eO))
  Remove q _ := (q, (none, some eO))
  ScheduledJobs q _ := (q, ([], some eO))
  Size q :=
    match (if q.afterPop then i.size2 else i.size) with
    | some n => (q.call .size .ok, (Int.ofNat n, none))
    | none => (q.call .size .err, (0, some eO))
  Clear q := (q, some eO)

/-- triggers by identity -/
def scriptT (trig : Trig) : TriggerExt Unit where
  NextFireTime _ k prev :=
    match trig k prev with
    | some t => ((), (t, none))
    | none => ((), (0, some (.other 0)))
  Description _ _ := ((), "")

/-- the scheduler options of a model configuration; `blocking` / `workers`: the dispatch mode -/
def envOf (c : Cfg) (blocking : Bool) (workers : Int) : Env :=
  { opts := { BlockingExecution := blocking, WorkerLimit := workers, OutdatedThreshold := c.thr, RetryInterval := c.R },
    started := true, now := 0 }

/-- a model input as the generated input record: the three clock readings of the arming part that lie on different paths
    through the `switch` (`time.Until(retryAt)`, the two `retryAt = time.Now().Add(…)`) are the model's one `now2`. `dsel`: what the `select` of the worker-pool dispatch does;
    `tstop`: what `timer.Stop()` answers in the interrupt case (neither is part of the model) -/
def inpOf (i : In) (dsel : executeAndReschedule.Sel1) (tstop : Bool) : Inputs :=
  { calculateNextTick_now1 := i.now2, fetchAndReschedule_now := i.nowVal, executeAndReschedule_sel1 := dsel,
    startExecutionLoop_now1 := i.now1, startExecutionLoop_now2 := i.now2, startExecutionLoop_now3 := i.now2,
    startExecutionLoop_now4 := i.now2,
    startExecutionLoop_sel1 := if i.interrupted then .recv_sched_interrupt else .recv_timer_C,
    startExecutionLoop_now5 := i.nowErr, startExecutionLoop_timerStop1 := tstop }

@[simp] theorem envOf_R (c : Cfg) (b : Bool) (w : Int) : (envOf c b w).opts.RetryInterval = c.R := rfl
@[simp] theorem inpOf_now1 (i : In) (d : executeAndReschedule.Sel1) (t : Bool) : (inpOf i d t).startExecutionLoop_now1 = i.now1 := rfl
@[simp] theorem inpOf_now2 (i : In) (d : executeAndReschedule.Sel1) (t : Bool) : (inpOf i d t).startExecutionLoop_now2 = i.now2 := rfl
@[simp] theorem inpOf_now3 (i : In) (d : executeAndReschedule.Sel1) (t : Bool) : (inpOf i d t).startExecutionLoop_now3 = i.now2 := rfl
@[simp] theorem inpOf_now4 (i : In) (d : executeAndReschedule.Sel1) (t : Bool) : (inpOf i d t).startExecutionLoop_now4 = i.now2 := rfl
@[simp] theorem inpOf_now5 (i : In) (d : executeAndReschedule.Sel1) (t : Bool) : (inpOf i d t).startExecutionLoop_now5 = i.nowErr := rfl
@[simp] theorem inpOf_sel (i : In) (d : executeAndReschedule.Sel1) (t : Bool) :
    (inpOf i d t).startExecutionLoop_sel1 = if i.interrupted then .recv_sched_interrupt else .recv_timer_C := rfl
@[simp] theorem inpOf_tstop (i : In) (d : executeAndReschedule.Sel1) (t : Bool) : (inpOf i d t).startExecutionLoop_timerStop1 = t := rfl

/-- the initial state of an iteration: a fresh script, nothing recorded -/
def σ0 : LSt SQ Unit := { queue := {}, trigs := (), out := [] }

/-! ## observables -/

def resetOf : LEvent → Option Int
  | .timerReset d => some d
  | _ => none

/-- the `JobDetail` handed to `executeWithRetries` / a new goroutine / the worker pool -/
def dispOf : LEvent → Option (Option JobDetail)
  | .execute jd => some jd
  | .spawn jd => some jd
  | .send _ job => some (scheduledJob.JobDetail (deref job))
  | _ => none

/-- receives from the interrupt channel: `true` = the blocking receive of a `select`, `false` = a non-blocking drain -/
def intrOf : LEvent → Option Bool
  | .recv ch => if ch = "sched.interrupt" then some true else none
  | .tryRecv ch => if ch = "sched.interrupt" then some false else none
  | _ => none

/-- the result of the translated iteration as the model's `Out` -/
def absOut (st : BState) (r : LSt SQ Unit × (Time × Bool)) : Out :=
  { armed := ((r.1.out.filterMap resetOf).head?).getD 0,
    calls := r.1.queue.log,
    dispatched := match (r.1.out.filterMap dispOf).head? with
      | some jd => (r.1.queue.popped.filter (fun j => decide (j.job = jd))).map toEntry
      | none => none,
    pushed := r.1.queue.pushed.map toEntry,
    popped := r.1.queue.popped.map toEntry,
    armErr := decide (r.1.queue.log.head? = some (.size, .err)) || r.1.queue.log.contains (.head, .err),
    tickErr := r.1.queue.log.contains (.pop, .err) || r.1.queue.log.contains (.push, .err),
    st := { st with retryAt := r.2.1 } }

@[simp] theorem resetOf_sched (e : Event) : resetOf (.sched e) = none := rfl
@[simp] theorem resetOf_log (a b : String) : resetOf (.log a b) = none := rfl
@[simp] theorem resetOf_timerNew (d : Int) : resetOf (.timerNew d) = none := rfl
@[simp] theorem resetOf_timerReset (d : Int) : resetOf (.timerReset d) = some d := rfl
@[simp] theorem resetOf_timerStop : resetOf .timerStop = none := rfl
@[simp] theorem resetOf_recv (a : String) : resetOf (.recv a) = none := rfl
@[simp] theorem resetOf_send (a : String) (j : Option scheduledJob) : resetOf (.send a j) = none := rfl
@[simp] theorem resetOf_trySend (a : String) : resetOf (.trySend a) = none := rfl
@[simp] theorem resetOf_tryRecv (a : String) : resetOf (.tryRecv a) = none := rfl
@[simp] theorem resetOf_execute (j : Option JobDetail) : resetOf (.execute j) = none := rfl
@[simp] theorem resetOf_spawn (j : Option JobDetail) : resetOf (.spawn j) = none := rfl
@[simp] theorem resetOf_wgAdd (n : Int) : resetOf (.wgAdd n) = none := rfl
@[simp] theorem resetOf_deferWgDone : resetOf .deferWgDone = none := rfl
@[simp] theorem intrOf_sched (e : Event) : intrOf (.sched e) = none := rfl
@[simp] theorem intrOf_log (a b : String) : intrOf (.log a b) = none := rfl
@[simp] theorem intrOf_timerNew (d : Int) : intrOf (.timerNew d) = none := rfl
@[simp] theorem intrOf_timerReset (d : Int) : intrOf (.timerReset d) = none := rfl
@[simp] theorem intrOf_timerStop : intrOf .timerStop = none := rfl
@[simp] theorem intrOf_recv (a : String) : intrOf (.recv a) = if a = "sched.interrupt" then some true else none := rfl
@[simp] theorem intrOf_send (a : String) (j : Option scheduledJob) : intrOf (.send a j) = none := rfl
@[simp] theorem intrOf_trySend (a : String) : intrOf (.trySend a) = none := rfl
@[simp] theorem intrOf_tryRecv (a : String) : intrOf (.tryRecv a) = if a = "sched.interrupt" then some false else none := rfl
@[simp] theorem intrOf_execute (j : Option JobDetail) : intrOf (.execute j) = none := rfl
@[simp] theorem intrOf_spawn (j : Option JobDetail) : intrOf (.spawn j) = none := rfl
@[simp] theorem intrOf_wgAdd (n : Int) : intrOf (.wgAdd n) = none := rfl
@[simp] theorem intrOf_deferWgDone : intrOf .deferWgDone = none := rfl
@[simp] theorem dispOf_sched (e : Event) : dispOf (.sched e) = none := rfl
@[simp] theorem dispOf_log (a b : String) : dispOf (.log a b) = none := rfl
@[simp] theorem dispOf_timerNew (d : Int) : dispOf (.timerNew d) = none := rfl
@[simp] theorem dispOf_timerReset (d : Int) : dispOf (.timerReset d) = none := rfl
@[simp] theorem dispOf_timerStop : dispOf .timerStop = none := rfl
@[simp] theorem dispOf_recv (a : String) : dispOf (.recv a) = none := rfl
@[simp] theorem dispOf_send (a : String) (j : Option scheduledJob) : dispOf (.send a j) = some (scheduledJob.JobDetail (deref j)) := rfl
@[simp] theorem dispOf_trySend (a : String) : dispOf (.trySend a) = none := rfl
@[simp] theorem dispOf_tryRecv (a : String) : dispOf (.tryRecv a) = none := rfl
@[simp] theorem dispOf_execute (j : Option JobDetail) : dispOf (.execute j) = some j := rfl
@[simp] theorem dispOf_spawn (j : Option JobDetail) : dispOf (.spawn j) = some j := rfl
@[simp] theorem dispOf_wgAdd (n : Int) : dispOf (.wgAdd n) = none := rfl
@[simp] theorem dispOf_deferWgDone : dispOf .deferWgDone = none := rfl

theorem scriptQ_Size (eE eO : Err) (i : In) (q : SQ) :
    (scriptQ eE eO i).Size q =
      match (if q.afterPop then i.size2 else i.size) with
      | some n => (q.call .size .ok, (Int.ofNat n, none))
      | none => (q.call .size .err, (0, some eO)) := rfl

/-- what `fetch` dispatches is what it popped -/
theorem fetch_dispatched_popped (S : Shape) (c : Cfg) (trig : Trig) (i : In) (e : Entry)
    (h : (fetch S c trig i).dispatched = some e) : (fetch S c trig i).popped = some e := by
  unfold fetch at h ⊢
  cases hp : i.pop with
  | err => simp [hp] at h
  | empty => cases hq : S.popEmpty <;> simp [hp, hq] at h
  | ok e' =>
    simp only [hp] at h ⊢
    cases hv : (validate c trig e' i.nowVal).2 with
    | none =>
      simp only [hv] at h ⊢
      split at h <;> simp_all
    | some t =>
      simp only [hv] at h ⊢
      cases hpu : i.pushOk <;> simp only [hpu] at h ⊢ <;> (split at h <;> simp_all)

/-- `tickErr` of `fetch` is visible in its calls -/
theorem fetch_tickErr_calls (S : Shape) (c : Cfg) (trig : Trig) (i : In) :
    (fetch S c trig i).tickErr =
      ((fetch S c trig i).calls.contains (.pop, .err) || (fetch S c trig i).calls.contains (.push, .err)) := by
  unfold fetch
  cases hp : i.pop with
  | err => simp
  | empty => cases hq : S.popEmpty <;> simp <;> cases i.size2 <;> simp
  | ok e' =>
    simp only
    cases hv : (validate c trig e' i.nowVal).2 with
    | none => simp
    | some t => cases hpu : i.pushOk <;> simp

/-- the log lines of `calculateNextTick` -/
def calcLogs : Res Int → List LEvent
  | .ok _ => [.log "Trace" "Next tick"]
  | .empty => [.log "Debug" "Queue is empty"]
  | .err => [.log "Error" "Failed to calculate next tick"]

/-- `fetch` never calls `Head()` -/
@[simp] theorem fetch_calls_no_head (S : Shape) (c : Cfg) (trig : Trig) (i : In) (o : Outcome) :
    ((Op.head, o) ∈ (fetch S c trig i).calls) = False := by
  unfold fetch
  cases hp : i.pop with
  | err => simp
  | empty => cases hq : S.popEmpty <;> simp
  | ok e' =>
    simp only
    cases hv : (validate c trig e' i.nowVal).2 with
    | none => simp
    | some t => cases hpu : i.pushOk <;> simp

@[simp] theorem outcome_err_iff (h : Res Int) : (h.outcome = Outcome.err) = (h = Res.err) := by
  cases h <;> simp [Res.outcome]

@[simp] theorem outcome_err_iff' (h : Res Int) : (Outcome.err = h.outcome) = (h = Res.err) := by
  cases h <;> simp [Res.outcome]

@[simp] theorem calcLogs_reset (h : Res Int) : (calcLogs h).filterMap resetOf = [] := by
  cases h <;> simp [calcLogs, List.filterMap_cons]
@[simp] theorem calcLogs_disp (h : Res Int) : (calcLogs h).filterMap dispOf = [] := by
  cases h <;> simp [calcLogs, List.filterMap_cons]
@[simp] theorem calcLogs_intr (h : Res Int) : (calcLogs h).filterMap intrOf = [] := by
  cases h <;> simp [calcLogs, List.filterMap_cons]

/-- reading the popped / pushed / dispatched entry back from the script's record -/
theorem tick_tail (F : Fetch) (D : ∀ e, F.dispatched = some e → F.popped = some e) :
    (match (match F.dispatched with | some e => [(ofEntry e).job] | none => []).head? with
      | some jd => Option.map toEntry (Option.filter (fun j => decide (j.job = jd))
          (match F.popped with | some e => some (ofEntry e) | none => none))
      | none => none) = F.dispatched ∧
    Option.map toEntry (match F.pushed with | some e => some (ofEntry e) | none => none) = F.pushed ∧
    Option.map toEntry (match F.popped with | some e => some (ofEntry e) | none => none) = F.popped := by
  refine ⟨?_, ?_, ?_⟩
  · cases hd : F.dispatched with
    | none => simp
    | some e => simp [D e hd, Option.filter]
  · cases F.pushed <;> simp
  · cases F.popped <;> simp

/-! ## `calculateNextTick` -/

theorem satDuration_id {x : Int} (h : -9223372036854775808 ≤ x ∧ x ≤ 9223372036854775807) : satDuration x = x := by
  unfold satDuration; split
  · omega
  · split <;> omega

theorem i64_id {x : Int} (h : -9223372036854775808 ≤ x ∧ x ≤ 9223372036854775807) : i64 x = x := by
  unfold i64; omega

/-- **`calculateNextTick` = `Faults.calcNextTick`** for the shape the code has: same duration, exactly one `Head()` call,
    nothing but a log line recorded; the error result is non-nil exactly when `Head()` failed with an error other than
    `ErrQueueEmpty`. Hypothesis: no int64 overflow in `nextRunTime - now`. -/
theorem calculateNextTick_spec (eE eO : Err) (hE : errorsIs (some eE) (some ErrQueueEmpty) = true)
    (hO : errorsIs (some eO) (some ErrQueueEmpty) = false) (trig : Trig) (c : Cfg) (b : Bool) (w : Int) (i : In)
    (inp : Inputs) (hnow : inp.calculateNextTick_now1 = i.now2) (σ : LSt SQ Unit)
    (hov : ∀ f, i.head = .ok f → f > i.now2 → i64 (f - i.now2) = f - i.now2) :
    calculateNextTick (scriptQ eE eO i) (scriptT trig) (envOf c b w) inp σ =
      ({ queue := σ.queue.call .head i.head.outcome, trigs := σ.trigs, out := σ.out ++ calcLogs i.head },
        (calcNextTick theShape c i.head i.now2, if i.head = .err then some eO else none)) := by
  cases hh : i.head with
  | ok f =>
    by_cases hf : f > i.now2
    · simp [calculateNextTick, scriptQ, LSt.callQ, LSt.emit, hh, hnow, calcNextTick, theShape, calcLogs, Res.outcome,
        scheduledJob.NextRunTime, ofEntry, hf, hov f hh hf]
    · simp [calculateNextTick, scriptQ, LSt.callQ, LSt.emit, hh, hnow, calcNextTick, theShape, calcLogs, Res.outcome,
        scheduledJob.NextRunTime, ofEntry, hf]
  | empty =>
    simp [calculateNextTick, scriptQ, LSt.callQ, LSt.emit, hh, calcNextTick, theShape, calcLogs, Res.outcome, hE, envOf]
  | err =>
    simp [calculateNextTick, scriptQ, LSt.callQ, LSt.emit, hh, calcNextTick, theShape, calcLogs, Res.outcome, hO, envOf]

/-! ## `executeAndReschedule` (and, through it, the imported `fetchAndReschedule` / `validateJob`) -/

/-- **`executeAndReschedule` = `Faults.fetch`** for the shape the code has: the same queue calls with the same outcomes, the same
    popped / pushed / dispatched entry, the error result is non-nil exactly when the model says so (`retErr`), and nothing is
    received from the interrupt channel.
    Hypotheses: no int64 overflow in `now - OutdatedThreshold`, and — the
    model has no such case — the worker-pool `select` is not decided by `ctx.Done()`. -/
theorem executeAndReschedule_spec (eE eO : Err) (hE : errorsIs (some eE) (some ErrQueueEmpty) = true)
    (hO : errorsIs (some eO) (some ErrQueueEmpty) = false) (trig : Trig) (c : Cfg) (b : Bool) (w : Int) (i : In)
    (inp : Inputs) (hnow : inp.fetchAndReschedule_now = i.nowVal) (σ : LSt SQ Unit)
    (hov : i64 (i.nowVal - c.thr) = i.nowVal - c.thr)
    (hmode : b = true ∨ w ≤ 0 ∨ inp.executeAndReschedule_sel1 = .send_dispatch) :
    let F := fetch theShape c trig i
    let r := executeAndReschedule (scriptQ eE eO i) (scriptT trig) (envOf c b w) inp σ
    r.1.queue.log = σ.queue.log ++ F.calls ∧
    r.1.queue.popped = (match F.popped with | some e => some (ofEntry e) | none => σ.queue.popped) ∧
    r.1.queue.pushed = (match F.pushed with | some e => some (ofEntry e) | none => σ.queue.pushed) ∧
    r.1.out.filterMap resetOf = σ.out.filterMap resetOf ∧
    r.1.out.filterMap dispOf = σ.out.filterMap dispOf ++ (match F.dispatched with | some e => [(ofEntry e).job] | none => []) ∧
    r.2.isSome = F.retErr ∧
    r.1.out.filterMap intrOf = σ.out.filterMap intrOf := by
  intro F r
  cases hp : i.pop with
  | err =>
    simp [F, r, fetch, theShape, executeAndReschedule, LSt.callSched, fetchAndReschedule, scriptQ, St.callQ, St.emit, hp, hO,
      SQ.call, resetOf, dispOf]
  | empty =>
    cases hs : i.size2 with
    | none =>
      simp [F, r, fetch, theShape, executeAndReschedule, LSt.callSched, fetchAndReschedule, scriptQ, St.callQ, St.emit, hp, hE,
        SQ.call, resetOf, dispOf, hs]
    | some n =>
      cases n with
      | zero =>
        simp [F, r, fetch, theShape, executeAndReschedule, LSt.callSched, fetchAndReschedule, scriptQ, St.callQ, St.emit, hp,
          hE, SQ.call, resetOf, dispOf, hs]
      | succ n =>
        have hne : ¬ ((n : Int) + 1 = 0) := by omega
        simp [F, r, fetch, theShape, executeAndReschedule, LSt.callSched, fetchAndReschedule, scriptQ, St.callQ, St.emit, hp,
          hE, SQ.call, resetOf, dispOf, hs, hne]
  | ok e =>
    have hmode' : b = false → ¬ (w > 0) ∨ inp.executeAndReschedule_sel1 = .send_dispatch := by
      intro hb; rcases hmode with h | h | h
      · simp [hb] at h
      · left; omega
      · right; exact h
    by_cases h1 : e.prio < i.nowVal - c.thr
    · -- outdated: never dispatched
      cases ht : trig e.key i.nowVal with
      | none =>
        simp [F, r, fetch, validate, theShape, executeAndReschedule, LSt.callSched, fetchAndReschedule, validateJob,
          validateJob.Fn.call, scriptQ, scriptT, St.callQ, St.callT, St.emit, hp, SQ.call, resetOf, dispOf, hnow, hov, h1, ht,
          envOf, ofEntry, scheduledJob.JobDetail, scheduledJob.NextRunTime, scheduledJob.Trigger]
      | some t =>
        cases hpu : i.pushOk <;>
        simp [F, r, fetch, validate, theShape, executeAndReschedule, LSt.callSched, fetchAndReschedule, validateJob,
          validateJob.Fn.call, scriptQ, scriptT, St.callQ, St.callT, St.emit, hp, SQ.call, resetOf, dispOf, hnow, hov, h1, ht,
          envOf, ofEntry, scheduledJob.JobDetail, scheduledJob.NextRunTime, scheduledJob.Trigger, hpu]
    · by_cases h2 : e.prio > i.nowVal
      · cases hpu : i.pushOk <;>
        simp [F, r, fetch, validate, theShape, executeAndReschedule, LSt.callSched, fetchAndReschedule, validateJob,
          validateJob.Fn.call, scriptQ, scriptT, St.callQ, St.callT, St.emit, hp, SQ.call, resetOf, dispOf, hnow, hov, h1, h2,
          envOf, ofEntry, scheduledJob.JobDetail, scheduledJob.NextRunTime, scheduledJob.Trigger, hpu]
      · -- valid: dispatched in every mode
        cases hb : b with
        | true =>
          cases ht : trig e.key e.prio with
          | none =>
            simp [F, r, fetch, validate, theShape, executeAndReschedule, LSt.callSched, LSt.emit, fetchAndReschedule, validateJob,
            validateJob.Fn.call, scriptQ, scriptT, St.callQ, St.callT, St.emit, hp, SQ.call, resetOf, dispOf, hnow, hov, h1, h2,
            envOf, ofEntry, scheduledJob.JobDetail, scheduledJob.NextRunTime, scheduledJob.Trigger, ht, hb] <;> rfl
          | some t =>
            cases hpu : i.pushOk <;>
            simp [F, r, fetch, validate, theShape, executeAndReschedule, LSt.callSched, LSt.emit, fetchAndReschedule, validateJob,
            validateJob.Fn.call, scriptQ, scriptT, St.callQ, St.callT, St.emit, hp, SQ.call, resetOf, dispOf, hnow, hov, h1, h2,
            envOf, ofEntry, scheduledJob.JobDetail, scheduledJob.NextRunTime, scheduledJob.Trigger, ht, hb, hpu] <;> rfl
        | false =>
          rcases hmode' hb with hw | hsel
          · cases ht : trig e.key e.prio with
            | none =>
              simp [F, r, fetch, validate, theShape, executeAndReschedule, LSt.callSched, LSt.emit, fetchAndReschedule, validateJob,
              validateJob.Fn.call, scriptQ, scriptT, St.callQ, St.callT, St.emit, hp, SQ.call, resetOf, dispOf, hnow, hov, h1, h2,
              envOf, ofEntry, scheduledJob.JobDetail, scheduledJob.NextRunTime, scheduledJob.Trigger, ht, hb, hw] <;> rfl
            | some t =>
              cases hpu : i.pushOk <;>
              simp [F, r, fetch, validate, theShape, executeAndReschedule, LSt.callSched, LSt.emit, fetchAndReschedule, validateJob,
              validateJob.Fn.call, scriptQ, scriptT, St.callQ, St.callT, St.emit, hp, SQ.call, resetOf, dispOf, hnow, hov, h1, h2,
              envOf, ofEntry, scheduledJob.JobDetail, scheduledJob.NextRunTime, scheduledJob.Trigger, ht, hb, hpu, hw] <;> rfl
          · by_cases hw : w > 0
            · cases ht : trig e.key e.prio with
              | none =>
                simp [F, r, fetch, validate, theShape, executeAndReschedule, LSt.callSched, LSt.emit, fetchAndReschedule, validateJob,
                validateJob.Fn.call, scriptQ, scriptT, St.callQ, St.callT, St.emit, hp, SQ.call, resetOf, dispOf, hnow, hov, h1, h2,
                envOf, ofEntry, scheduledJob.JobDetail, scheduledJob.NextRunTime, scheduledJob.Trigger, ht, hb, hw, hsel] <;> rfl
              | some t =>
                cases hpu : i.pushOk <;>
                simp [F, r, fetch, validate, theShape, executeAndReschedule, LSt.callSched, LSt.emit, fetchAndReschedule, validateJob,
                validateJob.Fn.call, scriptQ, scriptT, St.callQ, St.callT, St.emit, hp, SQ.call, resetOf, dispOf, hnow, hov, h1, h2,
                envOf, ofEntry, scheduledJob.JobDetail, scheduledJob.NextRunTime, scheduledJob.Trigger, ht, hb, hpu, hw, hsel] <;> rfl
            · cases ht : trig e.key e.prio with
              | none =>
                simp [F, r, fetch, validate, theShape, executeAndReschedule, LSt.callSched, LSt.emit, fetchAndReschedule, validateJob,
                validateJob.Fn.call, scriptQ, scriptT, St.callQ, St.callT, St.emit, hp, SQ.call, resetOf, dispOf, hnow, hov, h1, h2,
                envOf, ofEntry, scheduledJob.JobDetail, scheduledJob.NextRunTime, scheduledJob.Trigger, ht, hb, hw] <;> rfl
              | some t =>
                cases hpu : i.pushOk <;>
                simp [F, r, fetch, validate, theShape, executeAndReschedule, LSt.callSched, LSt.emit, fetchAndReschedule, validateJob,
                validateJob.Fn.call, scriptQ, scriptT, St.callQ, St.callT, St.emit, hp, SQ.call, resetOf, dispOf, hnow, hov, h1, h2,
                envOf, ofEntry, scheduledJob.JobDetail, scheduledJob.NextRunTime, scheduledJob.Trigger, ht, hb, hpu, hw] <;> rfl

end TransLoop
