import QuartzModel.Sched.Model
import QuartzModel.Sched.History
import QuartzModel.Theorems.C11
/-!
# Helper lemmas for the scheduler theorems C03 / C04 / C08 / C09
-/
namespace Sched
open Queue

/-! ## queue layer, list view -/

theorem hasKey_perm {a : Arr} {l : List Entry} (hp : a.toList.Perm l) (g n : String) :
    hasKey a g n ↔ ∃ e ∈ l, e.group = g ∧ e.name = n := by
  unfold hasKey
  constructor
  · rintro ⟨e, he, h⟩; exact ⟨e, hp.mem_iff.mp he, h⟩
  · rintro ⟨e, he, h⟩; exact ⟨e, hp.mem_iff.mpr he, h⟩

theorem qpop_empty (a : Arr) (h : a.size = 0) : qpop a = .error .queueEmpty :=
  (C11_empty_errors a h).1

/-- `Pop` on a non-empty queue: the minimum leaves, the rest is a queue without that key -/
theorem qpop_spec (a : Arr) (h : Inv a) (hne : a.size ≠ 0) :
    ∃ a' e, qpop a = .ok (a', e) ∧ a.toList.Perm (e :: a'.toList) ∧ Inv a' ∧
      (∀ x ∈ a.toList, e.prio ≤ x.prio) ∧ ¬ hasKey a' e.group e.name := by
  obtain ⟨a', e, hq, hperm, hmin⟩ := C11_pop_min a h hne
  refine ⟨a', e, hq, hperm, qpop_inv a a' e h hq, hmin, ?_⟩
  obtain ⟨_, hne'⟩ := keysDistinct_of_cons a a' e h.2 hperm
  rintro ⟨x, hx, hg, hn⟩
  exact hne' x hx ⟨hn.symm, hg.symm⟩

theorem qpop_ok_nonempty (a a' : Arr) (e : Entry) (hq : qpop a = .ok (a', e)) : a.size ≠ 0 := by
  intro h
  rw [qpop_empty a h] at hq
  cases hq

/-- `Push` of a key that is not present -/
theorem qpush_new (a : Arr) (e : Entry) (h : Inv a) (hk : ¬ hasKey a e.group e.name) :
    qpush a e = .ok (hpush a e) ∧ (hpush a e).toList.Perm (e :: a.toList) ∧ Inv (hpush a e) := by
  have hq : qpush a e = .ok (hpush a e) := by
    unfold qpush
    rw [(findIdx_none_iff a _ _).mpr hk]
  exact ⟨hq, hpush_perm a e, qpush_inv a _ e h hq⟩

/-- `Remove` of a present key -/
theorem qremove_spec (a : Arr) (h : Inv a) (g n : String) (hk : hasKey a g n) :
    ∃ a' e, qremove a g n = .ok (a', e) ∧ e.group = g ∧ e.name = n ∧ e ∈ a.toList ∧
      a.toList.Perm (e :: a'.toList) ∧ Inv a' ∧ ¬ hasKey a' g n := by
  obtain ⟨a', e, hq, hg, hn, hperm⟩ := (C11_remove a h g n).1 hk
  refine ⟨a', e, hq, hg, hn, hperm.mem_iff.mpr List.mem_cons_self, hperm,
    qremove_inv a a' g n e h hq, ?_⟩
  obtain ⟨_, hne'⟩ := keysDistinct_of_cons a a' e h.2 hperm
  rintro ⟨x, hx, hxg, hxn⟩
  exact hne' x hx ⟨by rw [hn, hxn], by rw [hg, hxg]⟩

/-- `Get` of a present key returns the unique entry with that key -/
theorem qget_spec (a : Arr) (h : Inv a) (g n : String) (hk : hasKey a g n) :
    ∃ e, qget a g n = .ok e ∧ e ∈ a.toList ∧ e.group = g ∧ e.name = n := by
  obtain ⟨e, he, hg, hn⟩ := hk
  exact ⟨e, ((C11_get a h g n).1 e).mpr ⟨he, hg, hn⟩, he, hg, hn⟩

theorem qget_none (a : Arr) (h : Inv a) (g n : String) (hk : ¬ hasKey a g n) :
    qget a g n = .error .jobNotFound := (C11_get a h g n).2.mpr hk

theorem qget_ok (a : Arr) (h : Inv a) (g n : String) (e : Entry) (hq : qget a g n = .ok e) :
    e ∈ a.toList ∧ e.group = g ∧ e.name = n := ((C11_get a h g n).1 e).mp hq

/-- `Get` and `Remove` address the same entry -/
theorem qremove_of_qget (a : Arr) (h : Inv a) (g n : String) (e : Entry) (hq : qget a g n = .ok e) :
    ∃ a', qremove a g n = .ok (a', e) ∧ a.toList.Perm (e :: a'.toList) ∧ Inv a' ∧
      ¬ hasKey a' g n := by
  obtain ⟨he, hg, hn⟩ := qget_ok a h g n e hq
  obtain ⟨a', e', hr, hg', hn', he', hperm, hinv, hnk⟩ := qremove_spec a h g n ⟨e, he, hg, hn⟩
  have : e' = e := keysDistinct_unique a h.2 e' e he' he ⟨by rw [hn', hn], by rw [hg', hg]⟩
  subst this
  exact ⟨a', hr, hperm, hinv, hnk⟩

/-- in a key-distinct queue an entry occurs once -/
theorem perm_erase_of_cons {l l' : List Entry} {e : Entry} (hp : l.Perm (e :: l')) :
    (l.erase e).Perm l' := by
  have := hp.erase e
  rwa [List.erase_cons_head] at this

/-! ## trigger store -/

theorem trig_setTrig_same (s : SState) (t : Nat) (x : Trig) : (s.setTrig t x).trig t = x := by
  simp [SState.setTrig, SState.trig]

theorem lookup_filter_ne (l : List (Nat × Trig)) (t t' : Nat) (h : t' ≠ t) :
    (l.filter (fun p => p.1 != t)).lookup t' = l.lookup t' := by
  induction l with
  | nil => rfl
  | cons p l ih =>
    obtain ⟨k, v⟩ := p
    by_cases hk : k = t
    · subst hk
      have : (t' == k) = false := by simpa using h
      simp [List.filter, List.lookup, this, ih]
    · have hk' : (k != t) = true := by simpa using hk
      simp only [List.filter, hk', List.lookup]
      split <;> simp_all

theorem trig_setTrig_other (s : SState) (t t' : Nat) (x : Trig) (h : t' ≠ t) :
    (s.setTrig t x).trig t' = s.trig t' := by
  have : (t' == t) = false := by simpa using h
  simp only [SState.setTrig, SState.trig, List.lookup, this]
  rw [lookup_filter_ne _ _ _ h]

@[simp] theorem setTrig_q (s : SState) (t : Nat) (x : Trig) : (s.setTrig t x).q = s.q := rfl

@[simp] theorem trig_with_q (s : SState) (q : Arr) (t : Nat) : ({ s with q := q } : SState).trig t = s.trig t := rfl

/-- membership in the remainder after taking one entry out of a key-distinct queue -/
theorem mem_rest_iff {a a' : Arr} {e : Entry} (h : Inv a) (hp : a.toList.Perm (e :: a'.toList))
    (x : Entry) : x ∈ a'.toList ↔ x ∈ a.toList ∧ x ≠ e := by
  obtain ⟨_, hne⟩ := keysDistinct_of_cons a a' e h.2 hp
  constructor
  · intro hx
    refine ⟨hp.mem_iff.mpr (List.mem_cons_of_mem _ hx), ?_⟩
    rintro rfl
    exact hne x hx ⟨rfl, rfl⟩
  · rintro ⟨hx, hxe⟩
    rcases List.mem_cons.mp (hp.mem_iff.mp hx) with h1 | h1
    · exact absurd h1 hxe
    · exact h1

theorem mem_hpush_iff (a : Arr) (e x : Entry) : x ∈ (hpush a e).toList ↔ x = e ∨ x ∈ a.toList := by
  rw [(hpush_perm a e).mem_iff, List.mem_cons]

/-! ## ScheduleJob -/

theorem schedule_illegal (s : SState) (now : Int) (a : SchedArgs) (h : a.illegal) :
    schedule s now a = (s, some .illegalArgument, []) := by
  unfold schedule
  rcases h with h | h | h | h
  · simp [h]
  · simp [h]
  · simp [h]
  · split
    · rfl
    · simp [h]

theorem legal_fields (a : SchedArgs) (h : ¬ a.illegal) :
    a.hasDetail = true ∧ a.hasKey = true ∧ (a.name == "") = false ∧ ∃ t, a.trig = some t := by
  unfold SchedArgs.illegal at h
  refine ⟨?_, ?_, ?_, ?_⟩
  · cases hh : a.hasDetail with
    | true => rfl
    | false => exact absurd (Or.inl hh) h
  · cases hh : a.hasKey with
    | true => rfl
    | false => exact absurd (Or.inr (Or.inl hh)) h
  · apply Bool.eq_false_iff.mpr
    intro hh
    exact h (Or.inr (Or.inr (Or.inl (by simpa using hh))))
  · cases ht : a.trig with
    | none => exact absurd (Or.inr (Or.inr (Or.inr ht))) h
    | some t => exact ⟨t, rfl⟩

theorem schedule_susp (s : SState) (now : Int) (a : SchedArgs) (t : Trig) (h : ¬ a.illegal)
    (ht : a.trig = some t) (hs : a.suspended = true) :
    schedule s now a =
      match qpush s.q (a.entry maxInt64) with
      | .ok q' => (({ s with q := q' } : SState).setTrig a.tag t, none, [])
      | .error e => (s, some (ofQErr e), []) := by
  obtain ⟨h1, h2, h3, _⟩ := legal_fields a h
  unfold schedule SchedArgs.entry
  simp only [h1, h2, h3, ht, hs, Bool.not_true, Bool.or_false, Bool.false_eq_true, if_false, if_true]
  rfl

theorem schedule_active (s : SState) (now : Int) (a : SchedArgs) (t : Trig) (h : ¬ a.illegal)
    (ht : a.trig = some t) (hs : a.suspended = false) :
    schedule s now a =
      match (t.fire now).1 with
      | none => (s, some .triggerError, [{ tag := a.tag, prev := now, result := none }])
      | some p =>
        match qpush s.q (a.entry p) with
        | .ok q' => (({ s with q := q' } : SState).setTrig a.tag (t.fire now).2, none,
            [{ tag := a.tag, prev := now, result := some p }])
        | .error e => (s, some (ofQErr e), [{ tag := a.tag, prev := now, result := some p }]) := by
  obtain ⟨h1, h2, h3, _⟩ := legal_fields a h
  unfold schedule SchedArgs.entry
  simp only [h1, h2, h3, ht, hs, Bool.not_true, Bool.or_false, Bool.false_eq_true, if_false]
  cases hf : (t.fire now).1 <;> rfl


theorem schedule_susp_ok (s : SState) (now : Int) (a : SchedArgs) (t : Trig) (q' : Arr)
    (h : ¬ a.illegal) (ht : a.trig = some t) (hs : a.suspended = true)
    (hq : qpush s.q (a.entry maxInt64) = .ok q') :
    schedule s now a = (({ s with q := q' } : SState).setTrig a.tag t, none, []) := by
  rw [schedule_susp s now a t h ht hs, hq]

theorem schedule_susp_err (s : SState) (now : Int) (a : SchedArgs) (t : Trig) (e : QErr)
    (h : ¬ a.illegal) (ht : a.trig = some t) (hs : a.suspended = true)
    (hq : qpush s.q (a.entry maxInt64) = .error e) :
    schedule s now a = (s, some (ofQErr e), []) := by
  rw [schedule_susp s now a t h ht hs, hq]

theorem schedule_active_none (s : SState) (now : Int) (a : SchedArgs) (t : Trig)
    (h : ¬ a.illegal) (ht : a.trig = some t) (hs : a.suspended = false)
    (hf : (t.fire now).1 = none) :
    schedule s now a = (s, some .triggerError, [{ tag := a.tag, prev := now, result := none }]) := by
  rw [schedule_active s now a t h ht hs, hf]

theorem schedule_active_ok (s : SState) (now : Int) (a : SchedArgs) (t : Trig) (p : Int) (q' : Arr)
    (h : ¬ a.illegal) (ht : a.trig = some t) (hs : a.suspended = false)
    (hf : (t.fire now).1 = some p) (hq : qpush s.q (a.entry p) = .ok q') :
    schedule s now a = (({ s with q := q' } : SState).setTrig a.tag (t.fire now).2, none,
      [{ tag := a.tag, prev := now, result := some p }]) := by
  rw [schedule_active s now a t h ht hs, hf]
  simp only [hq]

theorem schedule_active_err (s : SState) (now : Int) (a : SchedArgs) (t : Trig) (p : Int) (e : QErr)
    (h : ¬ a.illegal) (ht : a.trig = some t) (hs : a.suspended = false)
    (hf : (t.fire now).1 = some p) (hq : qpush s.q (a.entry p) = .error e) :
    schedule s now a = (s, some (ofQErr e), [{ tag := a.tag, prev := now, result := some p }]) := by
  rw [schedule_active s now a t h ht hs, hf]
  simp only [hq]

/-- the queue push of `ScheduleJob`, for any priority: three cases -/
theorem sched_push_cases (q : Arr) (a : SchedArgs) (p : Int) (h : Inv q) :
    (qpush q (a.entry p) = .error .jobAlreadyExists ∧ hasKey q a.group a.name ∧ a.replace = false) ∨
    (¬ hasKey q a.group a.name ∧ qpush q (a.entry p) = .ok (hpush q (a.entry p))) ∨
    (a.replace = true ∧ ∃ old q', old ∈ q.toList ∧ old.group = a.group ∧ old.name = a.name ∧
      qpush q (a.entry p) = .ok q' ∧ q'.toList.Perm (a.entry p :: q.toList.erase old)) := by
  by_cases hk : hasKey q a.group a.name
  · cases hr : a.replace with
    | false => exact Or.inl ⟨C11_push_duplicate q (a.entry p) hk hr, hk, rfl⟩
    | true =>
      right; right
      obtain ⟨old, ho, hg, hn⟩ := hk
      obtain ⟨q', hq, hperm⟩ := C11_push_replace q (a.entry p) old h ho ⟨hg, hn⟩ hr
      exact ⟨rfl, old, q', ho, hg, hn, hq, hperm⟩
  · right; left
    exact ⟨hk, (qpush_new q (a.entry p) h hk).1⟩

/-- the complete outcome table of `ScheduleJob` -/
theorem schedule_cases (s : SState) (now : Int) (a : SchedArgs) :
    (a.illegal ∧ schedule s now a = (s, some .illegalArgument, [])) ∨
    (¬ a.illegal ∧ a.trigFails now ∧
      schedule s now a = (s, some .triggerError, [{ tag := a.tag, prev := now, result := none }])) ∨
    (¬ a.illegal ∧ ¬ a.trigFails now ∧ ∃ t p t' calls, a.trig = some t ∧
      ((a.suspended = true ∧ p = maxInt64 ∧ t' = t ∧ calls = []) ∨
       (a.suspended = false ∧ (t.fire now).1 = some p ∧ t' = (t.fire now).2 ∧
          calls = [{ tag := a.tag, prev := now, result := some p }])) ∧
      ((∃ e, qpush s.q (a.entry p) = .error e ∧ schedule s now a = (s, some (ofQErr e), calls)) ∨
       (∃ q', qpush s.q (a.entry p) = .ok q' ∧
          schedule s now a = (({ s with q := q' } : SState).setTrig a.tag t', none, calls)))) := by
  by_cases hl : a.illegal
  · exact Or.inl ⟨hl, schedule_illegal s now a hl⟩
  · obtain ⟨_, _, _, t, ht⟩ := legal_fields a hl
    cases hs : a.suspended with
    | true =>
      have hnf : ¬ a.trigFails now := fun hh => by rw [hh.1] at hs; cases hs
      refine Or.inr (Or.inr ⟨hl, hnf, t, maxInt64, t, [], ht, Or.inl ⟨rfl, rfl, rfl, rfl⟩, ?_⟩)
      cases hq : qpush s.q (a.entry maxInt64) with
      | ok q' => exact Or.inr ⟨q', rfl, schedule_susp_ok s now a t q' hl ht hs hq⟩
      | error e => exact Or.inl ⟨e, rfl, schedule_susp_err s now a t e hl ht hs hq⟩
    | false =>
      cases hf : (t.fire now).1 with
      | none =>
        exact Or.inr (Or.inl ⟨hl, ⟨hs, t, ht, hf⟩, schedule_active_none s now a t hl ht hs hf⟩)
      | some p =>
        have hnf : ¬ a.trigFails now := by
          rintro ⟨_, t', ht', hf'⟩
          rw [ht] at ht'
          injection ht' with ht'
          subst ht'
          rw [hf] at hf'
          cases hf'
        refine Or.inr (Or.inr ⟨hl, hnf, t, p, (t.fire now).2, _, ht, Or.inr ⟨rfl, hf, rfl, rfl⟩, ?_⟩)
        cases hq : qpush s.q (a.entry p) with
        | ok q' => exact Or.inr ⟨q', rfl, schedule_active_ok s now a t p q' hl ht hs hf hq⟩
        | error e => exact Or.inl ⟨e, rfl, schedule_active_err s now a t p e hl ht hs hf hq⟩

/-! ## DeleteJob -/

theorem delete_nokey (s : SState) (g n : String) : delete s false g n = (s, some .illegalArgument) := rfl

theorem delete_missing (s : SState) (g n : String) (h : Inv s.q) (hk : ¬ hasKey s.q g n) :
    delete s true g n = (s, some .jobNotFound) := by
  unfold delete
  rw [(C11_remove s.q h g n).2 hk]
  rfl

theorem delete_present (s : SState) (g n : String) (h : Inv s.q) (hk : hasKey s.q g n) :
    ∃ q1 e, qremove s.q g n = .ok (q1, e) ∧ e.group = g ∧ e.name = n ∧ e ∈ s.q.toList ∧
      s.q.toList.Perm (e :: q1.toList) ∧ Inv q1 ∧ ¬ hasKey q1 g n ∧
      delete s true g n = ({ s with q := q1 }, none) := by
  obtain ⟨q1, e, hr, hg, hn, he, hperm, hinv, hnk⟩ := qremove_spec s.q h g n hk
  refine ⟨q1, e, hr, hg, hn, he, hperm, hinv, hnk, ?_⟩
  unfold delete
  rw [hr]
  rfl

/-! ## PauseJob -/

theorem pause_nokey (s : SState) (g n : String) : pause s false g n = (s, some .illegalArgument) := rfl

theorem pause_missing (s : SState) (g n : String) (h : Inv s.q) (hk : ¬ hasKey s.q g n) :
    pause s true g n = (s, some .jobNotFound) := by
  unfold pause
  rw [qget_none s.q h g n hk]
  rfl

theorem pause_suspended (s : SState) (g n : String) (e : Entry) (hq : qget s.q g n = .ok e)
    (hs : e.suspended = true) : pause s true g n = (s, some .jobIsSuspended) := by
  unfold pause
  rw [hq]
  simp [hs]

theorem pause_active (s : SState) (g n : String) (e : Entry) (h : Inv s.q)
    (hq : qget s.q g n = .ok e) (hs : e.suspended = false) :
    ∃ q1, qremove s.q g n = .ok (q1, e) ∧ s.q.toList.Perm (e :: q1.toList) ∧ Inv q1 ∧
      ¬ hasKey q1 g n ∧ Inv (hpush q1 (pausedOf e)) ∧
      pause s true g n = ({ s with q := hpush q1 (pausedOf e) }, none) := by
  obtain ⟨q1, hr, hperm, hinv, hnk⟩ := qremove_of_qget s.q h g n e hq
  obtain ⟨_, hg, hn⟩ := qget_ok s.q h g n e hq
  have hnk' : ¬ hasKey q1 (pausedOf e).group (pausedOf e).name := by
    show ¬ hasKey q1 e.group e.name
    rw [hg, hn]; exact hnk
  obtain ⟨hpush_ok, _, hinv2⟩ := qpush_new q1 (pausedOf e) hinv hnk'
  refine ⟨q1, hr, hperm, hinv, hnk, hinv2, ?_⟩
  unfold pause
  rw [hq]
  simp only [hs, Bool.not_true, Bool.false_eq_true, if_false, hr]
  show (match qpush q1 (pausedOf e) with
    | .ok q'' => (({ s with q := q'' } : SState), (none : Option SErr))
    | .error e => ({ s with q := q1 }, some (ofQErr e))) = _
  rw [hpush_ok]

/-! ## ResumeJob -/

theorem resume_nokey (s : SState) (now : Int) (g n : String) :
    resume s now false g n = (s, some .illegalArgument, []) := rfl

theorem resume_missing (s : SState) (now : Int) (g n : String) (h : Inv s.q) (hk : ¬ hasKey s.q g n) :
    resume s now true g n = (s, some .jobNotFound, []) := by
  unfold resume
  rw [qget_none s.q h g n hk]
  rfl

theorem resume_active (s : SState) (now : Int) (g n : String) (e : Entry)
    (hq : qget s.q g n = .ok e) (hs : e.suspended = false) :
    resume s now true g n = (s, some .jobIsActive, []) := by
  unfold resume
  rw [hq]
  simp [hs]

theorem resume_trigger_error (s : SState) (now : Int) (g n : String) (e : Entry)
    (hq : qget s.q g n = .ok e) (hs : e.suspended = true)
    (hf : ((s.trig e.tag).fire now).1 = none) :
    resume s now true g n = (s.setTrig e.tag ((s.trig e.tag).fire now).2, some .triggerError,
      [{ tag := e.tag, prev := now, result := none }]) := by
  unfold resume
  rw [hq]
  simp only [hs, Bool.not_true, Bool.false_eq_true, if_false]
  simp only [hf]

theorem resume_ok (s : SState) (now : Int) (g n : String) (e : Entry) (p : Int) (h : Inv s.q)
    (hq : qget s.q g n = .ok e) (hs : e.suspended = true)
    (hf : ((s.trig e.tag).fire now).1 = some p) :
    ∃ q1, qremove s.q g n = .ok (q1, e) ∧ s.q.toList.Perm (e :: q1.toList) ∧ Inv q1 ∧
      ¬ hasKey q1 g n ∧ Inv (hpush q1 (resumedOf e p)) ∧
      resume s now true g n =
        ({ (s.setTrig e.tag ((s.trig e.tag).fire now).2) with q := hpush q1 (resumedOf e p) }, none,
          [{ tag := e.tag, prev := now, result := some p }]) := by
  obtain ⟨q1, hr, hperm, hinv, hnk⟩ := qremove_of_qget s.q h g n e hq
  obtain ⟨_, hg, hn⟩ := qget_ok s.q h g n e hq
  have hnk' : ¬ hasKey q1 (resumedOf e p).group (resumedOf e p).name := by
    show ¬ hasKey q1 e.group e.name
    rw [hg, hn]; exact hnk
  obtain ⟨hpush_ok, _, hinv2⟩ := qpush_new q1 (resumedOf e p) hinv hnk'
  refine ⟨q1, hr, hperm, hinv, hnk, hinv2, ?_⟩
  unfold resume
  rw [hq]
  simp only [hs, Bool.not_true, Bool.false_eq_true, if_false]
  simp only [hf, setTrig_q, hr]
  show (match qpush q1 (resumedOf e p) with
    | .ok q'' => (({ (s.setTrig e.tag ((s.trig e.tag).fire now).2) with q := q'' } : SState), (none : Option SErr), _)
    | .error e' => ({ (s.setTrig e.tag ((s.trig e.tag).fire now).2) with q := q1 }, some (ofQErr e'), _)) = _
  rw [hpush_ok]

/-! ## the dispatch step -/

theorem step_empty (s : SState) (now thr : Int) (h : s.q.size = 0) : step s now thr = (s, {}) := by
  unfold step
  rw [qpop_empty _ h]

theorem classify_cases (e : Entry) (now thr : Int) :
    (classify e now thr = .suspended ∧ e.suspended = true) ∨
    (classify e now thr = .outdated ∧ e.suspended = false ∧ e.prio < now - thr) ∨
    (classify e now thr = .notDue ∧ e.suspended = false ∧ now - thr ≤ e.prio ∧ now < e.prio) ∨
    (classify e now thr = .valid ∧ e.suspended = false ∧ now - thr ≤ e.prio ∧ e.prio ≤ now) := by
  unfold classify
  split
  · left; exact ⟨rfl, by assumption⟩
  · right
    have hs : e.suspended = false := by simpa using ‹¬ e.suspended = true›
    split
    · left; exact ⟨rfl, hs, by assumption⟩
    · right
      split
      · left; exact ⟨rfl, hs, by omega, by omega⟩
      · right; exact ⟨rfl, hs, by omega, by omega⟩

/-- what the step asks the trigger, if it asks: `valid` → the scheduled fire time, `outdated` → the clock -/
def askedWith (e : Entry) (now thr : Int) : Option Int :=
  match classify e now thr with
  | .valid => some e.prio
  | .outdated => some now
  | _ => none

/-- the priority an entry is put back with when the trigger is not asked -/
def keptPrio (e : Entry) (now thr : Int) : Int :=
  match classify e now thr with
  | .suspended => maxInt64
  | _ => e.prio

/-- the part of `StepOut` that is fixed by the popped entry and its class -/
def outBase (e : Entry) (now thr : Int) (calls : List TrigCall) : StepOut :=
  { popped := some e, cls := some (classify e now thr), dispatched := classify e now thr == .valid,
    misfired := classify e now thr == .outdated, calls := calls }

/-- suspended / not due: the entry goes back, no trigger call -/
theorem step_noask (s : SState) (now thr : Int) (q1 : Arr) (e : Entry)
    (hp : qpop s.q = .ok (q1, e)) (hnk : ¬ hasKey q1 e.group e.name) (hi : Inv q1)
    (ha : askedWith e now thr = none) :
    step s now thr = ({ s with q := hpush q1 { e with prio := keptPrio e now thr } },
      { outBase e now thr [] with pushed := some { e with prio := keptPrio e now thr } }) := by
  unfold step
  rw [hp]
  unfold askedWith at ha
  unfold keptPrio outBase
  cases hc : classify e now thr <;> simp only [hc] at ha ⊢
  · rw [(qpush_new q1 { e with prio := maxInt64 } hi hnk).1]
  · cases ha
  · rw [(qpush_new q1 { e with prio := e.prio } hi hnk).1]
  · cases ha

/-- valid / outdated: the trigger is asked with `pv`; answer `none` → the entry is not put back -/
theorem step_ask (s : SState) (now thr : Int) (q1 : Arr) (e : Entry) (pv : Int)
    (hp : qpop s.q = .ok (q1, e)) (hnk : ¬ hasKey q1 e.group e.name) (hi : Inv q1)
    (ha : askedWith e now thr = some pv) :
    step s now thr =
      match ((s.trig e.tag).fire pv).1 with
      | none => (({ s with q := q1 } : SState).setTrig e.tag ((s.trig e.tag).fire pv).2,
          outBase e now thr [{ tag := e.tag, prev := pv, result := none }])
      | some p => ({ (({ s with q := q1 } : SState).setTrig e.tag ((s.trig e.tag).fire pv).2) with
            q := hpush q1 { e with prio := p } },
          { outBase e now thr [{ tag := e.tag, prev := pv, result := some p }] with
            pushed := some { e with prio := p } }) := by
  unfold step
  rw [hp]
  unfold askedWith at ha
  unfold outBase
  cases hc : classify e now thr <;> simp only [hc] at ha ⊢
  · cases ha
  · injection ha with ha
    subst ha
    simp only [trig_with_q]
    cases hf : ((s.trig e.tag).fire now).1 with
    | none => rfl
    | some p =>
      simp only [setTrig_q]
      rw [(qpush_new q1 { e with prio := p } hi hnk).1]
  · cases ha
  · injection ha with ha
    subst ha
    simp only [trig_with_q]
    cases hf : ((s.trig e.tag).fire e.prio).1 with
    | none => rfl
    | some p =>
      simp only [setTrig_q]
      rw [(qpush_new q1 { e with prio := p } hi hnk).1]

theorem step_ask_none (s : SState) (now thr : Int) (q1 : Arr) (e : Entry) (pv : Int)
    (hp : qpop s.q = .ok (q1, e)) (hnk : ¬ hasKey q1 e.group e.name) (hi : Inv q1)
    (ha : askedWith e now thr = some pv) (hf : ((s.trig e.tag).fire pv).1 = none) :
    step s now thr = (({ s with q := q1 } : SState).setTrig e.tag ((s.trig e.tag).fire pv).2,
          outBase e now thr [{ tag := e.tag, prev := pv, result := none }]) := by
  rw [step_ask s now thr q1 e pv hp hnk hi ha, hf]

theorem step_ask_some (s : SState) (now thr : Int) (q1 : Arr) (e : Entry) (pv p : Int)
    (hp : qpop s.q = .ok (q1, e)) (hnk : ¬ hasKey q1 e.group e.name) (hi : Inv q1)
    (ha : askedWith e now thr = some pv) (hf : ((s.trig e.tag).fire pv).1 = some p) :
    step s now thr = ({ (({ s with q := q1 } : SState).setTrig e.tag ((s.trig e.tag).fire pv).2) with
            q := hpush q1 { e with prio := p } },
          { outBase e now thr [{ tag := e.tag, prev := pv, result := some p }] with
            pushed := some { e with prio := p } }) := by
  rw [step_ask s now thr q1 e pv hp hnk hi ha, hf]

/-- the complete outcome table of one loop step on a well-formed queue -/
theorem step_cases (s : SState) (now thr : Int) (h : Inv s.q) :
    (s.q.size = 0 ∧ step s now thr = (s, {})) ∨
    ∃ q1 e, qpop s.q = .ok (q1, e) ∧ s.q.toList.Perm (e :: q1.toList) ∧ Inv q1 ∧
      (∀ x ∈ s.q.toList, e.prio ≤ x.prio) ∧ ¬ hasKey q1 e.group e.name ∧
      ((askedWith e now thr = none ∧
          step s now thr = ({ s with q := hpush q1 { e with prio := keptPrio e now thr } },
            { outBase e now thr [] with pushed := some { e with prio := keptPrio e now thr } })) ∨
       (∃ pv, askedWith e now thr = some pv ∧ ((s.trig e.tag).fire pv).1 = none ∧
          step s now thr = (({ s with q := q1 } : SState).setTrig e.tag ((s.trig e.tag).fire pv).2,
            outBase e now thr [{ tag := e.tag, prev := pv, result := none }])) ∨
       (∃ pv p, askedWith e now thr = some pv ∧ ((s.trig e.tag).fire pv).1 = some p ∧
          step s now thr =
            ({ (({ s with q := q1 } : SState).setTrig e.tag ((s.trig e.tag).fire pv).2) with
                q := hpush q1 { e with prio := p } },
              { outBase e now thr [{ tag := e.tag, prev := pv, result := some p }] with
                pushed := some { e with prio := p } }))) := by
  by_cases hne : s.q.size = 0
  · exact Or.inl ⟨hne, step_empty s now thr hne⟩
  · right
    obtain ⟨q1, e, hp, hperm, hi, hmin, hnk⟩ := qpop_spec s.q h hne
    refine ⟨q1, e, hp, hperm, hi, hmin, hnk, ?_⟩
    cases ha : askedWith e now thr with
    | none => exact Or.inl ⟨rfl, step_noask s now thr q1 e hp hnk hi ha⟩
    | some pv =>
      cases hf : ((s.trig e.tag).fire pv).1 with
      | none => exact Or.inr (Or.inl ⟨pv, rfl, hf, step_ask_none s now thr q1 e pv hp hnk hi ha hf⟩)
      | some p => exact Or.inr (Or.inr ⟨pv, p, rfl, hf, step_ask_some s now thr q1 e pv p hp hnk hi ha hf⟩)

theorem inv_hpush_rest {q1 : Arr} {e : Entry} (hi : Inv q1) (hnk : ¬ hasKey q1 e.group e.name) (p : Int) :
    Inv (hpush q1 { e with prio := p }) :=
  (qpush_new q1 { e with prio := p } hi hnk).2.2

/-! ## `Inv` along histories -/

theorem schedule_inv (s : SState) (now : Int) (a : SchedArgs) (h : Inv s.q) :
    Inv (schedule s now a).1.q := by
  rcases schedule_cases s now a with ⟨_, hs⟩ | ⟨_, _, hs⟩ |
    ⟨_, _, t, p, t', calls, _, _, ⟨e, _, hs⟩ | ⟨q', hq, hs⟩⟩
  · rw [hs]; exact h
  · rw [hs]; exact h
  · rw [hs]; exact h
  · rw [hs]; exact qpush_inv s.q q' _ h hq

/-! ## one event, in closed form -/

theorem nodup_of_inv {a : Arr} (h : Inv a) : a.toList.Nodup := by
  have := (keysDistinct_iff_pairwise a).mp h.2
  exact this.imp (fun hk heq => hk (by rw [heq]; exact ⟨rfl, rfl⟩))

theorem mem_erase_iff_of_inv {a : Arr} (h : Inv a) (old x : Entry) :
    x ∈ a.toList.erase old ↔ x ∈ a.toList ∧ x ≠ old := by
  rw [(nodup_of_inv h).mem_erase_iff]
  exact ⟨fun ⟨h1, h2⟩ => ⟨h2, h1⟩, fun ⟨h1, h2⟩ => ⟨h2, h1⟩⟩

/-- state invariant of every reachable state (under `FreshTags`) -/
structure WF (s : SState) : Prop where
  inv : Inv s.q
  tags : TagsDistinct s.q
  susp : ∀ e ∈ s.q.toList, e.suspended = true → e.prio = maxInt64

/-- the part of `WF` that needs no assumption on tags -/
structure WF0 (s : SState) : Prop where
  inv : Inv s.q
  susp : ∀ e ∈ s.q.toList, e.suspended = true → e.prio = maxInt64

theorem WF.wf0 {s : SState} (h : WF s) : WF0 s := ⟨h.inv, h.susp⟩

theorem wf0_empty : WF0 {} := ⟨inv_empty, fun e he => by simp at he⟩

theorem wf_empty : WF {} :=
  ⟨inv_empty, fun x hx => by simp at hx, fun e he => by simp at he⟩

/-- What one event can do, in closed form with the queue seen as a set of entries (which it is, by
`Inv`).  Every constructor is one row of the outcome tables of the operations. -/
inductive Kind (thr : Int) (s : SState) : Ev → SState → Obs → Prop
  /-- nothing visible: failed precondition, empty queue, or a popped entry put back as it was -/
  | idle (ev : Ev) (s' : SState) (o : Obs) (hmem : ∀ x, x ∈ s'.q.toList ↔ x ∈ s.q.toList)
      (hinv : Inv s'.q) (htr : s'.trigs = s.trigs) (hcalls : o.calls = [])
      (hdisp : ∀ pos, o.disp? pos = none)
      (hpop : ∀ out e, o.out = some out → out.popped = some e → e ∈ s.q.toList)
      (herr : ∀ now a, ev = .schedule now a → o.err ≠ none) : Kind thr s ev s' o
  /-- `ScheduleJob` asked its (new) trigger and then failed -/
  | schedFail (now : Int) (a : SchedArgs) (r : Option Int) (err : SErr) :
      Kind thr s (.schedule now a) s { err := some err, calls := [⟨a.tag, now, r⟩] }
  /-- `ScheduleJob` succeeded: `old` (same key, only with Replace) leaves, the new entry enters -/
  | sched (now : Int) (a : SchedArgs) (t t' : Trig) (p : Int) (calls : List TrigCall) (q' : Arr)
      (old : Option Entry) (hl : ¬ a.illegal) (ht : a.trig = some t)
      (hpc : (a.suspended = true ∧ p = maxInt64 ∧ t' = t ∧ calls = []) ∨
        (a.suspended = false ∧ (t.fire now).1 = some p ∧ t' = (t.fire now).2 ∧
          calls = [⟨a.tag, now, some p⟩]))
      (hold : ∀ o, old = some o → o ∈ s.q.toList ∧ o.group = a.group ∧ o.name = a.name ∧ a.replace = true)
      (hnew : old = none → ¬ hasKey s.q a.group a.name)
      (hmem : ∀ x, x ∈ q'.toList ↔ x = a.entry p ∨ (x ∈ s.q.toList ∧ old ≠ some x))
      (hinv : Inv q') :
      Kind thr s (.schedule now a) (({ s with q := q' } : SState).setTrig a.tag t')
        { err := none, calls := calls }
  /-- `DeleteJob` succeeded -/
  | del (g n : String) (e : Entry) (q1 : Arr) (he : e ∈ s.q.toList) (hg : e.group = g) (hn : e.name = n)
      (hmem : ∀ x, x ∈ q1.toList ↔ x ∈ s.q.toList ∧ x ≠ e) (hinv : Inv q1) :
      Kind thr s (.delete true g n) { s with q := q1 } {}
  /-- `PauseJob` succeeded -/
  | pause (g n : String) (e : Entry) (q1 : Arr) (he : e ∈ s.q.toList) (hg : e.group = g) (hn : e.name = n)
      (hs : e.suspended = false)
      (hmem : ∀ x, x ∈ q1.toList ↔ x ∈ s.q.toList ∧ x ≠ e) (hinv : Inv (hpush q1 (pausedOf e))) :
      Kind thr s (.pause true g n) { s with q := hpush q1 (pausedOf e) } {}
  /-- `ResumeJob`: the trigger answered with an error; the entry stays paused -/
  | resumeFail (now : Int) (g n : String) (e : Entry) (he : e ∈ s.q.toList) (hg : e.group = g)
      (hn : e.name = n) (hs : e.suspended = true) (hf : ((s.trig e.tag).fire now).1 = none) :
      Kind thr s (.resume now true g n) (s.setTrig e.tag ((s.trig e.tag).fire now).2)
        { err := some .triggerError, calls := [⟨e.tag, now, none⟩] }
  /-- `ResumeJob` succeeded -/
  | resume (now : Int) (g n : String) (e : Entry) (p : Int) (q1 : Arr) (he : e ∈ s.q.toList)
      (hg : e.group = g) (hn : e.name = n) (hs : e.suspended = true)
      (hf : ((s.trig e.tag).fire now).1 = some p)
      (hmem : ∀ x, x ∈ q1.toList ↔ x ∈ s.q.toList ∧ x ≠ e) (hinv : Inv (hpush q1 (resumedOf e p))) :
      Kind thr s (.resume now true g n)
        { (s.setTrig e.tag ((s.trig e.tag).fire now).2) with q := hpush q1 (resumedOf e p) }
        { err := none, calls := [⟨e.tag, now, some p⟩] }
  /-- `Clear` -/
  | clear : Kind thr s .clear { s with q := #[] } {}
  /-- a step popped a valid / outdated entry, asked its trigger with `pv`, got answer `r` -/
  | stepAsk (now : Int) (e : Entry) (q1 : Arr) (pv : Int) (r : Option Int) (q' : Arr)
      (he : e ∈ s.q.toList) (hmin : ∀ x ∈ s.q.toList, e.prio ≤ x.prio)
      (ha : askedWith e now thr = some pv) (hf : ((s.trig e.tag).fire pv).1 = r)
      (hmem1 : ∀ x, x ∈ q1.toList ↔ x ∈ s.q.toList ∧ x ≠ e)
      (hq' : (r = none ∧ q' = q1) ∨ (∃ p, r = some p ∧ q' = hpush q1 { e with prio := p }))
      (hinv : Inv q') :
      Kind thr s (.step now)
        { (({ s with q := q1 } : SState).setTrig e.tag ((s.trig e.tag).fire pv).2) with q := q' }
        { calls := [⟨e.tag, pv, r⟩],
          out := some { outBase e now thr [⟨e.tag, pv, r⟩] with
            pushed := r.map (fun p => { e with prio := p }) } }

theorem askedWith_none_iff (e : Entry) (now thr : Int) :
    askedWith e now thr = none ↔ classify e now thr = .suspended ∨ classify e now thr = .notDue := by
  unfold askedWith
  cases classify e now thr <;> simp

theorem kept_eq_self (s : SState) (hwf : WF0 s) (e : Entry) (he : e ∈ s.q.toList) (now thr : Int) :
    ({ e with prio := keptPrio e now thr } : Entry) = e := by
  have : keptPrio e now thr = e.prio := by
    unfold keptPrio
    rcases classify_cases e now thr with ⟨hc, hs⟩ | ⟨hc, _⟩ | ⟨hc, _⟩ | ⟨hc, _⟩ <;> rw [hc]
    exact (hwf.susp e he hs).symm
  rw [this]

theorem apply_kind (thr : Int) (s : SState) (hwf : WF0 s) (ev : Ev) :
    Kind thr s ev (apply thr s ev).1 (apply thr s ev).2 := by
  have h := hwf.inv
  cases ev with
  | schedule now a =>
    show Kind thr s _ (schedule s now a).1 { err := (schedule s now a).2.1, calls := (schedule s now a).2.2 }
    rcases schedule_cases s now a with ⟨_, hs⟩ | ⟨_, _, hs⟩ |
      ⟨hl, _, t, p, t', calls, ht, hpc, ⟨e, _, hs⟩ | ⟨q', hq, hs⟩⟩
    · rw [hs]
      exact .idle _ _ _ (fun _ => Iff.rfl) h rfl rfl (fun _ => rfl) (fun _ _ hh => by cases hh)
        (fun _ _ _ hh => by cases hh)
    · rw [hs]; exact .schedFail now a none _
    · rw [hs]
      rcases hpc with ⟨_, _, _, hc⟩ | ⟨_, _, _, hc⟩
      · subst hc
        exact .idle _ _ _ (fun _ => Iff.rfl) h rfl rfl (fun _ => rfl) (fun _ _ hh => by cases hh)
          (fun _ _ _ hh => by cases hh)
      · subst hc; exact .schedFail now a (some p) _
    · rw [hs]
      rcases sched_push_cases s.q a p h with ⟨hq', _, _⟩ | ⟨hk, hq'⟩ | ⟨hr, old, q'', ho, hg, hn, hq', hperm⟩
      · rw [hq] at hq'; cases hq'
      · rw [hq] at hq'
        injection hq' with hq'
        subst hq'
        refine .sched now a t t' p calls _ none hl ht hpc (fun _ hh => by cases hh) (fun _ => hk) ?_
          (qpush_new s.q _ h hk).2.2
        intro x
        rw [mem_hpush_iff]
        simp
      · rw [hq] at hq'
        injection hq' with hq'
        subst hq'
        refine .sched now a t t' p calls _ (some old) hl ht hpc ?_ (fun hh => by cases hh) ?_
          (qpush_inv s.q _ _ h hq)
        · intro o ho'
          injection ho' with ho'
          subst ho'
          exact ⟨ho, hg, hn, hr⟩
        · intro x
          rw [hperm.mem_iff, List.mem_cons, mem_erase_iff_of_inv h]
          constructor
          · rintro (h1 | ⟨h1, h2⟩)
            · exact Or.inl h1
            · exact Or.inr ⟨h1, fun hh => h2 (Option.some.inj hh).symm⟩
          · rintro (h1 | ⟨h1, h2⟩)
            · exact Or.inl h1
            · exact Or.inr ⟨h1, fun hh => h2 (by rw [hh])⟩
  | delete hk g n =>
    show Kind thr s _ (delete s hk g n).1 { err := (delete s hk g n).2 }
    cases hk with
    | false =>
      rw [delete_nokey]
      exact .idle _ _ _ (fun _ => Iff.rfl) h rfl rfl (fun _ => rfl) (fun _ _ hh => by cases hh)
        (fun _ _ hh => by cases hh)
    | true =>
      by_cases hkey : hasKey s.q g n
      · obtain ⟨q1, e, _, hg, hn, he, hperm, hinv, _, hd⟩ := delete_present s g n h hkey
        rw [hd]
        exact .del g n e q1 he hg hn (mem_rest_iff h hperm) hinv
      · rw [delete_missing s g n h hkey]
        exact .idle _ _ _ (fun _ => Iff.rfl) h rfl rfl (fun _ => rfl) (fun _ _ hh => by cases hh)
          (fun _ _ hh => by cases hh)
  | pause hk g n =>
    show Kind thr s _ (pause s hk g n).1 { err := (pause s hk g n).2 }
    cases hk with
    | false =>
      rw [pause_nokey]
      exact .idle _ _ _ (fun _ => Iff.rfl) h rfl rfl (fun _ => rfl) (fun _ _ hh => by cases hh)
        (fun _ _ hh => by cases hh)
    | true =>
      by_cases hkey : hasKey s.q g n
      · obtain ⟨e, hq, he, hg, hn⟩ := qget_spec s.q h g n hkey
        cases hs : e.suspended with
        | true =>
          rw [pause_suspended s g n e hq hs]
          exact .idle _ _ _ (fun _ => Iff.rfl) h rfl rfl (fun _ => rfl) (fun _ _ hh => by cases hh)
            (fun _ _ hh => by cases hh)
        | false =>
          obtain ⟨q1, _, hperm, _, _, hinv2, hp⟩ := pause_active s g n e h hq hs
          rw [hp]
          exact .pause g n e q1 he hg hn hs (mem_rest_iff h hperm) hinv2
      · rw [pause_missing s g n h hkey]
        exact .idle _ _ _ (fun _ => Iff.rfl) h rfl rfl (fun _ => rfl) (fun _ _ hh => by cases hh)
          (fun _ _ hh => by cases hh)
  | resume now hk g n =>
    show Kind thr s _ (resume s now hk g n).1
      { err := (resume s now hk g n).2.1, calls := (resume s now hk g n).2.2 }
    cases hk with
    | false =>
      rw [resume_nokey]
      exact .idle _ _ _ (fun _ => Iff.rfl) h rfl rfl (fun _ => rfl) (fun _ _ hh => by cases hh)
        (fun _ _ hh => by cases hh)
    | true =>
      by_cases hkey : hasKey s.q g n
      · obtain ⟨e, hq, he, hg, hn⟩ := qget_spec s.q h g n hkey
        cases hs : e.suspended with
        | false =>
          rw [resume_active s now g n e hq hs]
          exact .idle _ _ _ (fun _ => Iff.rfl) h rfl rfl (fun _ => rfl) (fun _ _ hh => by cases hh)
            (fun _ _ hh => by cases hh)
        | true =>
          cases hf : ((s.trig e.tag).fire now).1 with
          | none =>
            rw [resume_trigger_error s now g n e hq hs hf]
            exact .resumeFail now g n e he hg hn hs hf
          | some p =>
            obtain ⟨q1, _, hperm, _, _, hinv2, hp⟩ := resume_ok s now g n e p h hq hs hf
            rw [hp]
            exact .resume now g n e p q1 he hg hn hs hf (mem_rest_iff h hperm) hinv2
      · rw [resume_missing s now g n h hkey]
        exact .idle _ _ _ (fun _ => Iff.rfl) h rfl rfl (fun _ => rfl) (fun _ _ hh => by cases hh)
          (fun _ _ hh => by cases hh)
  | clear => exact .clear
  | step now =>
    show Kind thr s _ (step s now thr).1 { calls := (step s now thr).2.calls, out := some (step s now thr).2 }
    rcases step_cases s now thr h with ⟨_, hs⟩ | ⟨q1, e, _, hperm, hi, hmin, hnk, hs | ⟨pv, ha, hf, hs⟩ | ⟨pv, p, ha, hf, hs⟩⟩
    · rw [hs]
      exact .idle _ _ _ (fun _ => Iff.rfl) h rfl rfl (fun _ => rfl)
        (fun _ _ hh hp => by injection hh with hh; subst hh; cases hp)
        (fun _ _ hh => by cases hh)
    · obtain ⟨ha, hs⟩ := hs
      have he : e ∈ s.q.toList := hperm.mem_iff.mpr List.mem_cons_self
      rw [hs, kept_eq_self s hwf e he]
      refine .idle _ _ _ ?_ ?_ rfl rfl ?_ ?_ (fun _ _ hh => by cases hh)
      · intro x
        show x ∈ (hpush q1 e).toList ↔ _
        rw [mem_hpush_iff, mem_rest_iff h hperm]
        constructor
        · rintro (rfl | ⟨h1, _⟩)
          · exact he
          · exact h1
        · intro hx
          by_cases hxe : x = e
          · exact Or.inl hxe
          · exact Or.inr ⟨hx, hxe⟩
      · have := inv_hpush_rest hi hnk e.prio
        exact this
      · intro pos
        have hc := (askedWith_none_iff e now thr).mp ha
        unfold Obs.disp? outBase
        rcases hc with hc | hc <;> simp [hc]
      · intro out e' hh hp
        injection hh with hh
        subst hh
        injection hp with hp
        subst hp
        exact he
    · rw [hs]
      have he : e ∈ s.q.toList := hperm.mem_iff.mpr List.mem_cons_self
      exact .stepAsk now e q1 pv none q1 he hmin ha hf (mem_rest_iff h hperm) (Or.inl ⟨rfl, rfl⟩) hi
    · rw [hs]
      have he : e ∈ s.q.toList := hperm.mem_iff.mpr List.mem_cons_self
      exact .stepAsk now e q1 pv (some p) _ he hmin ha hf (mem_rest_iff h hperm)
        (Or.inr ⟨p, rfl, rfl⟩) (inv_hpush_rest hi hnk p)

/-! ## `Inv` along histories (no assumption on tags) -/

theorem apply_inv (thr : Int) (s : SState) (ev : Ev) (h : Inv s.q) : Inv (apply thr s ev).1.q := by
  cases ev with
  | schedule now a => exact schedule_inv s now a h
  | delete hk g n =>
    show Inv (delete s hk g n).1.q
    cases hk with
    | false => exact h
    | true =>
      by_cases hkey : hasKey s.q g n
      · obtain ⟨q1, e, _, _, _, _, _, hinv, _, hd⟩ := delete_present s g n h hkey
        rw [hd]; exact hinv
      · rw [delete_missing s g n h hkey]; exact h
  | pause hk g n =>
    show Inv (pause s hk g n).1.q
    cases hk with
    | false => exact h
    | true =>
      by_cases hkey : hasKey s.q g n
      · obtain ⟨e, hq, he, hg, hn⟩ := qget_spec s.q h g n hkey
        cases hs : e.suspended with
        | true => rw [pause_suspended s g n e hq hs]; exact h
        | false =>
          obtain ⟨q1, _, _, _, _, hinv2, hp⟩ := pause_active s g n e h hq hs
          rw [hp]; exact hinv2
      · rw [pause_missing s g n h hkey]; exact h
  | resume now hk g n =>
    show Inv (resume s now hk g n).1.q
    cases hk with
    | false => exact h
    | true =>
      by_cases hkey : hasKey s.q g n
      · obtain ⟨e, hq, he, hg, hn⟩ := qget_spec s.q h g n hkey
        cases hs : e.suspended with
        | false => rw [resume_active s now g n e hq hs]; exact h
        | true =>
          cases hf : ((s.trig e.tag).fire now).1 with
          | none => rw [resume_trigger_error s now g n e hq hs hf]; exact h
          | some p =>
            obtain ⟨q1, _, _, _, _, hinv2, hp⟩ := resume_ok s now g n e p h hq hs hf
            rw [hp]; exact hinv2
      · rw [resume_missing s now g n h hkey]; exact h
  | clear => exact inv_empty
  | step now =>
    show Inv (step s now thr).1.q
    rcases step_cases s now thr h with ⟨_, hs⟩ | ⟨q1, e, _, hperm, hi, hmin, hnk, ⟨_, hs⟩ | ⟨pv, ha, hf, hs⟩ | ⟨pv, p, ha, hf, hs⟩⟩
    · rw [hs]; exact h
    · rw [hs]; exact inv_hpush_rest hi hnk _
    · rw [hs]; exact hi
    · rw [hs]; exact inv_hpush_rest hi hnk _

theorem run_inv (thr : Int) (evs : List Ev) (s : SState) (h : Inv s.q) : Inv (run thr s evs).1.q := by
  induction evs generalizing s with
  | nil => exact h
  | cons ev evs ih => exact ih _ (apply_inv thr s ev h)

/-! ## `run` -/

@[simp] theorem run_nil (thr : Int) (s : SState) : run thr s [] = (s, []) := rfl

theorem run_cons (thr : Int) (s : SState) (ev : Ev) (evs : List Ev) :
    run thr s (ev :: evs) =
      ((run thr (apply thr s ev).1 evs).1, (apply thr s ev).2 :: (run thr (apply thr s ev).1 evs).2) := rfl

theorem run_append (thr : Int) (s : SState) (evs1 evs2 : List Ev) :
    run thr s (evs1 ++ evs2) =
      ((run thr (run thr s evs1).1 evs2).1, (run thr s evs1).2 ++ (run thr (run thr s evs1).1 evs2).2) := by
  induction evs1 generalizing s with
  | nil => rfl
  | cons ev evs ih =>
    rw [List.cons_append, run_cons, ih, run_cons]
    rfl

theorem run_length (thr : Int) (s : SState) (evs : List Ev) : (run thr s evs).2.length = evs.length := by
  induction evs generalizing s with
  | nil => rfl
  | cons ev evs ih => rw [run_cons]; simp [ih]

/-! ## the reachable-state invariant `WF` -/

theorem tagsDistinct_put {q q' : Arr} (hd : TagsDistinct q) (rem : Option Entry) (ne : Entry)
    (hmem : ∀ x, x ∈ q'.toList ↔ x = ne ∨ (x ∈ q.toList ∧ rem ≠ some x))
    (htag : ∀ x ∈ q.toList, x.tag = ne.tag → rem = some x) : TagsDistinct q' := by
  intro x hx y hy hxy
  rcases (hmem x).mp hx with rfl | ⟨hx1, hx2⟩ <;> rcases (hmem y).mp hy with rfl | ⟨hy1, hy2⟩
  · rfl
  · exact absurd (htag y hy1 hxy.symm) hy2
  · exact absurd (htag x hx1 hxy) hx2
  · exact hd x hx1 y hy1 hxy

theorem tagsDistinct_sub {q q' : Arr} (hd : TagsDistinct q) (hsub : ∀ x ∈ q'.toList, x ∈ q.toList) :
    TagsDistinct q' :=
  fun x hx y hy hxy => hd x (hsub x hx) y (hsub y hy) hxy

/-- swap form: `e` leaves, `ne` (same tag) enters -/
theorem mem_swap {q q1 : Arr} {e ne : Entry} (hmem : ∀ x, x ∈ q1.toList ↔ x ∈ q.toList ∧ x ≠ e) (x : Entry) :
    x ∈ (hpush q1 ne).toList ↔ x = ne ∨ (x ∈ q.toList ∧ some e ≠ some x) := by
  rw [mem_hpush_iff, hmem]
  constructor
  · rintro (h1 | ⟨h1, h2⟩)
    · exact Or.inl h1
    · exact Or.inr ⟨h1, fun hh => h2 (Option.some.inj hh).symm⟩
  · rintro (h1 | ⟨h1, h2⟩)
    · exact Or.inl h1
    · exact Or.inr ⟨h1, fun hh => h2 (by rw [hh])⟩

theorem wf_swap {s : SState} (hwf : WF s) {q1 : Arr} {e ne : Entry} (tr : List (Nat × Trig))
    (he : e ∈ s.q.toList)
    (hmem : ∀ x, x ∈ q1.toList ↔ x ∈ s.q.toList ∧ x ≠ e) (hinv : Inv (hpush q1 ne))
    (htag : ne.tag = e.tag) (hsusp : ne.suspended = true → ne.prio = maxInt64) :
    WF { q := hpush q1 ne, trigs := tr } := by
  refine ⟨hinv, ?_, ?_⟩
  · apply tagsDistinct_put hwf.tags (some e) ne (mem_swap hmem)
    intro x hx hxt
    rw [hwf.tags x hx e he (by rw [hxt, htag])]
  · intro x hx hs
    rcases (mem_swap hmem x).mp hx with rfl | ⟨h1, _⟩
    · exact hsusp hs
    · exact hwf.susp x h1 hs

theorem wf_rest {s : SState} (hwf : WF s) {q1 : Arr} {e : Entry} (tr : List (Nat × Trig))
    (hmem : ∀ x, x ∈ q1.toList ↔ x ∈ s.q.toList ∧ x ≠ e) (hinv : Inv q1) :
    WF { q := q1, trigs := tr } :=
  ⟨hinv, tagsDistinct_sub hwf.tags (fun x hx => ((hmem x).mp hx).1),
    fun x hx hs => hwf.susp x ((hmem x).mp hx).1 hs⟩

/-- the tag a `schedule` event brings is not carried by an entry yet -/
def FreshEv (s : SState) (ev : Ev) : Prop := ∀ t, ev.schedTag? = some t → ∀ e ∈ s.q.toList, e.tag ≠ t

theorem kind_wf {thr : Int} {s s' : SState} {ev : Ev} {o : Obs} (hwf : WF s) (hfr : FreshEv s ev)
    (hk : Kind thr s ev s' o) : WF s' := by
  cases hk with
  | idle _ _ _ hmem hinv htr hcalls hdisp hpop =>
    exact ⟨hinv, fun x hx y hy => hwf.tags x ((hmem x).mp hx) y ((hmem y).mp hy),
      fun x hx => hwf.susp x ((hmem x).mp hx)⟩
  | schedFail => exact hwf
  | sched now a t t' p calls q' old hl ht hpc hold hnew hmem hinv =>
    refine ⟨hinv, ?_, ?_⟩
    · apply tagsDistinct_put hwf.tags old (a.entry p) hmem
      intro x hx hxt
      exact absurd hxt (hfr a.tag rfl x hx)
    · intro x hx hs
      rcases (hmem x).mp hx with rfl | ⟨h1, _⟩
      · rcases hpc with ⟨_, hp, _, _⟩ | ⟨hs', _, _, _⟩
        · exact hp
        · rw [show (a.entry p).suspended = a.suspended from rfl, hs'] at hs; cases hs
      · exact hwf.susp x h1 hs
  | del g n e q1 he hg hn hmem hinv => exact wf_rest hwf _ hmem hinv
  | pause g n e q1 he hg hn hs hmem hinv => exact wf_swap hwf _ he hmem hinv rfl (fun _ => rfl)
  | resumeFail now g n e he hg hn hs hf => exact ⟨hwf.inv, hwf.tags, hwf.susp⟩
  | resume now g n e p q1 he hg hn hs hf hmem hinv =>
    exact wf_swap hwf _ he hmem hinv rfl (fun hh => by cases hh)
  | clear => exact ⟨inv_empty, fun x hx => by simp at hx, fun e he => by simp at he⟩
  | stepAsk now e q1 pv r q' he hmin ha hf hmem1 hq' hinv =>
    rcases hq' with ⟨_, rfl⟩ | ⟨p, _, rfl⟩
    · exact wf_rest hwf _ hmem1 hinv
    · have hes : e.suspended = false := by
        unfold askedWith at ha
        rcases classify_cases e now thr with ⟨hc, _⟩ | ⟨_, hs, _⟩ | ⟨hc, _⟩ | ⟨_, hs, _⟩
        · rw [hc] at ha; cases ha
        · exact hs
        · rw [hc] at ha; cases ha
        · exact hs
      exact wf_swap hwf _ he hmem1 hinv rfl (fun hh => by rw [show ({ e with prio := p } : Entry).suspended = e.suspended from rfl, hes] at hh; cases hh)

/-- where the tags of the new state come from -/
theorem kind_tags {thr : Int} {s s' : SState} {ev : Ev} {o : Obs} (hk : Kind thr s ev s' o) :
    ∀ x ∈ s'.q.toList, (∃ e ∈ s.q.toList, e.tag = x.tag) ∨ ev.schedTag? = some x.tag := by
  intro x hx
  cases hk with
  | idle _ _ _ hmem => exact Or.inl ⟨x, (hmem x).mp hx, rfl⟩
  | schedFail => exact Or.inl ⟨x, hx, rfl⟩
  | sched now a t t' p calls q' old hl ht hpc hold hnew hmem hinv =>
    rcases (hmem x).mp hx with rfl | ⟨h1, _⟩
    · exact Or.inr rfl
    · exact Or.inl ⟨x, h1, rfl⟩
  | del g n e q1 he hg hn hmem hinv => exact Or.inl ⟨x, ((hmem x).mp hx).1, rfl⟩
  | pause g n e q1 he hg hn hs hmem hinv =>
    rcases (mem_swap hmem x).mp hx with rfl | ⟨h1, _⟩
    · exact Or.inl ⟨e, he, rfl⟩
    · exact Or.inl ⟨x, h1, rfl⟩
  | resumeFail now g n e he hg hn hs hf => exact Or.inl ⟨x, hx, rfl⟩
  | resume now g n e p q1 he hg hn hs hf hmem hinv =>
    rcases (mem_swap hmem x).mp hx with rfl | ⟨h1, _⟩
    · exact Or.inl ⟨e, he, rfl⟩
    · exact Or.inl ⟨x, h1, rfl⟩
  | clear => simp at hx
  | stepAsk now e q1 pv r q' he hmin ha hf hmem1 hq' hinv =>
    rcases hq' with ⟨_, rfl⟩ | ⟨p, _, rfl⟩
    · exact Or.inl ⟨x, ((hmem1 x).mp hx).1, rfl⟩
    · rcases (mem_swap hmem1 x).mp hx with rfl | ⟨h1, _⟩
      · exact Or.inl ⟨e, he, rfl⟩
      · exact Or.inl ⟨x, h1, rfl⟩

theorem schedTags_cons (ev : Ev) (evs : List Ev) :
    schedTags (ev :: evs) = ev.schedTag?.toList ++ schedTags evs := by
  unfold schedTags
  rw [List.filterMap_cons]
  cases ev.schedTag? <;> rfl

theorem schedTags_append (evs1 evs2 : List Ev) :
    schedTags (evs1 ++ evs2) = schedTags evs1 ++ schedTags evs2 := by
  unfold schedTags
  exact List.filterMap_append

theorem fresh_cons {thr : Int} {s s' : SState} {ev : Ev} {evs : List Ev} {o : Obs}
    (hft : FreshTags (ev :: evs)) (hff : FreshFor s (ev :: evs)) (hk : Kind thr s ev s' o) :
    FreshEv s ev ∧ FreshTags evs ∧ FreshFor s' evs := by
  unfold FreshTags at hft
  unfold FreshFor at hff
  rw [schedTags_cons] at hft hff
  refine ⟨?_, ?_, ?_⟩
  · intro t ht
    exact hff t (List.mem_append_left _ (by rw [ht]; simp))
  · exact (List.nodup_append.mp hft).2.1
  · intro t ht x hx
    rcases kind_tags hk x hx with ⟨e, he, het⟩ | hst
    · rw [← het]; exact hff t (List.mem_append_right _ ht) e he
    · exact (List.nodup_append.mp hft).2.2 x.tag (by rw [hst]; simp) t ht

theorem freshFor_empty (evs : List Ev) : FreshFor {} evs := fun _ _ e he => by simp at he

theorem run_wf (thr : Int) (evs : List Ev) (s : SState) (hwf : WF s) (hft : FreshTags evs)
    (hff : FreshFor s evs) : WF (run thr s evs).1 := by
  induction evs generalizing s with
  | nil => exact hwf
  | cons ev evs ih =>
    have hk := apply_kind thr s hwf.wf0 ev
    obtain ⟨h1, h2, h3⟩ := fresh_cons hft hff hk
    exact ih _ (kind_wf hwf h1 hk) h2 h3

theorem freshTags_append_left {evs1 evs2 : List Ev} (h : FreshTags (evs1 ++ evs2)) : FreshTags evs1 := by
  unfold FreshTags at h ⊢
  rw [schedTags_append] at h
  exact (List.nodup_append.mp h).1

/-- running a prefix keeps the rest of the history fresh -/
theorem run_fresh (thr : Int) (evs1 evs2 : List Ev) (s : SState) (hwf : WF s)
    (hft : FreshTags (evs1 ++ evs2)) (hff : FreshFor s (evs1 ++ evs2)) :
    WF (run thr s evs1).1 ∧ FreshTags evs2 ∧ FreshFor (run thr s evs1).1 evs2 := by
  induction evs1 generalizing s with
  | nil => exact ⟨hwf, hft, hff⟩
  | cons ev evs ih =>
    have hk := apply_kind thr s hwf.wf0 ev
    obtain ⟨h1, h2, h3⟩ := fresh_cons hft hff hk
    exact ih _ (kind_wf hwf h1 hk) h2 h3

/-- the trigger call a step makes, as a function of the popped entry (no assumption on the queue) -/
def stepCalls (s : SState) (e : Entry) (now thr : Int) : List TrigCall :=
  match askedWith e now thr with
  | none => []
  | some pv => [⟨e.tag, pv, ((s.trig e.tag).fire pv).1⟩]

/-- the observable part of a step that does not depend on the queue being well-formed -/
theorem step_out_basic (s : SState) (now thr : Int) :
    ((∃ err, qpop s.q = .error err) ∧ step s now thr = (s, {})) ∨
    ∃ q1 e, qpop s.q = .ok (q1, e) ∧ (step s now thr).2.popped = some e ∧
      (step s now thr).2.cls = some (classify e now thr) ∧
      (step s now thr).2.dispatched = (classify e now thr == .valid) ∧
      (step s now thr).2.misfired = (classify e now thr == .outdated) ∧
      (step s now thr).2.calls = stepCalls s e now thr := by
  cases hp : qpop s.q with
  | error err =>
    left
    refine ⟨⟨err, rfl⟩, ?_⟩
    unfold step
    rw [hp]
  | ok r =>
    obtain ⟨q1, e⟩ := r
    right
    refine ⟨q1, e, rfl, ?_⟩
    unfold step stepCalls askedWith
    rw [hp]
    cases hc : classify e now thr <;> simp only [hc]
    · split <;> exact ⟨rfl, rfl, rfl, rfl, rfl⟩
    · simp only [trig_with_q]
      cases hf : ((s.trig e.tag).fire now).1 with
      | none => exact ⟨rfl, rfl, rfl, rfl, by simp⟩
      | some p => simp only []; split <;> exact ⟨rfl, rfl, rfl, rfl, by simp⟩
    · split <;> exact ⟨rfl, rfl, rfl, rfl, rfl⟩
    · simp only [trig_with_q]
      cases hf : ((s.trig e.tag).fire e.prio).1 with
      | none => exact ⟨rfl, rfl, rfl, rfl, by simp⟩
      | some p => simp only []; split <;> exact ⟨rfl, rfl, rfl, rfl, by simp⟩

/-! ## generic facts about one event (all by cases on `Kind`) -/

theorem askedWith_some_active {e : Entry} {now thr pv : Int} (ha : askedWith e now thr = some pv) :
    e.suspended = false ∧
    ((classify e now thr = .valid ∧ pv = e.prio ∧ now - thr ≤ e.prio ∧ e.prio ≤ now) ∨
     (classify e now thr = .outdated ∧ pv = now ∧ e.prio < now - thr)) := by
  unfold askedWith at ha
  rcases classify_cases e now thr with ⟨hc, _⟩ | ⟨hc, hs, h3⟩ | ⟨hc, _⟩ | ⟨hc, hs, h3, h4⟩ <;>
    rw [hc] at ha
  · cases ha
  · injection ha with ha; exact ⟨hs, Or.inr ⟨hc, ha.symm, h3⟩⟩
  · cases ha
  · injection ha with ha; exact ⟨hs, Or.inl ⟨hc, ha.symm, h3, h4⟩⟩

theorem disp_stepAsk (e : Entry) (now thr : Int) (calls c : List TrigCall) (pushed : Option Entry)
    (pos : Nat) :
    Obs.disp? { calls := c, out := some { outBase e now thr calls with pushed := pushed } } pos =
      if classify e now thr = .valid then some ⟨pos, e.tag, e.prio⟩ else none := by
  unfold Obs.disp? outBase
  cases classify e now thr <;> simp

theorem kind_wf0 {thr : Int} {s s' : SState} {ev : Ev} {o : Obs} (hwf : WF0 s)
    (hk : Kind thr s ev s' o) : WF0 s' := by
  cases hk with
  | idle _ _ _ hmem hinv htr hcalls hdisp hpop =>
    exact ⟨hinv, fun x hx => hwf.susp x ((hmem x).mp hx)⟩
  | schedFail => exact hwf
  | sched now a t t' p calls q' old hl ht hpc hold hnew hmem hinv =>
    refine ⟨hinv, ?_⟩
    intro x hx hs
    rcases (hmem x).mp hx with rfl | ⟨h1, _⟩
    · rcases hpc with ⟨_, hp, _, _⟩ | ⟨hs', _, _, _⟩
      · exact hp
      · rw [show (a.entry p).suspended = a.suspended from rfl, hs'] at hs; cases hs
    · exact hwf.susp x h1 hs
  | del g n e q1 he hg hn hmem hinv => exact ⟨hinv, fun x hx hs => hwf.susp x ((hmem x).mp hx).1 hs⟩
  | pause g n e q1 he hg hn hs hmem hinv =>
    refine ⟨hinv, ?_⟩
    intro x hx hxs
    rcases (mem_swap hmem x).mp hx with rfl | ⟨h1, _⟩
    · rfl
    · exact hwf.susp x h1 hxs
  | resumeFail now g n e he hg hn hs hf => exact ⟨hwf.inv, hwf.susp⟩
  | resume now g n e p q1 he hg hn hs hf hmem hinv =>
    refine ⟨hinv, ?_⟩
    intro x hx hxs
    rcases (mem_swap hmem x).mp hx with rfl | ⟨h1, _⟩
    · cases hxs
    · exact hwf.susp x h1 hxs
  | clear => exact ⟨inv_empty, fun e he => by simp at he⟩
  | stepAsk now e q1 pv r q' he hmin ha hf hmem1 hq' hinv =>
    refine ⟨hinv, ?_⟩
    intro x hx hxs
    rcases hq' with ⟨_, rfl⟩ | ⟨p, _, rfl⟩
    · exact hwf.susp x ((hmem1 x).mp hx).1 hxs
    · rcases (mem_swap hmem1 x).mp hx with rfl | ⟨h1, _⟩
      · rw [show ({ e with prio := p } : Entry).suspended = e.suspended from rfl,
          (askedWith_some_active ha).1] at hxs
        cases hxs
      · exact hwf.susp x h1 hxs

theorem run_wf0 (thr : Int) (evs : List Ev) (s : SState) (hwf : WF0 s) : WF0 (run thr s evs).1 := by
  induction evs generalizing s with
  | nil => exact hwf
  | cons ev evs ih => exact ih _ (kind_wf0 hwf (apply_kind thr s hwf ev))

/-- a popped entry was in the registry -/
theorem kind_pop {thr : Int} {s s' : SState} {ev : Ev} {o : Obs} (hk : Kind thr s ev s' o) :
    ∀ out e, o.out = some out → out.popped = some e → e ∈ s.q.toList := by
  intro out x ho hp
  cases hk with
  | idle _ _ _ hmem hinv htr hcalls hdisp hpop => exact hpop out x ho hp
  | stepAsk now e q1 pv r q' he hmin ha hf hmem1 hq' hinv =>
    injection ho with ho
    subst ho
    injection hp with hp
    subst hp
    exact he
  | _ => cases ho

/-- a dispatch: by a step, of an active registry entry that is due and at most `thr` late, together
with the one trigger call that asks for the successor of exactly that fire time -/
theorem kind_disp {thr : Int} {s s' : SState} {ev : Ev} {o : Obs} (hk : Kind thr s ev s' o)
    (pos : Nat) (d : Disp) (hd : o.disp? pos = some d) :
    ∃ now e, ev = .step now ∧ e ∈ s.q.toList ∧ e.suspended = false ∧ d = ⟨pos, e.tag, e.prio⟩ ∧
      now - thr ≤ e.prio ∧ e.prio ≤ now ∧ (∀ x ∈ s.q.toList, e.prio ≤ x.prio) ∧
      o.calls = [⟨e.tag, e.prio, ((s.trig e.tag).fire e.prio).1⟩] := by
  cases hk with
  | idle _ _ _ hmem hinv htr hcalls hdisp hpop => rw [hdisp pos] at hd; cases hd
  | stepAsk now e q1 pv r q' he hmin ha hf hmem1 hq' hinv =>
    rw [disp_stepAsk] at hd
    obtain ⟨hs, ⟨hc, hpv, h3, h4⟩ | ⟨hc, _⟩⟩ := askedWith_some_active ha
    · rw [if_pos hc] at hd
      injection hd with hd
      subst hpv
      exact ⟨now, e, rfl, he, hs, hd.symm, h3, h4, hmin, by rw [hf]⟩
    · rw [if_neg (by rw [hc]; exact fun hh => by cases hh)] at hd; cases hd
  | _ => cases hd

/-- every trigger call is either the first call on the trigger object a `schedule` event brings, or a
call on the trigger of a registry entry that the event addresses (API call on its key / step that popped
it, active); in the second case the answer and the trigger's new state are those of `Trig.fire` -/
theorem kind_calls {thr : Int} {s s' : SState} {ev : Ev} {o : Obs} (hk : Kind thr s ev s' o) :
    ∀ c ∈ o.calls, ev.schedTag? = some c.tag ∨
      ∃ e ∈ s.q.toList, e.tag = c.tag ∧ c.result = ((s.trig e.tag).fire c.prev).1 ∧
        s'.trig e.tag = ((s.trig e.tag).fire c.prev).2 ∧
        (ev.touches e.group e.name = true ∨ (e.suspended = false ∧ ∃ now, ev = .step now)) := by
  intro c hc
  cases hk with
  | idle _ _ _ hmem hinv htr hcalls hdisp hpop => rw [hcalls] at hc; cases hc
  | schedFail now a r err =>
    rw [List.mem_singleton] at hc; subst hc; exact Or.inl rfl
  | sched now a t t' p calls q' old hl ht hpc hold hnew hmem hinv =>
    rcases hpc with ⟨_, _, _, h4⟩ | ⟨_, _, _, h4⟩
    · subst h4; cases hc
    · subst h4; rw [List.mem_singleton] at hc; subst hc; exact Or.inl rfl
  | del => cases hc
  | pause => cases hc
  | resumeFail now g n e he hg hn hs hf =>
    rw [List.mem_singleton] at hc; subst hc
    refine Or.inr ⟨e, he, rfl, hf.symm, trig_setTrig_same _ _ _, Or.inl ?_⟩
    simp [Ev.touches, hg, hn]
  | resume now g n e p q1 he hg hn hs hf hmem hinv =>
    rw [List.mem_singleton] at hc; subst hc
    refine Or.inr ⟨e, he, rfl, hf.symm, trig_setTrig_same _ _ _, Or.inl ?_⟩
    simp [Ev.touches, hg, hn]
  | clear => cases hc
  | stepAsk now e q1 pv r q' he hmin ha hf hmem1 hq' hinv =>
    rw [List.mem_singleton] at hc; subst hc
    exact Or.inr ⟨e, he, rfl, hf.symm, trig_setTrig_same _ _ _,
      Or.inr ⟨(askedWith_some_active ha).1, now, rfl⟩⟩

/-- trigger objects that are not asked (and not brought in) keep their state -/
theorem kind_trig_frame {thr : Int} {s s' : SState} {ev : Ev} {o : Obs} (hk : Kind thr s ev s' o)
    (t : Nat) (hnc : ∀ c ∈ o.calls, c.tag ≠ t) (hns : ev.schedTag? ≠ some t) :
    s'.trig t = s.trig t := by
  cases hk with
  | idle _ _ _ hmem hinv htr hcalls hdisp hpop => unfold SState.trig; rw [htr]
  | schedFail => rfl
  | sched now a t0 t' p calls q' old hl ht hpc hold hnew hmem hinv =>
    have : t ≠ a.tag := fun hh => hns (by rw [hh]; rfl)
    rw [trig_setTrig_other _ _ _ _ this]; rfl
  | del => rfl
  | pause => rfl
  | resumeFail now g n e he hg hn hs hf =>
    have : t ≠ e.tag := fun hh => hnc _ List.mem_cons_self hh.symm
    exact trig_setTrig_other _ _ _ _ this
  | resume now g n e p q1 he hg hn hs hf hmem hinv =>
    have : t ≠ e.tag := fun hh => hnc _ List.mem_cons_self hh.symm
    show (s.setTrig e.tag _).trig t = _
    exact trig_setTrig_other _ _ _ _ this
  | clear => rfl
  | stepAsk now e q1 pv r q' he hmin ha hf hmem1 hq' hinv =>
    have : t ≠ e.tag := fun hh => hnc _ List.mem_cons_self hh.symm
    show ((({ s with q := q1 } : SState).setTrig e.tag _).trig t) = _
    rw [trig_setTrig_other _ _ _ _ this]; rfl

/-- a suspended entry whose key the event does not address stays exactly as it is -/
theorem kind_keep {thr : Int} {s s' : SState} {ev : Ev} {o : Obs} (hk : Kind thr s ev s' o)
    (x : Entry) (hx : x ∈ s.q.toList) (hnt : ev.touches x.group x.name = false)
    (hxs : x.suspended = true) : x ∈ s'.q.toList := by
  cases hk with
  | idle _ _ _ hmem hinv htr hcalls hdisp hpop => exact (hmem x).mpr hx
  | schedFail => exact hx
  | sched now a t0 t' p calls q' old hl ht hpc hold hnew hmem hinv =>
    apply (hmem x).mpr
    right
    refine ⟨hx, ?_⟩
    intro ho
    obtain ⟨_, hg, hn, _⟩ := hold x ho
    simp [Ev.touches, hg, hn] at hnt
  | del g n e q1 he hg hn hmem hinv =>
    apply (hmem x).mpr
    refine ⟨hx, ?_⟩
    rintro rfl
    simp [Ev.touches, hg, hn] at hnt
  | pause g n e q1 he hg hn hs hmem hinv =>
    apply (mem_swap hmem x).mpr
    right
    refine ⟨hx, ?_⟩
    intro hh
    injection hh with hh
    subst hh
    simp [Ev.touches, hg, hn] at hnt
  | resumeFail => exact hx
  | resume now g n e p q1 he hg hn hs hf hmem hinv =>
    apply (mem_swap hmem x).mpr
    right
    refine ⟨hx, ?_⟩
    intro hh
    injection hh with hh
    subst hh
    simp [Ev.touches, hg, hn] at hnt
  | clear => simp [Ev.touches] at hnt
  | stepAsk now e q1 pv r q' he hmin ha hf hmem1 hq' hinv =>
    have hne : x ≠ e := by
      rintro rfl
      rw [(askedWith_some_active ha).1] at hxs
      cases hxs
    rcases hq' with ⟨_, rfl⟩ | ⟨p, _, rfl⟩
    · exact (hmem1 x).mpr ⟨hx, hne⟩
    · exact (mem_swap hmem1 x).mpr (Or.inr ⟨hx, fun hh => hne (Option.some.inj hh).symm⟩)

/-- an active entry of the new state either has just been produced by a trigger call of this event
(same tag, that answer), or was there before and is not the one being dispatched -/
theorem kind_active {thr : Int} {s s' : SState} {ev : Ev} {o : Obs} (hwf : WF s)
    (hk : Kind thr s ev s' o) (x : Entry) (hx : x ∈ s'.q.toList) (hxs : x.suspended = false) :
    (∃ pv, (⟨x.tag, pv, some x.prio⟩ : TrigCall) ∈ o.calls) ∨
    (x ∈ s.q.toList ∧ ∀ pos d, o.disp? pos = some d → d.tag ≠ x.tag) := by
  cases hk with
  | idle _ _ _ hmem hinv htr hcalls hdisp hpop =>
    exact Or.inr ⟨(hmem x).mp hx, fun pos d hd => by rw [hdisp pos] at hd; cases hd⟩
  | schedFail => exact Or.inr ⟨hx, fun pos d hd => by cases hd⟩
  | sched now a t0 t' p calls q' old hl ht hpc hold hnew hmem hinv =>
    rcases (hmem x).mp hx with rfl | ⟨h1, _⟩
    · rcases hpc with ⟨h1, _⟩ | ⟨_, _, _, h4⟩
      · rw [show (a.entry p).suspended = a.suspended from rfl, h1] at hxs; cases hxs
      · subst h4; exact Or.inl ⟨now, List.mem_cons_self⟩
    · exact Or.inr ⟨h1, fun pos d hd => by cases hd⟩
  | del g n e q1 he hg hn hmem hinv =>
    exact Or.inr ⟨((hmem x).mp hx).1, fun pos d hd => by cases hd⟩
  | pause g n e q1 he hg hn hs hmem hinv =>
    rcases (mem_swap hmem x).mp hx with rfl | ⟨h1, _⟩
    · cases hxs
    · exact Or.inr ⟨h1, fun pos d hd => by cases hd⟩
  | resumeFail => exact Or.inr ⟨hx, fun pos d hd => by cases hd⟩
  | resume now g n e p q1 he hg hn hs hf hmem hinv =>
    rcases (mem_swap hmem x).mp hx with rfl | ⟨h1, _⟩
    · exact Or.inl ⟨now, List.mem_cons_self⟩
    · exact Or.inr ⟨h1, fun pos d hd => by cases hd⟩
  | clear => simp at hx
  | stepAsk now e q1 pv r q' he hmin ha hf hmem1 hq' hinv =>
    have hdt : ∀ (c : List TrigCall) (pu : Option Entry) (pos : Nat) (d : Disp),
        Obs.disp? ({ calls := c, out := some { outBase e now thr c with pushed := pu } } : Obs) pos =
          some d → d.tag = e.tag := by
      intro c pu pos d hd
      rw [disp_stepAsk] at hd
      split at hd
      · injection hd with hd; subst hd; rfl
      · cases hd
    have hold : ∀ y, y ∈ s.q.toList → y ≠ e → ∀ (pos : Nat) (d : Disp), d.tag = e.tag → d.tag ≠ y.tag := by
      intro y hy hne pos d hd hh
      exact hne (hwf.tags y hy e he (by rw [← hh, hd]))
    rcases hq' with ⟨_, rfl⟩ | ⟨p, hr, rfl⟩
    · obtain ⟨h1, h2⟩ := (hmem1 x).mp hx
      exact Or.inr ⟨h1, fun pos d hd => hold x h1 h2 pos d (hdt _ _ pos d hd)⟩
    · rcases (mem_swap hmem1 x).mp hx with rfl | ⟨h1, h2⟩
      · subst hr; exact Or.inl ⟨pv, List.mem_cons_self⟩
      · exact Or.inr ⟨h1, fun pos d hd =>
          hold x h1 (fun hh => h2 (by rw [hh])) pos d (hdt _ _ pos d hd)⟩

/-! ## a tag that is not in the registry stays out, and silent -/

theorem quiet_noConsume {t : Nat} {o : Obs} (h : o.quiet t) : o.noConsume t := by
  refine ⟨h.1, ?_⟩
  intro pos d hd
  unfold Obs.disp? at hd
  split at hd
  · rename_i out ho
    split at hd
    · split at hd
      · rename_i e hp
        injection hd with hd
        subst hd
        exact h.2 out e ho hp
      · cases hd
    · cases hd
  · cases hd

theorem kind_absent {thr : Int} {s s' : SState} {ev : Ev} {o : Obs} {t : Nat}
    (hk : Kind thr s ev s' o) (ha : AbsentTag t s) (hns : ev.schedTag? ≠ some t) :
    AbsentTag t s' ∧ o.quiet t := by
  refine ⟨?_, ?_, ?_⟩
  · intro x hx hxt
    rcases kind_tags hk x hx with ⟨e, he, het⟩ | hst
    · exact ha e he (by rw [het, hxt])
    · exact hns (by rw [hst, hxt])
  · intro c hc hct
    rcases kind_calls hk c hc with hst | ⟨e, he, het, _⟩
    · exact hns (by rw [hst, hct])
    · exact ha e he (by rw [het, hct])
  · intro out e ho hp
    exact ha e (kind_pop hk out e ho hp)

theorem run_absent (thr : Int) (t : Nat) (evs : List Ev) (s : SState) (hwf : WF0 s)
    (ha : AbsentTag t s) (hns : t ∉ schedTags evs) :
    AbsentTag t (run thr s evs).1 ∧ ∀ o ∈ (run thr s evs).2, o.quiet t := by
  induction evs generalizing s with
  | nil => exact ⟨ha, fun o ho => by cases ho⟩
  | cons ev evs ih =>
    have hk := apply_kind thr s hwf ev
    rw [schedTags_cons] at hns
    have hns1 : ev.schedTag? ≠ some t := fun hh => hns (List.mem_append_left _ (by rw [hh]; simp))
    have hns2 : t ∉ schedTags evs := fun hh => hns (List.mem_append_right _ hh)
    obtain ⟨ha', hq⟩ := kind_absent hk ha hns1
    obtain ⟨h1, h2⟩ := ih _ (kind_wf0 hwf hk) ha' hns2
    rw [run_cons]
    refine ⟨h1, ?_⟩
    intro o ho
    rcases List.mem_cons.mp ho with rfl | ho
    · exact hq
    · exact h2 o ho

/-! ## a paused entry whose key is left alone -/

theorem kind_paused {thr : Int} {s s' : SState} {ev : Ev} {o : Obs} (hwf : WF s)
    (hk : Kind thr s ev s' o) (hfr : FreshEv s ev) (x : Entry) (hx : x ∈ s.q.toList)
    (hxs : x.suspended = true) (hnt : ev.touches x.group x.name = false) :
    x ∈ s'.q.toList ∧ o.noConsume x.tag ∧ s'.trig x.tag = s.trig x.tag := by
  have hcalls : ∀ c ∈ o.calls, c.tag ≠ x.tag := by
    intro c hc hct
    rcases kind_calls hk c hc with hst | ⟨e, he, het, _, _, htch | ⟨hes, _⟩⟩
    · exact hfr c.tag hst x hx hct.symm
    · have : e = x := hwf.tags e he x hx (by rw [het, hct])
      subst this
      rw [hnt] at htch; cases htch
    · have : e = x := hwf.tags e he x hx (by rw [het, hct])
      subst this
      rw [hxs] at hes; cases hes
  refine ⟨kind_keep hk x hx hnt hxs, ⟨hcalls, ?_⟩, ?_⟩
  · intro pos d hd hdt
    obtain ⟨now, e, _, he, hes, hde, _⟩ := kind_disp hk pos d hd
    subst hde
    have : e = x := hwf.tags e he x hx hdt
    subst this
    rw [hxs] at hes; cases hes
  · apply kind_trig_frame hk x.tag hcalls
    intro hst
    exact hfr x.tag hst x hx rfl

theorem run_paused (thr : Int) (evs : List Ev) (s : SState) (hwf : WF s) (hft : FreshTags evs)
    (hff : FreshFor s evs) (x : Entry) (hx : x ∈ s.q.toList) (hxs : x.suspended = true)
    (hnt : ∀ ev ∈ evs, ev.touches x.group x.name = false) :
    x ∈ (run thr s evs).1.q.toList ∧ (∀ o ∈ (run thr s evs).2, o.noConsume x.tag) ∧
      (run thr s evs).1.trig x.tag = s.trig x.tag := by
  induction evs generalizing s with
  | nil => exact ⟨hx, (fun o ho => by cases ho), rfl⟩
  | cons ev evs ih =>
    have hk := apply_kind thr s hwf.wf0 ev
    obtain ⟨h1, h2, h3⟩ := fresh_cons hft hff hk
    obtain ⟨hx', hnc, htr⟩ := kind_paused hwf hk h1 x hx hxs (hnt ev List.mem_cons_self)
    obtain ⟨i1, i2, i3⟩ := ih _ (kind_wf hwf h1 hk) h2 h3 hx'
      (fun ev' hev' => hnt ev' (List.mem_cons_of_mem _ hev'))
    rw [run_cons]
    refine ⟨i1, ?_, by rw [i3, htr]⟩
    intro o ho
    rcases List.mem_cons.mp ho with rfl | ho
    · exact hnc
    · exact i2 o ho

/-- splitting a fresh history from the empty scheduler at one event -/
theorem reachable_split (thr : Int) (evs1 : List Ev) (ev : Ev) (evs2 : List Ev)
    (hft : FreshTags (evs1 ++ ev :: evs2)) :
    WF (run thr {} evs1).1 ∧ FreshTags evs2 ∧ FreshFor (apply thr (run thr {} evs1).1 ev).1 evs2 ∧
      ∀ e ∈ (run thr {} evs1).1.q.toList, e.tag ∉ schedTags evs2 := by
  obtain ⟨hwf, h2, h3⟩ := run_fresh thr evs1 (ev :: evs2) {} wf_empty hft (freshFor_empty _)
  have hk := apply_kind thr _ hwf.wf0 ev
  obtain ⟨_, h4, h5⟩ := fresh_cons h2 h3 hk
  refine ⟨hwf, h4, h5, ?_⟩
  intro e he hmem
  have : e.tag ∈ schedTags (ev :: evs2) := by
    rw [schedTags_cons]; exact List.mem_append_right _ hmem
  exact h3 e.tag this e he rfl

theorem AllPairs.length_eq {α β : Type} {R : α → β → Prop} {as : List α} {bs : List β}
    (h : AllPairs R as bs) : as.length = bs.length := by
  induction h with
  | nil => rfl
  | cons _ _ ih => simp [ih]

theorem AllPairs.get {α β : Type} {R : α → β → Prop} {as : List α} {bs : List β}
    (h : AllPairs R as bs) : ∀ (i : Nat) (h1 : i < as.length) (h2 : i < bs.length), R as[i] bs[i] := by
  induction h with
  | nil => intro i h1; cases h1
  | cons hr _ ih =>
    intro i h1 h2
    cases i with
    | zero => exact hr
    | succ i => exact ih i (by simpa using h1) (by simpa using h2)

/-- what `dispatchesFrom` lists: exactly the dispatches of the observations, each stamped with the
length of the call log before its step -/
theorem mem_dispatchesFrom (p : Nat) (obs : List Obs) (d : Disp) :
    d ∈ dispatchesFrom p obs ↔
      ∃ pre o post, obs = pre ++ o :: post ∧ o.disp? (p + (callLog pre).length) = some d := by
  induction obs generalizing p with
  | nil =>
    constructor
    · intro h; cases h
    · rintro ⟨pre, o, post, h, _⟩
      cases pre <;> cases h
  | cons o os ih =>
    unfold dispatchesFrom
    rw [List.mem_append, ih]
    constructor
    · rintro (h | ⟨pre, o', post, h1, h2⟩)
      · refine ⟨[], o, os, rfl, ?_⟩
        have : o.disp? p = some d := by
          cases hh : o.disp? p with
          | none => rw [hh] at h; cases h
          | some d' => rw [hh] at h; simp at h; rw [h]
        simpa [callLog] using this
      · refine ⟨o :: pre, o', post, by rw [h1]; rfl, ?_⟩
        have : (callLog (o :: pre)).length = o.calls.length + (callLog pre).length := by
          simp [callLog]
        rw [this, ← Nat.add_assoc]; exact h2
    · rintro ⟨pre, o', post, h1, h2⟩
      cases pre with
      | nil =>
        left
        injection h1 with h1 h1'
        subst h1
        have : o.disp? p = some d := by simpa [callLog] using h2
        rw [this]; simp
      | cons o'' pre =>
        right
        injection h1 with h1 h1'
        subst h1
        refine ⟨pre, o', post, h1', ?_⟩
        have : (callLog (o :: pre)).length = o.calls.length + (callLog pre).length := by
          simp [callLog]
        rw [this, ← Nat.add_assoc] at h2; exact h2

/-! ## the pending-call invariant -/

/-- every active entry has a trigger call in the log that produced its fire time and has not been
consumed by a dispatch yet -/
def PInv (s : SState) (log : List TrigCall) (used : List Nat) : Prop :=
  ∀ x ∈ s.q.toList, x.suspended = false →
    ∃ k, k ∉ used ∧ ∃ pv, log[k]? = some ⟨x.tag, pv, some x.prio⟩

theorem getElem?_append_of_some {α : Type} (l l' : List α) (k : Nat) (a : α) (h : l[k]? = some a) :
    (l ++ l')[k]? = some a := by
  have hk : k < l.length := by
    rcases Nat.lt_or_ge k l.length with h1 | h1
    · exact h1
    · rw [List.getElem?_eq_none h1] at h; cases h
  rw [List.getElem?_append_left hk]; exact h

theorem lt_length_of_getElem?_some {α : Type} (l : List α) (k : Nat) (a : α) (h : l[k]? = some a) :
    k < l.length := by
  rcases Nat.lt_or_ge k l.length with h1 | h1
  · exact h1
  · rw [List.getElem?_eq_none h1] at h; cases h

theorem pinv_step {thr : Int} {s s' : SState} {ev : Ev} {o : Obs} (hwf : WF s)
    (hk : Kind thr s ev s' o) (log : List TrigCall) (used : List Nat) (hp : PInv s log used)
    (hu : ∀ k ∈ used, k < log.length) :
    (o.disp? log.length = none ∧ PInv s' (log ++ o.calls) used) ∨
    (∃ d k, o.disp? log.length = some d ∧ d.pos = log.length ∧ k ∉ used ∧ k < log.length ∧
      (∃ pv, log[k]? = some ⟨d.tag, pv, some d.time⟩) ∧ PInv s' (log ++ o.calls) (k :: used)) := by
  -- an entry produced by a call of this event: its index is beyond the old log
  have hnew : ∀ x : Entry, (∃ pv, (⟨x.tag, pv, some x.prio⟩ : TrigCall) ∈ o.calls) →
      ∃ k, log.length ≤ k ∧ ∃ pv, (log ++ o.calls)[k]? = some ⟨x.tag, pv, some x.prio⟩ := by
    rintro x ⟨pv, hc⟩
    obtain ⟨i, hi, hget⟩ := List.getElem_of_mem hc
    refine ⟨log.length + i, Nat.le_add_right _ _, pv, ?_⟩
    rw [List.getElem?_append_right (Nat.le_add_right _ _), Nat.add_sub_cancel_left,
      List.getElem?_eq_getElem hi, hget]
  cases hd : o.disp? log.length with
  | none =>
    left
    refine ⟨rfl, ?_⟩
    intro x hx hxs
    rcases kind_active hwf hk x hx hxs with hc | ⟨hx0, _⟩
    · obtain ⟨k, hk1, pv, hk2⟩ := hnew x hc
      exact ⟨k, fun hh => by have := hu k hh; omega, pv, hk2⟩
    · obtain ⟨k, hk1, pv, hk2⟩ := hp x hx0 hxs
      exact ⟨k, hk1, pv, getElem?_append_of_some _ _ _ _ hk2⟩
  | some d =>
    right
    obtain ⟨now, e, _, he, hes, hde, _⟩ := kind_disp hk log.length d hd
    obtain ⟨ke, hke1, pve, hke2⟩ := hp e he hes
    have hkelt := lt_length_of_getElem?_some _ _ _ hke2
    refine ⟨d, ke, rfl, by rw [hde], hke1, hkelt, ⟨pve, by rw [hde]; exact hke2⟩, ?_⟩
    intro x hx hxs
    rcases kind_active hwf hk x hx hxs with hc | ⟨hx0, hnd⟩
    · obtain ⟨k, hk1, pv, hk2⟩ := hnew x hc
      refine ⟨k, ?_, pv, hk2⟩
      intro hh
      rcases List.mem_cons.mp hh with h1 | h1
      · omega
      · have := hu k h1; omega
    · obtain ⟨k, hk1, pv, hk2⟩ := hp x hx0 hxs
      refine ⟨k, ?_, pv, getElem?_append_of_some _ _ _ _ hk2⟩
      intro hh
      rcases List.mem_cons.mp hh with h1 | h1
      · subst h1
        rw [hke2] at hk2
        injection hk2 with hk2
        injection hk2 with ht _ _
        have := hnd log.length d hd
        rw [hde] at this
        exact this ht
      · exact hk1 h1

/-- generalised form for the induction: start anywhere, with a log and a set of consumed indices -/
theorem own_trigger_aux (thr : Int) (evs : List Ev) :
    ∀ (s : SState) (log : List TrigCall) (used : List Nat), WF s → FreshTags evs → FreshFor s evs →
      PInv s log used → (∀ k ∈ used, k < log.length) →
      ∃ m : List Nat, (∀ k ∈ m, k ∉ used) ∧ m.Nodup ∧
        AllPairs (fun d k => k < d.pos ∧
            ∃ pv, (log ++ callLog (run thr s evs).2)[k]? = some ⟨d.tag, pv, some d.time⟩)
          (dispatchesFrom log.length (run thr s evs).2) m := by
  induction evs with
  | nil =>
    intro s log used _ _ _ _ _
    exact ⟨[], (fun k hk => by cases hk), List.nodup_nil, AllPairs.nil⟩
  | cons ev evs ih =>
    intro s log used hwf hft hff hp hu
    have hk := apply_kind thr s hwf.wf0 ev
    obtain ⟨h1, h2, h3⟩ := fresh_cons hft hff hk
    have hwf' := kind_wf hwf h1 hk
    have hlog : log ++ callLog (run thr s (ev :: evs)).2 =
        (log ++ (apply thr s ev).2.calls) ++ callLog (run thr (apply thr s ev).1 evs).2 := by
      rw [run_cons]
      simp [callLog, List.append_assoc]
    have hdis : dispatchesFrom log.length (run thr s (ev :: evs)).2 =
        ((apply thr s ev).2.disp? log.length).toList ++
          dispatchesFrom (log ++ (apply thr s ev).2.calls).length (run thr (apply thr s ev).1 evs).2 := by
      rw [run_cons]
      simp [dispatchesFrom]
    rw [hlog, hdis]
    rcases pinv_step hwf hk log used hp hu with ⟨hd, hp'⟩ | ⟨d, k, hd, hpos, hk1, hk2, ⟨pv, hk3⟩, hp'⟩
    · have hu' : ∀ k ∈ used, k < (log ++ (apply thr s ev).2.calls).length := by
        intro k hk; have := hu k hk; rw [List.length_append]; omega
      obtain ⟨m, hm1, hm2, hm3⟩ := ih _ _ used hwf' h2 h3 hp' hu'
      refine ⟨m, hm1, hm2, ?_⟩
      rw [hd]
      exact hm3
    · have hu' : ∀ k' ∈ k :: used, k' < (log ++ (apply thr s ev).2.calls).length := by
        intro k' hk'
        rw [List.length_append]
        rcases List.mem_cons.mp hk' with rfl | hk'
        · omega
        · have := hu k' hk'; omega
      obtain ⟨m, hm1, hm2, hm3⟩ := ih _ _ (k :: used) hwf' h2 h3 hp' hu'
      refine ⟨k :: m, ?_, ?_, ?_⟩
      · intro k' hk'
        rcases List.mem_cons.mp hk' with rfl | hk'
        · exact hk1
        · exact fun hh => hm1 k' hk' (List.mem_cons_of_mem _ hh)
      · exact List.nodup_cons.mpr ⟨fun hh => hm1 k hh List.mem_cons_self, hm2⟩
      · rw [hd]
        refine AllPairs.cons ⟨by rw [hpos]; exact hk2, pv, ?_⟩ hm3
        exact getElem?_append_of_some _ _ _ _ (getElem?_append_of_some _ _ _ _ hk3)

/-! ## the saturating addition of `SimpleTrigger` / `RunOnceTrigger` (`addNanos`) -/

/-- no overflow: plain addition -/
theorem satAdd_eq {t d : Int} (h : ¬ (d > 0 ∧ t + d > maxInt64)) : satAdd t d = t + d := by
  unfold satAdd; rw [if_neg h]

/-- overflow of a positive interval: the largest representable time -/
theorem satAdd_sat {t d : Int} (hd : d > 0) (h : t + d > maxInt64) : satAdd t d = maxInt64 := by
  unfold satAdd; rw [if_pos ⟨hd, h⟩]

theorem satAdd_eq_of_le {t d : Int} (h : t + d ≤ maxInt64) : satAdd t d = t + d :=
  satAdd_eq (fun hh => by omega)

theorem satAdd_eq_of_nonpos {t d : Int} (h : d ≤ 0) : satAdd t d = t + d :=
  satAdd_eq (fun hh => by omega)

/-- never beyond the true sum -/
theorem satAdd_le (t d : Int) : satAdd t d ≤ t + d := by
  unfold satAdd; split <;> omega

/-- the answer for a representable time is representable (at the upper end) -/
theorem satAdd_le_max {t d : Int} (ht : t ≤ maxInt64) : satAdd t d ≤ maxInt64 := by
  unfold satAdd; split <;> omega

/-- a positive interval never answers a time before `t` (this is what the unrepaired wrapping addition violated) -/
theorem satAdd_ge {t d : Int} (hd : d > 0) (ht : t ≤ maxInt64) : t ≤ satAdd t d := by
  unfold satAdd; split <;> omega

/-- ... and strictly after `t` unless `t` is already the largest representable time -/
theorem satAdd_gt {t d : Int} (hd : d > 0) (ht : t < maxInt64) : t < satAdd t d := by
  unfold satAdd; split <;> omega

/-- monotone in the time argument -/
theorem satAdd_mono {t t' d : Int} (h : t ≤ t') : satAdd t d ≤ satAdd t' d := by
  unfold satAdd; split <;> split <;> omega

theorem fire_simple (I prev : Int) : Trig.fire (.simple I) prev = (some (satAdd prev I), .simple I) := rfl

theorem fire_runOnce (d prev : Int) :
    Trig.fire (.runOnce d false) prev = (some (satAdd prev d), .runOnce d true) := rfl

/-! ## no drift -/

theorem dispTime_of_disp_none {o : Obs} (t : Nat) (h : ∀ pos, o.disp? pos = none) : o.dispTime? t = none := by
  unfold Obs.dispTime?; rw [h 0]

theorem drift_step {thr : Int} {s s' : SState} {now : Int} {o : Obs} (hwf : WF s)
    (hk : Kind thr s (.step now) s' o) (x : Entry) (hx : x ∈ s.q.toList) (hxs : x.suspended = false)
    (I : Int) (htr : s.trig x.tag = .simple I) (hov : I ≤ 0 ∨ now + I ≤ maxInt64)
    (hno : ∀ out e, o.out = some out → out.popped = some e → e.tag = x.tag → out.cls ≠ some .outdated) :
    (o.dispTime? x.tag = none ∧ (∀ c ∈ o.calls, c.tag ≠ x.tag) ∧ x ∈ s'.q.toList ∧
      s'.trig x.tag = .simple I) ∨
    (o.dispTime? x.tag = some x.prio ∧ o.calls = [⟨x.tag, x.prio, some (x.prio + I)⟩] ∧
      ({ x with prio := x.prio + I } : Entry) ∈ s'.q.toList ∧ s'.trig x.tag = .simple I) := by
  cases hk with
  | idle _ _ _ hmem hinv htrs hcalls hdisp hpop =>
    left
    refine ⟨dispTime_of_disp_none _ hdisp, (by rw [hcalls]; exact fun c hc => by cases hc),
      (hmem x).mpr hx, ?_⟩
    unfold SState.trig at htr ⊢; rw [htrs]; exact htr
  | stepAsk _ e q1 pv r q' he hmin ha hf hmem1 hq' hinv =>
    by_cases hex : e = x
    · subst hex
      right
      obtain ⟨_, ⟨hc, hpv, _, hdue⟩ | ⟨hc, _⟩⟩ := askedWith_some_active ha
      · subst hpv
        -- dispatched only when due (`e.prio ≤ now`): the addition for the next fire time cannot overflow
        have hsat : satAdd e.prio I = e.prio + I := by
          rcases hov with hov | hov
          · exact satAdd_eq_of_nonpos hov
          · exact satAdd_eq_of_le (by omega)
        have hr : r = some (e.prio + I) := by rw [← hf, htr, fire_simple, hsat]
        subst hr
        refine ⟨?_, rfl, ?_, ?_⟩
        · unfold Obs.dispTime?
          rw [disp_stepAsk, if_pos hc]
          simp
        · rcases hq' with ⟨h1, _⟩ | ⟨p, hp, rfl⟩
          · cases h1
          · injection hp with hp
            subst hp
            exact (mem_hpush_iff _ _ _).mpr (Or.inl rfl)
        · show ((({ s with q := q1 } : SState).setTrig e.tag _).trig e.tag) = _
          rw [trig_setTrig_same, htr]; rfl
      · exfalso
        apply hno _ e rfl rfl rfl
        show some (classify e now thr) = _
        rw [hc]
    · left
      have hte : x.tag ≠ e.tag := fun hh => hex (hwf.tags e he x hx hh.symm)
      refine ⟨?_, ?_, ?_, ?_⟩
      · unfold Obs.dispTime?
        rw [disp_stepAsk]
        by_cases hv : classify e now thr = .valid
        · rw [if_pos hv]
          show (if e.tag = x.tag then some e.prio else none) = none
          rw [if_neg (fun hh => hte hh.symm)]
        · rw [if_neg hv]
      · intro c hc
        rw [List.mem_singleton] at hc
        subst hc
        exact fun hh => hte hh.symm
      · have hx1 : x ∈ q1.toList := (hmem1 x).mpr ⟨hx, fun hh => hex hh.symm⟩
        rcases hq' with ⟨_, rfl⟩ | ⟨p, _, rfl⟩
        · exact hx1
        · exact (mem_hpush_iff _ _ _).mpr (Or.inr hx1)
      · show ((({ s with q := q1 } : SState).setTrig e.tag _).trig x.tag) = _
        rw [trig_setTrig_other _ _ _ _ hte]
        exact htr

theorem range_shift (k : Nat) (f I : Int) :
    f :: (List.range k).map (fun (i : Nat) => (f + I) + (i : Int) * I) =
      (List.range (k + 1)).map (fun (i : Nat) => f + (i : Int) * I) := by
  rw [List.range_succ_eq_map, List.map_cons, List.map_map]
  congr 1
  · simp
  · apply List.map_congr_left
    intro i _
    simp only [Function.comp]
    rw [Int.natCast_succ, Int.add_mul, Int.one_mul]
    omega

theorem no_drift_aux (thr I : Int) (t : Nat) (evs : List Ev) :
    ∀ (s : SState) (x : Entry), WF s → x ∈ s.q.toList → x.suspended = false → x.tag = t →
      s.trig t = .simple I → OnlySteps evs → NeverOutdated t (run thr s evs).2 →
      (I ≤ 0 ∨ ∀ now, Ev.step now ∈ evs → now + I ≤ maxInt64) →
      ∃ k : Nat,
        dispatchTimes t (run thr s evs).2 = (List.range k).map (fun (i : Nat) => x.prio + (i : Int) * I) ∧
        (callLog (run thr s evs).2).filter (fun c => c.tag == t) =
          (List.range k).map (fun (i : Nat) =>
            (⟨t, x.prio + (i : Int) * I, some (x.prio + (i : Int) * I + I)⟩ : TrigCall)) ∧
        ({ x with prio := x.prio + (k : Int) * I } : Entry) ∈ (run thr s evs).1.q.toList ∧
        (run thr s evs).1.trig t = .simple I := by
  induction evs with
  | nil =>
    intro s x _ hx _ _ htr _ _ _
    refine ⟨0, rfl, rfl, ?_, htr⟩
    simpa using hx
  | cons ev evs ih =>
    intro s x hwf hx hxs hxt htr hos hno hov
    obtain ⟨now, rfl⟩ := hos _ List.mem_cons_self
    have hov1 : I ≤ 0 ∨ now + I ≤ maxInt64 := hov.imp id (fun h => h now List.mem_cons_self)
    have hov2 : I ≤ 0 ∨ ∀ now', Ev.step now' ∈ evs → now' + I ≤ maxInt64 :=
      hov.imp id (fun h now' hm => h now' (List.mem_cons_of_mem _ hm))
    have hk := apply_kind thr s hwf.wf0 (.step now)
    have hwf' := kind_wf hwf (fun t ht => by cases ht) hk
    rw [run_cons] at hno ⊢
    have hno1 := hno _ List.mem_cons_self
    have hno2 : NeverOutdated t (run thr (apply thr s (.step now)).1 evs).2 :=
      fun o ho => hno o (List.mem_cons_of_mem _ ho)
    have hos2 : OnlySteps evs := fun ev hev => hos ev (List.mem_cons_of_mem _ hev)
    subst hxt
    rcases drift_step hwf hk x hx hxs I htr hov1 hno1 with ⟨h1, h2, h3, h4⟩ | ⟨h1, h2, h3, h4⟩
    · obtain ⟨k, i1, i2, i3, i4⟩ := ih _ x hwf' h3 hxs rfl h4 hos2 hno2 hov2
      refine ⟨k, ?_, ?_, i3, i4⟩
      · unfold dispatchTimes at i1 ⊢
        rw [List.filterMap_cons, h1]; exact i1
      · unfold callLog at i2 ⊢
        rw [List.flatMap_cons, List.filter_append, i2]
        have : List.filter (fun c => c.tag == x.tag) (apply thr s (.step now)).2.calls = [] := by
          rw [List.filter_eq_nil_iff]
          intro c hc
          simpa using h2 c hc
        rw [this]; rfl
    · obtain ⟨k, i1, i2, i3, i4⟩ := ih _ { x with prio := x.prio + I } hwf' h3 hxs rfl h4 hos2 hno2 hov2
      refine ⟨k + 1, ?_, ?_, ?_, i4⟩
      · unfold dispatchTimes at i1 ⊢
        rw [List.filterMap_cons, h1]
        simp only
        rw [i1]
        exact range_shift k x.prio I
      · unfold callLog at i2 ⊢
        rw [List.flatMap_cons, List.filter_append, i2, h2]
        simp only [List.filter_cons, beq_self_eq_true, if_true, List.filter_nil, List.cons_append,
          List.nil_append]
        rw [List.range_succ_eq_map, List.map_cons, List.map_map]
        congr 1
        · simp
        · apply List.map_congr_left
          intro i _
          simp only [Function.comp]
          rw [Int.natCast_succ, Int.add_mul, Int.one_mul]
          generalize (i : Int) * I = m
          have : x.prio + (m + I) = x.prio + I + m := by omega
          rw [this]
      · have : x.prio + I + (k : Int) * I = x.prio + ((k + 1 : Nat) : Int) * I := by
          rw [Int.natCast_succ, Int.add_mul, Int.one_mul]; omega
        rw [← this]; exact i3

/-! ## an entry at the largest representable time (a saturated fire time) is left alone -/

/-- one step at a clock reading before `maxInt64`: an active entry with fire time `maxInt64` is neither
dispatched nor asked, it stays in the registry as it is and its trigger object is not touched -/
theorem parked_step {thr : Int} {s s' : SState} {now : Int} {o : Obs} (hwf : WF s)
    (hk : Kind thr s (.step now) s' o) (x : Entry) (hx : x ∈ s.q.toList) (hxs : x.suspended = false)
    (hprio : x.prio = maxInt64) (hthr : 0 ≤ thr) (hnow : now < maxInt64) :
    o.dispTime? x.tag = none ∧ (∀ c ∈ o.calls, c.tag ≠ x.tag) ∧ x ∈ s'.q.toList ∧
      s'.trig x.tag = s.trig x.tag := by
  cases hk with
  | idle _ _ _ hmem hinv htrs hcalls hdisp hpop =>
    refine ⟨dispTime_of_disp_none _ hdisp, (by rw [hcalls]; exact fun c hc => by cases hc),
      (hmem x).mpr hx, ?_⟩
    unfold SState.trig; rw [htrs]
  | stepAsk _ e q1 pv r q' he hmin ha hf hmem1 hq' hinv =>
    by_cases hex : e = x
    · subst hex
      exfalso
      obtain ⟨_, ⟨_, _, _, hdue⟩ | ⟨_, _, hlate⟩⟩ := askedWith_some_active ha <;> omega
    · have hte : x.tag ≠ e.tag := fun hh => hex (hwf.tags e he x hx hh.symm)
      refine ⟨?_, ?_, ?_, ?_⟩
      · unfold Obs.dispTime?
        rw [disp_stepAsk]
        by_cases hv : classify e now thr = .valid
        · rw [if_pos hv]
          show (if e.tag = x.tag then some e.prio else none) = none
          rw [if_neg (fun hh => hte hh.symm)]
        · rw [if_neg hv]
      · intro c hc
        rw [List.mem_singleton] at hc
        subst hc
        exact fun hh => hte hh.symm
      · have hx1 : x ∈ q1.toList := (hmem1 x).mpr ⟨hx, fun hh => hex hh.symm⟩
        rcases hq' with ⟨_, rfl⟩ | ⟨p, _, rfl⟩
        · exact hx1
        · exact (mem_hpush_iff _ _ _).mpr (Or.inr hx1)
      · show ((({ s with q := q1 } : SState).setTrig e.tag _).trig x.tag) = _
        exact trig_setTrig_other _ _ _ _ hte

theorem parked_aux (thr : Int) (t : Nat) (evs : List Ev) (hthr : 0 ≤ thr) :
    ∀ (s : SState) (x : Entry), WF s → x ∈ s.q.toList → x.suspended = false → x.tag = t →
      x.prio = maxInt64 → OnlySteps evs → (∀ now, Ev.step now ∈ evs → now < maxInt64) →
      dispatchTimes t (run thr s evs).2 = [] ∧
      (∀ c ∈ callLog (run thr s evs).2, c.tag ≠ t) ∧
      x ∈ (run thr s evs).1.q.toList ∧ (run thr s evs).1.trig t = s.trig t := by
  induction evs with
  | nil =>
    intro s x _ hx _ _ _ _ _
    exact ⟨rfl, (fun c hc => by cases hc), hx, rfl⟩
  | cons ev evs ih =>
    intro s x hwf hx hxs hxt hprio hos hnows
    obtain ⟨now, rfl⟩ := hos _ List.mem_cons_self
    have hk := apply_kind thr s hwf.wf0 (.step now)
    have hwf' := kind_wf hwf (fun t ht => by cases ht) hk
    have hos2 : OnlySteps evs := fun ev hev => hos ev (List.mem_cons_of_mem _ hev)
    subst hxt
    obtain ⟨h1, h2, h3, h4⟩ :=
      parked_step hwf hk x hx hxs hprio hthr (hnows now List.mem_cons_self)
    obtain ⟨i1, i2, i3, i4⟩ := ih _ x hwf' h3 hxs rfl hprio hos2
      (fun now' hm => hnows now' (List.mem_cons_of_mem _ hm))
    rw [run_cons]
    refine ⟨?_, ?_, i3, i4.trans h4⟩
    · unfold dispatchTimes at i1 ⊢
      rw [List.filterMap_cons, h1]; exact i1
    · intro c hc
      unfold callLog at hc i2
      rw [List.flatMap_cons, List.mem_append] at hc
      rcases hc with hc | hc
      · exact h2 c hc
      · exact i2 c hc

/-- what a successful `ScheduleJob` leaves behind -/
theorem schedule_ok_facts (s : SState) (now : Int) (a : SchedArgs) (h : Inv s.q)
    (hok : (schedule s now a).2.1 = none) :
    ∃ t p, a.trig = some t ∧ ¬ a.illegal ∧
      ((a.suspended = true ∧ p = maxInt64 ∧ (schedule s now a).1.trig a.tag = t ∧
          (schedule s now a).2.2 = []) ∨
       (a.suspended = false ∧ (t.fire now).1 = some p ∧
          (schedule s now a).1.trig a.tag = (t.fire now).2 ∧
          (schedule s now a).2.2 = [⟨a.tag, now, some p⟩])) ∧
      a.entry p ∈ (schedule s now a).1.q.toList ∧
      (∀ t', t' ≠ a.tag → (schedule s now a).1.trig t' = s.trig t') := by
  rcases schedule_cases s now a with ⟨_, hs⟩ | ⟨_, _, hs⟩ |
    ⟨hl, _, t, p, t', calls, ht, hpc, ⟨e, _, hs⟩ | ⟨q', hq, hs⟩⟩
  · rw [hs] at hok; cases hok
  · rw [hs] at hok; cases hok
  · rw [hs] at hok; cases hok
  · rw [hs]
    have hmem : a.entry p ∈ q'.toList := by
      have := C11_get_after_push s.q q' (a.entry p) h hq
      exact (qget_ok q' (qpush_inv s.q q' _ h hq) _ _ _ this).1
    refine ⟨t, p, ht, hl, ?_, hmem, fun t' ht' => by rw [trig_setTrig_other _ _ _ _ ht']; rfl⟩
    rcases hpc with ⟨h1, h2, h3, h4⟩ | ⟨h1, h2, h3, h4⟩
    · exact Or.inl ⟨h1, h2, by rw [trig_setTrig_same, h3], h4⟩
    · exact Or.inr ⟨h1, h2, by rw [trig_setTrig_same, h3], h4⟩

/-- where the keys of the new state come from -/
theorem kind_keys {thr : Int} {s s' : SState} {ev : Ev} {o : Obs} (hk : Kind thr s ev s' o) :
    ∀ x ∈ s'.q.toList, (∃ e ∈ s.q.toList, e.group = x.group ∧ e.name = x.name) ∨
      (∃ now a, ev = .schedule now a ∧ a.group = x.group ∧ a.name = x.name) := by
  intro x hx
  cases hk with
  | idle _ _ _ hmem => exact Or.inl ⟨x, (hmem x).mp hx, rfl, rfl⟩
  | schedFail => exact Or.inl ⟨x, hx, rfl, rfl⟩
  | sched now a t t' p calls q' old hl ht hpc hold hnew hmem hinv =>
    rcases (hmem x).mp hx with rfl | ⟨h1, _⟩
    · exact Or.inr ⟨now, a, rfl, rfl, rfl⟩
    · exact Or.inl ⟨x, h1, rfl, rfl⟩
  | del g n e q1 he hg hn hmem hinv => exact Or.inl ⟨x, ((hmem x).mp hx).1, rfl, rfl⟩
  | pause g n e q1 he hg hn hs hmem hinv =>
    rcases (mem_swap hmem x).mp hx with rfl | ⟨h1, _⟩
    · exact Or.inl ⟨e, he, rfl, rfl⟩
    · exact Or.inl ⟨x, h1, rfl, rfl⟩
  | resumeFail now g n e he hg hn hs hf => exact Or.inl ⟨x, hx, rfl, rfl⟩
  | resume now g n e p q1 he hg hn hs hf hmem hinv =>
    rcases (mem_swap hmem x).mp hx with rfl | ⟨h1, _⟩
    · exact Or.inl ⟨e, he, rfl, rfl⟩
    · exact Or.inl ⟨x, h1, rfl, rfl⟩
  | clear => simp at hx
  | stepAsk now e q1 pv r q' he hmin ha hf hmem1 hq' hinv =>
    rcases hq' with ⟨_, rfl⟩ | ⟨p, _, rfl⟩
    · exact Or.inl ⟨x, ((hmem1 x).mp hx).1, rfl, rfl⟩
    · rcases (mem_swap hmem1 x).mp hx with rfl | ⟨h1, _⟩
      · exact Or.inl ⟨e, he, rfl, rfl⟩
      · exact Or.inl ⟨x, h1, rfl, rfl⟩

theorem run_nokey (thr : Int) (g n : String) (evs : List Ev) (s : SState) (hwf : WF0 s)
    (hnk : ¬ hasKey s.q g n) (hns : ∀ ev ∈ evs, ev.schedulesKey g n = false) :
    ¬ hasKey (run thr s evs).1.q g n := by
  induction evs generalizing s with
  | nil => exact hnk
  | cons ev evs ih =>
    have hk := apply_kind thr s hwf ev
    apply ih _ (kind_wf0 hwf hk) _ (fun ev' hev' => hns ev' (List.mem_cons_of_mem _ hev'))
    rintro ⟨x, hx, hg, hn⟩
    rcases kind_keys hk x hx with ⟨e, he, heg, hen⟩ | ⟨now, a, rfl, hag, han⟩
    · exact hnk ⟨e, he, by rw [heg, hg], by rw [hen, hn]⟩
    · have := hns _ List.mem_cons_self
      simp [Ev.schedulesKey, hag, han, hg, hn] at this

/-! ## a trigger that has nothing more to give -/

/-- one event, seen from a tag whose trigger object is exhausted (`fire` answers `none` and stays) -/
theorem spent_step {thr : Int} {s s' : SState} {ev : Ev} {o : Obs} (hwf : WF s)
    (hk : Kind thr s ev s' o) (t : Nat) (T : Trig) (hT : ∀ pv, T.fire pv = (none, T))
    (hns : ev.schedTag? ≠ some t) (htr : s.trig t = T) :
    s'.trig t = T ∧ (∀ c ∈ o.calls, c.tag = t → c.result = none) ∧
    (∀ x ∈ s'.q.toList, x.tag = t → x.suspended = false →
      x ∈ s.q.toList ∧ ∀ pos d, o.disp? pos = some d → d.tag ≠ t) := by
  have hcalls : ∀ c ∈ o.calls, c.tag = t → c.result = none ∧ s'.trig t = T := by
    intro c hc hct
    rcases kind_calls hk c hc with hst | ⟨e, he, het, hres, htr', _⟩
    · exact absurd (by rw [hst, hct]) hns
    · rw [het, hct, htr, hT] at hres htr'
      exact ⟨hres, htr'⟩
  refine ⟨?_, fun c hc hct => (hcalls c hc hct).1, ?_⟩
  · by_cases hex : ∃ c ∈ o.calls, c.tag = t
    · obtain ⟨c, hc, hct⟩ := hex
      exact (hcalls c hc hct).2
    · rw [kind_trig_frame hk t (fun c hc hct => hex ⟨c, hc, hct⟩) hns]; exact htr
  · intro x hx hxt hxs
    rcases kind_active hwf hk x hx hxs with ⟨pv, hc⟩ | ⟨h1, h2⟩
    · have := (hcalls _ hc hxt).1
      cases this
    · exact ⟨h1, fun pos d hd => by rw [← hxt]; exact h2 pos d hd⟩

theorem dispTime_some_iff (t : Nat) (o : Obs) (f : Int) :
    o.dispTime? t = some f ↔ ∃ d, o.disp? 0 = some d ∧ d.tag = t ∧ d.time = f := by
  unfold Obs.dispTime?
  cases o.disp? 0 with
  | none => simp
  | some d =>
    simp only [Option.some.injEq, exists_eq_left']
    by_cases hd : d.tag = t
    · simp [hd]
    · simp [hd]

/-- all entries with tag `t` are suspended, its trigger is spent: it is never dispatched again -/
theorem run_spent_done (thr : Int) (t : Nat) (T : Trig) (hT : ∀ pv, T.fire pv = (none, T))
    (evs : List Ev) (s : SState) (hwf : WF s) (hft : FreshTags evs) (hff : FreshFor s evs)
    (hns : t ∉ schedTags evs) (htr : s.trig t = T)
    (hdone : ∀ x ∈ s.q.toList, x.tag = t → x.suspended = true) :
    dispatchTimes t (run thr s evs).2 = [] := by
  induction evs generalizing s with
  | nil => rfl
  | cons ev evs ih =>
    have hk := apply_kind thr s hwf.wf0 ev
    obtain ⟨h1, h2, h3⟩ := fresh_cons hft hff hk
    rw [schedTags_cons] at hns
    have hns1 : ev.schedTag? ≠ some t := fun hh => hns (List.mem_append_left _ (by rw [hh]; simp))
    have hns2 : t ∉ schedTags evs := fun hh => hns (List.mem_append_right _ hh)
    obtain ⟨s1, _, s3⟩ := spent_step hwf hk t T hT hns1 htr
    have hdone' : ∀ x ∈ (apply thr s ev).1.q.toList, x.tag = t → x.suspended = true := by
      intro x hx hxt
      cases hxs : x.suspended with
      | true => rfl
      | false =>
        have := hdone x (s3 x hx hxt hxs).1 hxt
        rw [hxs] at this; cases this
    have hnd : (apply thr s ev).2.dispTime? t = none := by
      cases hdt : (apply thr s ev).2.dispTime? t with
      | none => rfl
      | some f =>
        obtain ⟨d, hd, hdt', _⟩ := (dispTime_some_iff _ _ _).mp hdt
        obtain ⟨_, e, _, he, hes, hde, _⟩ := kind_disp hk 0 d hd
        rw [hde] at hdt'
        have := hdone e he hdt'
        rw [hes] at this; cases this
    rw [run_cons]
    unfold dispatchTimes at ih ⊢
    rw [List.filterMap_cons, hnd]
    exact ih _ (kind_wf hwf h1 hk) h2 h3 hns2 s1 hdone'

/-- the trigger of tag `t` is spent and its only possible active entry is `x0`: at most one dispatch,
of `x0.prio`, and every later call on it answers `none` -/
theorem run_spent_once (thr : Int) (t : Nat) (x0 : Entry) (T : Trig) (hT : ∀ pv, T.fire pv = (none, T))
    (evs : List Ev) (s : SState) (hwf : WF s) (hft : FreshTags evs) (hff : FreshFor s evs)
    (hns : t ∉ schedTags evs) (htr : s.trig t = T)
    (hR : ∀ x ∈ s.q.toList, x.tag = t → x.suspended = false → x = x0) :
    (dispatchTimes t (run thr s evs).2 = [] ∨ dispatchTimes t (run thr s evs).2 = [x0.prio]) ∧
    (∀ c ∈ callLog (run thr s evs).2, c.tag = t → c.result = none) ∧
    (run thr s evs).1.trig t = T ∧
    (∀ x ∈ (run thr s evs).1.q.toList, x.tag = t → x.suspended = false → x = x0) := by
  induction evs generalizing s with
  | nil => exact ⟨Or.inl rfl, (fun c hc => by cases hc), htr, hR⟩
  | cons ev evs ih =>
    have hk := apply_kind thr s hwf.wf0 ev
    obtain ⟨h1, h2, h3⟩ := fresh_cons hft hff hk
    rw [schedTags_cons] at hns
    have hns1 : ev.schedTag? ≠ some t := fun hh => hns (List.mem_append_left _ (by rw [hh]; simp))
    have hns2 : t ∉ schedTags evs := fun hh => hns (List.mem_append_right _ hh)
    obtain ⟨s1, s2, s3⟩ := spent_step hwf hk t T hT hns1 htr
    have hwf' := kind_wf hwf h1 hk
    have hR' : ∀ x ∈ (apply thr s ev).1.q.toList, x.tag = t → x.suspended = false → x = x0 :=
      fun x hx hxt hxs => hR x (s3 x hx hxt hxs).1 hxt hxs
    rw [run_cons]
    have hcl : ∀ rest : List Obs, (∀ c ∈ callLog rest, c.tag = t → c.result = none) →
        ∀ c ∈ callLog ((apply thr s ev).2 :: rest), c.tag = t → c.result = none := by
      intro rest hrest c hc hct
      unfold callLog at hc
      rw [List.flatMap_cons, List.mem_append] at hc
      rcases hc with hc | hc
      · exact s2 c hc hct
      · exact hrest c hc hct
    cases hdt : (apply thr s ev).2.dispTime? t with
    | none =>
      obtain ⟨i1, i2, i3, i4⟩ := ih _ hwf' h2 h3 hns2 s1 hR'
      refine ⟨?_, hcl _ i2, i3, i4⟩
      unfold dispatchTimes at i1 ⊢
      rw [List.filterMap_cons, hdt]
      exact i1
    | some f =>
      obtain ⟨d, hd, hdt', hdf⟩ := (dispTime_some_iff _ _ _).mp hdt
      obtain ⟨_, e, _, he, hes, hde, _⟩ := kind_disp hk 0 d hd
      have hf : f = x0.prio := by
        rw [← hdf, hde]
        rw [hde] at hdt'
        rw [← hR e he hdt' hes]
      have hdone' : ∀ x ∈ (apply thr s ev).1.q.toList, x.tag = t → x.suspended = true := by
        intro x hx hxt
        cases hxs : x.suspended with
        | true => rfl
        | false => exact absurd hdt' ((s3 x hx hxt hxs).2 0 d hd)
      obtain ⟨_, i2, i3, i4⟩ := ih _ hwf' h2 h3 hns2 s1 hR'
      have := run_spent_done thr t T hT evs _ hwf' h2 h3 hns2 s1 hdone'
      refine ⟨Or.inr ?_, hcl _ i2, i3, i4⟩
      unfold dispatchTimes at this ⊢
      rw [List.filterMap_cons, hdt, this, hf]

/-- where tag and key of an entry of the new state come from (they travel together) -/
theorem kind_tag_key {thr : Int} {s s' : SState} {ev : Ev} {o : Obs} (hk : Kind thr s ev s' o) :
    ∀ x ∈ s'.q.toList,
      (∃ e ∈ s.q.toList, e.tag = x.tag ∧ e.group = x.group ∧ e.name = x.name) ∨
      (∃ now a, ev = .schedule now a ∧ a.tag = x.tag ∧ a.group = x.group ∧ a.name = x.name) := by
  intro x hx
  cases hk with
  | idle _ _ _ hmem => exact Or.inl ⟨x, (hmem x).mp hx, rfl, rfl, rfl⟩
  | schedFail => exact Or.inl ⟨x, hx, rfl, rfl, rfl⟩
  | sched now a t t' p calls q' old hl ht hpc hold hnew hmem hinv =>
    rcases (hmem x).mp hx with rfl | ⟨h1, _⟩
    · exact Or.inr ⟨now, a, rfl, rfl, rfl, rfl⟩
    · exact Or.inl ⟨x, h1, rfl, rfl, rfl⟩
  | del g n e q1 he hg hn hmem hinv => exact Or.inl ⟨x, ((hmem x).mp hx).1, rfl, rfl, rfl⟩
  | pause g n e q1 he hg hn hs hmem hinv =>
    rcases (mem_swap hmem x).mp hx with rfl | ⟨h1, _⟩
    · exact Or.inl ⟨e, he, rfl, rfl, rfl⟩
    · exact Or.inl ⟨x, h1, rfl, rfl, rfl⟩
  | resumeFail now g n e he hg hn hs hf => exact Or.inl ⟨x, hx, rfl, rfl, rfl⟩
  | resume now g n e p q1 he hg hn hs hf hmem hinv =>
    rcases (mem_swap hmem x).mp hx with rfl | ⟨h1, _⟩
    · exact Or.inl ⟨e, he, rfl, rfl, rfl⟩
    · exact Or.inl ⟨x, h1, rfl, rfl, rfl⟩
  | clear => simp at hx
  | stepAsk now e q1 pv r q' he hmin ha hf hmem1 hq' hinv =>
    rcases hq' with ⟨_, rfl⟩ | ⟨p, _, rfl⟩
    · exact Or.inl ⟨x, ((hmem1 x).mp hx).1, rfl, rfl, rfl⟩
    · rcases (mem_swap hmem1 x).mp hx with rfl | ⟨h1, _⟩
      · exact Or.inl ⟨e, he, rfl, rfl, rfl⟩
      · exact Or.inl ⟨x, h1, rfl, rfl, rfl⟩

/-- a tag keeps its key as long as the trigger object is not scheduled again -/
theorem run_tag_key (thr : Int) (t : Nat) (g n : String) (evs : List Ev) (s : SState) (hwf : WF0 s)
    (hns : t ∉ schedTags evs) (hkey : ∀ x ∈ s.q.toList, x.tag = t → x.group = g ∧ x.name = n) :
    ∀ x ∈ (run thr s evs).1.q.toList, x.tag = t → x.group = g ∧ x.name = n := by
  induction evs generalizing s with
  | nil => exact hkey
  | cons ev evs ih =>
    have hk := apply_kind thr s hwf ev
    rw [schedTags_cons] at hns
    apply ih _ (kind_wf0 hwf hk) (fun hh => hns (List.mem_append_right _ hh))
    intro x hx hxt
    rcases kind_tag_key hk x hx with ⟨e, he, het, heg, hen⟩ | ⟨now, a, rfl, hat, _⟩
    · rw [← heg, ← hen]; exact hkey e he (by rw [het, hxt])
    · exact absurd (List.mem_append_left _ (by simp [Ev.schedTag?, hat, hxt])) hns

theorem dispatchTimes_append (t : Nat) (o1 o2 : List Obs) :
    dispatchTimes t (o1 ++ o2) = dispatchTimes t o1 ++ dispatchTimes t o2 := by
  unfold dispatchTimes; exact List.filterMap_append

theorem dispatchTimes_cons (t : Nat) (o : Obs) (os : List Obs) :
    dispatchTimes t (o :: os) = (o.dispTime? t).toList ++ dispatchTimes t os := by
  unfold dispatchTimes
  rw [List.filterMap_cons]
  cases o.dispTime? t <;> rfl

end Sched
