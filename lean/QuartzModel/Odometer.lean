/-!
# Odometer — generic "mixed-radix counter whose digit validity may depend on more significant
digits", shaped like `internal/csm`: `resetFrom`, `overflowFrom`, the most-to-least-significant
validation pass (`advFrom` = Go `advanceInvalid`), and the loop of `findForward`.

Definitions only (executable); the theory is in `Proofs/Odometer.lean`.
Level 0 is the least significant digit (seconds), level n-1 the most significant (years).
-/
namespace Odo

/-- A configuration: the digit at each level. A structure (not a bare function type) so that the
compiler treats functions returning a `Cfg` as returning a value: with `abbrev Cfg := Nat → Nat`
every `resetFrom …` would be eta-expanded and recomputed at each digit lookup. -/
structure Cfg where
  get : Nat → Nat

instance : CoeFun Cfg (fun _ => Nat → Nat) := ⟨Cfg.get⟩

def set (c : Cfg) (k v : Nat) : Cfg := ⟨fun j => if j = k then v else c j⟩

/-- A level: validity of a digit given the configuration (only higher levels may matter),
    Go-style `Next` returning (value, overflowed) and `Reset`. -/
structure Lvl where
  valid : Cfg → Nat → Prop
  next  : Cfg → Nat → Nat × Bool
  rst   : Cfg → Nat

/-- decidable validity (Go: `isValid`) -/
structure LvlDec (l : Lvl) where
  isValid : Cfg → Nat → Bool
  ok : ∀ c v, isValid c v = true ↔ l.valid c v

variable (L : Nat → Lvl)

/-- Go `resetFrom(k-1)`: reset levels k-1, …, 0 (most significant first) -/
def resetFrom : Nat → Cfg → Cfg
  | 0, c => c
  | k+1, c => resetFrom k (set c k ((L k).rst c))

/-- Go `overflowFrom(k)`; the Bool is `exhausted` (ran past the most significant level) -/
def overflowFrom (n k : Nat) (c : Cfg) : Cfg × Bool :=
  if k ≥ n then (c, true) else
    let r := (L k).next c (c k)
    let c' := set c k r.1
    if r.2 then overflowFrom n (k+1) c' else (resetFrom L k c', false)
termination_by n - k

variable (D : ∀ k, LvlDec (L k))

/-- Go `advanceInvalid`: scan levels m-1 … 0, advance the first invalid one.
`none` = every level valid. -/
def advFrom (n : Nat) : Nat → Cfg → Option (Cfg × Bool)
  | 0, _ => none
  | m+1, c =>
    if (D m).isValid c (c m) then advFrom n m c else
      let r := (L m).next c (c m)
      let c' := resetFrom L m (set c m r.1)
      some (if r.2 then overflowFrom L n (m+1) c' else (c', false))

/-- Go: `for !csm.exhausted && csm.advanceInvalid() {}` with fuel (`none` = out of fuel) -/
def loop (n : Nat) : Nat → Cfg → Option (Cfg × Bool)
  | 0, _ => none
  | f+1, c =>
    match advFrom L D n n c with
    | none => some (c, false)
    | some (c', true) => some (c', true)
    | some (c', false) => loop n f c'

/-- Go `findForward`: `if !advanceInvalid() { next() }` then the loop. -/
def findForward (n fuel : Nat) (p : Cfg) : Option (Cfg × Bool) :=
  let first := match advFrom L D n n p with
    | none => overflowFrom L n 0 p
    | some r => r
  if first.2 then some first else loop L D n fuel first.1

end Odo
