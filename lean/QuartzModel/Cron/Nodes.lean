import QuartzModel.Odometer
import QuartzModel.Cron.Fields
/-!
# Nodes of the cron state machine (model of `internal/csm/common_node.go`, `day_node.go`, `util.go`)

Levels: 0 second, 1 minute, 2 hour, 3 day, 4 month, 5 year (Go `NodeID`).
-/
namespace Cron
open Cal Odo

/-! ## CommonNode -/

/-- Go `nextInRange`: first listed value `> v` and `≤ max`, else wrap to `values[0]` and overflow. -/
def nextInRange (values : List Nat) (max v : Nat) : Nat × Bool :=
  match values.find? (fun x => decide (v < x) && decide (x ≤ max)) with
  | some x => (x, false)
  | none => (values.headD 0, true)

/-- Go `CommonNode.Next` -/
def commonNext (min max : Nat) (values : List Nat) (v : Nat) : Nat × Bool :=
  if values ≠ [] then nextInRange values max v
  else if v + 1 > max then (min, true) else (v + 1, false)

/-- Go `CommonNode.isValid` -/
def commonValid (min max : Nat) (values : List Nat) (v : Nat) : Bool :=
  (decide (min ≤ v) && decide (v ≤ max)) && (values == [] || values.contains v)

/-- Go `CommonNode.Reset`: `value = max; Next()` -/
def commonReset (min max : Nat) (values : List Nat) : Nat := (commonNext min max values max).1

/-! ## Day node -/

def isWeekdayB (y m d : Nat) : Bool := weekday y m d != 6 && weekday y m d != 0

/-- Go `closestWeekday`: search i = 1..7, previous day first, both must stay in the month -/
def closestSearch (y m t dimv : Nat) : Nat → Nat → Nat
  | 0, _ => t
  | fuel+1, i =>
    if i < t ∧ isWeekdayB y m (t - i) then t - i
    else if t + i ≤ dimv ∧ isWeekdayB y m (t + i) then t + i
    else closestSearch y m t dimv fuel (i + 1)

def closestWeekday (y m t : Nat) : Nat :=
  if isWeekdayB y m t then t else closestSearch y m t (dim y m) 7 1

/-- Go `daysOfWeekInMonth` -/
def daysOfWeekInMonth (y m w : Nat) : List Nat :=
  (List.range (dim y m)).filterMap (fun i => if weekday y m (i + 1) = w then some (i + 1) else none)

/-- The day node as configured by `newCSMFromFields`: weekday node iff the day-of-week field has values. -/
structure DayCfg where
  isWeekdayNode : Bool
  n : Int
  values : List Nat          -- day-of-month values (empty for a weekday node)
  wvalues : List Nat         -- weekday values (empty for a month-day node)
  min : Nat
  max : Nat
deriving Repr

def dayCfg (lim : Limits) (f : Fields) : DayCfg :=
  if f.dow.values ≠ [] then
    { isWeekdayNode := true, n := f.dow.n, values := [], wvalues := f.dow.values, min := lim.dayMin, max := lim.dayMax }
  else
    { isWeekdayNode := false, n := f.dom.n, values := f.dom.values, wvalues := [], min := lim.dayMin, max := lim.dayMax }

/-- Go `targetDay` (with `weekdayOfMonth`, `closestWeekdayOfMonth`, `lastDayOfMonth`) -/
def targetDay (dc : DayCfg) (y m : Nat) : Option Nat :=
  if dc.isWeekdayNode then
    let dates := daysOfWeekInMonth y m (dc.wvalues.headD 0)
    if dc.n > (dates.length : Int) then none
    else if dc.n > 0 then dates[dc.n.toNat - 1]?
    else dates.getLast?
  else if dc.n > 0 ∧ dc.n.toNat &&& 2 ≠ 0 then
    let last := dim y m
    let d0 := dc.values.headD 0
    let date := if d0 > last ∨ dc.n.toNat &&& 1 ≠ 0 then last else d0
    some (closestWeekday y m date)
  else
    let offset : Int := if dc.n = 1 then 0 else dc.n
    let day : Int := (dim y m : Int) + offset
    if day ≥ (dc.min : Int) then some day.toNat else none

/-- Go `DayNode.isValid` -/
def dayValid (dc : DayCfg) (y m v : Nat) : Bool :=
  if dc.n ≠ 0 then
    match targetDay dc y m with
    | some t => v == t
    | none => false
  else
    let validDay := commonValid dc.min dc.max dc.values v && decide (v ≤ dim y m)
    if dc.isWeekdayNode then validDay && dc.wvalues.contains (weekday y m v) else validDay

/-- Go `nextWeekday` + `addDays` -/
def nextWeekday (dc : DayCfg) (y m v : Nat) : Nat × Bool :=
  let wd := weekday y m v
  let offset := match dc.wvalues.find? (fun x => decide (wd < x)) with
    | some x => x - wd
    | none => 7 + dc.wvalues.headD 0 - wd
  let nv := v + offset
  let last := dim y m
  if nv > last then (nv - last, true) else (nv, false)

/-- Go `nextDay` -/
def nextDay (dc : DayCfg) (y m v : Nat) : Nat × Bool :=
  let r := commonNext dc.min dc.max dc.values v
  if r.2 then (r.1, true)
  else if r.1 > dim y m then (commonReset dc.min dc.max dc.values, true)
  else (r.1, false)

/-- Go `nextDayN` -/
def nextDayN (dc : DayCfg) (y m v : Nat) : Nat × Bool :=
  match targetDay dc y m with
  | some t => if v < t then (t, false) else (dc.min, true)
  | none => (dc.min, true)

/-- Go `DayNode.Next` -/
def dayNext (dc : DayCfg) (y m v : Nat) : Nat × Bool :=
  if dc.n ≠ 0 then nextDayN dc y m v
  else if dc.isWeekdayNode then nextWeekday dc y m v
  else nextDay dc y m v

/-- Go `DayNode.Reset`: `value = min; findForward()` (overflow ignored) -/
def dayReset (dc : DayCfg) (y m : Nat) : Nat :=
  if dayValid dc y m dc.min then dc.min else (dayNext dc y m dc.min).1

/-! ## The six levels -/

def commonLvl (min max : Nat) (values : List Nat) : Lvl :=
  { valid := fun _ v => commonValid min max values v = true
    next := fun _ v => commonNext min max values v
    rst := fun _ => commonReset min max values }

def dayLvl (dc : DayCfg) : Lvl :=
  { valid := fun c v => dayValid dc (c 5) (c 4) v = true
    next := fun c v => dayNext dc (c 5) (c 4) v
    rst := fun c => dayReset dc (c 5) (c 4) }

/-- `newCSMFromFields` -/
def levels (lim : Limits) (f : Fields) : Nat → Lvl
  | 0 => commonLvl 0 lim.secMax f.sec.values
  | 1 => commonLvl 0 lim.minMax f.min.values
  | 2 => commonLvl 0 lim.hourMax f.hour.values
  | 3 => dayLvl (dayCfg lim f)
  | 4 => commonLvl lim.monthMin lim.monthMax f.month.values
  | 5 => commonLvl lim.yearMin lim.yearMax f.year.values
  | _ => commonLvl 0 0 []

def levelsDec (lim : Limits) (f : Fields) : ∀ k, LvlDec (levels lim f k)
  | 0 => ⟨fun _ v => commonValid 0 lim.secMax f.sec.values v, fun _ _ => Iff.rfl⟩
  | 1 => ⟨fun _ v => commonValid 0 lim.minMax f.min.values v, fun _ _ => Iff.rfl⟩
  | 2 => ⟨fun _ v => commonValid 0 lim.hourMax f.hour.values v, fun _ _ => Iff.rfl⟩
  | 3 => ⟨fun c v => dayValid (dayCfg lim f) (c 5) (c 4) v, fun _ _ => Iff.rfl⟩
  | 4 => ⟨fun _ v => commonValid lim.monthMin lim.monthMax f.month.values v, fun _ _ => Iff.rfl⟩
  | 5 => ⟨fun _ v => commonValid lim.yearMin lim.yearMax f.year.values v, fun _ _ => Iff.rfl⟩
  | _+6 => ⟨fun _ v => commonValid 0 0 [] v, fun _ _ => Iff.rfl⟩

end Cron
