import QuartzModel.Cron.Nodes
/-!
# `CronTrigger.NextFireTime` (model of `quartz/cron.go:79-113`, `internal/csm/cron_state_machine.go`)

The location is abstracted to a `Zone`: the offset in force at a UTC instant and the instant
`time.Date` chooses for a wall-clock reading. `fixedZone c` is UTC / `time.FixedZone`.
-/
namespace Cron
open Cal Odo

inductive Outcome where
  | ok (ns : Int)
  | expired
  | outOfFuel          -- never returned (theorem `nextFire_ne_outOfFuel`)
deriving DecidableEq, Repr, Inhabited

def cfgOfCivil (t : Civil) : Cfg := ⟨fun j =>
  match j with
  | 0 => t.second | 1 => t.minute | 2 => t.hour | 3 => t.day | 4 => t.month | 5 => t.year | _ => 0⟩

def civilOfCfg (c : Cfg) : Civil :=
  { year := c 5, month := c 4, day := c 3, hour := c 2, minute := c 1, second := c 0 }

/-- enough fuel for every start (`Proofs/CronFuel.lean`); one unit = one validation pass -/
def csmFuel : Nat := ((((3940 * 13 + 12) * 32 + 31) * 24 + 23) * 60 + 59) * 60 + 59 + 1

/-- one `newCSMFromFields(wall).NextTriggerTime`: `none` = out of fuel, `some none` = exhausted -/
def csmNext (lim : Limits) (f : Fields) (wall : Civil) : Option (Option Civil) :=
  match findForward (levels lim f) (levelsDec lim f) 6 csmFuel (cfgOfCivil wall) with
  | none => none
  | some (_, true) => some none
  | some (c, false) => some (some (civilOfCfg c))

structure Zone where
  /-- offset (seconds east of UTC) in force at a UTC instant (seconds) -/
  offsetAt : Int → Int
  /-- the UTC instant `time.Date` returns for a wall-clock reading given as seconds-as-if-UTC -/
  date : Int → Int

def fixedZone (c : Int) : Zone := { offsetAt := fun _ => c, date := fun w => w - c }

/-- Go `fires`: the instant shows the wall-clock reading and lies after prev -/
def fires (z : Zone) (next wall prevSec : Int) : Bool :=
  decide (next + z.offsetAt next = wall) && decide (prevSec < next)

/-- the `for` loop of `NextFireTime` -/
def zoneLoop (lim : Limits) (f : Fields) (z : Zone) (prevSec prevOff : Int) : Nat → Civil → Outcome
  | 0, _ => .outOfFuel
  | fuel+1, wall =>
    match csmNext lim f wall with
    | none => .outOfFuel
    | some none => .expired
    | some (some nw) =>
      let w := nw.toSeconds
      let n1 := z.date w
      let next := if fires z n1 w prevSec then n1 else w - prevOff
      if fires z next w prevSec then .ok (next * 1000000000) else zoneLoop lim f z prevSec prevOff fuel nw

/-- `CronTrigger.NextFireTime(prev)` -/
def nextFire (lim : Limits) (f : Fields) (z : Zone) (prevNs : Int) : Outcome :=
  -- the whole second prev lies in: floor division (Int `/` floors for a positive divisor), also before 1970
  let prevSec := prevNs / 1000000000
  let prevOff := z.offsetAt prevSec
  zoneLoop lim f z prevSec prevOff csmFuel (Civil.ofSeconds (prevSec + prevOff))

/-! ## zones with transitions (model of `time.Date`'s two-lookup resolution) -/

structure TZ where
  base : Int
  trans : Array (Int × Int)     -- (start UTC second, offset), ascending

def minI64 : Int := -9223372036854775808
def maxI64 : Int := 9223372036854775807

/-- `Location.lookup`: offset, start and end of the zone period containing `u` -/
def TZ.lookup (z : TZ) (u : Int) : Int × Int × Int := Id.run do
  let mut off := z.base
  let mut start := minI64
  let mut stop := maxI64
  for (s, o) in z.trans do
    if s ≤ u then
      off := o; start := s
    else
      stop := s
      break
  return (off, start, stop)

/-- `time.Date`: guess with the offset at `w` read as UTC, re-look-up if that lands outside the period -/
def TZ.date (z : TZ) (w : Int) : Int :=
  let (off, start, stop) := z.lookup w
  if off ≠ 0 then
    let utc := w - off
    let off' := if utc < start ∨ utc ≥ stop then (z.lookup utc).1 else off
    w - off'
  else w

def TZ.toZone (z : TZ) : Zone := { offsetAt := fun u => (z.lookup u).1, date := z.date }

end Cron
