import QuartzModel.Cron.Fields
/-!
# What a cron expression means (specification, independent of the state machine)

`Matches f t`: the civil date-time `t` satisfies the parsed expression `f`. Declarative: membership
in the value sets plus the day rule, and the "this date-time exists" clauses (`d ≤ dim`, `h ≤ 23`, …),
so "an impossible date is never rolled over" is part of soundness.
-/
namespace Cron
open Cal

def memOrAny (l : List Nat) (v : Nat) : Prop := l = [] ∨ v ∈ l

instance (l : List Nat) (v : Nat) : Decidable (memOrAny l v) := by unfold memOrAny; infer_instance

/-- Monday … Friday -/
def IsWorkday (y m d : Nat) : Prop := weekday y m d ≠ 0 ∧ weekday y m d ≠ 6

instance (y m d : Nat) : Decidable (IsWorkday y m d) := by unfold IsWorkday; infer_instance

def dist (a b : Nat) : Nat := if a ≤ b then b - a else a - b

/-- `d` is the Monday–Friday day of month (y, m) nearest to day `t`, without leaving the month
(`15W`: "nearest weekday to the 15th"; `1W` on a Saturday is Monday the 3rd). -/
def NearestWorkday (y m t d : Nat) : Prop :=
  1 ≤ d ∧ d ≤ dim y m ∧ IsWorkday y m d ∧
  ∀ d', 1 ≤ d' → d' ≤ dim y m → IsWorkday y m d' → dist d t ≤ dist d' t

/-- the day rule; `Fields` carries the day-of-week values already shifted to 0 = Sunday -/
def DayMatches (f : Fields) (y m d : Nat) : Prop :=
  1 ≤ d ∧ d ≤ dim y m ∧
  (if f.dow.values ≠ [] then
     if f.dow.n = 0 then weekday y m d ∈ f.dow.values                     -- weekday set
     else ∃ w, f.dow.values.head? = some w ∧ weekday y m d = w ∧
       (if f.dow.n = -1 then d + 7 > dim y m                              -- wL: last w of the month
        else (((d - 1) / 7 + 1 : Nat) : Int) = f.dow.n)                   -- w#k: k-th w of the month
   else
     if f.dom.n = 0 then memOrAny f.dom.values d                          -- day-of-month set / any
     else if f.dom.n = 1 then d = dim y m                                 -- L
     else if f.dom.n = 2 then
       ∃ t, f.dom.values.head? = some t ∧ NearestWorkday y m (min t (dim y m)) d   -- tW
     else if f.dom.n = 3 then NearestWorkday y m (dim y m) d              -- LW
     else (d : Int) = (dim y m : Int) + f.dom.n)                          -- L-k (n = -k)

/-- last year whose instants fit into int64 Unix nanoseconds ("before the year 2262") -/
def lastYear : Nat := 2261

def Matches (f : Fields) (t : Civil) : Prop :=
  memOrAny f.sec.values t.second ∧ t.second ≤ 59 ∧
  memOrAny f.min.values t.minute ∧ t.minute ≤ 59 ∧
  memOrAny f.hour.values t.hour ∧ t.hour ≤ 23 ∧
  memOrAny f.month.values t.month ∧ 1 ≤ t.month ∧ t.month ≤ 12 ∧
  memOrAny f.year.values t.year ∧ t.year ≤ lastYear ∧
  DayMatches f t.year t.month t.day

end Cron
