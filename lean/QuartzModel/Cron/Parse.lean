import QuartzModel.Cron.Fields
/-!
# Cron expression parser (model of `quartz/cron.go` + `quartz/util.go`)

Strings are `List Char`; the driver decodes the input bytes as UTF-8 and maps every invalid byte to
U+FFFD (which, like in Go's `regexp`/`strings` functions, matches nothing the parser accepts).
Every Go error of the parser wraps `ErrCronParse`; the model returns `none` for all of them.
-/
namespace Cron
abbrev Str := List Char

/-! ## text utilities -/

/-- `strings.Split(s, string(sep))` for a one-character separator (always ≥ 1 element) -/
def splitOn (sep : Char) : Str → List Str
  | [] => [[]]
  | c :: cs =>
    if c = sep then [] :: splitOn sep cs
    else match splitOn sep cs with
      | [] => [[c]]          -- unreachable
      | h :: t => (c :: h) :: t

def isDigit (c : Char) : Bool := '0' ≤ c && c ≤ '9'
def isAlnum (c : Char) : Bool := isDigit c || ('a' ≤ c && c ≤ 'z') || ('A' ≤ c && c ≤ 'Z')

def digitsVal : Str → Nat → Nat
  | [], acc => acc
  | c :: cs, acc => digitsVal cs (acc * 10 + (c.toNat - '0'.toNat))

def maxInt64 : Nat := 9223372036854775807

/-- `strconv.Atoi` on a 64-bit platform: optional sign, at least one digit, digits only, int64 range -/
def atoi (s : Str) : Option Int :=
  let (neg, ds) := match s with
    | '-' :: t => (true, t)
    | '+' :: t => (false, t)
    | _ => (false, s)
  if ds = [] ∨ !ds.all isDigit then none
  else
    let v := digitsVal ds 0
    if neg then (if v ≤ maxInt64 + 1 then some (-(v : Int)) else none)
    else (if v ≤ maxInt64 then some (v : Int) else none)

/-- `unicode.ToUpper` restricted to what can produce an ASCII letter: a–z, U+0131 (ı → I) and
U+017F (ſ → S). Validated over all code points by `cmd/parser -upper`. Other characters are left
alone (their real upper-case forms are non-ASCII and equal no glossary entry either way). -/
def upperChar (c : Char) : Char :=
  if 'a' ≤ c && c ≤ 'z' then Char.ofNat (c.toNat - 32)
  else if c.toNat = 0x131 then 'I'
  else if c.toNat = 0x17F then 'S'
  else c

def monthNames : List Str :=
  ["0", "JAN", "FEB", "MAR", "APR", "MAY", "JUN", "JUL", "AUG", "SEP", "OCT", "NOV", "DEC"].map String.toList
def dayNames : List Str :=
  ["0", "SUN", "MON", "TUE", "WED", "THU", "FRI", "SAT"].map String.toList

def indexOf? (l : List Str) (x : Str) : Option Nat :=
  match l with
  | [] => none
  | h :: t => if h = x then some 0 else (indexOf? t x).map (· + 1)

/-- `translateLiteral` -/
def translateLiteral (glossary : List Str) (lit : Str) : Option Int :=
  (indexOf? glossary (lit.map upperChar)).map (fun i => (i : Int))

/-- `normalize` -/
def normalize (glossary : List Str) (lit : Str) : Option Int :=
  match atoi lit with
  | some v => some v
  | none => translateLiteral glossary lit

def inScope (v lo hi : Int) : Bool := lo ≤ v && v ≤ hi

structure Bound where
  lower : Nat
  upper : Nat
deriving Repr, DecidableEq

/-- `fillRangeValues` (error iff `to < from`) -/
def fillRange (frm to : Nat) : Option (List Nat) :=
  if to < frm then none else some ((List.range (to - frm + 1)).map (· + frm))

/-- `fillStepValues` -/
def fillStep (frm step to : Nat) : Option (List Nat) :=
  if to < frm ∨ step = 0 then none
  else some ((List.range ((to - frm) / step + 1)).map (fun j => frm + j * step))

def insertSorted (x : Nat) : List Nat → List Nat
  | [] => [x]
  | h :: t => if x ≤ h then x :: h :: t else h :: insertSorted x t

/-- `sort.Ints` (the sorted permutation is unique, so any algorithm gives the same list) -/
def sortNat (l : List Nat) : List Nat := l.foldr insertSorted []

/-! ## field parsers -/

/-- `parseRangeField` -/
def parseRange (field : Str) (b : Bound) (names : List Str) : Option (List Nat) :=
  match splitOn '-' field with
  | [a, z] =>
    match normalize names a, normalize names z with
    | some frm, some to =>
      if inScope frm b.lower b.upper && inScope to b.lower b.upper then fillRange frm.toNat to.toNat
      else none
    | _, _ => none
  | _ => none

/-- `parseStepField` -/
def parseStep (field : Str) (b : Bound) (names : List Str) : Option (List Nat) :=
  match splitOn '/' field with
  | [t0, t1] =>
    let fromTo : Option (Int × Int) :=
      if t0 = ['*'] then some (b.lower, b.upper)
      else if t0.contains '-' then
        match splitOn '-' t0 with
        | [a, z] =>
          match normalize names a, normalize names z with
          | some frm, some to => some (frm, to)
          | _, _ => none
        | _ => none
      else (normalize names t0).map (fun frm => (frm, (b.upper : Int)))
    match fromTo, atoi t1 with
    | some (frm, to), some step =>
      if inScope frm b.lower b.upper && inScope step 1 b.upper && inScope to b.lower b.upper
      then fillStep frm.toNat step.toNat to.toNat else none
    | _, _ => none
  | _ => none

def mapM' {α β} (f : α → Option β) : List α → Option (List β)
  | [] => some []
  | a :: as => match f a, mapM' f as with
    | some b, some bs => some (b :: bs)
    | _, _ => none

/-- `parseListField` (with the range check on plain members) -/
def parseList (field : Str) (b : Bound) (names : List Str) : Option (List Nat) :=
  let t := splitOn ',' field
  let steps := t.filter (fun v => v.contains '/')
  let rest := t.filter (fun v => !v.contains '/')
  let ranges := rest.filter (fun v => v.contains '-')
  let plain := rest.filter (fun v => !v.contains '-')
  match mapM' (normalize names) plain with
  | none => none
  | some lits =>
    if !lits.all (fun v => inScope v b.lower b.upper) then none else
    match mapM' (fun s => parseStep s b names) steps, mapM' (fun r => parseRange r b names) ranges with
    | some sv, some rv => some (sortNat (lits.map Int.toNat ++ sv.flatten ++ rv.flatten))
    | _, _ => none

/-- `parseField` -/
def parseField (field : Str) (b : Bound) (names : List Str) : Option Field :=
  if field = ['*'] ∨ field = ['?'] then some { values := [] }
  else if field.contains ',' then (parseList field b names).map (fun v => { values := v })
  else if field.contains '/' then (parseStep field b names).map (fun v => { values := v })
  else if field.contains '-' then (parseRange field b names).map (fun v => { values := v })
  else match normalize names field with
    | some v => if inScope v b.lower b.upper then some { values := [v.toNat] } else none
    | none => none

/-- `^L(-[0-9]+)?$` -/
def matchLastMonthDay (s : Str) : Bool :=
  match s with
  | ['L'] => true
  | 'L' :: '-' :: ds => ds ≠ [] && ds.all isDigit
  | _ => false

/-- `^[0-9]+W$` -/
def matchWeekday (s : Str) : Bool :=
  match s.reverse with
  | 'W' :: ds => ds ≠ [] && ds.all isDigit
  | _ => false

/-- `^[a-zA-Z0-9]*L$` -/
def matchLastWeekday (s : Str) : Bool :=
  match s.reverse with
  | 'L' :: r => r.all isAlnum
  | _ => false

/-- `^[a-zA-Z0-9]+#[0-9]+$` -/
def matchHash (s : Str) : Bool :=
  match splitOn '#' s with
  | [a, k] => a ≠ [] && a.all isAlnum && k ≠ [] && k.all isDigit
  | _ => false

/-- `parseDayOfMonthField` -/
def parseDom (field : Str) (b : Bound) : Option Field :=
  if field.contains 'L' ∧ matchLastMonthDay field then
    if field = ['L'] then some { values := [], n := 1 }
    else match splitOn '-' field with
      | [_, k] => match atoi k with
        | some n => if inScope n b.lower b.upper then some { values := [], n := -n } else none
        | none => none
      | _ => none
  else if field.contains 'W' ∧ field = ['L', 'W'] then some { values := [0], n := 3 }
  else if field.contains 'W' ∧ matchWeekday field then
    match atoi field.dropLast with
    | some d => if inScope d b.lower b.upper then some { values := [d.toNat], n := 2 } else none
    | none => none
  else parseField field b []

/-- `parseDayOfWeekField` (before the `add(-1)`) -/
def parseDow (field : Str) (b : Bound) : Option Field :=
  if field.contains 'L' ∧ matchLastWeekday field then
    let day := field.dropLast
    if day = [] then some { values := [7], n := -1 }
    else match normalize dayNames day with
      | some w => if inScope w b.lower b.upper then some { values := [w.toNat], n := -1 } else none
      | none => none
  else if field.contains '#' ∧ matchHash field then
    match splitOn '#' field with
    | [a, k] =>
      match normalize dayNames a, atoi k with
      | some w, some n =>
        if inScope w b.lower b.upper && inScope n 1 5 then some { values := [w.toNat], n := n } else none
      | _, _ => none
    | _ => none
  else parseField field b dayNames

/-- per-field boundaries of `buildCronField` (regenerated into `Generated/Facts.lean`) -/
structure Bounds where
  sec : Bound := ⟨0, 59⟩
  min : Bound := ⟨0, 59⟩
  hour : Bound := ⟨0, 23⟩
  dom : Bound := ⟨1, 31⟩
  month : Bound := ⟨1, 12⟩
  dow : Bound := ⟨1, 7⟩
  year : Bound := ⟨1970, 3940⟩
deriving Repr, DecidableEq

/-- `buildCronField` -/
def buildFields (bs : Bounds) (tokens : List Str) : Option Fields :=
  match tokens with
  | [t0, t1, t2, t3, t4, t5, t6] =>
    match parseField t0 bs.sec [], parseField t1 bs.min [], parseField t2 bs.hour [],
          parseDom t3 bs.dom, parseField t4 bs.month monthNames, parseDow t5 bs.dow,
          parseField t6 bs.year [] with
    | some f0, some f1, some f2, some f3, some f4, some f5, some f6 =>
      some { sec := f0, min := f1, hour := f2, dom := f3, month := f4,
             dow := { f5 with values := f5.values.map (· - 1) }, year := f6 }
    | _, _, _, _, _, _, _ => none
  | _ => none

def specialTable : List (Str × Str) :=
  [("@yearly", "0 0 0 1 1 *"), ("@monthly", "0 0 0 1 * *"), ("@weekly", "0 0 0 * * 1"),
   ("@daily", "0 0 0 * * *"), ("@hourly", "0 0 * * * *")].map (fun p => (p.1.toList, p.2.toList))

def anyDay (t : Str) : Bool := t = ['?'] || t = ['*']

/-- `parseCronExpression` (input already trimmed) -/
def parseExpr (bs : Bounds) (expr : Str) : Option Fields :=
  let tokens := match specialTable.lookup expr with
    | some v => splitOn ' ' v
    | none => splitOn ' ' expr
  if tokens.length < 6 ∨ tokens.length > 7 then none else
  let tokens := if tokens.length = 6 then tokens ++ [['*']] else tokens
  if !anyDay (tokens.getD 3 []) && !anyDay (tokens.getD 5 []) then none
  else buildFields bs tokens

/-- RE2 `\s` = `[\t\n\f\r ]` -/
def isReSpace (c : Char) : Bool := c = '\t' || c = '\n' || c.toNat = 12 || c = '\r' || c = ' '

/-- `unicode.IsSpace` (what `strings.TrimSpace` strips) -/
def isUniSpace (c : Char) : Bool :=
  let n := c.toNat
  (9 ≤ n && n ≤ 13) || n = 32 || n = 0x85 || n = 0xA0 || n = 0x1680 || (0x2000 ≤ n && n ≤ 0x200A) ||
  n = 0x2028 || n = 0x2029 || n = 0x202F || n = 0x205F || n = 0x3000

/-- `whitespacePattern.ReplaceAllString(s, " ")`; the flag says "inside a run of `\s`" -/
def collapseAux : Bool → Str → Str
  | _, [] => []
  | inRun, c :: cs =>
    if isReSpace c then (if inRun then collapseAux true cs else ' ' :: collapseAux true cs)
    else c :: collapseAux false cs

def collapseSpace (s : Str) : Str := collapseAux false s

def trimSpace (s : Str) : Str := ((s.dropWhile isUniSpace).reverse.dropWhile isUniSpace).reverse

/-- `trimCronExpression` -/
def trimExpr (s : Str) : Str := trimSpace (collapseSpace s)

/-- `ValidateCronExpression` / the parsing half of `NewCronTrigger` -/
def parse (bs : Bounds) (s : Str) : Option Fields := parseExpr bs (trimExpr s)

def allAny (f : Fields) : Bool :=
  f.sec.values == [] && f.min.values == [] && f.hour.values == [] && f.dom.values == [] &&
  f.month.values == [] && f.dow.values == [] && f.year.values == []

/-- the `lastDefined == -1` adjustment of `NewCronTriggerWithLoc` -/
def finish (f : Fields) : Fields :=
  if allAny f then { f with sec := { f.sec with values := List.range 60 } } else f

/-- `NewCronTrigger`: the fields the trigger works with -/
def newTrigger (bs : Bounds) (s : Str) : Option Fields := (parse bs s).map finish

end Cron
