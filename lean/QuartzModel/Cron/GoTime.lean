import QuartzModel.Calendar
import QuartzModel.Generated.Trans
/-!
# `goTime` — the concrete `Generated.Trans.TimeExt` (package `time` on UTC midnights)

A UTC midnight is represented by its day ordinal `Cal.dayNumber y m d` (days counted from year 0), as an `Int`.
`goDate y m d` is `time.Date(y, time.Month(m), d, 0, 0, 0, 0, time.UTC)`: Go first normalises the month
into 1..12 (carrying into the year, floor semantics), then adds `d - 1` days to the first of that month — so
day 0 is the last day of the previous month and day 32 continues into the next month.
Years before 0 are outside the model of `goDate` (`Int.toNat` clamps them); the state machine never produces them.
`Time.Day/Month/Year` are read back with `Cal.civilOfDay`; ordinals `≤ 0` (the days before 0000-01-01, reached
by `closestWeekday`'s `AddDate(0, 0, -i)` when the year node has wrapped to 0) are December of year -1, as in
Go's proleptic calendar. `Time.Weekday` is `(ordinal + 5) % 7` (0 = Sunday), exactly `Cal.weekday`. `Calendar.lean` is validated against Go day by day (`cmd/cal`).
-/
namespace Cron
open Generated.Trans

/-- `time.Date(y, time.Month(m), d, 0, 0, 0, 0, time.UTC)` as a day ordinal -/
def goDate (y m d : Int) : Int :=
  let y' := y + (m - 1) / 12
  let m' := (m - 1) % 12 + 1
  (Cal.dayNumber y'.toNat m'.toNat 1 : Int) + (d - 1)

def goDay (t : Int) : Int := if t ≤ 0 then 31 + t else ((Cal.civilOfDay t.toNat).2.2 : Nat)
def goMonth (t : Int) : Int := if t ≤ 0 then 12 else ((Cal.civilOfDay t.toNat).2.1 : Nat)
def goYear (t : Int) : Int := if t ≤ 0 then -1 else ((Cal.civilOfDay t.toNat).1 : Nat)
def goWeekday (t : Int) : Int := (t + 5) % 7

def goTime : TimeExt :=
  { date := goDate, day := goDay, month := goMonth, year := goYear, weekday := goWeekday }

end Cron
