import QuartzModel.Calendar
/-!
# Parsed cron fields (model of `quartz.cronField` and `CronTrigger.fields`)

`values` is the sorted value list (empty = any value), `n` the marker for the L / W / # day rules:
day-of-month: `1` = L, `-k` = L-k, `2` = dW (values = [d]), `3` = LW (values = [0]);
day-of-week (values already shifted to 0 = Sunday): `-1` = wL, `1..5` = w#k (values = [w]).
-/
namespace Cron

structure Field where
  values : List Nat
  n : Int := 0
deriving DecidableEq, Repr, Inhabited

structure Fields where
  sec : Field
  min : Field
  hour : Field
  dom : Field
  month : Field
  dow : Field
  year : Field
deriving DecidableEq, Repr, Inhabited

/-- node limits handed to the state machine by `quartz/csm.go` (regenerated into
`Generated/Facts.lean` and compared with these defaults by `Theorems/Facts.lean`) -/
structure Limits where
  secMax : Nat := 59
  minMax : Nat := 59
  hourMax : Nat := 23
  dayMin : Nat := 1
  dayMax : Nat := 31
  monthMin : Nat := 1
  monthMax : Nat := 12
  yearMin : Nat := 0
  yearMax : Nat := 2261
deriving DecidableEq, Repr, Inhabited

def Sorted : List Nat → Bool
  | [] => true
  | [_] => true
  | a :: b :: t => a ≤ b && Sorted (b :: t)

def allIn (lo hi : Nat) (l : List Nat) : Bool := l.all (fun v => lo ≤ v && v ≤ hi)

/-- shape of the day-of-month field -/
def domOK (f : Field) : Bool :=
  if f.n = 0 then Sorted f.values && allIn 1 31 f.values
  else if f.n = 1 then f.values == []
  else if f.n = 2 then (match f.values with | [d] => 1 ≤ d && d ≤ 31 | _ => false)
  else if f.n = 3 then f.values == [0]
  else (-31 ≤ f.n && f.n ≤ -1) && f.values == []

/-- shape of the day-of-week field (values shifted to 0..6) -/
def dowOK (f : Field) : Bool :=
  if f.n = 0 then Sorted f.values && allIn 0 6 f.values
  else (f.n = -1 || (1 ≤ f.n && f.n ≤ 5)) && (match f.values with | [w] => w ≤ 6 | _ => false)

/-- What the parser establishes (`Theorems/C07.lean: parse_wellFormed`) and the state machine relies on. -/
def WellFormed (f : Fields) : Bool :=
  f.sec.n = 0 && Sorted f.sec.values && allIn 0 59 f.sec.values &&
  f.min.n = 0 && Sorted f.min.values && allIn 0 59 f.min.values &&
  f.hour.n = 0 && Sorted f.hour.values && allIn 0 23 f.hour.values &&
  domOK f.dom &&
  f.month.n = 0 && Sorted f.month.values && allIn 1 12 f.month.values &&
  dowOK f.dow &&
  f.year.n = 0 && Sorted f.year.values && allIn 1970 3940 f.year.values &&
  -- "day field set twice" is rejected: at most one day field is restricted
  ((f.dom.values == [] && f.dom.n = 0) || (f.dow.values == [] && f.dow.n = 0))

end Cron
