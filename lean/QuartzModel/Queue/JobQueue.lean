import QuartzModel.Queue.Heap
/-!
# The default `JobQueue` (model of `quartz/queue.go:128-253`) and the matchers (`matcher/*.go`)
-/
namespace Queue

inductive QErr where
  | queueEmpty | jobNotFound | jobAlreadyExists
deriving DecidableEq, Repr

def findIdx (a : Arr) (group name : String) : Option Nat :=
  a.findIdx? (fun e => e.name == name && e.group == group)

/-- `jobQueue.Push` -/
def qpush (a : Arr) (e : Entry) : Except QErr Arr :=
  match findIdx a e.group e.name with
  | some i =>
    if e.replace then .ok (hpush (hremove a i).1 e) else .error .jobAlreadyExists
  | none => .ok (hpush a e)

/-- `jobQueue.Pop` -/
def qpop (a : Arr) : Except QErr (Arr × Entry) :=
  match hpop a with
  | (a', some e) => .ok (a', e)
  | (_, none) => .error .queueEmpty

/-- `jobQueue.Head` -/
def qhead (a : Arr) : Except QErr Entry :=
  match a[0]? with
  | some e => .ok e
  | none => .error .queueEmpty

/-- `jobQueue.Get` -/
def qget (a : Arr) (group name : String) : Except QErr Entry :=
  match findIdx a group name with
  | some i => match a[i]? with
    | some e => .ok e
    | none => .error .jobNotFound
  | none => .error .jobNotFound

/-- `jobQueue.Remove` -/
def qremove (a : Arr) (group name : String) : Except QErr (Arr × Entry) :=
  match findIdx a group name with
  | some i => match hremove a i with
    | (a', some e) => .ok (a', e)
    | (_, none) => .error .jobNotFound
  | none => .error .jobNotFound

/-! ## matchers -/

inductive StrOp where
  | equals | startsWith | endsWith | contains
deriving DecidableEq, Repr

/-- `strings.Contains` on code-point lists -/
def isInfix : List Char → List Char → Bool
  | p, [] => p == []
  | p, c :: cs => p.isPrefixOf (c :: cs) || isInfix p cs

def StrOp.apply (op : StrOp) (source pattern : String) : Bool :=
  match op with
  | .equals => source == pattern
  | .startsWith => pattern.toList.isPrefixOf source.toList
  | .endsWith => pattern.toList.reverse.isPrefixOf source.toList.reverse
  | .contains => isInfix pattern.toList source.toList

inductive Matcher where
  | name (op : StrOp) (pattern : String)
  | group (op : StrOp) (pattern : String)
  | status (suspended : Bool)
deriving DecidableEq, Repr

def Matcher.isMatch (m : Matcher) (e : Entry) : Bool :=
  match m with
  | .name op p => op.apply e.name p
  | .group op p => op.apply e.group p
  | .status s => e.suspended == s

/-- `jobQueue.ScheduledJobs(matchers)`: heap-array order, all matchers must match -/
def qlist (a : Arr) (ms : List Matcher) : List Entry :=
  a.toList.filter (fun e => ms.all (fun m => m.isMatch e))

end Queue
