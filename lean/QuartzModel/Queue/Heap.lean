/-!
# `container/heap` on an array of prioritised entries (transcription of Go's `up`, `down`, `Push`,
`Pop`, `Remove`; `Less(i, j) = prio i < prio j` as in `quartz/queue.go`)
-/
namespace Queue

structure Entry where
  group : String
  name : String
  prio : Int
  suspended : Bool := false
  replace : Bool := false
  /-- identity of the scheduled-job object (trigger/job detail it carries) -/
  tag : Nat := 0
deriving DecidableEq, Repr, Inhabited

def Entry.sameKey (a b : Entry) : Bool := a.name == b.name && a.group == b.group

abbrev Arr := Array Entry

def prioAt (a : Arr) (i : Nat) : Int := (a.getD i default).prio

def swp (a : Arr) (i j : Nat) : Arr :=
  if h : i < a.size ∧ j < a.size then a.swap i j h.1 h.2 else a

/-- Go: `for { i := (j-1)/2; if i == j || !less(j, i) { break }; swap(i, j); j = i }` -/
def up (a : Arr) (j : Nat) : Arr :=
  if h : j = 0 then a else
    let i := (j - 1) / 2
    if prioAt a j < prioAt a i then up (swp a i j) i else a
termination_by j
decreasing_by omega

/-- the child `down` compares with: the right one iff it exists and is smaller -/
def child (a : Arr) (i n : Nat) : Nat :=
  if 2 * i + 2 < n ∧ prioAt a (2 * i + 2) < prioAt a (2 * i + 1) then 2 * i + 2 else 2 * i + 1

/-- Go `down(h, i0, n)`; the Bool is `i > i0` (whether the element moved) -/
def down (a : Arr) (i n : Nat) : Arr × Bool :=
  if h : 2 * i + 1 < n then
    let j := child a i n
    if prioAt a j < prioAt a i then
      ((down (swp a i j) j n).1, true)
    else (a, false)
  else (a, false)
termination_by n - i
decreasing_by
  have : j = 2 * i + 2 ∨ j = 2 * i + 1 := by
    simp only [j, child]; split <;> simp
  omega

/-- `heap.Push` -/
def hpush (a : Arr) (e : Entry) : Arr := up (a.push e) a.size

/-- `heap.Pop` (array non-empty) -/
def hpop (a : Arr) : Arr × Option Entry :=
  if a.size = 0 then (a, none) else
    let n := a.size - 1
    let a1 := swp a 0 n
    let a2 := (down a1 0 n).1
    (a2.pop, a2.back?)

/-- `heap.Remove(h, i)` -/
def hremove (a : Arr) (i : Nat) : Arr × Option Entry :=
  if a.size = 0 ∨ i ≥ a.size then (a, none) else
    let n := a.size - 1
    let a2 :=
      if n ≠ i then
        let a1 := swp a i n
        let r := down a1 i n
        if r.2 then r.1 else up r.1 i
      else a
    (a2.pop, a2.back?)

end Queue
