/-!
# Calendar — proleptic Gregorian calendar (model of the parts of Go's `time` package the cron
engine relies on: `time.Date` on valid dates, `Time.Date()`, `Time.Weekday()`, month lengths).

Everything is `Nat`-valued and counted from year 0; `dayNumber 1970 1 1 = epochDay`.
The executable inverse `civilOfDay` is a bounded search, proved correct in `Proofs/CalendarLemmas`.
This file is validated against Go exhaustively (every day 1970-01-01 … 2262-04-11) by `cmd/cal`.
-/
namespace Cal

def IsLeap (y : Nat) : Prop := y % 4 = 0 ∧ (y % 100 ≠ 0 ∨ y % 400 = 0)
instance (y : Nat) : Decidable (IsLeap y) := by unfold IsLeap; infer_instance

/-- days in month `m` (1..12) of year `y` -/
def dim (y m : Nat) : Nat :=
  if m = 2 then (if IsLeap y then 29 else 28)
  else if m = 4 ∨ m = 6 ∨ m = 9 ∨ m = 11 then 30 else 31

/-- days before Jan 1 of year y, counted from year 0 -/
def daysBeforeYear (y : Nat) : Nat :=
  365 * y + (y + 3) / 4 - (y + 99) / 100 + (y + 399) / 400

def monthTable (m : Nat) : Nat :=
  match m with
    | 1 => 0 | 2 => 31 | 3 => 59 | 4 => 90 | 5 => 120 | 6 => 151
    | 7 => 181 | 8 => 212 | 9 => 243 | 10 => 273 | 11 => 304 | 12 => 334 | _ => 0

def daysBeforeMonth (y m : Nat) : Nat :=
  if 2 < m ∧ IsLeap y then monthTable m + 1 else monthTable m

/-- ordinal of the date; linear in `d`, so `d > dim y m` continues into the following month exactly
as `time.Date` normalises it -/
def dayNumber (y m d : Nat) : Nat := daysBeforeYear y + daysBeforeMonth y m + d

def epochDay : Nat := 719529   -- dayNumber 1970 1 1

/-- 0 = Sunday … 6 = Saturday (Go's `time.Weekday`) -/
def weekday (y m d : Nat) : Nat := (dayNumber y m d + 5) % 7

def ValidDate (y m d : Nat) : Prop := 1 ≤ m ∧ m ≤ 12 ∧ 1 ≤ d ∧ d ≤ dim y m

/-- search upwards for the year containing day number `n` -/
def yearSearch : Nat → Nat → Nat → Nat
  | 0, y, _ => y
  | fuel+1, y, n => if daysBeforeYear (y + 1) < n then yearSearch fuel (y + 1) n else y

def yearOfDay (n : Nat) : Nat := yearSearch n ((n - 1) / 366) n

def monthSearch : Nat → Nat → Nat → Nat → Nat
  | 0, _, m, _ => m
  | fuel+1, y, m, r => if m < 12 ∧ daysBeforeMonth y (m + 1) < r then monthSearch fuel y (m + 1) r else m

/-- inverse of `dayNumber` on valid dates -/
def civilOfDay (n : Nat) : Nat × Nat × Nat :=
  let y := yearOfDay n
  let r := n - daysBeforeYear y
  let m := monthSearch 12 y 1 r
  (y, m, r - daysBeforeMonth y m)

/-- A civil date-time. -/
structure Civil where
  year : Nat
  month : Nat
  day : Nat
  hour : Nat
  minute : Nat
  second : Nat
deriving DecidableEq, Repr, Inhabited

def Civil.Valid (t : Civil) : Prop :=
  ValidDate t.year t.month t.day ∧ t.hour ≤ 23 ∧ t.minute ≤ 59 ∧ t.second ≤ 59

/-- seconds since 1970-01-01T00:00:00 of a civil reading (no zone) -/
def Civil.toSeconds (t : Civil) : Int :=
  ((dayNumber t.year t.month t.day : Int) - epochDay) * 86400 + t.hour * 3600 + t.minute * 60 + t.second

/-- civil reading of a count of seconds since 1970-01-01T00:00:00 (floor semantics) -/
def Civil.ofSeconds (s : Int) : Civil :=
  let days := s / 86400          -- Int `/` is floor division for a positive divisor
  let rem := (s % 86400).toNat
  let (y, m, d) := civilOfDay (days + epochDay).toNat
  { year := y, month := m, day := d, hour := rem / 3600, minute := rem % 3600 / 60, second := rem % 60 }

end Cal
