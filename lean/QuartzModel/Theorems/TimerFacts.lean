import QuartzModel.Generated.Facts
/-! # The loop's timer never carries a stale tick (C03, C05, C15)

The interleaving models let a tick happen only when the armed timer has expired ("well-timed runs": `C15_backoff`,
`C05_*`), or treat early ticks as spurious steps that the not-due guard absorbs (`C03_never_early`). With the
timer-channel semantics that go.mod's `go 1.21` selects, `timer.Stop()` and `timer.Reset()` do not take an expired
timer's tick out of `timer.C`; a tick left there would end the NEXT wait at once — in particular a back-off. The loop
resets the timer only (a) after receiving the tick, (b) after the interrupt branch, (c) at the first iteration with a
timer that cannot have expired; the regenerated fact below says that (b) stops the timer and drains an expired one,
so the channel is empty at every `Reset`. (Found as a genuine defect by a third-round sub-agent: without the drain a
failed Pop was retried 88 µs later with RetryInterval 1 s.) -/
namespace Facts
theorem timer_drained_after_interrupt : Generated.Wakeup.interruptStopsAndDrains = true := by decide
end Facts
