import QuartzModel.Generated.Facts
import QuartzModel.Theorems.C10Locks
/-! # The lock discipline of the code as it is (C10; also the atomic-step argument of C09)

`Generated.Mtx.shapes` is regenerated on every run from `/repo/quartz/scheduler.go`: for every method of
`StdScheduler`, the lock operations it performs in order (calls of other methods expanded in place,
deferred unlocks at the end). Every one of them is a program of the lock hierarchy `Bl` (the queue lock
may enclose read-blocks of the lifecycle mutex; nothing else nests), hence — by
`C10_lock_order_reachable` — goroutines that call these methods in any order and any interleaving never
deadlock on the scheduler's own locks. A method that re-enters the RWMutex (`C10_recursive_rlock_deadlocks`)
or inverts the order (`C10_reverse_order_deadlocks`) makes `C10_lock_shapes_good` fail. -/
namespace LockOrder

def opOfTok : String → Option Op
  | "acqA" => some .acqA
  | "relA" => some .relA
  | "acqBr" => some (.acqB .r)
  | "relBr" => some (.relB .r)
  | "acqBw" => some (.acqB .w)
  | "relBw" => some (.relB .w)
  | _ => none

def opsOfToks (l : List String) : Option (List Op) := l.mapM opOfTok

/-- the program of a method of the code as it is (`none`: an operation the extractor could not classify) -/
def codeProg (m : String) : Option (List Op) :=
  (Generated.Mtx.shapes.lookup m).bind opsOfToks

/-- the regenerated programs, decoded -/
def codeProgs : List (Option (List Op)) := Generated.Mtx.shapes.map (fun p => opsOfToks p.2)

/-- every method's lock operations were recognised and form a program of the hierarchy -/
theorem C10_lock_shapes_good :
    codeProgs.all (fun o => match o with | some p => blCheck p | none => false) = true := by decide

/-- the methods that run as threads of their own or are called by users are among them -/
theorem C10_lock_shapes_cover :
    ["ScheduleJob", "DeleteJob", "PauseJob", "ResumeJob", "Clear", "GetJobKeys", "GetScheduledJob", "IsStarted",
     "Start", "Stop", "stopRun", "startExecutionLoop"].all
      (fun m => (Generated.Mtx.shapes.lookup m).isSome) = true := by decide

theorem codeProg_good {m : String} {p : List Op} (h : codeProg m = some p) : Bl p := by
  have hall := C10_lock_shapes_good
  unfold codeProg at h
  cases hl : Generated.Mtx.shapes.lookup m with
  | none => rw [hl] at h; cases h
  | some toks =>
    rw [hl] at h
    have hmem : (m, toks) ∈ Generated.Mtx.shapes := by
      have := List.lookup_eq_some_iff.1 hl
      obtain ⟨l1, l2, hh, _⟩ := this
      rw [hh]; simp
    have : (opsOfToks toks) ∈ codeProgs := List.mem_map.2 ⟨(m, toks), hmem, rfl⟩
    have hc := List.all_eq_true.1 hall _ this
    simp only [Option.bind] at h
    rw [h] at hc
    exact blCheck_sound hc

/-- **No deadlock on the scheduler's locks, for the code as it is.** Any number of goroutines, each
calling any sequence of `StdScheduler` methods (API calls, the execution loop, the context watcher's
`stopRun`), any interleaving, with Go's writer-preferring `RWMutex`: no reachable state is deadlocked. -/
theorem C10_no_lock_deadlock_code (threads : List (List String))
    (progs : List (List (List Op)))
    (hlen : progs.length = threads.length)
    (h : ∀ i (hi : i < threads.length), (threads[i]).map codeProg = (progs[i]'(hlen ▸ hi)).map some)
    {s : State} (hr : Reach (initState (progs.map List.flatten)) s) : deadlocked s = false := by
  refine C10_lock_order_reachable _ ?_ hr
  intro p hp
  obtain ⟨ps, hps, rfl⟩ := List.mem_map.1 hp
  obtain ⟨i, hi, rfl⟩ := List.getElem_of_mem hps
  have hi' : i < threads.length := hlen ▸ hi
  have hm := h i hi'
  -- every block of `ps` is the program of a real method
  have hblocks : ∀ q ∈ progs[i], Bl q := by
    intro q hq
    obtain ⟨j, hj, rfl⟩ := List.getElem_of_mem hq
    have hlen2 : (threads[i]).length = (progs[i]).length := by
      have := congrArg List.length hm
      simpa using this
    have hj' : j < (threads[i]).length := hlen2 ▸ hj
    have := congrArg (fun l => l[j]?) hm
    simp only [List.getElem?_map, List.getElem?_eq_getElem hj', List.getElem?_eq_getElem hj, Option.map_some] at this
    have hcp : codeProg (threads[i])[j] = some (progs[i])[j] := by simpa using this
    exact codeProg_good hcp
  -- concatenation of blocks
  clear hm
  generalize progs[i] = blocks at hblocks
  induction blocks with
  | nil => exact Bl.nil
  | cons b rest ih =>
    rw [List.flatten_cons]
    exact Bl_append (hblocks b List.mem_cons_self) (ih (fun q hq => hblocks q (List.mem_cons_of_mem _ hq)))

/-- non-vacuity: ScheduleJob takes the queue lock and, inside it, the lifecycle mutex for reading -/
example : codeProg "ScheduleJob" = some [.acqA, .acqB .r, .relB .r, .relA] ∧
    codeProg "Stop" = some [.acqB .w, .relB .w] ∧ codeProg "IsStarted" = some [.acqB .r, .relB .r] := by decide

end LockOrder
