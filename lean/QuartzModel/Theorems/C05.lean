import QuartzModel.Generated.Facts
import QuartzModel.Proofs.WakeupLemmas
/-!
# C05 — a due job is dispatched promptly after any queue change (no lost wake-up)

Model: `Sched/Wakeup.lean` (execution loop × API calls × the `interrupt` channel, all interleavings, any number of
API calls, no fairness or timing assumption). The theorems are stated for an arbitrary parameter record `P`
satisfying the decidable well-formedness `WF P`; the facts regenerated from /repo's source are plugged in at the end
(`C05_facts_wf`, `C05_holds`), so a changed channel capacity, a blocking `Reset()`, a dropped or misplaced `Reset()`
call or a changed loop order breaks the `decide` and with it the proof.

What is proved: in every reachable state, a loop that is blocked in `select` with no token pending and no API call
between its mutation and its `Reset()` has a timer armed no later than the earliest fire time of the *current* queue
(`C05_parked_correct`), and a pending token always leads back to `Size()` (`C05_token_rereads`).
What is observed, not proved: "promptly" in wall-clock terms additionally needs the Go timer to fire close to its
deadline and the loop goroutine to be scheduled; the scenario harness `qh wakeup` measures that on the real scheduler.
-/
namespace Generated.Wakeup

/-- the regenerated facts as a parameter record of the model -/
def facts : _root_.Wakeup.Params where
  cap := interruptCap
  nonBlocking := resetNonBlocking
  sends := fun
    | .schedule => scheduleJob.1 | .delete => deleteJob.1 | .pause => pauseJob.1
    | .resume => resumeJob.1 | .clear => clear.1
  sendAfter := fun
    | .schedule => scheduleJob.2.1 | .delete => deleteJob.2.1 | .pause => pauseJob.2.1
    | .resume => resumeJob.2.1 | .clear => clear.2.1
  underLock := fun
    | .schedule => scheduleJob.2.2 | .delete => deleteJob.2.2 | .pause => pauseJob.2.2
    | .resume => resumeJob.2.2 | .clear => clear.2.2
  stepSends := fetchAndReschedule.1 && fetchAndReschedule.2.1
  rereads := loopRereads && decide (loopOrder = ["backingOff", "Size unless backingOff", "calculateNextTick", "timer.Reset", "select"])

end Generated.Wakeup

namespace Wakeup

/-- In every reachable state: if the earliest fire time has moved forward since the loop last read the queue, then
    a token is pending, or the mutating API call has its `Reset()` still ahead of it, or the loop has not yet passed
    the point where it reads the queue (it will read again before blocking). -/
theorem C05_invariant (P : Params) (hP : WF P) (s : St) (hr : Reachable P s) :
    s.dirty = true → s.token > 0 ∨ sendPending P s = true ∨ s.pc.beforeRead = true := by
  obtain ⟨q0, as, h⟩ := hr
  exact (inv_run P hP (init q0) as (inv_init P q0) s h).1

/-- No lost wake-up, for all interleavings of any number of API calls with the loop: whenever the loop is blocked
    in `select`, no token is pending and no API call is between its mutation and its `Reset()`, the armed timer
    fires no later than the earliest fire time of the current queue. -/
theorem C05_parked_correct (P : Params) (hP : WF P) (q0 : Due) (as : List Act) (s : St)
    (hr : run P (init q0) as = some s) (d : Deadline) (hpc : s.pc = .inSelect d)
    (htok : s.token = 0) (hapi : s.inFlight = false) : d.covers s.q = true := by
  obtain ⟨i1, _, i3⟩ := inv_run P hP (init q0) as (inv_init P q0) s hr
  apply i3 d (Or.inr hpc)
  cases hd : s.dirty
  · rfl
  · rcases i1 hd with h | h | h
    · omega
    · revert h hapi; unfold sendPending St.inFlight; cases s.api <;> simp
    · simp [hpc, Pc.beforeRead] at h

/-- the same, as unreachability of a lost state -/
theorem C05_never_lost (P : Params) (hP : WF P) (s : St) (hr : Reachable P s) : ¬ Lost s := by
  obtain ⟨q0, as, h⟩ := hr
  rintro ⟨d, hpc, htok, hapi, hc⟩
  have := C05_parked_correct P hP q0 as s h d hpc htok (by simp [St.inFlight, hapi])
  simp [this] at hc

/-- A pending token is never ignored: a loop blocked in `select` with a token can take it (nothing else is needed
    for that step), and taking it leads to `Size()`, i.e. to a fresh read of the queue. -/
theorem C05_token_rereads (P : Params) (hP : WF P) (s : St) (d : Deadline) (hpc : s.pc = .inSelect d)
    (htok : s.token > 0) :
    step P s .loopWakeToken = some { s with token := s.token - 1, pc := .atSize } := by
  simp [step, hpc, htok, afterWake, hP.2.2.1]

/-- a send under well-formed facts never blocks (`Reset()` cannot deadlock the caller or the loop) -/
theorem C05_send_never_blocks (P : Params) (hP : WF P) (s : St) : (send P s).isSome = true := by
  obtain ⟨n, _, h⟩ := send_wf hP s
  simp [h]

/-! ## The facts of the current source are well-formed -/

theorem C05_facts_wf : WF Generated.Wakeup.facts := by decide

theorem C05_holds (q0 : Due) (as : List Act) (s : St)
    (hr : run Generated.Wakeup.facts (init q0) as = some s) (d : Deadline) (hpc : s.pc = .inSelect d)
    (htok : s.token = 0) (hapi : s.inFlight = false) : d.covers s.q = true :=
  C05_parked_correct Generated.Wakeup.facts (by decide) q0 as s hr d hpc htok hapi

/-! ## Negative controls: each ingredient of `WF` is needed

Starting from any well-formed `P`, changing one fact makes a lost-wake-up state reachable. -/

def setMut (f : Mut → Bool) (m : Mut) (b : Bool) : Mut → Bool := fun x => if x = m then b else f x

/-- capacity 0 (unbuffered channel, non-blocking send): a `Reset()` issued while the loop is between `timer.Reset`
    and `select` finds no receiver and is dropped. -/
theorem C05_lost_unbuffered (P : Params) (hP : WF P) :
    ∃ s, Reachable { P with cap := 0 } s ∧ Lost s := by
  have hs := (hP.mut .schedule rfl)
  refine ⟨{ q := some 5, token := 0, pc := .inSelect .never, api := .idle, dirty := true },
    ⟨none, [.loopSize false, .loopHead .never, .apiLock .schedule, .apiMutate (some 5), .apiSend, .apiUnlock,
      .loopSelect], ?_⟩, ⟨.never, rfl, rfl, rfl, rfl⟩⟩
  simp [run, step, init, send, setQ, Due.lt, Mut.allowed, hs.1, hs.2, hP.2.1]

/-- a mutator that can bring the earliest fire time forward but does not call `Reset()` -/
theorem C05_lost_without_send (P : Params) (hP : WF P) (m : Mut) (hm : m.canDecrease = true) :
    ∃ s, Reachable { P with sends := setMut P.sends m false } s ∧ Lost s := by
  have hs := (hP.mut m hm)
  refine ⟨{ q := some 5, token := 0, pc := .inSelect .never, api := .idle, dirty := true },
    ⟨none, [.loopSize false, .loopHead .never, .loopSelect, .apiLock m, .apiMutate (some 5), .apiSend,
      .apiUnlock], ?_⟩, ⟨.never, rfl, rfl, rfl, rfl⟩⟩
  have ha : m.allowed none (some 5) = true := by cases m <;> simp [Mut.canDecrease] at hm <;> rfl
  simp [run, step, init, setQ, Due.lt, ha, hs.2, setMut]

/-- `Reset()` before the mutation: the loop takes the token, reads the still unchanged queue and parks again -/
theorem C05_lost_send_before (P : Params) (hP : WF P) (m : Mut) (hm : m.canDecrease = true) :
    ∃ s, Reachable { P with sendAfter := setMut P.sendAfter m false } s ∧ Lost s := by
  have hs := (hP.mut m hm)
  have hcap : 0 < P.cap := hP.1
  refine ⟨{ q := some 5, token := 0, pc := .inSelect .never, api := .idle, dirty := true },
    ⟨none, [.loopSize false, .loopHead .never, .loopSelect, .apiLock m, .apiSend, .loopWakeToken,
      .loopSize false, .loopHead .never, .loopSelect, .apiMutate (some 5), .apiUnlock], ?_⟩,
    ⟨.never, rfl, rfl, rfl, rfl⟩⟩
  have ha : m.allowed none (some 5) = true := by cases m <;> simp [Mut.canDecrease] at hm <;> rfl
  simp [run, step, init, send, setQ, Due.lt, ha, hs.1, setMut, hcap, afterWake, hP.2.2.1]

/-- a loop that goes back to waiting on the old timer after an interrupt, without reading the queue again -/
theorem C05_lost_without_reread (P : Params) (hP : WF P) :
    ∃ s, Reachable { P with rereads := false } s ∧ Lost s := by
  have hs := (hP.mut .schedule rfl)
  have hcap : 0 < P.cap := hP.1
  refine ⟨{ q := some 5, token := 0, pc := .inSelect .never, api := .idle, dirty := true },
    ⟨none, [.loopSize false, .loopHead .never, .loopSelect, .apiLock .schedule, .apiMutate (some 5), .apiSend,
      .apiUnlock, .loopWakeToken, .loopSelect], ?_⟩, ⟨.never, rfl, rfl, rfl, rfl⟩⟩
  simp [run, step, init, send, setQ, Due.lt, Mut.allowed, hs.1, hs.2, hcap, afterWake]

/-- a blocking `Reset()` does not lose wake-ups but deadlocks: the loop signalling itself from
    `fetchAndReschedule` with a full channel blocks forever while holding `queueLocker`. -/
theorem C05_blocking_send_deadlocks (P : Params) (hP : WF P) (hstep : P.stepSends = true) :
    ∃ s, Reachable { P with nonBlocking := false, cap := 1 } s ∧ s.pc = .stepping ∧
      ∀ a, step { P with nonBlocking := false, cap := 1 } s a = none := by
  have hs := (hP.mut .schedule rfl)
  refine ⟨{ q := some 5, token := 1, pc := .stepping, api := .idle, dirty := true },
    ⟨none, [.loopSize false, .loopHead .never, .loopSelect, .apiLock .schedule, .apiMutate (some 5), .apiSend,
      .apiUnlock, .loopTick, .loopLock], ?_⟩, rfl, ?_⟩
  · simp [run, step, init, send, setQ, Due.lt, Mut.allowed, hs.1, hs.2]
  · intro a
    cases a <;> simp [step, send, setQ, hstep]

/-! ## Non-vacuity -/

/-- a well-formed parameter record exists and the scenario "loop parked on an empty queue, a job is scheduled,
    the loop wakes, re-reads and parks on the new deadline" is a run of the model ending in a parked state. -/
example : run Generated.Wakeup.facts (init none)
    [.loopSize false, .loopHead .never, .loopSelect, .apiLock .schedule, .apiMutate (some 5), .apiSend, .apiUnlock,
     .loopWakeToken, .loopSize true, .loopHead (.at 5), .loopSelect] =
    some { q := some 5, token := 0, pc := .inSelect (.at 5), api := .idle, dirty := false } := by decide

/-- the premise of the invariant is satisfiable: `dirty` is set in reachable states -/
example : Reachable Generated.Wakeup.facts
    { q := some 7, token := 1, pc := .inSelect .never, api := .tokenSent .resume, dirty := true } :=
  ⟨none, [.loopSize false, .loopHead .never, .loopSelect, .apiLock .resume, .apiMutate (some 7), .apiSend], by decide⟩

/-- … and so is the in-flight exception: parked on a stale deadline while the caller is before its `Reset()` -/
example : Reachable Generated.Wakeup.facts
    { q := some 7, token := 0, pc := .inSelect .never, api := .mutated .resume, dirty := true } :=
  ⟨none, [.loopSize false, .loopHead .never, .loopSelect, .apiLock .resume, .apiMutate (some 7)], by decide⟩

end Wakeup
