import QuartzModel.Sched.Model
import QuartzModel.Sched.History
import QuartzModel.Theorems.C11
import QuartzModel.Proofs.SchedLemmas
/-!
# C09 (sequential part) — the registry API

"keys are unique unless Replace is set, each call returns its documented sentinel error exactly when
its precondition fails, and a call that returns an error leaves the registry unchanged."

Model: `QuartzModel/Sched/Model.lean` (`schedule`, `delete`, `pause`, `resume`, `clear`) over the
default-queue model.  The registry is `SState.q`; trigger objects (`SState.trigs`) may change state in
a failing call (a trigger that was asked has been asked), the registry may not.
`Inv` (heap order + pairwise distinct keys) holds in every reachable state (`C09_keys_unique`).
-/
namespace Sched
open Queue

/-! ## a call that returns an error leaves the registry unchanged -/

theorem C09_schedule_error_unchanged (s : SState) (now : Int) (a : SchedArgs)
    (herr : (schedule s now a).2.1 ≠ none) : (schedule s now a).1.q = s.q := by
  rcases schedule_cases s now a with ⟨_, h⟩ | ⟨_, _, h⟩ | ⟨_, _, t, p, t', calls, _, _, ⟨e, _, h⟩ | ⟨q', _, h⟩⟩
  · rw [h]
  · rw [h]
  · rw [h]
  · rw [h] at herr; exact absurd rfl herr

/-- in fact a failing `ScheduleJob` changes nothing at all in the scheduler state (the trigger object
handed in is not yet known to the scheduler) -/
theorem C09_schedule_error_state_unchanged (s : SState) (now : Int) (a : SchedArgs)
    (herr : (schedule s now a).2.1 ≠ none) : (schedule s now a).1 = s := by
  rcases schedule_cases s now a with ⟨_, h⟩ | ⟨_, _, h⟩ | ⟨_, _, t, p, t', calls, _, _, ⟨e, _, h⟩ | ⟨q', _, h⟩⟩
  · rw [h]
  · rw [h]
  · rw [h]
  · rw [h] at herr; exact absurd rfl herr

theorem C09_delete_error_unchanged (s : SState) (hk : Bool) (g n : String)
    (herr : (delete s hk g n).2 ≠ none) : (delete s hk g n).1.q = s.q := by
  cases hk with
  | false => rfl
  | true =>
    unfold delete at herr ⊢
    cases hr : qremove s.q g n with
    | ok r =>
      rw [hr] at herr
      exact absurd rfl herr
    | error e => rfl

theorem C09_pause_error_unchanged (s : SState) (hk : Bool) (g n : String) (h : Inv s.q)
    (herr : (pause s hk g n).2 ≠ none) : (pause s hk g n).1.q = s.q := by
  cases hk with
  | false => rfl
  | true =>
    by_cases hkey : hasKey s.q g n
    · obtain ⟨e, hq, _, _, _⟩ := qget_spec s.q h g n hkey
      cases hs : e.suspended with
      | true => rw [pause_suspended s g n e hq hs]
      | false =>
        obtain ⟨q1, _, _, _, _, _, hp⟩ := pause_active s g n e h hq hs
        rw [hp] at herr
        exact absurd rfl herr
    · rw [pause_missing s g n h hkey]

theorem C09_resume_error_unchanged (s : SState) (now : Int) (hk : Bool) (g n : String) (h : Inv s.q)
    (herr : (resume s now hk g n).2.1 ≠ none) : (resume s now hk g n).1.q = s.q := by
  cases hk with
  | false => rfl
  | true =>
    by_cases hkey : hasKey s.q g n
    · obtain ⟨e, hq, _, _, _⟩ := qget_spec s.q h g n hkey
      cases hs : e.suspended with
      | false => rw [resume_active s now g n e hq hs]
      | true =>
        cases hf : ((s.trig e.tag).fire now).1 with
        | none => rw [resume_trigger_error s now g n e hq hs hf]; rfl
        | some p =>
          obtain ⟨q1, _, _, _, _, _, hp⟩ := resume_ok s now g n e p h hq hs hf
          rw [hp] at herr
          exact absurd rfl herr
    · rw [resume_missing s now g n h hkey]

/-! ## each call returns its sentinel error exactly when its precondition fails -/

/-- in a key-distinct queue a property of "the entry with key (g, n)" can be read off any witness -/
theorem the_entry_iff {a : Arr} (h : Inv a) {e : Entry} (he : e ∈ a.toList) {g n : String}
    (hg : e.group = g) (hn : e.name = n) (P : Entry → Prop) :
    (∃ x ∈ a.toList, x.group = g ∧ x.name = n ∧ P x) ↔ P e := by
  constructor
  · rintro ⟨x, hx, hxg, hxn, hP⟩
    have : x = e := keysDistinct_unique a h.2 x e hx he ⟨by rw [hxn, hn], by rw [hxg, hg]⟩
    rwa [this] at hP
  · intro hP; exact ⟨e, he, hg, hn, hP⟩

/-- `ScheduleJob`: illegalArgument iff a nil / empty argument; otherwise triggerError iff the
(non-suspended) trigger answers with an error; otherwise jobAlreadyExists iff the key is present and
`Replace` is not set; otherwise success. -/
theorem C09_schedule_error_iff (s : SState) (now : Int) (a : SchedArgs) (h : Inv s.q) :
    ((schedule s now a).2.1 = some .illegalArgument ↔ a.illegal) ∧
    ((schedule s now a).2.1 = some .triggerError ↔ ¬ a.illegal ∧ a.trigFails now) ∧
    ((schedule s now a).2.1 = some .jobAlreadyExists ↔
      ¬ a.illegal ∧ ¬ a.trigFails now ∧ hasKey s.q a.group a.name ∧ a.replace = false) ∧
    ((schedule s now a).2.1 = none ↔
      ¬ a.illegal ∧ ¬ a.trigFails now ∧ ¬ (hasKey s.q a.group a.name ∧ a.replace = false)) := by
  rcases schedule_cases s now a with ⟨hl, hs⟩ | ⟨hl, hf, hs⟩ |
    ⟨hl, hf, t, p, t', calls, _, _, ⟨e, hq, hs⟩ | ⟨q', hq, hs⟩⟩
  · rw [hs]; simp [hl]
  · rw [hs]; simp [hl, hf]
  · rw [hs]
    rcases sched_push_cases s.q a p h with ⟨hq', hk, hr⟩ | ⟨_, hq'⟩ | ⟨_, _, q', _, _, _, hq', _⟩
    · rw [hq] at hq'
      injection hq' with hq'
      subst hq'
      simp [hl, hf, hk, hr, ofQErr]
    · rw [hq] at hq'; cases hq'
    · rw [hq] at hq'; cases hq'
  · rw [hs]
    rcases sched_push_cases s.q a p h with ⟨hq', hk, hr⟩ | ⟨hk, _⟩ | ⟨hr, _⟩
    · rw [hq] at hq'; cases hq'
    · simp [hl, hf, hk]
    · simp [hl, hf, hr]

/-- `DeleteJob`: illegalArgument iff nil key; otherwise jobNotFound iff the key is absent -/
theorem C09_delete_error_iff (s : SState) (hk : Bool) (g n : String) (h : Inv s.q) :
    ((delete s hk g n).2 = some .illegalArgument ↔ hk = false) ∧
    ((delete s hk g n).2 = some .jobNotFound ↔ hk = true ∧ ¬ hasKey s.q g n) ∧
    ((delete s hk g n).2 = none ↔ hk = true ∧ hasKey s.q g n) := by
  cases hk with
  | false => rw [delete_nokey]; simp
  | true =>
    by_cases hkey : hasKey s.q g n
    · obtain ⟨q1, e, _, _, _, _, _, _, _, hd⟩ := delete_present s g n h hkey
      rw [hd]; simp [hkey]
    · rw [delete_missing s g n h hkey]; simp [hkey]

/-- `PauseJob`: illegalArgument iff nil key; otherwise jobNotFound iff the key is absent; otherwise
jobIsSuspended iff the entry is marked suspended -/
theorem C09_pause_error_iff (s : SState) (hk : Bool) (g n : String) (h : Inv s.q) :
    ((pause s hk g n).2 = some .illegalArgument ↔ hk = false) ∧
    ((pause s hk g n).2 = some .jobNotFound ↔ hk = true ∧ ¬ hasKey s.q g n) ∧
    ((pause s hk g n).2 = some .jobIsSuspended ↔
      hk = true ∧ ∃ e ∈ s.q.toList, e.group = g ∧ e.name = n ∧ e.suspended = true) ∧
    ((pause s hk g n).2 = none ↔
      hk = true ∧ ∃ e ∈ s.q.toList, e.group = g ∧ e.name = n ∧ e.suspended = false) := by
  cases hk with
  | false => rw [pause_nokey]; simp
  | true =>
    by_cases hkey : hasKey s.q g n
    · obtain ⟨e, hq, he, hg, hn⟩ := qget_spec s.q h g n hkey
      rw [the_entry_iff h he hg hn (fun x => x.suspended = true),
        the_entry_iff h he hg hn (fun x => x.suspended = false)]
      cases hs : e.suspended with
      | true => rw [pause_suspended s g n e hq hs]; simp [hkey]
      | false =>
        obtain ⟨q1, _, _, _, _, _, hp⟩ := pause_active s g n e h hq hs
        rw [hp]; simp [hkey]
    · rw [pause_missing s g n h hkey]
      have hno : ∀ b, ¬ ∃ e ∈ s.q.toList, e.group = g ∧ e.name = n ∧ e.suspended = b :=
        fun b ⟨e, he, hg, hn, _⟩ => hkey ⟨e, he, hg, hn⟩
      simp only [hno, hkey]
      simp

/-- `ResumeJob`: illegalArgument iff nil key; otherwise jobNotFound iff the key is absent; otherwise
jobIsActive iff the entry is not suspended; otherwise triggerError iff its trigger, asked with the
clock reading of the call, answers with an error -/
theorem C09_resume_error_iff (s : SState) (now : Int) (hk : Bool) (g n : String) (h : Inv s.q) :
    ((resume s now hk g n).2.1 = some .illegalArgument ↔ hk = false) ∧
    ((resume s now hk g n).2.1 = some .jobNotFound ↔ hk = true ∧ ¬ hasKey s.q g n) ∧
    ((resume s now hk g n).2.1 = some .jobIsActive ↔
      hk = true ∧ ∃ e ∈ s.q.toList, e.group = g ∧ e.name = n ∧ e.suspended = false) ∧
    ((resume s now hk g n).2.1 = some .triggerError ↔
      hk = true ∧ ∃ e ∈ s.q.toList, e.group = g ∧ e.name = n ∧
        (e.suspended = true ∧ ((s.trig e.tag).fire now).1 = none)) ∧
    ((resume s now hk g n).2.1 = none ↔
      hk = true ∧ ∃ e ∈ s.q.toList, e.group = g ∧ e.name = n ∧
        (e.suspended = true ∧ ((s.trig e.tag).fire now).1 ≠ none)) := by
  cases hk with
  | false => rw [resume_nokey]; simp
  | true =>
    by_cases hkey : hasKey s.q g n
    · obtain ⟨e, hq, he, hg, hn⟩ := qget_spec s.q h g n hkey
      rw [the_entry_iff h he hg hn (fun x => x.suspended = false),
        the_entry_iff h he hg hn (fun x => x.suspended = true ∧ ((s.trig x.tag).fire now).1 = none),
        the_entry_iff h he hg hn (fun x => x.suspended = true ∧ ((s.trig x.tag).fire now).1 ≠ none)]
      cases hs : e.suspended with
      | false => rw [resume_active s now g n e hq hs]; simp [hkey]
      | true =>
        cases hf : ((s.trig e.tag).fire now).1 with
        | none => rw [resume_trigger_error s now g n e hq hs hf]; simp [hkey]
        | some p =>
          obtain ⟨q1, _, _, _, _, _, hp⟩ := resume_ok s now g n e p h hq hs hf
          rw [hp]; simp [hkey]
    · rw [resume_missing s now g n h hkey]
      have hno : ∀ P : Entry → Prop, ¬ ∃ e ∈ s.q.toList, e.group = g ∧ e.name = n ∧ P e :=
        fun P ⟨e, he, hg, hn, _⟩ => hkey ⟨e, he, hg, hn⟩
      simp only [hno, hkey]
      simp


/-! ## keys are unique (unless Replace is set: then the old entry is replaced) -/

/-- every state reachable from the empty scheduler, by any history whatsoever, is a heap with
pairwise distinct job keys -/
theorem C09_keys_unique (thr : Int) (evs : List Ev) : Inv (run thr {} evs).1.q :=
  run_inv thr evs {} inv_empty

/-- hence at most one entry per key -/
theorem C09_keys_unique_entry (thr : Int) (evs : List Ev) (x y : Entry)
    (hx : x ∈ (run thr {} evs).1.q.toList) (hy : y ∈ (run thr {} evs).1.q.toList)
    (hk : x.group = y.group ∧ x.name = y.name) : x = y :=
  keysDistinct_unique _ (C09_keys_unique thr evs).2 x y hx hy ⟨hk.2, hk.1⟩

/-- the positions of a key in the queue array: at most one -/
theorem C09_keys_unique_count (thr : Int) (evs : List Ev) (g n : String) :
    ((run thr {} evs).1.q.toList.filter (fun e => e.group == g && e.name == n)).length ≤ 1 := by
  have hp := (keysDistinct_iff_pairwise _).mp (C09_keys_unique thr evs).2
  generalize (run thr {} evs).1.q.toList = l at hp
  induction l with
  | nil => simp
  | cons x l ih =>
    rw [List.pairwise_cons] at hp
    rw [List.filter_cons]
    split
    · rename_i hx
      have hx' : x.group = g ∧ x.name = n := by simpa using hx
      have : l.filter (fun e => e.group == g && e.name == n) = [] := by
        rw [List.filter_eq_nil_iff]
        intro y hy hyk
        have hy' : y.group = g ∧ y.name = n := by simpa using hyk
        exact hp.1 y hy ⟨by rw [hx'.2, hy'.2], by rw [hx'.1, hy'.1]⟩
      rw [this]; simp
    · exact ih hp.2

/-- `ScheduleJob` with `Replace` on an existing key: it succeeds unless the arguments are illegal or the
trigger fails, and afterwards the registry is the old one with `old` taken out and the new entry
(new tag, new trigger, its own first fire time) put in: exactly one entry with that key, every other
entry untouched. -/
theorem C09_replace_exact (s : SState) (now : Int) (a : SchedArgs) (old : Entry) (h : Inv s.q)
    (ho : old ∈ s.q.toList) (hk : old.group = a.group ∧ old.name = a.name) (hr : a.replace = true)
    (hl : ¬ a.illegal) (hf : ¬ a.trigFails now) :
    (schedule s now a).2.1 = none ∧
    ∃ p, (a.suspended = true ∧ p = maxInt64 ∨
          a.suspended = false ∧ ∃ t, a.trig = some t ∧ (t.fire now).1 = some p) ∧
      (schedule s now a).1.q.toList.Perm (a.entry p :: s.q.toList.erase old) ∧
      (∀ x ∈ (schedule s now a).1.q.toList, x.group = a.group ∧ x.name = a.name → x = a.entry p) ∧
      (∀ x ∈ (schedule s now a).1.q.toList, x ≠ a.entry p → x ∈ s.q.toList ∧ x ≠ old) ∧
      (∀ x ∈ s.q.toList, x ≠ old → x ∈ (schedule s now a).1.q.toList) := by
  have hkey : hasKey s.q a.group a.name := ⟨old, ho, hk⟩
  rcases schedule_cases s now a with ⟨hl', _⟩ | ⟨_, hf', _⟩ |
    ⟨_, _, t, p, t', calls, ht, hpc, ⟨e, hq, hs⟩ | ⟨q', hq, hs⟩⟩
  · exact absurd hl' hl
  · exact absurd hf' hf
  · rcases sched_push_cases s.q a p h with ⟨_, _, hr'⟩ | ⟨hnk, _⟩ | ⟨_, _, q'', _, _, _, hq', _⟩
    · rw [hr] at hr'; cases hr'
    · exact absurd hkey hnk
    · rw [hq] at hq'; cases hq'
  · obtain ⟨q'', hq', hperm⟩ := C11_push_replace s.q (a.entry p) old h ho hk hr
    rw [hq] at hq'
    injection hq' with hq'
    subst hq'
    have hinv : Inv q' := qpush_inv s.q q' _ h hq
    rw [hs]
    refine ⟨rfl, p, ?_, hperm, ?_, ?_, ?_⟩
    · rcases hpc with ⟨h1, h2, _, _⟩ | ⟨h1, h2, _, _⟩
      · exact Or.inl ⟨h1, h2⟩
      · exact Or.inr ⟨h1, t, ht, h2⟩
    · intro x hx hxk
      exact keysDistinct_unique q' hinv.2 x (a.entry p) hx (hperm.mem_iff.mpr List.mem_cons_self)
        ⟨hxk.2, hxk.1⟩
    · intro x hx hne
      rcases List.mem_cons.mp (hperm.mem_iff.mp hx) with h1 | h1
      · exact absurd h1 hne
      · exact (mem_erase_iff_of_inv h old x).mp h1
    · intro x hx hne
      exact hperm.mem_iff.mpr (List.mem_cons_of_mem _ ((mem_erase_iff_of_inv h old x).mpr ⟨hx, hne⟩))

/-- without `Replace` the same call fails with `jobAlreadyExists` and (C09_schedule_error_unchanged)
changes nothing -/
theorem C09_no_replace_rejected (s : SState) (now : Int) (a : SchedArgs) (h : Inv s.q)
    (hk : hasKey s.q a.group a.name) (hr : a.replace = false) (hl : ¬ a.illegal)
    (hf : ¬ a.trigFails now) : (schedule s now a).2.1 = some .jobAlreadyExists :=
  (C09_schedule_error_iff s now a h).2.2.1.mpr ⟨hl, hf, hk, hr⟩


/-! ## non-vacuity: a concrete registry with an active, a paused and an expired-trigger job -/
namespace C09Ex

def exA : SchedArgs := { group := "g", name := "a", tag := 1, trig := some (.simple 10) }
def exB : SchedArgs := { group := "g", name := "b", tag := 2, trig := some (.runOnce 5 false) }
def exC : SchedArgs := { group := "h", name := "c", tag := 3, trig := some (.script [some 7, none]), suspended := true }
/-- same key as `exA`, new trigger object, Replace set -/
def exA' : SchedArgs := { group := "g", name := "a", tag := 4, trig := some (.fixed 42), replace := true }
/-- a trigger that fails at once -/
def exD : SchedArgs := { group := "g", name := "d", tag := 5, trig := some (.script []) }
def exNoName : SchedArgs := { group := "g", name := "", tag := 6, trig := some (.fixed 1) }

def exHist : List Ev := [.schedule 0 exA, .schedule 1 exB, .schedule 2 exC, .pause true "g" "b"]
/-- three jobs: `g/a` active (fires at 10), `g/b` paused with an already used run-once trigger,
`h/c` scheduled suspended -/
def exS : SState := (run 3 {} exHist).1

theorem exS_inv : Inv exS.q := C09_keys_unique 3 exHist

example : exS.q.toList.map (fun e => (e.group, e.name, e.prio, e.suspended, e.tag)) =
    [("g", "a", 10, false, 1), ("h", "c", maxInt64, true, 3), ("g", "b", maxInt64, true, 2)] := by
  decide +kernel

-- every sentinel of every call occurs (so every branch of the `_iff` theorems and the hypotheses of the
-- `_unchanged` theorems are inhabited)
example : (schedule exS 5 exNoName).2.1 = some .illegalArgument := by decide +kernel
example : (schedule exS 5 { exA with trig := none }).2.1 = some .illegalArgument := by decide +kernel
example : (schedule exS 5 exD).2.1 = some .triggerError := by decide +kernel
example : (schedule exS 5 { exA with tag := 9 }).2.1 = some .jobAlreadyExists := by decide +kernel
example : (schedule exS 5 exA').2.1 = none := by decide +kernel
example : (delete exS false "g" "a").2 = some .illegalArgument := by decide +kernel
example : (delete exS true "g" "zz").2 = some .jobNotFound := by decide +kernel
example : (delete exS true "g" "a").2 = none := by decide +kernel
example : (pause exS false "g" "a").2 = some .illegalArgument := by decide +kernel
example : (pause exS true "x" "a").2 = some .jobNotFound := by decide +kernel
example : (pause exS true "g" "b").2 = some .jobIsSuspended := by decide +kernel
example : (pause exS true "g" "a").2 = none := by decide +kernel
example : (resume exS 9 false "g" "a").2.1 = some .illegalArgument := by decide +kernel
example : (resume exS 9 true "x" "a").2.1 = some .jobNotFound := by decide +kernel
example : (resume exS 9 true "g" "a").2.1 = some .jobIsActive := by decide +kernel
-- the run-once trigger of `g/b` was used up by `ScheduleJob`: resuming fails and the job stays (paused)
example : (resume exS 9 true "g" "b").2.1 = some .triggerError ∧
    (resume exS 9 true "g" "b").1.q = exS.q := by decide +kernel
example : (resume exS 9 true "h" "c").2.1 = none := by decide +kernel
-- `C09_replace_exact`: its hypotheses hold for `exA'` over `exS`, and this is what comes out
example : ∃ old ∈ exS.q.toList, (old.group = exA'.group ∧ old.name = exA'.name) ∧ exA'.replace = true ∧
    ¬ exA'.illegal ∧ ¬ exA'.trigFails 5 := by
  refine ⟨{ group := "g", name := "a", prio := 10, tag := 1 }, by decide +kernel, ⟨rfl, rfl⟩, rfl,
    by decide, ?_⟩
  rintro ⟨_, t, ht, hf⟩
  injection ht with ht
  subst ht
  cases hf
example : (schedule exS 5 exA').1.q.toList.map (fun e => (e.group, e.name, e.prio, e.tag)) =
    [("g", "a", 42, 4), ("h", "c", maxInt64, 3), ("g", "b", maxInt64, 2)] := by decide +kernel

end C09Ex

end Sched
