import QuartzModel.Sched.Model
import QuartzModel.Sched.History
import QuartzModel.Theorems.C11
import QuartzModel.Proofs.SchedLemmas
/-!
# C03 — a job is executed only in response to a fire time produced by its own trigger,
never before that fire time, and at most once per fire time

"... under spurious or stale timer wake-ups and concurrent queue changes": in the model a loop step
(`step`, Go `fetchAndReschedule`) may happen at ANY clock reading `now` and in any interleaving with
the API operations (`Ev`, `run` in `Sched/History.lean`); all of them are atomic because the Go code
runs each under `queueLocker`.  Clock readings are not assumed monotone anywhere in this file.
-/
namespace Sched
open Queue

/-! ## one step -/

/-- a step that dispatches has popped an entry -/
theorem C03_dispatch_has_entry (s : SState) (now thr : Int)
    (hd : (step s now thr).2.dispatched = true) : ∃ e, (step s now thr).2.popped = some e := by
  rcases step_out_basic s now thr with ⟨_, hs⟩ | ⟨q1, e, _, hp, _⟩
  · rw [hs] at hd; cases hd
  · exact ⟨e, hp⟩

/-- Never early (and never later than the threshold allows, and never a suspended job): a step at
clock reading `now` that hands entry `e` to a worker has `e.prio ≤ now`, `now - thr ≤ e.prio`,
`e.suspended = false`.  No assumption on the state. -/
theorem C03_never_early (s : SState) (now thr : Int) (e : Entry)
    (hd : (step s now thr).2.dispatched = true) (hp : (step s now thr).2.popped = some e) :
    e.prio ≤ now ∧ now - thr ≤ e.prio ∧ e.suspended = false ∧
      (step s now thr).2.cls = some .valid := by
  rcases step_out_basic s now thr with ⟨_, hs⟩ | ⟨q1, e', _, hp', hc, hd', _⟩
  · rw [hs] at hd; cases hd
  · rw [hp] at hp'
    injection hp' with hp'
    subst hp'
    rw [hd'] at hd
    have hv : classify e now thr = .valid := by simpa using hd
    rcases classify_cases e now thr with ⟨h1, _⟩ | ⟨h1, _⟩ | ⟨h1, _⟩ | ⟨_, h2, h3, h4⟩
    · rw [hv] at h1; cases h1
    · rw [hv] at h1; cases h1
    · rw [hv] at h1; cases h1
    · exact ⟨h4, h3, h2, by rw [hc, hv]⟩

/-- The dispatched entry is the one `Pop` returned, it was a member of the registry, and it had the
minimum next-run time of the whole registry. -/
theorem C03_dispatch_is_popped_min (s : SState) (now thr : Int) (h : Inv s.q)
    (hd : (step s now thr).2.dispatched = true) :
    ∃ q1 e, qpop s.q = .ok (q1, e) ∧ (step s now thr).2.popped = some e ∧ e ∈ s.q.toList ∧
      s.q.toList.Perm (e :: q1.toList) ∧ ∀ x ∈ s.q.toList, e.prio ≤ x.prio := by
  rcases step_out_basic s now thr with ⟨_, hs⟩ | ⟨q1, e, hq, hp, _⟩
  · rw [hs] at hd; cases hd
  · obtain ⟨q1', e', hq', hperm, _, hmin, _⟩ := qpop_spec s.q h (qpop_ok_nonempty s.q q1 e hq)
    rw [hq] at hq'
    injection hq' with hq'
    injection hq' with h1 h2
    subst h1; subst h2
    exact ⟨q1, e, hq, hp, hperm.mem_iff.mpr List.mem_cons_self, hperm, hmin⟩


/-! ## whole histories -/

/-- **Own trigger, at most once per produced fire time.**  For every history from the empty scheduler
in which each `ScheduleJob` brings its own trigger object (`FreshTags`) — API calls and loop steps in
any order, at any (also non-monotone) clock readings — there is an injection `m` from the dispatches
of the history into the trigger-call log: the `i`-th dispatch (tag `t`, fire time `f`) is matched with
call number `m[i]`, which
* happened EARLIER (`m[i] < d.pos`, `d.pos` = length of the call log when the dispatching step began,
  see `mem_dispatchesFrom`),
* was made on the job's own trigger object (same tag) and
* answered exactly `f`;
and no call is matched twice (`m.Nodup`).  So every execution answers a fire time produced by the job's
own trigger, and no produced fire time is executed twice. -/
theorem C03_own_trigger_once (thr : Int) (evs : List Ev) (hft : FreshTags evs) :
    ∃ m : List Nat, m.Nodup ∧
      AllPairs (fun d k => k < d.pos ∧
          ∃ pv, (callLog (run thr {} evs).2)[k]? = some ⟨d.tag, pv, some d.time⟩)
        (dispatches (run thr {} evs).2) m := by
  obtain ⟨m, _, h2, h3⟩ := own_trigger_aux thr evs {} [] [] wf_empty hft (freshFor_empty _)
    (fun x hx => by simp at hx) (fun k hk => by cases hk)
  exact ⟨m, h2, by simpa [dispatches] using h3⟩

/-- reading 1: every dispatch answers an earlier call on its own trigger with that very result -/
theorem C03_dispatch_answers_own_trigger (thr : Int) (evs : List Ev) (hft : FreshTags evs)
    (d : Disp) (hd : d ∈ dispatches (run thr {} evs).2) :
    ∃ k pv, k < d.pos ∧ (callLog (run thr {} evs).2)[k]? = some ⟨d.tag, pv, some d.time⟩ := by
  obtain ⟨m, _, hm⟩ := C03_own_trigger_once thr evs hft
  obtain ⟨i, hi, hget⟩ := List.getElem_of_mem hd
  have hi' : i < m.length := by rw [← hm.length_eq]; exact hi
  obtain ⟨h1, pv, h2⟩ := hm.get i hi hi'
  rw [hget] at h1 h2
  exact ⟨m[i], pv, h1, h2⟩

/-- reading 2: a fire time the trigger produced once is executed at most once -/
theorem C03_at_most_once (thr : Int) (evs : List Ev) (hft : FreshTags evs) (t : Nat) (f : Int)
    (huniq : ∀ (k k' : Nat) (pv pv' : Int), (callLog (run thr {} evs).2)[k]? = some (⟨t, pv, some f⟩ : TrigCall) →
      (callLog (run thr {} evs).2)[k']? = some (⟨t, pv', some f⟩ : TrigCall) → k = k')
    (i j : Nat) (hi : i < (dispatches (run thr {} evs).2).length)
    (hj : j < (dispatches (run thr {} evs).2).length)
    (hdi : (dispatches (run thr {} evs).2)[i].tag = t ∧ (dispatches (run thr {} evs).2)[i].time = f)
    (hdj : (dispatches (run thr {} evs).2)[j].tag = t ∧ (dispatches (run thr {} evs).2)[j].time = f) :
    i = j := by
  obtain ⟨m, hnd, hm⟩ := C03_own_trigger_once thr evs hft
  have hi' : i < m.length := by rw [← hm.length_eq]; exact hi
  have hj' : j < m.length := by rw [← hm.length_eq]; exact hj
  obtain ⟨_, pv, h2⟩ := hm.get i hi hi'
  obtain ⟨_, pv', h2'⟩ := hm.get j hj hj'
  rw [hdi.1, hdi.2] at h2
  rw [hdj.1, hdj.2] at h2'
  have := huniq _ _ _ _ h2 h2'
  have hpw := List.pairwise_iff_getElem.mp hnd
  rcases Nat.lt_trichotomy i j with hlt | heq | hgt
  · exact absurd this (hpw i j hi' hj' hlt)
  · exact heq
  · exact absurd this.symm (hpw j i hj' hi' hgt)

/-! ## non-vacuity -/
namespace C03Ex

def exA : SchedArgs := { group := "g", name := "a", tag := 1, trig := some (.simple 10) }
def exB : SchedArgs := { group := "g", name := "b", tag := 2, trig := some (.runOnce 5 false) }
def exA' : SchedArgs := { group := "g", name := "a", tag := 3, trig := some (.simple 4), replace := true }

/-- schedule two jobs; spurious early wake-up (step 3); both run; a stale late wake-up (step 100, more
than `thr = 5` late: misfire, re-based); pause / resume; replace; delete; clock readings not monotone -/
def exHist : List Ev :=
  [.schedule 0 exA, .schedule 1 exB, .step 3, .step 6, .step 10, .step 11, .step 100, .step 110,
   .pause true "g" "a", .step 200, .resume 50 true "g" "a", .step 60, .schedule 61 exA', .step 65,
   .delete true "g" "a", .step 70]

example : FreshTags exHist := by decide
-- the dispatches (position in the call log, tag, fire time) and the call log of that history
example : dispatches (run 5 {} exHist).2 =
    [⟨2, 2, 6⟩, ⟨3, 1, 10⟩, ⟨5, 1, 110⟩, ⟨7, 1, 60⟩, ⟨9, 3, 65⟩] := by decide +kernel
example : callLog (run 5 {} exHist).2 =
    [⟨1, 0, some 10⟩, ⟨2, 1, some 6⟩, ⟨2, 6, none⟩, ⟨1, 10, some 20⟩, ⟨1, 100, some 110⟩,
     ⟨1, 110, some 120⟩, ⟨1, 50, some 60⟩, ⟨1, 60, some 70⟩, ⟨3, 61, some 65⟩, ⟨3, 65, some 69⟩] := by
  decide +kernel
-- single-step theorems: a dispatching step (hypotheses of `C03_never_early`, `C03_dispatch_is_popped_min`)
example : (step (run 5 {} [.schedule 0 exA, .schedule 1 exB]).1 6 5).2.dispatched = true ∧
    (step (run 5 {} [.schedule 0 exA, .schedule 1 exB]).1 6 5).2.popped =
      some { group := "g", name := "b", prio := 6, tag := 2 } := by decide +kernel
-- ... and the same state stepped too early or far too late does not dispatch
example : (step (run 5 {} [.schedule 0 exA, .schedule 1 exB]).1 5 5).2.dispatched = false ∧
    (step (run 5 {} [.schedule 0 exA, .schedule 1 exB]).1 12 5).2.dispatched = false := by decide +kernel

end C03Ex

end Sched
