import QuartzModel.Sched.Pool
import QuartzModel.Proofs.PoolLemmas
import QuartzModel.Generated.Facts
/-!
# C12 — execution modes bound concurrency as configured and keep jobs independent

Model: `QuartzModel/Sched/Pool.lean` (the dispatch switch of `executeAndReschedule`, `startWorkers`, the
unbuffered `dispatch` channel; quartz/scheduler.go). Every theorem quantifies over ALL reachable states, i.e.
over every interleaving of the loop, the workers, the per-execution goroutines and the arrival of due jobs,
with jobs that finish at arbitrary times or never.

The general theorems are stated for an arbitrary `code : Code` with the hypothesis `code = Code.std`;
`C12_facts` discharges that hypothesis for the shape regenerated from the source (`Generated.Pool`), and the
`…_code` corollaries are the statements about the code as it is now.
-/
namespace Pool

/-! ## the regenerated facts -/

def guardOfCode : Nat → Option Guard
  | 0 => some .blockingSet
  | 1 => some .limitPos
  | 2 => some .dflt
  | _ => none

def armOfCode : Nat → Arm
  | 0 => .inline
  | 1 => .handoff
  | 2 => .spawn
  | _ => .skip

/-- the `Code` the extractor read from quartz/scheduler.go; an unrecognised case condition yields `none` -/
def codeOfFacts : Option Code :=
  (Generated.Pool.switchCases.mapM (fun p => (guardOfCode p.1).map (fun g => (g, armOfCode p.2)))).map fun sw =>
    { dispatchCap := Generated.Pool.dispatchCap, switch := sw,
      workersNotBlocking := Generated.Pool.workersGuard.contains 0,
      workersLimitPos := Generated.Pool.workersGuard.contains 1 }

/-- one hand-off channel per run, as read from `Start` -/
def runsCodeOfFacts : RunsCode := { perRun := Generated.Pool.dispatchPerRun }

/-- The source has the shape the theorems are about: `dispatch` is unbuffered, made once per run in `Start` and
    that one value is handed to the loop and to the workers of the run (nothing else is called dispatch); the switch is
    `case BlockingExecution` (inline) / `case WorkerLimit > 0` (send on dispatch or ctx.Done) / `default` (go);
    `startWorkers` is guarded by exactly `!BlockingExecution && WorkerLimit > 0`, starts one goroutine per
    `i < WorkerLimit`, and a worker receives a job only between executions. -/
theorem C12_facts :
    codeOfFacts = some Code.std ∧ Generated.Pool.workersGuard = [0, 1] ∧
      Generated.Pool.workerLoopStd = true ∧ Generated.Pool.workerBodyStd = true ∧
      runsCodeOfFacts = RunsCode.std := by
  decide

/-! ## blocking mode -/

/-- With BlockingExecution at most one job execution is in progress, in every reachable state. -/
theorem C12_blocking_le_one (code : Code) (hc : code = Code.std) (c : Cfg) (hb : c.blocking = true)
    (s : St) (hr : Reach code c s) : inflight s ≤ 1 := by
  subst hc
  obtain ⟨hw, hsp, _⟩ := reach_inv Code.std c InvBlocking (invBlocking_init c hb) (invBlocking_step c hb) s hr
  simp only [inflight, busy, hw, hsp]
  split <;> simp

/-- BlockingExecution together with WorkerLimit > 0: no worker goroutine exists, nothing is ever handed off or
    spawned, at most one execution is in flight, and the system is step-for-step the one with WorkerLimit = 0. -/
theorem C12_blocking_ignores_worker_limit (code : Code) (hc : code = Code.std) (c : Cfg)
    (hb : c.blocking = true) :
    (∀ s, Reach code c s → s.workers = [] ∧ s.spawned = 0 ∧ s.chan = 0 ∧ inflight s ≤ 1) ∧
    (∀ p, init code c p = init code { c with workerLimit := 0 } p) ∧
    (∀ s a, step code c s a = step code { c with workerLimit := 0 } s a) ∧
    (∀ s, Reach code c s ↔ Reach code { c with workerLimit := 0 } s) := by
  have hb0 : ({ c with workerLimit := 0 } : Cfg).blocking = true := hb
  have hinit : ∀ p, init code c p = init code { c with workerLimit := 0 } p := by
    intro p; subst hc
    simp [init, workers_std_blocking c hb, workers_std_blocking _ hb0]
  have hstep : ∀ s a, step code c s a = step code { c with workerLimit := 0 } s a := by
    intro s a; subst hc
    cases a <;> simp [step, arm_std_blocking c hb, arm_std_blocking _ hb0]
  have hrun : ∀ as s, run code c s as = run code { c with workerLimit := 0 } s as := by
    intro as
    induction as with
    | nil => intro s; rfl
    | cons a as ih =>
      intro s
      simp only [run, hstep s a]
      cases step code { c with workerLimit := 0 } s a with
      | none => rfl
      | some s1 => simpa using ih s1
  refine ⟨?_, hinit, hstep, ?_⟩
  · intro s hr
    have hle := C12_blocking_le_one code hc c hb s hr
    subst hc
    obtain ⟨hw, hsp, hch⟩ :=
      reach_inv Code.std c InvBlocking (invBlocking_init c hb) (invBlocking_step c hb) s hr
    exact ⟨hw, hsp, hch, hle⟩
  · intro s
    constructor
    · rintro ⟨p, as, h⟩; exact ⟨p, as, by rw [← hinit, ← hrun]; exact h⟩
    · rintro ⟨p, as, h⟩; exact ⟨p, as, by rw [hinit, hrun]; exact h⟩

/-! ## worker pool -/

/-- With WorkerLimit n the executions in flight are exactly the busy workers, and there are at most n. -/
theorem C12_pool_le_n (code : Code) (hc : code = Code.std) (c : Cfg) (hb : c.blocking = false)
    (hn : 0 < c.workerLimit) (s : St) (hr : Reach code c s) :
    inflight s = busy s ∧ busy s ≤ c.workerLimit := by
  subst hc
  obtain ⟨hpc, hsp, hw, _⟩ :=
    reach_inv Code.std c (InvPool c.workerLimit) (invPool_init c hb hn) (invPool_step c hb hn) s hr
  refine ⟨by simp [inflight, hpc, hsp], ?_⟩
  rw [← hw]; exact List.count_le_length

/-- …and n can genuinely run in parallel: from n due jobs there is an interleaving in which no job ever
    finishes and n executions are in flight. -/
theorem C12_pool_reaches_n (code : Code) (hc : code = Code.std) (n : Nat) (hn : 0 < n) :
    ∃ as s, (∀ a ∈ as, a.isFinish = false) ∧
      run code { blocking := false, workerLimit := n } (init code { blocking := false, workerLimit := n } n) as = some s ∧
      inflight s = n ∧ busy s = n := by
  subst hc
  let c : Cfg := { blocking := false, workerLimit := n }
  have hw : (init Code.std c n).workers.length = n := by simp [init, workers_std_pool c rfl hn, c]
  have hb0 : busy (init Code.std c n) = 0 := by simp [busy, init, List.count_replicate]
  obtain ⟨as, s, hfin, hrun, _, hbusy, _⟩ :=
    fill c rfl hn n (init Code.std c n) rfl (by simp [init]) (by rw [hb0, hw]; omega)
  refine ⟨as, s, hfin, hrun, ?_, by omega⟩
  have := (C12_pool_le_n Code.std rfl c rfl hn s ⟨n, as, hrun⟩).1
  omega

/-- The only permitted delay: with all workers busy the loop, holding a job, has no enabled step at all — the
    send on the unbuffered channel completes only when a worker has returned to its `select`. -/
theorem C12_pool_full_blocks (code : Code) (hc : code = Code.std) (c : Cfg) (hb : c.blocking = false)
    (hn : 0 < c.workerLimit) (s : St) (hr : Reach code c s) (hpc : s.pc = .holding)
    (hfull : busy s = c.workerLimit) :
    (∀ a, a.isLoop = true → step code c s a = none) ∧
    (∀ i s', step code c s (.workerDone i) = some s' → ∃ s'', step code c s' (.handoff i) = some s'') := by
  subst hc
  obtain ⟨_, _, hw, _⟩ :=
    reach_inv Code.std c (InvPool c.workerLimit) (invPool_init c hb hn) (invPool_step c hb hn) s hr
  have harm := arm_std_pool c hb hn
  have hnone : ∀ i, s.workers[i]? ≠ some false :=
    all_busy_no_idle s.workers (by rw [hw]; exact hfull)
  have hcap : Code.std.dispatchCap = 0 := rfl
  constructor
  · intro a ha
    cases a <;> simp only [Act.isLoop] at ha <;> first | (cases ha; done) | simp [step, hpc, harm, hnone, hcap]
  · intro i s' h
    simp only [step] at h
    split at h <;> simp at h
    rename_i hi
    subst h
    have hlt : i < s.workers.length := by
      rcases Nat.lt_or_ge i s.workers.length with h | h
      · exact h
      · simp [List.getElem?_eq_none h] at hi
    have hsome : (step Code.std c { s with workers := s.workers.set i false } (.handoff i)).isSome = true := by
      simp [step, hpc, harm, List.getElem?_set_self hlt]
    exact Option.isSome_iff_exists.mp hsome

/-! ## unbounded mode -/

/-- With neither option no transition of the loop waits on a job: in every reachable state — whatever the
    number of executions in flight and whether or not they ever finish — the loop is never inside a job,
    a held job is dispatched by a step that is enabled now and returns the loop to idle, and a due job is
    fetched by a step that is enabled now. -/
theorem C12_unbounded_loop_never_waits (code : Code) (hc : code = Code.std) (c : Cfg)
    (hb : c.blocking = false) (hn : c.workerLimit = 0) (s : St) (hr : Reach code c s) :
    s.pc ≠ .executing ∧
    (s.pc = .holding → ∃ s', step code c s .spawn = some s' ∧ s'.pc = .idle ∧ s'.spawned = s.spawned + 1 ∧
        s'.pending = s.pending) ∧
    (s.pc = .idle → 0 < s.pending → ∃ s', step code c s .fetch = some s' ∧ s'.pc = .holding) ∧
    (∀ k a, (step code c { s with spawned := k } a).isSome = true → a.isLoop = true →
        (step code c s a).isSome = true) := by
  subst hc
  obtain ⟨hpc, _, _⟩ :=
    reach_inv Code.std c InvUnbounded (fun p => invUnbounded_init c hn p) (invUnbounded_step c hb hn) s hr
  have harm := arm_std_unbounded c hb hn
  refine ⟨hpc, ?_, ?_, ?_⟩
  · intro h
    exact ⟨{ s with pc := .idle, spawned := s.spawned + 1 }, by simp [step, h, harm], rfl, rfl, rfl⟩
  · intro h hp
    exact ⟨{ s with pc := .holding, pending := s.pending - 1 }, by simp [step, h, hp], rfl⟩
  · intro k a h ha
    cases a <;> simp only [Act.isLoop] at ha <;> first | (cases ha; done) | (simpa [step] using h)

/-- in unbounded mode any number of executions can be in flight at once, none of them finishing -/
theorem C12_unbounded_no_bound (code : Code) (hc : code = Code.std) (m : Nat) :
    ∃ as s, (∀ a ∈ as, a.isFinish = false) ∧
      run code { blocking := false, workerLimit := 0 } (init code { blocking := false, workerLimit := 0 } m) as = some s ∧
      inflight s = m := by
  subst hc
  let c : Cfg := { blocking := false, workerLimit := 0 }
  obtain ⟨as, s, hfin, hrun, hpc, hsp, hw⟩ := flood c rfl rfl m (init Code.std c m) rfl (by simp [init])
  refine ⟨as, s, hfin, hrun, ?_⟩
  have hw0 : s.workers = [] := by rw [hw]; simp [init, Code.workers, c]
  simp [inflight, busy, hpc, hsp, hw0, init]

/-! ## several runs side by side -/

/-- Workers of run `h` only ever execute jobs handed off by the loop of run `h` — in every reachable state of any
    number of runs living side by side (stopped runs whose workers are still busy included). Since a worker runs every
    job with the context of its own run, a job is always executed under the context of the run that dispatched it, and
    the executions of jobs of one run are confined to that run's own `n` workers (`C12_pool_le_n` applies per run). -/
theorem C12_handoff_within_run (code : RunsCode) (hc : code = RunsCode.std) (s : RSt) (hr : RReach code s)
    (h i g : Nat) (he : executes s h i g) : g = h := by
  subst hc
  obtain ⟨as, hrun⟩ := hr
  obtain ⟨r, hr1, hr2⟩ := he
  exact invR_run as rinit s (by intro h r hh; simp [rinit] at hh) hrun h r hr1 i g hr2

/-- Negative control — the defect repaired by the per-run channel. With ONE channel shared by all runs the following
    is reachable with WorkerLimit 1: run 0 is stopped while its worker is busy; run 1 starts; the stale worker comes
    back, finds a job of run 1 ready on the shared channel and takes it: it executes a job dispatched by the loop of
    run 1 under run 0's CANCELLED context, while run 1's own worker is busy too — two executions of run-1 jobs with
    WorkerLimit 1. With the channel per run the last step of the same trace is impossible. -/
theorem C12_stale_worker_steals_shared_channel :
    (∃ s r0 r1, RReach { perRun := false } s ∧ s.runs = [r0, r1] ∧
      executes s 0 0 1 ∧ r0.cancelled = true ∧ executes s 1 0 1 ∧ r1.cancelled = false ∧ r1.workers.length = 1) ∧
    rrun RunsCode.std rinit [.start 1, .fetch 0, .handoff 0 0 0, .cancel 0, .start 1, .workerDone 0 0, .fetch 1,
      .handoff 1 1 0, .fetch 1, .handoff 1 0 0] = none := by
  constructor
  · refine ⟨{ runs := [{ cancelled := true, loopAlive := true, holding := false, workers := [.busy 1] },
                       { cancelled := false, loopAlive := true, holding := false, workers := [.busy 1] }] },
      _, _, ⟨[.start 1, .fetch 0, .handoff 0 0 0, .cancel 0, .start 1, .workerDone 0 0, .fetch 1,
              .handoff 1 1 0, .fetch 1, .handoff 1 0 0], (by decide)⟩, rfl, ⟨_, rfl, rfl⟩, rfl, ⟨_, rfl, rfl⟩, rfl, rfl⟩
  · decide

/-! ## the statements for the code as read from the source -/

theorem C12_blocking_le_one_code (code : Code) (h : codeOfFacts = some code) (c : Cfg)
    (hb : c.blocking = true) (s : St) (hr : Reach code c s) : inflight s ≤ 1 :=
  C12_blocking_le_one code (by rw [C12_facts.1] at h; exact (Option.some.inj h).symm) c hb s hr

theorem C12_pool_le_n_code (code : Code) (h : codeOfFacts = some code) (c : Cfg) (hb : c.blocking = false)
    (hn : 0 < c.workerLimit) (s : St) (hr : Reach code c s) : inflight s = busy s ∧ busy s ≤ c.workerLimit :=
  C12_pool_le_n code (by rw [C12_facts.1] at h; exact (Option.some.inj h).symm) c hb hn s hr

theorem C12_unbounded_loop_never_waits_code (code : Code) (h : codeOfFacts = some code) (c : Cfg)
    (hb : c.blocking = false) (hn : c.workerLimit = 0) (s : St) (hr : Reach code c s) (hh : s.pc = .holding) :
    ∃ s', step code c s .spawn = some s' ∧ s'.pc = .idle :=
  let ⟨s', h1, h2, _⟩ := (C12_unbounded_loop_never_waits code
    (by rw [C12_facts.1] at h; exact (Option.some.inj h).symm) c hb hn s hr).2.1 hh
  ⟨s', h1, h2⟩

/-! ## non-vacuity and negative controls -/

/-- `C12_handoff_within_run` is not vacuous: a stale busy worker of run 0 beside a busy worker of run 1 is reachable
    for the code as it is -/
example : ∃ s, RReach RunsCode.std s ∧ executes s 0 0 0 ∧ executes s 1 0 1 :=
  ⟨{ runs := [{ cancelled := true, loopAlive := true, holding := false, workers := [.busy 0] },
              { cancelled := false, loopAlive := true, holding := false, workers := [.busy 1] }] },
   ⟨[.start 1, .fetch 0, .handoff 0 0 0, .cancel 0, .start 1, .fetch 1, .handoff 1 1 0], by decide⟩,
   ⟨_, rfl, rfl⟩, ⟨_, rfl, rfl⟩⟩

/-- blocking: one execution in flight is reachable (the bound 1 is attained) -/
example : ∃ s, Reach Code.std ⟨true, 4⟩ s ∧ inflight s = 1 :=
  ⟨_, ⟨1, [.fetch, .runInline], rfl⟩, by decide⟩

/-- pool with n = 3: three in flight, loop holding a fourth job and blocked -/
example : ∃ s, Reach Code.std ⟨false, 3⟩ s ∧ s.pc = .holding ∧ busy s = 3 :=
  ⟨_, ⟨4, [.fetch, .handoff 0, .fetch, .handoff 2, .fetch, .handoff 1, .fetch], rfl⟩, by decide⟩

/-- unbounded: a state with executions in flight, a held job and a due job is reachable -/
example : ∃ s, Reach Code.std ⟨false, 0⟩ s ∧ s.pc = .holding ∧ s.spawned = 2 ∧ 0 < s.pending :=
  ⟨_, ⟨4, [.fetch, .spawn, .fetch, .spawn, .fetch], rfl⟩, by decide⟩

/-- negative control (why capacity 0 is a fact the proof needs): with a buffered `dispatch` the loop is NOT
    blocked when all workers are busy -/
example : ∃ s, Reach { Code.std with dispatchCap := 1 } ⟨false, 1⟩ s ∧ s.pc = .holding ∧ busy s = 1 ∧
    (step { Code.std with dispatchCap := 1 } ⟨false, 1⟩ s .sendBuf).isSome = true :=
  ⟨_, ⟨2, [.fetch, .handoff 0, .fetch], rfl⟩, by decide⟩

/-- negative control (why the case order is a fact the proof needs): with the two cases swapped,
    BlockingExecution + WorkerLimit 2 reaches two executions in flight -/
example : ∃ s, Reach { Code.std with switch := [(.limitPos, .handoff), (.blockingSet, .inline), (.dflt, .spawn)],
                                       workersNotBlocking := false } ⟨true, 2⟩ s ∧ inflight s = 2 :=
  ⟨_, ⟨2, [.fetch, .handoff 0, .fetch, .handoff 1], rfl⟩, by decide⟩

end Pool
